import UmProofs.BrokerFailoverOwner
/-!
# C06 (d) — migration epochs and served addresses after `takeover_master`

What the code does, exactly (`takeover_entries`): with `pos` = the source and destination positions
named by the entries stored in the parts of chunk `k` that were served by the failing half,
every stored entry of the cluster whose source or destination position is in `pos` gets
`mm.epoch := new global epoch`; all other entries keep their epoch. Nothing else of an entry changes.
With `PosInv` and `TwinInv` every entry whose served source or destination address changes is in
that set (`moved_in_pos`).
-/
namespace Um.Broker.C06
open Um Um.Slots Um.Gen.Chunk

theorem mem_positionsOf {l : List MigStore} {m : MigStore} (h : m ∈ l) :
    srcPos m ∈ positionsOf l ∧ dstPos m ∈ positionsOf l := by
  unfold positionsOf
  simp only [List.mem_flatMap]
  exact ⟨⟨m, h, by simp [srcPos]⟩, ⟨m, h, by simp [dstPos]⟩⟩

theorem tkEntry_of_mem {pos : List (Nat × Nat)} {e : Nat} {m : MigStore} (h : srcPos m ∈ pos ∨ dstPos m ∈ pos) :
    tkEntry pos e m = bumpEpoch e m := by
  unfold tkEntry
  have : (pos.contains (srcPos m) || pos.contains (dstPos m)) = true := by
    simpa [List.contains_iff_mem] using h
  rw [if_pos this]

theorem tkEntry_bumpEpoch {pos : List (Nat × Nat)} {e : Nat} {m : MigStore} (h : srcPos m ∈ pos ∨ dstPos m ∈ pos) :
    tkEntry pos e (bumpEpoch e m) = tkEntry pos e m := by
  rw [tkEntry_of_mem (m := bumpEpoch e m) h, tkEntry_of_mem h]; rfl

/-- the part lists of chunk `q ∈ {0,1}` -/
def migOf (c : Chunk) (q : Nat) : List MigStore := if q = 0 then c.mig0 else c.mig1

theorem tfPos_of_moved {h q : Nat} {c : Chunk} (hq : q < 2) (hm : movedPart c.role h q = true) {m : MigStore}
    (hmem : m ∈ migOf c q) : srcPos m ∈ tfPos h c ∧ dstPos m ∈ tfPos h c := by
  have hq' : q = 0 ∨ q = 1 := by omega
  unfold tfPos
  rcases hq' with rfl | rfl
  · simp only [migOf, if_true] at hmem
    simp only [hm, if_true, List.mem_append]
    exact ⟨Or.inl (mem_positionsOf hmem).1, Or.inl (mem_positionsOf hmem).2⟩
  · simp only [migOf, if_neg (by omega : ¬ (1 = 0))] at hmem
    simp only [hm, if_true, List.mem_append]
    exact ⟨Or.inr (mem_positionsOf hmem).1, Or.inr (mem_positionsOf hmem).2⟩

/-- **what the two loops do to the stored entries** (no invariant needed): every part list of every
chunk is mapped through `tkEntry pos e` with `pos = tfPos h c` -/
theorem tkChunk_migs (k h e : Nat) (c : Chunk) (i : Nat) (x : Chunk) (hx : i = k → x = c) :
    (tkChunk k h e (tfPos h c) i x).mig0 = x.mig0.map (tkEntry (tfPos h c) e) ∧
    (tkChunk k h e (tfPos h c) i x).mig1 = x.mig1.map (tkEntry (tfPos h c) e) := by
  unfold tkChunk
  by_cases hik : i = k
  · have hxc := hx hik; subst hxc
    simp only [hik, if_true, bpChunk, tfChunk, bumpPeers_eq, bumpEntries_eq]
    constructor
    · by_cases hm : movedPart x.role h 0 = true
      · simp only [hm, if_true, List.map_map]
        apply List.map_congr_left
        intro m hmem
        exact tkEntry_bumpEpoch (Or.inl (tfPos_of_moved (q := 0) (by omega) hm (by simpa [migOf] using hmem)).1)
      · simp only [hm]; rfl
    · by_cases hm : movedPart x.role h 1 = true
      · simp only [hm, if_true, List.map_map]
        apply List.map_congr_left
        intro m hmem
        exact tkEntry_bumpEpoch (Or.inl (tfPos_of_moved (q := 1) (by omega) hm (by simpa [migOf] using hmem)).1)
      · simp only [hm]; rfl
  · simp only [hik, if_false]
    exact ⟨rfl, rfl⟩

/-- an entry changes at most its epoch -/
theorem tkEntry_fields (pos : List (Nat × Nat)) (e : Nat) (m : MigStore) :
    (tkEntry pos e m).ranges = m.ranges ∧ (tkEntry pos e m).isMigrating = m.isMigrating ∧
    srcPos (tkEntry pos e m) = srcPos m ∧ dstPos (tkEntry pos e m) = dstPos m ∧
    (tkEntry pos e m).mm.epoch = (if srcPos m ∈ pos ∨ dstPos m ∈ pos then e else m.mm.epoch) := by
  unfold tkEntry
  by_cases h : srcPos m ∈ pos ∨ dstPos m ∈ pos
  · have : (pos.contains (srcPos m) || pos.contains (dstPos m)) = true := by
      simpa [List.contains_iff_mem] using h
    rw [if_pos this, if_pos h]; exact ⟨rfl, rfl, rfl, rfl, rfl⟩
  · have : ¬ (pos.contains (srcPos m) || pos.contains (dstPos m)) = true := by
      simpa [List.contains_iff_mem] using h
    rw [if_neg this, if_neg h]; exact ⟨rfl, rfl, rfl, rfl, rfl⟩

/-! ## entries touching a moved part are in `pos` (needs `PosInv` + `TwinInv`) -/

/-- the position an entry is stored at: source for migrating-out entries, destination for importing ones -/
def ownPos (m : MigStore) : Nat × Nat := if m.isMigrating then srcPos m else dstPos m

theorem mem_migs {cl : Cluster} {m : MigStore} (h : m ∈ cl.migs) :
    ∃ (i : Nat) (x : Chunk) (q : Nat), cl.chunks[i]? = some x ∧ q < 2 ∧ m ∈ migOf x q := by
  unfold Cluster.migs at h
  simp only [List.mem_flatMap] at h
  obtain ⟨x, hx, hm⟩ := h
  obtain ⟨i, hi, rfl⟩ := List.getElem_of_mem hx
  simp only [Chunk.migs, List.mem_append] at hm
  rcases hm with hm | hm
  · exact ⟨i, _, 0, List.getElem?_eq_getElem hi, by omega, by simpa [migOf] using hm⟩
  · exact ⟨i, _, 1, List.getElem?_eq_getElem hi, by omega, by simpa [migOf] using hm⟩

theorem migOf_mem_migs {cl : Cluster} {i q : Nat} {x : Chunk} (hx : cl.chunks[i]? = some x) {m : MigStore}
    (hm : m ∈ migOf x q) : m ∈ cl.migs := by
  unfold Cluster.migs
  simp only [List.mem_flatMap]
  refine ⟨x, List.mem_of_getElem? hx, ?_⟩
  unfold migOf at hm
  simp only [Chunk.migs, List.mem_append]
  split at hm
  · exact Or.inl hm
  · exact Or.inr hm

/-- with `PosInv`, an entry is stored exactly in the part list its own position names -/
theorem stored_at_ownPos {cl : Cluster} (hpos : PosInv cl) {m : MigStore} (hm : m ∈ cl.migs)
    {k q : Nat} {c : Chunk} (hk : cl.chunks[k]? = some c) (ho : ownPos m = (k, q)) : q < 2 ∧ m ∈ migOf c q := by
  obtain ⟨i, x, q', hx, hq', hmem⟩ := mem_migs hm
  obtain ⟨p0, p1, -⟩ := hpos i x hx
  have hq'' : q' = 0 ∨ q' = 1 := by omega
  have : ownPos m = (i, q') := by
    rcases hq'' with rfl | rfl
    · exact p0 m (by simpa [migOf] using hmem)
    · exact p1 m (by simpa [migOf] using hmem)
  rw [this] at ho
  simp only [Prod.mk.injEq] at ho
  obtain ⟨rfl, rfl⟩ := ho
  rw [hk] at hx; cases hx
  exact ⟨hq', hmem⟩

/-- `TwinInv`: every stored entry has a twin of the opposite direction with the same meta -/
theorem twin_exists {cl : Cluster} (htw : TwinInv cl) {m : MigStore} (hm : m ∈ cl.migs) :
    ∃ m' ∈ cl.migs, m'.mm = m.mm ∧ m'.isMigrating = !m.isMigrating := by
  obtain ⟨hperm, -⟩ := htw
  by_cases hmig : m.isMigrating = true
  · have : (m.ranges, m.mm) ∈ (cl.migs.filter (·.isMigrating)).map fun m => (m.ranges, m.mm) :=
      List.mem_map.2 ⟨m, List.mem_filter.2 ⟨hm, hmig⟩, rfl⟩
    have := (hperm.mem_iff).1 this
    obtain ⟨m', hm', he⟩ := List.mem_map.1 this
    obtain ⟨hm'1, hm'2⟩ := List.mem_filter.1 hm'
    simp only [Prod.mk.injEq] at he
    refine ⟨m', hm'1, he.2, ?_⟩
    simp only [hmig, Bool.not_true]
    simpa using hm'2
  · have hmig' : m.isMigrating = false := by simpa using hmig
    have : (m.ranges, m.mm) ∈ (cl.migs.filter (fun m => !m.isMigrating)).map fun m => (m.ranges, m.mm) :=
      List.mem_map.2 ⟨m, List.mem_filter.2 ⟨hm, by simp [hmig']⟩, rfl⟩
    have := (hperm.mem_iff).2 this
    obtain ⟨m', hm', he⟩ := List.mem_map.1 this
    obtain ⟨hm'1, hm'2⟩ := List.mem_filter.1 hm'
    simp only [Prod.mk.injEq] at he
    refine ⟨m', hm'1, he.2, ?_⟩
    simp only [hmig', Bool.not_false]
    exact hm'2

/-- **every entry whose source or destination is a moved part of chunk `k` is re-issued** -/
theorem moved_in_pos {cl : Cluster} (hpos : PosInv cl) (htw : TwinInv cl) {k h : Nat} {c : Chunk}
    (hk : cl.chunks[k]? = some c) {m : MigStore} (hm : m ∈ cl.migs) {q : Nat}
    (hmv : movedPart c.role h q = true) (hend : srcPos m = (k, q) ∨ dstPos m = (k, q)) :
    srcPos m ∈ tfPos h c ∨ dstPos m ∈ tfPos h c := by
  obtain ⟨m', hm', hmm, hdir⟩ := twin_exists htw hm
  have hs' : srcPos m' = srcPos m := by simp [srcPos, hmm]
  have hd' : dstPos m' = dstPos m := by simp [dstPos, hmm]
  -- the entry (m or its twin) whose own position is the moved part
  have key : ∀ m0 ∈ cl.migs, srcPos m0 = srcPos m → dstPos m0 = dstPos m → ownPos m0 = (k, q) →
      srcPos m ∈ tfPos h c ∨ dstPos m ∈ tfPos h c := by
    intro m0 hm0 hs hd ho
    obtain ⟨hq, hmem⟩ := stored_at_ownPos hpos hm0 hk ho
    have := tfPos_of_moved hq hmv hmem
    rw [hs] at this
    exact Or.inl this.1
  cases hmig : m.isMigrating
  · -- m importing: own position is dst
    rcases hend with hsrc | hdst
    · refine key m' hm' hs' hd' ?_
      simp only [ownPos, hdir, hmig, Bool.not_false, if_true, hs', hsrc]
    · refine key m hm rfl rfl ?_
      simp [ownPos, hmig, hdst]
  · rcases hend with hsrc | hdst
    · refine key m hm rfl rfl ?_
      simp [ownPos, hmig, hsrc]
    · refine key m' hm' hs' hd' ?_
      simp [ownPos, hdir, hmig, hd', hdst]

/-! ## served addresses after the call -/

/-- total version of `chunk_part_to_node_index` -/
def ownerIdx (r : RolePos) (q : Nat) : Nat := (partToNodeIndex q r).getD 0

theorem half_tkChunk (k h e : Nat) (pos : List (Nat × Nat)) (i : Nat) (x : Chunk) (q : Nat)
    (hh : h < 2) (hq : q < 2) :
    halfProxy (tkChunk k h e pos i x) q =
      (if i = k ∧ movedPart x.role h q = true then proxyAtD x (1 - h) else halfProxy x q) ∧
    halfNode (tkChunk k h e pos i x) q =
      (if i = k ∧ movedPart x.role h q = true then nodeAtD x (peerIdx (ownerIdx x.role q)) else halfNode x q) := by
  obtain ⟨o, ho, ho4, hp, -, hmv, hnm⟩ := owner_newRole x.role h q hh hq
  have e1 : ∀ y : Chunk, y.proxy0 = x.proxy0 → y.proxy1 = x.proxy1 → ∀ t, y.proxyAt t = x.proxyAt t := by
    intro y a b t
    match t with
    | 0 => simp [Chunk.proxyAt, a]
    | 1 => simp [Chunk.proxyAt, b]
    | n + 2 => rfl
  have e2 : ∀ y : Chunk, y.node0 = x.node0 → y.node1 = x.node1 → y.node2 = x.node2 → y.node3 = x.node3 →
      ∀ t, y.nodeAt t = x.nodeAt t := by
    intro y a b c d t
    match t with
    | 0 => simp [Chunk.nodeAt, a]
    | 1 => simp [Chunk.nodeAt, b]
    | 2 => simp [Chunk.nodeAt, c]
    | 3 => simp [Chunk.nodeAt, d]
    | n + 4 => rfl
  have hP : (tkChunk k h e pos i x).proxyAt = x.proxyAt := by
    funext t; unfold tkChunk; split <;> exact e1 _ rfl rfl t
  have hN : (tkChunk k h e pos i x).nodeAt = x.nodeAt := by
    funext t; unfold tkChunk; split <;> exact e2 _ rfl rfl rfl rfl t
  unfold halfProxy halfNode
  rw [tkChunk_role, hP, hN]
  by_cases hik : i = k
  · by_cases hm : movedPart x.role h q = true
    · obtain ⟨a, b⟩ := hmv hm
      simp only [hik, hm, if_true, and_self, a, b, Option.bind_some, proxyAtD, nodeAtD, ownerIdx, ho,
        Option.getD_some]
    · have hm' : movedPart x.role h q = false := by simpa using hm
      obtain ⟨a, b⟩ := hnm hm'
      simp only [hik, hm', if_true, a, b, ho, hp, Option.bind_some, Bool.false_eq_true, and_false, if_false,
        and_self]
  · simp only [hik, if_false, false_and, and_self]

/-- the source (resp. destination) of `m` is a part of chunk `k` that was served by the failing half -/
def srcMoved (k h : Nat) (c : Chunk) (m : MigStore) : Prop :=
  m.mm.srcChunk = k ∧ movedPart c.role h m.mm.srcPart = true
def dstMoved (k h : Nat) (c : Chunk) (m : MigStore) : Prop :=
  m.mm.dstChunk = k ∧ movedPart c.role h m.mm.dstPart = true

instance (k h : Nat) (c : Chunk) (m : MigStore) : Decidable (srcMoved k h c m) := by unfold srcMoved; infer_instance
instance (k h : Nat) (c : Chunk) (m : MigStore) : Decidable (dstMoved k h c m) := by unfold dstMoved; infer_instance

theorem inRange_iff (m : MigStore) (n : Nat) :
    inRange m n = true ↔ m.mm.srcChunk < n ∧ m.mm.srcPart < 2 ∧ m.mm.dstChunk < n ∧ m.mm.dstPart < 2 := by
  simp [inRange, and_assoc]

/-- **served descriptor of a stored entry after the call** (`I'`) against before (`I`): the addresses
of a moved end become the partner proxy and the peer of the old owner node — the promoted
replica —, the addresses of an end that is not moved stay, and the epoch is the new epoch exactly
when the entry names a position in `pos` -/
theorem specInfo_after {cl : Cluster} {k h e : Nat} {c : Chunk} (hk : cl.chunks[k]? = some c) (hh : h < 2)
    {m : MigStore} (hin : inRange m cl.chunks.length = true) :
    let I := specInfo m cl.chunks
    let I' := specInfo (tkEntry (tfPos h c) e m) (tkChunks k h e c cl.chunks)
    I'.srcProxy = (if srcMoved k h c m then proxyAtD c (1 - h) else I.srcProxy) ∧
    I'.srcNode = (if srcMoved k h c m then nodeAtD c (peerIdx (ownerIdx c.role m.mm.srcPart)) else I.srcNode) ∧
    I'.dstProxy = (if dstMoved k h c m then proxyAtD c (1 - h) else I.dstProxy) ∧
    I'.dstNode = (if dstMoved k h c m then nodeAtD c (peerIdx (ownerIdx c.role m.mm.dstPart)) else I.dstNode) ∧
    I'.epoch = (if srcPos m ∈ tfPos h c ∨ dstPos m ∈ tfPos h c then e else I.epoch) := by
  obtain ⟨h1, h2, h3, h4⟩ := (inRange_iff m _).1 hin
  obtain ⟨-, -, hs, hd, hep⟩ := tkEntry_fields (tfPos h c) e m
  simp only [srcPos, dstPos, Prod.mk.injEq] at hs hd
  have gs : cl.chunks[m.mm.srcChunk]? = some cl.chunks[m.mm.srcChunk] := List.getElem?_eq_getElem h1
  have gd : cl.chunks[m.mm.dstChunk]? = some cl.chunks[m.mm.dstChunk] := List.getElem?_eq_getElem h3
  have hsk : m.mm.srcChunk = k → cl.chunks[m.mm.srcChunk] = c := by
    intro e; subst e; rw [gs] at hk; exact Option.some.inj hk
  have hdk : m.mm.dstChunk = k → cl.chunks[m.mm.dstChunk] = c := by
    intro e; subst e; rw [gd] at hk; exact Option.some.inj hk
  simp only [specInfo, hs.1, hs.2, hd.1, hd.2, tkChunks_get hk gs, tkChunks_get hk gd, gs, gd, Option.getD_some, hep]
  obtain ⟨a1, a2⟩ := half_tkChunk k h e (tfPos h c) m.mm.srcChunk cl.chunks[m.mm.srcChunk] m.mm.srcPart hh h2
  obtain ⟨b1, b2⟩ := half_tkChunk k h e (tfPos h c) m.mm.dstChunk cl.chunks[m.mm.dstChunk] m.mm.dstPart hh h4
  rw [a1, a2, b1, b2]
  unfold srcMoved dstMoved
  refine ⟨?_, ?_, ?_, ?_, trivial⟩
  · by_cases e : m.mm.srcChunk = k
    · rw [hsk e]
    · simp only [e, false_and, if_false]
  · by_cases e : m.mm.srcChunk = k
    · rw [hsk e]
    · simp only [e, false_and, if_false]
  · by_cases e : m.mm.dstChunk = k
    · rw [hdk e]
    · simp only [e, false_and, if_false]
  · by_cases e : m.mm.dstChunk = k
    · rw [hdk e]
    · simp only [e, false_and, if_false]

theorem inRange_of_posInv {cl : Cluster} (hpos : PosInv cl) {m : MigStore} (hm : m ∈ cl.migs) :
    inRange m cl.chunks.length = true := by
  have := clusterOk_of_posInv hpos
  unfold clusterOk at this
  rw [List.all_eq_true] at this
  obtain ⟨i, x, q, hx, hq, hmem⟩ := mem_migs hm
  have hx' := this x (List.mem_of_getElem? hx)
  simp only [chunkOk, Bool.and_eq_true, List.all_eq_true] at hx'
  unfold migOf at hmem
  split at hmem
  · exact hx'.1 m hmem
  · exact hx'.2 m hmem

/-- **(d)**: with `PosInv` and `TwinInv`, an entry with a moved end carries the new epoch afterwards,
and an entry without a moved end keeps all four served addresses -/
theorem moved_epoch {cl : Cluster} (hpos : PosInv cl) (htw : TwinInv cl) {k h e : Nat} {c : Chunk}
    (hk : cl.chunks[k]? = some c) (hh : h < 2) {m : MigStore} (hm : m ∈ cl.migs) :
    let I := specInfo m cl.chunks
    let I' := specInfo (tkEntry (tfPos h c) e m) (tkChunks k h e c cl.chunks)
    ((srcMoved k h c m ∨ dstMoved k h c m) → I'.epoch = e) ∧
    (¬ srcMoved k h c m → I'.srcProxy = I.srcProxy ∧ I'.srcNode = I.srcNode) ∧
    (¬ dstMoved k h c m → I'.dstProxy = I.dstProxy ∧ I'.dstNode = I.dstNode) := by
  have hin := inRange_of_posInv hpos hm
  obtain ⟨a, b, c', d, ep⟩ := specInfo_after (e := e) hk hh hin
  refine ⟨?_, ?_, ?_⟩
  · intro hmv
    have : srcPos m ∈ tfPos h c ∨ dstPos m ∈ tfPos h c := by
      rcases hmv with ⟨e1, e2⟩ | ⟨e1, e2⟩
      · exact moved_in_pos hpos htw hk hm e2 (Or.inl (by simp [srcPos, e1]))
      · exact moved_in_pos hpos htw hk hm e2 (Or.inr (by simp [dstPos, e1]))
    rw [ep, if_pos this]
  · intro hn; rw [a, b, if_neg hn, if_neg hn]; exact ⟨rfl, rfl⟩
  · intro hn; rw [c', d, if_neg hn, if_neg hn]; exact ⟨rfl, rfl⟩

end Um.Broker.C06
