import UmProofs.BrokerDefs
/-!
# C10 — store helpers, refusal while migrating, release of free chunks

`SameButEpoch s s'`: the two stores agree on everything except `globalEpoch`.
`Refused s p`: the operation result `p` is an error and the store is `SameButEpoch`.
-/
namespace Um.Broker.Scale
open Um Um.Slots Um.Broker

/-! ## store helpers -/

/-- equal up to the global epoch -/
def Store.SameButEpoch (s s' : Store) : Prop :=
  s'.clusters = s.clusters ∧ s'.proxies = s.proxies ∧ s'.failed = s.failed ∧ s'.failures = s.failures ∧
    s'.ordered = s.ordered

theorem Store.SameButEpoch.rfl' (s : Store) : Store.SameButEpoch s s := ⟨rfl, rfl, rfl, rfl, rfl⟩

theorem Store.sameButEpoch_bump (s : Store) : Store.SameButEpoch s s.bump := ⟨rfl, rfl, rfl, rfl, rfl⟩

theorem Store.SameButEpoch.trans {a b c : Store} (h1 : Store.SameButEpoch a b) (h2 : Store.SameButEpoch b c) :
    Store.SameButEpoch a c :=
  ⟨h2.1.trans h1.1, h2.2.1.trans h1.2.1, h2.2.2.1.trans h1.2.2.1, h2.2.2.2.1.trans h1.2.2.2.1,
    h2.2.2.2.2.trans h1.2.2.2.2⟩

@[simp] theorem Store.findCluster_bump (s : Store) (n : String) : s.bump.findCluster n = s.findCluster n := rfl

theorem Store.findCluster_of_same {s s' : Store} (h : Store.SameButEpoch s s') (n : String) :
    s'.findCluster n = s.findCluster n := by
  unfold Store.findCluster; rw [h.1]

theorem Store.findCluster_name {s : Store} {n : String} {cl : Cluster} (h : s.findCluster n = some cl) :
    cl.name = n := by
  unfold Store.findCluster at h
  have := List.find?_some h
  simpa using this

theorem Store.findCluster_mem {s : Store} {n : String} {cl : Cluster} (h : s.findCluster n = some cl) :
    cl ∈ s.clusters := List.mem_of_find?_eq_some h

/-- an operation result that is an error and changed at most the global epoch -/
def Refused {α : Type} (s : Store) (p : Store × R α) : Prop :=
  (∃ e, p.2 = R.err e) ∧ Store.SameButEpoch s p.1

theorem refused_same {α : Type} (s : Store) (e : Err) : Refused (α := α) s (s, R.err e) :=
  ⟨⟨e, rfl⟩, Store.SameButEpoch.rfl' s⟩

theorem refused_bump {α : Type} (s : Store) (e : Err) : Refused (α := α) s (s.bump, R.err e) :=
  ⟨⟨e, rfl⟩, Store.sameButEpoch_bump s⟩

/-! ## refusal while a migration is running -/

theorem autoAddNodes_refuse {s : Store} {name : String} {cl : Cluster} (num : Nat)
    (choice : List (String × String))
    (hf : s.findCluster name = some cl) (hm : cl.isMigrating = true) :
    Refused s (autoAddNodes s name num choice) := by
  unfold autoAddNodes
  split
  · exact refused_same s _
  · simp only [hf, hm, if_true]; exact refused_same s _

theorem autoScaleUpNodes_refuse {s : Store} {name : String} {cl : Cluster} (expected : Nat)
    (choice : List (String × String))
    (hf : s.findCluster name = some cl) (hm : cl.isMigrating = true) :
    Refused s (autoScaleUpNodes s name expected choice) := by
  unfold autoScaleUpNodes
  split
  · exact refused_same s _
  · simp only [hf]
    split
    · exact refused_same s _
    · exact autoAddNodes_refuse _ _ hf hm

theorem migrateSlots_refuse {s : Store} {name : String} {cl : Cluster}
    (hf : s.findCluster name = some cl) (hm : cl.isMigrating = true) :
    Refused s (migrateSlots s name) := by
  unfold migrateSlots
  split
  · exact refused_same s _
  · simp only [Store.findCluster_bump, hf, hm, if_true]
    split
    · exact refused_bump s _
    · exact refused_bump s _

theorem migrateSlotsToScaleDown_refuse {s : Store} {name : String} {cl : Cluster} (n : Nat)
    (hf : s.findCluster name = some cl) (hm : cl.isMigrating = true) :
    Refused s (migrateSlotsToScaleDown s name n) := by
  unfold migrateSlotsToScaleDown
  split
  · exact refused_same s _
  · simp only [Store.findCluster_bump, hf, hm, if_true]
    split
    · exact refused_bump s _
    · exact refused_bump s _

theorem autoDeleteFreeNodes_refuse {s : Store} {name : String} {cl : Cluster}
    (hf : s.findCluster name = some cl) (hm : cl.isMigrating = true) :
    Refused s (autoDeleteFreeNodes s name) := by
  unfold autoDeleteFreeNodes
  split
  · exact refused_same s _
  · simp only [hf, hm, if_true]; exact refused_same s _

theorem changeConfig_refuse {s : Store} {name : String} {cl : Cluster} (kvs : List (String × String))
    (hf : s.findCluster name = some cl) (hm : cl.isMigrating = true) :
    Refused s (changeConfig s name kvs) := by
  unfold changeConfig
  split
  · exact refused_same s _
  · simp only [hf, hm, if_true]; exact refused_same s _

theorem autoChangeNodeNumber_refuse {s : Store} {name : String} {cl : Cluster} (expected : Nat)
    (choice : List (String × String))
    (hf : s.findCluster name = some cl) (hm : cl.isMigrating = true) :
    Refused s (autoChangeNodeNumber s name expected choice) := by
  unfold autoChangeNodeNumber
  split
  · exact refused_same s _
  · simp only [hf, hm, if_true]; exact refused_same s _

/-- `auto_scale_out_node_number`: when it would migrate it is refused; otherwise it is refused
(invalid name) or is the identity answering `ok` -/
theorem autoScaleOutNodeNumber_refuse {s : Store} {name : String} {cl : Cluster} (expected : Nat)
    (hf : s.findCluster name = some cl) (hm : cl.isMigrating = true) :
    (cl.nodeNumWithSlots < expected → Refused s (autoScaleOutNodeNumber s name expected)) ∧
    (Refused s (autoScaleOutNodeNumber s name expected) ∨
      autoScaleOutNodeNumber s name expected = (s, R.ok ())) := by
  unfold autoScaleOutNodeNumber
  constructor
  · intro hlt
    split
    · exact refused_same s _
    · simp only [hf, hlt, if_true]; exact migrateSlots_refuse hf hm
  · split
    · exact Or.inl (refused_same s _)
    · simp only [hf]
      split
      · exact Or.inl (migrateSlots_refuse hf hm)
      · exact Or.inr rfl

end Um.Broker.Scale
