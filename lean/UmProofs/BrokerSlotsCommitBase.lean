import UmProofs.BrokerSlotsA
/-!
# C01, shared part: `ClusterInv`, list-level measures and the "one chunk replaced" toolkit

`ClusterInv cl := PosInv cl ∧ TwinInv cl ∧ SlotInv cl` only depends on `cl.chunks`; the
list-level versions (`PosL`, `TwinL`, `SlotL`, `InvL`) are definitionally the same statements on
`List Chunk`. Measures: `migsOf` (all entries, chunk/part/list order), `stableSlotsOf` and
`outSlots` (slots of stable lists / of migrating-out entries), with
`ownedOf cs ~ stableSlotsOf cs ++ outSlots (migsOf cs)`.
-/
namespace Um.Broker
open Um Um.Slots

/-! ## the invariant -/

/-- the per-cluster slot invariant of C01 -/
def ClusterInv (cl : Cluster) : Prop := PosInv cl ∧ TwinInv cl ∧ SlotInv cl

/-- every cluster of the store satisfies `ClusterInv` -/
def StoreInv (s : Store) : Prop := ∀ c ∈ s.clusters, ClusterInv c

/-! ## list toolkit -/

theorem flatMap_append_perm' {α β} (l : List α) (f g : α → List β) :
    (l.flatMap fun x => f x ++ g x).Perm (l.flatMap f ++ l.flatMap g) := by
  induction l with
  | nil => simp
  | cons a t ih =>
    simp only [List.flatMap_cons, List.append_assoc]
    refine List.Perm.append_left _ ?_
    refine (List.Perm.append_left _ ih).trans ?_
    exact List.perm_append_comm_assoc _ _ _

theorem flatMap_flatMap' {α β γ} (l : List α) (f : α → List β) (g : β → List γ) :
    (l.flatMap f).flatMap g = l.flatMap fun a => (f a).flatMap g := by
  induction l with
  | nil => rfl
  | cons a t ih => simp [List.flatMap_cons, List.flatMap_append, ih]

/-- a list splits around a valid index -/
theorem split_at_index {α} (l : List α) (i : Nat) (a : α) (h : l[i]? = some a) :
    ∃ pre post, l = pre ++ a :: post ∧ pre.length = i := by
  induction l generalizing i with
  | nil => simp at h
  | cons x t ih =>
    cases i with
    | zero => simp at h; subst h; exact ⟨[], t, rfl, rfl⟩
    | succ j =>
      simp at h
      obtain ⟨pre, post, h1, h2⟩ := ih j h
      exact ⟨x :: pre, post, by simp [h1], by simp [h2]⟩

theorem set_split {α} (pre post : List α) (a b : α) :
    (pre ++ a :: post).set pre.length b = pre ++ b :: post := by
  induction pre with
  | nil => rfl
  | cons x t ih => simp [ih]

theorem getElem?_split {α} (pre post : List α) (a : α) (j : Nat) :
    (pre ++ a :: post)[j]? = if j < pre.length then pre[j]? else if j = pre.length then some a
      else post[j - pre.length - 1]? := by
  rw [List.getElem?_append]
  split
  · rfl
  · split
    · next h => simp [h]
    · next h1 h2 =>
      obtain ⟨k, hk⟩ : ∃ k, j - pre.length = k + 1 := ⟨j - pre.length - 1, by omega⟩
      rw [hk, List.getElem?_cons_succ]; simp

/-- injectivity from `Nodup` of an image -/
theorem eq_of_nodup_map {α β} (f : α → β) (l : List α) (h : (l.map f).Nodup) (a b : α)
    (ha : a ∈ l) (hb : b ∈ l) (hab : f a = f b) : a = b := by
  induction l with
  | nil => cases ha
  | cons x t ih =>
    simp only [List.map_cons, List.nodup_cons, List.mem_map, not_exists, not_and] at h
    simp only [List.mem_cons] at ha hb
    rcases ha with ha | ha <;> rcases hb with hb | hb
    · rw [ha, hb]
    · subst ha; exact absurd hab.symm (h.1 b hb)
    · subst hb; exact absurd hab (h.1 a ha)
    · exact ih h.2 ha hb

theorem nodup_of_map_nodup {α β} (f : α → β) (l : List α) (h : (l.map f).Nodup) : l.Nodup := by
  induction l with
  | nil => exact List.nodup_nil
  | cons x t ih =>
    simp only [List.map_cons, List.nodup_cons, List.mem_map, not_exists, not_and] at h
    exact List.nodup_cons.mpr ⟨fun hx => h.1 x hx rfl, ih h.2⟩

/-- if the `flatMap` of non-empty blocks is duplicate-free, the blocks are pairwise different -/
theorem nodup_map_of_nodup_flatMap {α β} (f : α → List β) (l : List α)
    (hne : ∀ a ∈ l, f a ≠ []) (h : (l.flatMap f).Nodup) : (l.map f).Nodup := by
  induction l with
  | nil => exact List.nodup_nil
  | cons x t ih =>
    simp only [List.flatMap_cons] at h
    have h' := List.nodup_append.mp h
    simp only [List.map_cons, List.nodup_cons]
    refine ⟨?_, ih (fun a ha => hne a (by simp [ha])) h'.2.1⟩
    intro hmem
    obtain ⟨b, hb, hfb⟩ := List.mem_map.mp hmem
    have hx : f x ≠ [] := hne x (by simp)
    obtain ⟨y, hy⟩ := List.exists_mem_of_ne_nil _ hx
    have : y ∈ t.flatMap f := List.mem_flatMap.mpr ⟨b, hb, by rw [hfb]; exact hy⟩
    exact h'.2.2 y hy y this rfl

/-! ## measures on chunk lists -/

def migsOf (cs : List Chunk) : List MigStore := cs.flatMap Chunk.migs

def Chunk.owned (ch : Chunk) : List Nat :=
  (ch.stables.flatMap slotsOf) ++ ((ch.migs.filter (·.isMigrating)).flatMap fun m => slotsOf m.ranges)

def ownedOf (cs : List Chunk) : List Nat := cs.flatMap Chunk.owned

def Chunk.stableSlots (ch : Chunk) : List Nat := ch.stables.flatMap slotsOf

def stableSlotsOf (cs : List Chunk) : List Nat := cs.flatMap Chunk.stableSlots

/-- migrating-out entries -/
def outs (l : List MigStore) : List MigStore := l.filter (·.isMigrating)
/-- importing entries -/
def ins (l : List MigStore) : List MigStore := l.filter (fun m => !m.isMigrating)

def MigStore.key (m : MigStore) : RangeList × MigMeta := (m.ranges, m.mm)
def MigStore.ekey (m : MigStore) : RangeList × Nat := (m.ranges, m.mm.epoch)

def keys (l : List MigStore) : List (RangeList × MigMeta) := l.map MigStore.key

/-- slots of the migrating-out entries of a list -/
def outSlots (l : List MigStore) : List Nat := (outs l).flatMap fun m => slotsOf m.ranges

theorem Cluster.migs_eq (c : Cluster) : c.migs = migsOf c.chunks := rfl
theorem Cluster.ownedSlots_eq (c : Cluster) : c.ownedSlots = ownedOf c.chunks := rfl

@[simp] theorem migsOf_nil : migsOf [] = [] := rfl
@[simp] theorem migsOf_cons (c : Chunk) (cs : List Chunk) : migsOf (c :: cs) = c.migs ++ migsOf cs := by
  simp [migsOf]
@[simp] theorem migsOf_append (a b : List Chunk) : migsOf (a ++ b) = migsOf a ++ migsOf b := by
  simp [migsOf]
@[simp] theorem ownedOf_nil : ownedOf [] = [] := rfl
@[simp] theorem ownedOf_cons (c : Chunk) (cs : List Chunk) : ownedOf (c :: cs) = c.owned ++ ownedOf cs := by
  simp [ownedOf]
@[simp] theorem ownedOf_append (a b : List Chunk) : ownedOf (a ++ b) = ownedOf a ++ ownedOf b := by
  simp [ownedOf]
@[simp] theorem stableSlotsOf_nil : stableSlotsOf [] = [] := rfl
@[simp] theorem stableSlotsOf_cons (c : Chunk) (cs : List Chunk) :
    stableSlotsOf (c :: cs) = c.stableSlots ++ stableSlotsOf cs := by
  simp [stableSlotsOf]
@[simp] theorem stableSlotsOf_append (a b : List Chunk) :
    stableSlotsOf (a ++ b) = stableSlotsOf a ++ stableSlotsOf b := by
  simp [stableSlotsOf]

@[simp] theorem outs_nil : outs [] = [] := rfl
@[simp] theorem ins_nil : ins [] = [] := rfl
@[simp] theorem outs_append (a b : List MigStore) : outs (a ++ b) = outs a ++ outs b := by simp [outs]
@[simp] theorem ins_append (a b : List MigStore) : ins (a ++ b) = ins a ++ ins b := by simp [ins]
@[simp] theorem keys_nil : keys [] = [] := rfl
@[simp] theorem keys_append (a b : List MigStore) : keys (a ++ b) = keys a ++ keys b := by simp [keys]
@[simp] theorem outSlots_nil : outSlots [] = [] := rfl
@[simp] theorem outSlots_append (a b : List MigStore) : outSlots (a ++ b) = outSlots a ++ outSlots b := by
  simp [outSlots]

theorem outs_cons (m : MigStore) (l : List MigStore) :
    outs (m :: l) = if m.isMigrating then m :: outs l else outs l := by
  simp only [outs, List.filter_cons]
theorem ins_cons (m : MigStore) (l : List MigStore) :
    ins (m :: l) = if m.isMigrating then ins l else m :: ins l := by
  simp only [ins, List.filter_cons]; cases m.isMigrating <;> simp
theorem outSlots_cons (m : MigStore) (l : List MigStore) :
    outSlots (m :: l) = if m.isMigrating then slotsOf m.ranges ++ outSlots l else outSlots l := by
  simp only [outSlots, outs_cons]; split <;> simp

theorem mem_outs {m : MigStore} {l : List MigStore} : m ∈ outs l ↔ m ∈ l ∧ m.isMigrating = true := by
  simp [outs]
theorem mem_ins {m : MigStore} {l : List MigStore} : m ∈ ins l ↔ m ∈ l ∧ m.isMigrating = false := by
  simp [ins]

theorem Chunk.owned_eq (ch : Chunk) : ch.owned = ch.stableSlots ++ outSlots ch.migs := rfl

theorem outSlots_migsOf (cs : List Chunk) : outSlots (migsOf cs) = cs.flatMap fun c => outSlots c.migs := by
  induction cs with
  | nil => rfl
  | cons c t ih => simp [ih]

/-- owned slots = stable slots + migrating-out slots, up to order -/
theorem ownedOf_perm (cs : List Chunk) : (ownedOf cs).Perm (stableSlotsOf cs ++ outSlots (migsOf cs)) := by
  rw [outSlots_migsOf]
  exact flatMap_append_perm' cs Chunk.stableSlots fun c => outSlots c.migs

theorem mem_migsOf {m : MigStore} {cs : List Chunk} : m ∈ migsOf cs ↔ ∃ c ∈ cs, m ∈ c.migs := by
  simp [migsOf]

theorem Chunk.mem_migs {m : MigStore} {c : Chunk} : m ∈ c.migs ↔ m ∈ c.mig0 ∨ m ∈ c.mig1 := by
  simp [Chunk.migs]

/-! ## list-level invariants -/

def PosChunk (n i : Nat) (ch : Chunk) : Prop :=
  (∀ m ∈ ch.mig0, (if m.isMigrating then (m.mm.srcChunk, m.mm.srcPart) else (m.mm.dstChunk, m.mm.dstPart)) = (i, 0)) ∧
  (∀ m ∈ ch.mig1, (if m.isMigrating then (m.mm.srcChunk, m.mm.srcPart) else (m.mm.dstChunk, m.mm.dstPart)) = (i, 1)) ∧
  (∀ m ∈ ch.migs, m.mm.srcChunk < n ∧ m.mm.dstChunk < n ∧ m.mm.srcPart < 2 ∧ m.mm.dstPart < 2)

def PosL (cs : List Chunk) : Prop := ∀ (i : Nat) (ch : Chunk), cs[i]? = some ch → PosChunk cs.length i ch

def TwinL (cs : List Chunk) : Prop :=
  (keys (outs (migsOf cs))).Perm (keys (ins (migsOf cs))) ∧ ((outs (migsOf cs)).map MigStore.ekey).Nodup

def NormChunk (ch : Chunk) : Prop :=
  (∀ rl ∈ ch.stables, NormalRanges rl) ∧ ∀ m ∈ ch.migs, NormalRanges m.ranges ∧ m.ranges ≠ []

def NormL (cs : List Chunk) : Prop := ∀ ch ∈ cs, NormChunk ch

def SlotL (cs : List Chunk) : Prop := NormL cs ∧ (ownedOf cs).Perm (List.range SLOT_NUM)

def InvL (cs : List Chunk) : Prop := PosL cs ∧ TwinL cs ∧ SlotL cs

theorem posInv_iff (cl : Cluster) : PosInv cl ↔ PosL cl.chunks := Iff.rfl
theorem twinInv_iff (cl : Cluster) : TwinInv cl ↔ TwinL cl.chunks := Iff.rfl
theorem slotInv_iff (cl : Cluster) : SlotInv cl ↔ SlotL cl.chunks := Iff.rfl
theorem clusterInv_iff (cl : Cluster) : ClusterInv cl ↔ InvL cl.chunks := Iff.rfl

/-- `ClusterInv` only looks at the chunk list -/
theorem clusterInv_of_chunks_eq {cl cl' : Cluster} (h : cl'.chunks = cl.chunks) :
    ClusterInv cl → ClusterInv cl' := by
  rw [clusterInv_iff, clusterInv_iff, h]; exact id

/-! ## consequences of `SlotL` -/

theorem slotsOf_ne_nil (rl : RangeList) (hn : NormalRanges rl) (hne : rl ≠ []) : slotsOf rl ≠ [] := by
  cases rl with
  | nil => exact absurd rfl hne
  | cons r t =>
    have hr : r.1 ≤ r.2 := normalRanges_wf _ hn r (by simp)
    have : r.1 ∈ slotsOf (r :: t) := (mem_slotsOf _ _).mpr ⟨r, by simp, Nat.le_refl _, hr⟩
    intro h; rw [h] at this; cases this

theorem NormL.of_mem_migsOf {cs : List Chunk} (h : NormL cs) {m : MigStore} (hm : m ∈ migsOf cs) :
    NormalRanges m.ranges ∧ m.ranges ≠ [] := by
  obtain ⟨c, hc, hmc⟩ := mem_migsOf.mp hm
  exact (h c hc).2 m hmc

theorem SlotL.nodup_owned {cs : List Chunk} (h : SlotL cs) : (ownedOf cs).Nodup :=
  h.2.nodup_iff.mpr List.nodup_range

theorem SlotL.nodup_split {cs : List Chunk} (h : SlotL cs) :
    (stableSlotsOf cs ++ outSlots (migsOf cs)).Nodup :=
  (ownedOf_perm cs).nodup_iff.mp h.nodup_owned

theorem SlotL.nodup_out_ranges {cs : List Chunk} (h : SlotL cs) :
    ((outs (migsOf cs)).map (·.ranges)).Nodup := by
  have h1 : (outSlots (migsOf cs)).Nodup := (List.nodup_append.mp h.nodup_split).2.1
  have h2 : ((outs (migsOf cs)).map fun m => slotsOf m.ranges).Nodup := by
    apply nodup_map_of_nodup_flatMap _ _ _ h1
    intro m hm
    have := h.1.of_mem_migsOf (mem_outs.mp hm).1
    exact slotsOf_ne_nil _ this.1 this.2
  have h3 : ((outs (migsOf cs)).map fun m => slotsOf m.ranges) =
      ((outs (migsOf cs)).map (·.ranges)).map slotsOf := by simp
  rw [h3] at h2
  exact nodup_of_map_nodup _ _ h2

/-- the second half of `TwinInv` follows from `SlotInv` -/
theorem SlotL.nodup_ekey {cs : List Chunk} (h : SlotL cs) :
    ((outs (migsOf cs)).map MigStore.ekey).Nodup := by
  have h3 : ((outs (migsOf cs)).map (·.ranges)) = ((outs (migsOf cs)).map MigStore.ekey).map Prod.fst := by
    simp [MigStore.ekey]
  have := h.nodup_out_ranges
  rw [h3] at this
  exact nodup_of_map_nodup _ _ this

theorem nodup_keys_of_nodup_ekey {l : List MigStore} (h : (l.map MigStore.ekey).Nodup) : (keys l).Nodup := by
  have h3 : l.map MigStore.ekey = (keys l).map fun k => (k.1, k.2.epoch) := by
    simp [keys, MigStore.ekey, MigStore.key]
  rw [h3] at h
  exact nodup_of_map_nodup _ _ h

/-- merging two disjoint normal range lists: same slots, normal form -/
theorem mergeAnother_spec (a b : RangeList) (ha : NormalRanges a) (hb : NormalRanges b)
    (hd : ∀ x ∈ slotsOf a, x ∉ slotsOf b) :
    (slotsOf (mergeAnother a b)).Perm (slotsOf a ++ slotsOf b) ∧ NormalRanges (mergeAnother a b) := by
  unfold mergeAnother
  have hwf : WFRanges (a ++ b) := by
    intro r hr
    rcases List.mem_append.mp hr with h | h
    · exact normalRanges_wf a ha r h
    · exact normalRanges_wf b hb r h
  have hnd : (slotsOf (a ++ b)).Nodup := by
    rw [slotsOf_append]
    refine List.nodup_append.mpr ⟨nodup_slotsOf_of_normal a ha, nodup_slotsOf_of_normal b hb, ?_⟩
    intro x hx y hy hxy
    subst hxy
    exact hd x hx hy
  have := compact_spec (a ++ b) hwf hnd
  rw [slotsOf_append] at this
  exact this

/-! ## replacing one chunk -/

theorem flatMap_set_perm {α β} (f : α → List β) (cs : List α) (i : Nat) (c c' : α)
    (h : cs[i]? = some c) : ((cs.set i c').flatMap f ++ f c).Perm (cs.flatMap f ++ f c') := by
  obtain ⟨pre, post, h1, h2⟩ := split_at_index cs i c h
  subst h1; subst h2
  rw [set_split]
  simp only [List.flatMap_append, List.flatMap_cons, List.append_assoc]
  refine List.Perm.append_left _ ?_
  -- f c' ++ (P ++ f c) ~ f c ++ (P ++ f c')
  refine (List.perm_append_comm_assoc _ _ _).trans ?_
  refine List.Perm.trans ?_ (List.perm_append_comm_assoc _ _ _)
  refine List.Perm.append_left _ ?_
  exact List.perm_append_comm

/-- the replaced chunk has the same image: nothing changes -/
theorem flatMap_set_eq {α β} (f : α → List β) (cs : List α) (i : Nat) (c c' : α)
    (h : cs[i]? = some c) (hf : f c' = f c) : (cs.set i c').flatMap f = cs.flatMap f := by
  obtain ⟨pre, post, h1, h2⟩ := split_at_index cs i c h
  subst h1; subst h2
  rw [set_split]
  simp [hf]

/-- the replaced chunk's image gained a block `x` -/
theorem flatMap_set_add {α β} (f : α → List β) (cs : List α) (i : Nat) (c c' : α) (x : List β)
    (h : cs[i]? = some c) (hf : (f c').Perm (x ++ f c)) : ((cs.set i c').flatMap f).Perm (x ++ cs.flatMap f) := by
  obtain ⟨pre, post, h1, h2⟩ := split_at_index cs i c h
  subst h1; subst h2
  rw [set_split]
  simp only [List.flatMap_append, List.flatMap_cons]
  refine List.Perm.trans ?_ (List.perm_append_comm_assoc _ _ _)
  refine List.Perm.append_left _ ?_
  rw [← List.append_assoc]
  exact List.Perm.append_right _ hf

theorem PosL.set {cs : List Chunk} (h : PosL cs) (i : Nat) (c' : Chunk) (hc : PosChunk cs.length i c') :
    PosL (cs.set i c') := by
  intro j ch hj
  rw [List.length_set]
  rw [List.getElem?_set] at hj
  split at hj
  · next hij =>
    split at hj
    · injection hj with hj; subst hj; subst hij; exact hc
    · cases hj
  · exact h j ch hj

theorem NormL.set {cs : List Chunk} (h : NormL cs) (i : Nat) (c' : Chunk) (hc : NormChunk c') :
    NormL (cs.set i c') := by
  intro ch hch
  rcases List.mem_or_eq_of_mem_set hch with h1 | h1
  · exact h ch h1
  · subst h1; exact hc

theorem PosChunk.of_sub {n i : Nat} {c c' : Chunk} (h : PosChunk n i c)
    (h0 : ∀ m ∈ c'.mig0, m ∈ c.mig0) (h1 : ∀ m ∈ c'.mig1, m ∈ c.mig1) : PosChunk n i c' := by
  refine ⟨fun m hm => h.1 m (h0 m hm), fun m hm => h.2.1 m (h1 m hm), fun m hm => h.2.2 m ?_⟩
  rcases Chunk.mem_migs.mp hm with hm | hm
  · exact Chunk.mem_migs.mpr (Or.inl (h0 m hm))
  · exact Chunk.mem_migs.mpr (Or.inr (h1 m hm))

/-- entries only disappear, chunk by chunk: positions stay right -/
theorem PosL.of_sub {cs cs' : List Chunk} (h : PosL cs) (hlen : cs'.length = cs.length)
    (hsub : ∀ (i : Nat) (c c' : Chunk), cs[i]? = some c → cs'[i]? = some c' →
      (∀ m ∈ c'.mig0, m ∈ c.mig0) ∧ (∀ m ∈ c'.mig1, m ∈ c.mig1)) : PosL cs' := by
  intro i c' hi
  have hlt : i < cs.length := by
    have := (List.getElem?_eq_some_iff.mp hi).1; omega
  have hc : cs[i]? = some cs[i] := List.getElem?_eq_getElem hlt
  rw [hlen]
  have := hsub i _ c' hc hi
  exact (h i _ hc).of_sub this.1 this.2

/-! ## store helpers -/

@[simp] theorem Store.bump_clusters (s : Store) : s.bump.clusters = s.clusters := rfl
@[simp] theorem Store.setProxyCluster_clusters (s : Store) (a : String) (v : Option String) :
    (s.setProxyCluster a v).clusters = s.clusters := rfl

theorem Store.mem_of_findCluster {s : Store} {n : String} {cl : Cluster} (h : s.findCluster n = some cl) :
    cl ∈ s.clusters ∧ cl.name = n := by
  unfold Store.findCluster at h
  have h1 := List.mem_of_find?_eq_some h
  have h2 := List.find?_some h
  exact ⟨h1, by simpa using h2⟩

theorem Store.mem_setCluster {s : Store} {cl x : Cluster} (h : x ∈ (s.setCluster cl).clusters) :
    x = cl ∨ x ∈ s.clusters := by
  unfold Store.setCluster at h
  simp only [List.mem_map] at h
  obtain ⟨y, hy, hxy⟩ := h
  split at hxy
  · exact Or.inl hxy.symm
  · exact Or.inr (hxy ▸ hy)

theorem StoreInv.setCluster {s : Store} (h : StoreInv s) {cl : Cluster} (hc : ClusterInv cl) :
    StoreInv (s.setCluster cl) := by
  intro x hx
  rcases Store.mem_setCluster hx with h1 | h1
  · exact h1 ▸ hc
  · exact h x h1

theorem StoreInv.of_clusters_eq {s s' : Store} (h : StoreInv s) (he : s'.clusters = s.clusters) : StoreInv s' := by
  intro c hc; rw [he] at hc; exact h c hc

theorem StoreInv.of_clusters_sub {s s' : Store} (h : StoreInv s) (he : ∀ c ∈ s'.clusters, c ∈ s.clusters) :
    StoreInv s' := fun c hc => h c (he c hc)

theorem StoreInv.find {s : Store} (h : StoreInv s) {n : String} {cl : Cluster}
    (hf : s.findCluster n = some cl) : ClusterInv cl := h cl (Store.mem_of_findCluster hf).1

theorem foldl_setProxyCluster_clusters {α} (l : List α) (f : Store → α → Store)
    (hf : ∀ s a, (f s a).clusters = s.clusters) (s : Store) : (l.foldl f s).clusters = s.clusters := by
  induction l generalizing s with
  | nil => rfl
  | cons a t ih => simp only [List.foldl_cons]; rw [ih, hf]

theorem storeInv_init : StoreInv Store.init := by
  intro c hc; cases hc

end Um.Broker
