import UmProofs.BrokerFailoverLimit
/-!
# C06 — (a), (b), (d) for the views served under a migration limit
-/
namespace Um.Broker.C06
open Um Um.Slots Um.Gen.Chunk

theorem tkEntry_invisible (pos : List (Nat × Nat)) (e : Nat) : Invisible (tkEntry pos e) where
  ranges m := (tkEntry_fields pos e m).1
  dir m := (tkEntry_fields pos e m).2.1
  src m := (tkEntry_fields pos e m).2.2.1
  dst m := (tkEntry_fields pos e m).2.2.2.1
  imp m := by
    unfold tkEntry
    have e1 : srcPos { m with isMigrating := false } = srcPos m := rfl
    have e2 : dstPos { m with isMigrating := false } = dstPos m := rfl
    rw [e1, e2]
    split <;> rfl

theorem id_invisible : Invisible (fun m => m) where
  ranges _ := rfl
  dir _ := rfl
  src _ := rfl
  dst _ := rfl
  imp _ := rfl

/-- the entry map of `takeover_master` on half `h` of chunk `k` (identity for a repeat call) -/
def tkMap (h e : Nat) (c : Chunk) : MigStore → MigStore :=
  if c.role = newRole h then (fun m => m) else tkEntry (tfPos h c) e

theorem tkMap_invisible (h e : Nat) (c : Chunk) : Invisible (tkMap h e c) := by
  unfold tkMap; split
  · exact id_invisible
  · exact tkEntry_invisible _ _

/-- the stored cluster after the call against the one before: entries mapped, stable lists kept -/
theorem afterTakeover_rel {cl : Cluster} {k h : Nat} (e : Nat) {c : Chunk} (hk : cl.chunks[k]? = some c) :
    All2 (RelC (tkMap h e c)) cl.chunks (afterTakeover cl k h e c).chunks := by
  unfold afterTakeover tkMap
  by_cases hr : c.role = newRole h
  · rw [if_pos hr, if_pos hr]
    exact All2.refl_of (fun x => ⟨rfl, rfl, by simp, by simp⟩) _
  · rw [if_neg hr, if_neg hr]
    apply All2.of_get (tkChunks_length _ _ _ _ _)
    intro i x y hx hy
    rw [tkChunks_get hk hx] at hy
    cases hy
    have hxc : i = k → x = c := by intro e; subst e; rw [hk] at hx; exact (Option.some.inj hx).symm
    obtain ⟨m0, m1⟩ := tkChunk_migs k h e c i x hxc
    refine ⟨?_, ?_, m0, m1⟩ <;> (unfold tkChunk; split <;> rfl)

/-- roles and addresses after the call: only the role position of chunk `k` differs -/
theorem afterTakeover_addr {cl : Cluster} {k h : Nat} (e : Nat) {c : Chunk} {p : String}
    (hf : failedAt p cl.chunks = some (k, h)) (hk : cl.chunks[k]? = some c) {i : Nat} {x y : Chunk}
    (hx : cl.chunks[i]? = some x) (hy : (afterTakeover cl k h e c).chunks[i]? = some y) :
    SameAddr { x with role := if i = k then newRole h else x.role } y := by
  unfold afterTakeover at hy
  by_cases hr : c.role = newRole h
  · rw [if_pos hr] at hy
    rw [hx] at hy; cases hy
    by_cases hik : i = k
    · subst hik; rw [hk] at hx; cases hx
      simp only [if_true]
      exact ⟨hr, rfl, rfl, rfl, rfl, rfl, rfl, rfl, rfl⟩
    · simp only [hik, if_false]; exact sameAddr_refl _
  · rw [if_neg hr] at hy
    rw [tkChunks_get hk hx] at hy
    cases hy
    refine ⟨tkChunk_role _ _ _ _ _ _, ?_, ?_, ?_, ?_, ?_, ?_, ?_, ?_⟩ <;> (unfold tkChunk; split <;> rfl)

theorem partKeys_relC {f : MigStore → MigStore} (hf : Invisible f) {x y : Chunk} (h : RelC f x y) :
    partKeys y.stable0 y.mig0 = partKeys x.stable0 x.mig0 ∧ partKeys y.stable1 y.mig1 = partKeys x.stable1 x.mig1 := by
  obtain ⟨s0, s1, m0, m1⟩ := h
  have hk : ∀ m, migKey (f m) = migKey m := by
    intro m; unfold migKey; rw [hf.ranges, hf.dir]
  rw [s0, s1, m0, m1, partKeys_map _ _ _ hk, partKeys_map _ _ _ hk]
  exact ⟨rfl, rfl⟩

theorem specNode_addr {x y : Chunk} (h : SameAddr x y) (cs cs' : List Chunk) (j : Nat) :
    (specNode y cs' j).address = (specNode x cs j).address ∧ (specNode y cs' j).proxy = (specNode x cs j).proxy ∧
    (specNode y cs' j).peers = (specNode x cs j).peers ∧ (specNode y cs' j).replica = isReplica x.role j := by
  obtain ⟨a1, a2, a3, -, -, a6, a7, a8, a9⟩ := h
  have hP : ∀ t, proxyAtD y t = proxyAtD x t := by
    intro t
    match t with
    | 0 => simp [proxyAtD, Chunk.proxyAt, a2]
    | 1 => simp [proxyAtD, Chunk.proxyAt, a3]
    | n + 2 => rfl
  have hN : ∀ t, nodeAtD y t = nodeAtD x t := by
    intro t
    match t with
    | 0 => simp [nodeAtD, Chunk.nodeAt, a6]
    | 1 => simp [nodeAtD, Chunk.nodeAt, a7]
    | 2 => simp [nodeAtD, Chunk.nodeAt, a8]
    | 3 => simp [nodeAtD, Chunk.nodeAt, a9]
    | n + 4 => rfl
  refine ⟨?_, ?_, ?_, ?_⟩ <;> simp only [specNode, hP, hN, a1]

/-- **(a)+(b) between the two limited views.** `lc`/`lc'` = what `limit_migration` makes of the stored
cluster before/after `takeover_master`; node `j` of chunk `i`: `n` before, `np` its peer before, `n'` after -/
theorem limited_owner {cl lc lc' : Cluster} {k h : Nat} (e : Nat) {c : Chunk} {p : String} (limit : Nat)
    (hf : failedAt p cl.chunks = some (k, h)) (hk : cl.chunks[k]? = some c)
    (hl : limitMigration cl limit = R.ok lc) (hl' : limitMigration (afterTakeover cl k h e c) limit = R.ok lc')
    (hrel : All2 (RelC (tkMap h e c)) lc.chunks lc'.chunks)
    (i j : Nat) (hj : j < 4) {x : Chunk} (hx : lc.chunks[i]? = some x) :
    ∃ n np n', vnode (specView lc) i j = some n ∧ vnode (specView lc) i (peerIdx j) = some np ∧
      vnode (specView lc') i j = some n' ∧
      n'.address = n.address ∧ n'.proxy = n.proxy ∧ n'.peers = n.peers ∧
      n'.replica = (if i = k then decide (j / 2 = h) else n.replica) ∧
      n'.slots.map srKey =
        if i = k then (if j / 2 = h then [] else n.slots.map srKey ++ np.slots.map srKey)
        else n.slots.map srKey := by
  obtain ⟨-, -, hh, -⟩ := failedAt_some hf
  obtain ⟨hp4, -⟩ := peerIdx_facts j hj
  obtain ⟨fr, -⟩ := limitMigration_frame limit hl
  obtain ⟨fr', -⟩ := limitMigration_frame limit hl'
  obtain ⟨y, hy, hxy⟩ := hrel.get hx
  obtain ⟨x0, hx0, hx0x⟩ := fr.get' hx
  obtain ⟨y0, hy0, hy0y⟩ := fr'.get' hy
  have hmid := afterTakeover_addr e hf hk hx0 hy0
  -- role and addresses of `y` in terms of `x`
  have hxy' : SameAddr { x with role := if i = k then newRole h else x.role } y := by
    obtain ⟨a1, a2, a3, a4, a5, a6, a7, a8, a9⟩ := hx0x
    obtain ⟨b1, b2, b3, b4, b5, b6, b7, b8, b9⟩ := hmid
    obtain ⟨c1, c2, c3, c4, c5, c6, c7, c8, c9⟩ := hy0y
    refine ⟨?_, c2.trans (b2.trans a2.symm), c3.trans (b3.trans a3.symm), c4.trans (b4.trans a4.symm),
      c5.trans (b5.trans a5.symm), c6.trans (b6.trans a6.symm), c7.trans (b7.trans a7.symm),
      c8.trans (b8.trans a8.symm), c9.trans (b9.trans a9.symm)⟩
    rw [c1, b1]; simp only [a1]
  obtain ⟨k0, k1⟩ := partKeys_relC (tkMap_invisible h e c) hxy
  obtain ⟨d1, d2, d3, d4⟩ := specNode_addr hxy' lc.chunks lc'.chunks j
  refine ⟨specNode x lc.chunks j, specNode x lc.chunks (peerIdx j), specNode y lc'.chunks j, ?_, ?_, ?_,
    d1, d2, d3, ?_, ?_⟩
  · rw [specView_node lc i j hj, hx]; rfl
  · rw [specView_node lc i _ hp4, hx]; rfl
  · rw [specView_node lc' i j hj, hy]; rfl
  · rw [d4]
    by_cases hik : i = k
    · simp only [hik, if_true]; exact isReplica_newRole h j hh hj
    · simp only [hik, if_false]; rfl
  · rw [specNode_keys, specNode_keys, specNode_keys]
    unfold nodeKeys
    rw [k0, k1, hxy'.1]
    by_cases hik : i = k
    · simp only [hik, if_true]
      exact nk_newRole x.role h j hh hj _ _
    · simp only [hik, if_false]

theorem clusterOk_relC {f : MigStore → MigStore} (hf : Invisible f) {lc lc' : Cluster}
    (hrel : All2 (RelC f) lc.chunks lc'.chunks) (hok : clusterOk lc = true) : clusterOk lc' = true := by
  unfold clusterOk at *
  rw [List.all_eq_true] at *
  intro y hy
  obtain ⟨i, hi⟩ := List.mem_iff_getElem?.1 hy
  obtain ⟨x, hx, -, -, m0, m1⟩ := hrel.get' hi
  have := hok x (List.mem_of_getElem? hx)
  have hin : ∀ m, inRange (f m) lc.chunks.length = inRange m lc.chunks.length := by
    intro m
    have hs := hf.src m; have hd := hf.dst m
    simp only [srcPos, dstPos, Prod.mk.injEq] at hs hd
    simp only [inRange, hs.1, hs.2, hd.1, hd.2]
  simp only [chunkOk, hrel.length_eq, m0, m1, List.all_map, Function.comp_def, hin] at this ⊢
  exact this

theorem pp_sameAddr {cs cs' : List Chunk} (h : All2 SameAddr cs cs') :
    cs'.map (fun c => (c.proxy0, c.proxy1)) = cs.map (fun c => (c.proxy0, c.proxy1)) := by
  induction h with
  | nil => rfl
  | cons hab _ ih => simp only [List.map_cons, ih, hab.2.1, hab.2.2.1]

theorem proxyAddrs_sameAddr {cl cl' : Cluster} (h : All2 SameAddr cl.chunks cl'.chunks) :
    cl'.proxyAddrs = cl.proxyAddrs := by
  unfold Cluster.proxyAddrs
  have e1 : ∀ l : List Chunk, (l.flatMap fun ch => [ch.proxy0, ch.proxy1]) =
      (l.map fun c => (c.proxy0, c.proxy1)).flatMap fun x => [x.1, x.2] := by
    intro l; rw [List.flatMap_map]
  rw [e1, e1, pp_sameAddr h]

/-- **(b) in the limited view after the call** -/
theorem limited_no_master {cl lc' : Cluster} {k h : Nat} (e : Nat) {c : Chunk} {p : String} (limit : Nat)
    (hnd : cl.proxyAddrs.Nodup) (hf : failedAt p cl.chunks = some (k, h)) (hk : cl.chunks[k]? = some c)
    (hl' : limitMigration (afterTakeover cl k h e c) limit = R.ok lc') :
    ∀ n ∈ (specView lc').nodes, n.proxy = p → n.replica = true ∧ n.slots = [] := by
  obtain ⟨fr', -⟩ := limitMigration_frame limit hl'
  obtain ⟨c1, hk1, hr1, hf1, -⟩ := afterTakeover_chunk (e := e) hf hk
  obtain ⟨y, hy, hc1y⟩ := fr'.get hk1
  exact no_master_on (k := k) (h := h) (c := y)
    (by rw [proxyAddrs_sameAddr fr', proxyAddrs_tk hk]; exact hnd)
    (by rw [failedAt_congr p _ _ (pp_sameAddr fr')]; exact hf1)
    hy (by rw [hc1y.1]; exact hr1)

theorem tkMap_mm_congr (h e : Nat) (c : Chunk) {x m : MigStore} (hmm : x.mm = m.mm) :
    (tkMap h e c x).mm = (tkMap h e c m).mm := by
  unfold tkMap
  split
  · exact hmm
  · unfold tkEntry srcPos dstPos
    rw [hmm]
    split
    · simp only [bumpEpoch, hmm]
    · exact hmm

/-- **(d) in the limited views**: every entry of the limited cluster carries the meta of a stored entry
`m`, and is served — before and after the call — with exactly the descriptor `m` resp. its image
gets in the unlimited view; so `C06_d_migration_epochs` speaks about the limited views too -/
theorem limited_tags {cl lc lc' : Cluster} {k h : Nat} (e : Nat) {c : Chunk} (limit : Nat)
    (hl : limitMigration cl limit = R.ok lc) (hl' : limitMigration (afterTakeover cl k h e c) limit = R.ok lc') :
    ∀ x ∈ lc.migs, ∃ m ∈ cl.migs, x.mm = m.mm ∧ specInfo x lc.chunks = specInfo m cl.chunks ∧
      specInfo (tkMap h e c x) lc'.chunks = specInfo (tkMap h e c m) (afterTakeover cl k h e c).chunks := by
  intro x hx
  obtain ⟨m, hm, hmm⟩ := limitMigration_from limit hl x hx
  obtain ⟨fr, -⟩ := limitMigration_frame limit hl
  obtain ⟨fr', -⟩ := limitMigration_frame limit hl'
  refine ⟨m, hm, hmm, ?_, ?_⟩
  · rw [specInfo_congr hmm, specInfo_frame fr]
  · rw [specInfo_congr (tkMap_mm_congr h e c hmm), specInfo_frame fr']

end Um.Broker.C06
