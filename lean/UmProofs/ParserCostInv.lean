import UmProofs.ParserCostBasic
/-!
# C16 — the cost invariant of `parse_resp` / `parse_array`, by induction on the fuel

For a successful parse that consumed `n` bytes with recursion height `h`:
`steps ≤ 2·n·h`, `alloc ≤ n·h` (elements), `3·nodes ≤ n`, `h ≤ nodes`.
For a failed parse of a buffer of `L` bytes: `steps ≤ 2·(L+1)·h`, `h ≤ L+1`, and — provided every
`with_capacity` argument was at most the bytes left (`Bounded`) — `alloc ≤ (L+1)·h`.
-/
namespace Um.PC
open Um

/-- every capacity requested was at most the number of bytes left in the buffer: either the code
caps it (F4 fix) or no header over-declared -/
def Bounded (c : Cfg) (over : Bool) : Prop := c.capRemaining = true ∨ over = false

structure RespOk (buf : Bytes) (v : Idx) (n : Nat) (k : Cost) : Prop where
  n_ge : 3 ≤ n
  n_le : n ≤ buf.length
  size_le : 3 * v.size ≤ n
  h_pos : 1 ≤ k.height
  h_le : k.height ≤ v.size
  steps_le : k.steps ≤ 2 * (n * k.height)
  alloc_le : k.alloc ≤ n * k.height

structure RespErr (c : Cfg) (buf : Bytes) (k : Cost) : Prop where
  h_le : k.height ≤ buf.length + 1
  steps_le : k.steps ≤ 2 * ((buf.length + 1) * k.height)
  alloc_le : Bounded c k.over → k.alloc ≤ (buf.length + 1) * k.height

structure ElemsOk (rest : Bytes) (cnt consumed : Nat) (vs : List Idx) (total : Nat) (k : Cost) : Prop where
  total_ge : consumed ≤ total
  m_le : total - consumed ≤ rest.length
  size_le : 3 * Idx.sizeList vs ≤ total - consumed
  len_eq : vs.length = cnt
  h_le : k.height ≤ Idx.sizeList vs
  steps_le : k.steps ≤ 2 * ((total - consumed) * k.height) + (total - consumed)
  alloc_le : k.alloc ≤ (total - consumed) * k.height

structure ElemsErr (c : Cfg) (rest : Bytes) (k : Cost) : Prop where
  h_le : k.height ≤ rest.length + 1
  steps_le : k.steps ≤ 2 * ((rest.length + 1) * k.height) + (rest.length + 1)
  alloc_le : Bounded c k.over → k.alloc ≤ (rest.length + 1) * k.height

def RespInv (c : Cfg) (f : Nat) : Prop :=
  ∀ d buf r k, parseResp c f d buf = (r, k) →
    (∀ v n, r = .ok (v, n) → RespOk buf v n k) ∧ (∀ e, r = .error e → RespErr c buf k)

def ElemsInv (c : Cfg) (f : Nat) : Prop :=
  ∀ d rest cnt consumed r k, parseElems c f d rest cnt consumed = (r, k) →
    (∀ vs total, r = .ok (vs, total) → ElemsOk rest cnt consumed vs total k) ∧
    (∀ e, r = .error e → ElemsErr c rest k)

theorem respErr_small (c : Cfg) (buf : Bytes) (st : Nat) (o : Bool) (h : st ≤ 2 * buf.length + 2) :
    RespErr c buf ⟨0, st, 1, o⟩ :=
  ⟨by simp, by simp only [Nat.mul_one]; omega, by intro _; simp⟩

theorem mul_mono_h {n h h' : Nat} (hh : h ≤ h') : n * h ≤ n * h' := Nat.mul_le_mul_left n hh

/-! ## the loop -/

theorem elems_step_ok {rest : Bytes} {cnt consumed n1 total : Nat} {v : Idx} {vs : List Idx} {k1 k2 : Cost}
    (h1 : RespOk rest v n1 k1)
    (h2 : ElemsOk (rest.drop n1) cnt (consumed + n1) vs total k2) :
    ElemsOk rest (cnt + 1) consumed (v.adv consumed :: vs) total
      ⟨k1.alloc + k2.alloc, k1.steps + 1 + Idx.size v + k2.steps, max k1.height k2.height,
       k1.over || k2.over⟩ := by
  obtain ⟨a1, a2, a3, a4, a5, a6, a7⟩ := h1
  obtain ⟨b1, b2, b3, b4, b5, b6, b7⟩ := h2
  have hd : (rest.drop n1).length = rest.length - n1 := by simp
  rw [hd] at b2
  have hm : total - consumed = n1 + (total - (consumed + n1)) := by omega
  generalize hM : total - (consumed + n1) = m at *
  generalize hH : max k1.height k2.height = H
  have hH1 : k1.height ≤ H := by omega
  have hH2 : k2.height ≤ H := by omega
  have e1 : n1 * k1.height ≤ n1 * H := mul_mono_h hH1
  have e2 : m * k2.height ≤ m * H := mul_mono_h hH2
  refine ⟨by omega, by omega, ?_, ?_, ?_, ?_, ?_⟩
  · simp only [Idx.sizeList, size_adv]; omega
  · simp [b4]
  · simp only [Idx.sizeList, size_adv]; omega
  · simp only [hm, Nat.add_mul]; omega
  · simp only [hm, Nat.add_mul]; omega

theorem elems_first_err {c : Cfg} {rest : Bytes} {k1 : Cost} (h1 : RespErr c rest k1) :
    ElemsErr c rest ⟨k1.alloc, k1.steps + 1, k1.height, k1.over⟩ := by
  obtain ⟨a1, a2, a3⟩ := h1
  refine ⟨a1, by simp only; omega, ?_⟩
  intro hb
  exact a3 hb

theorem bounded_or {c : Cfg} {o1 o2 : Bool} (hb : Bounded c (o1 || o2)) : Bounded c o1 ∧ Bounded c o2 := by
  unfold Bounded at *
  cases hb with
  | inl h => exact ⟨.inl h, .inl h⟩
  | inr h =>
    simp only [Bool.or_eq_false_iff] at h
    exact ⟨.inr h.1, .inr h.2⟩

theorem elems_step_err {c : Cfg} {rest : Bytes} {n1 : Nat} {v : Idx} {k1 k2 : Cost}
    (h1 : RespOk rest v n1 k1)
    (h2 : ElemsErr c (rest.drop n1) k2) :
    ElemsErr c rest
      ⟨k1.alloc + k2.alloc, k1.steps + 1 + Idx.size v + k2.steps, max k1.height k2.height,
       k1.over || k2.over⟩ := by
  obtain ⟨a1, a2, a3, a4, a5, a6, a7⟩ := h1
  obtain ⟨b1, b2, b3⟩ := h2
  have hd : (rest.drop n1).length = rest.length - n1 := by simp
  rw [hd] at b1 b2 b3
  generalize hH : max k1.height k2.height = H
  have hH1 : k1.height ≤ H := by omega
  have hH2 : k2.height ≤ H := by omega
  have e1 : n1 * k1.height ≤ n1 * H := mul_mono_h hH1
  have e2 : (rest.length - n1 + 1) * k2.height ≤ (rest.length - n1 + 1) * H := mul_mono_h hH2
  have hL : rest.length + 1 = n1 + (rest.length - n1 + 1) := by omega
  refine ⟨by simp only; omega, ?_, ?_⟩
  · simp only
    rw [hL, Nat.add_mul]; omega
  · intro hb
    have := b3 (bounded_or hb).2
    simp only
    rw [hL, Nat.add_mul]; omega

theorem elemsInv_succ {c : Cfg} {f : Nat} (hr : RespInv c f) (he : ElemsInv c f) : ElemsInv c (f + 1) := by
  intro d rest cnt consumed r k h
  cases cnt with
  | zero =>
    simp only [parseElems, Prod.mk.injEq] at h
    obtain ⟨h1, h2⟩ := h
    subst h1 h2
    refine ⟨?_, ?_⟩
    · intro vs total hh
      simp only [Except.ok.injEq, Prod.mk.injEq] at hh
      obtain ⟨h3, h4⟩ := hh
      subst h3 h4
      exact ⟨by omega, by omega, by simp [Idx.sizeList], rfl, by simp [Idx.sizeList], by simp, by simp⟩
    · intro e hh; simp at hh
  | succ cnt =>
    simp only [parseElems] at h
    cases h1 : parseResp c f d rest with
    | mk r1 k1 =>
      obtain ⟨ok1, er1⟩ := hr d rest r1 k1 h1
      simp only [h1] at h
      cases r1 with
      | error e1 =>
        simp only [Prod.mk.injEq] at h
        obtain ⟨h2, h3⟩ := h
        subst h2 h3
        refine ⟨by intro vs total hh; simp at hh, ?_⟩
        intro e _
        exact elems_first_err (er1 e1 rfl)
      | ok p =>
        obtain ⟨v, n1⟩ := p
        have hv := ok1 v n1 rfl
        simp only at h
        cases h2 : parseElems c f d (rest.drop n1) cnt (consumed + n1) with
        | mk r2 k2 =>
          obtain ⟨ok2, er2⟩ := he d (rest.drop n1) cnt (consumed + n1) r2 k2 h2
          simp only [h2] at h
          cases r2 with
          | error e2 =>
            simp only [Prod.mk.injEq] at h
            obtain ⟨h3, h4⟩ := h
            subst h3 h4
            refine ⟨by intro vs total hh; simp at hh, ?_⟩
            intro e _
            exact elems_step_err hv (er2 e2 rfl)
          | ok q =>
            obtain ⟨vs, total⟩ := q
            simp only [Prod.mk.injEq] at h
            obtain ⟨h3, h4⟩ := h
            subst h3 h4
            refine ⟨?_, by intro e hh; simp at hh⟩
            intro vs' total' hh
            simp only [Except.ok.injEq, Prod.mk.injEq] at hh
            obtain ⟨h5, h6⟩ := hh
            subst h5 h6
            exact elems_step_ok hv (ok2 vs total rfl)

/-! ## one `parse_resp` activation -/

theorem arrayCap_le_size (c : Cfg) (a r : Nat) : arrayCap c a r ≤ a := by
  unfold arrayCap; split <;> omega

theorem arrayCap_le_rem (c : Cfg) (a r : Nat) (hb : Bounded c (decide (r < a))) : arrayCap c a r ≤ r := by
  unfold arrayCap
  cases hb with
  | inl h => simp only [h, if_true]; omega
  | inr h =>
    simp only [decide_eq_false_iff_not] at h
    split <;> omega

theorem arr_ok {pfx : UInt8} {nb : Bytes} {cl st cap arraySize total : Nat} {vs : List Idx} {K : Cost} (o : Bool)
    (h2 : 2 ≤ cl) (hle : cl ≤ nb.length) (hst : st + 2 = 2 * cl)
    (E : ElemsOk (nb.drop cl) arraySize cl vs total K) (hcap : cap ≤ arraySize) :
    RespOk (pfx :: nb) (.arr (Idx.advList 1 vs)) (1 + total)
      ⟨cap + K.alloc, st + 1 + K.steps + (1 + Idx.sizeList vs), 1 + K.height, o⟩ := by
  obtain ⟨b1, b2, b3, b4, b5, b6, b7⟩ := E
  have hd : (nb.drop cl).length = nb.length - cl := by simp
  rw [hd] at b2
  have hS := length_le_sizeList vs
  have e1 : (total - cl) * K.height ≤ total * K.height := Nat.mul_le_mul_right _ (by omega)
  have hx : (1 + total) * (1 + K.height) = 1 + total + (K.height + total * K.height) := by
    rw [Nat.mul_add, Nat.mul_one, Nat.add_mul, Nat.one_mul]
  refine ⟨by omega, by simp only [List.length_cons]; omega, ?_, by simp, ?_, ?_, ?_⟩
  · simp only [Idx.size, sizeList_advList]; omega
  · simp only [Idx.size, sizeList_advList]; omega
  · simp only [hx]; omega
  · simp only [hx]; omega

theorem arr_err {c : Cfg} {pfx : UInt8} {nb : Bytes} {cl st cap : Nat} {K : Cost} (o : Bool)
    (h2 : 2 ≤ cl) (hle : cl ≤ nb.length) (hst : st + 2 = 2 * cl)
    (E : ElemsErr c (nb.drop cl) K) (hcap : Bounded c o → cap ≤ nb.length - cl) :
    RespErr c (pfx :: nb) ⟨cap + K.alloc, st + 1 + K.steps, 1 + K.height, o || K.over⟩ := by
  obtain ⟨b1, b2, b3⟩ := E
  have hd : (nb.drop cl).length = nb.length - cl := by simp
  rw [hd] at b1 b2 b3
  have e1 : (nb.length - cl + 1) * K.height ≤ (nb.length + 1 + 1) * K.height :=
    Nat.mul_le_mul_right _ (by omega)
  have hx : (nb.length + 1 + 1) * (1 + K.height) = nb.length + 1 + 1 + (nb.length + 1 + 1) * K.height := by
    rw [Nat.mul_add, Nat.mul_one]
  refine ⟨by simp only [List.length_cons]; omega, ?_, ?_⟩
  · simp only [List.length_cons, hx]; omega
  · intro hb
    have h1 := hcap (bounded_or hb).1
    have h3 := b3 (bounded_or hb).2
    simp only [List.length_cons, hx]; omega

theorem respInv_succ {c : Cfg} {f : Nat} (he : ElemsInv c f) : RespInv c (f + 1) := by
  intro d buf r k h
  cases buf with
  | nil =>
    simp only [parseResp, Prod.mk.injEq] at h
    obtain ⟨h1, h2⟩ := h
    subst h1 h2
    refine ⟨by intro v n hh; simp at hh, ?_⟩
    intro e _
    exact respErr_small c [] 1 false (by simp)
  | cons pfx nb =>
    rw [parseResp] at h
    split at h
    · -- a leaf arm failed
      rename_i e0 st0 heq
      obtain ⟨_, herr⟩ := parseLeaf_spec _ _ _ _ heq
      obtain ⟨h1, _, _⟩ := herr e0 st0 rfl
      simp only [Prod.mk.injEq] at h
      obtain ⟨h2, h3⟩ := h
      subst h2 h3
      refine ⟨by intro v n hh; simp at hh, ?_⟩
      intro e _
      exact respErr_small c _ _ false (by simp only [List.length_cons]; omega)
    · -- a leaf arm succeeded
      rename_i v0 n0 st0 heq
      obtain ⟨hok, _⟩ := parseLeaf_spec _ _ _ _ heq
      obtain ⟨h1, h2, h3, h4⟩ := hok v0 n0 st0 rfl
      simp only [Prod.mk.injEq] at h
      obtain ⟨h5, h6⟩ := h
      subst h5 h6
      refine ⟨?_, by intro e hh; simp at hh⟩
      intro v n hh
      simp only [Except.ok.injEq, Prod.mk.injEq] at hh
      obtain ⟨h7, h8⟩ := hh
      subst h7 h8
      refine ⟨by omega, by simp only [List.length_cons]; omega, by rw [size_adv]; omega, by simp,
        by rw [size_adv]; simp only; omega, by simp only [Nat.mul_one]; omega, by simp⟩
    · -- not a leaf
      split at h
      · split at h
        · -- nesting limit
          simp only [Prod.mk.injEq] at h
          obtain ⟨h2, h3⟩ := h
          subst h2 h3
          refine ⟨by intro v n hh; simp at hh, ?_⟩
          intro e _
          exact respErr_small c _ _ false (by omega)
        · split at h
          · -- header failed
            rename_i e0 st0 heq
            obtain ⟨_, herr⟩ := parseLen_spec c.strict nb
            obtain ⟨h1, _, _⟩ := herr e0 st0 heq
            simp only [Prod.mk.injEq] at h
            obtain ⟨h2, h3⟩ := h
            subst h2 h3
            refine ⟨by intro v n hh; simp at hh, ?_⟩
            intro e _
            exact respErr_small c _ _ false (by simp only [List.length_cons]; omega)
          · rename_i len cl st0 heq
            obtain ⟨hok, _⟩ := parseLen_spec c.strict nb
            obtain ⟨h1, h2, h3⟩ := hok len cl st0 heq
            split at h
            · -- nil array
              simp only [Prod.mk.injEq] at h
              obtain ⟨h5, h6⟩ := h
              subst h5 h6
              refine ⟨?_, by intro e hh; simp at hh⟩
              intro v n hh
              simp only [Except.ok.injEq, Prod.mk.injEq] at hh
              obtain ⟨h7, h8⟩ := hh
              subst h7 h8
              refine ⟨by omega, by simp only [List.length_cons]; omega, by simp only [Idx.size]; omega,
                by simp, by simp [Idx.size], by simp only [Nat.mul_one]; omega, by simp⟩
            · simp only at h
              split at h
              · -- capacity overflow
                simp only [Prod.mk.injEq] at h
                obtain ⟨h5, h6⟩ := h
                subst h5 h6
                refine ⟨by intro v n hh; simp at hh, ?_⟩
                intro e _
                exact respErr_small c _ _ _ (by simp only [List.length_cons]; omega)
              · split at h
                · -- an element failed
                  rename_i e1 K heq2
                  obtain ⟨_, er2⟩ := he _ _ _ _ _ _ heq2
                  simp only [Prod.mk.injEq] at h
                  obtain ⟨h5, h6⟩ := h
                  subst h5 h6
                  refine ⟨by intro v n hh; simp at hh, ?_⟩
                  intro e _
                  exact arr_err _ h1 h2 h3 (er2 e1 rfl) (fun hb => arrayCap_le_rem c _ _ hb)
                · rename_i vs total K heq2
                  obtain ⟨ok2, _⟩ := he _ _ _ _ _ _ heq2
                  simp only [Prod.mk.injEq] at h
                  obtain ⟨h5, h6⟩ := h
                  subst h5 h6
                  refine ⟨?_, by intro e hh; simp at hh⟩
                  intro v n hh
                  simp only [Except.ok.injEq, Prod.mk.injEq] at hh
                  obtain ⟨h7, h8⟩ := hh
                  subst h7 h8
                  exact arr_ok _ h1 h2 h3 (ok2 vs total rfl) (arrayCap_le_size c _ _)
      · -- unknown type byte
        simp only [Prod.mk.injEq] at h
        obtain ⟨h2, h3⟩ := h
        subst h2 h3
        refine ⟨by intro v n hh; simp at hh, ?_⟩
        intro e _
        exact respErr_small c _ _ false (by omega)

theorem inv_all (c : Cfg) : ∀ f, RespInv c f ∧ ElemsInv c f := by
  intro f
  induction f with
  | zero =>
    refine ⟨?_, ?_⟩
    · intro d buf r k h
      simp only [parseResp, Prod.mk.injEq] at h
      obtain ⟨h1, h2⟩ := h
      subst h1 h2
      refine ⟨by intro v n hh; simp at hh, ?_⟩
      intro e _
      exact ⟨by simp, by simp, by intro _; simp⟩
    · intro d rest cnt consumed r k h
      cases cnt with
      | zero =>
        simp only [parseElems, Prod.mk.injEq] at h
        obtain ⟨h1, h2⟩ := h
        subst h1 h2
        refine ⟨?_, by intro e hh; simp at hh⟩
        intro vs total hh
        simp only [Except.ok.injEq, Prod.mk.injEq] at hh
        obtain ⟨h3, h4⟩ := hh
        subst h3 h4
        exact ⟨by omega, by omega, by simp [Idx.sizeList], rfl, by simp [Idx.sizeList], by simp, by simp⟩
      | succ cnt =>
        simp only [parseElems, Prod.mk.injEq] at h
        obtain ⟨h1, h2⟩ := h
        subst h1 h2
        refine ⟨by intro vs total hh; simp at hh, ?_⟩
        intro e _
        exact ⟨by simp, by simp, by intro _; simp⟩
  | succ f ih => exact ⟨respInv_succ ih.2, elemsInv_succ ih.1 ih.2⟩

end Um.PC
