import UmProofs.BrokerResReplace
/-!
# C12 — `replace_failed_proxy`: invariant, no panic, host of the replacement.
-/
namespace Um.Broker
open Um Um.Slots

theorem mem_freeProxies_congr {s s' : Store} (hp : s'.proxies = s.proxies) (hf : s'.failed = s.failed)
    (hr : s'.failures = s.failures) : s'.freeProxies = s.freeProxies := by
  unfold Store.freeProxies Store.hasFailureKey; rw [hp, hf, hr]

/-- the success path of `replace_failed_proxy` preserves the invariant -/
theorem rx_replaceResult {s2 : Store} {name f : String} {cl : Cluster} {fp np : ProxyRes} (hx : RX s2)
    (hf : s2.findCluster name = some cl) (hfp : s2.findProxy f = some fp) (hfc : fp.cluster = some name)
    (hnp : np ∈ s2.freeProxies) : RX (replaceResult s2 name f cl np) := by
  obtain ⟨hclm, hcn⟩ := Store.findCluster_some hf
  obtain ⟨hfpm, hfa⟩ := Store.findProxy_some hfp
  have hnp' := Store.mem_freeProxies.mp hnp
  subst hcn
  have hnd : (chunkAddrs cl.chunks).Nodup := hx.1.2.2.1 cl hclm
  refine ⟨rpt_replace (s := s2.bump) (cl := cl) (f := f) (fp := fp) (np := np)
      (cl' := { cl with chunks := replaceInChunks f np cl.chunks, epoch := s2.globalEpoch + 1 })
      ((SkelEq.bump s2).rpt hx.1) hf hfpm hfa hfc hnp'.1 hnp'.2.1 rfl
      (replaceInChunks_eq_map f np cl.chunks hnd) rfl rfl, ?_⟩
  unfold NamesValid
  show ∀ n ∈ (s2.bump.setCluster _).clusters.map (·.name), _
  rw [setCluster_names]; exact hx.2

theorem findProxy_congr {s s' : Store} (hp : s'.proxies = s.proxies) (a : String) :
    s'.findProxy a = s.findProxy a := by unfold Store.findProxy; rw [hp]

theorem rx_replaceFailedProxy {s : Store} (f choice : String) (hx : RX s) :
    RX (replaceFailedProxy s f choice).1 := by
  rcases replaceFailedProxy_spec s f choice with ⟨_, h⟩ | ⟨p, _, _, h⟩ | ⟨p, name, _, _, _, h⟩ |
      ⟨p, name, cl0, hfp, hpc, hcl0, h⟩
  · rw [h]; exact hx
  · rw [h]; exact (show SkelEq _ s from ⟨rfl, rfl⟩).rx hx
  · rw [h]; exact (SkelEq.bump s).rx hx
  · have hsk := afterTakeover_skelEq s name f hx.nodupNames
    have hx2 : RX (afterTakeover s name f) := hsk.rx hx
    rcases h with ⟨_, h⟩ | ⟨_, ⟨np, cl, hg, hc, h⟩ | ⟨e, _, h⟩ | ⟨w, _, h⟩ | ⟨w, _, h⟩ | ⟨np, _, _, h⟩⟩
    · -- ordered mode: takeover + bump
      rw [h]
      exact (SkelEq.bump _).rx ((takeoverMaster_skelEq s name f hx.nodupNames).rx hx)
    · rw [h]
      obtain ⟨_, _, _, _, hnp, _⟩ := generateNewFreeProxy_ok hg
      exact rx_replaceResult hx2 hc ((findProxy_congr hsk.1 f).trans hfp) hpc hnp
    · rw [h]; exact hx2
    · rw [h]; exact hx2
    · rw [h]; exact hx2
    · rw [h]; exact (SkelEq.bump _).rx hx2

/-! ## no panic -/

theorem hostPairs_of_skel {l1 l2 : List Cluster} (h : l1.map Cluster.skel = l2.map Cluster.skel) :
    l1.map (fun c => c.chunks.map fun ch => (ch.host0, ch.host1)) =
      l2.map (fun c => c.chunks.map fun ch => (ch.host0, ch.host1)) := by
  have := congrArg (List.map fun x : String × List CSkel => x.2.map fun k => (k.host0, k.host1)) h
  simpa [List.map_map, Function.comp_def, Cluster.skel, Chunk.skel] using this

theorem buildLinkTable_skelEq {s' s : Store} (h : SkelEq s' s) : buildLinkTable s' = buildLinkTable s :=
  buildLinkTable_congr s' s h.1 (hostPairs_of_skel h.2)

/-- a proxy that is in a cluster has a link-table row for its host -/
theorem row_of_member {s : Store} (hr : RPt s) {p : ProxyRes} (hp : p ∈ s.proxies) {n : String}
    (hc : p.cluster = some n) : ((buildLinkTable s).row p.host).isSome = true := by
  obtain ⟨c, hcm, _, hin⟩ := hr.2.2.2.2 p hp n hc
  obtain ⟨ch, hch, hor⟩ := Cluster.mem_proxyAddrs.mp hin
  obtain ⟨⟨q0, hq0, e0, _, eh0, _⟩, ⟨q1, hq1, e1, _, eh1, _⟩⟩ := hr.2.2.2.1 c hcm ch hch
  have hrow := buildLinkTable_row_of_chunk s c ch hcm hch
  rcases hor with e | e
  · have : p = q0 := res_nodup_map_inj hr.1 hp hq0 (e.trans e0.symm)
    subst this; rw [eh0]; exact hrow.1
  · have : p = q1 := res_nodup_map_inj hr.1 hp hq1 (e.trans e1.symm)
    subst this; rw [eh1]; exact hrow.2

theorem replaceFailedProxy_noPanic {s : Store} (f choice : String) (hx : RX s) :
    (replaceFailedProxy s f choice).2.NoPanic := by
  rcases replaceFailedProxy_spec s f choice with ⟨_, h⟩ | ⟨p, _, _, h⟩ | ⟨p, name, _, _, _, h⟩ |
      ⟨p, name, cl0, hfp, hpc, hcl0, h⟩
  · rw [h]; exact R.noPanic_err _
  · rw [h]; exact R.noPanic_ok _
  · rw [h]; exact R.noPanic_err _
  · have hsk := afterTakeover_skelEq s name f hx.nodupNames
    have hx2 : RX (afterTakeover s name f) := hsk.rx hx
    have hnp : (generateNewFreeProxy (afterTakeover s name f) f choice).NoPanic := by
      apply generateNewFreeProxy_noPanic
      intro fp' hfp'
      obtain ⟨hm, _⟩ := Store.findProxy_some hfp'
      have e : fp' = p := by
        rw [findProxy_congr hsk.1 f, hfp] at hfp'; exact (Option.some.inj hfp').symm
      subst e
      exact row_of_member hx2.1 hm hpc
    rcases h with ⟨_, h⟩ | ⟨_, ⟨np, cl, hg, hc, h⟩ | ⟨e, _, h⟩ | ⟨w, hg, h⟩ | ⟨w, _, h⟩ | ⟨np, _, hc, h⟩⟩
    · rw [h]; exact R.noPanic_ok _
    · rw [h]; exact R.noPanic_ok _
    · rw [h]; exact R.noPanic_err _
    · exact absurd hg (hnp w)
    · rw [h]; exact R.noPanic_bad _
    · -- the cluster is still there after the takeover
      exfalso
      have hn := hx.nodupNames
      have : (afterTakeover s name f).clusters.map (·.name) = s.clusters.map (·.name) := skel_names hsk.2
      obtain ⟨hm0, hn0⟩ := Store.findCluster_some hcl0
      have : name ∈ (afterTakeover s name f).clusters.map (·.name) := by
        rw [this]; exact List.mem_map.mpr ⟨cl0, hm0, hn0⟩
      obtain ⟨c, hcm, hcn⟩ := List.mem_map.mp this
      exact Store.findCluster_none.mp hc c hcm hcn

end Um.Broker
