import UmProofs.BrokerScaleDownB
/-!
# C10 — the scale-down plan, part C: `remove_slots_from_src_to_scale_down` on a balanced cluster
-/
namespace Um.Broker.Scale
open Um Um.Slots Um.Broker

theorem sumTo_sub (f g : Nat → Nat) (n : Nat) (h : ∀ i, i < n → g i ≤ f i) :
    sumTo (fun i => f i - g i) n + sumTo g n = sumTo f n := by
  induction n with
  | zero => rfl
  | succ n ih =>
    simp only [sumTo]
    have := ih (fun i hi => h i (by omega))
    have := h n (by omega)
    omega

theorem sumTo_tail_zero (f : Nat → Nat) {d D : Nat} (hd : d ≤ D) (h : sumTo f D = sumTo f d) :
    ∀ j, d ≤ j → j < D → f j = 0 := by
  induction D with
  | zero => intro j _ hj; omega
  | succ D ih =>
    intro j hdj hj
    by_cases hdD : d = D + 1
    · omega
    · have hd' : d ≤ D := by omega
      have hm := sumTo_mono f hd'
      simp only [sumTo] at h
      have h1 : sumTo f D = sumTo f d := by omega
      have h2 : f D = 0 := by omega
      by_cases hjD : j = D
      · subst hjD; exact h2
      · exact ih hd' h1 j hdj (by omega)

theorem fullChunks_append (m : Nat) (A1 A2 : List Chunk) (i : Nat) :
    FullChunks m (A1 ++ A2) i ↔ FullChunks m A1 i ∧ FullChunks m A2 (i + A1.length) := by
  induction A1 generalizing i with
  | nil => simp [FullChunks]
  | cons a A1 ih =>
    simp only [List.cons_append, FullChunks, ih, List.length_cons]
    have : i + 1 + A1.length = i + (A1.length + 1) := by omega
    rw [this]
    exact and_assoc.symm

/-- `dst_existing_slots_num` of a balanced prefix -/
def existingOf (l : List Chunk) : List Nat :=
  l.flatMap fun c => [(c.stable0.map slotsNum).getD 0, (c.stable1.map slotsNum).getD 0]

theorem existingOf_length (l : List Chunk) : (existingOf l).length = l.length * 2 := by
  induction l with
  | nil => rfl
  | cons c l ih => simp only [existingOf, List.flatMap_cons, List.length_append, List.length_cons,
      List.length_nil] at ih ⊢; omega

theorem existingOf_get (m : Nat) (A : List Chunk) (i : Nat) (h : FullChunks m A i) :
    ∀ j, j < A.length * 2 → ((existingOf A)[j]?).getD 0 = quota m (i * 2 + j) := by
  induction A generalizing i with
  | nil => intro j hj; simp at hj
  | cons a A ih =>
    obtain ⟨⟨x, y, hx, hy, _, _, cx, cy⟩, hr⟩ := h
    intro j hj
    have hcons : existingOf (a :: A) = slotsNum x :: slotsNum y :: existingOf A := by
      simp [existingOf, hx, hy]
    rw [hcons]
    match j with
    | 0 => simp [cx]
    | 1 => simp [cy]
    | j + 2 =>
      simp only [List.getElem?_cons_succ]
      rw [ih (i + 1) hr j (by simp only [List.length_cons] at hj; omega)]
      congr 1; omega

theorem supply_full (m : Nat) (A : List Chunk) (i : Nat) (h : FullChunks m A i) :
    supplyChunks A = rangeSum (quota m) (i * 2) (A.length * 2) := by
  induction A generalizing i with
  | nil => simp [supplyChunks, rangeSum, sumTo]
  | cons a A ih =>
    obtain ⟨⟨x, y, hx, hy, _, _, cx, cy⟩, hr⟩ := h
    have hlen : (a :: A).length * 2 = A.length * 2 + 2 := by simp only [List.length_cons]; omega
    rw [hlen, rangeSum_two_front]
    have hi : i * 2 + 2 = (i + 1) * 2 := by omega
    rw [hi, ← ih (i + 1) hr]
    simp only [supplyChunks, hx, hy, halfCount, cx, cy, Nat.add_zero]

theorem downSrcOk_full (m : Nat) (hm : 2 ≤ m) (A : List Chunk) (i : Nat) (h : FullChunks m A i) :
    DownSrcOk A := by
  induction A generalizing i with
  | nil => intro ch hch; cases hch
  | cons a A ih =>
    obtain ⟨⟨x, y, hx, hy, ax, ay, cx, cy⟩, hr⟩ := h
    intro ch hch
    rcases List.mem_cons.mp hch with rfl | hch
    · constructor
      · intro rl hrl; rw [hx] at hrl; cases hrl; exact ⟨ax, by rw [cx]; exact quota_le m _ hm⟩
      · intro rl hrl; rw [hy] at hrl; cases hrl; exact ⟨ay, by rw [cy]; exact quota_le m _ hm⟩
    · exact ih (i + 1) hr ch hch

/-- facts about the tasks a scale-down plan emits -/
structure DownPlan (n n' e : Nat) (out : List MigSlots) : Prop where
  filled : ∀ j, j < n' * 2 → recvBy downIndex out j + quota (n * 2) j = quota (n' * 2) j
  nothing_else : ∀ j, n' * 2 ≤ j → recvBy downIndex out j = 0
  shape : ∀ ms ∈ out, (∃ j, j < n' * 2 ∧ ms.mm.dstChunk = j / 2 ∧ ms.mm.dstPart = j % 2) ∧
    ms.mm.srcPart < 2 ∧ n' ≤ ms.mm.srcChunk ∧ ms.mm.srcChunk < n ∧ ms.mm.epoch = e ∧ compact ms.ranges = ms.ranges

/-- **the scale-down plan**: on a balanced cluster of `n` chunks, shrinking to `0 < n' < n` chunks
does not panic, does not run out of fuel, drains every master of the chunks `≥ n'` and plans for
destination master `j < 2n'` exactly the difference between its new and its old quota
(destinations whose quota does not change are skipped) -/
theorem removeSlotsToScaleDown_balanced {cl : Cluster} {n n' : Nat} (e : Nat)
    (hfull : FullChunks (n * 2) cl.chunks 0) (hlen : cl.chunks.length = n) (h0 : 0 < n') (hlt : n' < n)
    (hM : n * 2 ≤ SLOT_NUM) :
    ∃ out, removeSlotsToScaleDown cl e n' =
        R.ok (cl.chunks.take n' ++ (cl.chunks.drop n').map (fun ch => { ch with stable0 := none, stable1 := none }),
              out) ∧ DownPlan n n' e out := by
  have hsplit : cl.chunks = cl.chunks.take n' ++ cl.chunks.drop n' := (List.take_append_drop n' cl.chunks).symm
  have htl : (cl.chunks.take n').length = n' := by rw [List.length_take, hlen]; omega
  have hdl : (cl.chunks.drop n').length = n - n' := by rw [List.length_drop, hlen]
  rw [hsplit, fullChunks_append, htl] at hfull
  obtain ⟨hf1, hf2⟩ := hfull
  simp only [Nat.zero_add] at hf2
  let P : DownParams := ⟨e, SLOT_NUM / (n' * 2), SLOT_NUM - SLOT_NUM / (n' * 2) * (n' * 2), n' * 2,
    existingOf (cl.chunks.take n')⟩
  have hfin : ∀ j, downFinalOf P j = quota (n' * 2) j := by
    intro j; simp only [downFinalOf, quota, P, remainder_eq]
  have hex : ∀ j, j < n' * 2 → (DownParams.ex P) j = quota (n * 2) j := by
    intro j hj
    have := existingOf_get (n * 2) _ 0 hf1 j (by rw [htl]; exact hj)
    simpa [DownParams.ex, P] using this
  have hok : (DownParams.Ok P) := by
    refine ⟨by simp only [P]; rw [existingOf_length, htl], ?_⟩
    intro j hj
    rw [hex j hj, hfin]
    exact quota_anti (by omega) (by omega) j
  have hcall : removeSlotsToScaleDown cl e n' =
      (downChunks P (cl.chunks.drop n') n' { dstIdx := 0, curSlots := [], curNum := 0, out := [] } >>= fun r =>
        pure (cl.chunks.take n' ++ r.1, r.2.out)) := by
    unfold removeSlotsToScaleDown
    have hz : (n' * 2 == 0) = false := by simp; omega
    simp only [hz, Bool.false_eq_true, if_false]
    rfl
  have hst0 : DStInv P { dstIdx := 0, curSlots := [], curNum := 0, out := [] } := by
    refine ⟨Nat.zero_le _, fun _ => Or.inr rfl, fun _ => ⟨rfl, rfl⟩, fun h => absurd rfl h, ?_⟩
    exact ⟨fun j hj => absurd hj (Nat.not_lt_zero j), by simp, fun j _ => by simp, fun ms hms => by cases hms⟩
  have hsupply : supplyChunks (cl.chunks.drop n') = (DownParams.total P) := by
    rw [supply_full (n * 2) _ n' hf2, hdl]
    have h1 : (DownParams.total P) = sumTo (fun j => quota (n' * 2) j - quota (n * 2) j) (n' * 2) := by
      unfold DownParams.total
      apply sumTo_congr
      intro j hj
      simp only [DownParams.dneed, hfin]
      rw [hex j hj]
    have h2 := sumTo_sub (quota (n' * 2)) (quota (n * 2)) (n' * 2)
      (fun j _ => quota_anti (by omega) (by omega) j)
    have h3 := sum_quota (n' * 2) (by omega)
    have h4 := sum_quota (n * 2) (by omega)
    have h5 : n * 2 = n' * 2 + (n - n') * 2 := by omega
    rw [h5, sumTo_split] at h4
    rw [← h5] at h4
    omega
  obtain ⟨st', hrun, hpost⟩ := downChunks_spec P hok (by simp only [P]; omega) (cl.chunks.drop n') n' _
    (downSrcOk_full (n * 2) (by omega) _ n' hf2) hst0 rfl
    (by rw [hsupply]; simp [DownParams.given, sumTo])
  have hgiven : sumTo (DownParams.dneed P) st'.dstIdx + st'.curNum = sumTo (DownParams.dneed P) (n' * 2) := by
    have := hpost.given
    rw [hsupply] at this
    simpa [DownParams.given, DownParams.total, sumTo, P] using this
  have hle : st'.dstIdx ≤ n' * 2 := hpost.inv.le
  have hcur0 : st'.curNum = 0 := by
    by_cases hD : st'.dstIdx = n' * 2
    · exact (hpost.inv.fin hD).1
    · have hlt' : st'.dstIdx < n' * 2 := by omega
      rcases hpost.inv.lt hlt' with h | h
      · have := sumTo_mono (DownParams.dneed P) (show st'.dstIdx + 1 ≤ n' * 2 by omega)
        simp only [sumTo] at this
        omega
      · exact h
  have htail := sumTo_tail_zero (DownParams.dneed P) hle (by omega)
  have hrecv : ∀ j, j < n' * 2 → recvBy downIndex st'.out j = (DownParams.dneed P) j := by
    intro j hj
    by_cases h1 : j < st'.dstIdx
    · exact hpost.inv.out.done j h1
    · rw [htail j (by omega) hj]
      by_cases h2 : j = st'.dstIdx
      · subst h2
        have := hpost.inv.out.curr
        rw [hpost.empty, hcur0] at this
        simpa using this
      · exact hpost.inv.out.later j (by omega)
  refine ⟨st'.out, ?_, ?_, ?_, ?_⟩
  · rw [hcall, hrun]; rfl
  · intro j hj
    rw [hrecv j hj]
    simp only [DownParams.dneed, hfin, hex j hj]
    have := quota_anti (m := n' * 2) (m' := n * 2) (by omega) (by omega) j
    omega
  · intro j hj
    by_cases h2 : j = st'.dstIdx
    · subst h2
      have := hpost.inv.out.curr
      rw [hpost.empty, hcur0] at this
      simpa using this
    · exact hpost.inv.out.later j (by omega)
  · intro ms hms
    obtain ⟨j, hj, d1, d2, d3, d4, d5⟩ := hpost.inv.out.shape ms hms
    obtain ⟨new, hnew, hsrc⟩ := hpost.outs
    simp only [List.nil_append] at hnew
    have := hsrc ms (hnew ▸ hms)
    rw [hdl] at this
    exact ⟨⟨j, hj, d1, d2⟩, d3, this.1, by omega, d4, d5⟩

end Um.Broker.Scale
