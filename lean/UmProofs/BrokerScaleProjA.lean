import UmProofs.BrokerScaleCommitD
import UmProofs.BrokerScaleQuota
/-!
# C10 — projected slot counts are invariant under commits (part A: one chunk half)

For a chunk half with stable list `st` and migration entries `l`, `proj st l` is the number of
slots the half owns once everything that is being imported into it has been committed:
`slotsNum st + Σ slotsNum (importing ranges)`.  `HalfDisj st l` says that the stable ranges and
the importing ranges are well-formed and pairwise disjoint (a consequence of `SlotInv` +
`TwinInv`); under it a commit adds exactly the committed ranges' count to the stable list.
-/
namespace Um.Broker.Scale
open Um Um.Slots Um.Broker

/-! ## `compact` keeps ranges away from what they were disjoint from -/

theorem disj_mergeGo {x : Range} (hx : x.1 ≤ x.2) (cur : Range) (es : RangeList)
    (hc : Disj x cur) (hes : ∀ e ∈ es, Disj x e) : ∀ r ∈ mergeGo cur es, Disj x r := by
  induction es generalizing cur with
  | nil => intro r hr; simp only [mergeGo, List.mem_singleton] at hr; subst hr; exact hc
  | cons e es ih =>
    have he := hes e (by simp)
    unfold mergeGo
    split
    · rename_i hge
      apply ih
      · unfold Disj at hc he ⊢
        show x.2 < cur.1 ∨ max cur.2 e.2 < x.1
        rcases hc with h | h
        · exact Or.inl h
        · rcases he with h' | h'
          · omega
          · right; omega
      · intro e' he'; exact hes e' (by simp [he'])
    · intro r hr
      rcases List.mem_cons.mp hr with rfl | hr
      · exact hc
      · exact ih e he (fun e' he' => hes e' (by simp [he'])) r hr

theorem disj_compact {x : Range} (hx : x.1 ≤ x.2) {l : RangeList}
    (h : ∀ r ∈ l, r.1 ≤ r.2 ∧ Disj x r) : ∀ r ∈ compact l, Disj x r := by
  unfold compact
  rw [map_normRange_of_wf (fun r hr => (h r hr).1)]
  have hs : ∀ r ∈ l.mergeSort startLe, Disj x r := by
    intro r hr; rw [List.mem_mergeSort] at hr; exact (h r hr).2
  generalize l.mergeSort startLe = s at hs
  cases s with
  | nil => intro r hr; cases hr
  | cons a s => exact disj_mergeGo hx a s (hs a (by simp)) (fun e he => hs e (by simp [he]))

theorem disjList_append {X Y : RangeList} :
    DisjList (X ++ Y) ↔ DisjList X ∧ DisjList Y ∧ ∀ a ∈ X, ∀ b ∈ Y, Disj a b := by
  unfold DisjList
  rw [List.pairwise_append]
  constructor
  · rintro ⟨hw, hx, hy, hxy⟩
    exact ⟨⟨fun r hr => hw r (by simp [hr]), hx⟩, ⟨fun r hr => hw r (by simp [hr]), hy⟩, hxy⟩
  · rintro ⟨⟨hwx, hx⟩, ⟨hwy, hy⟩, hxy⟩
    refine ⟨?_, hx, hy, hxy⟩
    intro r hr
    rcases List.mem_append.mp hr with hr | hr
    · exact hwx r hr
    · exact hwy r hr

theorem disjList_compact (l : RangeList) : DisjList (compact l) :=
  (normal_asc (normal_compact l)).disjList

/-- compaction of a prefix keeps the whole list pairwise disjoint -/
theorem disjList_compact_append {X Y : RangeList} (h : DisjList (X ++ Y)) : DisjList (compact X ++ Y) := by
  obtain ⟨hX, hY, hXY⟩ := disjList_append.mp h
  refine disjList_append.mpr ⟨disjList_compact X, hY, ?_⟩
  intro a ha b hb
  exact (disj_compact (hY.1 b hb) (fun r hr => ⟨hX.1 r hr, (hXY r hr b hb).symm⟩) a ha).symm

theorem slotsNum_compact_append {X Y : RangeList} (h : DisjList (X ++ Y)) :
    slotsNum (compact X) = slotsNum X :=
  slotsNum_compact (disjList_append.mp h).1

/-! ## one chunk half -/

/-- range lists being imported into a half -/
def impRanges (l : List MigStore) : List RangeList := (l.filter fun m => !m.isMigrating).map (·.ranges)

/-- all ranges a half will own: stable ones and importing ones -/
def halfAll (st : Option RangeList) (l : List MigStore) : RangeList := st.getD [] ++ (impRanges l).flatten

/-- projected final slot count of a half -/
def proj (st : Option RangeList) (l : List MigStore) : Nat := halfCount st + slotsNum (impRanges l).flatten

def HalfDisj (st : Option RangeList) (l : List MigStore) : Prop := DisjList (halfAll st l)

theorem halfCount_eq (st : Option RangeList) : halfCount st = slotsNum (st.getD []) := by
  cases st <;> rfl

theorem proj_eq (st : Option RangeList) (l : List MigStore) : proj st l = slotsNum (halfAll st l) := by
  simp [proj, halfAll, slotsNum_append, halfCount_eq]

theorem proj_nil (st : Option RangeList) : proj st [] = halfCount st := by
  simp [proj, impRanges]

theorem impRanges_strip (ranges : RangeList) (mm : MigMeta) (l : List MigStore) :
    impRanges (l.filter (keepOf ranges mm)) = impRanges l := by
  unfold impRanges
  rw [List.filter_filter]
  congr 1
  apply List.filter_congr
  intro x _
  cases hx : x.isMigrating <;> simp [keepOf, hx]

theorem impRanges_compact {l : List MigStore} (h : ∀ e ∈ l, compact e.ranges = e.ranges) :
    impRanges (l.map compactMig) = impRanges l := by
  have : l.map compactMig = l := by
    conv => rhs; rw [← List.map_id l]
    apply List.map_congr_left
    intro e he; exact compactMig_of_fixed (h e he)
  rw [this]

theorem impRanges_append (a b : List MigStore) : impRanges (a ++ b) = impRanges a ++ impRanges b := by
  simp [impRanges, List.filter_append]

theorem impRanges_cons_importing {a : MigStore} (h : a.isMigrating = false) (l : List MigStore) :
    impRanges (a :: l) = a.ranges :: impRanges l := by
  simp [impRanges, h]

/-- re-compacting the stable list of a half changes neither disjointness nor the projection -/
theorem half_compact {st : Option RangeList} {l : List MigStore} (h : HalfDisj st l) :
    HalfDisj (st.map compact) l ∧ proj (st.map compact) l = proj st l := by
  cases st with
  | none => exact ⟨h, rfl⟩
  | some rl =>
    unfold HalfDisj halfAll at h ⊢
    simp only [Option.getD_some, Option.map_some] at h ⊢
    refine ⟨disjList_compact_append h, ?_⟩
    simp only [proj, halfCount]
    rw [slotsNum_compact_append h]

/-- the destination half absorbs the committed ranges: disjointness and projection are kept -/
theorem half_land {st : Option RangeList} {l1 l2 : List MigStore} {a : MigStore}
    (ha : a.isMigrating = false) (h : HalfDisj st (l1 ++ a :: l2)) :
    HalfDisj (absorb st a.ranges) (l1 ++ l2) ∧ proj (absorb st a.ranges) (l1 ++ l2) = proj st (l1 ++ a :: l2) := by
  have himp : impRanges (l1 ++ a :: l2) = impRanges l1 ++ a.ranges :: impRanges l2 := by
    rw [impRanges_append, impRanges_cons_importing ha]
  have himp' : impRanges (l1 ++ l2) = impRanges l1 ++ impRanges l2 := impRanges_append l1 l2
  -- move the committed ranges next to the stable ones
  have hperm : (halfAll st (l1 ++ a :: l2)).Perm
      ((st.getD [] ++ a.ranges) ++ ((impRanges l1).flatten ++ (impRanges l2).flatten)) := by
    unfold halfAll
    rw [himp, List.flatten_append, List.flatten_cons, List.append_assoc]
    exact List.Perm.append_left _ (List.perm_append_comm_assoc _ _ _)
  have hd : DisjList ((st.getD [] ++ a.ranges) ++ ((impRanges l1).flatten ++ (impRanges l2).flatten)) :=
    DisjList.perm h hperm
  have hcount : proj st (l1 ++ a :: l2) =
      slotsNum (st.getD [] ++ a.ranges) + slotsNum ((impRanges l1).flatten ++ (impRanges l2).flatten) := by
    rw [proj_eq, slotsNum_perm hperm, slotsNum_append]
  cases st with
  | none =>
    simp only [Option.getD_none, List.nil_append] at hd hcount
    refine ⟨?_, ?_⟩
    · unfold HalfDisj halfAll
      simp only [absorb, Option.getD_some, himp', List.flatten_append]
      exact hd
    · rw [hcount]
      simp [proj, absorb, halfCount, himp', List.flatten_append]
  | some rl =>
    simp only [Option.getD_some] at hd hcount
    refine ⟨?_, ?_⟩
    · unfold HalfDisj halfAll
      simp only [absorb, Option.getD_some, himp', List.flatten_append, mergeAnother]
      exact disjList_compact_append hd
    · rw [hcount]
      simp only [proj, absorb, halfCount, himp', List.flatten_append, mergeAnother]
      rw [slotsNum_compact_append hd]

end Um.Broker.Scale
