import UmProofs.BrokerScaleBasic
/-!
# C10 — `auto_delete_free_nodes` releases exactly the empty chunks
-/
namespace Um.Broker.Scale
open Um Um.Slots Um.Broker

theorem Chunk.isFree_iff (c : Chunk) :
    c.isFree = true ↔ c.stable0 = none ∧ c.stable1 = none ∧ c.mig0 = [] ∧ c.mig1 = [] := by
  unfold Chunk.isFree
  simp [Option.isNone_iff_eq_none, List.isEmpty_iff, and_assoc]

/-- the proxies of a list of chunks -/
def chunkProxies (l : List Chunk) : List String := l.flatMap fun ch => [ch.proxy0, ch.proxy1]

/-- clear the cluster tag of the listed proxy addresses -/
def freeProxiesOf (addrs : List String) (ps : List ProxyRes) : List ProxyRes :=
  ps.map fun p => if addrs.contains p.addr then { p with cluster := none } else p

theorem setProxyCluster_none_proxies (s : Store) (a : String) :
    (s.setProxyCluster a none).proxies = freeProxiesOf [a] s.proxies := by
  unfold Store.setProxyCluster freeProxiesOf
  simp only
  apply List.map_congr_left
  intro p _
  by_cases h : p.addr = a <;> simp [h]

theorem freeProxiesOf_append (a b : List String) (ps : List ProxyRes) :
    freeProxiesOf b (freeProxiesOf a ps) = freeProxiesOf (a ++ b) ps := by
  unfold freeProxiesOf
  rw [List.map_map]
  apply List.map_congr_left
  intro p _
  simp only [Function.comp]
  by_cases ha : p.addr ∈ a <;> by_cases hb : p.addr ∈ b <;> simp [ha, hb]

/-- the store after un-tagging the proxies of the removed chunks -/
theorem foldl_free (removed : List Chunk) (s1 : Store) :
    let s2 := removed.foldl
      (fun s ch => (s.setProxyCluster ch.proxy0 none).setProxyCluster ch.proxy1 none) s1
    s2.proxies = freeProxiesOf (chunkProxies removed) s1.proxies ∧ s2.clusters = s1.clusters ∧
      s2.failed = s1.failed ∧ s2.failures = s1.failures ∧ s2.globalEpoch = s1.globalEpoch := by
  induction removed generalizing s1 with
  | nil =>
    simp [chunkProxies, freeProxiesOf]
  | cons ch rest ih =>
    simp only [List.foldl_cons]
    have := ih ((s1.setProxyCluster ch.proxy0 none).setProxyCluster ch.proxy1 none)
    simp only at this
    obtain ⟨h1, h2, h3, h4, h5⟩ := this
    refine ⟨?_, h2, h3, h4, h5⟩
    rw [h1, setProxyCluster_none_proxies, setProxyCluster_none_proxies, freeProxiesOf_append,
      freeProxiesOf_append]
    simp [chunkProxies]

/-- result of a successful `auto_delete_free_nodes` -/
structure Released (s s' : Store) (name : String) (cl : Cluster) : Prop where
  found : s.findCluster name = some cl
  idle : cl.isMigrating = false
  some_free : cl.chunks.filter Chunk.isFree ≠ []
  clusters : s'.clusters = s.clusters.map fun x =>
    if x.name == cl.name then
      { cl with chunks := cl.chunks.filter (fun c => !c.isFree), epoch := s.globalEpoch + 1 } else x
  proxies : s'.proxies = freeProxiesOf (chunkProxies (cl.chunks.filter Chunk.isFree)) s.proxies
  failed : s'.failed = s.failed
  failures : s'.failures = s.failures
  epoch : s'.globalEpoch = s.globalEpoch + 1

theorem autoDeleteFreeNodes_ok {s s' : Store} {name : String}
    (h : autoDeleteFreeNodes s name = (s', R.ok ())) : ∃ cl, Released s s' name cl := by
  unfold autoDeleteFreeNodes at h
  split at h
  · cases h
  · split at h
    · cases h
    · rename_i cl hf
      split at h
      · cases h
      · rename_i hm
        dsimp only at h
        split at h
        · cases h
        · rename_i hne
          simp only [Prod.mk.injEq, and_true] at h
          subst h
          have hfold := foldl_free (cl.chunks.filter Chunk.isFree)
            (s.setCluster { cl with chunks := cl.chunks.filter (fun c => !c.isFree), epoch := s.globalEpoch + 1 })
          simp only at hfold
          obtain ⟨h1, h2, h3, h4, h5⟩ := hfold
          refine ⟨cl, hf, by simpa using hm, ?_, ?_, ?_, ?_, ?_, ?_⟩
          · intro h0; rw [h0] at hne; simp at hne
          · simp only [Store.bump]; rw [h2]; rfl
          · simp only [Store.bump]; rw [h1]; rfl
          · simp only [Store.bump]; rw [h3]; rfl
          · simp only [Store.bump]; rw [h4]; rfl
          · simp only [Store.bump]; rw [h5]; rfl

/-- a failed `auto_delete_free_nodes` changes nothing -/
theorem autoDeleteFreeNodes_not_ok {s : Store} {name : String} :
    (∃ s', autoDeleteFreeNodes s name = (s', R.ok ())) ∨
    (∃ e, autoDeleteFreeNodes s name = (s, R.err e)) := by
  unfold autoDeleteFreeNodes
  split
  · exact Or.inr ⟨_, rfl⟩
  · split
    · exact Or.inr ⟨_, rfl⟩
    · split
      · exact Or.inr ⟨_, rfl⟩
      · dsimp only
        split
        · exact Or.inr ⟨_, rfl⟩
        · exact Or.inl ⟨_, rfl⟩

/-- the cluster served after a successful release: the non-free chunks in order -/
theorem Released.findCluster {s s' : Store} {name : String} {cl : Cluster} (h : Released s s' name cl) :
    s'.findCluster name =
      some { cl with chunks := cl.chunks.filter (fun c => !c.isFree), epoch := s.globalEpoch + 1 } := by
  have hn := Store.findCluster_name h.found
  have hf := h.found
  unfold Store.findCluster at hf ⊢
  rw [h.clusters]
  generalize s.clusters = l at hf
  induction l with
  | nil => simp at hf
  | cons x xs ih =>
    simp only [List.map_cons]
    by_cases hx : x.name = name
    · have hx1 : (x.name == name) = true := by simpa using hx
      simp only [List.find?_cons, hx1] at hf
      cases hf
      simp [hn]
    · have hx' : (x.name == name) = false := by simpa using hx
      simp only [List.find?_cons, hx'] at hf
      have : (x.name == cl.name) = false := by rw [hn]; exact hx'
      simp only [this, List.find?_cons, Bool.false_eq_true, if_false, hx']
      exact ih hf

/-- `auto_delete_free_nodes_if_exists`: either the release happened or nothing changed -/
theorem autoDeleteFreeNodesIfExists_cases (s : Store) (name : String) :
    (∃ s' cl, autoDeleteFreeNodesIfExists s name = (s', R.ok ()) ∧ Released s s' name cl) ∨
    (∃ r, autoDeleteFreeNodesIfExists s name = (s, r)) := by
  unfold autoDeleteFreeNodesIfExists
  rcases autoDeleteFreeNodes_not_ok (s := s) (name := name) with ⟨s', h⟩ | ⟨e, h⟩
  · obtain ⟨cl, hr⟩ := autoDeleteFreeNodes_ok h
    rw [h]
    exact Or.inl ⟨s', cl, rfl, hr⟩
  · rw [h]
    right
    cases e <;> exact ⟨_, rfl⟩

/-- `commit_migration` with `clear_free_nodes = true` is the core commit followed, on success, by
`auto_delete_free_nodes_if_exists` -/
theorem commitMigration_clear (s : Store) (name : String) (ranges : RangeList) (e : Nat) (tagNone : Bool) :
    (∃ s1, commitMigrationCore s name ranges e tagNone = (s1, R.ok ()) ∧
      commitMigration s name ranges e tagNone true = autoDeleteFreeNodesIfExists s1 name) ∨
    ((∀ s1, commitMigrationCore s name ranges e tagNone ≠ (s1, R.ok ())) ∧
      commitMigration s name ranges e tagNone true = commitMigrationCore s name ranges e tagNone) := by
  unfold commitMigration
  rcases hc : commitMigrationCore s name ranges e tagNone with ⟨s1, r⟩
  cases r with
  | ok u => cases u; exact Or.inl ⟨s1, rfl, rfl⟩
  | err e => exact Or.inr ⟨(by intro s1 h; cases h), rfl⟩
  | panic w => exact Or.inr ⟨(by intro s1 h; cases h), rfl⟩
  | badChoice w => exact Or.inr ⟨(by intro s1 h; cases h), rfl⟩

/-- `auto_change_node_number` on an idle cluster: first `auto_delete_free_nodes`, then (if that
succeeded or found nothing) a scale-up or a scale-down planning step on the resulting store -/
theorem autoChangeNodeNumber_decomp {s : Store} {name : String} {cl : Cluster} (expected : Nat)
    (choice : List (String × String)) (hv : validName name = true)
    (hf : s.findCluster name = some cl) (hm : cl.isMigrating = false) :
    (autoChangeNodeNumber s name expected choice).1 = (autoDeleteFreeNodes s name).1 ∨
    (autoChangeNodeNumber s name expected choice).1 =
      (autoScaleUpNodes (autoDeleteFreeNodes s name).1 name expected choice).1 ∨
    (autoChangeNodeNumber s name expected choice).1 =
      (migrateSlotsToScaleDown (autoDeleteFreeNodes s name).1 name expected).1 := by
  unfold autoChangeNodeNumber
  simp only [hv, hf, hm, Bool.not_true, Bool.false_eq_true, if_false]
  generalize autoDeleteFreeNodes s name = p
  obtain ⟨s1, r1⟩ := p
  have key : ∀ (u : Unit),
      (match s1.findCluster name with
        | none => (s1, (R.err Err.clusterNotFound : R Nat))
        | some cl1 =>
          let existing := cl1.chunks.length * 4
          if existing == expected then (s1, R.ok 0)
          else if existing < expected then
            match autoScaleUpNodes s1 name expected choice with
            | (s2, .ok ()) => (s2, R.ok 1)
            | (s2, .err e) => (s2, R.err e)
            | (s2, .panic w) => (s2, R.panic w)
            | (s2, .badChoice w) => (s2, R.badChoice w)
          else
            match migrateSlotsToScaleDown s1 name expected with
            | (s2, .ok ()) => (s2, R.ok 2)
            | (s2, .err e) => (s2, R.err e)
            | (s2, .panic w) => (s2, R.panic w)
            | (s2, .badChoice w) => (s2, R.badChoice w)).1 = s1 ∨
      (match s1.findCluster name with
        | none => (s1, (R.err Err.clusterNotFound : R Nat))
        | some cl1 =>
          let existing := cl1.chunks.length * 4
          if existing == expected then (s1, R.ok 0)
          else if existing < expected then
            match autoScaleUpNodes s1 name expected choice with
            | (s2, .ok ()) => (s2, R.ok 1)
            | (s2, .err e) => (s2, R.err e)
            | (s2, .panic w) => (s2, R.panic w)
            | (s2, .badChoice w) => (s2, R.badChoice w)
          else
            match migrateSlotsToScaleDown s1 name expected with
            | (s2, .ok ()) => (s2, R.ok 2)
            | (s2, .err e) => (s2, R.err e)
            | (s2, .panic w) => (s2, R.panic w)
            | (s2, .badChoice w) => (s2, R.badChoice w)).1 = (autoScaleUpNodes s1 name expected choice).1 ∨
      (match s1.findCluster name with
        | none => (s1, (R.err Err.clusterNotFound : R Nat))
        | some cl1 =>
          let existing := cl1.chunks.length * 4
          if existing == expected then (s1, R.ok 0)
          else if existing < expected then
            match autoScaleUpNodes s1 name expected choice with
            | (s2, .ok ()) => (s2, R.ok 1)
            | (s2, .err e) => (s2, R.err e)
            | (s2, .panic w) => (s2, R.panic w)
            | (s2, .badChoice w) => (s2, R.badChoice w)
          else
            match migrateSlotsToScaleDown s1 name expected with
            | (s2, .ok ()) => (s2, R.ok 2)
            | (s2, .err e) => (s2, R.err e)
            | (s2, .panic w) => (s2, R.panic w)
            | (s2, .badChoice w) => (s2, R.badChoice w)).1 = (migrateSlotsToScaleDown s1 name expected).1 := by
    intro _
    split
    · exact Or.inl rfl
    · dsimp only
      split
      · exact Or.inl rfl
      · split
        · generalize autoScaleUpNodes s1 name expected choice = q2
          obtain ⟨s2, r2⟩ := q2
          cases r2 <;> exact Or.inr (Or.inl rfl)
        · generalize migrateSlotsToScaleDown s1 name expected = q2
          obtain ⟨s2, r2⟩ := q2
          cases r2 <;> exact Or.inr (Or.inr rfl)
  cases r1 with
  | ok u => cases u; exact key ()
  | err e => cases e <;> first | exact key () | exact Or.inl rfl
  | panic w => exact Or.inl rfl
  | badChoice w => exact Or.inl rfl

end Um.Broker.Scale
