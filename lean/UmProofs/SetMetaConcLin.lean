import UmProofs.SetMetaConcStep
/-!
`Um.SetMetaConc`: every step preserves `LInv`; executions from a state without callers.
-/
namespace Um.SetMetaConc
open Um Um.ProxyMeta

variable {C : Type}

theorem linv_step {announce : Bytes} {st0 : State C} {s s' : Sys C} {l : Label C} {log : List (Entry C)}
    (h : step? announce s l = some s') (inv : LInv announce st0 s log) :
    LInv announce st0 s' (logStep s l log) := by
  rcases step_pool h with ⟨m, b, hl, he, hsn, ho, _, hp⟩ |
    ⟨i, c, c', e', sn', o', hl, hci, he, hsn, ho, ha, _, hp⟩
  · subst hl
    exact linv_spawn m b he hsn ho hp inv
  · subst hl
    have hlog : logStep s (.run i) log =
        if c.pc = .lock ∧ s.owner = none then log ++ [(i, c.msg, c.cfgOk)] else log := by
      simp [logStep, hci]
    rw [hlog]
    cases ha with
    | hostsOk hpc hh =>
      simp only [hpc, reduceCtorEq, false_and, if_false]
      exact linv_outside (c' := { c with pc := .lock }) hci hpc rfl (Or.inl ⟨rfl, hh⟩) he hsn ho hp inv
    | hostsBad hpc hh =>
      simp only [hpc, reduceCtorEq, false_and, if_false]
      exact linv_outside (c' := { c with pc := .done .notMyMeta }) hci hpc rfl (Or.inr ⟨rfl, hh⟩) he hsn ho hp inv
    | lock hpc hfree =>
      simp only [hpc, hfree, and_self, if_true]
      exact linv_lock hci hpc hfree he hsn ho hp inv
    | testRej hpc hf hle =>
      simp only [hpc, reduceCtorEq, false_and, if_false]
      refine linv_release (r := .oldEpoch) (c' := { c with pc := .done .oldEpoch }) hci (Or.inl hpc) rfl (Or.inr (Or.inr rfl)) rfl rfl ho hp ?_ inv
      intro pre hcl hh
      have hst := hcl.1 (Or.inl hpc)
      have hep : s.epoch = (seqRun announce st0 pre).1.epoch := by rw [← hst]
      rw [handle_some]
      have : c.msg.force = false ∧ c.msg.epoch ≤ (seqRun announce st0 pre).1.epoch := ⟨hf, by omega⟩
      simp only [hh, Bool.true_eq_false, if_false, this, and_self, if_true]
      exact ⟨by rw [he, hsn]; exact hst, trivial⟩
    | testPass hpc hacc =>
      simp only [hpc, reduceCtorEq, false_and, if_false]
      have hh := (inv.hosts i c hci).1 (Or.inr (Or.inl (Or.inl hpc)))
      refine linv_owner_update (c' := { c with pc := .mapStore }) hci (Or.inl hpc) (Or.inr (Or.inl rfl)) rfl rfl ho hp ?_ inv
      intro pre hcl
      have hst := hcl.1 (Or.inl hpc)
      have hep : s.epoch = (seqRun announce st0 pre).1.epoch := by rw [← hst]
      refine ⟨?_, ?_, ?_, ?_⟩
      · intro _; rw [he, hsn]; exact hst
      · intro h; cases h
      · intro h; cases h
      · intro _
        refine ⟨hh, ?_⟩
        rcases hacc with h | h
        · exact Or.inl h
        · exact Or.inr (by show c.msg.epoch > _; omega)
    | mapStore hpc =>
      simp only [hpc, reduceCtorEq, false_and, if_false]
      refine linv_owner_update (c' := { c with pc := .epochStore }) hci (Or.inr (Or.inl hpc)) (Or.inr (Or.inr (Or.inl rfl))) rfl rfl ho hp ?_ inv
      intro pre hcl
      have hst := hcl.1 (Or.inr hpc)
      have hep : s.epoch = (seqRun announce st0 pre).1.epoch := by rw [← hst]
      have hacc := hcl.2.2.2 (by rw [hpc]; intro h; cases h)
      refine ⟨?_, ?_, ?_, ?_⟩
      · intro h; rcases h with h | h <;> cases h
      · intro _; exact ⟨by rw [he]; exact hep, hsn⟩
      · intro h; cases h
      · intro _; exact hacc
    | epochStore hpc =>
      simp only [hpc, reduceCtorEq, false_and, if_false]
      refine linv_owner_update (c' := { c with pc := .unlock }) hci (Or.inr (Or.inr (Or.inl hpc))) (Or.inr (Or.inr (Or.inr rfl))) rfl rfl ho hp ?_ inv
      intro pre hcl
      have hst := hcl.2.1 hpc
      have hacc := hcl.2.2.2 (by rw [hpc]; intro h; cases h)
      refine ⟨?_, ?_, ?_, ?_⟩
      · intro h; rcases h with h | h <;> cases h
      · intro h; cases h
      · intro _
        show (⟨s'.epoch, s'.snap⟩ : State C) = installOf c.msg
        rw [he, hsn, hst.2]; rfl
      · intro _; exact hacc
    | unlock hpc =>
      simp only [hpc, reduceCtorEq, false_and, if_false]
      have hr : (if c.cfgOk = true then Reply.ok else Reply.warn) = .ok ∨
          (if c.cfgOk = true then Reply.ok else Reply.warn) = .warn ∨
          (if c.cfgOk = true then Reply.ok else Reply.warn) = .oldEpoch := by
        cases c.cfgOk <;> simp
      refine linv_release (r := if c.cfgOk then .ok else .warn) (c' := { c with pc := .done (if c.cfgOk then .ok else .warn) }) hci (Or.inr (Or.inr (Or.inr hpc))) rfl hr rfl rfl ho hp ?_ inv
      intro pre hcl hh
      have hst := hcl.2.2.1 hpc
      have hacc := hcl.2.2.2 (by rw [hpc]; intro h; cases h)
      rw [handle_some]
      have : ¬ (c.msg.force = false ∧ c.msg.epoch ≤ (seqRun announce st0 pre).1.epoch) := by
        rintro ⟨a, b⟩
        rcases hacc.2 with h | h
        · rw [a] at h; cases h
        · omega
      simp only [hh, Bool.true_eq_false, if_false, this]
      exact ⟨by rw [he, hsn]; exact hst, trivial⟩

/-- the invariant holds initially: no callers, empty log -/
theorem linv_init (announce : Bytes) (e0 : Nat) (c0 : C) :
    LInv announce ⟨e0, c0⟩ (Sys.init e0 c0) [] := by
  refine ⟨by simp, ?_, ?_, ?_, ?_, ?_⟩
  · intro t ht; cases ht
  · intro i c hc; simp [Sys.init] at hc
  · intro i c hc; simp [Sys.init] at hc
  · intro _
    refine ⟨by simp [Sys.init, seqRun, cmds, run], ?_⟩
    intro k t hk; simp at hk
  · intro i hi; simp [Sys.init] at hi

/-- … and along every execution, with the ghost log computed by `replayG` -/
theorem linv_replayG {announce : Bytes} {st0 : State C} {s s' : Sys C} {log log' : List (Entry C)}
    {ls : List (Label C)} (inv : LInv announce st0 s log)
    (h : replayG announce s log ls = some (s', log')) : LInv announce st0 s' log' := by
  induction ls generalizing s log with
  | nil => simp only [replayG, Option.some.injEq, Prod.mk.injEq] at h; obtain ⟨rfl, rfl⟩ := h; exact inv
  | cons l ls ih =>
    simp only [replayG] at h
    cases hs : step? announce s l with
    | none => simp [hs] at h
    | some s1 =>
      simp only [hs] at h
      exact ih (linv_step hs inv) h

/-- every execution has a ghost log -/
theorem replayG_of_replay {announce : Bytes} {s s' : Sys C} (log : List (Entry C)) {ls : List (Label C)}
    (h : replay announce s ls = some s') : ∃ log', replayG announce s log ls = some (s', log') := by
  have := replayG_fst (announce := announce) s log ls
  rw [h] at this
  cases hg : replayG announce s log ls with
  | none => simp [hg] at this
  | some p =>
    obtain ⟨s2, log'⟩ := p
    simp [hg] at this
    subst this
    exact ⟨log', rfl⟩

end Um.SetMetaConc
