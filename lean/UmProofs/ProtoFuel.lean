import UmProofs.ReplProto
/-!
The recursion budgets of the model never decide (`.fuel` is unreachable from the entry points),
and well-formedness is invariant under reordering of the node groups.
-/
namespace Um.Proto
open Um Um.Gen.Proto

theorem parseSections_ne_fuel : ∀ (f : Nat) (loc peer : NodeMap) (cfg : Config) (ext : Bool) (ts : List Str),
    ts.length < f → parseSections f loc peer cfg ext ts ≠ .error .fuel := by
  intro f
  induction f with
  | zero => intro _ _ _ _ ts h; omega
  | succ f ih =>
    intro loc peer cfg ext ts h
    cases ts with
    | nil => simp [parseSections]
    | cons t ts =>
      simp only [List.length_cons] at h
      simp only [parseSections]
      split
      · cases hn : NodeMap.parse ts with
        | error er =>
          simp only
          intro hh
          injection hh with hh
          subst hh
          exact NodeMap.parse_ne_fuel ts hn
        | ok q =>
          obtain ⟨p, rest⟩ := q
          have := (NodeMap.parse_wf ts p rest hn).2.2
          exact ih loc p cfg ext rest (by omega)
      · split
        · cases hcp : Config.parse ts with
          | mk r rest =>
            have := (Config.parseAux_facts ts.length ts Config.default r rest (Nat.le_refl _) wfCfg_default hcp).1
            cases r with
            | some c' => exact ih loc peer c' ext rest (by omega)
            | none =>
              simp only
              split
              · simp
              · exact ih loc peer cfg false rest (by omega)
        · simp

/-- `parse` never reports the model's own budget -/
theorem parseWith_ne_fuel (dec : Str → Option MetaData) (ts : List Str) : parseWith dec ts ≠ .error .fuel := by
  match ts with
  | [] => simp [parseWith]
  | [v] => unfold parseWith; simp only; split <;> simp
  | [v, e] =>
    unfold parseWith; simp only
    split
    · simp
    · cases parseUnsigned e <;> simp
  | [v, e, fl] =>
    unfold parseWith; simp only
    split
    · simp
    · cases parseUnsigned e with
      | none => simp
      | some n => simp only; split <;> simp
  | v :: e :: fl :: name :: ts4 =>
    unfold parseWith; simp only
    split
    · simp
    · cases parseUnsigned e with
      | none => simp
      | some n =>
        simp only
        split
        · cases dec name <;> simp
        · split
          · simp
          · cases hl : NodeMap.parse ts4 with
            | error er =>
              simp only
              intro hh; injection hh with hh; subst hh
              exact NodeMap.parse_ne_fuel ts4 hl
            | ok q =>
              obtain ⟨loc, ts5⟩ := q
              simp only
              cases hs : parseSections (ts5.length + 1) loc [] Config.default true ts5 with
              | error er =>
                simp only
                intro hh; injection hh with hh; subst hh
                exact parseSections_ne_fuel _ loc [] Config.default true ts5 (Nat.lt_succ_self _) hs
              | ok q2 => simp

theorem parseReplEntries_ne_fuel : ∀ (f : Nat) (ms rs : List ReplEntry) (ts : List Str), ts.length < f →
    parseReplEntries f ms rs ts ≠ .error .fuel := by
  intro f
  induction f with
  | zero => intro _ _ ts h; omega
  | succ f ih =>
    intro ms rs ts h
    cases ts with
    | nil => simp [parseReplEntries]
    | cons role ts =>
      simp only [parseReplEntries]
      split
      · simp
      · split
        · simp
        · split
          · simp
          · split
            · simp
            · rename_i name ts1 _ node ts2 cnt ts3
              cases hc : parseUnsigned cnt with
              | none => simp
              | some n =>
                simp only
                cases hp : parsePeers n ts3 with
                | none => simp
                | some q =>
                  obtain ⟨peers, rest⟩ := q
                  have := (parsePeers_length n ts3 peers rest hp).2
                  simp only [List.length_cons] at h
                  simp only
                  split
                  · exact ih _ rs rest (by omega)
                  · split
                    · exact ih ms _ rest (by omega)
                    · simp

theorem parseReplTokens_ne_fuel (ts : List Str) : parseReplTokens ts ≠ .error .fuel := by
  unfold parseReplTokens
  split
  · simp
  · split
    · simp
    · split
      · simp
      · rename_i ts2
        cases hp : parseReplEntries (ts2.length + 1) [] [] ts2 with
        | error er =>
          simp only
          intro hh; injection hh with hh; subst hh
          exact parseReplEntries_ne_fuel _ [] [] ts2 (Nat.lt_succ_self _) hp
        | ok q => simp

/-! ## reordering of groups -/

theorem WfMap.perm {a b : NodeMap} (hp : a.Perm b) (h : WfMap b) : WfMap a := by
  refine ⟨?_, fun p hpa => h.2 p (hp.mem_iff.mp hpa)⟩
  have : a.keys.Perm b.keys := hp.map _
  exact this.nodup_iff.mpr h.1

theorem WfMeta.equiv {a b : Meta} (he : MetaEquiv a b) (h : WfMeta b) : WfMeta a := by
  obtain ⟨e1, e2, e3, e4, e5, e6, e7⟩ := he
  obtain ⟨h1, h2, h3, h4, h5, h6, h7⟩ := h
  exact ⟨e1 ▸ h1, e2 ▸ h2, e3 ▸ h3, e4 ▸ h4, WfMap.perm e5 h5, WfMap.perm e6 h6, e7 ▸ h7⟩

end Um.Proto
