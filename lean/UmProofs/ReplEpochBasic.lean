import UmModel.ReplEpoch
/-!
`Um.ReplEpoch`: the step relation (proved equivalent to the executable `step?`), the atomic
actions as an inductive relation, and the pool-as-function view of the caller list.
-/
namespace Um.ReplEpoch
open Um Um.ProxyMeta

theorem loadRejects_iff (u e : Nat) : loadRejects u e = true ↔ e ≤ u := by
  simp [loadRejects, Um.Gen.Meta.replLoadRejectsEqual]

theorem lockRejects_iff (e ie : Nat) : lockRejects e ie = true ↔ e ≤ ie := by
  simp [lockRejects, Um.Gen.Meta.replLockRejectsEqual]

/-- the six atomic actions of a caller (`u ie im` = shared variables before, primed = after) -/
inductive Act : Nat → Nat → RMap → Caller → Nat → Nat → RMap → Caller → Prop
  | loadRej {u ie : Nat} {im : RMap} {c : Caller} (hpc : c.pc = .load) (hf : c.msg.force = false)
      (h : c.msg.epoch ≤ u) : Act u ie im c u ie im { c with pc := .done .oldEpoch }
  | loadPass {u ie : Nat} {im : RMap} {c : Caller} (hpc : c.pc = .load)
      (h : c.msg.force = true ∨ u < c.msg.epoch) : Act u ie im c u ie im { c with pc := .store }
  | store {u ie : Nat} {im : RMap} {c : Caller} (hpc : c.pc = .store) :
      Act u ie im c c.msg.epoch ie im { c with pc := .readLock }
  | read {u ie : Nat} {im : RMap} {c : Caller} (hpc : c.pc = .readLock) :
      Act u ie im c u ie im
        { c with pc := .writeLock, reused := reuseOf (keySet c.msg.masters) (keySet c.msg.replicas) im }
  | lockRej {u ie : Nat} {im : RMap} {c : Caller} (hpc : c.pc = .writeLock) (hf : c.msg.force = false)
      (h : c.msg.epoch ≤ ie) : Act u ie im c ie ie im { c with pc := .done .oldEpoch }
  | install {u ie : Nat} {im : RMap} {c : Caller} (hpc : c.pc = .writeLock)
      (h : c.msg.force = true ∨ ie < c.msg.epoch) :
      Act u ie im c c.msg.epoch c.msg.epoch (buildMap c.reused c.msg) { c with pc := .done .ok }

theorem act_iff (u ie : Nat) (im : RMap) (c : Caller) (u' ie' : Nat) (im' : RMap) (c' : Caller) :
    act u ie im c = some (u', ie', im', c') ↔ Act u ie im c u' ie' im' c' := by
  constructor
  · intro h
    unfold act at h
    split at h
    · rename_i hpc
      by_cases hr : (!c.msg.force && loadRejects u c.msg.epoch) = true
      · rw [if_pos hr] at h
        simp only [Option.some.injEq, Prod.mk.injEq] at h
        obtain ⟨rfl, rfl, rfl, rfl⟩ := h
        simp only [Bool.and_eq_true, Bool.not_eq_true', loadRejects_iff] at hr
        exact Act.loadRej hpc hr.1 hr.2
      · rw [if_neg hr] at h
        simp only [Option.some.injEq, Prod.mk.injEq] at h
        obtain ⟨rfl, rfl, rfl, rfl⟩ := h
        simp only [Bool.and_eq_true, Bool.not_eq_true', loadRejects_iff, not_and, Nat.not_le] at hr
        refine Act.loadPass hpc ?_
        cases hf : c.msg.force
        · exact Or.inr (hr hf)
        · exact Or.inl rfl
    · rename_i hpc
      simp only [Option.some.injEq, Prod.mk.injEq] at h
      obtain ⟨rfl, rfl, rfl, rfl⟩ := h
      exact Act.store hpc
    · rename_i hpc
      simp only [Option.some.injEq, Prod.mk.injEq] at h
      obtain ⟨rfl, rfl, rfl, rfl⟩ := h
      exact Act.read hpc
    · rename_i hpc
      by_cases hr : (!c.msg.force && lockRejects c.msg.epoch ie) = true
      · rw [if_pos hr] at h
        simp only [Option.some.injEq, Prod.mk.injEq] at h
        obtain ⟨rfl, rfl, rfl, rfl⟩ := h
        simp only [Bool.and_eq_true, Bool.not_eq_true', lockRejects_iff] at hr
        exact Act.lockRej hpc hr.1 hr.2
      · rw [if_neg hr] at h
        simp only [Option.some.injEq, Prod.mk.injEq] at h
        obtain ⟨rfl, rfl, rfl, rfl⟩ := h
        simp only [Bool.and_eq_true, Bool.not_eq_true', lockRejects_iff, not_and, Nat.not_le] at hr
        refine Act.install hpc ?_
        cases hf : c.msg.force
        · exact Or.inr (hr hf)
        · exact Or.inl rfl
    · cases h
  · intro h
    cases h with
    | loadRej hpc hf h => simp [act, hpc, hf, (loadRejects_iff _ _).mpr h]
    | loadPass hpc h =>
      have : (!c.msg.force && loadRejects u c.msg.epoch) = false := by
        rcases h with h | h
        · simp [h]
        · have : loadRejects u c.msg.epoch = false := by
            cases hl : loadRejects u c.msg.epoch
            · rfl
            · have := (loadRejects_iff _ _).mp hl; omega
          simp [this]
      simp [act, hpc, this]
    | store hpc => simp [act, hpc]
    | read hpc => simp [act, hpc]
    | lockRej hpc hf h => simp [act, hpc, hf, (lockRejects_iff _ _).mpr h]
    | install hpc h =>
      have : (!c.msg.force && lockRejects c.msg.epoch ie) = false := by
        rcases h with h | h
        · simp [h]
        · have : lockRejects c.msg.epoch ie = false := by
            cases hl : lockRejects c.msg.epoch ie
            · rfl
            · have := (lockRejects_iff _ _).mp hl; omega
          simp [this]
      simp [act, hpc, this]

/-- one step of the system -/
inductive Step (announce : Bytes) : Sys → Label → Sys → Prop
  | spawn (s : Sys) (m : RMsg) :
      Step announce s (.spawn m) { s with callers := s.callers ++ [spawnCaller announce m] }
  | run (s : Sys) (i : Nat) (c : Caller) (u ie : Nat) (im : RMap) (c' : Caller)
      (hc : s.callers[i]? = some c) (ha : Act s.updating s.instEpoch s.instMap c u ie im c') :
      Step announce s (.run i) ⟨u, ie, im, s.callers.set i c'⟩

theorem step_iff (announce : Bytes) (s : Sys) (l : Label) (s' : Sys) :
    Step announce s l s' ↔ step? announce s l = some s' := by
  constructor
  · intro h
    cases h with
    | spawn => rfl
    | run i c u ie im c' hc ha =>
      simp [step?, hc, (act_iff _ _ _ _ _ _ _ _).mpr ha]
  · intro h
    cases l with
    | spawn m =>
      simp only [step?, Option.some.injEq] at h
      subst h
      exact Step.spawn s m
    | run i =>
      simp only [step?] at h
      cases hc : s.callers[i]? with
      | none => simp [hc] at h
      | some c =>
        simp only [hc] at h
        cases ha : act s.updating s.instEpoch s.instMap c with
        | none => simp [ha] at h
        | some r =>
          obtain ⟨u, ie, im, c'⟩ := r
          simp only [ha, Option.some.injEq] at h
          subst h
          exact Step.run s i c u ie im c' hc ((act_iff _ _ _ _ _ _ _ _).mp ha)

/-- executions (snoc form: invariants are proved by induction on the last step) -/
inductive Run (announce : Bytes) : Sys → List Label → Sys → Prop
  | nil (s : Sys) : Run announce s [] s
  | snoc {s s1 s2 : Sys} {ls : List Label} {l : Label} :
      Run announce s ls s1 → Step announce s1 l s2 → Run announce s (ls ++ [l]) s2

/-- executable replay of a schedule -/
def replay (announce : Bytes) : Sys → List Label → Option Sys
  | s, [] => some s
  | s, l :: ls =>
    match step? announce s l with
    | none => none
    | some s' => replay announce s' ls

theorem run_cons {announce : Bytes} {s s1 s2 : Sys} {l : Label} {ls : List Label}
    (h1 : Step announce s l s1) (h2 : Run announce s1 ls s2) : Run announce s (l :: ls) s2 := by
  induction h2 with
  | nil => exact Run.snoc (Run.nil s) h1
  | snoc _ hs ih => exact Run.snoc (ls := l :: _) ih hs

theorem replay_run {announce : Bytes} {s s' : Sys} {ls : List Label}
    (h : replay announce s ls = some s') : Run announce s ls s' := by
  induction ls generalizing s with
  | nil => simp only [replay, Option.some.injEq] at h; subst h; exact Run.nil s
  | cons l ls ih =>
    simp only [replay] at h
    cases hs : step? announce s l with
    | none => simp [hs] at h
    | some s1 =>
      simp only [hs] at h
      exact run_cons ((step_iff _ _ _ _).mpr hs) (ih h)

/-! ## the pool as a function `Nat → Option Caller` -/

/-- the effect of a step on the pool: exactly one index changes -/
theorem step_pool {announce : Bytes} {s s' : Sys} {l : Label} (h : Step announce s l s') :
    (∃ m, l = .spawn m ∧ s'.updating = s.updating ∧ s'.instEpoch = s.instEpoch ∧ s'.instMap = s.instMap ∧
        s'.callers.length = s.callers.length + 1 ∧
        ∀ j, s'.callers[j]? = if j = s.callers.length then some (spawnCaller announce m) else s.callers[j]?) ∨
    (∃ (i : Nat) (c c' : Caller) (u' ie' : Nat) (im' : RMap), l = .run i ∧ s.callers[i]? = some c ∧
        s'.updating = u' ∧ s'.instEpoch = ie' ∧ s'.instMap = im' ∧
        Act s.updating s.instEpoch s.instMap c u' ie' im' c' ∧
        s'.callers.length = s.callers.length ∧
        ∀ j, s'.callers[j]? = if j = i then some c' else s.callers[j]?) := by
  cases h with
  | spawn m =>
    left
    refine ⟨m, rfl, rfl, rfl, rfl, by simp, ?_⟩
    intro j
    simp only [List.getElem?_append]
    by_cases h1 : j < s.callers.length
    · have : j ≠ s.callers.length := by omega
      simp [h1, this]
    · by_cases h2 : j = s.callers.length
      · simp [h2]
      · have h3 : s.callers.length ≤ j := by omega
        have h4 : j - s.callers.length ≠ 0 := by omega
        simp only [h1, h2, if_false, List.getElem?_eq_none h3]
        cases hj : j - s.callers.length with
        | zero => omega
        | succ k => simp
  | run i c u ie im c' hc ha =>
    right
    refine ⟨i, c, c', u, ie, im, rfl, hc, rfl, rfl, rfl, ha, by simp, ?_⟩
    intro j
    have hi : i < s.callers.length := by
      obtain ⟨h, _⟩ := List.getElem?_eq_some_iff.mp hc; exact h
    simp only [List.getElem?_set]
    by_cases hij : i = j
    · subst hij; simp [hi]
    · have : ¬ j = i := fun h => hij h.symm
      simp [hij, this]

theorem Act.msg_eq {u ie : Nat} {im : RMap} {c : Caller} {u' ie' : Nat} {im' : RMap} {c' : Caller}
    (h : Act u ie im c u' ie' im' c') : c'.msg = c.msg := by
  cases h <;> rfl

theorem Act.not_done {u ie : Nat} {im : RMap} {c : Caller} {u' ie' : Nat} {im' : RMap} {c' : Caller}
    (h : Act u ie im c u' ie' im' c') (r : Reply) : c.pc ≠ .done r := by
  cases h <;> simp_all

end Um.ReplEpoch
