import UmProofs.CoordFF
namespace Um.Coord
open Um Um.Broker

theorem R_bind_ok {α β : Type} (x : R α) (f : α → R β) (b : β) (h : (x >>= f) = R.ok b) :
    ∃ a, x = R.ok a ∧ f a = R.ok b := by
  cases x with
  | ok a => exact ⟨a, rfl, h⟩
  | err e => cases h
  | panic w => cases h
  | badChoice w => cases h

theorem proxyView_address {s : Store} {a : String} {l : Nat} {v : VProxy}
    (h : proxyView s a l = R.ok (some v)) : v.address = a := by
  unfold proxyView at h
  split at h
  · cases h
  · split at h
    · have : some _ = some v := R.ok.inj h
      cases this; rfl
    · obtain ⟨lc, _, h⟩ := R_bind_ok _ _ _ h
      obtain ⟨vc, _, h⟩ := R_bind_ok _ _ _ h
      have : some _ = some v := R.ok.inj h
      cases this; rfl


/-! ## single calls, fault-free -/

theorem call_connect_up {st : RS} (h : FF st) {a : String} {p : PState} (hp : st.sys.findP a = some p)
    (hup : p.up = true) :
    (st.call noHook (.connect a)).2 = some .connected ∧ (st.call noHook (.connect a)).1.sys = st.sys ∧
      FF (st.call noHook (.connect a)).1 := by
  obtain ⟨h1, h2, h3⟩ := call_ff' h (.connect a) (by intro x hx; cases hx)
  simp only [exec, hp, hup, if_true] at h1 h2
  exact ⟨h1, h2, h3⟩

theorem call_connect_down {st : RS} (h : FF st) {a : String}
    (hp : ∀ p, st.sys.findP a = some p → p.up = false) :
    (st.call noHook (.connect a)).2 = some .refused ∧ (st.call noHook (.connect a)).1.sys = st.sys ∧
      FF (st.call noHook (.connect a)).1 := by
  obtain ⟨h1, h2, h3⟩ := call_ff' h (.connect a) (by intro x hx; cases hx)
  simp only [exec] at h1 h2
  cases hf : st.sys.findP a with
  | none => simp only [hf] at h1 h2; exact ⟨h1, h2, h3⟩
  | some p =>
    have := hp p hf
    simp only [hf, this, Bool.false_eq_true, if_false] at h1 h2
    exact ⟨h1, h2, h3⟩

theorem call_setRepl_up {st : RS} (h : FF st) {a : String} {p : PState} (hp : st.sys.findP a = some p)
    (hup : p.up = true) (e : Nat) (r : RMeta) :
    (st.call noHook (.setRepl a e r)).2 = some (.mrep (p.setRepl e false r).2) ∧
      (st.call noHook (.setRepl a e r)).1.sys = st.sys.setP (p.setRepl e false r).1 ∧
      FF (st.call noHook (.setRepl a e r)).1 := by
  obtain ⟨h1, h2, h3⟩ := call_ff' h (.setRepl a e r) (by intro x hx; cases hx)
  simp only [exec, hp, hup, if_true] at h1 h2
  exact ⟨h1, h2, h3⟩

theorem call_setCluster_up {st : RS} (h : FF st) {a : String} {p : PState} (hp : st.sys.findP a = some p)
    (hup : p.up = true) (e : Nat) (m : CMeta) :
    (st.call noHook (.setCluster a e m)).2 = some (.mrep (p.setCluster e false m).2) ∧
      (st.call noHook (.setCluster a e m)).1.sys = st.sys.setP (p.setCluster e false m).1 ∧
      FF (st.call noHook (.setCluster a e m)).1 := by
  obtain ⟨h1, h2, h3⟩ := call_ff' h (.setCluster a e m) (by intro x hx; cases hx)
  simp only [exec, hp, hup, if_true] at h1 h2
  exact ⟨h1, h2, h3⟩


/-! ## bringing one process up to a view -/

/-- the process can take the view `v`: it runs, `v` is addressed to its host, and what it holds is
not newer than `v` (and equal to `v` where the epochs are equal) -/
structure PGood (compress : Bool) (v : VProxy) (p : PState) : Prop where
  up : p.up = true
  hosts : hostsOk p.host (mkCMeta compress v) = true
  rhosts : replHostsOk p.host (mkRMeta v) = true
  freshC : p.epoch < v.epoch ∨ (p.epoch = v.epoch ∧ p.cmeta = mkCMeta compress v)
  freshR : p.replEpoch < v.epoch ∨ (p.replEpoch = v.epoch ∧ p.repl = mkRMeta v)

/-- the process holds exactly the view `v` -/
structure PSynced (compress : Bool) (v : VProxy) (p : PState) : Prop where
  epoch : p.epoch = v.epoch
  cmeta : p.cmeta = mkCMeta compress v
  replEpoch : p.replEpoch = v.epoch
  repl : p.repl = mkRMeta v

theorem setRepl_good {c : Bool} {v : VProxy} {p : PState} (h : PGood c v p) :
    let q := p.setRepl v.epoch false (mkRMeta v)
    (q.2 = .ok ∨ q.2 = .oldEpoch) ∧ q.1.replEpoch = v.epoch ∧ q.1.repl = mkRMeta v ∧ q.1.addr = p.addr ∧
      q.1.host = p.host ∧ q.1.up = p.up ∧ q.1.epoch = p.epoch ∧ q.1.cmeta = p.cmeta := by
  unfold PState.setRepl
  simp only [h.rhosts, Bool.not_true, Bool.false_eq_true, if_false, Bool.not_false, Bool.true_and]
  rcases h.freshR with hlt | ⟨heq, hr⟩
  · have : ¬ p.replEpoch ≥ v.epoch := by omega
    simp [this]
  · have : p.replEpoch ≥ v.epoch := by omega
    simp [this, heq, hr]

theorem setCluster_good {c : Bool} {v : VProxy} {p : PState} (hup : p.up = true)
    (hh : hostsOk p.host (mkCMeta c v) = true)
    (hf : p.epoch < v.epoch ∨ (p.epoch = v.epoch ∧ p.cmeta = mkCMeta c v)) :
    let q := p.setCluster v.epoch false (mkCMeta c v)
    (q.2 = .ok ∨ q.2 = .oldEpoch) ∧ q.1.epoch = v.epoch ∧ q.1.cmeta = mkCMeta c v ∧ q.1.addr = p.addr ∧
      q.1.host = p.host ∧ q.1.up = true ∧ q.1.replEpoch = p.replEpoch ∧ q.1.repl = p.repl := by
  unfold PState.setCluster
  simp only [hh, Bool.not_true, Bool.false_eq_true, if_false, Bool.not_false, Bool.and_true]
  rcases hf with hlt | ⟨heq, hr⟩
  · have : ¬ v.epoch ≤ p.epoch := by omega
    simp [this, hup]
  · have : v.epoch ≤ p.epoch := by omega
    simp [this, heq, hr, hup]

/-- what a fault-free step on address `a` leaves untouched -/
structure Frame (a : String) (s s' : Sys) : Prop where
  broker : s'.broker = s.broker
  limit : s'.limit = s.limit
  compress : s'.compress = s.compress
  quorum : s'.quorum = s.quorum
  others : ∀ b, b ≠ a → s'.findP b = s.findP b

theorem Frame.refl (a : String) (s : Sys) : Frame a s s := ⟨rfl, rfl, rfl, rfl, fun _ _ => rfl⟩

theorem Frame.trans {a : String} {s t u : Sys} (h1 : Frame a s t) (h2 : Frame a t u) : Frame a s u :=
  ⟨h2.broker.trans h1.broker, h2.limit.trans h1.limit, h2.compress.trans h1.compress, h2.quorum.trans h1.quorum,
    fun b hb => (h2.others b hb).trans (h1.others b hb)⟩

theorem Frame.setP {s : Sys} {q : PState} {a : String} (h : q.addr = a) : Frame a s (s.setP q) := by
  refine ⟨rfl, rfl, rfl, rfl, ?_⟩
  intro b hb
  rw [findP_setP]
  have : (q.addr == b) = false := by
    rw [h]; simpa using fun hab : a = b => hb hab.symm
  simp [this]

theorem findP_setP_self {s : Sys} {p q : PState} {a : String} (hp : s.findP a = some p) (hq : q.addr = a) :
    (s.setP q).findP a = some q := by
  rw [findP_setP]; simp [hq, hp]


/-! ## frames of the calls of a sync round -/

theorem exec_frame_connect (s : Sys) (a x : String) (ch : String) : Frame x s (exec s (.connect a) ch).1 := by
  simp only [exec]
  split
  · split <;> exact Frame.refl _ _
  · exact Frame.refl _ _

theorem exec_frame_setRepl (s : Sys) (a : String) (e : Nat) (r : RMeta) (ch : String) :
    Frame a s (exec s (.setRepl a e r) ch).1 := by
  simp only [exec]
  split
  · rename_i p hp
    split
    · exact Frame.setP ((setRepl_addr p e _ r).trans (findP_addr hp))
    · exact Frame.refl _ _
  · exact Frame.refl _ _

theorem exec_frame_setCluster (s : Sys) (a : String) (e : Nat) (m : CMeta) (ch : String) :
    Frame a s (exec s (.setCluster a e m) ch).1 := by
  simp only [exec]
  split
  · rename_i p hp
    split
    · exact Frame.setP ((setCluster_addr p e _ m).trans (findP_addr hp))
    · exact Frame.refl _ _
  · exact Frame.refl _ _

theorem exec_frame_getProxy (s : Sys) (a x : String) (ch : String) : Frame x s (exec s (.getProxy a) ch).1 := by
  simp only [exec]
  split
  · exact ⟨rfl, rfl, rfl, rfl, fun _ _ => rfl⟩
  · exact Frame.refl _ _
  · exact Frame.refl _ _

theorem call_frame {st : RS} (h : FF st) (c : Call) {x : String} (hfr : ∀ s ch, Frame x s (exec s c ch).1) :
    FF (st.call noHook c).1 ∧ Frame x st.sys (st.call noHook c).1.sys := by
  obtain ⟨ch, _, h2, h3⟩ := call_ff h c
  exact ⟨h3, by rw [h2]; exact hfr _ _⟩

theorem sendMeta_frame {st : RS} (h : FF st) (v : VProxy) :
    FF (sendMeta noHook st v).1 ∧ Frame v.address st.sys (sendMeta noHook st v).1.sys := by
  unfold sendMeta
  dsimp only
  obtain ⟨f0, r0⟩ := call_frame h (.connect v.address) (x := v.address) (fun s ch => exec_frame_connect s _ _ ch)
  split
  · obtain ⟨f1, r1⟩ := call_frame f0 (.setRepl v.address v.epoch (mkRMeta v)) (x := v.address)
      (fun s ch => exec_frame_setRepl s _ _ _ ch)
    split
    · obtain ⟨f2, r2⟩ := call_frame f1 (.setCluster v.address v.epoch (mkCMeta st.sys.compress v)) (x := v.address)
        (fun s ch => exec_frame_setCluster s _ _ _ ch)
      exact ⟨f2, (r0.trans r1).trans r2⟩
    · exact ⟨f1, r0.trans r1⟩
  · exact ⟨f0, r0⟩

/-- a good process ends up holding exactly `v` -/
theorem sendMeta_good {st : RS} (h : FF st) {v : VProxy} {p : PState} (hp : st.sys.findP v.address = some p)
    (hg : PGood st.sys.compress v p) :
    (sendMeta noHook st v).2 = true ∧
    ∃ p', (sendMeta noHook st v).1.sys.findP v.address = some p' ∧ PSynced st.sys.compress v p' ∧
      PGood st.sys.compress v p' := by
  obtain ⟨c1, c2, c3⟩ := call_connect_up h hp hg.up
  obtain ⟨a1, a2, a3, a4, a5, a6, a7, a8⟩ := setRepl_good hg
  have hp1 : (st.call noHook (.connect v.address)).1.sys.findP v.address = some p := by rw [c2]; exact hp
  obtain ⟨d1, d2, d3⟩ := call_setRepl_up c3 hp1 hg.up v.epoch (mkRMeta v)
  generalize hq : p.setRepl v.epoch false (mkRMeta v) = q at *
  have hq1 : ((st.call noHook (.connect v.address)).1.call noHook (.setRepl v.address v.epoch (mkRMeta v))).1.sys.findP
      v.address = some q.1 := by
    rw [d2]; exact findP_setP_self hp1 (a4.trans (findP_addr hp))
  have hqup : q.1.up = true := a6.trans hg.up
  obtain ⟨b1, b2, b3, b4, b5, b6, b7, b8⟩ := setCluster_good (c := st.sys.compress) (v := v) (p := q.1) hqup
    (by rw [a5]; exact hg.hosts) (by rw [a7, a8]; exact hg.freshC)
  obtain ⟨e1, e2, e3⟩ := call_setCluster_up d3 hq1 hqup v.epoch (mkCMeta st.sys.compress v)
  generalize hw : q.1.setCluster v.epoch false (mkCMeta st.sys.compress v) = w at *
  have hm1 : metaOk (some (CallReply.mrep q.2)) = true := by
    rcases a1 with a1 | a1 <;> rw [a1] <;> rfl
  have hm2 : metaOk (some (CallReply.mrep w.2)) = true := by
    rcases b1 with b1 | b1 <;> rw [b1] <;> rfl
  unfold sendMeta
  dsimp only
  simp only [c1, d1, hm1, if_true, e1, hm2, true_and]
  refine ⟨w.1, ?_, ⟨b2, b3, b7.trans a2, b8.trans a3⟩, ?_⟩
  · rw [e2]; exact findP_setP_self hq1 (b4.trans (a4.trans (findP_addr hp)))
  · exact ⟨b6, by rw [b5, a5]; exact hg.hosts, by rw [b5, a5]; exact hg.rhosts, Or.inr ⟨b2, b3⟩,
      Or.inr ⟨b7.trans a2, b8.trans a3⟩⟩


/-! ## `get_proxy` + `send_meta` on one address -/

theorem call_getProxy_ff {st : RS} (h : FF st) (a : String) :
    FF (st.call noHook (.getProxy a)).1 ∧ (∀ x, Frame x st.sys (st.call noHook (.getProxy a)).1.sys) ∧
    (st.call noHook (.getProxy a)).1.sys.proxies = st.sys.proxies ∧
    ((∃ v, proxyView st.sys.broker a st.sys.limit = R.ok (some v) ∧
        (st.call noHook (.getProxy a)).2 = some (.proxy (some v))) ∨
     (st.call noHook (.getProxy a)).2 = some (.proxy none) ∨
     (∃ w, (st.call noHook (.getProxy a)).2 = some (.fail w))) := by
  obtain ⟨h1, h2, h3⟩ := call_ff' h (.getProxy a) (by intro x hx; cases hx)
  refine ⟨h3, fun x => by rw [h2]; exact exec_frame_getProxy _ _ _ _, ?_, ?_⟩
  · rw [h2]; simp only [exec]; split <;> rfl
  · rw [h1]
    simp only [exec]
    split
    · rename_i v hv; exact Or.inl ⟨v, hv, rfl⟩
    · exact Or.inr (Or.inl rfl)
    · exact Or.inr (Or.inr ⟨_, rfl⟩)

theorem retrieveAndSend_frame {st : RS} (h : FF st) (a : String) :
    FF (retrieveAndSend noHook st a).1 ∧ Frame a st.sys (retrieveAndSend noHook st a).1.sys := by
  unfold retrieveAndSend
  dsimp only
  obtain ⟨f0, r0, _, hcase⟩ := call_getProxy_ff h a
  rcases hcase with ⟨v, hv, hr⟩ | hr | ⟨w, hr⟩
  · simp only [hr]
    obtain ⟨f1, r1⟩ := sendMeta_frame f0 v
    rw [proxyView_address hv] at r1
    exact ⟨f1, (r0 a).trans r1⟩
  · simp only [hr]; exact ⟨f0, r0 a⟩
  · simp only [hr]; exact ⟨f0, r0 a⟩

theorem findP_of_proxies_eq {s s' : Sys} (h : s'.proxies = s.proxies) (a : String) : s'.findP a = s.findP a := by
  unfold Sys.findP; rw [h]

/-- a good process holds the broker's current view after `retrieve_and_send_meta` -/
theorem retrieveAndSend_good {st : RS} (h : FF st) {a : String} {v : VProxy} {p : PState}
    (hv : proxyView st.sys.broker a st.sys.limit = R.ok (some v)) (hp : st.sys.findP a = some p)
    (hg : PGood st.sys.compress v p) :
    (retrieveAndSend noHook st a).2 = true ∧
    ∃ p', (retrieveAndSend noHook st a).1.sys.findP a = some p' ∧ PSynced st.sys.compress v p' ∧
      PGood st.sys.compress v p' := by
  unfold retrieveAndSend
  dsimp only
  obtain ⟨f0, r0, hpx, hcase⟩ := call_getProxy_ff h a
  have hva := proxyView_address hv
  rcases hcase with ⟨v', hv', hr⟩ | hr | ⟨w, hr⟩
  · rw [hv] at hv'
    have : v = v' := by injection hv' with h1; injection h1
    subst this
    simp only [hr]
    have hp' : (st.call noHook (.getProxy a)).1.sys.findP v.address = some p := by
      rw [hva, findP_of_proxies_eq hpx]; exact hp
    have hc : (st.call noHook (.getProxy a)).1.sys.compress = st.sys.compress := (r0 a).compress
    have := sendMeta_good f0 hp' (by rw [hc]; exact hg)
    rw [hc, hva] at this
    exact this
  · exfalso
    obtain ⟨h1, _, _⟩ := call_ff' h (.getProxy a) (by intro x hx; cases hx)
    rw [h1] at hr
    simp only [exec, hv] at hr
    cases hr
  · exfalso
    obtain ⟨h1, _, _⟩ := call_ff' h (.getProxy a) (by intro x hx; cases hx)
    rw [h1] at hr
    simp only [exec, hv] at hr
    cases hr

/-! ## read-only calls -/

theorem call_ro {st : RS} (h : FF st) (c : Call) (hro : ∀ s ch, (exec s c ch).1 = s) :
    FF (st.call noHook c).1 ∧ (st.call noHook c).1.sys = st.sys := by
  obtain ⟨ch, _, h2, h3⟩ := call_ff h c
  exact ⟨h3, by rw [h2, hro]⟩

theorem pagedLoop_ro {mk : Nat → Call} (hro : ∀ off s ch, (exec s (mk off) ch).1 = s) (fuel : Nat) {st : RS} (h : FF st)
    (off : Nat) (acc : List String) :
    FF (pagedLoop noHook mk fuel st off acc).1 ∧ (pagedLoop noHook mk fuel st off acc).1.sys = st.sys := by
  induction fuel generalizing st off acc with
  | zero => exact ⟨h, rfl⟩
  | succ n ih =>
    unfold pagedLoop
    dsimp only
    obtain ⟨f0, e0⟩ := call_ro h (mk off) (hro off)
    split
    · split
      · exact ⟨f0, e0⟩
      · obtain ⟨f1, e1⟩ := ih f0 (off + Um.Gen.Coord.PAGE_SIZE) (acc ++ _)
        exact ⟨f1, e1.trans e0⟩
    · exact ⟨f0, e0⟩

theorem listFailed_ro {st : RS} (h : FF st) : FF (listFailed noHook st).1 ∧ (listFailed noHook st).1.sys = st.sys := by
  unfold listFailed
  dsimp only
  obtain ⟨f0, e0⟩ := call_ro h .failedProxies (fun _ _ => rfl)
  split <;> exact ⟨f0, e0⟩

theorem exec_cluster_ro (name : String) (s : Sys) (ch : String) : (exec s (.cluster name) ch).1 = s := by
  simp only [exec]; split <;> rfl

theorem retrieveOrdered_ro {st : RS} (h : FF st) :
    FF (retrieveOrdered noHook st).1 ∧ (retrieveOrdered noHook st).1.sys = st.sys := by
  unfold retrieveOrdered
  dsimp only
  obtain ⟨f0, e0⟩ : FF (listClusterNames noHook st).1 ∧ (listClusterNames noHook st).1.sys = st.sys :=
    pagedLoop_ro (mk := .clusterNames) (fun _ _ _ => rfl) 64 h 0 []
  have key : ∀ (l : List String) (x : RS × List String), FF x.1 →
      FF (l.foldl (fun (acc : RS × List String) name =>
        match (acc.1.call noHook (.cluster name)).2 with
        | some (.cluster (some v)) =>
          ((acc.1.call noHook (.cluster name)).1, acc.2 ++ (clusterProxyAddrs v).filter fun a => !acc.2.contains a)
        | _ => ((acc.1.call noHook (.cluster name)).1, acc.2)) x).1 ∧
      (l.foldl (fun (acc : RS × List String) name =>
        match (acc.1.call noHook (.cluster name)).2 with
        | some (.cluster (some v)) =>
          ((acc.1.call noHook (.cluster name)).1, acc.2 ++ (clusterProxyAddrs v).filter fun a => !acc.2.contains a)
        | _ => ((acc.1.call noHook (.cluster name)).1, acc.2)) x).1.sys = x.1.sys := by
    intro l
    induction l with
    | nil => intro x hx; exact ⟨hx, rfl⟩
    | cons name rest ih =>
      intro x hx
      simp only [List.foldl_cons]
      obtain ⟨f1, e1⟩ := call_ro hx (.cluster name) (exec_cluster_ro name)
      split
      · obtain ⟨f2, e2⟩ := ih (_, _) f1
        exact ⟨f2, e2.trans e1⟩
      · obtain ⟨f2, e2⟩ := ih (_, _) f1
        exact ⟨f2, e2.trans e1⟩
  obtain ⟨f1, e1⟩ := key (listClusterNames noHook st).2 ((listClusterNames noHook st).1, []) f0
  obtain ⟨f2, e2⟩ := listFailed_ro f1
  obtain ⟨f3, e3⟩ : FF (listProxyAddrs noHook (listFailed noHook _).1).1 ∧ _ :=
    pagedLoop_ro (mk := .proxyAddrs) (fun _ _ _ => rfl) 64 f2 0 []
  exact ⟨f3, ((e3.trans e2).trans e1).trans e0⟩


/-! ## the whole sync round -/

/-- invariant of the per-target loop for the process at `a`: it stays able to take `v`
(`synced = true`: it holds `v`) -/
structure LoopInv (b : Store) (limit : Nat) (c : Bool) (a : String) (v : VProxy) (synced : Bool) (st : RS) : Prop where
  ff : FF st
  broker : st.sys.broker = b
  limit : st.sys.limit = limit
  compress : st.sys.compress = c
  good : ∃ p, st.sys.findP a = some p ∧ PGood c v p ∧ (synced = true → PSynced c v p)

theorem loop_step {b : Store} {limit : Nat} {c : Bool} {a : String} {v : VProxy} {synced : Bool} {st : RS}
    (hv : proxyView b a limit = R.ok (some v)) (h : LoopInv b limit c a v synced st) (x : String) :
    LoopInv b limit c a v (synced || x == a) (retrieveAndSend noHook st x).1 := by
  obtain ⟨p, hp, hg, hs⟩ := h.good
  by_cases hx : x = a
  · subst hx
    have hv' : proxyView st.sys.broker x st.sys.limit = R.ok (some v) := by rw [h.broker, h.limit]; exact hv
    obtain ⟨_, p', hp', hs', hg'⟩ := retrieveAndSend_good h.ff hv' hp (by rw [h.compress]; exact hg)
    obtain ⟨f, fr⟩ := retrieveAndSend_frame h.ff x
    rw [h.compress] at hs' hg'
    exact ⟨f, fr.broker.trans h.broker, fr.limit.trans h.limit, fr.compress.trans h.compress, p', hp', hg', fun _ => hs'⟩
  · obtain ⟨f, fr⟩ := retrieveAndSend_frame h.ff x
    have hne : (x == a) = false := by simpa using hx
    refine ⟨f, fr.broker.trans h.broker, fr.limit.trans h.limit, fr.compress.trans h.compress, p, ?_, hg, ?_⟩
    · rw [fr.others a (fun hax => hx hax.symm)]; exact hp
    · intro hsy; rw [hne, Bool.or_false] at hsy; exact hs hsy

theorem loop_fold {b : Store} {limit : Nat} {c : Bool} {a : String} {v : VProxy}
    (hv : proxyView b a limit = R.ok (some v)) (l : List String) {synced : Bool} {st : RS}
    (h : LoopInv b limit c a v synced st) :
    LoopInv b limit c a v (synced || l.contains a) (l.foldl (fun st x => (retrieveAndSend noHook st x).1) st) := by
  induction l generalizing synced st with
  | nil => simpa using h
  | cons x xs ih =>
    have := ih (loop_step hv h x)
    simp only [List.foldl_cons]
    have e : (synced || (x :: xs).contains a) = ((synced || x == a) || xs.contains a) := by
      simp only [List.contains_cons, Bool.or_assoc]
      congr 1
      rw [Bool.beq_comm]
    rw [e]; exact this

/-- **one fault-free sync round** brings every target process that can take the broker's current view to
exactly that view, and leaves the broker alone -/
theorem syncBody_converges {st : RS} (h : FF st) (targets : List String)
    (hvalid : isPermStr targets (retrieveOrdered noHook st).2 = true)
    {a : String} {v : VProxy} {p : PState} (ha : a ∈ targets)
    (hv : proxyView st.sys.broker a st.sys.limit = R.ok (some v)) (hp : st.sys.findP a = some p)
    (hg : PGood st.sys.compress v p) :
    (syncBody noHook st targets).sys.broker = st.sys.broker ∧
    ∃ p', (syncBody noHook st targets).sys.findP a = some p' ∧ PSynced st.sys.compress v p' := by
  unfold syncBody
  dsimp only
  obtain ⟨f0, e0⟩ := retrieveOrdered_ro h
  have hnc : (retrieveOrdered noHook st).1.crashed = false := f0.crashed
  simp only [hnc, hvalid, Bool.not_false, Bool.not_true, Bool.and_false, Bool.false_eq_true, if_false]
  have inv0 : LoopInv st.sys.broker st.sys.limit st.sys.compress a v false (retrieveOrdered noHook st).1 :=
    ⟨f0, by rw [e0], by rw [e0], by rw [e0], p, by rw [e0]; exact hp, hg, fun hf => by cases hf⟩
  have := loop_fold hv targets inv0
  have hc : targets.contains a = true := by simpa using ha
  rw [hc, Bool.false_or] at this
  obtain ⟨p', hp', _, hs⟩ := this.good
  exact ⟨this.broker, p', hp', hs rfl⟩

end Um.Coord
