import UmProofs.ReplEpochInv
/-!
`Um.ReplEpoch`: a sequential call (`call` = enter + run to return with nobody else moving) from a
healthy state — every caller returned and `updating_epoch ≤ installed epoch` — is exact, whatever
its flags, and leaves a healthy state.
-/
namespace Um.ReplEpoch
open Um Um.ProxyMeta

/-- no caller in flight and `updating_epoch` not ahead of the installed epoch -/
def Healthy (s : Sys) : Prop := Quiescent s ∧ s.updating ≤ s.instEpoch

/-- the reply the property prescribes for a message delivered while nothing else is in flight -/
def seqReply (announce : Bytes) (installed : Nat) (m : RMsg) : Reply :=
  if hostsOk announce m = false then .notMyMeta
  else if m.force = true ∨ installed < m.epoch then .ok
  else .oldEpoch

theorem step_last (announce : Bytes) (u ie : Nat) (im : RMap) (cs : List Caller) (c : Caller) :
    step? announce ⟨u, ie, im, cs ++ [c]⟩ (.run cs.length) =
      match act u ie im c with
      | none => none
      | some (u', ie', im', c') => some ⟨u', ie', im', cs ++ [c']⟩ := by
  simp only [step?, List.getElem?_concat_length]
  cases act u ie im c with
  | none => rfl
  | some r =>
    obtain ⟨u', ie', im', c'⟩ := r
    simp

theorem healthy_init : Healthy Sys.init := by
  constructor
  · intro j c hj; simp [Sys.init] at hj
  · exact Nat.le_refl _

/-- **a sequential call**: its reply is the prescribed one, an accepted message installs its epoch
together with its own map, anything else leaves the installed pair alone, and the state stays healthy -/
theorem call_spec (announce : Bytes) (s : Sys) (hu : s.updating ≤ s.instEpoch) (m : RMsg) :
    ∃ c' : Caller, (call announce s m).callers = s.callers ++ [c'] ∧ c'.msg = m ∧
      c'.pc = .done (seqReply announce s.instEpoch m) ∧
      (call announce s m).updating ≤ (call announce s m).instEpoch ∧
      (seqReply announce s.instEpoch m = .ok →
        (call announce s m).instEpoch = m.epoch ∧
        (call announce s m).instMap = buildMap (reuseOf (keySet m.masters) (keySet m.replicas) s.instMap) m) ∧
      (seqReply announce s.instEpoch m ≠ .ok →
        (call announce s m).instEpoch = s.instEpoch ∧ (call announce s m).instMap = s.instMap) := by
  obtain ⟨u, ie, im, cs⟩ := s
  simp only at hu
  simp only [seqReply]
  cases hh : hostsOk announce m
  · -- NotMyMeta: returns before the first point
    have hcall : call announce ⟨u, ie, im, cs⟩ m = ⟨u, ie, im, cs ++ [⟨m, .done .notMyMeta, []⟩]⟩ := by
      simp [call, step?, spawnCaller, hh, runToEnd, act]
    rw [hcall]
    exact ⟨_, rfl, rfl, rfl, hu, by simp, by simp⟩
  · cases hr : (!m.force && loadRejects u m.epoch)
    · cases hl : (!m.force && lockRejects m.epoch ie)
      · -- accepted
        have h2 : m.force = true ∨ ie < m.epoch := by
          cases hf : m.force
          · right
            have : lockRejects m.epoch ie = false := by simpa [hf] using hl
            cases Nat.lt_or_ge ie m.epoch with
            | inl h => exact h
            | inr h => rw [(lockRejects_iff _ _).mpr h] at this; cases this
          · left; rfl
        have hcall : call announce ⟨u, ie, im, cs⟩ m =
            ⟨m.epoch, m.epoch, buildMap (reuseOf (keySet m.masters) (keySet m.replicas) im) m,
              cs ++ [⟨m, .done .ok, reuseOf (keySet m.masters) (keySet m.replicas) im⟩]⟩ := by
          simp [call, step?, spawnCaller, hh, runToEnd, act, hr, hl]
        rw [hcall]
        simp only [Bool.true_eq_false, if_false, h2, if_true]
        exact ⟨_, rfl, rfl, rfl, Nat.le_refl _, by simp, by simp⟩
      · -- passes the load, is refused under the write lock
        have h1 : m.force = false ∧ m.epoch ≤ ie := by
          simpa [lockRejects_iff] using hl
        have h2 : ¬ (m.force = true ∨ ie < m.epoch) := by
          rintro (h | h)
          · rw [h1.1] at h; cases h
          · omega
        have hcall : call announce ⟨u, ie, im, cs⟩ m =
            ⟨ie, ie, im, cs ++ [⟨m, .done .oldEpoch, reuseOf (keySet m.masters) (keySet m.replicas) im⟩]⟩ := by
          simp [call, step?, spawnCaller, hh, runToEnd, act, hr, hl]
        rw [hcall]
        simp only [Bool.true_eq_false, if_false, h2]
        exact ⟨_, rfl, rfl, rfl, Nat.le_refl _, by simp, by simp⟩
    · -- refused at the load
      have h1 : m.force = false ∧ m.epoch ≤ u := by
        simpa [loadRejects_iff] using hr
      have h2 : ¬ (m.force = true ∨ ie < m.epoch) := by
        rintro (h | h)
        · rw [h1.1] at h; cases h
        · omega
      have hcall : call announce ⟨u, ie, im, cs⟩ m = ⟨u, ie, im, cs ++ [⟨m, .done .oldEpoch, []⟩]⟩ := by
        simp [call, step?, spawnCaller, hh, runToEnd, act, hr]
      rw [hcall]
      simp only [Bool.true_eq_false, if_false, h2]
      exact ⟨_, rfl, rfl, rfl, hu, by simp, by simp⟩

theorem call_healthy (announce : Bytes) (s : Sys) (h : Healthy s) (m : RMsg) : Healthy (call announce s m) := by
  obtain ⟨c', hc, _, hpc, hu, _, _⟩ := call_spec announce s h.2 m
  refine ⟨?_, hu⟩
  intro j c hj
  rw [hc, List.getElem?_append] at hj
  by_cases hlt : j < s.callers.length
  · simp only [hlt, if_true] at hj; exact h.1 j c hj
  · simp only [hlt, if_false] at hj
    cases hk : j - s.callers.length with
    | zero => simp [hk] at hj; subst hj; exact ⟨_, hpc⟩
    | succ k => simp [hk] at hj

/-- a stream of sequential calls -/
def callAll (announce : Bytes) (s : Sys) (ms : List RMsg) : Sys := ms.foldl (call announce) s

theorem callAll_healthy (announce : Bytes) (s : Sys) (h : Healthy s) (ms : List RMsg) :
    Healthy (callAll announce s ms) := by
  induction ms generalizing s with
  | nil => exact h
  | cons m ms ih => exact ih _ (call_healthy announce s h m)

theorem callAll_append (announce : Bytes) (s : Sys) (xs ys : List RMsg) :
    callAll announce s (xs ++ ys) = callAll announce (callAll announce s xs) ys := by
  simp [callAll, List.foldl_append]

end Um.ReplEpoch
