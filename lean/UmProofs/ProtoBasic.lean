import UmModel.Proto
import UmProofs.Decimal
/-!
Basic lemmas for C17: decimal rendering vs `parseUnsigned`, splitting/joining, case mapping on
the strings the encoders emit, flags.
-/
namespace Um.Proto
open Um Um.Gen.Proto

theorem decimal_eq (n : Nat) : decimal n = natDigits n := by
  induction n using Nat.strongRecOn with
  | _ n ih =>
    unfold decimal natDigits
    split
    · rfl
    · rw [ih (n / 10) (by omega)]

/-- every byte of a decimal rendering is an ASCII digit -/
theorem decimal_digits (n : Nat) : ∀ b ∈ decimal n, 48 ≤ b.toNat ∧ b.toNat ≤ 57 := by
  induction n using Nat.strongRecOn with
  | _ n ih =>
    unfold decimal
    split
    · rename_i h
      intro b hb
      simp only [List.mem_singleton] at hb
      subst hb
      simp [UInt8.toNat_ofNat]; omega
    · intro b hb
      rw [List.mem_append] at hb
      rcases hb with hb | hb
      · exact ih (n / 10) (by omega) b hb
      · simp only [List.mem_singleton] at hb
        subst hb
        simp [UInt8.toNat_ofNat]; omega

theorem decimal_ne_nil (n : Nat) : decimal n ≠ [] := by
  rw [decimal_eq]; exact natDigits_ne_nil n

theorem decimal_head (n : Nat) : ∃ d rest, decimal n = d :: rest ∧ 48 ≤ d.toNat ∧ d.toNat ≤ 57 := by
  cases h : decimal n with
  | nil => exact absurd h (decimal_ne_nil n)
  | cons d rest =>
    have := decimal_digits n d (by rw [h]; exact List.mem_cons_self ..)
    exact ⟨d, rest, rfl, this⟩

theorem parseUnsigned_decimal (n : Nat) (h : n ≤ u64Max) : parseUnsigned (decimal n) = some n := by
  obtain ⟨d, rest, hd, h1, h2⟩ := decimal_head n
  have hb := btouAux_natDigits u64Max n h
  rw [← decimal_eq, hd] at hb
  rw [hd]
  have hne : d ≠ 43 := by
    intro hh; subst hh; simp at h1
  unfold parseUnsigned
  split
  · simp at *
  · rename_i heq; simp at heq; exact absurd heq.1 hne
  · rename_i heq; simp at heq; exact absurd heq.1 hne
  · exact hb

theorem btouAux_le (max : Nat) : ∀ (b : Bytes) (acc n : Nat), acc ≤ max → btouAux max b acc = some n → n ≤ max := by
  intro b
  induction b with
  | nil => intro acc n h1 h2; simp [btouAux] at h2; omega
  | cons d ds ih =>
    intro acc n h1 h2
    simp only [btouAux] at h2
    split at h2
    · simp at h2
    · split at h2
      · simp at h2
      · split at h2
        · simp at h2
        · exact ih _ _ (by omega) h2

theorem parseUnsigned_le {b : Str} {n : Nat} (h : parseUnsigned b = some n) : n ≤ u64Max := by
  unfold parseUnsigned at h
  split at h
  · simp at h
  · simp at h
  · exact btouAux_le _ _ _ _ (Nat.zero_le _) h
  · exact btouAux_le _ _ _ _ (Nat.zero_le _) h

/-! ## splitOn / joinWith -/

theorem splitOn_ne_nil (c : UInt8) (s : Str) : splitOn c s ≠ [] := by
  induction s with
  | nil => simp [splitOn]
  | cons b r ih =>
    unfold splitOn
    split
    · simp
    · split <;> simp

theorem splitOn_no_sep (c : UInt8) (s : Str) (h : c ∉ s) : splitOn c s = [s] := by
  induction s with
  | nil => rfl
  | cons b r ih =>
    have hb : (b == c) = false := by
      simp only [beq_eq_false_iff_ne, ne_eq]
      intro hh; subst hh; exact h (List.mem_cons_self ..)
    have hr : c ∉ r := fun hh => h (List.mem_cons_of_mem _ hh)
    unfold splitOn
    simp [hb, ih hr]

theorem splitOn_append_sep (c : UInt8) (a b : Str) (h : c ∉ a) :
    splitOn c (a ++ c :: b) = a :: splitOn c b := by
  induction a with
  | nil => simp [splitOn]
  | cons x r ih =>
    have hx : (x == c) = false := by
      simp only [beq_eq_false_iff_ne, ne_eq]
      intro hh; subst hh; exact h (List.mem_cons_self ..)
    have hr : c ∉ r := fun hh => h (List.mem_cons_of_mem _ hh)
    simp only [List.cons_append]
    rw [splitOn]
    simp [hx, ih hr]

/-- `split(' ')` undoes `join(" ")` on non-empty lists of separator-free tokens -/
theorem splitOn_joinWith (c : UInt8) (ts : List Str) (hne : ts ≠ []) (h : ∀ t ∈ ts, c ∉ t) :
    splitOn c (joinWith c ts) = ts := by
  induction ts with
  | nil => exact absurd rfl hne
  | cons t rest ih =>
    cases rest with
    | nil => simp [joinWith, splitOn_no_sep c t (h t (List.mem_cons_self ..))]
    | cons u rest' =>
      have : joinWith c (t :: u :: rest') = t ++ c :: joinWith c (u :: rest') := rfl
      rw [this, splitOn_append_sep c t _ (h t (List.mem_cons_self ..))]
      rw [ih (by simp) (fun x hx => h x (List.mem_cons_of_mem _ hx))]

/-! ## case mapping -/

theorem lookupPrefix_upper_none (b : UInt8) (r : Str) (h : b.toNat < 0xC3) :
    lookupPrefix upperTable (b :: r) = none := by
  have hb : ∀ k : UInt8, 0xC3 ≤ k.toNat → (k == b) = false := by
    intro k hk
    simp only [beq_eq_false_iff_ne, ne_eq]
    intro hh; subst hh; omega
  simp [upperTable, lookupPrefix, isPrefix, hb]

theorem upperA_cons_ascii (b : UInt8) (r : Str) (h : b.toNat < 0xC3) :
    upperA (b :: r) = upByte b :: upperA r := by
  unfold upperA
  rw [caseMapAux, lookupPrefix_upper_none b r h]

theorem upByte_digit (b : UInt8) (h1 : 48 ≤ b.toNat) (h2 : b.toNat ≤ 57) : upByte b = b := by
  unfold upByte
  have : ¬ (97 ≤ b ∧ b ≤ 122) := by
    intro ⟨h, _⟩
    have : (97 : UInt8).toNat ≤ b.toNat := UInt8.le_iff_toNat_le.mp h
    simp at this; omega
  simp [this]

/-- a decimal rendering is never read as a word (tag, section, role): its upper-cased form
still starts with a digit -/
theorem upperA_decimal_head (n : Nat) : ∃ d rest, upperA (decimal n) = d :: rest ∧ 48 ≤ d.toNat ∧ d.toNat ≤ 57 := by
  obtain ⟨d, rest, hd, h1, h2⟩ := decimal_head n
  refine ⟨d, upperA rest, ?_, h1, h2⟩
  rw [hd, upperA_cons_ascii d rest (by omega), upByte_digit d h1 h2]

theorem upperA_decimal_ne_migrating (n : Nat) : (upperA (decimal n) == MIGRATING_TAG) = false := by
  obtain ⟨d, rest, hd, h1, h2⟩ := upperA_decimal_head n
  rw [hd]
  simp only [beq_eq_false_iff_ne, ne_eq, MIGRATING_TAG]
  intro hh
  injection hh with hh _
  subst hh; simp at h2

theorem upperA_decimal_ne_importing (n : Nat) : (upperA (decimal n) == IMPORTING_TAG) = false := by
  obtain ⟨d, rest, hd, h1, h2⟩ := upperA_decimal_head n
  rw [hd]
  simp only [beq_eq_false_iff_ne, ne_eq, IMPORTING_TAG]
  intro hh
  injection hh with hh _
  subst hh; simp at h2

/-! ## flags -/

theorem flags_rt (f : Flags) : Flags.fromArg (Flags.toArg f) = f := by
  rcases f with ⟨a, b⟩
  cases a <;> cases b <;> decide

end Um.Proto
