import UmProofs.BrokerResStep
import UmProofs.BrokerResAlloc
/-!
# C12 — `generate_new_free_proxy` / `replace_failed_proxy`: what is returned, that the invariant
is preserved on every path, that the link-table `expect` cannot fail, and the host of the
replacement.
-/
namespace Um.Broker
open Um Um.Slots

/-- host of the surviving partner of `f` (first chunk holding `f`), as computed inline by
`generateNewFreeProxy` -/
def partnerHost (s : Store) (f : String) : Option String :=
  (s.clusters.flatMap (·.chunks)).findSome? fun c =>
    if c.proxy0 == f then some c.host1 else if c.proxy1 == f then some c.host0 else none

/-- hosts linked to `h` that still have a free healthy proxy -/
def replCands0 (s : Store) (row : Counts) : Counts :=
  row.filter fun e => ((freeHostCounts s).get e.1).isSome

/-- … preferring hosts other than the partner's -/
def replCands1 (s : Store) (f : String) (row : Counts) : Counts :=
  (replCands0 s row).filter fun e => some e.1 != partnerHost s f

def replCands (s : Store) (f : String) (row : Counts) : Counts :=
  if (replCands1 s f row).isEmpty then replCands0 s row else replCands1 s f row

/-- `generateNewFreeProxy` with the candidate sets named -/
theorem generateNewFreeProxy_eq (s : Store) (f choice : String) :
    generateNewFreeProxy s f choice =
      match s.findProxy f with
      | none => R.err .proxyNotFound
      | some fp =>
        expectSome ((buildLinkTable s).row fp.host) "consume_new_proxy: cannot find failed proxy" >>= fun row =>
        if (replCands s f row).isEmpty then R.err .noAvailableResource else
        match s.freeProxies.find? (·.addr == choice) with
        | none => R.badChoice s!"replacement {choice} is not a free proxy"
        | some np =>
          match (replCands s f row).find? (·.1 == np.host) with
          | none => R.badChoice s!"replacement host {np.host} is not a candidate"
          | some (_, cnt) =>
            if (replCands s f row).any (fun e => secondBetter (freeHostCounts s) e.1 e.2 np.host cnt) then
              R.badChoice s!"replacement host {np.host} is not minimal"
            else pure np := rfl

theorem expectSome_ok {α} {o : Option α} {w : String} {a : α} (h : expectSome o w = R.ok a) : o = some a := by
  unfold expectSome at h
  split at h
  · cases h; rfl
  · cases h

theorem generateNewFreeProxy_ok {s : Store} {f choice : String} {np : ProxyRes}
    (h : generateNewFreeProxy s f choice = R.ok np) :
    ∃ fp row, s.findProxy f = some fp ∧ (buildLinkTable s).row fp.host = some row ∧
      np ∈ s.freeProxies ∧ np.addr = choice ∧ ∃ cnt, (np.host, cnt) ∈ replCands s f row := by
  rw [generateNewFreeProxy_eq] at h
  split at h
  · cases h
  · rename_i fp hfp
    obtain ⟨row, hrow, h⟩ := R.bind_eq_ok.mp h
    have hrow' := expectSome_ok hrow
    split at h
    · cases h
    · split at h
      · cases h
      · rename_i np' hnp
        split at h
        · cases h
        · rename_i x cnt hfind
          split at h
          · cases h
          · simp only [R.pure_eq, R.ok.injEq] at h
            subst h
            obtain ⟨hm, ha⟩ := find?_key_some (key := ProxyRes.addr) hnp
            have h1 := List.mem_of_find?_eq_some hfind
            have h2 := List.find?_some hfind
            simp only [beq_iff_eq] at h2
            subst h2
            exact ⟨fp, row, hfp, hrow', hm, ha, cnt, h1⟩

theorem generateNewFreeProxy_err {s : Store} {f choice : String} {e : Err}
    (h : generateNewFreeProxy s f choice = R.err e) :
    (e = .proxyNotFound ∧ s.findProxy f = none) ∨
    (e = .noAvailableResource ∧ ∃ fp row, s.findProxy f = some fp ∧
        (buildLinkTable s).row fp.host = some row ∧ replCands s f row = []) := by
  rw [generateNewFreeProxy_eq] at h
  split at h
  · rename_i hnone; cases h; exact Or.inl ⟨rfl, hnone⟩
  · rename_i fp hfp
    rcases R.bind_eq_err.mp h with h | ⟨row, hrow, h⟩
    · unfold expectSome at h; split at h <;> cases h
    · have hrow' := expectSome_ok hrow
      split at h
      · rename_i hemp
        cases h
        exact Or.inr ⟨rfl, fp, row, hfp, hrow', by simpa using hemp⟩
      · split at h
        · cases h
        · split at h
          · cases h
          · split at h <;> cases h

/-- `generate_new_free_proxy` cannot panic when the failed proxy sits in a chunk -/
theorem generateNewFreeProxy_noPanic {s : Store} {f choice : String}
    (hrow : ∀ fp, s.findProxy f = some fp → ((buildLinkTable s).row fp.host).isSome = true) :
    (generateNewFreeProxy s f choice).NoPanic := by
  intro w h
  rw [generateNewFreeProxy_eq] at h
  split at h
  · cases h
  · rename_i fp hfp
    have := hrow fp hfp
    cases hr : (buildLinkTable s).row fp.host with
    | none => simp [hr] at this
    | some row =>
      simp only [hr, expectSome, R.bind_ok] at h
      split at h
      · cases h
      · split at h
        · cases h
        · split at h
          · cases h
          · split at h <;> cases h

/-! ## `replace_failed_proxy` -/

/-- mark `f` failed (the `failed_proxies.insert` of the code) -/
def markFailed (s : Store) (f : String) : Store :=
  { s with failed := if s.failed.contains f then s.failed else s.failed ++ [f] }

theorem markFailed_skelEq (s : Store) (f : String) : SkelEq (markFailed s f) s := ⟨rfl, rfl⟩

/-- state after the takeover and the failed mark: what `generate_new_free_proxy` sees, and what
persists when no replacement is available -/
def afterTakeover (s : Store) (name f : String) : Store := markFailed (takeoverMaster s name f).1 f

theorem afterTakeover_skelEq (s : Store) (name f : String) (hnd : (s.clusters.map (·.name)).Nodup) :
    SkelEq (afterTakeover s name f) s :=
  (markFailed_skelEq _ f).trans (takeoverMaster_skelEq s name f hnd)

/-- the result of a successful in-cluster replacement -/
def replaceResult (s2 : Store) (name f : String) (cl : Cluster) (np : ProxyRes) : Store :=
  ((s2.bump.setCluster { cl with chunks := replaceInChunks f np cl.chunks, epoch := s2.globalEpoch + 1 }
      ).setProxyCluster f none).setProxyCluster np.addr (some name)

theorem takeoverMaster_ok_or_notFound (s : Store) (name f : String) :
    (∃ cl, s.findCluster name = some cl ∧ (takeoverMaster s name f).2 = R.ok ()) ∨
    (s.findCluster name = none ∧ takeoverMaster s name f = (s.bump, R.err .clusterNotFound)) := by
  unfold takeoverMaster
  simp only
  have : s.bump.findCluster name = s.findCluster name := rfl
  rw [this]
  cases hf : s.findCluster name with
  | none => exact Or.inr ⟨rfl, rfl⟩
  | some cl =>
    refine Or.inl ⟨cl, rfl, ?_⟩
    simp only
    split <;> rfl

/-- all outcomes of `replace_failed_proxy` -/
theorem replaceFailedProxy_spec (s : Store) (f choice : String) :
    (s.findProxy f = none ∧ replaceFailedProxy s f choice = (s, R.err .proxyNotFound)) ∨
    (∃ p, s.findProxy f = some p ∧ p.cluster = none ∧
      replaceFailedProxy s f choice =
        ({ s with failures := s.failures.filter (·.1 != f),
                  failed := if s.failed.contains f then s.failed else s.failed ++ [f] }, R.ok none)) ∨
    (∃ p name, s.findProxy f = some p ∧ p.cluster = some name ∧ s.findCluster name = none ∧
      replaceFailedProxy s f choice = (s.bump, R.err .clusterNotFound)) ∨
    (∃ p name cl0, s.findProxy f = some p ∧ p.cluster = some name ∧ s.findCluster name = some cl0 ∧
      -- ordered mode: the takeover, a second epoch bump, no failed mark, no replacement
      ((s.ordered = true ∧
        replaceFailedProxy s f choice = ((takeoverMaster s name f).1.bump, R.ok none)) ∨
       s.ordered = false ∧
      ((∃ np cl, generateNewFreeProxy (afterTakeover s name f) f choice = R.ok np ∧
          (afterTakeover s name f).findCluster name = some cl ∧
          replaceFailedProxy s f choice = (replaceResult (afterTakeover s name f) name f cl np, R.ok (some np.addr))) ∨
       (∃ e, generateNewFreeProxy (afterTakeover s name f) f choice = R.err e ∧
          replaceFailedProxy s f choice = (afterTakeover s name f, R.err e)) ∨
       (∃ w, generateNewFreeProxy (afterTakeover s name f) f choice = R.panic w ∧
          replaceFailedProxy s f choice = (afterTakeover s name f, R.panic w)) ∨
       (∃ w, generateNewFreeProxy (afterTakeover s name f) f choice = R.badChoice w ∧
          replaceFailedProxy s f choice = (afterTakeover s name f, R.badChoice w)) ∨
       (∃ np, generateNewFreeProxy (afterTakeover s name f) f choice = R.ok np ∧
          (afterTakeover s name f).findCluster name = none ∧
          replaceFailedProxy s f choice =
            ((afterTakeover s name f).bump, R.panic "replace_failed_proxy: get cluster"))))) := by
  unfold replaceFailedProxy
  cases hf : s.findProxy f with
  | none => exact Or.inl ⟨rfl, rfl⟩
  | some p =>
    right
    simp only
    cases hpc : p.cluster with
    | none => exact Or.inl ⟨p, rfl, hpc, rfl⟩
    | some name =>
      right
      simp only
      rcases takeoverMaster_ok_or_notFound s name f with ⟨cl0, hcl0, hok⟩ | ⟨hnone, htk⟩
      · right
        refine ⟨p, name, cl0, rfl, hpc, hcl0, ?_⟩
        have htk : takeoverMaster s name f = ((takeoverMaster s name f).1, R.ok ()) := by
          rw [← hok]
        rw [htk]
        simp only
        have hord := Ord.takeoverMaster_ordered s name f
        by_cases ho : (takeoverMaster s name f).1.ordered = true
        · rw [if_pos ho]
          exact Or.inl ⟨by rw [← hord]; exact ho, rfl⟩
        rw [if_neg ho]
        refine Or.inr ⟨by rw [← hord]; simpa using ho, ?_⟩
        show _ ∨ _ ∨ _ ∨ _ ∨ _
        change
          (∃ np cl, generateNewFreeProxy (afterTakeover s name f) f choice = R.ok np ∧ _) ∨ _
        have e2 : ({ (takeoverMaster s name f).1 with
            failed := if (takeoverMaster s name f).1.failed.contains f then (takeoverMaster s name f).1.failed
                      else (takeoverMaster s name f).1.failed ++ [f] } : Store) = afterTakeover s name f := rfl
        simp only [e2]
        cases hg : generateNewFreeProxy (afterTakeover s name f) f choice with
        | ok np =>
          simp only
          have e3 : (afterTakeover s name f).bump.findCluster name = (afterTakeover s name f).findCluster name := rfl
          rw [e3]
          cases hc : (afterTakeover s name f).findCluster name with
          | none => exact Or.inr (Or.inr (Or.inr (Or.inr ⟨np, rfl, rfl, rfl⟩)))
          | some cl => exact Or.inl ⟨np, cl, rfl, rfl, rfl⟩
        | err e => exact Or.inr (Or.inl ⟨e, rfl, rfl⟩)
        | panic w => exact Or.inr (Or.inr (Or.inl ⟨w, rfl, rfl⟩))
        | badChoice w => exact Or.inr (Or.inr (Or.inr (Or.inl ⟨w, rfl, rfl⟩)))
      · left
        refine ⟨p, name, rfl, hpc, hnone, ?_⟩
        rw [htk]

end Um.Broker
