import UmModel.ParserCost
/-!
# C16 — the non-recursive parsers: consumed-length and step bounds
-/
namespace Um.PC
open Um

theorem memchr_lt {c : UInt8} {b : Bytes} {i : Nat} (h : memchr c b = some i) : i < b.length := by
  induction b generalizing i with
  | nil => simp [memchr] at h
  | cons x xs ih =>
    unfold memchr at h
    split at h
    · simp only [Option.some.injEq] at h; subst h; simp
    · cases hm : memchr c xs with
      | none => simp [hm] at h
      | some j =>
        simp only [hm, Option.map_some, Option.some.injEq] at h
        have := ih hm
        subst h; simp; omega

/-- `parse_line`: on success `consumed = e + 2`, at least two bytes and at most the buffer; the
scan never examines more than the buffer -/
theorem parseLine_spec (s : Bool) (b : Bytes) :
    (∀ e n st, parseLine s b = (.ok (e, n), st) → n = e + 2 ∧ n ≤ b.length ∧ st = n) ∧
    (∀ er st, parseLine s b = (.error er, st) → st ≤ b.length ∧ er ≠ .fuel ∧ er ≠ .capacity) := by
  unfold parseLine
  cases hm : memchr LF b with
  | none =>
    refine ⟨?_, ?_⟩
    · intro e n st h; simp at h
    · intro er st h
      simp only [Prod.mk.injEq, Except.error.injEq] at h
      obtain ⟨h1, h2⟩ := h
      subst h1 h2
      exact ⟨Nat.le_refl _, by decide, by decide⟩
  | some lf =>
    have hlt := memchr_lt hm
    simp only
    refine ⟨?_, ?_⟩
    · intro e n st h
      split at h
      · simp at h
      · split at h
        · simp at h
        · simp only [Prod.mk.injEq, Except.ok.injEq] at h
          obtain ⟨⟨h1, h2⟩, h3⟩ := h
          omega
    · intro er st h
      split at h
      · simp only [Prod.mk.injEq, Except.error.injEq] at h
        obtain ⟨h1, h2⟩ := h
        subst h1 h2
        exact ⟨by omega, by decide, by decide⟩
      · split at h
        · simp only [Prod.mk.injEq, Except.error.injEq] at h
          obtain ⟨h1, h2⟩ := h
          subst h1 h2
          exact ⟨by omega, by decide, by decide⟩
        · simp at h

theorem parseLen_spec (s : Bool) (b : Bytes) :
    (∀ len n st, parseLen s b = (.ok (len, n), st) → 2 ≤ n ∧ n ≤ b.length ∧ st + 2 = 2 * n) ∧
    (∀ er st, parseLen s b = (.error er, st) → st ≤ 2 * b.length ∧ er ≠ .fuel ∧ er ≠ .capacity) := by
  unfold parseLen
  obtain ⟨hok, herr⟩ := parseLine_spec s b
  cases hl : parseLine s b with
  | mk r st0 =>
    cases r with
    | error e0 =>
      obtain ⟨h1, h2, h3⟩ := herr e0 st0 hl
      refine ⟨?_, ?_⟩
      · intro len n st h; simp at h
      · intro er st h
        simp only [Prod.mk.injEq, Except.error.injEq] at h
        obtain ⟨h4, h5⟩ := h
        subst h4 h5
        exact ⟨by omega, h2, h3⟩
    | ok v =>
      obtain ⟨e, n0⟩ := v
      obtain ⟨h1, h2, h3⟩ := hok e n0 st0 hl
      simp only
      refine ⟨?_, ?_⟩
      · intro len n st h
        split at h
        · simp at h
        · simp only [Prod.mk.injEq, Except.ok.injEq] at h
          obtain ⟨⟨_, h5⟩, h6⟩ := h
          omega
      · intro er st h
        split at h
        · simp only [Prod.mk.injEq, Except.error.injEq] at h
          obtain ⟨h4, h5⟩ := h
          subst h4 h5
          exact ⟨by omega, by decide, by decide⟩
        · simp at h

theorem parseBulkStr_spec (s : Bool) (b : Bytes) :
    (∀ v n st, parseBulkStr s b = (.ok (v, n), st) →
        2 ≤ n ∧ n ≤ b.length ∧ st + 2 ≤ 2 * n ∧ v.size = 1) ∧
    (∀ er st, parseBulkStr s b = (.error er, st) → st ≤ 2 * b.length ∧ er ≠ .fuel ∧ er ≠ .capacity) := by
  unfold parseBulkStr
  obtain ⟨hok, herr⟩ := parseLen_spec s b
  cases hl : parseLen s b with
  | mk r st0 =>
    cases r with
    | error e0 =>
      obtain ⟨h1, h2, h3⟩ := herr e0 st0 hl
      refine ⟨?_, ?_⟩
      · intro v n st h; simp at h
      · intro er st h
        simp only [Prod.mk.injEq, Except.error.injEq] at h
        obtain ⟨h4, h5⟩ := h
        subst h4 h5
        exact ⟨h1, h2, h3⟩
    | ok p =>
      obtain ⟨len, n0⟩ := p
      obtain ⟨h1, h2, h3⟩ := hok len n0 st0 hl
      simp only
      refine ⟨?_, ?_⟩
      · intro v n st h
        split at h
        · simp only [Prod.mk.injEq, Except.ok.injEq] at h
          obtain ⟨⟨h4, h5⟩, h6⟩ := h
          subst h4
          exact ⟨by omega, by omega, by omega, by simp [Idx.size]⟩
        · split at h
          · simp at h
          · split at h
            · simp at h
            · simp only [Prod.mk.injEq, Except.ok.injEq] at h
              obtain ⟨⟨h4, h5⟩, h6⟩ := h
              subst h4
              exact ⟨by omega, by omega, by omega, by simp [Idx.size]⟩
      · intro er st h
        split at h
        · simp at h
        · split at h
          · simp only [Prod.mk.injEq, Except.error.injEq] at h
            obtain ⟨h4, h5⟩ := h
            subst h4 h5
            exact ⟨by omega, by decide, by decide⟩
          · split at h
            · simp only [Prod.mk.injEq, Except.error.injEq] at h
              obtain ⟨h4, h5⟩ := h
              subst h4 h5
              exact ⟨by omega, by decide, by decide⟩
            · simp at h

theorem parseLineAs_spec (mk : Nat → Nat → Idx) (hmk : ∀ a b, (mk a b).size = 1) (s : Bool) (b : Bytes) :
    (∀ v n st, parseLineAs mk s b = (.ok (v, n), st) →
        2 ≤ n ∧ n ≤ b.length ∧ st + 2 ≤ 2 * n ∧ v.size = 1) ∧
    (∀ er st, parseLineAs mk s b = (.error er, st) → st ≤ 2 * b.length ∧ er ≠ .fuel ∧ er ≠ .capacity) := by
  unfold parseLineAs
  obtain ⟨hok, herr⟩ := parseLine_spec s b
  cases hl : parseLine s b with
  | mk r st0 =>
    cases r with
    | error e0 =>
      obtain ⟨h1, h2, h3⟩ := herr e0 st0 hl
      refine ⟨?_, ?_⟩
      · intro v n st h; simp at h
      · intro er st h
        simp only [Prod.mk.injEq, Except.error.injEq] at h
        obtain ⟨h4, h5⟩ := h
        subst h4 h5
        exact ⟨by omega, h2, h3⟩
    | ok p =>
      obtain ⟨e, n0⟩ := p
      obtain ⟨h1, h2, h3⟩ := hok e n0 st0 hl
      simp only
      refine ⟨?_, ?_⟩
      · intro v n st h
        simp only [Prod.mk.injEq, Except.ok.injEq] at h
        obtain ⟨⟨h4, h5⟩, h6⟩ := h
        subst h4
        exact ⟨by omega, by omega, by omega, hmk _ _⟩
      · intro er st h; simp at h

/-- every non-recursive arm: at least two bytes after the type byte, at most the buffer, at most
two steps per byte, a single node -/
theorem parseLeaf_spec (s : Bool) (p : UInt8) (b : Bytes) (r : PR (Idx × Nat) × Nat)
    (h : parseLeaf s p b = some r) :
    (∀ v n st, r = (.ok (v, n), st) → 2 ≤ n ∧ n ≤ b.length ∧ st + 2 ≤ 2 * n ∧ v.size = 1) ∧
    (∀ er st, r = (.error er, st) → st ≤ 2 * b.length ∧ er ≠ .fuel ∧ er ≠ .capacity) := by
  unfold parseLeaf at h
  split at h
  · simp only [Option.some.injEq] at h; subst h; exact parseBulkStr_spec s b
  · split at h
    · simp only [Option.some.injEq] at h; subst h
      exact parseLineAs_spec _ (by intro a b; simp [Idx.size]) s b
    · split at h
      · simp only [Option.some.injEq] at h; subst h
        exact parseLineAs_spec _ (by intro a b; simp [Idx.size]) s b
      · split at h
        · simp only [Option.some.injEq] at h; subst h
          exact parseLineAs_spec _ (by intro a b; simp [Idx.size]) s b
        · simp at h

/-! ## sizes -/

mutual
theorem size_adv (k : Nat) : ∀ v : Idx, (Idx.adv k v).size = v.size
  | .arr l => by simp [Idx.adv, Idx.size, sizeList_advList k l]
  | .error _ _ => by simp [Idx.adv, Idx.size]
  | .simple _ _ => by simp [Idx.adv, Idx.size]
  | .bulk _ _ => by simp [Idx.adv, Idx.size]
  | .bulkNil => by simp [Idx.adv, Idx.size]
  | .integer _ _ => by simp [Idx.adv, Idx.size]
  | .arrNil => by simp [Idx.adv, Idx.size]
theorem sizeList_advList (k : Nat) : ∀ l : List Idx, Idx.sizeList (Idx.advList k l) = Idx.sizeList l
  | [] => by simp [Idx.advList, Idx.sizeList]
  | x :: xs => by simp [Idx.advList, Idx.sizeList, size_adv k x, sizeList_advList k xs]
end

theorem size_pos (v : Idx) : 1 ≤ v.size := by
  cases v <;> simp [Idx.size]

theorem length_le_sizeList (l : List Idx) : l.length ≤ Idx.sizeList l := by
  induction l with
  | nil => simp [Idx.sizeList]
  | cons x xs ih => have := size_pos x; simp [Idx.sizeList]; omega

theorem length_advList (k : Nat) (l : List Idx) : (Idx.advList k l).length = l.length := by
  induction l with
  | nil => simp [Idx.advList]
  | cons x xs ih => simp [Idx.advList, ih]

end Um.PC
