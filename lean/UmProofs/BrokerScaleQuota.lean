import UmProofs.BrokerScalePlanC
/-!
# C10 — quota arithmetic and the balanced shape

`quota m i` = the number of slots master `i` of `m` owns in a balanced cluster
(`SLOT_NUM / m`, plus one for the first `SLOT_NUM % m` masters).
-/
namespace Um.Broker.Scale
open Um Um.Slots Um.Broker

def quota (m i : Nat) : Nat := SLOT_NUM / m + (if i < SLOT_NUM % m then 1 else 0)

/-- the code's `remainder = SLOT_NUM - average * master_num` is `SLOT_NUM % master_num` -/
theorem remainder_eq (m : Nat) : SLOT_NUM - SLOT_NUM / m * m = SLOT_NUM % m := by
  have := Nat.div_add_mod SLOT_NUM m
  rw [Nat.mul_comm] at this
  omega

theorem sumTo_const_ind (a r n : Nat) :
    sumTo (fun i => a + (if i < r then 1 else 0)) n = n * a + min n r := by
  induction n with
  | zero => simp [sumTo]
  | succ n ih =>
    simp only [sumTo, ih, Nat.succ_mul]
    split <;> omega

/-- the quotas of all `m` masters add up to `SLOT_NUM` -/
theorem sum_quota (m : Nat) (hm : 0 < m) : sumTo (quota m) m = SLOT_NUM := by
  unfold quota
  rw [sumTo_const_ind]
  have h1 := Nat.mod_lt SLOT_NUM hm
  have h2 := Nat.div_add_mod SLOT_NUM m
  rw [Nat.min_eq_right (Nat.le_of_lt h1)]
  omega

/-- more masters ⇒ smaller (or equal) quota for every index -/
theorem quota_anti {m m' : Nat} (hm : 0 < m) (h : m ≤ m') (i : Nat) : quota m' i ≤ quota m i := by
  unfold quota
  have hq : SLOT_NUM / m' ≤ SLOT_NUM / m := Nat.div_le_div_left h hm
  by_cases hlt : SLOT_NUM / m' < SLOT_NUM / m
  · split <;> split <;> omega
  · have heq : SLOT_NUM / m' = SLOT_NUM / m := by omega
    have h1 := remainder_eq m
    have h2 := remainder_eq m'
    have h3 : SLOT_NUM / m * m ≤ SLOT_NUM / m * m' := Nat.mul_le_mul_left _ h
    have h4 : SLOT_NUM / m' * m' ≤ SLOT_NUM := Nat.div_mul_le_self _ _
    rw [heq] at h2 h4
    have : SLOT_NUM % m' ≤ SLOT_NUM % m := by omega
    rw [heq]
    split <;> split <;> omega

theorem quota_le (m i : Nat) (hm : 2 ≤ m) : quota m i ≤ SLOT_NUM := by
  unfold quota
  have : SLOT_NUM / m ≤ SLOT_NUM / 2 := Nat.div_le_div_left hm (by omega)
  have h2 : SLOT_NUM = 16384 := rfl
  split <;> omega

theorem quota_pos (m i : Nat) (hm : 0 < m) (h : m ≤ SLOT_NUM) : 0 < quota m i := by
  unfold quota
  have : 0 < SLOT_NUM / m := Nat.div_pos h hm
  omega

theorem sumTo_succ_front (f : Nat → Nat) (n : Nat) :
    sumTo f (n + 1) = f 0 + sumTo (fun t => f (t + 1)) n := by
  induction n with
  | zero => simp [sumTo]
  | succ n ih =>
    rw [sumTo, ih]
    simp only [sumTo]; omega

/-- `Σ_{t<len} f (a + t)` -/
def rangeSum (f : Nat → Nat) (a len : Nat) : Nat := sumTo (fun t => f (a + t)) len

theorem rangeSum_two_front (f : Nat → Nat) (a len : Nat) :
    rangeSum f a (len + 2) = f a + f (a + 1) + rangeSum f (a + 2) len := by
  unfold rangeSum
  rw [sumTo_succ_front, sumTo_succ_front]
  simp only [Nat.add_zero, Nat.zero_add]
  have : (fun t => f (a + (t + 1 + 1))) = fun t => f (a + 2 + t) := by
    funext t; congr 1; omega
  rw [this]; omega

theorem sumTo_split (f : Nat → Nat) (a b : Nat) : sumTo f (a + b) = sumTo f a + rangeSum f a b :=
  sumTo_add f a b

/-! ## balanced shapes -/

def halfCount (o : Option RangeList) : Nat :=
  match o with
  | some rl => slotsNum rl
  | none => 0

/-- chunks `i, i+1, …` whose masters own exactly their quota of `m` (range lists ascending) -/
def FullChunks (m : Nat) : List Chunk → Nat → Prop
  | [], _ => True
  | ch :: rest, i =>
    (∃ a b, ch.stable0 = some a ∧ ch.stable1 = some b ∧ Asc a ∧ Asc b ∧
      slotsNum a = quota m (i * 2 + 0) ∧ slotsNum b = quota m (i * 2 + 1)) ∧
    FullChunks m rest (i + 1)

/-- slot-less chunks -/
def EmptyChunks (l : List Chunk) : Prop := ∀ ch ∈ l, ch.stable0 = none ∧ ch.stable1 = none

/-- chunks without migration entries -/
def NoMigs (l : List Chunk) : Prop := ∀ ch ∈ l, ch.mig0 = [] ∧ ch.mig1 = []

/-- `n` chunks with slots (balanced over `2n` masters) followed by whole slot-less chunks -/
def BalancedShape (chunks : List Chunk) (n : Nat) : Prop :=
  ∃ A B, chunks = A ++ B ∧ A.length = n ∧ FullChunks (n * 2) A 0 ∧ EmptyChunks B

/-- **balanced**: nothing pending, the masters with slots are a prefix (whole chunks), master `i`
of `m = 2n` owns `quota m i` slots, the slot-less halves are whole trailing chunks -/
def Balanced (cl : Cluster) : Prop :=
  cl.isMigrating = false ∧ ∃ n, 0 < n ∧ BalancedShape cl.chunks n

end Um.Broker.Scale
