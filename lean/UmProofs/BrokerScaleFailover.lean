import UmProofs.BrokerScaleFinalB
/-!
# C10 — failovers between commits do not disturb the projected profile

`takeover_master` changes chunk roles and migration *epochs*, `replace_failed_proxy` additionally
swaps proxy / host / node names; stable lists, range lists, directions and positions of migration
entries stay.  `ChunksRel` captures this; `Profile` and the number of pending entries are invariant
under it.
-/
namespace Um.Broker.Scale
open Um Um.Slots Um.Broker

/-- only the epoch of the meta may differ -/
def EpochOnly (m m' : MigStore) : Prop :=
  m'.ranges = m.ranges ∧ m'.isMigrating = m.isMigrating ∧ m'.mm.srcChunk = m.mm.srcChunk ∧
  m'.mm.srcPart = m.mm.srcPart ∧ m'.mm.dstChunk = m.mm.dstChunk ∧ m'.mm.dstPart = m.mm.dstPart

theorem EpochOnly.rfl' (m : MigStore) : EpochOnly m m := ⟨rfl, rfl, rfl, rfl, rfl, rfl⟩

theorem EpochOnly.trans {a b c : MigStore} (h1 : EpochOnly a b) (h2 : EpochOnly b c) : EpochOnly a c :=
  ⟨h2.1.trans h1.1, h2.2.1.trans h1.2.1, h2.2.2.1.trans h1.2.2.1, h2.2.2.2.1.trans h1.2.2.2.1,
   h2.2.2.2.2.1.trans h1.2.2.2.2.1, h2.2.2.2.2.2.trans h1.2.2.2.2.2⟩

theorem epochOnly_set (m : MigStore) (e : Nat) : EpochOnly m { m with mm := { m.mm with epoch := e } } :=
  ⟨rfl, rfl, rfl, rfl, rfl, rfl⟩

/-- a list obtained by changing only epochs -/
def MigsRel (l l' : List MigStore) : Prop := ∃ f : MigStore → MigStore, (∀ m, EpochOnly m (f m)) ∧ l' = l.map f

theorem MigsRel.rfl' (l : List MigStore) : MigsRel l l := ⟨id, EpochOnly.rfl', by simp⟩

theorem MigsRel.trans {a b c : List MigStore} (h1 : MigsRel a b) (h2 : MigsRel b c) : MigsRel a c := by
  obtain ⟨f, hf, rfl⟩ := h1
  obtain ⟨g, hg, rfl⟩ := h2
  exact ⟨g ∘ f, fun m => (hf m).trans (hg (f m)), by simp⟩

theorem migsRel_bumpEntries (l : List MigStore) (e : Nat) : MigsRel l (bumpEntries l e) :=
  ⟨fun m => { m with mm := { m.mm with epoch := e } }, fun m => epochOnly_set m e, rfl⟩

theorem migsRel_bumpPeers (pos : List (Nat × Nat)) (e : Nat) (l : List MigStore) : MigsRel l (bumpPeers pos e l) := by
  refine ⟨fun m => if pos.contains (m.mm.srcChunk, m.mm.srcPart) || pos.contains (m.mm.dstChunk, m.mm.dstPart)
    then { m with mm := { m.mm with epoch := e } } else m, ?_, rfl⟩
  intro m
  dsimp only
  split
  · exact epochOnly_set m e
  · exact EpochOnly.rfl' m

theorem MigsRel.impRanges {l l' : List MigStore} (h : MigsRel l l') : impRanges l' = impRanges l := by
  obtain ⟨f, hf, rfl⟩ := h
  unfold Scale.impRanges
  induction l with
  | nil => rfl
  | cons m l ih =>
    obtain ⟨h1, h2, _⟩ := hf m
    simp only [List.map_cons, List.filter_cons, h2]
    split
    · simp only [List.map_cons, h1, ih]
    · exact ih

theorem MigsRel.pending_length {l l' : List MigStore} (h : MigsRel l l') :
    (l'.filter (·.isMigrating)).length = (l.filter (·.isMigrating)).length := by
  obtain ⟨f, hf, rfl⟩ := h
  induction l with
  | nil => rfl
  | cons m l ih =>
    obtain ⟨_, h2, _⟩ := hf m
    simp only [List.map_cons, List.filter_cons, h2]
    split
    · simp only [List.length_cons, ih]
    · exact ih

def ChunkRel (a b : Chunk) : Prop :=
  b.stable0 = a.stable0 ∧ b.stable1 = a.stable1 ∧ MigsRel a.mig0 b.mig0 ∧ MigsRel a.mig1 b.mig1

theorem ChunkRel.rfl' (a : Chunk) : ChunkRel a a := ⟨rfl, rfl, MigsRel.rfl' _, MigsRel.rfl' _⟩

theorem ChunkRel.trans {a b c : Chunk} (h1 : ChunkRel a b) (h2 : ChunkRel b c) : ChunkRel a c :=
  ⟨h2.1.trans h1.1, h2.2.1.trans h1.2.1, h1.2.2.1.trans h2.2.2.1, h1.2.2.2.trans h2.2.2.2⟩

def ChunksRel : List Chunk → List Chunk → Prop
  | [], [] => True
  | a :: as, b :: bs => ChunkRel a b ∧ ChunksRel as bs
  | _, _ => False

theorem ChunksRel.rfl' (l : List Chunk) : ChunksRel l l := by
  induction l with
  | nil => trivial
  | cons a l ih => exact ⟨ChunkRel.rfl' a, ih⟩

theorem ChunksRel.trans {a b c : List Chunk} (h1 : ChunksRel a b) (h2 : ChunksRel b c) : ChunksRel a c := by
  induction a generalizing b c with
  | nil =>
    cases b with
    | nil => exact h2
    | cons _ _ => exact absurd h1 (by simp [ChunksRel])
  | cons x a ih =>
    cases b with
    | nil => exact absurd h1 (by simp [ChunksRel])
    | cons y b =>
      cases c with
      | nil => exact absurd h2 (by simp [ChunksRel])
      | cons z c => exact ⟨h1.1.trans h2.1, ih h1.2 h2.2⟩

theorem chunksRel_map (g : Chunk → Chunk) (h : ∀ a, ChunkRel a (g a)) (l : List Chunk) : ChunksRel l (l.map g) := by
  induction l with
  | nil => trivial
  | cons a l ih => exact ⟨h a, ih⟩

theorem ChunksRel.length {l l' : List Chunk} (h : ChunksRel l l') : l'.length = l.length := by
  induction l generalizing l' with
  | nil =>
    cases l' with
    | nil => rfl
    | cons _ _ => exact absurd h (by simp [ChunksRel])
  | cons a l ih =>
    cases l' with
    | nil => exact absurd h (by simp [ChunksRel])
    | cons b l' => simp [ih h.2]

theorem ChunksRel.get {l l' : List Chunk} (h : ChunksRel l l') {i : Nat} {b : Chunk} (hb : l'[i]? = some b) :
    ∃ a, l[i]? = some a ∧ ChunkRel a b := by
  induction l generalizing l' i with
  | nil =>
    cases l' with
    | nil => simp at hb
    | cons _ _ => exact absurd h (by simp [ChunksRel])
  | cons a l ih =>
    cases l' with
    | nil => exact absurd h (by simp [ChunksRel])
    | cons b' l' =>
      cases i with
      | zero => simp only [List.getElem?_cons_zero, Option.some.injEq] at hb; subst hb; exact ⟨a, by simp, h.1⟩
      | succ i => simp only [List.getElem?_cons_succ] at hb ⊢; exact ih h.2 hb

/-! ## the failover functions -/

theorem takeoverFirst_rel {failed : String} {e : Nat} {l l' : List Chunk} {pos : List (Nat × Nat)}
    (h : takeoverFirst failed e l = some (l', pos)) : ChunksRel l l' := by
  induction l generalizing l' pos with
  | nil => simp only [takeoverFirst, Option.some.injEq, Prod.mk.injEq] at h; rw [← h.1]; trivial
  | cons c rest ih =>
    unfold takeoverFirst at h
    split at h
    · split at h
      · cases h
      · split at h
        · simp only [Option.some.injEq, Prod.mk.injEq] at h
          rw [← h.1]
          exact ⟨⟨rfl, rfl, migsRel_bumpEntries _ _, migsRel_bumpEntries _ _⟩, ChunksRel.rfl' _⟩
        · simp only [Option.some.injEq, Prod.mk.injEq] at h
          rw [← h.1]
          exact ⟨⟨rfl, rfl, migsRel_bumpEntries _ _, MigsRel.rfl' _⟩, ChunksRel.rfl' _⟩
    · split at h
      · split at h
        · cases h
        · split at h
          · simp only [Option.some.injEq, Prod.mk.injEq] at h
            rw [← h.1]
            exact ⟨⟨rfl, rfl, migsRel_bumpEntries _ _, migsRel_bumpEntries _ _⟩, ChunksRel.rfl' _⟩
          · simp only [Option.some.injEq, Prod.mk.injEq] at h
            rw [← h.1]
            exact ⟨⟨rfl, rfl, MigsRel.rfl' _, migsRel_bumpEntries _ _⟩, ChunksRel.rfl' _⟩
      · split at h
        · cases h
        · rename_i tl p htl
          simp only [Option.some.injEq, Prod.mk.injEq] at h
          rw [← h.1]
          exact ⟨ChunkRel.rfl' c, ih htl⟩

theorem replaceInChunks_rel (failed : String) (np : ProxyRes) (l : List Chunk) :
    ChunksRel l (replaceInChunks failed np l) := by
  induction l with
  | nil => trivial
  | cons c rest ih =>
    unfold replaceInChunks
    split
    · exact ⟨⟨rfl, rfl, MigsRel.rfl' _, MigsRel.rfl' _⟩, ChunksRel.rfl' _⟩
    · split
      · exact ⟨⟨rfl, rfl, MigsRel.rfl' _, MigsRel.rfl' _⟩, ChunksRel.rfl' _⟩
      · exact ⟨ChunkRel.rfl' c, ih⟩

/-! ## `Profile` and the pending count only depend on what `ChunksRel` preserves -/

theorem HalfDisj_rel {st : Option RangeList} {l l' : List MigStore} (h : MigsRel l l') :
    HalfDisj st l' ↔ HalfDisj st l := halfDisj_congr h.impRanges

theorem migs_rel_mem {c c' : Cluster} (hrel : ChunksRel c.chunks c'.chunks) {x : MigStore} (hx : x ∈ c'.migs) :
    ∃ m ∈ c.migs, EpochOnly m x := by
  obtain ⟨ch', hch', hmem⟩ := Cluster.mem_migs.mp hx
  obtain ⟨i, hi⟩ := List.getElem?_of_mem hch'
  obtain ⟨ch, hch, _, _, r0, r1⟩ := hrel.get hi
  rcases hmem with hmem | hmem
  · obtain ⟨f, hf, he⟩ := r0
    rw [he] at hmem
    obtain ⟨m, hm, rfl⟩ := List.mem_map.mp hmem
    exact ⟨m, Cluster.migs_of_getElem? hch (Or.inl hm), hf m⟩
  · obtain ⟨f, hf, he⟩ := r1
    rw [he] at hmem
    obtain ⟨m, hm, rfl⟩ := List.mem_map.mp hmem
    exact ⟨m, Cluster.migs_of_getElem? hch (Or.inr hm), hf m⟩

theorem projInv_rel {c c' : Cluster} (hd : ProjInv c) (hrel : ChunksRel c.chunks c'.chunks) : ProjInv c' := by
  intro ch' hch'
  obtain ⟨i, hi⟩ := List.getElem?_of_mem hch'
  obtain ⟨ch, hch, s0, s1, r0, r1⟩ := hrel.get hi
  obtain ⟨d0, d1⟩ := hd ch (List.mem_of_getElem? hch)
  rw [s0, s1]
  exact ⟨(HalfDisj_rel r0).mpr d0, (HalfDisj_rel r1).mpr d1⟩

theorem core_rel {T : Nat → Nat} {N : Nat} {c c' : Cluster} (hprof : ProfileCore T N c)
    (hrel : ChunksRel c.chunks c'.chunks) : ProfileCore T N c' := by
  refine ⟨?_, ?_, ?_, ?_, ?_⟩
  · intro i ch' hi
    obtain ⟨ch, hch, s0, s1, r0, r1⟩ := hrel.get hi
    obtain ⟨p0, p1⟩ := hprof.proj i ch hch
    rw [s0, s1, proj_congr r0.impRanges, proj_congr r1.impRanges]
    exact ⟨p0, p1⟩
  · intro i ch' hi hNi
    obtain ⟨ch, hch, s0, s1, _, _⟩ := hrel.get hi
    obtain ⟨t0, t1⟩ := hprof.tail i ch hch hNi
    rw [s0, s1]; exact ⟨t0, t1⟩
  · intro x hx
    obtain ⟨m, hm, he⟩ := migs_rel_mem hrel hx
    rw [he.2.2.2.2.1]; exact hprof.dst m hm
  · rw [hrel.length]; exact hprof.len
  · intro ch' hch'
    obtain ⟨i, hi⟩ := List.getElem?_of_mem hch'
    obtain ⟨ch, hch, s0, s1, _, _⟩ := hrel.get hi
    rw [s0, s1]
    exact hprof.asc ch (List.mem_of_getElem? hch)

theorem profile_rel {T : Nat → Nat} {N : Nat} {c c' : Cluster} (hprof : Profile T N c)
    (hrel : ChunksRel c.chunks c'.chunks) : Profile T N c' :=
  (core_rel hprof.core hrel).withDisj (projInv_rel hprof.disj hrel)

theorem pending_length_rel {l l' : List Chunk} (hrel : ChunksRel l l') :
    ((l'.flatMap Chunk.migs).filter (·.isMigrating)).length = ((l.flatMap Chunk.migs).filter (·.isMigrating)).length := by
  induction l generalizing l' with
  | nil =>
    cases l' with
    | nil => rfl
    | cons _ _ => exact absurd hrel (by simp [ChunksRel])
  | cons a l ih =>
    cases l' with
    | nil => exact absurd hrel (by simp [ChunksRel])
    | cons b l' =>
      obtain ⟨⟨_, _, r0, r1⟩, hr⟩ := hrel
      simp only [List.flatMap_cons, List.filter_append, List.length_append, Chunk.migs]
      rw [r0.pending_length, r1.pending_length, ih hr]

theorem Cluster.pending_length_rel {c c' : Cluster} (hrel : ChunksRel c.chunks c'.chunks) :
    (Cluster.pending c').length = (Cluster.pending c).length := by
  unfold Cluster.pending Cluster.migs
  exact Scale.pending_length_rel hrel

/-! ## the store after a failover -/

theorem Store.findCluster_setCluster_ne {s : Store} {name : String} {cl' : Cluster} (hne : cl'.name ≠ name) :
    (s.setCluster cl').findCluster name = s.findCluster name := by
  unfold Store.findCluster Store.setCluster
  simp only
  induction s.clusters with
  | nil => rfl
  | cons x xs ih =>
    simp only [List.map_cons, List.find?_cons]
    by_cases hx : x.name = cl'.name
    · have h1 : (x.name == cl'.name) = true := by simpa using hx
      have h2 : (cl'.name == name) = false := by simpa using hne
      have h3 : (x.name == name) = false := by rw [hx]; exact h2
      simp only [h1, if_true, h2, h3]
      exact ih
    · have h1 : (x.name == cl'.name) = false := by simpa using hx
      simp only [h1, Bool.false_eq_true, if_false]
      cases hn : (x.name == name)
      · exact ih
      · rfl

/-- a store operation keeps the cluster `name` up to `ChunksRel` -/
def KeepsRel (name : String) (s s' : Store) : Prop :=
  ∀ c, s.findCluster name = some c → ∃ c', s'.findCluster name = some c' ∧ ChunksRel c.chunks c'.chunks

theorem KeepsRel.rfl' (name : String) (s : Store) : KeepsRel name s s := fun c h => ⟨c, h, ChunksRel.rfl' _⟩

theorem KeepsRel.trans {name : String} {a b c : Store} (h1 : KeepsRel name a b) (h2 : KeepsRel name b c) :
    KeepsRel name a c := by
  intro x hx
  obtain ⟨y, hy, r1⟩ := h1 x hx
  obtain ⟨z, hz, r2⟩ := h2 y hy
  exact ⟨z, hz, r1.trans r2⟩

theorem keepsRel_of_clusters {name : String} {s s' : Store} (h : s'.clusters = s.clusters) : KeepsRel name s s' := by
  intro c hc
  refine ⟨c, ?_, ChunksRel.rfl' _⟩
  unfold Store.findCluster at hc ⊢; rw [h]; exact hc

/-- replacing the stored cluster `cname` by one with related chunks -/
theorem keepsRel_setCluster {name cname : String} {s : Store} {cl cl' : Cluster}
    (hf : s.findCluster cname = some cl) (hn : cl'.name = cl.name) (hrel : ChunksRel cl.chunks cl'.chunks) :
    KeepsRel name s (s.setCluster cl') := by
  intro c hc
  by_cases hname : cname = name
  · subst hname
    rw [hf] at hc
    cases hc
    exact ⟨cl', Store.findCluster_setCluster hf hn, hrel⟩
  · have hne : cl'.name ≠ name := by rw [hn, Store.findCluster_name hf]; exact hname
    exact ⟨c, by rw [Store.findCluster_setCluster_ne hne]; exact hc, ChunksRel.rfl' _⟩

theorem takeoverMaster_keeps (name : String) (s : Store) (cname failed : String) :
    KeepsRel name s (takeoverMaster s cname failed).1 := by
  unfold takeoverMaster
  simp only [Store.findCluster_bump]
  cases hf : s.findCluster cname with
  | none => exact keepsRel_of_clusters rfl
  | some cl =>
    simp only
    cases ht : takeoverFirst failed s.bump.globalEpoch cl.chunks with
    | none => exact keepsRel_of_clusters rfl
    | some r =>
      obtain ⟨chunks, pos⟩ := r
      simp only
      have h1 : KeepsRel name s s.bump := keepsRel_of_clusters rfl
      refine h1.trans (keepsRel_setCluster (s := s.bump) (cl := cl) hf rfl ?_)
      refine (takeoverFirst_rel ht).trans (chunksRel_map _ ?_ chunks)
      intro a
      exact ⟨rfl, rfl, migsRel_bumpPeers _ _ _, migsRel_bumpPeers _ _ _⟩

/-- **a failover keeps every cluster up to `ChunksRel`** -/
theorem replaceFailedProxy_keeps (name : String) (s : Store) (addr choice : String) :
    KeepsRel name s (replaceFailedProxy s addr choice).1 := by
  unfold replaceFailedProxy
  cases s.findProxy addr with
  | none => exact KeepsRel.rfl' name s
  | some p =>
    simp only
    cases p.cluster with
    | none => exact keepsRel_of_clusters rfl
    | some cname =>
      simp only
      have h1 := takeoverMaster_keeps name s cname addr
      rcases htm : takeoverMaster s cname addr with ⟨s1, r1⟩
      rw [htm] at h1
      simp only at h1
      cases r1 with
      | err e => exact h1
      | panic w => exact h1
      | badChoice w => exact h1
      | ok u =>
        cases u
        simp only
        split
        · -- ordered mode: takeover, a second bump, no replacement
          exact h1.trans (keepsRel_of_clusters rfl)
        have h2 : KeepsRel name s1 { s1 with failed := if s1.failed.contains addr then s1.failed else s1.failed ++ [addr] } :=
          keepsRel_of_clusters rfl
        generalize ({ s1 with failed := if s1.failed.contains addr then s1.failed else s1.failed ++ [addr] } : Store) = S2 at h2 ⊢
        have h12 := h1.trans h2
        cases generateNewFreeProxy S2 addr choice with
        | err e => exact h12
        | panic w => exact h12
        | badChoice w => exact h12
        | ok np =>
          simp only [Store.findCluster_bump]
          cases hf3 : S2.findCluster cname with
          | none => exact h12.trans (keepsRel_of_clusters rfl)
          | some cl =>
            simp only
            have h3 : KeepsRel name S2 S2.bump := keepsRel_of_clusters rfl
            have h4 : KeepsRel name S2.bump
                (S2.bump.setCluster { cl with chunks := replaceInChunks addr np cl.chunks, epoch := S2.bump.globalEpoch }) :=
              keepsRel_setCluster (s := S2.bump) (cl := cl) hf3 rfl (replaceInChunks_rel addr np cl.chunks)
            exact ((h12.trans h3).trans h4).trans (keepsRel_of_clusters rfl)

/-! ## balance is invariant under `ChunksRel` -/

theorem fullChunks_rel (m : Nat) {l l' : List Chunk} (i : Nat) (h : FullChunks m l i) (hrel : ChunksRel l l') :
    FullChunks m l' i := by
  induction l generalizing l' i with
  | nil =>
    cases l' with
    | nil => trivial
    | cons _ _ => exact absurd hrel (by simp [ChunksRel])
  | cons a l ih =>
    cases l' with
    | nil => exact absurd hrel (by simp [ChunksRel])
    | cons b l' =>
      obtain ⟨⟨x, y, hx, hy, rest⟩, hr⟩ := h
      obtain ⟨⟨s0, s1, _, _⟩, hrel'⟩ := hrel
      exact ⟨⟨x, y, by rw [s0, hx], by rw [s1, hy], rest⟩, ih (i + 1) hr hrel'⟩

theorem chunksRel_append {A B l' : List Chunk} (h : ChunksRel (A ++ B) l') :
    ∃ A' B', l' = A' ++ B' ∧ A'.length = A.length ∧ ChunksRel A A' ∧ ChunksRel B B' := by
  induction A generalizing l' with
  | nil => exact ⟨[], l', rfl, rfl, trivial, h⟩
  | cons a A ih =>
    cases l' with
    | nil => exact absurd h (by simp [ChunksRel])
    | cons b l' =>
      obtain ⟨hab, hr⟩ := h
      obtain ⟨A', B', rfl, hl, hA, hB⟩ := ih hr
      exact ⟨b :: A', B', rfl, by simp [hl], ⟨hab, hA⟩, hB⟩

theorem emptyChunks_rel {l l' : List Chunk} (h : EmptyChunks l) (hrel : ChunksRel l l') : EmptyChunks l' := by
  intro ch' hch'
  obtain ⟨i, hi⟩ := List.getElem?_of_mem hch'
  obtain ⟨ch, hch, s0, s1, _, _⟩ := hrel.get hi
  obtain ⟨e0, e1⟩ := h ch (List.mem_of_getElem? hch)
  exact ⟨s0.trans e0, s1.trans e1⟩

theorem balanced_rel {c c' : Cluster} {N : Nat} (hN : 0 < N) (hrel : ChunksRel c.chunks c'.chunks)
    (hidle : c.migs = []) (hs : BalancedShape c.chunks N) :
    c'.migs = [] ∧ Balanced c' ∧ BalancedShape c'.chunks N := by
  have hidle' : c'.migs = [] := by
    apply List.eq_nil_iff_forall_not_mem.mpr
    intro x hx
    obtain ⟨m, hm, _⟩ := migs_rel_mem hrel hx
    rw [hidle] at hm; cases hm
  obtain ⟨A, B, hch, hA, hfull, hempty⟩ := hs
  rw [hch] at hrel
  obtain ⟨A', B', hch', hl, hrA, hrB⟩ := chunksRel_append hrel
  have hs' : BalancedShape c'.chunks N :=
    ⟨A', B', hch', by rw [hl, hA], fullChunks_rel _ 0 hfull hrA, emptyChunks_rel hempty hrB⟩
  exact ⟨hidle', ⟨(Cluster.isMigrating_eq_false_iff c').mpr hidle', N, hN, hs'⟩, hs'⟩

theorem commitInv_of_invs {c : Cluster} (hp : PosInv c) (ht : TwinInv c) (hs : SlotInv c) : CommitInv c := by
  refine ⟨hp, ht, ?_⟩
  intro m hm
  obtain ⟨ch, hch, hmem⟩ := Cluster.mem_migs.mp hm
  have := (hs.1 ch hch).2 m (by simpa [Chunk.migs] using hmem)
  exact compact_of_normal this.1

/-! ## commits interleaved with failovers -/

/-- chains of successful commits (any `clear` flags) and failovers (`replace_failed_proxy`, whatever
it answers); the cluster a failover leaves is required to satisfy the shared invariants -/
inductive ScaleChain (name : String) : Store → Nat → Store → Prop where
  | nil (s : Store) : ScaleChain name s 0 s
  | commit {s s1 s2 : Store} {k : Nat} (ranges : RangeList) (epoch : Nat) (clear : Bool) :
      commitMigration s name ranges epoch false clear = (s1, R.ok ()) → ScaleChain name s1 k s2 →
      ScaleChain name s (k + 1) s2
  | failover {s s2 : Store} {k : Nat} (addr choice : String) :
      (∀ c, (replaceFailedProxy s addr choice).1.findCluster name = some c → PosInv c ∧ TwinInv c ∧ SlotInv c) →
      ScaleChain name (replaceFailedProxy s addr choice).1 k s2 → ScaleChain name s k s2

/-- what a cluster looks like on the way: still migrating with its profile, or finished and balanced -/
def OnTrack (T : Nat → Nat) (N k : Nat) (c : Cluster) : Prop :=
  (CommitInv c ∧ Profile T N c ∧ (Cluster.pending c).length = k) ∨
  (k = 0 ∧ c.migs = [] ∧ Balanced c ∧ BalancedShape c.chunks N)

theorem onTrack_commit {T : Nat → Nat} {N k : Nat} {name : String} {s s1 : Store} {c : Cluster}
    (hN : 0 < N) (hsz : N * 2 ≤ SLOT_NUM) (hT : ∀ idx, idx < N * 2 → T idx = quota (N * 2) idx)
    (hf : s.findCluster name = some c) (htr : OnTrack T N (k + 1) c)
    {ranges : RangeList} {epoch : Nat} {clear : Bool}
    (h : commitMigration s name ranges epoch false clear = (s1, R.ok ())) :
    ∃ c1, s1.findCluster name = some c1 ∧ OnTrack T N k c1 := by
  rcases htr with ⟨hinv, hprof, hpend⟩ | ⟨hk, _⟩
  · have hcore : ∃ sc, commitMigrationCore s name ranges epoch false = (sc, R.ok ()) := by
      unfold commitMigration at h
      rcases hc : commitMigrationCore s name ranges epoch false with ⟨sc, r⟩
      rw [hc] at h
      cases r with
      | ok u => cases u; exact ⟨sc, rfl⟩
      | err e => simp at h
      | panic w => simp at h
      | badChoice w => simp at h
    obtain ⟨sc, hc⟩ := hcore
    obtain ⟨m, A, dch, B, t, hm, hmig, _, _, hdec, hlen, htm, htr', htmm, hpart, hfc⟩ := core_step hf hinv hc
    obtain ⟨hinvc, hperm⟩ := commitRes_inv hinv hm hmig hdec htm htr' htmm hpart (s.globalEpoch + 1)
    have hprofc := profile_commit hinv hprof hm hdec hlen htm htr' htmm hpart (s.globalEpoch + 1)
    have hcount := hperm.length_eq
    simp only [List.length_cons] at hcount
    generalize hcc : ({ c with chunks := commitRes m.ranges m.mm A dch B, epoch := s.globalEpoch + 1 } : Cluster) = cc at *
    have hs1 : s1 = sc ∨ ∃ cl, Released sc s1 name cl := by
      unfold commitMigration at h
      rw [hc] at h
      cases clear with
      | false => simp only [Bool.false_eq_true, if_false, Prod.mk.injEq, and_true] at h; exact Or.inl h.symm
      | true =>
        simp only [if_true] at h
        rcases autoDeleteFreeNodesIfExists_cases sc name with ⟨s3, cl3, h3, hrel⟩ | ⟨r, h3⟩
        · rw [h3] at h
          simp only [Prod.mk.injEq, and_true] at h
          subst h
          exact Or.inr ⟨cl3, hrel⟩
        · rw [h3] at h
          simp only [Prod.mk.injEq] at h
          exact Or.inl h.1.symm
    rcases hs1 with rfl | ⟨cl, hrel⟩
    · exact ⟨cc, hfc, Or.inl ⟨hinvc, hprofc, by omega⟩⟩
    · have hcl : cl = cc := by
        have := hrel.found; rw [hfc] at this; exact (Option.some.inj this).symm
      subst hcl
      have hidle := (Cluster.isMigrating_eq_false_iff _).mp hrel.idle
      have hp0 : Cluster.pending cl = [] := (Cluster.pending_nil_iff hinvc.twin).mpr hidle
      obtain ⟨_, hshape⟩ := balanced_of_profile hprofc hidle hN hsz hT
      obtain ⟨A', hfil, hA', hfull', hbal⟩ := release_balanced hshape hN hidle (sc.globalEpoch + 1)
      refine ⟨_, hrel.findCluster, Or.inr ⟨?_, migs_filter_idle hidle _ _, hbal, ?_⟩⟩
      · rw [hp0] at hcount; simp at hcount; omega
      · refine ⟨A', [], ?_, hA', hfull', fun _ h => by cases h⟩
        show cl.chunks.filter (fun ch => !ch.isFree) = A' ++ []
        rw [hfil, List.append_nil]
  · omega

theorem onTrack_failover {T : Nat → Nat} {N k : Nat} {name : String} {s : Store} {c : Cluster}
    (hN : 0 < N) (hf : s.findCluster name = some c) (htr : OnTrack T N k c) (addr choice : String)
    (hinvs : ∀ c, (replaceFailedProxy s addr choice).1.findCluster name = some c → PosInv c ∧ TwinInv c ∧ SlotInv c) :
    ∃ c1, (replaceFailedProxy s addr choice).1.findCluster name = some c1 ∧ OnTrack T N k c1 := by
  obtain ⟨c1, hf1, hrel⟩ := replaceFailedProxy_keeps name s addr choice c hf
  refine ⟨c1, hf1, ?_⟩
  rcases htr with ⟨_, hprof, hpend⟩ | ⟨hk, hidle, _, hshape⟩
  · obtain ⟨hp, ht, hs⟩ := hinvs c1 hf1
    exact Or.inl ⟨commitInv_of_invs hp ht hs, profile_rel hprof hrel, by rw [Cluster.pending_length_rel hrel]; exact hpend⟩
  · obtain ⟨h1, h2, h3⟩ := balanced_rel hN hrel hidle hshape
    exact Or.inr ⟨hk, h1, h2, h3⟩

/-- **commits in any order with failovers interleaved end in a balanced cluster** -/
theorem scaleChain_to_balanced {T : Nat → Nat} {N : Nat} {name : String} {s s' : Store} {k : Nat}
    (hN : 0 < N) (hsz : N * 2 ≤ SLOT_NUM) (hT : ∀ idx, idx < N * 2 → T idx = quota (N * 2) idx)
    (hch : ScaleChain name s k s') {c : Cluster} (hf : s.findCluster name = some c) (htr : OnTrack T N k c) :
    ∃ c', s'.findCluster name = some c' ∧ Balanced c' ∧ BalancedShape c'.chunks N := by
  induction hch generalizing c with
  | nil s =>
    rcases htr with ⟨hinv, hprof, hpend⟩ | ⟨_, _, hb, hs⟩
    · have hp0 : Cluster.pending c = [] := List.eq_nil_of_length_eq_zero hpend
      have hidle := (Cluster.pending_nil_iff hinv.twin).mp hp0
      obtain ⟨hb, hs⟩ := balanced_of_profile hprof hidle hN hsz hT
      exact ⟨c, hf, hb, hs⟩
    · exact ⟨c, hf, hb, hs⟩
  | commit ranges epoch clear h _ ih =>
    obtain ⟨c1, hf1, htr1⟩ := onTrack_commit hN hsz hT hf htr h
    exact ih hf1 htr1
  | failover addr choice hinvs _ ih =>
    obtain ⟨c1, hf1, htr1⟩ := onTrack_failover hN hf htr addr choice hinvs
    exact ih hf1 htr1

/-- a chain of commits is a `ScaleChain` without failovers -/
theorem ScaleChain.of_commitChain {name : String} {s s' : Store} {k : Nat} (h : CommitChain name s k s') :
    ScaleChain name s k s' := by
  induction h with
  | nil s => exact ScaleChain.nil s
  | cons ranges epoch clear h _ ih => exact ScaleChain.commit ranges epoch clear h ih

end Um.Broker.Scale
