import UmProofs.NodesRoute
/-!
A concrete view used by the non-vacuity examples of `UmProps/C14.lean`: the proxy `127.0.0.1:5299` is the
source of one migration (slots 100-199 and 300 to `10.0.0.2`) and a bystander of another
(`10.0.0.2` → `10.0.0.3`, slots 200-299).
-/
namespace Um.Nodes
open Um Um.Route Um.RouteCmd Um.Crc16

def exView : View :=
  { name := "c1", epoch := 7, me := "127.0.0.1:5299"
    loc := [("127.0.0.1:7000", [⟨[(0, 99)], .none⟩, ⟨[(100, 199), (300, 300)], .migrating⟩])]
    peer := [("10.0.0.2:5299", [⟨[(100, 199), (300, 300)], .importing⟩, ⟨[(200, 299)], .migrating⟩]),
             ("10.0.0.3:5299", [⟨[(200, 299)], .importing⟩, ⟨[(301, 16383)], .none⟩])] }

theorem exTriples : triples exView = [
  ("127.0.0.1:5299", ⟨[(0, 99)], .none⟩, (0, 99)),
  ("127.0.0.1:5299", ⟨[(100, 199), (300, 300)], .migrating⟩, (100, 199)),
  ("127.0.0.1:5299", ⟨[(100, 199), (300, 300)], .migrating⟩, (300, 300)),
  ("10.0.0.2:5299", ⟨[(100, 199), (300, 300)], .importing⟩, (100, 199)),
  ("10.0.0.2:5299", ⟨[(100, 199), (300, 300)], .importing⟩, (300, 300)),
  ("10.0.0.2:5299", ⟨[(200, 299)], .migrating⟩, (200, 299)),
  ("10.0.0.3:5299", ⟨[(200, 299)], .importing⟩, (200, 299)),
  ("10.0.0.3:5299", ⟨[(301, 16383)], .none⟩, (301, 16383))] := by decide +kernel

theorem exView_partition : Partition exView := by
  constructor
  · intro s hs
    have hs' : s < 16384 := hs
    rw [exTriples]
    simp only [List.countP_cons, List.countP_nil, owns, inRange]
    simp
    (repeat' split) <;> omega
  · intro s hs
    rw [exTriples]
    simp only [List.countP_cons, List.countP_nil, imports, inRange, List.mem_cons, List.not_mem_nil, or_false]
    rintro t (rfl | rfl | rfl | rfl | rfl | rfl | rfl | rfl) <;> simp <;> intros <;> (repeat' split) <;> omega
  · intro s hs
    rw [exTriples]
    simp only [inRange, List.mem_cons, List.not_mem_nil, or_false]
    rintro t (rfl | rfl | rfl | rfl | rfl | rfl | rfl | rfl) u (rfl | rfl | rfl | rfl | rfl | rfl | rfl | rfl) <;>
      simp <;> omega
  · intro s hs
    rw [exTriples]
    simp only [inRange, List.mem_cons, List.not_mem_nil, or_false]
    rintro u (rfl | rfl | rfl | rfl | rfl | rfl | rfl | rfl) <;> (try simp) <;> (try omega)

theorem exView_wf : WfView exView := by
  constructor
  · unfold NoSep; decide +kernel
  · decide
  · unfold AddrClean; decide +kernel
  · unfold SlotsBounded RangesBounded; decide +kernel

theorem exView_colon : ColonView exView := by
  intro n hn
  simp only [allNodes, exView, List.mem_cons, List.not_mem_nil, or_false] at hn
  rcases hn with rfl | rfl | rfl
  · exact ⟨bs "127.0.0.1", bs "5299", by decide +kernel, by decide +kernel, by decide +kernel⟩
  · exact ⟨bs "10.0.0.2", bs "5299", by decide +kernel, by decide +kernel, by decide +kernel⟩
  · exact ⟨bs "10.0.0.3", bs "5299", by decide +kernel, by decide +kernel, by decide +kernel⟩

end Um.Nodes
