import UmProofs.BrokerResSkel
import UmProofs.BrokerOrdered
/-!
# C12 — what the allocator hands out: every proxy of every allocated pair comes from the free
healthy pool, no proxy is handed out twice, the two halves of a pair are on different hosts.
Also: closed forms of `tagProxies` and the un-tagging folds.
-/
namespace Um.Broker
open Um Um.Slots

/-! ## free pool -/

theorem Store.mem_freeProxies {s : Store} {p : ProxyRes} :
    p ∈ s.freeProxies ↔ p ∈ s.proxies ∧ p.cluster = none ∧ s.failed.contains p.addr = false ∧
      s.hasFailureKey p.addr = false := by
  simp [Store.freeProxies, List.mem_filter, and_assoc]

/-! ## `allocStep` / `allocLoop` -/

theorem allocStep_ok {st st' : AllocSt} {a b : String} (h : allocStep st a b = R.ok st') :
    ∃ pa pb, pa ∈ st.pool ∧ pb ∈ st.pool ∧ pa.addr = a ∧ pb.addr = b ∧ a ≠ b ∧ pb.host ≠ pa.host ∧
      st'.pool = st.pool.filter (fun p => p.addr != a && p.addr != b) ∧ st'.out = st.out ++ [(pa, pb)] := by
  unfold allocStep at h
  split at h
  · cases h
  · simp only at h
    split at h
    · cases h
    · split at h
      · cases h
      · rename_i pa hpa
        split at h
        · cases h
        · obtain ⟨row, _, h⟩ := R.bind_eq_ok.mp h
          split at h
          · cases h
          · split at h
            · cases h
            · rename_i pb hpb
              split at h
              · cases h
              · rename_i hab
                split at h
                · cases h
                · rename_i x cnt hfind
                  split at h
                  · cases h
                  · cases h
                    obtain ⟨hpam, hpaa⟩ := find?_key_some (key := ProxyRes.addr) hpa
                    obtain ⟨hpbm, hpba⟩ := find?_key_some (key := ProxyRes.addr) hpb
                    refine ⟨pa, pb, hpam, hpbm, hpaa, hpba, by simpa using hab, ?_, rfl, rfl⟩
                    have h1 := List.mem_of_find?_eq_some hfind
                    have h2 := List.find?_some hfind
                    simp only [beq_iff_eq] at h2
                    have h3 := (List.mem_filter.mp h1).2
                    simp only [Bool.and_eq_true, bne_iff_ne, ne_eq] at h3
                    rw [← h2]; exact h3.1

/-- loop invariant of `allocLoop` w.r.t. an initial pool `P` whose addresses are distinct -/
structure PoolInv (P : List ProxyRes) (st : AllocSt) : Prop where
  sub : ∀ p ∈ st.pool, p ∈ P
  outP : ∀ pr ∈ st.out, pr.1 ∈ P ∧ pr.2 ∈ P ∧ pr.1.host ≠ pr.2.host
  nodup : (st.out.flatMap fun pr => [pr.1.addr, pr.2.addr]).Nodup
  fresh : ∀ pr ∈ st.out, ∀ p ∈ st.pool, p.addr ≠ pr.1.addr ∧ p.addr ≠ pr.2.addr

theorem allocStep_poolInv {P : List ProxyRes} {st st' : AllocSt} {a b : String}
    (hi : PoolInv P st) (h : allocStep st a b = R.ok st') :
    PoolInv P st' ∧ st'.out.length = st.out.length + 1 := by
  obtain ⟨pa, pb, hpa, hpb, haa, hba, hab, hh, hpool, hout⟩ := allocStep_ok h
  refine ⟨⟨?_, ?_, ?_, ?_⟩, by simp [hout]⟩
  · intro p hp; rw [hpool] at hp; exact hi.sub p (List.mem_filter.mp hp).1
  · intro pr hpr
    rw [hout] at hpr
    rcases List.mem_append.mp hpr with h1 | h1
    · exact hi.outP pr h1
    · simp only [List.mem_singleton] at h1; subst h1
      exact ⟨hi.sub _ hpa, hi.sub _ hpb, fun e => hh e.symm⟩
  · rw [hout, List.flatMap_append, List.nodup_append]
    refine ⟨hi.nodup, ?_, ?_⟩
    · simp [haa, hba, hab]
    · intro x hx y hy
      simp only [List.flatMap_cons, List.flatMap_nil, List.append_nil, List.mem_cons, List.not_mem_nil,
        or_false] at hy
      obtain ⟨pr, hpr, hx⟩ := List.mem_flatMap.mp hx
      simp only [List.mem_cons, List.not_mem_nil, or_false] at hx
      have f1 := hi.fresh pr hpr pa hpa
      have f2 := hi.fresh pr hpr pb hpb
      rcases hx with rfl | rfl <;> rcases hy with rfl | rfl
      · exact fun e => f1.1 e.symm
      · exact fun e => f2.1 e.symm
      · exact fun e => f1.2 e.symm
      · exact fun e => f2.2 e.symm
  · intro pr hpr p hp
    rw [hpool] at hp
    obtain ⟨hp1, hp2⟩ := List.mem_filter.mp hp
    simp only [Bool.and_eq_true, bne_iff_ne, ne_eq] at hp2
    rw [hout] at hpr
    rcases List.mem_append.mp hpr with h1 | h1
    · exact hi.fresh pr h1 p hp1
    · simp only [List.mem_singleton] at h1; subst h1
      simp only [haa, hba]; exact hp2

theorem allocLoop_poolInv {P : List ProxyRes} : ∀ (choice : List (String × String)) (st st' : AllocSt),
    PoolInv P st → allocLoop st choice = R.ok st' →
    PoolInv P st' ∧ st'.out.length = st.out.length + choice.length := by
  intro choice
  induction choice with
  | nil => intro st st' hi h; simp only [allocLoop, R.pure_eq] at h; cases h; exact ⟨hi, rfl⟩
  | cons ab rest ih =>
    intro st st' hi h
    obtain ⟨a, b⟩ := ab
    simp only [allocLoop] at h
    obtain ⟨st1, h1, h2⟩ := R.bind_eq_ok.mp h
    obtain ⟨hi1, hl1⟩ := allocStep_poolInv hi h1
    obtain ⟨hi2, hl2⟩ := ih st1 st' hi1 h2
    exact ⟨hi2, by simp only [List.length_cons]; omega⟩

/-- what `generate_free_chunks` returns -/
theorem generateFreeChunks_ok {s : Store} {n : Nat} {choice : List (String × String)}
    {arr : List (ProxyRes × ProxyRes)} (h : generateFreeChunks s n choice = R.ok arr) :
    arr.length = (n + 1) / 2 ∧
    (∀ pr ∈ arr, pr.1 ∈ s.freeProxies ∧ pr.2 ∈ s.freeProxies ∧ pr.1.host ≠ pr.2.host) ∧
    (arr.flatMap fun pr => [pr.1.addr, pr.2.addr]).Nodup := by
  unfold generateFreeChunks at h
  obtain ⟨counts, _, h⟩ := R.bind_eq_ok.mp h
  simp only at h
  split at h
  · cases h
  · split at h
    · cases h
    · split at h
      · cases h
      · rename_i hlen
        obtain ⟨st, h1, h2⟩ := R.bind_eq_ok.mp h
        cases h2
        have hi0 : PoolInv s.freeProxies
            { free := counts, links := buildLinkTable s, pool := s.freeProxies, out := [] } :=
          ⟨fun p hp => hp, by simp, by simp, by simp⟩
        obtain ⟨hi, hl⟩ := allocLoop_poolInv choice _ _ hi0 h1
        refine ⟨?_, hi.outP, hi.nodup⟩
        simp only [List.length_nil, Nat.zero_add] at hl
        simp only [bne_iff_ne, ne_eq, Decidable.not_not] at hlen
        omega

/-! ## chunks built from pairs -/

def chunkAddrs (l : List Chunk) : List String := l.flatMap fun ch => [ch.proxy0, ch.proxy1]

theorem Cluster.proxyAddrs_eq (c : Cluster) : c.proxyAddrs = chunkAddrs c.chunks := rfl

theorem chunkAddrs_append (a b : List Chunk) : chunkAddrs (a ++ b) = chunkAddrs a ++ chunkAddrs b := by
  simp [chunkAddrs]

theorem mem_chunkAddrs {l : List Chunk} {a : String} :
    a ∈ chunkAddrs l ↔ ∃ ch ∈ l, a = ch.proxy0 ∨ a = ch.proxy1 := by
  simp [chunkAddrs, List.mem_flatMap]

theorem chunkAddrs_skel {l1 l2 : List Chunk} (h : SameSkel l1 l2) : chunkAddrs l1 = chunkAddrs l2 :=
  Cluster.skel_proxyAddrs (a := { epoch := 0, name := "", chunks := l1, config := defaultConfig })
    (b := { epoch := 0, name := "", chunks := l2, config := defaultConfig })
    (by simp only [Cluster.skel]; rw [h])

theorem chunkAddrs_filter_sublist (l : List Chunk) (p : Chunk → Bool) :
    (chunkAddrs (l.filter p)).Sublist (chunkAddrs l) := by
  induction l with
  | nil => simp [chunkAddrs]
  | cons c rest ih =>
    simp only [List.filter_cons]
    split
    · simp only [chunkAddrs, List.flatMap_cons] at ih ⊢
      exact List.Sublist.append (List.Sublist.refl _) ih
    · simp only [chunkAddrs, List.flatMap_cons] at ih ⊢
      exact List.Sublist.trans ih (List.sublist_append_right _ _)

theorem toChunksWithSlots_skel (av rem : Nat) : ∀ (arr : List (ProxyRes × ProxyRes)) (i curr : Nat),
    (toChunksWithSlots av rem arr i curr).OkP
      (fun chunks => chunks.map Chunk.skel = arr.map fun pr => (mkChunk pr.1 pr.2 none none).skel) := by
  intro arr
  induction arr with
  | nil => intro i curr; simp only [toChunksWithSlots]; exact R.okP_pure rfl
  | cons pr rest ih =>
    intro i curr
    obtain ⟨a, b⟩ := pr
    simp only [toChunksWithSlots]
    refine R.okP_bind ?_; intro x1 _
    refine R.okP_bind ?_; intro x2 _
    refine R.okP_bind ?_; intro tl htl
    refine R.okP_pure ?_
    have := ih _ _ tl htl
    simp only [List.map_cons, this]
    rfl

theorem proxyResourceToChunkStore_skel {arr : List (ProxyRes × ProxyRes)} {b : Bool} {chunks : List Chunk}
    (h : proxyResourceToChunkStore arr b = R.ok chunks) :
    chunks.map Chunk.skel = arr.map fun pr => (mkChunk pr.1 pr.2 none none).skel := by
  unfold proxyResourceToChunkStore at h
  split at h
  · simp only at h
    split at h
    · cases h
    · exact toChunksWithSlots_skel _ _ _ _ _ _ h
  · simp only [R.pure_eq] at h
    cases h
    simp [List.map_map, Function.comp_def, mkChunk, Chunk.skel]

/-- what the allocator of either mode (`allocChunks`) returns; the two-hosts clause belongs to
the normal mode only (ordered mode allocates by index, whatever the hosts) -/
theorem allocChunks_ok {s : Store} {n first : Nat} {choice : List (String × String)}
    {arr : List (ProxyRes × ProxyRes)} (h : allocChunks s n first choice = R.ok arr) :
    arr.length = (n + 1) / 2 ∧
    (∀ pr ∈ arr, pr.1 ∈ s.freeProxies ∧ pr.2 ∈ s.freeProxies ∧ (s.ordered = false → pr.1.host ≠ pr.2.host)) ∧
    (arr.flatMap fun pr => [pr.1.addr, pr.2.addr]).Nodup := by
  rcases Ord.allocChunks_cases h with ⟨ho, h⟩ | ⟨ho, h⟩
  · obtain ⟨hl, hp, hn⟩ := generateFreeChunks_ok h
    exact ⟨hl, fun pr hpr => ⟨(hp pr hpr).1, (hp pr hpr).2.1, fun _ => (hp pr hpr).2.2⟩, hn⟩
  · obtain ⟨hev, hl, hp, hn, _, _⟩ := Ord.generateFreeChunksOrdered_ok h
    refine ⟨by omega, fun pr hpr => ⟨(hp pr hpr).1, (hp pr hpr).2, fun hf => ?_⟩, hn⟩
    rw [ho] at hf; cases hf

/-- the chunks an allocation appends: built from distinct free healthy proxies; in normal mode
(not in ordered mode) two hosts each -/
structure NewChunks (s : Store) (new : List Chunk) : Prop where
  nodup : (chunkAddrs new).Nodup
  fromPool : ∀ ch ∈ new, ∃ p0 ∈ s.freeProxies, ∃ p1 ∈ s.freeProxies,
    ch.proxy0 = p0.addr ∧ ch.host0 = p0.host ∧ ch.node0 = p0.node0 ∧ ch.node1 = p0.node1 ∧
    ch.proxy1 = p1.addr ∧ ch.host1 = p1.host ∧ ch.node2 = p1.node0 ∧ ch.node3 = p1.node1 ∧
    (s.ordered = false → ch.host0 ≠ ch.host1)

theorem newChunks_of_alloc {s : Store} {n first : Nat} {choice : List (String × String)}
    {arr : List (ProxyRes × ProxyRes)} {b : Bool} {chunks : List Chunk}
    (h1 : allocChunks s n first choice = R.ok arr) (h2 : proxyResourceToChunkStore arr b = R.ok chunks) :
    NewChunks s chunks ∧ chunks.length = (n + 1) / 2 := by
  obtain ⟨hl, hp, hn⟩ := allocChunks_ok h1
  have hs := proxyResourceToChunkStore_skel h2
  have hs' : SameSkel chunks (arr.map fun pr => mkChunk pr.1 pr.2 none none) := by
    simp only [SameSkel, hs, List.map_map, Function.comp_def]
  refine ⟨⟨?_, ?_⟩, ?_⟩
  · rw [chunkAddrs_skel hs']
    simpa [chunkAddrs, List.flatMap_map, mkChunk] using hn
  · intro ch hch
    have : ch.skel ∈ arr.map fun pr => (mkChunk pr.1 pr.2 none none).skel :=
      hs ▸ List.mem_map.mpr ⟨ch, hch, rfl⟩
    obtain ⟨pr, hpr, he⟩ := List.mem_map.mp this
    obtain ⟨hp1, hp2, hh⟩ := hp pr hpr
    have e := Chunk.skel_eq_iff.mp he
    simp only [mkChunk] at e
    refine ⟨pr.1, hp1, pr.2, hp2, e.1.symm, e.2.2.1.symm, e.2.2.2.2.1.symm, e.2.2.2.2.2.1.symm,
      e.2.1.symm, e.2.2.2.1.symm, e.2.2.2.2.2.2.1.symm, e.2.2.2.2.2.2.2.symm, ?_⟩
    rw [← e.2.2.1, ← e.2.2.2.1]; exact hh
  · have := congrArg List.length hs
    simp only [List.length_map] at this
    omega

/-! ## tagging -/

/-- set the cluster tag of every proxy whose address is in `addrs` -/
def tagAll (ps : List ProxyRes) (addrs : List String) (v : Option String) : List ProxyRes :=
  ps.map fun p => if addrs.contains p.addr then { p with cluster := v } else p

theorem tagAll_nil (ps : List ProxyRes) (v : Option String) : tagAll ps [] v = ps := by
  simp [tagAll]

theorem tagAll_addrs (ps : List ProxyRes) (addrs : List String) (v : Option String) :
    (tagAll ps addrs v).map (·.addr) = ps.map (·.addr) := by
  simp only [tagAll, List.map_map]
  apply List.map_congr_left
  intro p _
  simp only [Function.comp]
  split <;> rfl

theorem mem_tagAll {ps : List ProxyRes} {addrs : List String} {v : Option String} {p' : ProxyRes} :
    p' ∈ tagAll ps addrs v ↔ ∃ p ∈ ps, p' = if p.addr ∈ addrs then { p with cluster := v } else p := by
  simp only [tagAll, List.mem_map, List.contains_iff_mem]
  constructor
  · rintro ⟨p, hp, rfl⟩; exact ⟨p, hp, rfl⟩
  · rintro ⟨p, hp, rfl⟩; exact ⟨p, hp, rfl⟩

theorem tagAll_cons (ps : List ProxyRes) (a : String) (addrs : List String) (v : Option String) :
    tagAll (ps.map fun p => if p.addr == a then { p with cluster := v } else p) addrs v =
      tagAll ps (a :: addrs) v := by
  simp only [tagAll, List.map_map]
  apply List.map_congr_left
  intro p _
  simp only [Function.comp, List.contains_cons]
  by_cases h1 : p.addr = a
  · subst h1
    simp
  · have : (p.addr == a) = false := by simpa using h1
    simp [this]

theorem foldl_setProxyCluster (v : Option String) : ∀ (addrs : List String) (s : Store),
    addrs.foldl (fun s a => s.setProxyCluster a v) s = { s with proxies := tagAll s.proxies addrs v } := by
  intro addrs
  induction addrs with
  | nil => intro s; simp [tagAll_nil]
  | cons a rest ih =>
    intro s
    simp only [List.foldl_cons]
    rw [ih]
    simp only [Store.setProxyCluster, tagAll_cons]

theorem foldl_setProxyCluster_chunks (l : List Chunk) (s : Store) :
    l.foldl (fun s ch => (s.setProxyCluster ch.proxy0 none).setProxyCluster ch.proxy1 none) s =
      { s with proxies := tagAll s.proxies (chunkAddrs l) none } := by
  rw [← foldl_setProxyCluster]
  simp only [chunkAddrs, List.foldl_flatMap, List.foldl_cons, List.foldl_nil]

theorem tagProxies_ok : ∀ (addrs : List String) (s s' : Store) (name : String),
    tagProxies s addrs name = R.ok s' → s' = { s with proxies := tagAll s.proxies addrs (some name) } := by
  intro addrs
  induction addrs with
  | nil => intro s s' name h; simp only [tagProxies, List.foldlM_nil, R.pure_eq] at h; cases h; simp [tagAll_nil]
  | cons a rest ih =>
    intro s s' name h
    simp only [tagProxies, List.foldlM_cons] at h
    obtain ⟨s1, h1, h2⟩ := R.bind_eq_ok.mp h
    split at h1
    · simp only [R.pure_eq] at h1; cases h1
      have := ih _ _ _ h2
      rw [this]
      simp only [Store.setProxyCluster, tagAll_cons]
    · cases h1

theorem tagProxies_total : ∀ (addrs : List String) (s : Store) (name : String),
    (∀ a ∈ addrs, ∃ p ∈ s.proxies, p.addr = a) → ∃ s', tagProxies s addrs name = R.ok s' := by
  intro addrs
  induction addrs with
  | nil => intro s name _; exact ⟨s, rfl⟩
  | cons a rest ih =>
    intro s name h
    simp only [tagProxies, List.foldlM_cons]
    have ha : (s.findProxy a).isSome = true := by
      obtain ⟨p, hp, hpa⟩ := h a List.mem_cons_self
      cases hf : s.findProxy a with
      | none => exact absurd hpa (Store.findProxy_none.mp hf p hp)
      | some _ => rfl
    simp only [ha, if_true, R.pure_eq, R.bind_ok]
    apply ih
    intro a' ha'
    obtain ⟨p, hp, hpa⟩ := h a' (List.mem_cons_of_mem _ ha')
    refine ⟨if p.addr == a then { p with cluster := some name } else p, ?_, ?_⟩
    · rw [Store.setProxyCluster_proxies]; exact List.mem_map.mpr ⟨p, hp, rfl⟩
    · split <;> exact hpa

end Um.Broker
