import UmProofs.BrokerViewPartF
/-!
# C01, view layer, part G: one peer per proxy

If the proxy addresses of a cluster are pairwise distinct (part of `ResInv`), the peers of a
proxy view have pairwise distinct proxy addresses: every other proxy that hosts a master appears
as exactly one peer, which then (by `proxy_peer_ranges`) carries all master ranges of that proxy.
Without distinct addresses `groupPeers` could split one proxy's masters into several peers;
the partition statements of parts E/F do not depend on this.
-/
namespace Um.Broker
open Um Um.Slots

/-- equal elements are contiguous: an element that occurs later occurs immediately next -/
def Clumped {α} : List α → Prop
  | [] => True
  | x :: xs => Clumped xs ∧ (x ∈ xs → xs.head? = some x)

theorem clumped_append {α} (l1 l2 : List α) (h1 : Clumped l1) (h2 : Clumped l2)
    (hd : ∀ x ∈ l1, x ∉ l2) : Clumped (l1 ++ l2) := by
  induction l1 with
  | nil => exact h2
  | cons x xs ih =>
    refine ⟨ih h1.1 (fun y hy => hd y (by simp [hy])), ?_⟩
    intro hx
    have hx' : x ∈ xs := by
      rcases List.mem_append.mp hx with h | h
      · exact h
      · exact absurd h (hd x (by simp))
    show (xs ++ l2).head? = some x
    rw [List.head?_append, h1.2 hx']
    rfl

theorem groupPeers_head (l : List VNode) :
    ((groupPeers l).head?).map (·.proxy) = (l.head?).map (·.proxy) := by
  cases l with
  | nil => rfl
  | cons n rest =>
    rw [groupPeers_cons]
    cases hg : groupPeers rest with
    | nil => rfl
    | cons q qs =>
      simp only
      split
      · rename_i h
        have : q.proxy = n.proxy := by simpa using h
        simp [this]
      · rfl

/-- every node is represented by a peer -/
theorem groupPeers_covers (l : List VNode) (n : VNode) (hn : n ∈ l) : ∃ p ∈ groupPeers l, p.proxy = n.proxy := by
  induction l with
  | nil => cases hn
  | cons m rest ih =>
    have hhead := groupPeers_head (m :: rest)
    rcases List.mem_cons.mp hn with rfl | hn'
    · cases hg : groupPeers (n :: rest) with
      | nil => rw [hg] at hhead; simp at hhead
      | cons p ps =>
        rw [hg] at hhead
        exact ⟨p, by simp, by simpa using hhead⟩
    · obtain ⟨p, hp, hpn⟩ := ih hn'
      rw [groupPeers_cons]
      cases hg : groupPeers rest with
      | nil => rw [hg] at hp; cases hp
      | cons q qs =>
        rw [hg] at hp
        simp only
        split
        · rcases List.mem_cons.mp hp with rfl | hp'
          · exact ⟨{ p with slots := m.slots ++ p.slots }, by simp, hpn⟩
          · exact ⟨p, by simp [hp'], hpn⟩
        · exact ⟨p, by simp [List.mem_cons.mp hp], hpn⟩

/-- on a list whose proxies are clumped, grouping yields one peer per proxy -/
theorem groupPeers_nodup (l : List VNode) (h : Clumped (l.map (·.proxy))) :
    ((groupPeers l).map (·.proxy)).Nodup := by
  induction l with
  | nil => simp [groupPeers]
  | cons n rest ih =>
    have ih' := ih h.1
    have hhead := groupPeers_head rest
    rw [groupPeers_cons]
    cases hg : groupPeers rest with
    | nil => simp
    | cons q qs =>
      rw [hg] at ih' hhead
      simp only
      split
      · exact ih'
      · rename_i hne
        rw [List.map_cons, List.nodup_cons]
        refine ⟨?_, ih'⟩
        intro hmem
        simp only at hmem
        apply hne
        -- `n.proxy` occurs among the later peers, hence among the later nodes, hence next
        have hmem' : n.proxy ∈ (groupPeers rest).map (·.proxy) := by rw [hg]; exact hmem
        obtain ⟨p, hp, hpn⟩ := List.mem_map.mp hmem'
        obtain ⟨n', hn', hn'p⟩ := groupPeers_proxy rest p hp
        have hin : n.proxy ∈ rest.map (·.proxy) := List.mem_map.mpr ⟨n', hn', by rw [hn'p, hpn]⟩
        have hnext := h.2 hin
        rw [List.head?_map] at hnext
        rw [← hhead] at hnext
        simp only [List.head?_cons, Option.map_some, Option.some.injEq] at hnext
        simp [hnext]

/-- the proxies of the master nodes of a cluster's view, after any node filter, are clumped -/
theorem clumped_chunks (chunks : List Chunk) (g : Chunk → List String)
    (hg : ∀ c, ∀ x ∈ g c, x = c.proxy0 ∨ x = c.proxy1)
    (hc : ∀ c, c.proxy0 ≠ c.proxy1 → Clumped (g c))
    (hnd : (chunks.flatMap fun ch => [ch.proxy0, ch.proxy1]).Nodup) : Clumped (chunks.flatMap g) := by
  induction chunks with
  | nil => trivial
  | cons c cs ih =>
    simp only [List.flatMap_cons] at hnd ⊢
    obtain ⟨h1, h2, h3⟩ := List.nodup_append.mp hnd
    have hne : c.proxy0 ≠ c.proxy1 := by
      intro heq; simp [heq] at h1
    refine clumped_append _ _ (hc c hne) (ih h2) ?_
    intro x hx hx'
    obtain ⟨d, hd, hxd⟩ := List.mem_flatMap.mp hx'
    have hxc : x ∈ [c.proxy0, c.proxy1] := by
      rcases hg c x hx with h | h <;> simp [h]
    have hxd' : x ∈ cs.flatMap fun ch => [ch.proxy0, ch.proxy1] := by
      refine List.mem_flatMap.mpr ⟨d, hd, ?_⟩
      rcases hg d x hxd with h | h <;> simp [h]
    exact h3 x hxc x hxd' rfl

theorem masterNode_proxy (c : Chunk) (chunks : List Chunk) (part : Nat) :
    (masterNode c chunks part).proxy = c.proxy0 ∨ (masterNode c chunks part).proxy = c.proxy1 := by
  show proxyD c (nodeIdx part c.role / 2) = _ ∨ proxyD c (nodeIdx part c.role / 2) = _
  have := nodeIdx_lt part c.role
  have h : nodeIdx part c.role / 2 = 0 ∨ nodeIdx part c.role / 2 = 1 := by omega
  rcases h with h | h <;> rw [h]
  · exact Or.inl rfl
  · exact Or.inr rfl

/-- the master proxies of one chunk, filtered -/
def chunkPeerProxies (chunks : List Chunk) (a : String) (c : Chunk) : List String :=
  ((chunkNodesP c chunks).filter fun n => !n.replica && n.proxy != a).map (·.proxy)

theorem chunkPeerProxies_mem (chunks : List Chunk) (a : String) (c : Chunk) :
    ∀ x ∈ chunkPeerProxies chunks a c, x = c.proxy0 ∨ x = c.proxy1 := by
  intro x hx
  obtain ⟨n, hn, rfl⟩ := List.mem_map.mp hx
  obtain ⟨hn1, hn2⟩ := List.mem_filter.mp hn
  rcases mem_chunkNodesP c chunks n hn1 with h | h | ⟨i, h⟩
  · rw [h]; exact masterNode_proxy c chunks 0
  · rw [h]; exact masterNode_proxy c chunks 1
  · rw [h] at hn2; simp [replicaNode] at hn2

theorem chunkPeerProxies_clumped (chunks : List Chunk) (a : String) (c : Chunk) (hne : c.proxy0 ≠ c.proxy1) :
    Clumped (chunkPeerProxies chunks a c) := by
  have hm0 : (masterNode c chunks 0).replica = false := rfl
  have hm1 : (masterNode c chunks 1).replica = false := rfl
  have hr : ∀ i, (replicaNode c i).replica = true := fun _ => rfl
  have hp : ∀ part, (masterNode c chunks part).proxy = proxyD c (nodeIdx part c.role / 2) := fun _ => rfl
  unfold chunkPeerProxies
  rw [chunkNodesP_eq]
  rcases hrole : c.role with _ | _ | _ <;>
    simp only [List.filter_cons, List.filter_nil, hm0, hm1, hr, hp, hrole, Bool.not_false, Bool.not_true,
      Bool.true_and, Bool.false_and, Bool.false_eq_true, if_false,
      show nodeIdx 0 RolePos.normal / 2 = 0 from rfl, show nodeIdx 1 RolePos.normal / 2 = 1 from rfl,
      show nodeIdx 0 RolePos.first / 2 = 0 from rfl, show nodeIdx 1 RolePos.first / 2 = 0 from rfl,
      show nodeIdx 0 RolePos.second / 2 = 1 from rfl, show nodeIdx 1 RolePos.second / 2 = 1 from rfl,
      show proxyD c 0 = c.proxy0 from rfl, show proxyD c 1 = c.proxy1 from rfl] <;>
    by_cases h0 : (c.proxy0 != a) = true <;> by_cases h1 : (c.proxy1 != a) = true <;>
    simp [h0, h1, hp, Clumped, hne, hrole,
      show nodeIdx 0 RolePos.normal / 2 = 0 from rfl, show nodeIdx 1 RolePos.normal / 2 = 1 from rfl,
      show nodeIdx 0 RolePos.first / 2 = 0 from rfl, show nodeIdx 1 RolePos.first / 2 = 0 from rfl,
      show nodeIdx 0 RolePos.second / 2 = 1 from rfl, show nodeIdx 1 RolePos.second / 2 = 1 from rfl,
      show proxyD c 0 = c.proxy0 from rfl, show proxyD c 1 = c.proxy1 from rfl]

/-- **one peer per proxy**: with pairwise distinct proxy addresses in the cluster, the peers of
every proxy view have pairwise distinct proxy addresses -/
theorem proxy_peers_nodup (cl : Cluster) (a : String) (hnd : cl.proxyAddrs.Nodup) :
    ((proxyOfView a (viewP cl)).peers.map (·.proxy)).Nodup := by
  apply groupPeers_nodup
  have : ((viewP cl).nodes.filter fun n => !n.replica && n.proxy != a).map (·.proxy) =
      cl.chunks.flatMap (chunkPeerProxies cl.chunks a) := by
    simp only [viewP, List.filter_flatMap, List.map_flatMap]
    rfl
  rw [this]
  exact clumped_chunks cl.chunks _ (chunkPeerProxies_mem cl.chunks a)
    (chunkPeerProxies_clumped cl.chunks a) hnd

/-- the peers are exactly the other proxies that host a master -/
theorem proxy_peers_iff (a b : String) (v : VCluster) :
    (∃ p ∈ (proxyOfView a v).peers, p.proxy = b) ↔ (b ≠ a ∧ ∃ n ∈ v.nodes, n.replica = false ∧ n.proxy = b) := by
  constructor
  · rintro ⟨p, hp, rfl⟩
    obtain ⟨n, hn, hnp⟩ := groupPeers_proxy _ p hp
    obtain ⟨hn1, hn2⟩ := List.mem_filter.mp hn
    simp only [Bool.and_eq_true, Bool.not_eq_eq_eq_not, Bool.not_true, bne_iff_ne, ne_eq] at hn2
    exact ⟨by rw [← hnp]; exact hn2.2, n, hn1, hn2.1, hnp⟩
  · rintro ⟨hba, n, hn, hr, rfl⟩
    exact groupPeers_covers _ n (List.mem_filter.mpr ⟨hn, by simp [hr, hba]⟩)

/-! ## packaged forms for the served queries (input: the already limited cluster `lc`) -/

/-- `get_cluster_by_name` succeeds and serves a partition -/
theorem clusterView_partition (s : Store) (name : String) (limit : Nat) (cl lc : Cluster)
    (hn : validName name = true) (hc : s.findCluster name = some cl)
    (hl : limitMigration cl limit = R.ok lc) (hP : PosInv lc) (hT : TwinInv lc) (hS : SlotInv lc) :
    ∃ v, clusterView s name limit = R.ok (some v) ∧ PartitionView v :=
  ⟨viewP lc, clusterView_eq s name limit cl lc hn hc hl hP, partitionView_viewP lc hP hT hS⟩

/-- `get_proxy_by_address` for a proxy of a cluster succeeds; what it serves is the projection
`proxyOfView` of a partition view, and owns every slot exactly once -/
theorem proxyView_partition (s : Store) (addr : String) (limit : Nat) (p : ProxyRes) (cl lc : Cluster)
    (hp : s.findProxy addr = some p) (hc : p.cluster.bind s.findCluster = some cl)
    (hl : limitMigration cl limit = R.ok lc) (hP : PosInv lc) (hT : TwinInv lc) (hS : SlotInv lc) :
    ∃ v, proxyView s addr limit = R.ok (some (proxyOfView addr v)) ∧ PartitionView v ∧
      (proxyOfView addr v).ownedSlots.Perm (List.range SLOT_NUM) :=
  ⟨viewP lc, proxyView_eq s addr limit p cl lc hp hc hl hP, partitionView_viewP lc hP hT hS,
    proxy_partition addr _ (partitionView_viewP lc hP hT hS)⟩

/-- non-vacuity of the per-proxy statements on the worked example: proxy `h1:1` sees its own
migrating-out range and three peers -/
example : ((proxyOfView "h1:1" exView).peers.map (·.proxy)) = ["h2:1", "h3:1", "h4:1"] := by decide

example : (proxyOfView "h1:1" exView).ownedSlots.Perm (List.range SLOT_NUM) :=
  proxy_partition _ _ exView_partition

end Um.Broker
