import UmModel.BarrierMap
/-!
# C11 — invariant of the `BlockingMap` model: live holders and the registered entry agree
-/
namespace Um.Barrier.Map

structure Inv (st : MState) : Prop where
  /-- a live holder's queue is the one registered under its address -/
  reg : ∀ h ∈ st.holders, h.live = true → st.entry h.addr = some h.qid
  holdersLt : ∀ h ∈ st.holders, h.qid < st.nextQ
  entryLt : ∀ a q, st.entry a = some q → q < st.nextQ
  /-- a queue is registered under at most one address -/
  inj : ∀ a b q, st.entry a = some q → st.entry b = some q → a = b

theorem inv_init : Inv init :=
  ⟨by simp [init], by simp [init], by simp [init], by simp [init]⟩

theorem mem_killAt : ∀ (hs : List Holder) (n : Nat) (h : Holder), h ∈ killAt hs n →
    ∃ h0 ∈ hs, h.addr = h0.addr ∧ h.qid = h0.qid ∧ (h.live = true → h0.live = true)
  | [], _, h, hm => by simp [killAt] at hm
  | x :: xs, 0, h, hm => by
    simp only [killAt, List.mem_cons] at hm
    rcases hm with rfl | hm
    · exact ⟨x, by simp, rfl, rfl, by simp⟩
    · exact ⟨h, by simp [hm], rfl, rfl, id⟩
  | x :: xs, n + 1, h, hm => by
    simp only [killAt, List.mem_cons] at hm
    rcases hm with rfl | hm
    · exact ⟨h, by simp, rfl, rfl, id⟩
    · obtain ⟨h0, hm0, h1⟩ := mem_killAt xs n h hm
      exact ⟨h0, by simp [hm0], h1⟩

/-- an invariant-preserving "weakening" of the holder list: every new holder comes from an old
one with the same address and queue and is live only if the old one was -/
theorem inv_weaken {st : MState} {hs : List Holder} (hi : Inv st)
    (hw : ∀ h ∈ hs, ∃ h0 ∈ st.holders, h.addr = h0.addr ∧ h.qid = h0.qid ∧
      (h.live = true → h0.live = true)) :
    Inv { st with holders := hs } := by
  refine ⟨?_, ?_, hi.entryLt, hi.inj⟩
  · intro h hm hl
    obtain ⟨h0, hm0, ha, hq, hl0⟩ := hw h hm
    have := hi.reg h0 hm0 (hl0 hl)
    simp only [ha, hq]; exact this
  · intro h hm
    obtain ⟨h0, hm0, _, hq, _⟩ := hw h hm
    have := hi.holdersLt h0 hm0
    simp only [hq]; exact this

theorem alive_spec {st : MState} {q : Nat} (h : alive st q = true) :
    ∃ h ∈ st.holders, h.live = true ∧ h.qid = q := by
  simp only [alive, List.any_eq_true, Bool.and_eq_true, beq_iff_eq] at h
  obtain ⟨x, hm, hl, hq⟩ := h
  exact ⟨x, hm, hl, hq⟩

theorem not_alive_spec {st : MState} {q : Nat} (h : alive st q = false) :
    ∀ h ∈ st.holders, h.live = true → h.qid ≠ q := by
  intro x hm hl hq
  have : alive st q = true := by
    simp only [alive, List.any_eq_true, Bool.and_eq_true, beq_iff_eq]
    exact ⟨x, hm, hl, hq⟩
  rw [h] at this; cases this

/-- registering a fresh queue under `a`, when no live holder of `a` exists -/
theorem inv_fresh {st : MState} (hi : Inv st) (a : Nat)
    (hdead : ∀ h ∈ st.holders, h.live = true → h.addr ≠ a) (k : Kind) :
    Inv { entry := fun b => if b = a then some st.nextQ else st.entry b,
          holders := st.holders ++ [{ kind := k, addr := a, qid := st.nextQ, live := true }],
          nextQ := st.nextQ + 1 } := by
  refine ⟨?_, ?_, ?_, ?_⟩
  · intro h hm hl
    simp only [List.mem_append, List.mem_singleton] at hm
    rcases hm with hm | rfl
    · have hne := hdead h hm hl
      simp only [hne, if_false]
      exact hi.reg h hm hl
    · simp
  · intro h hm
    simp only [List.mem_append, List.mem_singleton] at hm
    rcases hm with hm | rfl
    · have := hi.holdersLt h hm; simp only; omega
    · simp
  · intro b q hb
    simp only at hb
    split at hb
    · cases hb; simp
    · have := hi.entryLt b q hb; simp only; omega
  · intro b c q hb hc
    simp only at hb hc
    split at hb <;> split at hc
    · omega
    · cases hb; have := hi.entryLt c _ hc; omega
    · cases hc; have := hi.entryLt b _ hb; omega
    · exact hi.inj b c q hb hc

theorem inv_step {st : MState} (hi : Inv st) (o : Op) : Inv (step st o) := by
  cases o with
  | acquire k a =>
    simp only [step, getOrCreate]
    split
    · rename_i q he
      split
      · -- live entry: the new holder joins queue `q`
        rename_i hal
        refine ⟨?_, ?_, hi.entryLt, hi.inj⟩
        · intro h hm hl
          simp only [List.mem_append, List.mem_singleton] at hm
          rcases hm with hm | rfl
          · exact hi.reg h hm hl
          · exact he
        · intro h hm
          simp only [List.mem_append, List.mem_singleton] at hm
          rcases hm with hm | rfl
          · exact hi.holdersLt h hm
          · exact hi.entryLt a q he
      · rename_i hal
        have hal' : alive st q = false := by simpa using hal
        refine inv_fresh hi a ?_ k
        intro h hm hl ha
        have h1 := hi.reg h hm hl
        rw [ha, he] at h1
        cases h1
        exact not_alive_spec hal' h hm hl rfl
    · rename_i he
      refine inv_fresh hi a ?_ k
      intro h hm hl ha
      have h1 := hi.reg h hm hl
      rw [ha, he] at h1; cases h1
  | drop n =>
    exact inv_weaken hi (fun h hm => mem_killAt _ _ h hm)
  | dropAll a =>
    refine inv_weaken hi ?_
    intro h hm
    simp only [List.mem_map] at hm
    obtain ⟨h0, hm0, rfl⟩ := hm
    refine ⟨h0, hm0, ?_⟩
    split <;> simp

theorem inv_run : ∀ (ops : List Op) (st : MState), Inv st → Inv (run st ops)
  | [], _, hi => hi
  | o :: os, st, hi => inv_run os (step st o) (inv_step hi o)

end Um.Barrier.Map
