import UmProofs.ParserCostInv
/-!
# C16 — fuel adequacy, no `capacity overflow` panic, the nesting bound
-/
namespace Um.PC
open Um

structure Safe (c : Cfg) (fuelOk : Prop) (len d : Nat) (r : Option PErr) (k : Cost) : Prop where
  no_fuel : fuelOk → r ≠ some .fuel
  no_cap : Bounded c k.over → len * c.elemSize ≤ isizeMax → r ≠ some .capacity
  nest : ∀ M, c.maxNesting = some M → d ≤ M → k.height + d ≤ M + 1

def errOf {α : Type} : PR α → Option PErr
  | .ok _ => none
  | .error e => some e

def RespSafe (c : Cfg) (f : Nat) : Prop :=
  ∀ d buf r k, parseResp c f d buf = (r, k) → Safe c (buf.length + 1 ≤ f) buf.length d (errOf r) k

def ElemsSafe (c : Cfg) (f : Nat) : Prop :=
  ∀ d rest cnt consumed r k, parseElems c f d rest cnt consumed = (r, k) →
    Safe c (rest.length + 2 ≤ f) rest.length d (errOf r) k

theorem safe_plain (c : Cfg) (P : Prop) (len d : Nat) (e : Option PErr) (st : Nat) (o : Bool)
    (h1 : e ≠ some .fuel) (h2 : e ≠ some .capacity) : Safe c P len d e ⟨0, st, 1, o⟩ :=
  ⟨fun _ => h1, fun _ _ => h2, by intro M _ hd; simp only; omega⟩

theorem mul_le_isize {a b es : Nat} (h : a ≤ b) (hb : b * es ≤ isizeMax) : a * es ≤ isizeMax :=
  Nat.le_trans (Nat.mul_le_mul_right es h) hb

theorem respSafe_succ {c : Cfg} {f : Nat} (he : ElemsSafe c f) : RespSafe c (f + 1) := by
  intro d buf r k h
  cases buf with
  | nil =>
    simp only [parseResp, Prod.mk.injEq] at h
    obtain ⟨h1, h2⟩ := h
    subst h1 h2
    exact safe_plain c _ _ _ _ _ _ (by simp [errOf]) (by simp [errOf])
  | cons pfx nb =>
    rw [parseResp] at h
    split at h
    · rename_i e0 st0 heq
      obtain ⟨_, herr⟩ := parseLeaf_spec _ _ _ _ heq
      obtain ⟨_, h2, h3⟩ := herr e0 st0 rfl
      simp only [Prod.mk.injEq] at h
      obtain ⟨h4, h5⟩ := h
      subst h4 h5
      exact safe_plain c _ _ _ _ _ _ (by simpa [errOf] using h2) (by simpa [errOf] using h3)
    · simp only [Prod.mk.injEq] at h
      obtain ⟨h4, h5⟩ := h
      subst h4 h5
      exact safe_plain c _ _ _ _ _ _ (by simp [errOf]) (by simp [errOf])
    · split at h
      · split at h
        · simp only [Prod.mk.injEq] at h
          obtain ⟨h4, h5⟩ := h
          subst h4 h5
          exact safe_plain c _ _ _ _ _ _ (by simp [errOf]) (by simp [errOf])
        · rename_i hnest
          split at h
          · rename_i e0 st0 heq
            obtain ⟨_, herr⟩ := parseLen_spec c.strict nb
            obtain ⟨_, h2, h3⟩ := herr e0 st0 heq
            simp only [Prod.mk.injEq] at h
            obtain ⟨h4, h5⟩ := h
            subst h4 h5
            exact safe_plain c _ _ _ _ _ _ (by simpa [errOf] using h2) (by simpa [errOf] using h3)
          · rename_i len cl st0 heq
            obtain ⟨hok, _⟩ := parseLen_spec c.strict nb
            obtain ⟨h1, h2, h3⟩ := hok len cl st0 heq
            split at h
            · simp only [Prod.mk.injEq] at h
              obtain ⟨h4, h5⟩ := h
              subst h4 h5
              exact safe_plain c _ _ _ _ _ _ (by simp [errOf]) (by simp [errOf])
            · simp only at h
              split at h
              · -- capacity overflow: impossible when the capacity is bounded by the bytes left
                rename_i hcap
                simp only [Prod.mk.injEq] at h
                obtain ⟨h4, h5⟩ := h
                subst h4 h5
                refine ⟨by intro _; simp [errOf], ?_, by intro M _ hd; simp only; omega⟩
                intro hb hsz
                exfalso
                have hc := arrayCap_le_rem c _ _ hb
                have : arrayCap c len.toNat (nb.length - cl) * c.elemSize ≤ isizeMax :=
                  mul_le_isize (b := (pfx :: nb).length) (by simp only [List.length_cons]; omega) hsz
                omega
              · have hnest' : nestingOk c d = true := by
                  cases hn : nestingOk c d with
                  | true => rfl
                  | false => simp [hn] at hnest
                have hd : (nb.drop cl).length = nb.length - cl := by simp
                split at h
                · rename_i e1 K heq2
                  obtain ⟨s1, s2, s3⟩ := he _ _ _ _ _ _ heq2
                  simp only [Prod.mk.injEq] at h
                  obtain ⟨h4, h5⟩ := h
                  subst h4 h5
                  refine ⟨?_, ?_, ?_⟩
                  · intro hf
                    simp only [List.length_cons] at hf
                    exact s1 (by rw [hd]; omega)
                  · intro hb hsz
                    exact s2 (bounded_or hb).2
                      (mul_le_isize (b := (pfx :: nb).length) (by rw [hd]; simp only [List.length_cons]; omega) hsz)
                  · intro M hM hdM
                    have hlt : d < M := by
                      unfold nestingOk at hnest'
                      simp only [hM, decide_eq_true_eq] at hnest'
                      exact hnest'
                    have := s3 M hM (by omega)
                    simp only; omega
                · rename_i vs total K heq2
                  obtain ⟨s1, s2, s3⟩ := he _ _ _ _ _ _ heq2
                  simp only [Prod.mk.injEq] at h
                  obtain ⟨h4, h5⟩ := h
                  subst h4 h5
                  refine ⟨by intro _; simp [errOf], by intro _ _; simp [errOf], ?_⟩
                  intro M hM hdM
                  have hlt : d < M := by
                    unfold nestingOk at hnest'
                    simp only [hM, decide_eq_true_eq] at hnest'
                    exact hnest'
                  have := s3 M hM (by omega)
                  simp only; omega
      · simp only [Prod.mk.injEq] at h
        obtain ⟨h4, h5⟩ := h
        subst h4 h5
        exact safe_plain c _ _ _ _ _ _ (by simp [errOf]) (by simp [errOf])

theorem elemsSafe_succ {c : Cfg} {f : Nat} (hr : RespSafe c f) (he : ElemsSafe c f) : ElemsSafe c (f + 1) := by
  intro d rest cnt consumed r k h
  cases cnt with
  | zero =>
    simp only [parseElems, Prod.mk.injEq] at h
    obtain ⟨h1, h2⟩ := h
    subst h1 h2
    exact ⟨by intro _; simp [errOf], by intro _ _; simp [errOf], by intro M _ hd; simp only; omega⟩
  | succ cnt =>
    simp only [parseElems] at h
    cases h1 : parseResp c f d rest with
    | mk r1 k1 =>
      obtain ⟨s1, s2, s3⟩ := hr d rest r1 k1 h1
      obtain ⟨ok1, _⟩ := (inv_all c f).1 d rest r1 k1 h1
      simp only [h1] at h
      cases r1 with
      | error e1 =>
        simp only [Prod.mk.injEq] at h
        obtain ⟨h2, h3⟩ := h
        subst h2 h3
        refine ⟨?_, ?_, ?_⟩
        · intro hf; exact s1 (by omega)
        · intro hb hsz; exact s2 hb hsz
        · intro M hM hd; exact s3 M hM hd
      | ok p =>
        obtain ⟨v, n1⟩ := p
        have hv := ok1 v n1 rfl
        simp only at h
        cases h2 : parseElems c f d (rest.drop n1) cnt (consumed + n1) with
        | mk r2 k2 =>
          obtain ⟨t1, t2, t3⟩ := he d (rest.drop n1) cnt (consumed + n1) r2 k2 h2
          have hd : (rest.drop n1).length = rest.length - n1 := by simp
          simp only [h2] at h
          cases r2 with
          | error e2 =>
            simp only [Prod.mk.injEq] at h
            obtain ⟨h3, h4⟩ := h
            subst h3 h4
            refine ⟨?_, ?_, ?_⟩
            · intro hf
              exact t1 (by rw [hd]; have := hv.n_ge; have := hv.n_le; omega)
            · intro hb hsz
              exact t2 (bounded_or hb).2 (mul_le_isize (b := rest.length) (by rw [hd]; omega) hsz)
            · intro M hM hdM
              have a := s3 M hM hdM
              have b := t3 M hM hdM
              simp only; omega
          | ok q =>
            obtain ⟨vs, total⟩ := q
            simp only [Prod.mk.injEq] at h
            obtain ⟨h3, h4⟩ := h
            subst h3 h4
            refine ⟨by intro _; simp [errOf], by intro _ _; simp [errOf], ?_⟩
            intro M hM hdM
            have a := s3 M hM hdM
            have b := t3 M hM hdM
            simp only; omega

theorem safe_all (c : Cfg) : ∀ f, RespSafe c f ∧ ElemsSafe c f := by
  intro f
  induction f with
  | zero =>
    refine ⟨?_, ?_⟩
    · intro d buf r k h
      simp only [parseResp, Prod.mk.injEq] at h
      obtain ⟨h1, h2⟩ := h
      subst h1 h2
      exact ⟨by intro hf; omega, by intro _ _; simp [errOf], by intro M _ hd; simp only; omega⟩
    · intro d rest cnt consumed r k h
      cases cnt with
      | zero =>
        simp only [parseElems, Prod.mk.injEq] at h
        obtain ⟨h1, h2⟩ := h
        subst h1 h2
        exact ⟨by intro _; simp [errOf], by intro _ _; simp [errOf], by intro M _ hd; simp only; omega⟩
      | succ cnt =>
        simp only [parseElems, Prod.mk.injEq] at h
        obtain ⟨h1, h2⟩ := h
        subst h1 h2
        exact ⟨by intro hf; omega, by intro _ _; simp [errOf], by intro M _ hd; simp only; omega⟩
  | succ f ih => exact ⟨respSafe_succ ih.2, elemsSafe_succ ih.1 ih.2⟩

end Um.PC
