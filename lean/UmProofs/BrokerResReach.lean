import UmProofs.BrokerResCheck
/-!
# C12 — the invariant `RX` holds in every reachable state; helpers to read `stepFull` outcomes.
-/
namespace Um.Broker
open Um Um.Slots

theorem rx_init : RX Store.init := by
  refine ⟨⟨by simp [Store.init], by simp [Store.init], ?_, ?_, ?_⟩, ?_⟩ <;> simp [Store.init, NamesValid]

theorem rx_stepFull {s : Store} (op : Op) (hx : RX s) : RX (stepFull s op).1 := by
  cases op with
  | addProxy a n0 n1 h i => exact rx_addProxy a n0 n1 h i hx
  | removeProxy a => exact rx_removeProxy a hx
  | addCluster n k c => exact rx_addCluster n k defaultConfig c hx
  | removeCluster n => exact rx_removeCluster n hx
  | addNodes n k c => exact rx_autoAddNodes n k c hx
  | scaleUp n k c => exact rx_autoScaleUpNodes n k c hx
  | changeNum n k c => exact rx_autoChangeNodeNumber n k c hx
  | scaleOutNum n k => exact rx_autoScaleOutNodeNumber n k hx
  | delFree n => exact rx_autoDeleteFreeNodes n hx
  | migrate n => exact rx_migrateSlots n hx
  | scaleDown n k => exact rx_migrateSlotsToScaleDown n k hx
  | commit n e rl t c => exact rx_commitMigration n rl e t c hx
  | failover a c => exact rx_replaceFailedProxy a c hx
  | balance n => exact rx_balanceMasters n hx
  | config n kv => exact rx_changeConfig n kv hx
  | bumpAll e => exact rx_forceBumpAllEpoch e hx
  | recover e => exact rx_recoverEpoch e hx
  | addFailure a r t => exact rx_addFailure a r t hx
  | setOrdered =>
    -- mode selection on a fresh store touches neither proxies nor clusters
    exact (show SkelEq s.setOrdered s from
      ⟨by unfold Store.setOrdered; split <;> rfl, by unfold Store.setOrdered; split <;> rfl⟩).rx hx

theorem rx_step {s : Store} (op : Op) (hx : RX s) : RX (step s op) := by
  have := rx_stepFull op hx
  unfold step
  split
  · rename_i heq; rw [heq] at this; exact this
  · rename_i heq; rw [heq] at this; exact this
  · exact hx
  · exact hx

theorem rx_reachable : ∀ s, Reachable s → RX s :=
  reachable_induction rx_init (fun _ op _ hx => rx_step op hx)

theorem resInv_reachable {s : Store} (h : Reachable s) : ResInv s :=
  (resInv_iff_rpt s).mpr (rx_reachable s h).1

/-! ## reading outcomes -/

theorem Outcome.ofR_eq_ok {α} {f : α → String} {r : R α} {x : String} (h : Outcome.ofR f r = .ok x) :
    ∃ a, r = R.ok a ∧ x = f a := by
  cases r with
  | ok a => cases h; exact ⟨a, rfl, rfl⟩
  | err e => cases h
  | panic w => cases h
  | badChoice w => cases h

theorem Outcome.ofR_eq_err {α} {f : α → String} {r : R α} {e : Err} (h : Outcome.ofR f r = .err e) :
    r = R.err e := by
  cases r with
  | ok a => cases h
  | err e' => cases h; rfl
  | panic w => cases h
  | badChoice w => cases h

theorem findCluster_setCluster {s : Store} {n : String} {cl cl' : Cluster} (hf : s.findCluster n = some cl)
    (hn : cl'.name = n) : (s.setCluster cl').findCluster n = some cl' := by
  unfold Store.findCluster at hf ⊢
  rw [Store.setCluster_clusters]
  generalize s.clusters = l at hf
  induction l with
  | nil => cases hf
  | cons x xs ih =>
    simp only [List.map_cons, List.find?_cons] at hf ⊢
    by_cases hx : x.name = n
    · simp [hx, hn]
    · have hx' : (x.name == n) = false := by simpa using hx
      have hx'' : (x.name == cl'.name) = false := by rw [hn]; exact hx'
      simp only [hx', hx'', Bool.false_eq_true, if_false] at hf ⊢
      exact ih hf

theorem addNodesResult_findCluster {s : Store} {n : String} {cl : Cluster} {new : List Chunk}
    (hf : s.findCluster n = some cl) :
    (addNodesResult s cl new).findCluster n =
      some { cl with chunks := cl.chunks ++ new, epoch := s.globalEpoch + 1 } := by
  have hn : cl.name = n := (Store.findCluster_some hf).2
  exact findCluster_setCluster (s := s)
    (cl' := { cl with chunks := cl.chunks ++ new, epoch := s.globalEpoch + 1 }) hf hn

/-- normal mode only: ordered mode allocates by proxy index, whatever the hosts
(`NewChunks.pool` is the mode-independent part) -/
theorem NewChunks.hosts {s : Store} {new : List Chunk} (h : NewChunks s new) (ho : s.ordered = false) :
    ∀ ch ∈ new, ch.host0 ≠ ch.host1 ∧
      ∃ p0 ∈ s.freeProxies, ∃ p1 ∈ s.freeProxies, ch.proxy0 = p0.addr ∧ ch.proxy1 = p1.addr := by
  intro ch hch
  obtain ⟨p0, hp0, p1, hp1, e0, _, _, _, e1, _, _, _, hh⟩ := h.fromPool ch hch
  exact ⟨hh ho, p0, hp0, p1, hp1, e0, e1⟩

/-- both modes: the proxies of newly allocated chunks come from the free healthy pool -/
theorem NewChunks.pool {s : Store} {new : List Chunk} (h : NewChunks s new) :
    ∀ ch ∈ new, ∃ p0 ∈ s.freeProxies, ∃ p1 ∈ s.freeProxies, ch.proxy0 = p0.addr ∧ ch.proxy1 = p1.addr := by
  intro ch hch
  obtain ⟨p0, hp0, p1, hp1, e0, _, _, _, e1, _⟩ := h.fromPool ch hch
  exact ⟨p0, hp0, p1, hp1, e0, e1⟩

end Um.Broker
