import UmModel.Barrier
import UmProofs.BarrierLists
/-!
# C11 — invariants of the barrier model

Every global step replaces one element of a thread pool, so each invariant is a *local* lemma
about `stepS`/`stepC` (what one thread's step does to the shared words and to the thread's own
contribution) combined with `countP_set_add` / `sum_map_set_add`.
-/
namespace Um.Barrier
open Lists

/-! ## executions -/

/-- `Exec s tr s'`: `s'` is reached from `s` by the steps listed in `tr` (thread, observable) -/
inductive Exec : State → List (Tid × Obs) → State → Prop
  | nil (s : State) : Exec s [] s
  | snoc {s s' s'' : State} {tr : List (Tid × Obs)} {t : Tid} {o : Obs} :
      Exec s tr s' → step? s' t = some (s'', o) → Exec s (tr ++ [(t, o)]) s''

/-- an execution all of whose steps start in a state satisfying `P` -/
inductive ExecWhile (P : State → Prop) : State → List (Tid × Obs) → State → Prop
  | nil (s : State) : ExecWhile P s [] s
  | snoc {s s' s'' : State} {tr : List (Tid × Obs)} {t : Tid} {o : Obs} :
      ExecWhile P s tr s' → P s' → step? s' t = some (s'', o) →
      ExecWhile P s (tr ++ [(t, o)]) s''

theorem Exec.trans {s s' s'' : State} {tr tr'} (h1 : Exec s tr s') (h2 : Exec s' tr' s'') :
    Exec s (tr ++ tr') s'' := by
  induction h2 with
  | nil => simpa using h1
  | snoc _ hs ih => rw [← List.append_assoc]; exact Exec.snoc ih hs

theorem ExecWhile.toExec {P s tr s'} (h : ExecWhile P s tr s') : Exec s tr s' := by
  induction h with
  | nil => exact Exec.nil _
  | snoc _ _ hs ih => exact Exec.snoc ih hs

theorem runSched_exec : ∀ (l : List Tid) (s s' : State) (tr : List (Tid × Obs)),
    runSched s l = some (s', tr) → Exec s tr s'
  | [], s, s', tr, h => by
    simp [runSched] at h; obtain ⟨rfl, rfl⟩ := h; exact Exec.nil _
  | t :: ts, s, s', tr, h => by
    unfold runSched at h
    split at h
    · simp at h
    · rename_i st1 o hs
      split at h
      · simp at h
      · rename_i st2 tr2 hr
        simp at h; obtain ⟨rfl, rfl⟩ := h
        have h1 : Exec s ([] ++ [(t, o)]) st1 := Exec.snoc (Exec.nil s) hs
        have := Exec.trans h1 (runSched_exec ts st1 st2 tr2 hr)
        simpa using this

theorem step?_cases {st t st' o} (h : step? st t = some (st', o)) :
    (∃ i s sh' s', t = .s i ∧ st.senders[i]? = some s ∧ stepS st.sh i s = some (sh', s', o) ∧
        st' = { sh := sh', senders := st.senders.set i s', ctrls := st.ctrls }) ∨
    (∃ j c sh' c', t = .c j ∧ st.ctrls[j]? = some c ∧ stepC st.sh c = some (sh', c', o) ∧
        st' = { sh := sh', senders := st.senders, ctrls := st.ctrls.set j c' }) := by
  unfold step? at h
  split at h
  · rename_i i
    split at h
    · simp at h
    · rename_i s hs
      split at h
      · simp at h
      · rename_i sh' s' o' hst
        simp at h; obtain ⟨rfl, rfl⟩ := h
        exact Or.inl ⟨i, s, sh', s', rfl, hs, hst, rfl⟩
  · rename_i j
    split at h
    · simp at h
    · rename_i c hc
      split at h
      · simp at h
      · rename_i sh' c' o' hst
        simp at h; obtain ⟨rfl, rfl⟩ := h
        exact Or.inr ⟨j, c, sh', c', rfl, hc, hst, rfl⟩

/-! ## per-thread measures -/

/-- contribution of a sender to `running_cmd` -/
def hold : SPc → Int
  | .refInc => 0 | .load1 => 1 | .ctrInc => 1 | .hand => 2 | .ctrDecErr => 2
  | .refDecOk => 2 | .refDecErr => 1 | .refDecRetry => 1 | .refDecQ => 1
  | .push => 0 | .load2 => 0 | .pop => 0 | .redisp _ => 0 | .reply => 1 | .fin _ => 0

theorem hold_nonneg (p : SPc) : 0 ≤ hold p := by cases p <;> simp [hold]

/-- a thread that will look at the queue again before it finishes -/
def armedS : SPc → Bool
  | .load2 => true | .pop => true | .redisp _ => true | _ => false
def armedC : CPc → Bool
  | .pop => true | .redisp _ => true | _ => false
/-- inside `release_all` -/
def relS : SPc → Bool
  | .pop => true | .redisp _ => true | _ => false
/-- holding task `u` between `try_recv` and the re-dispatch -/
def holdsS (u : Nat) : SPc → Bool
  | .redisp v => v == u | _ => false
def holdsC (u : Nat) : CPc → Bool
  | .redisp v => v == u | _ => false
/-- decided "not blocking", inner sender not yet called -/
def inHand : SPc → Bool
  | .ctrInc => true | .hand => true | _ => false
/-- took the not-blocking branch -/
def passed : SPc → Bool
  | .ctrInc => true | .hand => true | .ctrDecErr => true | .refDecOk => true | .refDecErr => true
  | .reply => true | .fin .okHanded => true | .fin .errInner => true | _ => false

def Obs.isHanded : Obs → Bool
  | .handed _ _ => true | _ => false
def Obs.isHandedOf (i : Nat) : Obs → Bool
  | .handed j _ => j == i | _ => false
def Obs.isHandedOkOf (i : Nat) : Obs → Bool
  | .handed j true => j == i | _ => false
def Obs.isRedisp (u : Nat) : Obs → Bool
  | .redisp v => v == u | _ => false
def Obs.isAnyRedisp : Obs → Bool
  | .redisp _ => true | _ => false
def Obs.isEnq (u : Nat) : Obs → Bool
  | .enq v => v == u | _ => false
def Obs.isRet (r : Ret) : Obs → Bool
  | .ret r' => r' == r | _ => false

/-- expected number of `handed i` / `handed i ok` / `enq i` / `ret r` events of sender `i` -/
def handedOf : SPc → Nat
  | .ctrDecErr => 1 | .refDecOk => 1 | .refDecErr => 1 | .reply => 1
  | .fin .okHanded => 1 | .fin .errInner => 1 | _ => 0
def handedOkOf : SPc → Nat
  | .refDecOk => 1 | .reply => 1 | .fin .okHanded => 1 | _ => 0
def enqOf : SPc → Nat
  | .load2 => 1 | .pop => 1 | .redisp _ => 1 | .fin .okQueued => 1 | _ => 0
def retOf (r : Ret) : SPc → Nat
  | .reply => b2n (Ret.okHanded == r) | .fin r' => b2n (r' == r) | _ => 0

/-! ## local lemmas: sender steps -/

theorem stepS_attr {sh i s sh' s' o} (h : stepS sh i s = some (sh', s', o)) :
    s'.hint = s.hint ∧ s'.innerOk = s.innerOk := by
  unfold stepS at h
  grind

theorem stepS_running {sh i s sh' s' o} (h : stepS sh i s = some (sh', s', o)) :
    sh'.running + hold s.pc = sh.running + hold s'.pc := by
  unfold stepS at h
  grind [hold]

theorem stepS_word {sh i s sh' s' o} (h : stepS sh i s = some (sh', s', o)) :
    sh'.count = sh.count ∧ sh'.term = sh.term := by
  unfold stepS at h
  grind

theorem stepS_queue {sh i s sh' s' o} (u : Nat) (h : stepS sh i s = some (sh', s', o)) :
    sh'.queue.count u + b2n (holdsS u s'.pc) + b2n (o.isRedisp u)
      = sh.queue.count u + b2n (holdsS u s.pc) + b2n (o.isEnq u) := by
  unfold stepS at h
  grind [holdsS, Obs.isRedisp, Obs.isEnq, b2n]

theorem stepS_armed {sh i s sh' s' o} (h : stepS sh i s = some (sh', s', o)) :
    (armedS s'.pc = true ∨ sh'.queue = [] ∨ sh'.count > 0) ∨
    (armedS s.pc = false ∧ sh'.queue = sh.queue ∧ sh'.count = sh.count) := by
  unfold stepS at h
  grind [armedS]

theorem stepS_closed {sh i s sh' s' o} (h : stepS sh i s = some (sh', s', o))
    (hc : sh.count > 0) (hs : inHand s.pc = false) :
    inHand s'.pc = false ∧ o.isHanded = false := by
  unfold stepS at h
  grind [inHand, Obs.isHanded]

theorem stepS_rel {sh i s sh' s' o} (h : stepS sh i s = some (sh', s', o))
    (hc : sh.count > 0) (hs : relS s.pc = false) :
    relS s'.pc = false ∧ o.isAnyRedisp = false := by
  unfold stepS at h
  grind [relS, Obs.isAnyRedisp]

theorem stepS_passed {sh i s sh' s' o} (h : stepS sh i s = some (sh', s', o))
    (hp : passed s'.pc = true) :
    passed s.pc = true ∨ (sh.count = 0 ∧ hintBlocks s.hint sh.term = false) := by
  unfold stepS at h
  grind [passed]

theorem stepS_trace {sh i s sh' s' o} (h : stepS sh i s = some (sh', s', o)) :
    handedOf s'.pc = handedOf s.pc + b2n (o.isHandedOf i) ∧
    handedOkOf s'.pc = handedOkOf s.pc + b2n (o.isHandedOkOf i) ∧
    enqOf s'.pc = enqOf s.pc + b2n (o.isEnq i) ∧
    (∀ r, retOf r s'.pc = retOf r s.pc + b2n (o.isRet r)) := by
  unfold stepS at h
  grind [handedOf, handedOkOf, enqOf, retOf, Obs.isHandedOf, Obs.isHandedOkOf, Obs.isEnq, Obs.isRet, b2n]

theorem stepS_other {sh i s sh' s' o} (h : stepS sh i s = some (sh', s', o)) (k : Nat)
    (hk : k ≠ i) :
    o.isHandedOf k = false ∧ o.isHandedOkOf k = false ∧ o.isEnq k = false := by
  unfold stepS at h
  grind [Obs.isHandedOf, Obs.isHandedOkOf, Obs.isEnq]

theorem handedOf_le_passed (p : SPc) : handedOf p ≠ 0 → passed p = true := by
  unfold handedOf passed; grind

/-! ## local lemmas: controller steps -/

theorem next_pc (held : Bool) (p : List Cmd) :
    (next held p).1 = .fin ∨ (next held p).1 = .casLoad ∨ (next held p).1 = .doneLoad ∨
    (next held p).1 = .doneLoadW ∨ (next held p).1 = .pop := by
  fun_induction next held p <;> simp_all

theorem next_nostop (held : Bool) (p : List Cmd) (h : p.contains .stop = false) :
    (next held p).1 ≠ .pop ∧ (next held p).2.contains .stop = false := by
  fun_induction next held p <;> simp_all

theorem advance_held (c : Ctrl) (h : Bool) : (advance c h).held = h := rfl

theorem advance_holds (c : Ctrl) (h : Bool) (u : Nat) : holdsC u (advance c h).pc = false := by
  have := next_pc h c.prog
  unfold advance holdsC
  grind

/-- not in `release_all` and no `stop_blocking` left in the program -/
def quietC (c : Ctrl) : Bool := !(armedC c.pc) && !(c.prog.contains .stop)

theorem advance_quiet (c : Ctrl) (h : Bool) (hq : c.prog.contains .stop = false) :
    quietC (advance c h) = true := by
  have h1 := next_nostop h c.prog hq
  have h2 := next_pc h c.prog
  unfold quietC advance armedC
  grind

theorem stepC_running {sh c sh' c' o} (h : stepC sh c = some (sh', c', o)) :
    sh'.running = sh.running := by
  unfold stepC at h
  grind

theorem stepC_count {sh c sh' c' o} (h : stepC sh c = some (sh', c', o))
    (hh : c.held = true → 1 ≤ sh.count ∧ sh.count < U32)
    (hn : c.held = false → sh.count + 1 < U32) :
    sh'.count + b2n c.held = sh.count + b2n c'.held := by
  unfold stepC at h
  unfold U32 at *
  grind [advance_held, b2n]

theorem stepC_queue {sh c sh' c' o} (u : Nat) (h : stepC sh c = some (sh', c', o)) :
    sh'.queue.count u + b2n (holdsC u c'.pc) + b2n (o.isRedisp u)
      = sh.queue.count u + b2n (holdsC u c.pc) + b2n (o.isEnq u) := by
  unfold stepC at h
  grind [holdsC, Obs.isRedisp, Obs.isEnq, b2n, advance_holds]

theorem stepC_armed {sh c sh' c' o} (h : stepC sh c = some (sh', c', o)) (hb : sh.count < U32)
    (hn : c.held = false → sh.count + 1 < U32) :
    (armedC c'.pc = true ∨ sh'.queue = [] ∨ sh'.count > 0) ∨
    (armedC c.pc = false ∧ sh'.queue = sh.queue ∧ sh'.count = sh.count) := by
  unfold stepC at h
  unfold U32 at *
  grind [armedC]

theorem stepC_obs {sh c sh' c' o} (h : stepC sh c = some (sh', c', o)) :
    o.isHanded = false ∧ (∀ k, o.isHandedOf k = false ∧ o.isHandedOkOf k = false ∧
      o.isEnq k = false) ∧ (∀ r, o.isRet r = false) := by
  unfold stepC at h
  grind [Obs.isHanded, Obs.isHandedOf, Obs.isHandedOkOf, Obs.isEnq, Obs.isRet]

theorem stepC_polled {sh c sh' c' o b} (h : stepC sh c = some (sh', c', o))
    (ho : o = .polled b) : sh' = sh ∧ (b = true ↔ sh.running = 0) := by
  unfold stepC at h
  grind

theorem stepC_quiet {sh c sh' c' o} (h : stepC sh c = some (sh', c', o))
    (_hc : sh.count > 0) (_hb : sh.count < U32) (hq : quietC c = true) :
    o.isAnyRedisp = false ∧ (sh'.count > 0 → quietC c' = true) := by
  unfold stepC at h
  unfold U32 at *
  have ha := fun h => advance_quiet c h
  unfold quietC at hq
  grind [quietC, armedC, Obs.isAnyRedisp]

end Um.Barrier
