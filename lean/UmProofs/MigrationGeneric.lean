import UmProofs.MigrationInv
/-!
C03: generic preservation lemmas.  A step changes one actor's control state and has one of three
effects on the two Redis nodes (`Eff`): nothing; the source copy is deleted while the value is
already `Moved`; a RESTORE materialises the source value on an empty destination.
-/
namespace Um.Mig

/-- effects of migration-internal backend commands on the two nodes -/
def Eff (s : Sys) (src' dst' : Option Val) : Prop :=
  (src' = s.src ∧ dst' = s.dst) ∨
  (src' = none ∧ dst' = s.dst ∧ Moved s) ∨
  (∃ v, s.dst = none ∧ s.src = some v ∧ dst' = some v ∧ src' = s.src)

theorem eff_logical {s : Sys} {src' dst' : Option Val} (h : Eff s src' dst') :
    dst'.orElse (fun _ => src') = logical s := by
  unfold logical
  rcases h with ⟨h1, h2⟩ | ⟨h1, h2, h3⟩ | ⟨v, h1, h2, h3, h4⟩
  · rw [h1, h2]
  · rw [h1, h2]
    rcases h3 with h3 | h3
    · cases hd : s.dst <;> simp [hd] at h3 ⊢
    · simp [h3]
  · rw [h3, h4, h1, h2]; rfl

theorem eff_moved {s : Sys} {src' dst' : Option Val} (h : Eff s src' dst') (hm : Moved s) :
    dst'.isSome = true ∨ src' = none := by
  unfold Moved at *
  rcases h with ⟨h1, h2⟩ | ⟨h1, h2, h3⟩ | ⟨v, h1, h2, h3, h4⟩
  · rw [h1, h2]; exact hm
  · exact Or.inr h1
  · rw [h3]; exact Or.inl rfl

theorem eff_src_none {s : Sys} {src' dst' : Option Val} (h : Eff s src' dst') (hm : s.src = none) : src' = none := by
  rcases h with ⟨h1, h2⟩ | ⟨h1, h2, h3⟩ | ⟨v, h1, h2, h3, h4⟩
  · rw [h1]; exact hm
  · exact h1
  · rw [h4]; exact hm

/-- the key-lock holder moves on -/
theorem ginv_crit {s : Sys} {k : Crit} {pc : CritPc} {src' dst' : Option Val} (hG : GInv s) (hk : s.crit = some k)
    (heff : Eff s src' dst')
    (hheld : ∀ v, pc.held = some v → src' = some v ∨ dst'.isSome = true)
    (hdel : pc.delPending = true → dst'.isSome = true ∨ src' = none)
    (hgone : pc.srcGone = true → src' = none)
    (hfast : pc.isFast = true → s.scan = .idle)
    (hsync : pc.isSyncGot = true → s.scan.held = none)
    (hslow : s.scan ≠ .idle → scanLocked s.scan = false → pc = .uSlow)
    (hdt : s.dstTask = false → pc.held = none)
    (hpull : pc ≠ .tail → k.pc ≠ .tail ∧ (pc.isPull = true → k.pc.isPull = true)) :
    GInv { s with src := src', dst := dst', crit := some { id := k.id, pc := pc } } := by
  obtain ⟨a1, a2, a3a, a3b, a4a, a4b, a5a, a5b, a6, b1, b2, b2', b3a, b3b, b4a, b4b, b4c, b5a, b5b, b6a, b6b, b7, b8, g8, g9⟩ := hG
  unfold Eff at heff
  constructor <;> (simp only [critDump, Moved] at * ; mig_grind)

/-- the scan actor moves on -/
theorem ginv_scan {s : Sys} {sc : ScanPc} {src' dst' : Option Val} (hG : GInv s)
    (heff : Eff s src' dst')
    (hheld : ∀ v, sc.held = some v → src' = some v ∨ dst'.isSome = true)
    (hdel : sc.delPending = true → dst'.isSome = true ∨ src' = none)
    (hgone : sc.srcGone = true → src' = none)
    (hfast : ∀ k, s.crit = some k → k.pc.isFast = true → sc = .idle)
    (hslow : sc ≠ .idle → scanLocked sc = false → ∃ k, s.crit = some k ∧ k.pc = .uSlow)
    (hsync : ∀ k, s.crit = some k → k.pc.isSyncGot = true → sc.held = none)
    (hrank : sc ≠ .idle → srcRank s.srcSt = 3) (hpre : s.dstSt ≠ .preCheck) :
    GInv { s with src := src', dst := dst', scan := sc } := by
  obtain ⟨a1, a2, a3a, a3b, a4a, a4b, a5a, a5b, a6, b1, b2, b2', b3a, b3b, b4a, b4b, b4c, b5a, b5b, b6a, b6b, b7, b8, g8, g9⟩ := hG
  unfold Eff at heff
  constructor <;> (simp only [critDump, Moved] at * ; mig_grind)

/-- a `DEL key` of a finished pull is sent / executed -/
theorem ginv_aux {s : Sys} {n : Nat} {src' dst' : Option Val} (hG : GInv s)
    (heff : Eff s src' dst')
    (hn : 0 < n → (dst'.isSome = true ∨ src' = none)) (hpre : s.dstSt ≠ .preCheck) :
    GInv { s with src := src', dst := dst', auxDel := n } := by
  obtain ⟨a1, a2, a3a, a3b, a4a, a4b, a5a, a5b, a6, b1, b2, b2', b3a, b3b, b4a, b4b, b4c, b5a, b5b, b6a, b6b, b7, b8, g8, g9⟩ := hG
  unfold Eff at heff
  constructor <;> (simp only [critDump, Moved] at * ; mig_grind)

/-- the key lock is released -/
theorem ginv_unlock {s : Sys} {n : Nat} (hG : GInv s)
    (hslow : s.scan ≠ .idle → scanLocked s.scan = true)
    (hn : 0 < n → Moved s ∧ s.dstSt ≠ .preCheck) :
    GInv { s with crit := none, auxDel := n } := by
  obtain ⟨a1, a2, a3a, a3b, a4a, a4b, a5a, a5b, a6, b1, b2, b2', b3a, b3b, b4a, b4b, b4c, b5a, b5b, b6a, b6b, b7, b8, g8, g9⟩ := hG
  constructor <;> (simp only [critDump, Moved] at * ; mig_grind)

/-- only the op list changes -/
theorem ginv_ops {s : Sys} {ops' : List Op} (hG : GInv s)
    (g8 : ∀ k, s.crit = some k → k.pc ≠ .tail →
        ∀ o ∈ ops', o.id = k.id → o.pc = .inCrit ∧ (k.pc.isPull = true → o.cmd.blocking = false)) :
    GInv { s with ops := ops' } := by
  obtain ⟨a1, a2, a3a, a3b, a4a, a4b, a5a, a5b, a6, b1, b2, b2', b3a, b3b, b4a, b4b, b4c, b5a, b5b, b6a, b6b, b7, b8, _, g9⟩ := hG
  constructor <;> first | exact g8 | (simp only [critDump, Moved] at * ; mig_grind)

/-- ops are indifferent to internal effects as long as no new dump appears behind a deleting command -/
theorem oinv_eff {s s' : Sys} (hO : OInv s) (hops : s'.ops = s.ops)
    (hn : s.nextId ≤ s'.nextId)
    (hst : (∃ o ∈ s.ops, o.pc = .direct .src) → srcRank s.srcSt ≤ 1 → srcRank s'.srcSt ≤ 1)
    (hdt : s.dstTask = false → s'.dstTask = false) (hds : s.dstSt ≠ .preCheck → s'.dstSt ≠ .preCheck)
    (heff : Eff s s'.src s'.dst)
    (hcd : s.src = none → critDump s = none → critDump s' = none)
    (hsd : s.src = none → s.scan.held = none → s'.scan.held = none) : OInv s' := by
  intro o ho
  rw [hops] at ho
  refine opOk_frame (hO o ho) hn (fun hpc => hst ⟨o, ho, hpc⟩) hdt hds
    (fun hm => eff_moved heff hm) (fun h => eff_src_none heff h) hcd hsd

theorem eff_refl (s : Sys) : Eff s s.src s.dst := Or.inl ⟨rfl, rfl⟩

end Um.Mig
