import UmProofs.ProtoCompact
/-!
The index-level loop of `RangeList::compact` (two cursors `a < b` into the vector, in-place
writes, two `expect`s) with the `expect` failures as an explicit result, and its equivalence
with the functional `mergeLoop`: the `expect`s never fire.
-/
namespace Um.Proto
open Um

theorem compactLoop_inv : ∀ (rest pre junk : List Range) (cur : Range) (fuel : Nat), rest.length < fuel →
    compactLoop fuel (pre ++ cur :: (junk ++ rest)) pre.length (pre.length + 1 + junk.length) =
      some (pre ++ mergeLoop cur rest) := by
  intro rest
  induction rest with
  | nil =>
    intro pre junk cur fuel hf
    cases fuel with
    | zero => simp at hf
    | succ fuel =>
      simp only [List.append_nil]
      have hb : (pre ++ cur :: junk)[pre.length + 1 + junk.length]? = none := by
        rw [List.getElem?_eq_none_iff]; simp; omega
      simp only [compactLoop, hb, mergeLoop]
      rw [show pre ++ cur :: junk = (pre ++ [cur]) ++ junk from by simp,
        show pre.length + 1 = (pre ++ [cur]).length from by simp, List.take_left']
      rfl
  | cons e rest ih =>
    intro pre junk cur fuel hf
    cases fuel with
    | zero => simp at hf
    | succ fuel =>
      have hb : (pre ++ cur :: (junk ++ e :: rest))[pre.length + 1 + junk.length]? = some e := by
        rw [List.getElem?_append_right (by omega)]
        have : pre.length + 1 + junk.length - pre.length = junk.length + 1 := by omega
        rw [this, List.getElem?_cons_succ, List.getElem?_append_right (by omega)]
        simp
      have ha : (pre ++ cur :: (junk ++ e :: rest))[pre.length]? = some cur := by
        rw [List.getElem?_append_right (by omega)]; simp
      simp only [compactLoop, hb, ha, mergeLoop]
      split
      · -- merge into the element at `a`
        have hset : (pre ++ cur :: (junk ++ e :: rest)).set pre.length ⟨cur.s, max cur.e e.e⟩ =
            pre ++ ⟨cur.s, max cur.e e.e⟩ :: ((junk ++ [e]) ++ rest) := by
          rw [List.set_append_right _ _ (by omega)]; simp
        rw [hset]
        have := ih pre (junk ++ [e]) ⟨cur.s, max cur.e e.e⟩ fuel (by simp at hf; omega)
        simp only [List.length_append, List.length_cons, List.length_nil] at this
        rw [show pre.length + 1 + junk.length + 1 = pre.length + 1 + (junk.length + 0 + 1) from by omega]
        exact this
      · -- move on: write `e` at `a + 1`
        have hlen : pre.length + 1 < (pre ++ cur :: (junk ++ e :: rest)).length := by simp; omega
        simp only [hlen, if_true]
        cases junk with
        | nil =>
          have hset : (pre ++ cur :: ([] ++ e :: rest)).set (pre.length + 1) e = (pre ++ [cur]) ++ e :: ([] ++ rest) := by
            rw [List.set_append_right _ _ (by omega)]; simp
          rw [hset]
          have := ih (pre ++ [cur]) [] e fuel (by simp at hf; omega)
          simp only [List.length_append, List.length_cons, List.length_nil] at this
          simp only [List.length_nil, Nat.add_zero]
          rw [this]; simp
        | cons j js =>
          have hset : (pre ++ cur :: ((j :: js) ++ e :: rest)).set (pre.length + 1) e =
              (pre ++ [cur]) ++ e :: ((js ++ [e]) ++ rest) := by
            rw [List.set_append_right _ _ (by omega)]; simp
          rw [hset]
          have := ih (pre ++ [cur]) (js ++ [e]) e fuel (by simp at hf; omega)
          simp only [List.length_append, List.length_cons, List.length_nil] at this
          simp only [List.length_cons]
          rw [show pre.length + 1 + (js.length + 1) + 1 = pre.length + (0 + 1) + 1 + (js.length + (0 + 1)) from by omega]
          rw [this]; simp

/-- **the `expect`s of `RangeList::compact` never fire**, and the loop computes `compact` -/
theorem compactIdx_eq (l : List Range) : compactIdx l = some (compact l) := by
  unfold compactIdx compact
  cases h : sortByStart (l.map Range.swapped) with
  | nil => simp [compactLoop]
  | cons x xs =>
    have := compactLoop_inv xs [] [] x ((x :: xs).length + 1) (by simp only [List.length_cons]; omega)
    simpa using this

end Um.Proto
