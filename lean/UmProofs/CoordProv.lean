import UmProofs.CoordFF
/-!
# C07 — provenance: every `SETREPL` / `SETCLUSTER` a round delivers carries a view the broker served

`ProvOk s c`: if `c` is a set-call, its payload is in the ghost log `s.served` (the replies of
earlier `get_proxy` calls).  `StepP` = a delivered call with `ProvOk`, or a change of the bag that
keeps `BagProv` (every delayed set-call has a served payload).  All round functions move along
`ReachP` under every fault plan: they only ever send what a `get_proxy` reply contained.
-/
namespace Um.Coord
open Um Um.Broker

def ServedC (s : Sys) (a : String) (e : Nat) (m : CMeta) : Prop := ∃ x ∈ s.served, x.addr = a ∧ x.epoch = e ∧ x.cm = m
def ServedR (s : Sys) (a : String) (e : Nat) (r : RMeta) : Prop := ∃ x ∈ s.served, x.addr = a ∧ x.epoch = e ∧ x.rm = r

def ProvOk (s : Sys) : Call → Prop
  | .setRepl a e r => ServedR s a e r
  | .setCluster a e m => ServedC s a e m
  | _ => True

def BagProv (s : Sys) : Prop := ∀ e ∈ s.bag, ProvOk s e.2

/-- the ghost log only grows -/
def Grows (s t : Sys) : Prop := ∀ x ∈ s.served, x ∈ t.served

theorem Grows.refl (s : Sys) : Grows s s := fun _ h => h
theorem Grows.trans {s t u : Sys} (h1 : Grows s t) (h2 : Grows t u) : Grows s u := fun x h => h2 x (h1 x h)

theorem ProvOk.mono {s t : Sys} (h : Grows s t) {c : Call} (hp : ProvOk s c) : ProvOk t c := by
  cases c <;> try exact trivial
  · obtain ⟨x, hx, h1⟩ := hp; exact ⟨x, h x hx, h1⟩
  · obtain ⟨x, hx, h1⟩ := hp; exact ⟨x, h x hx, h1⟩

theorem exec_grows (s : Sys) (c : Call) (ch : String) : Grows s (exec s c ch).1 := by
  cases c with
  | clusterNames off => exact Grows.refl s
  | cluster name => simp only [exec]; split <;> exact Grows.refl s
  | proxyAddrs off => exact Grows.refl s
  | failedProxies => exact Grows.refl s
  | getProxy a =>
    simp only [exec]
    split
    · intro x hx; exact List.mem_append_left _ hx
    · exact Grows.refl s
    · exact Grows.refl s
  | addFailure a r => exact Grows.refl s
  | getFailures => exact Grows.refl s
  | replaceProxy a => simp only [exec]; split <;> exact Grows.refl s
  | commit t =>
    simp only [exec]
    split
    · exact Grows.refl s
    · split
      · exact Grows.refl s
      · split <;> exact Grows.refl s
    · exact Grows.refl s
  | connect a =>
    simp only [exec]
    split
    · split <;> exact Grows.refl s
    · exact Grows.refl s
  | setRepl a e r =>
    simp only [exec]
    split
    · split <;> exact Grows.refl s
    · exact Grows.refl s
  | setCluster a e m =>
    simp only [exec]
    split
    · split <;> exact Grows.refl s
    · exact Grows.refl s
  | infoMgr a =>
    simp only [exec]
    split
    · split <;> exact Grows.refl s
    · exact Grows.refl s
  | ping a =>
    simp only [exec]
    split
    · split <;> exact Grows.refl s
    · exact Grows.refl s

inductive StepP : Sys → Sys → Prop where
  | exec (s : Sys) (c : Call) (ch : String) : ProvOk s c → StepP s (exec s c ch).1
  | bag (s : Sys) (b : List (Nat × Call)) : StepP s { s with bag := b }

inductive ReachP : Sys → Sys → Prop where
  | refl (s : Sys) : ReachP s s
  | tail {s t u : Sys} : ReachP s t → StepP t u → ReachP s u

theorem ReachP.trans {s t u : Sys} (h1 : ReachP s t) (h2 : ReachP t u) : ReachP s u := by
  induction h2 with
  | refl => exact h1
  | tail _ hs ih => exact ReachP.tail ih hs

theorem ReachP.single {s t : Sys} (h : StepP s t) : ReachP s t := ReachP.tail (ReachP.refl s) h

theorem stepP_grows {s t : Sys} (h : StepP s t) : Grows s t := by
  cases h with
  | exec c ch _ => exact exec_grows s c ch
  | bag b => exact Grows.refl s

theorem reachP_grows {s t : Sys} (h : ReachP s t) : Grows s t := by
  induction h with
  | refl => exact Grows.refl _
  | tail _ hs ih => exact ih.trans (stepP_grows hs)

theorem ReachP.toReach {s t : Sys} (h : ReachP s t) : Reach s t := by
  induction h with
  | refl => exact Reach.refl _
  | tail _ hs ih =>
    cases hs with
    | exec c ch _ => exact Reach.tail ih (Step.exec _ c ch)
    | bag b => exact Reach.tail ih (Step.bag _ b)

/-! ## the fault layer -/

/-- what every piece of a round guarantees: it moves along `ReachP` and keeps the bag served -/
structure Good (s t : Sys) : Prop where
  reach : ReachP s t
  bag : BagProv t

theorem Good.trans {s t u : Sys} (h1 : Good s t) (h2 : Good t u) : Good s u := ⟨h1.reach.trans h2.reach, h2.bag⟩

def HookOkP (hk : Hook) : Prop := ∀ k s, BagProv s → Good s (hk k s).1

theorem noHook_okP : HookOkP noHook := fun _ s h => ⟨ReachP.refl s, h⟩

theorem exec_bag_eq (s : Sys) (c : Call) (ch : String) : (exec s c ch).1.bag = s.bag := (exec_static s c ch).1

theorem exec_good (s : Sys) (c : Call) (ch : String) (hb : BagProv s) (hp : ProvOk s c) : Good s (exec s c ch).1 := by
  refine ⟨ReachP.single (StepP.exec s c ch hp), ?_⟩
  intro e he
  rw [exec_bag_eq] at he
  exact (hb e he).mono (exec_grows s c ch)

theorem deliver_good (st : RS) (tag : String) (c : Call) (hb : BagProv st.sys) (hp : ProvOk st.sys c) :
    Good st.sys (st.deliver tag c).1.sys := by
  unfold RS.deliver
  simp only [log_sys]
  exact exec_good _ _ _ hb hp

theorem foldl_deliver_good (l : List Call) (st : RS) (hb : BagProv st.sys) (hl : ∀ c ∈ l, ProvOk st.sys c) :
    Good st.sys (l.foldl (fun st c => (st.deliver "late" c).1) st).sys := by
  induction l generalizing st with
  | nil => exact ⟨ReachP.refl _, hb⟩
  | cons c cs ih =>
    have g1 := deliver_good st "late" c hb (hl c List.mem_cons_self)
    have g2 := ih (st.deliver "late" c).1 g1.bag
      (fun x hx => (hl x (List.mem_cons_of_mem _ hx)).mono (reachP_grows g1.reach))
    exact g1.trans g2

theorem tick_good (st : RS) (hb : BagProv st.sys) : Good st.sys st.tick.sys := by
  unfold RS.tick
  dsimp only
  have hb1 : BagProv { st.sys with bag := (st.sys.bag.filter (·.1 != 0)).map fun e => (e.1 - 1, e.2) } := by
    intro e he
    simp only [List.mem_map, List.mem_filter] at he
    obtain ⟨e0, ⟨he0, _⟩, rfl⟩ := he
    exact hb e0 he0
  have g0 : Good st.sys { st.sys with bag := (st.sys.bag.filter (·.1 != 0)).map fun e => (e.1 - 1, e.2) } :=
    ⟨ReachP.single (StepP.bag st.sys _), hb1⟩
  refine g0.trans (foldl_deliver_good _
    { st with sys := { st.sys with bag := (st.sys.bag.filter (·.1 != 0)).map fun e => (e.1 - 1, e.2) } } hb1 ?_)
  intro c hc
  simp only [List.mem_map, List.mem_filter] at hc
  obtain ⟨e0, ⟨he0, _⟩, rfl⟩ := hc
  exact hb e0 he0

theorem call_good {hk : Hook} (hhk : HookOkP hk) (st : RS) (c : Call) (hb : BagProv st.sys)
    (hp : ProvOk st.sys c) : Good st.sys (st.call hk c).1.sys := by
  unfold RS.call
  split
  · exact ⟨ReachP.refl _, hb⟩
  · dsimp only
    have h1 : Good st.sys (hk st.n st.sys).1 := hhk st.n st.sys hb
    split
    · exact h1
    · generalize hX : ({ st with sys := (hk st.n st.sys).1, trace := (hk st.n st.sys).2.reverse ++ st.trace, issued := st.issued ++ [c] } : RS) = X
      have hXs : X.sys = (hk st.n st.sys).1 := by rw [← hX]
      have h1' : Good st.sys X.sys := by rw [hXs]; exact h1
      have h2 : Good st.sys ({ X.tick with n := st.n + 1 } : RS).sys := h1'.trans (tick_good X h1'.bag)
      have hp2 : ProvOk ({ X.tick with n := st.n + 1 } : RS).sys c := hp.mono (reachP_grows h2.reach)
      split
      · exact h2.trans (deliver_good _ _ c h2.bag hp2)
      · exact h2
      · exact h2.trans (deliver_good _ _ c h2.bag hp2)
      · have g3 := deliver_good ({ X.tick with n := st.n + 1 } : RS) (toString st.n) c h2.bag hp2
        exact (h2.trans g3).trans (deliver_good _ _ c g3.bag (hp2.mono (reachP_grows g3.reach)))
      · refine h2.trans ⟨ReachP.single (StepP.bag _ _), ?_⟩
        intro e he
        rcases List.mem_append.mp he with he | he
        · exact h2.bag e he
        · simp only [List.mem_singleton] at he; subst he; exact hp2
      · exact h2


/-! ## a `get_proxy` reply is served -/

theorem proxyView_address' {s : Store} {a : String} {l : Nat} {v : VProxy}
    (h : proxyView s a l = R.ok (some v)) : v.address = a := by
  unfold proxyView at h
  split at h
  · cases h
  · split at h
    · have : some _ = some v := R.ok.inj h
      cases this; rfl
    · cases h1 : limitMigration _ l with
      | ok lc =>
        rw [h1] at h
        cases h2 : clusterStoreToCluster lc with
        | ok vc =>
          simp only [h2, bind] at h
          have : some _ = some v := R.ok.inj h
          cases this; rfl
        | err e => simp only [h2, bind] at h; cases h
        | panic w => simp only [h2, bind] at h; cases h
        | badChoice w => simp only [h2, bind] at h; cases h
      | err e => rw [h1] at h; cases h
      | panic w => rw [h1] at h; cases h
      | badChoice w => rw [h1] at h; cases h

theorem exec_getProxy_served {s : Sys} {a ch : String} {v : VProxy}
    (h : (exec s (.getProxy a) ch).2 = .proxy (some v)) :
    ServedC (exec s (.getProxy a) ch).1 v.address v.epoch (mkCMeta (exec s (.getProxy a) ch).1.compress v) ∧
    ServedR (exec s (.getProxy a) ch).1 v.address v.epoch (mkRMeta v) := by
  simp only [exec] at h ⊢
  split at h
  · rename_i w hw
    have : w = v := by injection h with h1; injection h1
    subst this
    have ha := proxyView_address' hw
    simp only [hw]
    exact ⟨⟨_, List.mem_append_right _ (List.mem_singleton.mpr rfl), ha.symm, rfl, rfl⟩,
      ⟨_, List.mem_append_right _ (List.mem_singleton.mpr rfl), ha.symm, rfl, rfl⟩⟩
  · cases h
  · cases h

theorem served_mono {s t : Sys} (hg : Grows s t) (hc : t.compress = s.compress) {v : VProxy}
    (h : ServedC s v.address v.epoch (mkCMeta s.compress v) ∧ ServedR s v.address v.epoch (mkRMeta v)) :
    ServedC t v.address v.epoch (mkCMeta t.compress v) ∧ ServedR t v.address v.epoch (mkRMeta v) := by
  obtain ⟨⟨x, hx, h1⟩, ⟨y, hy, h2⟩⟩ := h
  rw [hc]
  exact ⟨⟨x, hg x hx, h1⟩, ⟨y, hg y hy, h2⟩⟩

theorem call_getProxy_served {hk : Hook} {st : RS} {a : String} {v : VProxy}
    (h : (st.call hk (.getProxy a)).2 = some (.proxy (some v))) :
    ServedC (st.call hk (.getProxy a)).1.sys v.address v.epoch (mkCMeta (st.call hk (.getProxy a)).1.sys.compress v) ∧
    ServedR (st.call hk (.getProxy a)).1.sys v.address v.epoch (mkRMeta v) := by
  obtain ⟨sys, n, faults, choices, crashed, trace, issued⟩ := st
  cases crashed with
  | true => simp [RS.call] at h
  | false =>
    unfold RS.call at h ⊢
    simp only [Bool.false_eq_true, if_false] at h ⊢
    split
    · rename_i hf; simp only [hf] at h; cases h
    · rename_i f hf
      split
      · rename_i hf2
        simp only [hf2] at h
        injection h with h
        unfold RS.deliver at h ⊢
        simp only [log_sys] at h ⊢
        exact exec_getProxy_served h
      · rename_i hf2; simp only [hf2] at h; cases h
      · rename_i hf2; simp only [hf2] at h; cases h
      · rename_i hf2
        simp only [hf2] at h
        injection h with h
        unfold RS.deliver at h ⊢
        simp only [log_sys] at h ⊢
        have := exec_getProxy_served h
        exact served_mono (exec_grows _ _ _) (exec_static _ _ _).2.2.1 this
      · rename_i hf2; simp only [hf2] at h; cases h
      · rename_i hf2; simp only [hf2] at h; cases h


theorem reachP_compress {s t : Sys} (h : ReachP s t) : t.compress = s.compress := by
  induction h with
  | refl => rfl
  | tail _ hs ih =>
    cases hs with
    | exec c ch _ => exact (exec_static _ c ch).2.2.1.trans ih
    | bag b => exact ih

/-! ## the combinators -/

/-- the view `v` has been served (both payloads `send_meta` will build from it) -/
def ServedV (s : Sys) (v : VProxy) : Prop :=
  ServedC s v.address v.epoch (mkCMeta s.compress v) ∧ ServedR s v.address v.epoch (mkRMeta v)

theorem ServedV.mono {s t : Sys} {v : VProxy} (h : ServedV s v) (g : Good s t) : ServedV t v :=
  served_mono (reachP_grows g.reach) (reachP_compress g.reach) h

theorem call_good' {hk : Hook} (hhk : HookOkP hk) (st : RS) (c : Call) (hb : BagProv st.sys)
    (hc : ∀ a e r, c ≠ .setRepl a e r) (hc' : ∀ a e m, c ≠ .setCluster a e m) :
    Good st.sys (st.call hk c).1.sys := by
  apply call_good hhk st c hb
  cases c <;> first | exact trivial | exact absurd rfl (hc _ _ _) | exact absurd rfl (hc' _ _ _)

theorem sendMeta_goodP {hk : Hook} (hhk : HookOkP hk) (st : RS) (v : VProxy) (hb : BagProv st.sys)
    (hv : ServedV st.sys v) : Good st.sys (sendMeta hk st v).1.sys := by
  unfold sendMeta
  dsimp only
  have g0 := call_good' hhk st (.connect v.address) hb (fun _ _ _ h => nomatch h) (fun _ _ _ h => nomatch h)
  split
  · have hv1 := hv.mono g0
    have g1 := call_good hhk (st.call hk (.connect v.address)).1 (.setRepl v.address v.epoch (mkRMeta v)) g0.bag hv1.2
    split
    · have hv2 := hv1.mono g1
      have hc : ((st.call hk (.connect v.address)).1.call hk (.setRepl v.address v.epoch (mkRMeta v))).1.sys.compress
          = st.sys.compress := reachP_compress (g0.trans g1).reach
      have g2 := call_good hhk _ (.setCluster v.address v.epoch (mkCMeta st.sys.compress v)) g1.bag
        (by rw [← hc]; exact hv2.1)
      exact (g0.trans g1).trans g2
    · exact g0.trans g1
  · exact g0

theorem retrieveAndSend_goodP {hk : Hook} (hhk : HookOkP hk) (st : RS) (a : String) (hb : BagProv st.sys) :
    Good st.sys (retrieveAndSend hk st a).1.sys := by
  unfold retrieveAndSend
  dsimp only
  have g0 := call_good' hhk st (.getProxy a) hb (fun _ _ _ h => nomatch h) (fun _ _ _ h => nomatch h)
  split
  · rename_i v hv
    exact g0.trans (sendMeta_goodP hhk _ v g0.bag (call_getProxy_served hv))
  · exact g0
  · exact g0

theorem pagedLoop_goodP {hk : Hook} (hhk : HookOkP hk) (mk : Nat → Call)
    (hmk : ∀ off, (∀ a e r, mk off ≠ .setRepl a e r) ∧ (∀ a e m, mk off ≠ .setCluster a e m))
    (fuel : Nat) (st : RS) (off : Nat) (acc : List String) (hb : BagProv st.sys) :
    Good st.sys (pagedLoop hk mk fuel st off acc).1.sys := by
  induction fuel generalizing st off acc with
  | zero => exact ⟨ReachP.refl _, hb⟩
  | succ n ih =>
    unfold pagedLoop
    dsimp only
    have g0 := call_good' hhk st (mk off) hb (hmk off).1 (hmk off).2
    split
    · split
      · exact g0
      · exact g0.trans (ih _ _ _ g0.bag)
    · exact g0

theorem listFailed_goodP {hk : Hook} (hhk : HookOkP hk) (st : RS) (hb : BagProv st.sys) :
    Good st.sys (listFailed hk st).1.sys := by
  unfold listFailed
  dsimp only
  have g0 := call_good' hhk st .failedProxies hb (fun _ _ _ h => nomatch h) (fun _ _ _ h => nomatch h)
  split <;> exact g0

theorem retrieveProxies_goodP {hk : Hook} (hhk : HookOkP hk) (st : RS) (hb : BagProv st.sys) :
    Good st.sys (retrieveProxies hk st).1.sys := by
  unfold retrieveProxies
  dsimp only
  have g0 := listFailed_goodP hhk st hb
  exact g0.trans (pagedLoop_goodP hhk .proxyAddrs
    (fun _ => ⟨(fun _ _ _ h => nomatch h), (fun _ _ _ h => nomatch h)⟩) _ _ _ _ g0.bag)

theorem foldl_goodP {α : Type} (f : RS → α → RS) (hf : ∀ st a, BagProv st.sys → Good st.sys (f st a).sys)
    (l : List α) (st : RS) (hb : BagProv st.sys) : Good st.sys (l.foldl f st).sys := by
  induction l generalizing st with
  | nil => exact ⟨ReachP.refl _, hb⟩
  | cons a as ih =>
    have g0 := hf st a hb
    exact g0.trans (ih _ g0.bag)

theorem retrieveOrdered_goodP {hk : Hook} (hhk : HookOkP hk) (st : RS) (hb : BagProv st.sys) :
    Good st.sys (retrieveOrdered hk st).1.sys := by
  unfold retrieveOrdered
  dsimp only
  have g0 : Good st.sys (listClusterNames hk st).1.sys := pagedLoop_goodP hhk .clusterNames
    (fun _ => ⟨(fun _ _ _ h => nomatch h), (fun _ _ _ h => nomatch h)⟩) _ _ _ _ hb
  have key : ∀ (l : List String) (x : RS × List String), BagProv x.1.sys → Good x.1.sys
      (l.foldl (fun (acc : RS × List String) name =>
        match (acc.1.call hk (.cluster name)).2 with
        | some (.cluster (some v)) =>
          ((acc.1.call hk (.cluster name)).1, acc.2 ++ (clusterProxyAddrs v).filter fun a => !acc.2.contains a)
        | _ => ((acc.1.call hk (.cluster name)).1, acc.2)) x).1.sys := by
    intro l
    induction l with
    | nil => intro x hx; exact ⟨ReachP.refl _, hx⟩
    | cons name rest ih =>
      intro x hx
      simp only [List.foldl_cons]
      have g := call_good' hhk x.1 (.cluster name) hx (fun _ _ _ h => nomatch h) (fun _ _ _ h => nomatch h)
      split
      · exact g.trans (ih (_, _) g.bag)
      · exact g.trans (ih (_, _) g.bag)
  have g1 := key (listClusterNames hk st).2 ((listClusterNames hk st).1, []) g0.bag
  have g2 := listFailed_goodP hhk _ g1.bag
  have g3 := pagedLoop_goodP hhk .proxyAddrs
    (fun _ => ⟨(fun _ _ _ h => nomatch h), (fun _ _ _ h => nomatch h)⟩) 64 (listFailed hk _).1 0 [] g2.bag
  exact ((g0.trans g1).trans g2).trans g3

theorem syncBody_goodP {hk : Hook} (hhk : HookOkP hk) (st : RS) (targets : List String) (hb : BagProv st.sys) :
    Good st.sys (syncBody hk st targets).sys := by
  unfold syncBody
  dsimp only
  have g0 := retrieveOrdered_goodP hhk st hb
  split
  · exact g0
  · exact g0.trans (foldl_goodP _ (fun st a hb => retrieveAndSend_goodP hhk st a hb) _ _ g0.bag)

theorem syncMigrationState_goodP {hk : Hook} (hhk : HookOkP hk) (st : RS) (t : Task) (hb : BagProv st.sys) :
    Good st.sys (syncMigrationState hk st t).1.sys := by
  unfold syncMigrationState
  split
  · exact ⟨ReachP.refl _, hb⟩
  · rename_i mi _
    dsimp only
    have g0 := call_good' hhk st (.commit t) hb (fun _ _ _ h => nomatch h) (fun _ _ _ h => nomatch h)
    split
    · have g1 := retrieveAndSend_goodP hhk (st.call hk (.commit t)).1 mi.dstProxy g0.bag
      split
      · exact (g0.trans g1).trans (retrieveAndSend_goodP hhk _ _ g1.bag)
      · exact g0.trans g1
    · exact g0

theorem syncTasks_goodP {hk : Hook} (hhk : HookOkP hk) (st : RS) (l : List Task) (hb : BagProv st.sys) :
    Good st.sys (syncTasks hk st l).1.sys := by
  induction l generalizing st with
  | nil => exact ⟨ReachP.refl _, hb⟩
  | cons t ts ih =>
    unfold syncTasks
    dsimp only
    have g0 := syncMigrationState_goodP hhk st t hb
    split
    · exact g0.trans (ih _ g0.bag)
    · exact g0

theorem checkAndSync_goodP {hk : Hook} (hhk : HookOkP hk) (st : RS) (a : String) (hb : BagProv st.sys) :
    Good st.sys (checkAndSync hk st a).sys := by
  unfold checkAndSync
  dsimp only
  have g0 := call_good' hhk st (.connect a) hb (fun _ _ _ h => nomatch h) (fun _ _ _ h => nomatch h)
  split
  · have g1 := call_good' hhk (st.call hk (.connect a)).1 (.infoMgr a) g0.bag
      (fun _ _ _ h => nomatch h) (fun _ _ _ h => nomatch h)
    split
    · exact (g0.trans g1).trans (syncTasks_goodP hhk _ _ g1.bag)
    · exact g0.trans g1
  · exact g0

theorem migBody_goodP {hk : Hook} (hhk : HookOkP hk) (st : RS) (hb : BagProv st.sys) :
    Good st.sys (migBody hk st).sys := by
  unfold migBody
  dsimp only
  have g0 := retrieveProxies_goodP hhk st hb
  exact g0.trans (foldl_goodP _ (fun st a hb => checkAndSync_goodP hhk st a hb) _ _ g0.bag)

theorem pingCheck_goodP {hk : Hook} (hhk : HookOkP hk) (n : Nat) (st : RS) (a : String) (hb : BagProv st.sys) :
    Good st.sys (pingCheck hk n st a).1.sys := by
  induction n generalizing st with
  | zero => exact ⟨ReachP.refl _, hb⟩
  | succ i ih =>
    unfold pingCheck
    dsimp only
    have g0 := call_good' hhk st (.connect a) hb (fun _ _ _ h => nomatch h) (fun _ _ _ h => nomatch h)
    split
    · have g1 := call_good' hhk (st.call hk (.connect a)).1 (.ping a) g0.bag
        (fun _ _ _ h => nomatch h) (fun _ _ _ h => nomatch h)
      split
      · exact g0.trans g1
      · exact (g0.trans g1).trans (ih _ g1.bag)
    · exact g0.trans (ih _ g0.bag)

theorem detectBody_goodP {hk : Hook} (hhk : HookOkP hk) (rep : String) (st : RS) (hb : BagProv st.sys) :
    Good st.sys (detectBody hk rep st).sys := by
  unfold detectBody
  dsimp only
  have g0 := retrieveProxies_goodP hhk st hb
  refine g0.trans (foldl_goodP _ ?_ _ _ g0.bag)
  intro st a hb
  have g1 := pingCheck_goodP hhk Um.Gen.Coord.PING_RETRY st a hb
  split
  · exact g1.trans (call_good' hhk _ _ g1.bag (fun _ _ _ h => nomatch h) (fun _ _ _ h => nomatch h))
  · exact g1

theorem failoverBody_goodP {hk : Hook} (hhk : HookOkP hk) (st : RS) (hb : BagProv st.sys) :
    Good st.sys (failoverBody hk st).sys := by
  unfold failoverBody
  dsimp only
  have g0 := call_good' hhk st .getFailures hb (fun _ _ _ h => nomatch h) (fun _ _ _ h => nomatch h)
  split
  · exact g0.trans (foldl_goodP _ (fun st a hb =>
      call_good' hhk st (.replaceProxy a) hb (fun _ _ _ h => nomatch h) (fun _ _ _ h => nomatch h)) _ _ g0.bag)
  · exact g0

theorem runBody_goodP {hk : Hook} (hhk : HookOkP hk) (r : Round0) (st : RS) (hb : BagProv st.sys) :
    Good st.sys (runBody hk r st).sys := by
  unfold runBody
  cases r.kind with
  | sync => exact syncBody_goodP hhk st _ hb
  | mig => exact migBody_goodP hhk st hb
  | detect => exact detectBody_goodP hhk _ st hb
  | failover => exact failoverBody_goodP hhk st hb

theorem runRound0_goodP (s : Sys) (r : Round0) (hb : BagProv s) : Good s (runRound0 s r).1 := by
  unfold runRound0
  exact runBody_goodP noHook_okP r (RS.start s r) hb

theorem nestHook_okP (nested : List (Nat × Round0)) : HookOkP (nestHook nested) := by
  intro k s hb
  unfold nestHook
  split
  · exact runRound0_goodP s _ hb
  · exact ⟨ReachP.refl s, hb⟩

/-- **every round, under every fault plan, only delivers views the broker served** -/
theorem runRound_goodP (s : Sys) (r : Round) (hb : BagProv s) : Good s (runRound s r).1 := by
  unfold runRound
  exact runBody_goodP (nestHook_okP r.nested) r.base (RS.start s r.base) hb

theorem flush_goodP (s : Sys) (cs : List String) (hb : BagProv s) : Good s (s.flush cs).1 := by
  unfold Sys.flush
  dsimp only
  have hb1 : BagProv { s with bag := s.bag.map fun e => (0, e.2) } := by
    intro e he
    simp only [List.mem_map] at he
    obtain ⟨e0, he0, rfl⟩ := he
    exact hb e0 he0
  have g0 : Good s { s with bag := s.bag.map fun e => (0, e.2) } := ⟨ReachP.single (StepP.bag s _), hb1⟩
  exact g0.trans (tick_good ⟨{ s with bag := s.bag.map fun e => (0, e.2) }, 0, [], cs, false, [], []⟩ hb1)

end Um.Coord
