import UmProofs.CoordProv
import UmProofs.CoordSync
import UmProofs.BrokerDefs
import UmProofs.BrokerSlotsPlanJ
import UmProofs.BrokerEpochStep
/-!
# C07 — what processes hold and what is in flight is never ahead of the broker

`MsgOkC b a e m`: the cluster payload `(e, m)` for address `a` is not ahead of what `b` serves for
`a` now: older, or the same epoch with the same content.  `Coherent s` says this of every process
state and of every view ever served.  It is an invariant of every execution in which the broker
satisfies `EpochVersioning` (C04): a broker step never makes a not-ahead payload ahead.
-/
namespace Um.Coord
open Um Um.Broker

def MsgOkC (b : Store) (limit : Nat) (compress : Bool) (a : String) (e : Nat) (m : CMeta) : Prop :=
  e ≤ b.globalEpoch ∧
  ∀ v, proxyView b a limit = R.ok (some v) → e < v.epoch ∨ (e = v.epoch ∧ m = mkCMeta compress v)

def MsgOkR (b : Store) (limit : Nat) (a : String) (e : Nat) (r : RMeta) : Prop :=
  e ≤ b.globalEpoch ∧
  ∀ v, proxyView b a limit = R.ok (some v) → e < v.epoch ∨ (e = v.epoch ∧ r = mkRMeta v)

/-- the broker states the discharge lemmas speak about: reachable, and every cluster satisfies the store
invariants of C01 (true of every boundedly reachable store, `Plan.cinv_reachableB`) -/
def GoodB (b : Store) : Prop := Reachable b ∧ Um.Broker.Plan.AllCInv b

/-- one broker transition keeps "not ahead" (for every address and payload) -/
def Versioned (limit : Nat) (compress : Bool) (b b' : Store) : Prop :=
  (∀ a e m, MsgOkC b limit compress a e m → MsgOkC b' limit compress a e m) ∧
  (∀ a e r, MsgOkR b limit a e r → MsgOkR b' limit a e r)

/-- the hypothesis taken from C04: along every broker history, the epoch served for an address never
decreases, and an equal epoch means equal content -/
def EpochVersioning (limit : Nat) (compress : Bool) : Prop :=
  ∀ b op, GoodB b → Versioned limit compress b (Broker.step b op)

structure Coherent (s : Sys) : Prop where
  reachable : GoodB s.broker
  served : ∀ x ∈ s.served, MsgOkC s.broker s.limit s.compress x.addr x.epoch x.cm ∧
    MsgOkR s.broker s.limit x.addr x.epoch x.rm
  proc : ∀ a p, s.findP a = some p → MsgOkC s.broker s.limit s.compress a p.epoch p.cmeta ∧
    MsgOkR s.broker s.limit a p.replEpoch p.repl

theorem keepOnPanic_commit (b : Store) (n : String) (rl : Um.RangeList) (e : Nat) (tn : Bool) :
    keepOnPanic b (commitMigration b n rl e tn false) = Broker.step b (.commit n e rl tn false) := by
  unfold Broker.step stepFull keepOnPanic
  dsimp only
  cases (commitMigration b n rl e tn false).2 <;> rfl

theorem keepOnPanic_replace (b : Store) (a ch : String) :
    keepOnPanic b (replaceFailedProxy b a ch) = Broker.step b (.failover a ch) := by
  unfold Broker.step stepFull keepOnPanic
  dsimp only
  cases (replaceFailedProxy b a ch).2 <;> rfl

theorem addFailure_step (b : Store) (a r : String) : (addFailure b a r 0).1 = Broker.step b (.addFailure a r 0) := by
  unfold Broker.step stepFull
  rfl

theorem goodB_commit {b : Store} (h : GoodB b) (n : String) (e : Nat) (rl : Um.RangeList) (tn cl : Bool) :
    GoodB (Broker.step b (.commit n e rl tn cl)) :=
  ⟨Reachable.step _ h.1, Um.Broker.Plan.allCInv_step h.2 (storeInv_commitMigration b n rl e tn cl h.2)⟩

theorem goodB_failover {b : Store} (h : GoodB b) (a ch : String) : GoodB (Broker.step b (.failover a ch)) :=
  ⟨Reachable.step _ h.1, Um.Broker.Plan.allCInv_step h.2 (storeInv_replaceFailedProxy b a ch h.2)⟩

theorem goodB_addFailure {b : Store} (h : GoodB b) (a r : String) (t : Int) :
    GoodB (Broker.step b (.addFailure a r t)) :=
  ⟨Reachable.step _ h.1, Um.Broker.Plan.allCInv_step h.2 (storeInv_addFailure b a r t h.2)⟩

/-- a delivered call moves the broker by at most one `Op` step, which keeps `GoodB` -/
theorem exec_broker (s : Sys) (c : Call) (ch : String) :
    (exec s c ch).1.broker = s.broker ∨
    ∃ op, (exec s c ch).1.broker = Broker.step s.broker op ∧ (GoodB s.broker → GoodB (Broker.step s.broker op)) := by
  cases c with
  | clusterNames off => exact Or.inl rfl
  | cluster name => simp only [exec]; split <;> exact Or.inl rfl
  | proxyAddrs off => exact Or.inl rfl
  | failedProxies => exact Or.inl rfl
  | getProxy a => simp only [exec]; split <;> exact Or.inl rfl
  | addFailure a r => exact Or.inr ⟨_, addFailure_step _ _ _, fun h => goodB_addFailure h _ _ _⟩
  | getFailures => exact Or.inl rfl
  | replaceProxy a =>
    right
    refine ⟨.failover a ch, ?_, fun h => goodB_failover h _ _⟩
    simp only [exec]
    split <;> exact keepOnPanic_replace _ _ _
  | commit t =>
    right
    refine ⟨.commit t.cluster (taskEpoch t) t.sr.ranges (match t.sr.tag with | .none => true | _ => false) false, ?_,
      fun h => goodB_commit h _ _ _ _ _⟩
    simp only [exec]
    split
    · exact keepOnPanic_commit _ _ _ _ _
    · split
      · exact keepOnPanic_commit _ _ _ _ _
      · split <;> exact keepOnPanic_commit _ _ _ _ _
    · exact keepOnPanic_commit _ _ _ _ _
  | connect a =>
    simp only [exec]
    split
    · split <;> exact Or.inl rfl
    · exact Or.inl rfl
  | setRepl a e r =>
    simp only [exec]
    split
    · split <;> exact Or.inl rfl
    · exact Or.inl rfl
  | setCluster a e m =>
    simp only [exec]
    split
    · split <;> exact Or.inl rfl
    · exact Or.inl rfl
  | infoMgr a =>
    simp only [exec]
    split
    · split <;> exact Or.inl rfl
    · exact Or.inl rfl
  | ping a =>
    simp only [exec]
    split
    · split <;> exact Or.inl rfl
    · exact Or.inl rfl


theorem coherent_broker_move {s t : Sys} (hp : t.proxies = s.proxies) (hs : t.served = s.served)
    (hl : t.limit = s.limit) (hc : t.compress = s.compress)
    (hb : t.broker = s.broker ∨
      ∃ op, t.broker = Broker.step s.broker op ∧ (GoodB s.broker → GoodB (Broker.step s.broker op)))
    (hev : EpochVersioning s.limit s.compress) (h : Coherent s) : Coherent t := by
  have hfind : ∀ a, t.findP a = s.findP a := fun a => by unfold Sys.findP; rw [hp]
  rcases hb with hb | ⟨op, hb, hgood⟩
  · refine ⟨by rw [hb]; exact h.reachable, ?_, ?_⟩
    · intro x hx; rw [hs] at hx; rw [hb, hl, hc]; exact h.served x hx
    · intro a p hp'; rw [hfind] at hp'; rw [hb, hl, hc]; exact h.proc a p hp'
  · have hv := hev s.broker op h.reachable
    refine ⟨by rw [hb]; exact hgood h.reachable, ?_, ?_⟩
    · intro x hx
      rw [hs] at hx
      rw [hb, hl, hc]
      exact ⟨hv.1 _ _ _ (h.served x hx).1, hv.2 _ _ _ (h.served x hx).2⟩
    · intro a p hp'
      rw [hfind] at hp'
      rw [hb, hl, hc]
      exact ⟨hv.1 _ _ _ (h.proc a p hp').1, hv.2 _ _ _ (h.proc a p hp').2⟩

theorem coherent_setP {s : Sys} (h : Coherent s) {a : String} {p q : PState} (hp : s.findP a = some p)
    (hqa : q.addr = a)
    (hq : MsgOkC s.broker s.limit s.compress a q.epoch q.cmeta ∧ MsgOkR s.broker s.limit a q.replEpoch q.repl) :
    Coherent (s.setP q) := by
  refine ⟨h.reachable, h.served, ?_⟩
  intro b r hr
  rw [findP_setP] at hr
  by_cases hb : (q.addr == b) = true
  · have hab : a = b := by rw [← hqa]; simpa using hb
    subst hab
    simp only [hb, if_true, hp, Option.map_some] at hr
    cases hr
    exact hq
  · simp only [hb, Bool.false_eq_true, if_false] at hr
    exact h.proc b r hr

/-- **one delivered call with a served payload keeps `Coherent`** -/
theorem exec_coherent (s : Sys) (c : Call) (ch : String) (hprov : ProvOk s c)
    (hev : EpochVersioning s.limit s.compress) (h : Coherent s) : Coherent (exec s c ch).1 := by
  have hst := exec_static s c ch
  cases c with
  | clusterNames off => exact h
  | cluster name => simp only [exec]; split <;> exact h
  | proxyAddrs off => exact h
  | failedProxies => exact h
  | getFailures => exact h
  | getProxy a =>
    simp only [exec]
    split
    · rename_i v hv
      refine ⟨h.reachable, ?_, h.proc⟩
      intro x hx
      rcases List.mem_append.mp hx with hx | hx
      · exact h.served x hx
      · simp only [List.mem_singleton] at hx
        subst hx
        have hle : v.epoch ≤ s.broker.globalEpoch := by
          obtain ⟨p, _, e⟩ := Um.Broker.Epoch.proxyView_epoch hv
          rw [e]; exact Um.Broker.Epoch.servedEpoch_le (Um.Broker.Epoch.epochInv_reachable _ h.reachable.1) p
        refine ⟨⟨hle, ?_⟩, ⟨hle, ?_⟩⟩
        · intro w hw
          rw [hv] at hw
          have : v = w := by injection hw with h1; injection h1
          subst this
          exact Or.inr ⟨rfl, rfl⟩
        · intro w hw
          rw [hv] at hw
          have : v = w := by injection hw with h1; injection h1
          subst this
          exact Or.inr ⟨rfl, rfl⟩
    · exact h
    · exact h
  | addFailure a r =>
    exact coherent_broker_move (s := s) (t := (exec s (.addFailure a r) ch).1) rfl rfl rfl rfl
      (exec_broker s (.addFailure a r) ch) hev h
  | replaceProxy a =>
    refine coherent_broker_move ?_ ?_ hst.2.1 hst.2.2.1 (exec_broker s (.replaceProxy a) ch) hev h
    · simp only [exec]; split <;> rfl
    · simp only [exec]; split <;> rfl
  | commit t =>
    refine coherent_broker_move ?_ ?_ hst.2.1 hst.2.2.1 (exec_broker s (.commit t) ch) hev h
    · simp only [exec]
      split
      · rfl
      · split
        · rfl
        · split <;> rfl
      · rfl
    · simp only [exec]
      split
      · rfl
      · split
        · rfl
        · split <;> rfl
      · rfl
  | connect a =>
    simp only [exec]
    split
    · split <;> exact h
    · exact h
  | infoMgr a =>
    simp only [exec]
    split
    · split <;> exact h
    · exact h
  | ping a =>
    simp only [exec]
    split
    · split <;> exact h
    · exact h
  | setRepl a e r =>
    obtain ⟨x, hx, hxa, hxe, hxr⟩ := hprov
    simp only [exec]
    split
    · rename_i p hp
      split
      · have hpa := findP_addr hp
        apply coherent_setP h hp ((setRepl_addr p e _ r).trans hpa)
        rcases setRepl_cases p e Um.Gen.Coord.COORDINATOR_FORCE r with ⟨h1, _⟩ | ⟨_, _, _, h4⟩
        · rw [h1]; exact h.proc a p hp
        · rw [h4]
          refine ⟨(h.proc a p hp).1, ?_⟩
          have := (h.served x hx).2
          rw [hxa, hxe, hxr] at this
          exact this
      · exact h
    · exact h
  | setCluster a e m =>
    obtain ⟨x, hx, hxa, hxe, hxm⟩ := hprov
    simp only [exec]
    split
    · rename_i p hp
      split
      · have hpa := findP_addr hp
        apply coherent_setP h hp ((setCluster_addr p e _ m).trans hpa)
        rcases setCluster_cases p e Um.Gen.Coord.COORDINATOR_FORCE m with ⟨h1, _⟩ | ⟨_, _, _, h4⟩
        · rw [h1]; exact h.proc a p hp
        · rw [h4]
          refine ⟨?_, (h.proc a p hp).2⟩
          have := (h.served x hx).1
          rw [hxa, hxe, hxm] at this
          exact this
      · exact h
    · exact h

theorem stepP_coherent {s t : Sys} (hs : StepP s t) (hev : EpochVersioning s.limit s.compress) (h : Coherent s) :
    Coherent t := by
  cases hs with
  | exec c ch hp => exact exec_coherent s c ch hp hev h
  | bag b => exact ⟨h.reachable, h.served, h.proc⟩

theorem reachP_static {s t : Sys} (h : ReachP s t) : t.limit = s.limit ∧ t.compress = s.compress := by
  induction h with
  | refl => exact ⟨rfl, rfl⟩
  | tail _ hs ih =>
    cases hs with
    | exec c ch _ =>
      obtain ⟨_, h2, h3, _⟩ := exec_static _ c ch
      exact ⟨h2.trans ih.1, h3.trans ih.2⟩
    | bag b => exact ih

/-- **`Coherent` is an invariant of every sequence of delivered, served calls** — in particular of every
round under every fault plan (`runRound_goodP`) -/
theorem reachP_coherent {s t : Sys} (hr : ReachP s t) (hev : EpochVersioning s.limit s.compress) (h : Coherent s) :
    Coherent t := by
  induction hr with
  | refl => exact h
  | tail hr' hs ih =>
    have hst := reachP_static hr'
    exact stepP_coherent hs (by rw [hst.1, hst.2]; exact hev) ih

/-- from `Coherent`: a running, well-hosted process can always take the broker's current view -/
theorem Coherent.good {s : Sys} (h : Coherent s) {a : String} {v : VProxy} {p : PState}
    (hv : proxyView s.broker a s.limit = R.ok (some v)) (hp : s.findP a = some p) (hup : p.up = true)
    (hh : hostsOk p.host (mkCMeta s.compress v) = true) (hr : replHostsOk p.host (mkRMeta v) = true) :
    PGood s.compress v p :=
  ⟨hup, hh, hr, (h.proc a p hp).1.2 v hv, (h.proc a p hp).2.2 v hv⟩

end Um.Coord
