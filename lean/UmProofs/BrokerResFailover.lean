import UmProofs.BrokerResInv
/-!
# C12 — `replace_failed_proxy` preserves `RPt`; closed form of `replaceInChunks`; what
`generate_new_free_proxy` returns.
-/
namespace Um.Broker
open Um Um.Slots

/-! ## `replaceInChunks` as a map -/

/-- the per-chunk effect of `replaceInChunks` -/
def repl (f : String) (np : ProxyRes) (c : Chunk) : Chunk :=
  if c.proxy0 == f then
    { c with host0 := np.host, proxy0 := np.addr, node0 := np.node0, node1 := np.node1 }
  else if c.proxy1 == f then
    { c with host1 := np.host, proxy1 := np.addr, node2 := np.node0, node3 := np.node1 }
  else c

theorem replaceInChunks_not_mem (f : String) (np : ProxyRes) : ∀ l : List Chunk,
    f ∉ chunkAddrs l → replaceInChunks f np l = l := by
  intro l
  induction l with
  | nil => intro _; rfl
  | cons c rest ih =>
    intro h
    simp only [chunkAddrs, List.flatMap_cons, List.mem_append, List.mem_cons, List.not_mem_nil, or_false,
      not_or] at h
    have h0 : (c.proxy0 == f) = false := by simpa using fun e => h.1.1 e.symm
    have h1 : (c.proxy1 == f) = false := by simpa using fun e => h.1.2 e.symm
    simp only [replaceInChunks, h0, h1, Bool.false_eq_true, if_false]
    rw [ih h.2]

theorem map_repl_not_mem (f : String) (np : ProxyRes) : ∀ l : List Chunk,
    f ∉ chunkAddrs l → l.map (repl f np) = l := by
  intro l
  induction l with
  | nil => intro _; rfl
  | cons c rest ih =>
    intro h
    simp only [chunkAddrs, List.flatMap_cons, List.mem_append, List.mem_cons, List.not_mem_nil, or_false,
      not_or] at h
    have h0 : (c.proxy0 == f) = false := by simpa using fun e => h.1.1 e.symm
    have h1 : (c.proxy1 == f) = false := by simpa using fun e => h.1.2 e.symm
    simp only [List.map_cons, repl, h0, h1, Bool.false_eq_true, if_false]
    rw [ih h.2]

theorem replaceInChunks_eq_map (f : String) (np : ProxyRes) : ∀ l : List Chunk,
    (chunkAddrs l).Nodup → replaceInChunks f np l = l.map (repl f np) := by
  intro l
  induction l with
  | nil => intro _; rfl
  | cons c rest ih =>
    intro h
    have h' : ([c.proxy0, c.proxy1] ++ chunkAddrs rest).Nodup := h
    rw [List.nodup_append] at h'
    obtain ⟨hc, hrest, hdis⟩ := h'
    simp only [replaceInChunks, List.map_cons, repl]
    by_cases h0 : c.proxy0 = f
    · have : f ∉ chunkAddrs rest := fun hm => hdis c.proxy0 (by simp) f hm h0
      simp only [h0, beq_self_eq_true, if_true, map_repl_not_mem f np rest this]
    · have h0' : (c.proxy0 == f) = false := by simpa using h0
      simp only [h0', Bool.false_eq_true, if_false]
      by_cases h1 : c.proxy1 = f
      · have : f ∉ chunkAddrs rest := fun hm => hdis c.proxy1 (by simp) f hm h1
        simp only [h1, beq_self_eq_true, if_true, map_repl_not_mem f np rest this]
      · have h1' : (c.proxy1 == f) = false := by simpa using h1
        simp only [h1', Bool.false_eq_true, if_false, ih hrest]

theorem mem_chunkAddrs_map_repl {f : String} {np : ProxyRes} {l : List Chunk} {a : String}
    (h : a ∈ chunkAddrs (l.map (repl f np))) : a ∈ chunkAddrs l ∨ a = np.addr := by
  obtain ⟨ch', hch', hor⟩ := mem_chunkAddrs.mp h
  obtain ⟨ch, hch, rfl⟩ := List.mem_map.mp hch'
  unfold repl at hor
  split at hor
  · rcases hor with rfl | rfl
    · exact Or.inr rfl
    · exact Or.inl (mem_chunkAddrs.mpr ⟨ch, hch, Or.inr rfl⟩)
  · split at hor
    · rcases hor with rfl | rfl
      · exact Or.inl (mem_chunkAddrs.mpr ⟨ch, hch, Or.inl rfl⟩)
      · exact Or.inr rfl
    · exact Or.inl (mem_chunkAddrs.mpr ⟨ch, hch, hor⟩)

theorem nodup_chunkAddrs_map_repl (f : String) (np : ProxyRes) : ∀ l : List Chunk,
    (chunkAddrs l).Nodup → np.addr ∉ chunkAddrs l → (chunkAddrs (l.map (repl f np))).Nodup := by
  intro l
  induction l with
  | nil => intro _ _; simp [chunkAddrs]
  | cons c rest ih =>
    intro h hnp
    have h' : ([c.proxy0, c.proxy1] ++ chunkAddrs rest).Nodup := h
    have hnp' : np.addr ∉ [c.proxy0, c.proxy1] ++ chunkAddrs rest := hnp
    rw [List.nodup_append] at h'
    obtain ⟨hc, hrest, hdis⟩ := h'
    simp only [List.mem_append, List.mem_cons, List.not_mem_nil, or_false, not_or] at hnp'
    obtain ⟨⟨hn0, hn1⟩, hnr⟩ := hnp'
    simp only [List.nodup_cons, List.mem_singleton, List.not_mem_nil, not_false_eq_true, List.nodup_nil,
      and_true] at hc
    have d0 : c.proxy0 ∉ chunkAddrs rest := fun hm => hdis c.proxy0 (by simp) _ hm rfl
    have d1 : c.proxy1 ∉ chunkAddrs rest := fun hm => hdis c.proxy1 (by simp) _ hm rfl
    show ([(repl f np c).proxy0, (repl f np c).proxy1] ++ chunkAddrs (rest.map (repl f np))).Nodup
    by_cases h0 : c.proxy0 = f
    · have hf : f ∉ chunkAddrs rest := h0 ▸ d0
      rw [map_repl_not_mem f np rest hf]
      simp only [repl, h0, beq_self_eq_true, if_true]
      rw [List.nodup_append]
      refine ⟨by simpa using hn1, hrest, ?_⟩
      intro a ha b hb hab
      subst hab
      simp only [List.mem_cons, List.not_mem_nil, or_false] at ha
      rcases ha with rfl | rfl
      · exact hnr hb
      · exact d1 hb
    · have h0' : (c.proxy0 == f) = false := by simpa using h0
      by_cases h1 : c.proxy1 = f
      · have hf : f ∉ chunkAddrs rest := h1 ▸ d1
        rw [map_repl_not_mem f np rest hf]
        simp only [repl, h0', h1, beq_self_eq_true, if_true, Bool.false_eq_true, if_false]
        rw [List.nodup_append]
        refine ⟨by simpa using fun e => hn0 e.symm, hrest, ?_⟩
        intro a ha b hb hab
        subst hab
        simp only [List.mem_cons, List.not_mem_nil, or_false] at ha
        rcases ha with rfl | rfl
        · exact d0 hb
        · exact hnr hb
      · have h1' : (c.proxy1 == f) = false := by simpa using h1
        simp only [repl, h0', h1', Bool.false_eq_true, if_false]
        rw [List.nodup_append]
        refine ⟨by simpa using hc, ih hrest hnr, ?_⟩
        intro a ha b hb hab
        subst hab
        simp only [List.mem_cons, List.not_mem_nil, or_false] at ha
        rcases mem_chunkAddrs_map_repl hb with hb' | hb'
        · rcases ha with rfl | rfl
          · exact d0 hb'
          · exact d1 hb'
        · rcases ha with rfl | rfl
          · exact hn0 hb'.symm
          · exact hn1 hb'.symm

/-! ## the replacement step preserves `RPt` -/

theorem rpt_replace {s s' : Store} {cl cl' : Cluster} {f : String} {fp np : ProxyRes} (hr : RPt s)
    (hf : s.findCluster cl.name = some cl)
    (hfp : fp ∈ s.proxies) (hfa : fp.addr = f) (hfc : fp.cluster = some cl.name)
    (hnp : np ∈ s.proxies) (hnc : np.cluster = none)
    (hn : cl'.name = cl.name) (hch : cl'.chunks = cl.chunks.map (repl f np))
    (hp : s'.proxies = ((s.setProxyCluster f none).setProxyCluster np.addr (some cl.name)).proxies)
    (hc : s'.clusters = (s.setCluster cl').clusters) : RPt s' := by
  have hr' := hr
  obtain ⟨h1, h2, h3, h4, h5⟩ := hr
  obtain ⟨hclm, _⟩ := Store.findCluster_some hf
  -- the combined effect on one proxy
  let g : ProxyRes → ProxyRes := fun p =>
    if p.addr = np.addr then { p with cluster := some cl.name }
    else if p.addr = f then { p with cluster := none } else p
  have hne : np.addr ≠ f := by
    intro e
    have : np = fp := res_nodup_map_inj h1 hnp hfp (e.trans hfa.symm)
    subst this; rw [hnc] at hfc; cases hfc
  have hp' : s'.proxies = s.proxies.map g := by
    rw [hp, Store.setProxyCluster_proxies, Store.setProxyCluster_proxies, List.map_map]
    apply List.map_congr_left
    intro p _
    simp only [Function.comp, g]
    by_cases e1 : p.addr = f
    · have e2 : p.addr ≠ np.addr := fun e => hne (e.symm.trans e1)
      simp [e1, hne.symm]
    · by_cases e2 : p.addr = np.addr
      · simp [e2, hne]
      · simp [e1, e2]
  have hg_addr : ∀ p, (g p).addr = p.addr := by
    intro p; simp only [g]; split
    · rfl
    · split <;> rfl
  have hg_id : ∀ p ∈ s.proxies, ∀ n, p.cluster = some n → p.addr ≠ f → g p = p := by
    intro p hpm n hpn hpf
    have : p.addr ≠ np.addr := by
      intro e
      have : p = np := res_nodup_map_inj h1 hpm hnp e
      subst this; rw [hnc] at hpn; cases hpn
    simp [g, this, hpf]
  -- f belongs to cl only
  have hf_cl : f ∈ cl.proxyAddrs := by
    obtain ⟨c, hcm, e1, e2⟩ := h5 fp hfp _ hfc
    have : c = cl := res_nodup_map_inj h2 hcm hclm e1
    subst this; rw [← hfa]; exact e2
  have hnp_not : ∀ c ∈ s.clusters, np.addr ∉ c.proxyAddrs := by
    intro c hcm hin
    obtain ⟨p, hpm, e1, e2⟩ := hr'.tag_of_mem hcm hin
    have : p = np := res_nodup_map_inj h1 hpm hnp e1
    subst this; rw [hnc] at e2; cases e2
  refine ⟨?_, ?_, ?_, ?_, ?_⟩
  · rw [hp', List.map_map]
    have : (ProxyRes.addr ∘ g) = ProxyRes.addr := funext hg_addr
    rw [show ((fun x => x.addr) ∘ g) = ProxyRes.addr from this]; exact h1
  · rw [hc, setCluster_names]; exact h2
  · intro c hcm
    rw [hc] at hcm
    obtain ⟨y, hy, rfl⟩ := mem_setCluster.mp hcm
    split
    · rw [Cluster.proxyAddrs_eq, hch]
      exact nodup_chunkAddrs_map_repl f np cl.chunks (h3 cl hclm) (hnp_not cl hclm)
    · exact h3 y hy
  · intro c hcm ch' hchm
    rw [hc] at hcm
    obtain ⟨y, hy, rfl⟩ := mem_setCluster.mp hcm
    rw [hp']
    by_cases hyn : y.name = cl'.name
    · simp only [hyn, beq_self_eq_true, if_true] at hchm ⊢
      rw [hch] at hchm
      obtain ⟨ch, hold, rfl⟩ := List.mem_map.mp hchm
      rw [hn]
      obtain ⟨⟨p, hpm, e1, e2, e3, e4, e5⟩, ⟨q, hqm, e6, e7, e8, e9, e10⟩⟩ := h4 cl hclm ch hold
      have hpq : ch.proxy0 ≠ ch.proxy1 := by
        have := (List.pairwise_flatMap.mp (h3 cl hclm)).1 ch hold
        simpa using this
      have hnpg : g np = { np with cluster := some cl.name } := by simp [g]
      have hnpm : { np with cluster := some cl.name } ∈ s.proxies.map g :=
        List.mem_map.mpr ⟨np, hnp, hnpg⟩
      by_cases c0 : ch.proxy0 = f
      · have c1 : q.addr ≠ f := by rw [e6, ← c0]; exact fun e => hpq e.symm
        simp only [repl, c0, beq_self_eq_true, if_true]
        refine ⟨⟨_, hnpm, rfl, rfl, rfl, rfl, rfl⟩, ⟨q, ?_, e6, e7, e8, e9, e10⟩⟩
        exact List.mem_map.mpr ⟨q, hqm, hg_id q hqm _ e7 c1⟩
      · have c0' : (ch.proxy0 == f) = false := by simpa using c0
        have cp : p.addr ≠ f := by rw [e1]; exact c0
        have hpm' : p ∈ s.proxies.map g := List.mem_map.mpr ⟨p, hpm, hg_id p hpm _ e2 cp⟩
        by_cases c1 : ch.proxy1 = f
        · simp only [repl, c0', c1, beq_self_eq_true, if_true, Bool.false_eq_true, if_false]
          exact ⟨⟨p, hpm', e1, e2, e3, e4, e5⟩, ⟨_, hnpm, rfl, rfl, rfl, rfl, rfl⟩⟩
        · have c1' : (ch.proxy1 == f) = false := by simpa using c1
          have cq : q.addr ≠ f := by rw [e6]; exact c1
          simp only [repl, c0', c1', Bool.false_eq_true, if_false]
          exact ⟨⟨p, hpm', e1, e2, e3, e4, e5⟩,
            ⟨q, List.mem_map.mpr ⟨q, hqm, hg_id q hqm _ e7 cq⟩, e6, e7, e8, e9, e10⟩⟩
    · have hyn' : (y.name == cl'.name) = false := by simpa using hyn
      simp only [hyn', Bool.false_eq_true, if_false] at hchm ⊢
      obtain ⟨⟨p, hpm, e1, e2, e3⟩, ⟨q, hqm, e4, e5, e6⟩⟩ := h4 y hy ch' hchm
      have hne' : y ≠ cl := fun e => hyn (by rw [e, hn])
      have k : ∀ x ∈ s.proxies, x.cluster = some y.name → x.addr ≠ f := by
        intro x hx hxc hxa
        have : x = fp := res_nodup_map_inj h1 hx hfp (hxa.trans hfa.symm)
        subst this
        rw [hfc] at hxc
        exact hne' (res_nodup_map_inj h2 hy hclm (Option.some.inj hxc).symm)
      exact ⟨⟨p, List.mem_map.mpr ⟨p, hpm, hg_id p hpm _ e2 (k p hpm e2)⟩, e1, e2, e3⟩,
        ⟨q, List.mem_map.mpr ⟨q, hqm, hg_id q hqm _ e5 (k q hqm e5)⟩, e4, e5, e6⟩⟩
  · intro p' hp'm n hnn
    rw [hp'] at hp'm
    obtain ⟨p, hpm, rfl⟩ := List.mem_map.mp hp'm
    rw [hc, hg_addr]
    by_cases c0 : p.addr = np.addr
    · have : g p = { p with cluster := some cl.name } := by simp [g, c0]
      rw [this] at hnn
      cases hnn
      refine ⟨cl', mem_setCluster_self hf hn, hn, ?_⟩
      rw [Cluster.proxyAddrs_eq, hch, c0]
      obtain ⟨ch, hchm, hor⟩ := Cluster.mem_proxyAddrs.mp hf_cl
      refine mem_chunkAddrs.mpr ⟨repl f np ch, List.mem_map.mpr ⟨ch, hchm, rfl⟩, ?_⟩
      by_cases d0 : ch.proxy0 = f
      · left; simp [repl, d0]
      · have d1 : ch.proxy1 = f := by rcases hor with e | e; exact absurd e.symm d0; exact e.symm
        right; simp [repl, d0, d1]
    · by_cases c1 : p.addr = f
      · have : g p = { p with cluster := none } := by
          have c0' : f ≠ np.addr := fun e => hne e.symm
          simp [g, c1, c0']
        rw [this] at hnn; cases hnn
      · have hgp : g p = p := by simp [g, c0, c1]
        rw [hgp] at hnn
        obtain ⟨c, hcm, e1, e2⟩ := h5 p hpm n hnn
        by_cases hcn : c.name = cl'.name
        · have : c = cl := res_nodup_map_inj h2 hcm hclm (hcn.trans hn)
          subst this
          refine ⟨cl', mem_setCluster_self hf hn, hcn.symm.trans e1, ?_⟩
          rw [Cluster.proxyAddrs_eq, hch]
          obtain ⟨ch, hchm, hor⟩ := Cluster.mem_proxyAddrs.mp e2
          refine mem_chunkAddrs.mpr ⟨repl f np ch, List.mem_map.mpr ⟨ch, hchm, rfl⟩, ?_⟩
          rcases hor with e | e
          · left
            have : (ch.proxy0 == f) = false := by simpa using fun x => c1 (e.trans x)
            simp only [repl, this, Bool.false_eq_true, if_false]
            split <;> exact e
          · right
            have : (ch.proxy1 == f) = false := by simpa using fun x => c1 (e.trans x)
            simp only [repl, this, Bool.false_eq_true, if_false]
            split <;> exact e
        · exact ⟨c, mem_setCluster_other hcm hcn, e1, e2⟩

end Um.Broker
