import UmProofs.MigrationStepF
/-! C03 invariant preservation: UMSYNC delivery, the handshake deliveries, the commit. -/
namespace Um.Mig

theorem step_dlvSync {s s' : Sys} {b : Bool} (hG : GInv s) (hO : OInv s)
    (hs : step? s (.dlvSync b) = some s') :
    (GInv s' ∧ OInv s') ∧ logical s' = logical s := by
  cases hk : s.crit with
  | none => simp [step?, hk, bind, Option.bind] at hs
  | some k =>
  simp only [step?, hk, bind, Option.bind] at hs
  have hpre : s.dstSt ≠ .preCheck := fun h => by have := (hG.b2 h).2.1; simp [hk] at this
  split at hs
  · simp at hs
  rename_i hpc
  simp only [bne_iff_ne, ne_eq, Decidable.not_not] at hpc
  have hslow : s.scan ≠ .idle → scanLocked s.scan = true := scan_locked_of_crit hG hk (by rw [hpc]; simp)
  have hcdn : critDump s = none := by simp [critDump, hk, hpc, CritPc.held]
  have hO' : ∀ pc : CritPc, pc.held = none → OInv (setCrit s k.id pc) := by
    intro pc hp
    refine oinv_flags hO rfl rfl rfl rfl ?_ rfl (fun _ h => h) id id
    rw [hcdn]; simp [critDump, setCrit, hp]
  have hside : ∀ pc : CritPc, pc.held = none → pc.delPending = false → (pc.srcGone = true → s.src = none) →
      (pc.isFast = true → s.scan = .idle) → (pc.isSyncGot = true → s.scan.held = none) → pc ≠ .uSlow → pc.isPull = false →
      GInv (setCrit s k.id pc) := by
    intro pc h1 h2 h3 h4 h5 h6 h7
    refine ginv_crit (s := s) hG hk (eff_refl s) ?_ ?_ h3 h4 h5 ?_ ?_ ?_
    · intro v hv; rw [h1] at hv; cases hv
    · intro h; rw [h2] at h; cases h
    · intro h hl; have := hslow h; rw [hl] at this; cases this
    · intro _; exact h1
    · intro _; rw [hpc]; exact ⟨by simp, fun h => by rw [h7] at h; cases h⟩
  split at hs
  · -- the migrating task is gone: MIGRATION_TASK_NOT_FOUND
    rename_i hst
    cases hs
    simp only [Bool.not_eq_true'] at hst
    have hr := hG.a4a hst
    have hb1 := hG.b1 (by rw [hr]; decide)
    exact ⟨⟨hside _ rfl rfl (fun _ => hb1.1) (by simp [CritPc.isFast]) (fun _ => by rw [hb1.2]; rfl) (by simp) rfl, hO' _ rfl⟩, rfl⟩
  · split at hs
    · -- fast path
      rename_i hmx
      cases hs
      simp only [Bool.not_eq_true', Bool.or_eq_false_iff, mutexHeld] at hmx
      have hidle : s.scan = .idle := by
        by_cases h : s.scan = .idle
        · exact h
        · have := hslow h; rw [hmx.2.1] at this; cases this
      exact ⟨⟨hside _ rfl rfl (by simp [CritPc.srcGone]) (fun _ => hidle) (by simp [CritPc.isSyncGot]) (by simp) rfl, hO' _ rfl⟩, rfl⟩
    · split at hs
      · -- queue closed: MIGRATING_FINISHED
        rename_i hq
        cases hs
        have hb1 := hG.b1 (hG.a6 hq)
        exact ⟨⟨hside _ rfl rfl (fun _ => hb1.1) (by simp [CritPc.isFast]) (fun _ => by rw [hb1.2]; rfl) (by simp) rfl, hO' _ rfl⟩, rfl⟩
      · -- queued for the scan loop
        cases hs
        exact ⟨⟨hside _ rfl rfl (by simp [CritPc.srcGone]) (by simp [CritPc.isFast]) (by simp [CritPc.isSyncGot]) (by simp) rfl, hO' _ rfl⟩, rfl⟩

theorem step_handshake {s s' : Sys} {l : Label} (hG : GInv s) (hO : OInv s)
    (hl : l = .dlvPreCheck ∨ l = .dlvPreSwitch ∨ l = .dlvFinalSwitch ∨ l = .commit .S ∨ (l = .commit .D ∧ critDump s = none))
    (hs : step? s l = some s') :
    (GInv s' ∧ OInv s') ∧ logical s' = logical s := by
  rcases hl with rfl | rfl | rfl | rfl | ⟨rfl, hc⟩
  all_goals
    simp only [step?] at hs
    obtain ⟨hg, rfl⟩ := guard_some hs
    simp only [Bool.and_eq_true, beq_iff_eq, Bool.not_eq_true'] at hg
    refine ⟨⟨?_, ?_⟩, rfl⟩
  · flag_hammer hG
  · refine oinv_flags hO rfl rfl rfl rfl rfl rfl (fun _ h => h) id ?_
    intro h; have := hG.a1 h; rw [hg.1.2] at this; simp [srcRank] at this
  · flag_hammer hG
  · exact oinv_flags hO rfl rfl rfl rfl rfl rfl (fun _ h => h) id (fun _ => by simp)
  · flag_hammer hG
  · exact oinv_flags hO rfl rfl rfl rfl rfl rfl (fun _ h => h) id (fun _ => by simp)
  · flag_hammer hG
  · exact oinv_flags hO rfl rfl rfl rfl rfl rfl (fun _ h => h) id id
  · flag_hammer hG
  · exact oinv_flags hO rfl rfl rfl rfl rfl rfl (fun _ h => h) (fun _ => rfl) id

end Um.Mig
