import UmModel.Proto
/-!
`RangeList::compact`: its output is a fixed point (idempotence), a sufficient syntactic condition
for being a fixed point, preservation of bounds and length.
-/
namespace Um.Proto
open Um

/-- what `compact` establishes: each range has `s ≤ e`, starts ascend, and no neighbour pair
satisfies the merge test (`end + 1` is the wrapping `usize` addition of the code) -/
def Sep : List Range → Prop
  | [] => True
  | [x] => x.s ≤ x.e
  | x :: y :: r => x.s ≤ x.e ∧ x.s ≤ y.s ∧ wrapSucc x.e < y.s ∧ Sep (y :: r)

def AllLe (l : List Range) : Prop := ∀ r ∈ l, r.s ≤ r.e

/-- ascending starts, all at least `lo` -/
def SortedFrom : Nat → List Range → Prop
  | _, [] => True
  | lo, y :: r => lo ≤ y.s ∧ SortedFrom y.s r

theorem SortedFrom.mono {lo lo' : Nat} {l : List Range} (h : SortedFrom lo l) (hl : lo' ≤ lo) :
    SortedFrom lo' l := by
  cases l with
  | nil => trivial
  | cons y r => exact ⟨Nat.le_trans hl h.1, h.2⟩

theorem swapped_le (r : Range) : r.swapped.s ≤ r.swapped.e := by
  unfold Range.swapped; split
  · simp only; omega
  · omega

theorem allLe_map_swapped (l : List Range) : AllLe (l.map Range.swapped) := by
  intro r hr
  rw [List.mem_map] at hr
  obtain ⟨x, _, rfl⟩ := hr
  exact swapped_le x

theorem mem_insertByStart {x y : Range} {l : List Range} : y ∈ insertByStart x l ↔ y = x ∨ y ∈ l := by
  induction l with
  | nil => simp [insertByStart]
  | cons z zs ih =>
    unfold insertByStart
    split
    · simp
    · simp [ih]; grind

theorem mem_sortByStart {y : Range} {l : List Range} : y ∈ sortByStart l ↔ y ∈ l := by
  induction l with
  | nil => simp [sortByStart]
  | cons x xs ih => simp [sortByStart, mem_insertByStart, ih]

theorem length_insertByStart (x : Range) (l : List Range) : (insertByStart x l).length = l.length + 1 := by
  induction l with
  | nil => rfl
  | cons z zs ih => unfold insertByStart; split <;> simp [ih]

theorem length_sortByStart (l : List Range) : (sortByStart l).length = l.length := by
  induction l with
  | nil => rfl
  | cons x xs ih => simp [sortByStart, length_insertByStart, ih]

theorem sortedFrom_insert (x : Range) : ∀ (l : List Range) (lo : Nat), SortedFrom lo l → lo ≤ x.s →
    SortedFrom lo (insertByStart x l) := by
  intro l
  induction l with
  | nil => intro lo _ h; exact ⟨h, trivial⟩
  | cons z zs ih =>
    intro lo hs hx
    unfold insertByStart
    split
    · rename_i hle
      exact ⟨hx, hle, hs.2⟩
    · rename_i hnle
      exact ⟨hs.1, ih z.s hs.2 (by omega)⟩

theorem sortedFrom_sort (l : List Range) : SortedFrom 0 (sortByStart l) := by
  induction l with
  | nil => trivial
  | cons x xs ih => exact sortedFrom_insert x _ 0 ih (Nat.zero_le _)

/-- a list with ascending starts is left alone by the (stable) sort -/
theorem sort_of_sorted : ∀ (l : List Range) (lo : Nat), SortedFrom lo l → sortByStart l = l := by
  intro l
  induction l with
  | nil => intros; rfl
  | cons x xs ih =>
    intro lo h
    simp only [sortByStart]
    rw [ih x.s h.2]
    cases xs with
    | nil => rfl
    | cons y ys =>
      have : x.s ≤ y.s := h.2.1
      simp [insertByStart, this]

theorem mergeLoop_sep : ∀ (l : List Range) (cur : Range), cur.s ≤ cur.e → AllLe l → SortedFrom cur.s l →
    Sep (mergeLoop cur l) ∧ ∃ h t, mergeLoop cur l = h :: t ∧ h.s = cur.s := by
  intro l
  induction l with
  | nil => intro cur h _ _; exact ⟨h, cur, [], rfl, rfl⟩
  | cons e rest ih =>
    intro cur hc hall hs
    have he : e.s ≤ e.e := hall e (List.mem_cons_self ..)
    have hall' : AllLe rest := fun r hr => hall r (List.mem_cons_of_mem _ hr)
    unfold mergeLoop
    split
    · have := ih ⟨cur.s, max cur.e e.e⟩ (by simp; omega) hall' (hs.2.mono hs.1)
      exact this
    · rename_i hnm
      obtain ⟨hsep, h, t, heq, hhs⟩ := ih e he hall' hs.2
      refine ⟨?_, cur, mergeLoop e rest, rfl, rfl⟩
      rw [heq] at hsep ⊢
      exact ⟨hc, by rw [hhs]; exact hs.1, by rw [hhs]; omega, hsep⟩

theorem sep_compact (l : List Range) : Sep (compact l) := by
  unfold compact
  have hall : AllLe (sortByStart (l.map Range.swapped)) := by
    intro r hr
    exact allLe_map_swapped l r (mem_sortByStart.mp hr)
  have hs := sortedFrom_sort (l.map Range.swapped)
  cases h : sortByStart (l.map Range.swapped) with
  | nil => trivial
  | cons x xs =>
    rw [h] at hall hs
    exact (mergeLoop_sep xs x (hall x (List.mem_cons_self ..))
      (fun r hr => hall r (List.mem_cons_of_mem _ hr)) hs.2).1

theorem sep_allLe : ∀ l, Sep l → AllLe l := by
  intro l
  induction l with
  | nil => intro _ r hr; cases hr
  | cons x xs ih =>
    intro h r hr
    cases xs with
    | nil =>
      simp only [List.mem_singleton] at hr; subst hr; exact h
    | cons y ys =>
      rcases List.mem_cons.mp hr with rfl | hr
      · exact h.1
      · exact ih h.2.2.2 r hr

theorem sep_sorted : ∀ l, Sep l → ∀ lo, (∀ x ∈ l.head?, lo ≤ x.s) → SortedFrom lo l := by
  intro l
  induction l with
  | nil => intros; trivial
  | cons x xs ih =>
    intro h lo hlo
    refine ⟨hlo x (by simp), ?_⟩
    cases xs with
    | nil => trivial
    | cons y ys => exact ih h.2.2.2 x.s (by intro z hz; simp at hz; subst hz; exact h.2.1)

theorem mergeLoop_of_sep : ∀ (xs : List Range) (x : Range), Sep (x :: xs) → mergeLoop x xs = x :: xs := by
  intro xs
  induction xs with
  | nil => intros; rfl
  | cons y ys ih =>
    intro x h
    unfold mergeLoop
    have : ¬ (wrapSucc x.e ≥ y.s) := by have := h.2.2.1; omega
    simp only [this, if_false]
    rw [ih y h.2.2.2]

theorem map_swapped_of_allLe (l : List Range) (h : AllLe l) : l.map Range.swapped = l := by
  induction l with
  | nil => rfl
  | cons x xs ih =>
    have hx : x.swapped = x := by
      unfold Range.swapped
      have := h x (List.mem_cons_self ..)
      split
      · omega
      · rfl
    simp [hx, ih (fun r hr => h r (List.mem_cons_of_mem _ hr))]

/-- ranges in the normal form are left alone -/
theorem compact_of_sep (l : List Range) (h : Sep l) : compact l = l := by
  unfold compact
  rw [map_swapped_of_allLe l (sep_allLe l h), sort_of_sorted l 0 (sep_sorted l h 0 (fun _ _ => Nat.zero_le _))]
  cases l with
  | nil => rfl
  | cons x xs => exact mergeLoop_of_sep xs x h

/-- `compact` is idempotent: a parsed range list is a fixed point of the normalisation -/
theorem compact_idem (l : List Range) : compact (compact l) = compact l :=
  compact_of_sep _ (sep_compact l)

/-! ## bounds and length -/

theorem mergeLoop_bound (B : Nat) : ∀ (l : List Range) (cur : Range), (cur.s ≤ B ∧ cur.e ≤ B) →
    (∀ r ∈ l, r.s ≤ B ∧ r.e ≤ B) → ∀ r ∈ mergeLoop cur l, r.s ≤ B ∧ r.e ≤ B := by
  intro l
  induction l with
  | nil => intro cur hc _ r hr; simp [mergeLoop] at hr; subst hr; exact hc
  | cons e rest ih =>
    intro cur hc hl r hr
    have he := hl e (List.mem_cons_self ..)
    have hl' : ∀ r ∈ rest, r.s ≤ B ∧ r.e ≤ B := fun r hr => hl r (List.mem_cons_of_mem _ hr)
    unfold mergeLoop at hr
    split at hr
    · exact ih _ (by simp; omega) hl' r hr
    · rcases List.mem_cons.mp hr with rfl | hr
      · exact hc
      · exact ih e he hl' r hr

theorem compact_bound (B : Nat) (l : List Range) (h : ∀ r ∈ l, r.s ≤ B ∧ r.e ≤ B) :
    ∀ r ∈ compact l, r.s ≤ B ∧ r.e ≤ B := by
  have hsw : ∀ r ∈ sortByStart (l.map Range.swapped), r.s ≤ B ∧ r.e ≤ B := by
    intro r hr
    have := mem_sortByStart.mp hr
    rw [List.mem_map] at this
    obtain ⟨x, hx, rfl⟩ := this
    have := h x hx
    unfold Range.swapped; split
    · simp only; omega
    · exact this
  unfold compact
  cases hh : sortByStart (l.map Range.swapped) with
  | nil => intro r hr; cases hr
  | cons x xs =>
    rw [hh] at hsw
    exact mergeLoop_bound B xs x (hsw x (List.mem_cons_self ..)) (fun r hr => hsw r (List.mem_cons_of_mem _ hr))

theorem mergeLoop_length : ∀ (l : List Range) (cur : Range), (mergeLoop cur l).length ≤ l.length + 1 := by
  intro l
  induction l with
  | nil => intro cur; simp [mergeLoop]
  | cons e rest ih =>
    intro cur
    unfold mergeLoop
    split
    · have := ih ⟨cur.s, max cur.e e.e⟩; simp; omega
    · have := ih e; simp; omega

theorem compact_length (l : List Range) : (compact l).length ≤ l.length := by
  unfold compact
  have := length_sortByStart (l.map Range.swapped)
  cases hh : sortByStart (l.map Range.swapped) with
  | nil => simp
  | cons x xs =>
    rw [hh] at this
    have h2 := mergeLoop_length xs x
    simp only [List.length_cons, List.length_map] at this ⊢
    omega

end Um.Proto
