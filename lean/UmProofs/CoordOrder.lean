import UmProofs.CoordSync
/-!
# C07 — inside `sync_migration_state` the destination is served before the source

`RS.issued` is the list of calls the coordinator attempted (whatever the fault layer did to them).
-/
namespace Um.Coord
open Um Um.Broker

/-- the proxy a call is about -/
def callAddr : Call → Option String
  | .getProxy a => some a
  | .connect a => some a
  | .setRepl a _ _ => some a
  | .setCluster a _ _ => some a
  | .infoMgr a => some a
  | .ping a => some a
  | _ => none

@[simp] theorem log_issued (st : RS) (l : String) : (st.log l).issued = st.issued := rfl

theorem deliver_issued (st : RS) (tag : String) (c : Call) : (st.deliver tag c).1.issued = st.issued := rfl

theorem foldl_deliver_issued (l : List Call) (st : RS) :
    (l.foldl (fun st c => (st.deliver "late" c).1) st).issued = st.issued := by
  induction l generalizing st with
  | nil => rfl
  | cons c cs ih => simp only [List.foldl_cons]; rw [ih]; rfl

theorem tick_issued (st : RS) : st.tick.issued = st.issued := by
  unfold RS.tick
  dsimp only
  exact foldl_deliver_issued _ _

/-- every attempted call is logged, in order; a crashed coordinator attempts nothing -/
theorem call_issued (hk : Hook) (st : RS) (c : Call) :
    (st.call hk c).1.issued = st.issued ++ (if st.crashed then [] else [c]) := by
  unfold RS.call
  split
  · rename_i h; simp [h]
  · rename_i h
    have hc : st.crashed = false := by simpa using h
    rw [hc]
    simp only [Bool.false_eq_true, if_false]
    split
    · rfl
    · split <;> simp only [log_issued, deliver_issued, tick_issued]

/-- a `get_proxy` reply `Some(proxy)` is about the address that was asked for -/
theorem exec_getProxy_addr {s : Sys} {a ch : String} {v : VProxy}
    (h : (exec s (.getProxy a) ch).2 = .proxy (some v)) : v.address = a := by
  simp only [exec] at h
  split at h
  · rename_i w hw
    have : w = v := by injection h with h1; injection h1
    subst this
    exact proxyView_address hw
  · cases h
  · cases h

theorem deliver_reply (st : RS) (tag : String) (c : Call) :
    ∃ s ch, (st.deliver tag c).2 = (exec s c ch).2 := ⟨st.sys, _, rfl⟩

/-- whatever the faults, a reply the coordinator sees was produced by a delivery of that call -/
theorem call_reply {hk : Hook} {st : RS} {c : Call} {r : CallReply} (h : (st.call hk c).2 = some r) :
    ∃ s ch, r = (exec s c ch).2 := by
  unfold RS.call at h
  split at h
  · cases h
  · dsimp only at h
    split at h
    · cases h
    · split at h
      · injection h with h; exact ⟨_, _, h.symm⟩
      · cases h
      · cases h
      · injection h with h; exact ⟨_, _, h.symm⟩
      · cases h
      · cases h

/-- `send_meta` only talks to the proxy the view is addressed to -/
theorem sendMeta_issued (hk : Hook) (st : RS) (v : VProxy) :
    ∃ L, (sendMeta hk st v).1.issued = st.issued ++ L ∧ ∀ c ∈ L, callAddr c = some v.address := by
  unfold sendMeta
  dsimp only
  have e0 := call_issued hk st (.connect v.address)
  have m0 : ∀ c ∈ (if st.crashed then [] else [Call.connect v.address]), callAddr c = some v.address := by
    intro c hc; split at hc
    · cases hc
    · simp only [List.mem_singleton] at hc; subst hc; rfl
  split
  · have e1 := call_issued hk (st.call hk (.connect v.address)).1 (.setRepl v.address v.epoch (mkRMeta v))
    have m1 : ∀ c ∈ (if (st.call hk (.connect v.address)).1.crashed then []
        else [Call.setRepl v.address v.epoch (mkRMeta v)]), callAddr c = some v.address := by
      intro c hc; split at hc
      · cases hc
      · simp only [List.mem_singleton] at hc; subst hc; rfl
    split
    · have e2 := call_issued hk ((st.call hk (.connect v.address)).1.call hk (.setRepl v.address v.epoch (mkRMeta v))).1
        (.setCluster v.address v.epoch (mkCMeta st.sys.compress v))
      refine ⟨_, by rw [e2, e1, e0, List.append_assoc, List.append_assoc], ?_⟩
      intro c hc
      rcases List.mem_append.mp hc with hc | hc
      · exact m0 c hc
      · rcases List.mem_append.mp hc with hc | hc
        · exact m1 c hc
        · split at hc
          · cases hc
          · simp only [List.mem_singleton] at hc; subst hc; rfl
    · refine ⟨_, by rw [e1, e0, List.append_assoc], ?_⟩
      intro c hc
      rcases List.mem_append.mp hc with hc | hc
      · exact m0 c hc
      · exact m1 c hc
  · exact ⟨_, e0, m0⟩

/-- `get_proxy(a)` + `send_meta` only talks about / to `a` -/
theorem retrieveAndSend_issued (hk : Hook) (st : RS) (a : String) :
    ∃ L, (retrieveAndSend hk st a).1.issued = st.issued ++ L ∧ ∀ c ∈ L, callAddr c = some a := by
  unfold retrieveAndSend
  dsimp only
  have e0 := call_issued hk st (.getProxy a)
  have m0 : ∀ c ∈ (if st.crashed then [] else [Call.getProxy a]), callAddr c = some a := by
    intro c hc; split at hc
    · cases hc
    · simp only [List.mem_singleton] at hc; subst hc; rfl
  split
  · rename_i v hv
    obtain ⟨s, ch, hr⟩ := call_reply hv
    have hva : v.address = a := exec_getProxy_addr hr.symm
    obtain ⟨L, hL, hm⟩ := sendMeta_issued hk (st.call hk (.getProxy a)).1 v
    refine ⟨_, by rw [hL, e0, List.append_assoc], ?_⟩
    intro c hc
    rcases List.mem_append.mp hc with hc | hc
    · exact m0 c hc
    · rw [← hva]; exact hm c hc
  · exact ⟨_, e0, m0⟩
  · exact ⟨_, e0, m0⟩

/-- **commit, then the destination, then the source** — and the source only after the destination's
`set_cluster_meta` has returned `Ok` -/
theorem syncMigrationState_order (hk : Hook) (st : RS) (t : Task) {mi : MigInfo} (ht : tagInfo t.sr.tag = some mi) :
    ∃ Lc Ld Ls, (syncMigrationState hk st t).1.issued = st.issued ++ Lc ++ Ld ++ Ls ∧
      (∀ c ∈ Lc, c = Call.commit t) ∧
      (∀ c ∈ Ld, callAddr c = some mi.dstProxy) ∧
      (∀ c ∈ Ls, callAddr c = some mi.srcProxy) ∧
      (Ls ≠ [] → (retrieveAndSend hk (st.call hk (.commit t)).1 mi.dstProxy).2 = true) := by
  unfold syncMigrationState
  simp only [ht]
  have e0 := call_issued hk st (.commit t)
  have m0 : ∀ c ∈ (if st.crashed then [] else [Call.commit t]), c = Call.commit t := by
    intro c hc; split at hc
    · cases hc
    · simpa using hc
  split
  · obtain ⟨Ld, hLd, hmd⟩ := retrieveAndSend_issued hk (st.call hk (.commit t)).1 mi.dstProxy
    split
    · rename_i hd
      obtain ⟨Ls, hLs, hms⟩ := retrieveAndSend_issued hk (retrieveAndSend hk (st.call hk (.commit t)).1 mi.dstProxy).1 mi.srcProxy
      exact ⟨_, Ld, Ls, by rw [hLs, hLd, e0], m0, hmd, hms, fun _ => hd⟩
    · exact ⟨_, Ld, [], by rw [hLd, e0, List.append_nil], m0, hmd, (fun _ hc => nomatch hc), fun h => absurd rfl h⟩
  · exact ⟨_, [], [], by rw [e0, List.append_nil, List.append_nil], m0, (fun _ hc => nomatch hc), (fun _ hc => nomatch hc),
      fun h => absurd rfl h⟩

end Um.Coord
