import UmModel.Bytes
/-!
Canonical decimal rendering (what Redis / `to_string()` emit) and its round trip through the
`btoi` grammar model. Used by C19 (PTTL replies), C15 (RESP lengths), C17 (epochs, counts).
-/
namespace Um

/-- canonical decimal digits of a natural number, most significant first -/
def natDigits (n : Nat) : Bytes :=
  if h : n < 10 then [UInt8.ofNat (48 + n)]
  else natDigits (n / 10) ++ [UInt8.ofNat (48 + n % 10)]
decreasing_by omega

/-- canonical decimal rendering of an integer (`i64::to_string`) -/
def intDigits (i : Int) : Bytes :=
  if i < 0 then 45 :: natDigits i.natAbs else natDigits i.natAbs

theorem digitVal_ofNat (d : Nat) (h : d < 10) : digitVal (UInt8.ofNat (48 + d)) = some d := by
  have : (UInt8.ofNat (48 + d)).toNat = 48 + d := by
    simp [UInt8.toNat_ofNat]; omega
  unfold digitVal
  rw [this]
  have h1 : 48 ≤ 48 + d ∧ 48 + d ≤ 57 := by omega
  simp [h1]

theorem btouAux_append (max : Nat) (a b : Bytes) (acc : Nat) :
    btouAux max (a ++ b) acc = (btouAux max a acc).bind (btouAux max b) := by
  induction a generalizing acc with
  | nil => simp [btouAux]
  | cons d ds ih =>
    simp only [List.cons_append, btouAux]
    cases digitVal d with
    | none => simp
    | some x =>
      simp only
      split
      · simp
      · split
        · simp
        · exact ih _

theorem btouAux_single (max acc d : Nat) (hd : d < 10) (h : acc * 10 + d ≤ max) :
    btouAux max [UInt8.ofNat (48 + d)] acc = some (acc * 10 + d) := by
  simp only [btouAux, digitVal_ofNat d hd]
  have h1 : ¬ (acc * 10 > max) := by omega
  have h2 : ¬ (acc * 10 + d > max) := by omega
  simp [h1, h2]

theorem btouAux_natDigits (max n : Nat) (h : n ≤ max) :
    btouAux max (natDigits n) 0 = some n := by
  induction n using Nat.strongRecOn with
  | _ n ih =>
    unfold natDigits
    split
    · rename_i hlt
      have := btouAux_single max 0 n hlt (by omega)
      simpa using this
    · rename_i hge
      rw [btouAux_append, ih (n / 10) (by omega) (by omega)]
      simp only [Option.bind_some]
      have := btouAux_single max (n / 10) (n % 10) (by omega) (by omega)
      rw [this]; congr 1; omega

theorem natDigits_ne_nil (n : Nat) : natDigits n ≠ [] := by
  unfold natDigits; split <;> simp

theorem natDigits_head_digit (n : Nat) :
    ∃ d rest, natDigits n = d :: rest ∧ d ≠ 43 ∧ d ≠ 45 := by
  induction n using Nat.strongRecOn with
  | _ n ih =>
    unfold natDigits
    split
    · rename_i hlt
      refine ⟨_, [], rfl, ?_, ?_⟩ <;>
        (intro hh; have := congrArg UInt8.toNat hh; simp [UInt8.toNat_ofNat] at this; omega)
    · obtain ⟨d, rest, hd, h1, h2⟩ := ih (n / 10) (by omega)
      exact ⟨d, rest ++ [UInt8.ofNat (48 + n % 10)], by rw [hd]; rfl, h1, h2⟩

theorem btou_of_ne_nil (max : Nat) (b : Bytes) (h : b ≠ []) : btou max b = btouAux max b 0 := by
  cases b with
  | nil => exact absurd rfl h
  | cons _ _ => rfl

theorem btou_natDigits (max n : Nat) (h : n ≤ max) : btou max (natDigits n) = some n := by
  rw [btou_of_ne_nil _ _ (natDigits_ne_nil n)]
  exact btouAux_natDigits max n h

/-- `btoi::<i64>` reads back every canonical rendering of an `i64`. -/
theorem btoiI64_intDigits (i : Int) (hlo : -(i64NegMax : Int) ≤ i) (hhi : i ≤ (i64Max : Int)) :
    btoiI64 (intDigits i) = some i := by
  unfold btoiI64 intDigits
  split
  · rename_i hneg
    have hne := natDigits_ne_nil i.natAbs
    have hb := btouAux_natDigits i64NegMax i.natAbs (by unfold i64NegMax at *; omega)
    simp only [btoiS]
    cases hnd : natDigits i.natAbs with
    | nil => exact absurd hnd hne
    | cons d rest =>
      rw [hnd] at hb
      simp only [hb, Option.map_some, Int.ofNat_eq_natCast]
      congr 1; omega
  · rename_i hpos
    obtain ⟨d, rest, hd, h1, h2⟩ := natDigits_head_digit i.natAbs
    have hb := btou_natDigits i64Max i.natAbs (by unfold i64Max at *; omega)
    rw [hd] at hb ⊢
    unfold btoiS
    split
    · simp at *
    · rename_i heq; simp at heq; exact absurd heq.1 h1
    · rename_i heq; simp at heq; exact absurd heq.1 h2
    · rw [hb]; simp; omega

end Um
