import UmProofs.BrokerScaleBasic
/-!
# C10 — `commit_migration`: structural description of a successful commit (part A)

`findEntry`, `removeFirstImporting`, `commitDst` in terms of list decompositions.
-/
namespace Um.Broker.Scale
open Um Um.Slots Um.Broker

/-! ## list utilities -/

theorem nodup_map_inj {α β : Type} {f : α → β} {l : List α} (h : (l.map f).Nodup)
    {x y : α} (hx : x ∈ l) (hy : y ∈ l) (hxy : f x = f y) : x = y := by
  induction l with
  | nil => cases hx
  | cons a l ih =>
    rw [List.map_cons, List.nodup_cons] at h
    rcases List.mem_cons.mp hx with rfl | hx' <;> rcases List.mem_cons.mp hy with rfl | hy'
    · rfl
    · exact absurd (hxy ▸ List.mem_map_of_mem (f := f) hy') h.1
    · exact absurd (hxy ▸ List.mem_map_of_mem (f := f) hx') h.1
    · exact ih h.2 hx' hy'

theorem nodup_of_nodup_map {α β : Type} {f : α → β} {l : List α} (h : (l.map f).Nodup) : l.Nodup := by
  induction l with
  | nil => exact List.nodup_nil
  | cons a l ih =>
    rw [List.map_cons, List.nodup_cons] at h
    rw [List.nodup_cons]
    exact ⟨fun ha => h.1 (List.mem_map_of_mem ha), ih h.2⟩

/-- in a duplicate-free list, `x :: (l without x) ~ l` -/
theorem perm_cons_filter_ne {α : Type} [DecidableEq α] {l : List α} (h : l.Nodup) {x : α} (hx : x ∈ l) :
    l.Perm (x :: l.filter (fun y => !(y == x))) := by
  induction l with
  | nil => cases hx
  | cons a l ih =>
    rw [List.nodup_cons] at h
    by_cases hax : a = x
    · subst hax
      have : l.filter (fun y => !(y == a)) = l := by
        apply List.filter_eq_self.mpr
        intro y hy
        have : y ≠ a := fun e => h.1 (e ▸ hy)
        simp [this]
      simp [this]
    · have hx' : x ∈ l := by
        rcases List.mem_cons.mp hx with rfl | h'
        · exact absurd rfl hax
        · exact h'
      have h1 := ih h.2 hx'
      have : (a :: l).filter (fun y => !(y == x)) = a :: l.filter (fun y => !(y == x)) := by
        simp [hax]
      rw [this]
      exact (List.Perm.cons a h1).trans (List.Perm.swap x a _)

theorem getElem?_decomp {α : Type} {l : List α} {i : Nat} {a : α} (h : l[i]? = some a) :
    l = l.take i ++ a :: l.drop (i + 1) ∧ (l.take i).length = i := by
  induction l generalizing i with
  | nil => simp at h
  | cons x xs ih =>
    cases i with
    | zero => simp at h; subst h; simp
    | succ i =>
      simp only [List.getElem?_cons_succ] at h
      obtain ⟨h1, h2⟩ := ih h
      refine ⟨?_, by simp [h2]⟩
      simp only [List.take_succ_cons, List.drop_succ_cons, List.cons_append]
      rw [← h1]

/-! ## migration entry lists -/

theorem Cluster.mem_migs {c : Cluster} {e : MigStore} :
    e ∈ c.migs ↔ ∃ ch ∈ c.chunks, e ∈ ch.mig0 ∨ e ∈ ch.mig1 := by
  unfold Cluster.migs Chunk.migs
  simp [List.mem_flatMap]

/-- pending (migrating-out) entries of a cluster -/
def Cluster.pending (c : Cluster) : List MigStore := c.migs.filter (·.isMigrating)
/-- importing entries of a cluster -/
def Cluster.importing (c : Cluster) : List MigStore := c.migs.filter (fun m => !m.isMigrating)

theorem Cluster.isMigrating_eq_false_iff (c : Cluster) : c.isMigrating = false ↔ c.migs = [] := by
  unfold Cluster.isMigrating Cluster.migs Chunk.migs Chunk.hasMig
  simp only [List.any_eq_false, List.flatMap_eq_nil_iff, List.append_eq_nil_iff]
  constructor
  · intro h ch hch
    have := h ch hch
    simpa [List.isEmpty_iff] using this
  · intro h ch hch
    have := h ch hch
    simp [this.1, this.2]

/-! ## `findEntry` -/

/-- the match predicate of `findEntry` -/
def entryHit (ranges : RangeList) (epoch : Nat) (migrating : Bool) (m : MigStore) : Bool :=
  m.ranges == ranges && m.mm.epoch == epoch && m.isMigrating == migrating

theorem findEntry_go_some {ranges : RangeList} {epoch : Nat} {mg : Bool} {cs : List Chunk} {i j p : Nat}
    (h : findEntry.go ranges epoch mg cs i = some (j, p)) :
    ∃ ch, i ≤ j ∧ cs[j - i]? = some ch ∧
      ((p = 0 ∧ ∃ e ∈ ch.mig0, entryHit ranges epoch mg e = true) ∨
       (p = 1 ∧ ∃ e ∈ ch.mig1, entryHit ranges epoch mg e = true)) := by
  induction cs generalizing i with
  | nil => simp [findEntry.go] at h
  | cons c rest ih =>
    unfold findEntry.go at h
    dsimp only at h
    split at h
    · rename_i h0
      simp only [Option.some.injEq, Prod.mk.injEq] at h
      obtain ⟨rfl, rfl⟩ := h
      refine ⟨c, Nat.le_refl _, by simp, Or.inl ⟨rfl, ?_⟩⟩
      simpa [entryHit, List.any_eq_true] using h0
    · split at h
      · rename_i h1
        simp only [Option.some.injEq, Prod.mk.injEq] at h
        obtain ⟨rfl, rfl⟩ := h
        refine ⟨c, Nat.le_refl _, by simp, Or.inr ⟨rfl, ?_⟩⟩
        simpa [entryHit, List.any_eq_true] using h1
      · obtain ⟨ch, hle, hget, hp⟩ := ih h
        refine ⟨ch, by omega, ?_, hp⟩
        have : j - i = (j - (i + 1)) + 1 := by omega
        rw [this, List.getElem?_cons_succ]
        exact hget

theorem findEntry_go_none {ranges : RangeList} {epoch : Nat} {mg : Bool} {cs : List Chunk} {i : Nat}
    (h : findEntry.go ranges epoch mg cs i = none) :
    ∀ ch ∈ cs, (∀ e ∈ ch.mig0, entryHit ranges epoch mg e = false) ∧
      (∀ e ∈ ch.mig1, entryHit ranges epoch mg e = false) := by
  induction cs generalizing i with
  | nil => intro ch hch; cases hch
  | cons c rest ih =>
    unfold findEntry.go at h
    dsimp only at h
    split at h
    · cases h
    · rename_i h0
      split at h
      · cases h
      · rename_i h1
        intro ch hch
        rcases List.mem_cons.mp hch with rfl | hch'
        · constructor
          · intro e he
            have := h0
            simp only [List.any_eq_true, not_exists, not_and, Bool.not_eq_true] at this
            simpa [entryHit] using this e he
          · intro e he
            have := h1
            simp only [List.any_eq_true, not_exists, not_and, Bool.not_eq_true] at this
            simpa [entryHit] using this e he
        · exact ih h ch hch'

/-! ## `removeFirstImporting`, `commitDst` -/

/-- the twin predicate of the second loop of `commit_migration` -/
def isTwin (ranges : RangeList) (mm : MigMeta) (m : MigStore) : Bool :=
  !m.isMigrating && m.mm == mm && m.ranges == ranges

theorem removeFirstImporting_eq (l : List MigStore) (ranges : RangeList) (mm : MigMeta) :
    removeFirstImporting l ranges mm =
      if l.any (isTwin ranges mm) then some (l.eraseP (isTwin ranges mm)) else none := by
  unfold removeFirstImporting
  rw [List.eraseP_eq_eraseIdx]
  show (match l.findIdx? (isTwin ranges mm) with | some i => some (l.eraseIdx i) | none => none) = _
  cases hfi : l.findIdx? (isTwin ranges mm) with
  | none =>
    have := List.findIdx?_eq_none_iff.mp hfi
    have : l.any (isTwin ranges mm) = false := by
      simp only [List.any_eq_false]
      intro x hx; simpa using this x hx
    simp [this]
  | some i =>
    have h1 : (l.findIdx? (isTwin ranges mm)).isSome := by simp [hfi]
    rw [List.findIdx?_isSome] at h1
    simp [h1]

/-- what the second loop does to the destination chunk -/
def absorb (st : Option RangeList) (r : RangeList) : Option RangeList :=
  match st with
  | some rl => some (mergeAnother rl r)
  | none => some r

def land (ranges : RangeList) (mm : MigMeta) (part : Nat) (c : Chunk) : Chunk :=
  if part = 0 then { c with mig0 := c.mig0.eraseP (isTwin ranges mm), stable0 := absorb c.stable0 ranges }
  else { c with mig1 := c.mig1.eraseP (isTwin ranges mm), stable1 := absorb c.stable1 ranges }

theorem commitDst_decomp (ranges : RangeList) (mm : MigMeta) (part : Nat) (A B : List Chunk) (c : Chunk)
    (hA : ∀ a ∈ A, a.mig0.any (isTwin ranges mm) = false ∧ a.mig1.any (isTwin ranges mm) = false)
    (h0 : part = 0 → c.mig0.any (isTwin ranges mm) = true)
    (h1 : part ≠ 0 → c.mig0.any (isTwin ranges mm) = false ∧ c.mig1.any (isTwin ranges mm) = true) :
    commitDst ranges mm (A ++ c :: B) = A ++ land ranges mm part c :: B := by
  induction A with
  | nil =>
    simp only [List.nil_append]
    unfold commitDst
    rw [removeFirstImporting_eq, removeFirstImporting_eq]
    by_cases hp : part = 0
    · simp only [h0 hp, if_true, land, hp]
      cases c.stable0 <;> rfl
    · obtain ⟨ha, hb⟩ := h1 hp
      simp only [ha, hb, if_true, land, hp, if_false, Bool.false_eq_true]
      cases c.stable1 <;> rfl
  | cons a A ih =>
    simp only [List.cons_append]
    unfold commitDst
    rw [removeFirstImporting_eq, removeFirstImporting_eq]
    obtain ⟨ha, hb⟩ := hA a (List.mem_cons_self)
    simp only [ha, hb, Bool.false_eq_true, if_false]
    rw [ih (fun x hx => hA x (List.mem_cons_of_mem _ hx))]

/-! ## `setCluster` -/

theorem Store.findCluster_setCluster {s : Store} {name : String} {cl cl' : Cluster}
    (hf : s.findCluster name = some cl) (hn : cl'.name = cl.name) :
    (s.setCluster cl').findCluster name = some cl' := by
  have hcn := Store.findCluster_name hf
  unfold Store.findCluster Store.setCluster at *
  simp only
  generalize s.clusters = l at hf
  induction l with
  | nil => simp at hf
  | cons x xs ih =>
    simp only [List.map_cons]
    by_cases hx : x.name = name
    · have hx1 : (x.name == cl'.name) = true := by rw [hn, hcn]; simpa using hx
      have hx2 : (cl'.name == name) = true := by rw [hn, hcn]; simp
      simp [hx1, hx2]
    · have hx1 : (x.name == cl'.name) = false := by rw [hn, hcn]; simpa using hx
      have hx2 : (x.name == name) = false := by simpa using hx
      simp only [List.find?_cons, hx2] at hf
      simp only [hx1, List.find?_cons, Bool.false_eq_true, if_false, hx2]
      exact ih hf

@[simp] theorem Store.setCluster_proxies (s : Store) (c : Cluster) : (s.setCluster c).proxies = s.proxies := rfl
@[simp] theorem Store.setCluster_failed (s : Store) (c : Cluster) : (s.setCluster c).failed = s.failed := rfl
@[simp] theorem Store.setCluster_failures (s : Store) (c : Cluster) : (s.setCluster c).failures = s.failures := rfl

end Um.Broker.Scale
