import UmProofs.NodesSlots
/-!
The combinatorial core of C14: under the partition property of the installed meta every slot is
advertised by exactly one range, and which one is decided by `should_ignore_slots`.
-/
namespace Um.Nodes
open Um Um.Route Um.RouteCmd Um.Crc16

/-! ## `should_ignore_slots`, closed form of the generated table -/

theorem shouldIgnore_none (st : Option MigState) : shouldIgnore .none st = false := by
  cases st with
  | none => decide
  | some s => cases s <;> decide

theorem shouldIgnore_migrating (st : Option MigState) :
    shouldIgnore .migrating st = (st != some .preCheck) := by
  cases st with
  | none => decide
  | some s => cases s <;> decide

theorem shouldIgnore_importing (st : Option MigState) :
    shouldIgnore .importing st = (st == some .preCheck) := by
  cases st with
  | none => decide
  | some s => cases s <;> decide

/-! ## counting -/

theorem countP_split {α : Type} (c p : α → Bool) (l : List α) :
    l.countP p = l.countP (fun x => c x && p x) + l.countP (fun x => !c x && p x) := by
  induction l with
  | nil => rfl
  | cons x rest ih =>
    simp only [List.countP_cons]
    rw [ih]
    cases c x <;> cases p x <;> simp <;> omega

theorem countP_unique {α : Type} (p : α → Bool) (l : List α) (h : l.countP p = 1) (a b : α)
    (ha : a ∈ l) (hpa : p a = true) (hb : b ∈ l) (hpb : p b = true) : a = b := by
  induction l with
  | nil => cases ha
  | cons x rest ih =>
    rw [List.countP_cons] at h
    by_cases hx : p x = true
    · rw [if_pos hx] at h
      have h0 : rest.countP p = 0 := by omega
      have hnone : ∀ y ∈ rest, ¬ p y = true := List.countP_eq_zero.mp h0
      have ea : a = x := by
        rcases List.mem_cons.mp ha with e | e
        · exact e
        · exact absurd hpa (hnone a e)
      have eb : b = x := by
        rcases List.mem_cons.mp hb with e | e
        · exact e
        · exact absurd hpb (hnone b e)
      rw [ea, eb]
    · rw [if_neg hx] at h
      have ha' : a ∈ rest := by
        rcases List.mem_cons.mp ha with e | e
        · rw [e] at hpa; exact absurd hpa hx
        · exact e
      have hb' : b ∈ rest := by
        rcases List.mem_cons.mp hb with e | e
        · rw [e] at hpb; exact absurd hpb hx
        · exact e
      exact ih (by omega) ha' hb'

theorem filter_singleton {α : Type} (p : α → Bool) (l : List α) (h : l.countP p = 1) (a : α)
    (ha : a ∈ l) (hpa : p a = true) : l.filter p = [a] := by
  have hlen : (l.filter p).length = 1 := by rw [← List.countP_eq_length_filter]; exact h
  have hmem : a ∈ l.filter p := List.mem_filter.mpr ⟨ha, hpa⟩
  match hf : l.filter p, hlen with
  | [x], _ =>
    rw [hf] at hmem
    simp only [List.mem_singleton] at hmem
    rw [hmem]

theorem countP_exists {α : Type} (p : α → Bool) (l : List α) (h : l.countP p = 1) : ∃ a ∈ l, p a = true := by
  have : 0 < l.countP p := by omega
  exact List.countP_pos_iff.mp this

/-! ## the meta as a list of (address, slot range, range) -/

abbrev Triple := Addr × SlotRange × (Nat × Nat)

/-- every range of every `SlotRange` of the view with the address it would be advertised under: the
announce address for local nodes, the proxy address for peers -/
def triples (vw : View) : List Triple :=
  (allNodes vw).flatMap fun n => n.2.flatMap fun sr => sr.ranges.map fun r => (n.1, sr, r)

theorem filter_const_true {α : Type} (l : List α) : l.filter (fun _ => true) = l := by
  induction l with
  | nil => rfl
  | cons x rest ih => simp [ih]

theorem visPairs_node (states : States) (a : Addr) (srs : List SlotRange) :
    (((srs.flatMap fun sr => sr.ranges.map fun r => ((a, sr, r) : Triple)).filter
        fun t => visible states t.2.1).map fun t => (t.1, t.2.2)) =
      (visRanges states srs).map fun r => (a, r) := by
  unfold visRanges
  induction srs with
  | nil => rfl
  | cons sr rest ih =>
    simp only [List.flatMap_cons, List.filter_append, List.map_append, List.filter_cons]
    rw [ih]
    by_cases h : visible states sr = true
    · simp [h, List.filter_map, Function.comp_def, filter_const_true]
    · simp [h, List.filter_map, Function.comp_def]

theorem visPairs_triples (vw : View) (states : States) :
    visPairs states (allNodes vw) =
      ((triples vw).filter fun t => visible states t.2.1).map fun t => (t.1, t.2.2) := by
  unfold visPairs triples
  generalize allNodes vw = ns
  induction ns with
  | nil => rfl
  | cons n rest ih =>
    simp only [List.flatMap_cons, List.filter_append, List.map_append]
    rw [ih, visPairs_node]

theorem advList_triples (vw : View) (states : States) (s : Nat) :
    advList vw states s =
      ((triples vw).filter fun t => visible states t.2.1 && inRange t.2.2 s).map (·.1) := by
  unfold advList
  rw [visPairs_triples]
  simp only [List.filter_map, List.map_map, List.filter_filter, Function.comp_def]
  congr 1
  apply List.filter_congr
  intro t _
  exact Bool.and_comm _ _

/-! ## the partition property -/

def owns (s : Nat) (t : Triple) : Bool := t.2.1.tag != .importing && inRange t.2.2 s
def imports (s : Nat) (t : Triple) : Bool := t.2.1.tag == .importing && inRange t.2.2 s

/-- **Partition property of an installed view** (what the broker's views satisfy, C01): every slot is
covered by exactly one range of exactly one stable-or-migrating `SlotRange`; a slot of a migrating
`SlotRange` is covered by exactly one range of exactly one importing `SlotRange`, which carries the same
range list; importing ranges cover nothing else. -/
structure Partition (vw : View) : Prop where
  own : ∀ s, s < SLOT_NUM → (triples vw).countP (owns s) = 1
  imp_of_mig : ∀ s, s < SLOT_NUM → ∀ t ∈ triples vw, t.2.1.tag = .migrating → inRange t.2.2 s = true →
    (triples vw).countP (imports s) = 1
  imp_same : ∀ s, s < SLOT_NUM → ∀ t ∈ triples vw, ∀ u ∈ triples vw, t.2.1.tag = .migrating →
    inRange t.2.2 s = true → u.2.1.tag = .importing → inRange u.2.2 s = true → u.2.1.ranges = t.2.1.ranges
  mig_of_imp : ∀ s, s < SLOT_NUM → ∀ u ∈ triples vw, u.2.1.tag = .importing → inRange u.2.2 s = true →
    ∃ t ∈ triples vw, t.2.1.tag = .migrating ∧ inRange t.2.2 s = true

theorem owns_of (s : Nat) (t : Triple) (ht : t.2.1.tag ≠ .importing) (hr : inRange t.2.2 s = true) :
    owns s t = true := by
  simp [owns, ht, hr]

theorem imports_of (s : Nat) (t : Triple) (ht : t.2.1.tag = .importing) (hr : inRange t.2.2 s = true) :
    imports s t = true := by
  simp [imports, ht, hr]

/-- the unique owner of a slot -/
theorem Partition.owner_unique {vw : View} (hp : Partition vw) {s : Nat} (hs : s < SLOT_NUM) {a b : Triple}
    (ha : a ∈ triples vw) (hpa : owns s a = true) (hb : b ∈ triples vw) (hpb : owns s b = true) : a = b :=
  countP_unique _ _ (hp.own s hs) a b ha hpa hb hpb

section adv
variable {vw : View} (hp : Partition vw) (states : States) {s : Nat} (hs : s < SLOT_NUM)
include hp hs

/-- the advertised list is the owner alone when the owner is visible and every importer of the slot is
hidden -/
theorem advList_owner {o : Triple} (ho : o ∈ triples vw) (hown : owns s o = true)
    (hvis : visible states o.2.1 = true)
    (himp : ∀ u ∈ triples vw, imports s u = true → visible states u.2.1 = false) :
    advList vw states s = [o.1] := by
  rw [advList_triples]
  have hcount : (triples vw).countP (fun t => visible states t.2.1 && inRange t.2.2 s) = 1 := by
    rw [countP_split (fun t => t.2.1.tag != .importing)]
    have hA : (triples vw).countP (fun x => (x.2.1.tag != .importing) && (visible states x.2.1 && inRange x.2.2 s)) = 1 := by
      rw [← hp.own s hs]
      apply List.countP_congr
      intro x hx
      simp only [owns]
      constructor
      · intro h
        simp only [Bool.and_eq_true] at h
        simp [h.1, h.2.2]
      · intro h
        have hxo : x = o := hp.owner_unique hs hx h ho hown
        simp only [Bool.and_eq_true] at h
        rw [hxo] at h ⊢
        simp [h.1, h.2, hvis]
    have hB : (triples vw).countP (fun x => (!(x.2.1.tag != .importing)) && (visible states x.2.1 && inRange x.2.2 s)) = 0 := by
      apply List.countP_eq_zero.mpr
      intro x hx h
      simp only [Bool.and_eq_true, Bool.not_eq_true', bne_eq_false_iff_eq] at h
      have := himp x hx (imports_of s x h.1 h.2.2)
      rw [this] at h
      exact absurd h.2.1 (by simp)
    rw [hA, hB]
  have hpo : (fun t : Triple => visible states t.2.1 && inRange t.2.2 s) o = true := by
    simp only [owns, Bool.and_eq_true] at hown
    simp [hvis, hown.2]
  rw [filter_singleton _ _ hcount o ho hpo]
  rfl

/-- the advertised list is the importer alone when the owner is hidden and the importer visible -/
theorem advList_importer {o u : Triple} (ho : o ∈ triples vw) (hown : owns s o = true)
    (hmig : o.2.1.tag = .migrating) (hu : u ∈ triples vw) (himpu : imports s u = true)
    (hhid : visible states o.2.1 = false)
    (hvis : ∀ x ∈ triples vw, imports s x = true → visible states x.2.1 = true) :
    advList vw states s = [u.1] := by
  rw [advList_triples]
  have hor : inRange o.2.2 s = true := by
    simp only [owns, Bool.and_eq_true] at hown; exact hown.2
  have hcount : (triples vw).countP (fun t => visible states t.2.1 && inRange t.2.2 s) = 1 := by
    rw [countP_split (fun t => t.2.1.tag != .importing)]
    have hA : (triples vw).countP (fun x => (x.2.1.tag != .importing) && (visible states x.2.1 && inRange x.2.2 s)) = 0 := by
      apply List.countP_eq_zero.mpr
      intro x hx h
      simp only [Bool.and_eq_true] at h
      have hxo : x = o := hp.owner_unique hs hx (by simp [owns, h.1, h.2.2]) ho hown
      rw [hxo, hhid] at h
      exact absurd h.2.1 (by simp)
    have hB : (triples vw).countP (fun x => (!(x.2.1.tag != .importing)) && (visible states x.2.1 && inRange x.2.2 s)) = 1 := by
      rw [← hp.imp_of_mig s hs o ho hmig hor]
      apply List.countP_congr
      intro x hx
      simp only [imports]
      constructor
      · intro h
        simp only [Bool.and_eq_true, Bool.not_eq_true', bne_eq_false_iff_eq] at h
        simp [h.1, h.2.2]
      · intro h
        have hv := hvis x hx h
        simp only [Bool.and_eq_true, beq_iff_eq] at h
        simp [h.1, h.2, hv]
    rw [hA, hB]
  have hpu : (fun t : Triple => visible states t.2.1 && inRange t.2.2 s) u = true := by
    have hv := hvis u hu himpu
    simp only [imports, Bool.and_eq_true] at himpu
    simp [hv, himpu.2]
  rw [filter_singleton _ _ hcount u hu hpu]
  rfl

/-- a slot has an owner -/
theorem owner_exists : ∃ o ∈ triples vw, owns s o = true := countP_exists _ _ (hp.own s hs)

/-- a stable slot has no importer -/
theorem no_importer_of_stable {o : Triple} (ho : o ∈ triples vw) (hown : owns s o = true)
    (hst : o.2.1.tag = .none) : ∀ u ∈ triples vw, imports s u = true → False := by
  intro u hu hi
  simp only [imports, Bool.and_eq_true, beq_iff_eq] at hi
  obtain ⟨t, ht, htm, htr⟩ := hp.mig_of_imp s hs u hu hi.1 hi.2
  have : t = o := hp.owner_unique hs ht (owns_of s t (by rw [htm]; decide) htr) ho hown
  rw [this, hst] at htm
  cases htm

/-- **stable slot**: advertised exactly once, at its owner -/
theorem advList_stable {o : Triple} (ho : o ∈ triples vw) (hown : owns s o = true) (hst : o.2.1.tag = .none) :
    advList vw states s = [o.1] := by
  apply advList_owner hp states hs ho hown
  · simp [visible, hst, shouldIgnore_none]
  · intro u hu hi
    exact absurd hi (fun h => no_importer_of_stable hp hs ho hown hst u hu h)

/-- **migrating slot, local phase `PreCheck`**: advertised exactly once, at the source -/
theorem advList_migrating_pre {o : Triple} (ho : o ∈ triples vw) (hown : owns s o = true)
    (hmig : o.2.1.tag = .migrating) (hst : states o.2.1.ranges = some .preCheck) :
    advList vw states s = [o.1] := by
  have hor : inRange o.2.2 s = true := by
    simp only [owns, Bool.and_eq_true] at hown; exact hown.2
  apply advList_owner hp states hs ho hown
  · simp [visible, hmig, shouldIgnore_migrating, hst]
  · intro u hu hi
    simp only [imports, Bool.and_eq_true, beq_iff_eq] at hi
    have := hp.imp_same s hs o ho u hu hmig hor hi.1 hi.2
    simp [visible, hi.1, shouldIgnore_importing, this, hst]

/-- **migrating slot, any other local phase or no local task**: advertised exactly once, at the
destination -/
theorem advList_migrating_post {o u : Triple} (ho : o ∈ triples vw) (hown : owns s o = true)
    (hmig : o.2.1.tag = .migrating) (hu : u ∈ triples vw) (himpu : imports s u = true)
    (hst : states o.2.1.ranges ≠ some .preCheck) :
    advList vw states s = [u.1] := by
  have hor : inRange o.2.2 s = true := by
    simp only [owns, Bool.and_eq_true] at hown; exact hown.2
  apply advList_importer hp states hs ho hown hmig hu himpu
  · simp [visible, hmig, shouldIgnore_migrating, hst]
  · intro x hx hi
    simp only [imports, Bool.and_eq_true, beq_iff_eq] at hi
    have := hp.imp_same s hs o ho x hx hmig hor hi.1 hi.2
    simp [visible, hi.1, shouldIgnore_importing, this, hst]

/-- a migrating slot has an importer -/
theorem importer_exists {o : Triple} (ho : o ∈ triples vw) (hown : owns s o = true)
    (hmig : o.2.1.tag = .migrating) : ∃ u ∈ triples vw, imports s u = true := by
  have hor : inRange o.2.2 s = true := by
    simp only [owns, Bool.and_eq_true] at hown; exact hown.2
  exact countP_exists _ _ (hp.imp_of_mig s hs o ho hmig hor)

end adv

end Um.Nodes
