import UmProofs.MigrationStepG
/-! C03 invariant preservation: routing of a command at a proxy (`inv`, `dlvFwd`, `redispatch`), `ret`. -/
namespace Um.Mig

/-- a proxy routes the command of op `o` (freshly received, forwarded by the peer, or released from the barrier) -/
theorem step_route {s : Sys} {o : Op} (p : Proxy) (hG : GInv s) (hO : OInv s) (hW : WF s) (ho : o ∈ s.ops)
    (hnc : o.pc ≠ .inCrit) :
    GInv (route s o.id o.cmd p) ∧ OInv (route s o.id o.cmd p) := by
  have hoo := hO o ho
  have simple : ∀ pc : Pc, OpOk s { o with pc := pc } → GInv (setPc s o.id pc) ∧ OInv (setPc s o.id pc) :=
    fun pc h => ⟨ginv_setPc_other pc hG ho hnc, oinv_setPc hO hW ho h⟩
  have redirect : ∀ q : Proxy, GInv (if s.active then setPc s o.id (.fwd q) else setPc s o.id (.done .moved)) ∧
      OInv (if s.active then setPc s o.id (.fwd q) else setPc s o.id (.done .moved)) := by
    intro q
    split
    · exact simple _ ⟨hoo.1, hoo.2.1, trivial⟩
    · exact simple _ ⟨hoo.1, hoo.2.1, trivial⟩
  unfold route
  cases p
  · -- source proxy
    simp only
    split
    · rename_i hst
      split
      · exact simple _ ⟨hoo.1, hoo.2.1, trivial⟩
      · rename_i hb
        refine simple _ ⟨hoo.1, hoo.2.1, ?_⟩
        simp only [Bool.and_eq_true, Bool.or_eq_true, beq_iff_eq] at hst
        simp only [Bool.not_eq_true] at hb
        show srcRank s.srcSt ≤ 1
        rcases hst.2 with (h | h) | h
        · rw [h]; decide
        · rw [h]; decide
        · have := hG.a5b h; rw [hb] at this; cases this
    · exact redirect .D
  · -- destination proxy
    simp only
    split
    · rename_i hdt
      split
      · exact redirect .S
      · rename_i hds
        simp only [beq_iff_eq] at hds
        split
        · rename_i hbl
          split
          · rename_i hc
            refine ⟨ginv_lock hG hO hW ho hc hds (Or.inr rfl) (fun h => by cases h), ?_⟩
            have hO1 : OInv (setCrit s o.id .uSync) :=
              oinv_eff hO rfl (Nat.le_refl _) (fun _ => id) id id (eff_refl s)
                (fun _ _ => by simp [critDump, setCrit, CritPc.held]) (fun _ h => h)
            have hW1 : WF (setCrit s o.id .uSync) := hW
            exact oinv_setPc hO1 hW1 ho ⟨hoo.1, hoo.2.1, trivial⟩
          · exact simple _ ⟨hoo.1, hoo.2.1, hds⟩
        · rename_i hbl
          simp only [Bool.not_eq_true] at hbl
          exact simple _ ⟨hoo.1, hoo.2.1, hds, hbl⟩
    · rename_i hdt
      simp only [Bool.not_eq_true] at hdt
      refine simple _ ⟨hoo.1, hoo.2.1, hdt, ?_⟩
      have hr := hG.a4b hdt
      have hb1 := hG.b1 (by rw [hr]; decide)
      exact ⟨Or.inr hb1.1, fun _ => ⟨hb1.1, hG.b8 hdt, by rw [hb1.2]; rfl⟩⟩

theorem logical_setPc (s : Sys) (id : OpId) (pc : Pc) : logical (setPc s id pc) = logical s := rfl

theorem logical_route (s : Sys) (id : OpId) (c : Cmd) (p : Proxy) : logical (route s id c p) = logical s := by
  unfold route
  cases p <;> simp only <;> (repeat' split) <;> rfl

end Um.Mig
