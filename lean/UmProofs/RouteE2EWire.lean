import UmModel.RouteE2E
import UmProofs.ProtoFuel
/-!
# C02, wire layer: what the proxy parses is what the coordinator generated

`deliverPlain` / `deliverCompressed` composed with C17's round-trip theorems
(`parseWith_toArgs`, `parseWith_compressed`): the plain path delivers `dropEmpty m` exactly, the
compressed path delivers `m` up to the order of the node groups.  Both are instances of
`WireFaithful`, the only fact about the wire the routing theorems use.
-/
namespace Um.E2E
open Um Um.Broker Um.Route
open Um.Proto (WfMeta OrderOk Codec MetaEquiv ReprData)

/-! ## `String` ↔ UTF-8 bytes -/

theorem strS_strB (s : String) : strS (strB s) = s := by
  unfold strS strB
  have h : (⟨s.toUTF8.data.toList.toArray⟩ : ByteArray) = s.toUTF8 := by simp
  rw [h]
  simp only [String.fromUTF8?, String.toUTF8_eq_toByteArray]
  rw [dif_pos s.isValidUTF8]
  rfl

theorem ofPInfo_toPInfo (m : MigInfo) : ofPInfo (toPInfo m) = m := by
  cases m; simp [ofPInfo, toPInfo, strS_strB]

theorem ofPTag_toPTag (t : Tag) : ofPTag (toPTag t) = t := by
  cases t <;> simp [ofPTag, toPTag, ofPInfo_toPInfo]

theorem ofPSR_toPSR (s : SlotRange) : ofPSR (toPSR s) = s := by
  cases s with
  | mk ranges tag =>
    simp only [ofPSR, toPSR, ofPTag_toPTag, List.map_map]
    congr 1
    induction ranges with
    | nil => rfl
    | cons r rs ih => simp only [List.map_cons, Function.comp_apply]; rw [ih]

theorem ofPMap_toPMap (m : SNodeMap) : ofPMap (toPMap m) = m := by
  induction m with
  | nil => rfl
  | cons e es ih =>
    have h2 : (e.2.map toPSR).map ofPSR = e.2 := by
      rw [List.map_map]
      conv => rhs; rw [← List.map_id e.2]
      apply List.map_congr_left
      intro s _; exact ofPSR_toPSR s
    simp only [ofPMap, toPMap, List.map_cons] at ih ⊢
    rw [ih, strS_strB, h2]

theorem ofProto_toProto (m : EMeta) : ofProto (toProto m) = m := by
  cases m
  simp [ofProto, toProto, ofPMap_toPMap, strS_strB]

/-! ## `to_args` drops the entries without slot ranges -/

theorem toArgs_dropEmptyMap (m : SNodeMap) :
    Proto.NodeMap.toArgs (toPMap (dropEmptyMap m)) = Proto.NodeMap.toArgs (toPMap m) := by
  induction m with
  | nil => rfl
  | cons e es ih =>
    simp only [Proto.NodeMap.toArgs, toPMap, dropEmptyMap, List.map_cons, List.flatMap_cons] at ih ⊢
    cases h : e.2 with
    | nil =>
      simp only [List.filter_cons, h, List.isEmpty_nil, Bool.not_true, Bool.false_eq_true, if_false,
        List.map_nil, List.flatMap_nil, List.nil_append]
      exact ih
    | cons s ss =>
      simp only [List.filter_cons, h, List.isEmpty_cons, Bool.not_false, if_true, List.map_cons,
        List.flatMap_cons]
      rw [ih]

theorem toArgs_dropEmpty (order : List Proto.CfgField) (m : EMeta) :
    (toProto (dropEmpty m)).toArgs order = (toProto m).toArgs order := by
  unfold Proto.Meta.toArgs
  have e1 : (toProto (dropEmpty m)).peer = toPMap (dropEmptyMap m.peer) := rfl
  have e2 : (toProto (dropEmpty m)).local = toPMap (dropEmptyMap m.loc) := rfl
  have e3 : (toProto m).peer = toPMap m.peer := rfl
  have e4 : (toProto m).local = toPMap m.loc := rfl
  rw [e1, e2, e3, e4, toArgs_dropEmptyMap m.loc, toArgs_dropEmptyMap m.peer]
  rfl

/-! ## the only fact about the wire that routing needs -/

/-- `m'` (what the proxy parsed) carries the epoch, flags' force bit and cluster name of `m` (what the
coordinator generated) and the same non-empty node / peer groups, in any order -/
structure WireFaithful (m m' : EMeta) : Prop where
  epoch : m'.epoch = m.epoch
  force : m'.force = m.force
  cluster : m'.cluster = m.cluster
  loc : (dropEmptyMap m'.loc).Perm (dropEmptyMap m.loc)
  peer : (dropEmptyMap m'.peer).Perm (dropEmptyMap m.peer)

theorem dropEmptyMap_idem (m : SNodeMap) : dropEmptyMap (dropEmptyMap m) = dropEmptyMap m := by
  simp [dropEmptyMap, List.filter_filter]

theorem WireFaithful.of_dropEmpty (m : EMeta) : WireFaithful m (dropEmpty m) :=
  ⟨rfl, rfl, rfl, by simp [dropEmpty, dropEmptyMap_idem], by simp [dropEmpty, dropEmptyMap_idem]⟩

/-- **plain encoding**: under C17's well-formedness of the emitted meta, the proxy parses exactly
`dropEmpty m`, with no config warning, whatever the iteration order of the config map -/
theorem deliverPlain_ok (order : List Proto.CfgField) (m : EMeta)
    (h : WfMeta (toProto (dropEmpty m))) (ho : OrderOk order) :
    deliverPlain order m = .ok (dropEmpty m, true) := by
  unfold deliverPlain Proto.parse
  rw [← toArgs_dropEmpty, Proto.parseWith_toArgs _ order _ h ho]
  simp only [ofProto_toProto]

theorem deliverPlain_faithful (order : List Proto.CfgField) (m : EMeta)
    (h : WfMeta (toProto (dropEmpty m))) (ho : OrderOk order) :
    ∃ m', deliverPlain order m = .ok (m', true) ∧ WireFaithful m m' :=
  ⟨dropEmpty m, deliverPlain_ok order m h ho, WireFaithful.of_dropEmpty m⟩

theorem ofPMap_perm {a b : Proto.NodeMap} (h : a.Perm b) : (ofPMap a).Perm (ofPMap b) := h.map _

/-- **compressed encoding**, for any lossless codec.  Since /repo 23e5d8f the proxy compacts every
range list of the decoded blob (as the textual form's `RangeList::parse` does), so what it parses
is `(toProto m).compacted` up to the order of the groups (C17 `parseWith_compressed`).  For a meta
whose range lists are already in `compact` normal form (`hcmp`; what the broker serves: `SlotInv`'s
`NormalRanges`) that is `m` itself, slot-less masters included. -/
theorem deliverCompressed_faithful (c : Codec) (m : EMeta) (hc : m.compress = true)
    (he : m.epoch ≤ u64Max) (hr : ReprData (toProto m).data)
    (hcmp : (toProto m).compacted = toProto m) :
    ∃ m', deliverCompressed c.enc c.dec m = .ok (m', true) ∧ WireFaithful m m' := by
  obtain ⟨pm, hp, _, e2, e3, e4, e5, e6, _⟩ :=
    Proto.parseWith_compressed c (toProto m) rfl he hc hr
  rw [hcmp] at e2 e3 e4 e5 e6
  refine ⟨ofProto pm, ?_, ?_⟩
  · unfold deliverCompressed; rw [hp]
  · have hl : (ofProto pm).loc.Perm m.loc := by
      have := ofPMap_perm e5
      rw [show ofPMap (toProto m).local = m.loc from ofPMap_toPMap m.loc] at this
      exact this
    have hq : (ofProto pm).peer.Perm m.peer := by
      have := ofPMap_perm e6
      rw [show ofPMap (toProto m).peer = m.peer from ofPMap_toPMap m.peer] at this
      exact this
    refine ⟨e2, ?_, ?_, hl.filter _, hq.filter _⟩
    · show pm.flags.force = m.force
      rw [e3]; rfl
    · show strS pm.cluster = m.cluster
      rw [e4]; exact strS_strB _

end Um.E2E
