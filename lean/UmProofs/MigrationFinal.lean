import UmProofs.MigrationMain
/-! C03: from the inductive step to statements about whole executions. -/
namespace Um.Mig

theorem miginv_init (v0 : Option Val) (a : Bool) : MigInv (Sys.init v0 a) := by
  refine ⟨?_, ?_, ?_⟩
  · constructor <;> simp [Sys.init, srcRank, critDump, Moved, ScanPc.held, ScanPc.delPending, ScanPc.srcGone, scanLocked]
  · intro o ho; simp [Sys.init] at ho
  · simp [WF, ids, Sys.init]

theorem miginv_reachG {s0 s : Sys} (h0 : MigInv s0) (h : ReachG s0 s) : MigInv s := by
  induction h with
  | refl => exact h0
  | step l _ hg hs ih => exact (inv_step ih hg hs).1

/-- the atomic register driven by the client-command executions of a trace -/
def specRun : Option Val → List Label → Option Val
  | x, [] => x
  | x, (.exe (.op _) _ (.client c) _) :: ls => specRun (c.apply x).1 ls
  | x, _ :: ls => specRun x ls

/-- every client-command execution of the trace answers what the atomic register answers -/
def specOk : Option Val → List Label → Prop
  | _, [] => True
  | x, (.exe (.op _) _ (.client c) r) :: ls => r = (c.apply x).2 ∧ specOk (c.apply x).1 ls
  | x, _ :: ls => specOk x ls

/-- all steps of the run satisfy the hypotheses of the partial theorem -/
def runGood : Sys → List Label → Prop
  | _, [] => True
  | s, l :: ls => GoodStep s l ∧ ∀ s', step? s l = some s' → runGood s' ls

theorem specRun_step {x : Option Val} {s s' : Sys} {l : Label} (hx : logical s = x) (h : RegisterStep s l s') (ls : List Label) :
    specRun x (l :: ls) = specRun (logical s') ls ∧ (specOk x (l :: ls) ↔ specOk (logical s') ls) := by
  subst hx
  unfold RegisterStep at h
  cases l with
  | exe a n c r =>
    cases a with
    | op oid =>
      cases c with
      | client c' =>
        simp only at h
        simp only [specRun, specOk]
        rw [← h.2]
        exact ⟨rfl, ⟨fun hh => hh.2, fun hh => ⟨h.1, hh⟩⟩⟩
      | _ => simp only at h; simp [specRun, specOk, h]
    | _ => simp only at h; simp [specRun, specOk, h]
  | _ => simp only at h; simp [specRun, specOk, h]

theorem run_refines {s s' : Sys} (ls : List Label) (h : MigInv s) (hg : runGood s ls) (hr : runLabels s ls = some s') :
    MigInv s' ∧ specOk (logical s) ls ∧ logical s' = specRun (logical s) ls := by
  induction ls generalizing s with
  | nil =>
    simp only [runLabels] at hr
    cases hr
    exact ⟨h, trivial, rfl⟩
  | cons l ls ih =>
    unfold runLabels at hr
    cases hs : step? s l with
    | none => simp [hs] at hr
    | some s1 =>
      simp only [hs] at hr
      obtain ⟨hg1, hg2⟩ := hg
      obtain ⟨hi, hreg⟩ := inv_step h hg1 hs
      obtain ⟨h1, h2, h3⟩ := ih hi (hg2 s1 hs) hr
      obtain ⟨e1, e2⟩ := specRun_step rfl hreg ls
      exact ⟨h1, e2.mpr h2, by rw [h3, e1]⟩

/-- after the commit and at quiescence the source is empty -/
theorem quiescent_src_none {s : Sys} (h : MigInv s) (hq : Quiescent s) : s.src = none ∧ s.dst = logical s := by
  obtain ⟨_, _, _, _, hst, _⟩ := hq
  have hr := h.1.a4a hst
  have hsrc := (h.1.b1 (by rw [hr]; decide)).1
  refine ⟨hsrc, ?_⟩
  unfold logical
  rw [hsrc]
  cases s.dst <;> rfl

/-- decidable form of `GoodStep` -/
def goodB (s : Sys) : Label → Bool
  | .commit .D => (critDump s).isNone
  | _ => true

theorem goodStep_of_goodB {s : Sys} {l : Label} (h : goodB s l = true) : GoodStep s l := by
  intro hl
  subst hl
  simp only [goodB, Option.isNone_iff_eq_none] at h
  exact h

/-- run a list of labels, refusing steps outside the hypotheses of the partial theorem -/
def runLabelsG (s : Sys) : List Label → Option Sys
  | [] => some s
  | l :: ls => if goodB s l then
      match step? s l with
      | some s' => runLabelsG s' ls
      | none => none
    else none

theorem runLabelsG_spec {s s' : Sys} (ls : List Label) (h : runLabelsG s ls = some s') :
    runLabels s ls = some s' ∧ runGood s ls ∧ ReachG s s' := by
  induction ls generalizing s with
  | nil => simp only [runLabelsG] at h; cases h; exact ⟨rfl, trivial, ReachG.refl⟩
  | cons l ls ih =>
    unfold runLabelsG at h
    by_cases hg : goodB s l = true
    · simp only [hg, if_true] at h
      cases hs : step? s l with
      | none => simp [hs] at h
      | some s1 =>
        simp only [hs] at h
        obtain ⟨h1, h2, h3⟩ := ih h
        refine ⟨by simp [runLabels, hs, h1], ⟨goodStep_of_goodB hg, ?_⟩, ?_⟩
        · intro s2 hs2; rw [hs] at hs2; cases hs2; exact h2
        · clear ih h1 h2 h
          induction h3 with
          | refl => exact ReachG.step l ReachG.refl (goodStep_of_goodB hg) hs
          | step l' _ hg' hs' ih' => exact ReachG.step l' ih' hg' hs'
    · simp [hg] at h

end Um.Mig
