import UmProofs.BrokerSlotsPlanC
/-!
# C01, planning layer — `srcChunks` and `removeSlotsFromSrc`

Between two source masters nothing is pending (`curSlots = []`, `BInv`). Slot bookkeeping is by
`List.count`: for every slot `x`,
`count x (stable slots of the new chunks) + count x (slots of the emitted tasks)` is what it was.
-/
namespace Um.Broker.Plan
open Um Um.Slots Um.Broker

/-- slots of an optional stable list -/
def optSlots (o : Option RangeList) : List Nat := (o.map slotsOf).getD []

@[simp] theorem optSlots_none : optSlots none = [] := rfl
@[simp] theorem optSlots_some (rl : RangeList) : optSlots (some rl) = slotsOf rl := rfl

theorem count_stableSlots_cons (ch : Chunk) (rest : List Chunk) (x : Nat) :
    (stableSlots (ch :: rest)).count x =
      (optSlots ch.stable0).count x + (optSlots ch.stable1).count x + (stableSlots rest).count x := by
  rw [stableSlots_cons, stables_flatMap]
  simp only [List.count_append, optSlots]

/-- the state between two source masters -/
structure BInv (P : OutParams) (st : LoopSt) : Prop where
  empty : st.curSlots = []
  side : st.dstIdx ≠ P.dstMasterNum → st.curNum < dstFinalOf P st.dstIdx
  le : st.dstIdx ≤ P.dstMasterNum
  tasks : ∀ m ∈ st.out, TaskShape P.epoch P.srcChunkNum P.dstMasterNum m

/-- the per-half body of the outer loop -/
def halfStep (P : OutParams) (i part : Nat) (o : Option RangeList) (st : LoopSt) : R (Option RangeList × LoopSt) :=
  match o with
  | some rl => do let (rl', st') ← srcWhile P i part loopFuel rl st; pure (some rl', st')
  | none => pure (none, st)

theorem srcChunks_cons (P : OutParams) (ch : Chunk) (rest : List Chunk) (i : Nat) (st : LoopSt) :
    srcChunks P (ch :: rest) i st =
      (halfStep P i 0 ch.stable0 st >>= fun a =>
        halfStep P i 1 ch.stable1 a.2 >>= fun b =>
          srcChunks P rest (i + 1) b.2 >>= fun t =>
            pure ({ ch with stable0 := a.1, stable1 := b.1 } :: t.1, t.2)) := by
  rw [srcChunks]
  unfold halfStep
  cases ch.stable0 <;> cases ch.stable1 <;> simp only [bind_assoc, pure_bind]

def OptNormal (o : Option RangeList) : Prop := ∀ rl, o = some rl → NormalRanges rl

theorem halfStep_spec (P : OutParams) (hav : 1 ≤ P.average) (i part : Nat) (o o' : Option RangeList)
    (st st' : LoopSt) (hb : BInv P st) (hn : OptNormal o)
    (hnd : ∀ x, (optSlots o).count x + (outSlots st.out).count x ≤ 1)
    (h : halfStep P i part o st = R.ok (o', st')) :
    BInv P st' ∧ OptNormal o' ∧ o'.isSome = o.isSome ∧
      ∀ x, (optSlots o').count x + (outSlots st'.out).count x =
        (optSlots o).count x + (outSlots st.out).count x := by
  cases o with
  | none =>
    simp only [halfStep, pure_eq_ok] at h
    injection h with h
    injection h with h1 h2
    subst h1; subst h2
    exact ⟨hb, hn, rfl, fun _ => rfl⟩
  | some rl =>
    simp only [halfStep] at h
    obtain ⟨⟨rl', st1⟩, hw, h⟩ := bind_ok h
    simp only [pure_eq_ok] at h
    injection h with h
    injection h with h1 h2
    subst h1; subst h2
    have hnr : NormalRanges rl := hn rl rfl
    have hinv : SrcInv P i part rl st := by
      refine ⟨normalRanges_wf rl hnr, hb.empty ▸ wf_nil, ?_, hb.side, hb.le,
        fun hx => absurd hb.empty hx, hb.tasks⟩
      apply nodup_of_count
      intro x
      rw [count_loopSlots, hb.empty]
      have := hnd x
      simp only [optSlots_some, slotsOf_nil, List.count_nil] at this ⊢
      omega
    obtain ⟨hi, hp, hnn, he⟩ := srcWhile_spec P hav i part loopFuel rl rl' st st1 hinv hw
    refine ⟨⟨he, hi.side, hi.le, hi.tasks⟩, ?_, rfl, ?_⟩
    · intro r hr; injection hr with hr; subst hr; exact hnn hnr
    · intro x
      have := count_of_perm hp x
      rw [count_loopSlots, count_loopSlots, he, hb.empty] at this
      simp only [optSlots_some, slotsOf_nil, List.count_nil] at this ⊢
      omega

/-- **outer loops of `remove_slots_from_src`** -/
theorem srcChunks_spec (P : OutParams) (hav : 1 ≤ P.average) :
    ∀ (chs : List Chunk) (i : Nat) (st : LoopSt) (chs' : List Chunk) (st' : LoopSt),
      BInv P st → StableNormal chs →
      (∀ x, (stableSlots chs).count x + (outSlots st.out).count x ≤ 1) →
      srcChunks P chs i st = R.ok (chs', st') →
      BInv P st' ∧ StableNormal chs' ∧ chs'.length = chs.length ∧ (NoMig chs → NoMig chs') ∧
        ∀ x, (stableSlots chs').count x + (outSlots st'.out).count x =
          (stableSlots chs).count x + (outSlots st.out).count x := by
  intro chs
  induction chs with
  | nil =>
    intro i st chs' st' hb _ _ h
    simp only [srcChunks, pure_eq_ok] at h
    injection h with h
    injection h with h1 h2
    subst h1; subst h2
    exact ⟨hb, stableNormal_nil, rfl, id, fun _ => rfl⟩
  | cons ch rest ih =>
    intro i st chs' st' hb hsn hnd h
    rw [srcChunks_cons] at h
    obtain ⟨a, ha, h⟩ := bind_ok h
    obtain ⟨b, hbb, h⟩ := bind_ok h
    obtain ⟨t, ht, h⟩ := bind_ok h
    simp only [pure_eq_ok] at h
    injection h with h
    injection h with h1 h2
    subst h1; subst h2
    have hn0 : OptNormal ch.stable0 := fun rl hrl =>
      hsn ch (by simp) rl (by simp [Chunk.stables, hrl])
    have hn1 : OptNormal ch.stable1 := fun rl hrl =>
      hsn ch (by simp) rl (by simp [Chunk.stables, hrl])
    have hcnt := fun x => count_stableSlots_cons ch rest x
    obtain ⟨ba, na, sa, ca⟩ := halfStep_spec P hav i 0 ch.stable0 a.1 st a.2 hb hn0
      (fun x => by have := hnd x; have := hcnt x; omega) ha
    obtain ⟨bb, nb, sb, cb⟩ := halfStep_spec P hav i 1 ch.stable1 b.1 a.2 b.2 ba hn1
      (fun x => by have := hnd x; have := hcnt x; have := ca x; omega) hbb
    obtain ⟨bt, nt, lt, mt, ct⟩ := ih (i + 1) b.2 t.1 t.2 bb (fun c hc => hsn c (by simp [hc]))
      (fun x => by have := hnd x; have := hcnt x; have := ca x; have := cb x; omega) ht
    refine ⟨bt, ?_, by simp [lt], ?_, ?_⟩
    · intro c hc rl hrl
      rcases List.mem_cons.mp hc with hc | hc
      · subst hc
        simp only [Chunk.stables, List.mem_append, Option.mem_toList] at hrl
        rcases hrl with hrl | hrl
        · exact na rl hrl
        · exact nb rl hrl
      · exact nt c hc rl hrl
    · intro hnm c hc
      rcases List.mem_cons.mp hc with hc | hc
      · subst hc; exact hnm ch (by simp)
      · exact mt (fun c hc => hnm c (by simp [hc])) c hc
    · intro x
      have h1 := count_stableSlots_cons { ch with stable0 := a.1, stable1 := b.1 } t.1 x
      simp only at h1
      have := hcnt x; have := ca x; have := cb x; have := ct x
      omega

/-- number of chunks without slots (the destinations of a scale-out) -/
def emptyChunkNum (cl : Cluster) : Nat := (cl.chunks.filter fun c => c.stable0.isNone && c.stable1.isNone).length

/-- **`remove_slots_from_src`** on a cluster without pending entries -/
theorem removeSlotsFromSrc_spec {cl : Cluster} {epoch : Nat} {chunks : List Chunk} {ms : List MigSlots}
    (hb : cl.chunks.length * 2 ≤ SLOT_NUM) (hsn : StableNormal cl.chunks)
    (hnd : (stableSlots cl.chunks).Nodup)
    (h : removeSlotsFromSrc cl epoch = R.ok (chunks, ms)) :
    StableNormal chunks ∧ chunks.length = cl.chunks.length ∧ (NoMig cl.chunks → NoMig chunks) ∧
      (∀ m ∈ ms, TaskShape epoch (cl.chunks.length - emptyChunkNum cl) (emptyChunkNum cl * 2) m) ∧
      ∀ x, (stableSlots chunks).count x + (outSlots ms).count x = (stableSlots cl.chunks).count x := by
  unfold removeSlotsFromSrc at h
  simp only [pure_eq_ok] at h
  split at h
  · cases h
  rename_i hne
  have hM : 0 < cl.chunks.length * 2 := by
    have : cl.chunks.length * 2 ≠ 0 := by simpa using hne
    omega
  have havg : 1 ≤ SLOT_NUM / (cl.chunks.length * 2) := (Nat.le_div_iff_mul_le hM).mpr (by omega)
  obtain ⟨⟨chs, st⟩, hs, h⟩ := bind_ok h
  injection h with h
  injection h with h1 h2
  subst h1; subst h2
  have := srcChunks_spec _ havg cl.chunks 0 _ chs st
    ⟨rfl, fun _ => by simp only [dstFinalOf]; omega, Nat.zero_le _, fun m hm => by cases hm⟩ hsn
    (fun x => by have := count_of_nodup hnd x; simp [outSlots]; omega) hs
  obtain ⟨bi, sn, len, nm, cnt⟩ := this
  refine ⟨sn, len, nm, bi.tasks, fun x => ?_⟩
  have := cnt x
  simpa [outSlots] using this

end Um.Broker.Plan
