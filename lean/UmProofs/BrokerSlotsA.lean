import UmProofs.BrokerDefs
/-!
# Range-list lemmas: what `compact` does to the slot set

`compact_spec`: on a list of well-formed (`start ≤ end`), pairwise disjoint ranges, `compact`
yields a normal-form list covering exactly the same slots. `compact_of_normal`: `compact` is the
identity on normal-form lists.
-/
namespace Um.Broker
open Um Um.Slots

/-- every range has `start ≤ end` -/
def WFRanges (l : RangeList) : Prop := ∀ r ∈ l, r.1 ≤ r.2

theorem mem_rangeSlots (r : Range) (x : Nat) : x ∈ rangeSlots r ↔ r.1 ≤ x ∧ x ≤ r.2 := by
  unfold rangeSlots
  rw [List.mem_range'_1]
  omega

theorem nodup_rangeSlots (r : Range) : (rangeSlots r).Nodup := by
  unfold rangeSlots; exact List.nodup_range' (step := 1) (by omega)

theorem slotsOf_nil : slotsOf [] = [] := rfl
theorem slotsOf_cons (r : Range) (l : RangeList) : slotsOf (r :: l) = rangeSlots r ++ slotsOf l := by
  simp [slotsOf]
theorem slotsOf_append (a b : RangeList) : slotsOf (a ++ b) = slotsOf a ++ slotsOf b := by
  simp [slotsOf]

theorem mem_slotsOf (l : RangeList) (x : Nat) : x ∈ slotsOf l ↔ ∃ r ∈ l, r.1 ≤ x ∧ x ≤ r.2 := by
  simp only [slotsOf, List.mem_flatMap, mem_rangeSlots]

/-- two adjacent ranges cover the same slots as their union -/
theorem rangeSlots_adjacent (a b c : Nat) (h1 : a ≤ b) (h2 : b + 1 ≤ c) :
    rangeSlots (a, c) = rangeSlots (a, b) ++ rangeSlots (b + 1, c) := by
  unfold rangeSlots
  simp only
  have : c + 1 - a = (b + 1 - a) + (c + 1 - (b + 1)) := by omega
  rw [this, ← List.range'_append_1]
  congr 2
  omega

theorem map_normRange_of_wf (l : RangeList) (h : WFRanges l) : l.map normRange = l := by
  induction l with
  | nil => rfl
  | cons r rs ih =>
    have hr : r.1 ≤ r.2 := h r (by simp)
    have : normRange r = r := by unfold normRange; simp; omega
    simp only [List.map_cons, this]
    rw [ih (fun x hx => h x (by simp [hx]))]

/-- head of the merge pass keeps the start of `cur` -/
theorem mergeGo_head (cur : Range) (rest : List Range) :
    ∃ hd tl, mergeGo cur rest = hd :: tl ∧ hd.1 = cur.1 := by
  induction rest generalizing cur with
  | nil => exact ⟨cur, [], rfl, rfl⟩
  | cons e es ih =>
    unfold mergeGo
    split
    · obtain ⟨hd, tl, h1, h2⟩ := ih (cur.1, max cur.2 e.2)
      exact ⟨hd, tl, h1, h2⟩
    · exact ⟨cur, _, rfl, rfl⟩

theorem normalRanges_cons (r : Range) (l : RangeList) (hr : r.1 ≤ r.2)
    (hl : NormalRanges l) (hgap : ∀ hd tl, l = hd :: tl → r.2 + 1 < hd.1) : NormalRanges (r :: l) := by
  cases l with
  | nil => exact hr
  | cons hd tl => exact ⟨hr, hgap hd tl rfl, hl⟩

/-- the merge pass on a start-sorted list of well-formed, pairwise disjoint ranges keeps the
slots (as a list, in order) and produces a normal-form list -/
theorem mergeGo_spec (cur : Range) (rest : List Range)
    (hcur : cur.1 ≤ cur.2) (hwf : WFRanges rest)
    (hle : ∀ e ∈ rest, cur.1 ≤ e.1) (hsorted : rest.Pairwise (fun a b => a.1 ≤ b.1))
    (hnd : (rangeSlots cur ++ slotsOf rest).Nodup) :
    slotsOf (mergeGo cur rest) = rangeSlots cur ++ slotsOf rest ∧ NormalRanges (mergeGo cur rest) := by
  induction rest generalizing cur with
  | nil =>
    refine ⟨by simp [mergeGo, slotsOf_cons, slotsOf_nil], ?_⟩
    simpa [mergeGo, NormalRanges] using hcur
  | cons e es ih =>
    have he : e.1 ≤ e.2 := hwf e (by simp)
    have hce : cur.1 ≤ e.1 := hle e (by simp)
    have hes_wf : WFRanges es := fun x hx => hwf x (by simp [hx])
    have hes_sorted : es.Pairwise (fun a b => a.1 ≤ b.1) := (List.pairwise_cons.mp hsorted).2
    have he_le : ∀ x ∈ es, e.1 ≤ x.1 := (List.pairwise_cons.mp hsorted).1
    -- disjointness of cur and e
    have hdisj : cur.2 < e.1 := by
      rw [slotsOf_cons] at hnd
      by_cases hlt : cur.2 < e.1
      · exact hlt
      · exfalso
        have h1 : e.1 ∈ rangeSlots cur := (mem_rangeSlots _ _).2 ⟨hce, by omega⟩
        have h2 : e.1 ∈ rangeSlots e ++ slotsOf es :=
          List.mem_append_left _ ((mem_rangeSlots _ _).2 ⟨Nat.le_refl _, he⟩)
        exact (List.nodup_append.mp hnd).2.2 _ h1 _ h2 rfl
    unfold mergeGo
    split
    · -- adjacent: merge
      rename_i hge
      have hadj : e.1 = cur.2 + 1 := by omega
      have hmax : max cur.2 e.2 = e.2 := by omega
      have hslots : rangeSlots (cur.1, max cur.2 e.2) = rangeSlots cur ++ rangeSlots e := by
        rw [hmax]
        have := rangeSlots_adjacent cur.1 cur.2 e.2 hcur (by omega)
        rw [this]
        have h2 : (cur.2 + 1, e.2) = e := by
          cases e; simp at hadj ⊢; omega
        rw [h2]
      have hnd' : (rangeSlots (cur.1, max cur.2 e.2) ++ slotsOf es).Nodup := by
        rw [hslots, List.append_assoc, ← slotsOf_cons]; exact hnd
      obtain ⟨h1, h2⟩ := ih (cur.1, max cur.2 e.2) (by simp; omega) hes_wf
        (fun x hx => by have := he_le x hx; simp; omega) hes_sorted hnd'
      refine ⟨?_, h2⟩
      rw [h1, hslots, slotsOf_cons, List.append_assoc]
    · -- gap: keep cur, continue with e
      rename_i hgap
      have hnd' : (rangeSlots e ++ slotsOf es).Nodup := by
        rw [slotsOf_cons] at hnd
        exact (List.nodup_append.mp hnd).2.1
      obtain ⟨h1, h2⟩ := ih e he hes_wf he_le hes_sorted hnd'
      refine ⟨?_, ?_⟩
      · rw [slotsOf_cons, h1, slotsOf_cons]
      · apply normalRanges_cons cur _ hcur h2
        intro hd tl heq
        obtain ⟨hd', tl', h3, h4⟩ := mergeGo_head e es
        rw [heq] at h3
        injection h3 with h5 _
        subst h5
        omega

theorem startLe_trans (a b c : Range) : startLe a b = true → startLe b c = true → startLe a c = true := by
  unfold startLe; simp; omega

theorem startLe_total (a b : Range) : (startLe a b || startLe b a) = true := by
  unfold startLe; simp; omega

/-- **`compact` on disjoint well-formed ranges**: same slots, normal form. -/
theorem compact_spec (l : RangeList) (hwf : WFRanges l) (hnd : (slotsOf l).Nodup) :
    (slotsOf (compact l)).Perm (slotsOf l) ∧ NormalRanges (compact l) := by
  unfold compact
  rw [map_normRange_of_wf l hwf]
  have hperm := List.mergeSort_perm l startLe
  have hsorted := List.pairwise_mergeSort startLe_trans startLe_total l
  have hslots : (slotsOf (l.mergeSort startLe)).Perm (slotsOf l) := List.Perm.flatMap_right _ hperm
  have hnd' : (slotsOf (l.mergeSort startLe)).Nodup := hslots.nodup_iff.mpr hnd
  have hwf' : WFRanges (l.mergeSort startLe) := fun r hr => hwf r (hperm.mem_iff.mp hr)
  generalize l.mergeSort startLe = sl at *
  cases sl with
  | nil => exact ⟨by simpa [mergeSorted] using hslots, by simp [mergeSorted, NormalRanges]⟩
  | cons r rs =>
    have hp := List.pairwise_cons.mp hsorted
    have hspec := mergeGo_spec r rs (hwf' r (by simp)) (fun x hx => hwf' x (by simp [hx]))
      (fun e he => by have := hp.1 e he; simpa [startLe] using this)
      (hp.2.imp (by intro a b h; simpa [startLe] using h))
      (by rw [← slotsOf_cons]; exact hnd')
    refine ⟨?_, hspec.2⟩
    simp only [mergeSorted]
    rw [hspec.1, ← slotsOf_cons]
    exact hslots

theorem normalRanges_wf : ∀ (l : RangeList), NormalRanges l → WFRanges l
  | [], _ => by intro r hr; cases hr
  | [r], h => by intro x hx; simp at hx; subst hx; exact h
  | r :: r' :: rest, h => by
    intro x hx
    simp only [List.mem_cons] at hx
    rcases hx with hx | hx
    · subst hx; exact h.1
    · exact normalRanges_wf (r' :: rest) h.2.2 x (by simpa using hx)

theorem normalRanges_tail (r : Range) (l : RangeList) (h : NormalRanges (r :: l)) : NormalRanges l := by
  cases l with
  | nil => trivial
  | cons r' rest => exact h.2.2

/-- in a normal-form list every later range starts after `r.2 + 1` -/
theorem normalRanges_lt (r : Range) (l : RangeList) (h : NormalRanges (r :: l)) :
    ∀ x ∈ l, r.2 + 1 < x.1 := by
  induction l generalizing r with
  | nil => intro x hx; cases hx
  | cons r' rest ih =>
    intro x hx
    simp only [List.mem_cons] at hx
    rcases hx with hx | hx
    · subst hx; exact h.2.1
    · have := ih r' h.2.2 x hx
      have h1 := h.2.1
      have h2 : r'.1 ≤ r'.2 := normalRanges_wf _ h.2.2 r' (by simp)
      omega

theorem mergeGo_of_normal (r : Range) (l : RangeList) (h : NormalRanges (r :: l)) : mergeGo r l = r :: l := by
  induction l generalizing r with
  | nil => rfl
  | cons r' rest ih =>
    unfold mergeGo
    have := h.2.1
    have hn : ¬ (r.2 + 1 ≥ r'.1) := by omega
    simp only [hn, if_false]
    rw [ih r' h.2.2]

theorem normal_pairwise_startLe (l : RangeList) (h : NormalRanges l) :
    l.Pairwise (fun a b => startLe a b = true) := by
  induction l with
  | nil => exact List.Pairwise.nil
  | cons r rest ih =>
    apply List.Pairwise.cons
    · intro x hx
      have := normalRanges_lt r rest h x hx
      have hr : r.1 ≤ r.2 := normalRanges_wf _ h r (by simp)
      unfold startLe; simp; omega
    · exact ih (normalRanges_tail r rest h)

/-- `compact` is the identity on normal-form lists -/
theorem compact_of_normal (l : RangeList) (h : NormalRanges l) : compact l = l := by
  unfold compact
  rw [map_normRange_of_wf l (normalRanges_wf l h)]
  rw [List.mergeSort_of_pairwise (normal_pairwise_startLe l h)]
  cases l with
  | nil => rfl
  | cons r rest => exact mergeGo_of_normal r rest h

/-- the slots of a normal-form list are pairwise distinct -/
theorem nodup_slotsOf_of_normal (l : RangeList) (h : NormalRanges l) : (slotsOf l).Nodup := by
  induction l with
  | nil => simp [slotsOf_nil]
  | cons r rest ih =>
    rw [slotsOf_cons]
    refine List.nodup_append.mpr ⟨nodup_rangeSlots r, ih (normalRanges_tail r rest h), ?_⟩
    intro x hx y hy hxy
    subst hxy
    obtain ⟨r', hr', h1, h2⟩ := (mem_slotsOf _ _).mp hy
    have := normalRanges_lt r rest h r' hr'
    have := (mem_rangeSlots _ _).mp hx
    omega

end Um.Broker
