import UmProofs.BrokerResReplace2
/-!
# C12 — the host of the replacement chosen by `replace_failed_proxy`.
-/
namespace Um.Broker
open Um Um.Slots

/-- the partner-host function of one chunk -/
def partnerOf (f : String) (c : Chunk) : Option String :=
  if c.proxy0 == f then some c.host1 else if c.proxy1 == f then some c.host0 else none

theorem partnerHost_eq (s : Store) (f : String) :
    partnerHost s f = (s.clusters.flatMap (·.chunks)).findSome? (partnerOf f) := rfl

/-- under the invariant the partner host is the other host of *the* chunk holding `f` -/
theorem partnerHost_of_chunk {s : Store} (hr : RPt s) {c : Cluster} (hc : c ∈ s.clusters) {ch : Chunk}
    (hch : ch ∈ c.chunks) {f : String} (hf : f = ch.proxy0 ∨ f = ch.proxy1) :
    partnerHost s f = partnerOf f ch := by
  have hmem : ch ∈ s.clusters.flatMap (·.chunks) := List.mem_flatMap.mpr ⟨c, hc, hch⟩
  have hsome : (partnerOf f ch).isSome = true := by
    unfold partnerOf
    rcases hf with e | e
    · simp [e]
    · subst e; split <;> simp
  have : (partnerHost s f).isSome = true := by
    rw [partnerHost_eq, List.findSome?_isSome_iff]; exact ⟨ch, hmem, hsome⟩
  cases hp : partnerHost s f with
  | none => rw [hp] at this; cases this
  | some b =>
    rw [partnerHost_eq] at hp
    obtain ⟨ch', hm', hb⟩ := List.exists_of_findSome?_eq_some hp
    obtain ⟨c', hc', hch'⟩ := List.mem_flatMap.mp hm'
    have hf' : f = ch'.proxy0 ∨ f = ch'.proxy1 := by
      unfold partnerOf at hb
      split at hb
      · rename_i h; exact Or.inl (by simpa using h : ch'.proxy0 = f).symm
      · split at hb
        · rename_i h; exact Or.inr (by simpa using h : ch'.proxy1 = f).symm
        · cases hb
    have e1 : c = c' := hr.disjoint hc hc' (Cluster.mem_proxyAddrs.mpr ⟨ch, hch, hf⟩)
      (Cluster.mem_proxyAddrs.mpr ⟨ch', hch', hf'⟩)
    subst e1
    have e2 : ch = ch' := chunkAddrs_nodup_chunk (hr.2.2.1 c hc) hch hch' hf hf'
    subst e2
    exact hb.symm

theorem partnerHost_skelEq {s' s : Store} (h : SkelEq s' s) (f : String) :
    partnerHost s' f = partnerHost s f := by
  have key : ∀ l : List Cluster, (l.flatMap (·.chunks)).findSome? (partnerOf f) =
      ((l.map Cluster.skel).flatMap (·.2)).findSome?
        (fun k : CSkel => if k.proxy0 == f then some k.host1 else if k.proxy1 == f then some k.host0 else none) := by
    intro l
    induction l with
    | nil => rfl
    | cons c rest ih =>
      simp only [List.flatMap_cons, List.map_cons, List.findSome?_append, ih, Cluster.skel,
        List.findSome?_map]
      rfl
  rw [partnerHost_eq, partnerHost_eq, key, key, h.2]

theorem takeoverMaster_failed (s : Store) (n f : String) :
    (takeoverMaster s n f).1.failed = s.failed ∧ (takeoverMaster s n f).1.failures = s.failures := by
  unfold takeoverMaster
  simp only
  split
  · exact ⟨rfl, rfl⟩
  · split <;> exact ⟨rfl, rfl⟩

/-- the free healthy pool seen by `generate_new_free_proxy` is the pool before the call (the
failed proxy itself is in a cluster, hence not in the pool) -/
theorem afterTakeover_freeProxies {s : Store} (hx : RX s) {name f : String} {fp : ProxyRes}
    (hfp : s.findProxy f = some fp) (hfc : fp.cluster = some name) :
    (afterTakeover s name f).freeProxies = s.freeProxies := by
  have hsk := afterTakeover_skelEq s name f hx.nodupNames
  obtain ⟨hff, hfr⟩ := takeoverMaster_failed s name f
  obtain ⟨hfpm, hfa⟩ := Store.findProxy_some hfp
  have hproxies : (afterTakeover s name f).proxies = s.proxies := hsk.1
  have hfailures : (afterTakeover s name f).failures = s.failures := hfr
  unfold Store.freeProxies Store.hasFailureKey
  rw [hproxies, hfailures]
  apply List.filter_congr
  intro p hp
  have hne : p.cluster = none → p.addr ≠ f := by
    intro hpn e
    have : p = fp := res_nodup_map_inj hx.1.1 hp hfpm (e.trans hfa.symm)
    subst this; rw [hpn] at hfc; cases hfc
  have hfailed : (afterTakeover s name f).failed =
      if s.failed.contains f then s.failed else s.failed ++ [f] := by
    show (if (takeoverMaster s name f).1.failed.contains f then _ else _) = _
    rw [hff]
  rw [hfailed]
  cases hpc : p.cluster with
  | some _ => simp
  | none =>
    have := hne hpc
    split
    · rfl
    · simp [this]

/-- a free healthy proxy on a host other than the partner's and the failed proxy's own host makes
that host a preferred candidate -/
theorem third_host_candidate {s : Store} (hx : RX s) {f name : String} {fp : ProxyRes}
    (hfp : s.findProxy f = some fp) (hpc : fp.cluster = some name)
    {c : Cluster} (hcm : c ∈ s.clusters) {ch : Chunk} (hchm : ch ∈ c.chunks) {ph : String}
    (hph : (ch.proxy0 = f ∧ ph = ch.host1) ∨ (ch.proxy1 = f ∧ ph = ch.host0))
    {q : ProxyRes} (hq : q ∈ s.freeProxies) (hq1 : q.host ≠ ph) (hq2 : q.host ≠ fp.host)
    {row : Counts} (hrow : (buildLinkTable (afterTakeover s name f)).row fp.host = some row) :
    partnerHost (afterTakeover s name f) f = some ph ∧
    ∃ n, (q.host, n) ∈ replCands1 (afterTakeover s name f) f row := by
  have hsk := afterTakeover_skelEq s name f hx.nodupNames
  have hfree := afterTakeover_freeProxies hx hfp hpc
  have hpart : partnerHost (afterTakeover s name f) f = some ph := by
    rw [partnerHost_skelEq hsk]
    rcases hph with ⟨e1, e2⟩ | ⟨e1, e2⟩
    · rw [partnerHost_of_chunk hx.1 hcm hchm (Or.inl e1.symm)]
      simp [partnerOf, e1, e2]
    · have hpq : ch.proxy0 ≠ ch.proxy1 := by
        have := (List.pairwise_flatMap.mp (hx.1.2.2.1 c hcm)).1 ch hchm
        simpa using this
      rw [partnerHost_of_chunk hx.1 hcm hchm (Or.inr e1.symm)]
      have : (ch.proxy0 == f) = false := by rw [← e1]; simpa using hpq
      simp [partnerOf, e1, e2, this]
  refine ⟨hpart, ?_⟩
  obtain ⟨hfpm, _⟩ := Store.findProxy_some hfp
  have hq' := Store.mem_freeProxies.mp hq
  have hlink := (buildLinkTable_link (afterTakeover s name f) fp.host q.host (fun e => hq2 e.symm)
    ⟨fp, hsk.1 ▸ hfpm, rfl⟩ ⟨q, hsk.1 ▸ hq'.1, rfl, hq'.2.1⟩).1
  obtain ⟨row', hrow', n, hn⟩ := hlink
  rw [hrow] at hrow'; cases hrow'
  have hq0 : (q.host, n) ∈ replCands0 (afterTakeover s name f) row := by
    unfold replCands0
    refine List.mem_filter.mpr ⟨hn, ?_⟩
    exact (freeHostCounts_get_isSome _ _).mpr ⟨q, hfree ▸ hq, rfl⟩
  refine ⟨n, ?_⟩
  unfold replCands1
  refine List.mem_filter.mpr ⟨hq0, ?_⟩
  rw [hpart]; simpa using hq1

/-- … and then `replace_failed_proxy` is not refused -/
theorem replacement_not_refused {s : Store} (hx : RX s) {f choice : String}
    {c : Cluster} (hcm : c ∈ s.clusters) {ch : Chunk} (hchm : ch ∈ c.chunks) {ph : String}
    (hph : (ch.proxy0 = f ∧ ph = ch.host1) ∨ (ch.proxy1 = f ∧ ph = ch.host0))
    (hthird : ∃ fp, s.findProxy f = some fp ∧ ∃ q ∈ s.freeProxies, q.host ≠ ph ∧ q.host ≠ fp.host) :
    ∀ e, (replaceFailedProxy s f choice).2 ≠ R.err e := by
  intro e herr
  obtain ⟨fp0, hfp0, q, hq, hq1, hq2⟩ := hthird
  rcases replaceFailedProxy_spec s f choice with ⟨hnone, _⟩ | ⟨p, hfp, hpn, _⟩ | ⟨p, name, hfp, hpc, hnone, _⟩ |
      ⟨p, name, cl0, hfp, hpc, hcl0, h'⟩
  · rw [hnone] at hfp0; cases hfp0
  · -- f sits in a chunk, hence is tagged
    obtain ⟨hpm, hpa⟩ := Store.findProxy_some hfp
    have hin : f ∈ c.proxyAddrs := Cluster.mem_proxyAddrs.mpr ⟨ch, hchm, by
      rcases hph with ⟨e1, _⟩ | ⟨e1, _⟩
      · exact Or.inl e1.symm
      · exact Or.inr e1.symm⟩
    obtain ⟨p', hp', hpa', hpc'⟩ := hx.1.tag_of_mem hcm hin
    have : p' = p := res_nodup_map_inj hx.1.1 hp' hpm (hpa'.trans hpa.symm)
    subst this; rw [hpn] at hpc'; cases hpc'
  · obtain ⟨hpm, _⟩ := Store.findProxy_some hfp
    obtain ⟨cl, hcl, hcn, _⟩ := hx.1.2.2.2.2 p hpm name hpc
    exact Store.findCluster_none.mp hnone cl hcl hcn
  · have e0 : p = fp0 := by rw [hfp] at hfp0; exact Option.some.inj hfp0
    subst e0
    have hsk := afterTakeover_skelEq s name f hx.nodupNames
    rcases h' with ⟨_, h'⟩ | ⟨_, ⟨np, cl, _, _, h'⟩ | ⟨e', hg, h'⟩ | ⟨w, _, h'⟩ | ⟨w, _, h'⟩ | ⟨np, _, _, h'⟩⟩
    · -- ordered mode: `Ok(None)`
      rw [h'] at herr; cases herr
    · rw [h'] at herr; cases herr
    · rcases generateNewFreeProxy_err hg with ⟨_, hn⟩ | ⟨_, fp', row, hfp', hrow, hemp⟩
      · rw [findProxy_congr hsk.1 f, hfp] at hn; cases hn
      · have efp : fp' = p := by
          rw [findProxy_congr hsk.1 f, hfp] at hfp'; exact (Option.some.inj hfp').symm
        subst efp
        obtain ⟨_, n, hn⟩ := third_host_candidate hx hfp hpc hcm hchm hph hq hq1 hq2 hrow
        unfold replCands at hemp
        split at hemp
        · rename_i h1
          have : replCands1 (afterTakeover s name f) f row = [] := by simpa using h1
          rw [this] at hn; cases hn
        · rw [hemp] at hn; cases hn
    · rw [h'] at herr; cases herr
    · rw [h'] at herr; cases herr
    · rw [h'] at herr; cases herr

/-- **the host of the replacement.** If `replace_failed_proxy` installs a replacement `np` for the
in-cluster proxy `f`, then `np` was free and healthy before the call, and its host differs from the
host `ph` of the surviving partner whenever some host other than `ph` *and other than the failed
proxy's own host* had a free healthy proxy. -/
theorem replacement_host {s s' : Store} (hx : RX s) {f choice addr : String}
    (h : replaceFailedProxy s f choice = (s', R.ok (some addr))) :
    ∃ fp np, s.findProxy f = some fp ∧ np ∈ s.freeProxies ∧ np.addr = addr ∧ addr = choice ∧
      ∀ c ∈ s.clusters, ∀ ch ∈ c.chunks, ∀ ph,
        ((ch.proxy0 = f ∧ ph = ch.host1) ∨ (ch.proxy1 = f ∧ ph = ch.host0)) →
        (∃ q ∈ s.freeProxies, q.host ≠ ph ∧ q.host ≠ fp.host) → np.host ≠ ph := by
  rcases replaceFailedProxy_spec s f choice with ⟨_, h'⟩ | ⟨p, _, _, h'⟩ | ⟨p, name, _, _, _, h'⟩ |
      ⟨p, name, cl0, hfp, hpc, hcl0, h'⟩
  · rw [h] at h'; cases h'
  · rw [h] at h'; cases h'
  · rw [h] at h'; cases h'
  · have hsk := afterTakeover_skelEq s name f hx.nodupNames
    have hx2 : RX (afterTakeover s name f) := hsk.rx hx
    have hfree := afterTakeover_freeProxies hx hfp hpc
    rcases h' with ⟨_, h'⟩ | ⟨_, ⟨np, cl, hg, hc, h'⟩ | ⟨e, _, h'⟩ | ⟨w, _, h'⟩ | ⟨w, _, h'⟩ | ⟨np, _, _, h'⟩⟩
    · -- ordered mode never installs a replacement
      rw [h] at h'; cases h'
    · rw [h] at h'
      have hadd : addr = np.addr := by
        have := congrArg Prod.snd h'
        simpa using this
      obtain ⟨fp', row, hfp', hrow, hnp, hch, cnt, hcand⟩ := generateNewFreeProxy_ok hg
      have efp : fp' = p := by
        rw [findProxy_congr hsk.1 f, hfp] at hfp'; exact (Option.some.inj hfp').symm
      subst efp
      rw [hfree] at hnp
      refine ⟨fp', np, hfp, hnp, hadd.symm, hadd.trans hch, ?_⟩
      intro c hcm ch hchm ph hph ⟨q, hq, hq1, hq2⟩
      obtain ⟨hpart, n, hq1'⟩ := third_host_candidate hx hfp hpc hcm hchm hph hq hq1 hq2 hrow
      have hne : (replCands1 (afterTakeover s name f) f row).isEmpty = false := by
        cases hl : replCands1 (afterTakeover s name f) f row with
        | nil => rw [hl] at hq1'; cases hq1'
        | cons _ _ => rfl
      unfold replCands at hcand
      rw [hne] at hcand
      simp only [Bool.false_eq_true, if_false] at hcand
      unfold replCands1 at hcand
      have := (List.mem_filter.mp hcand).2
      rw [hpart] at this
      simpa using this
    · rw [h] at h'; cases h'
    · rw [h] at h'; cases h'
    · rw [h] at h'; cases h'
    · rw [h] at h'; cases h'

end Um.Broker
