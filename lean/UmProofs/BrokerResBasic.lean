import UmProofs.BrokerDefs
/-!
# C12 — basic lemmas: the `R` monad, store helpers, the resource skeleton of a store and the
pointwise form `RPt` of `ResInv`.
-/
namespace Um.Broker
open Um Um.Slots

/-! ## `R` -/

theorem R.bind_ok {α β} (a : α) (f : α → R β) : (R.ok a >>= f) = f a := rfl
theorem R.bind_err {α β} (e : Err) (f : α → R β) : (R.err e >>= f) = R.err e := rfl
theorem R.bind_panic {α β} (w : String) (f : α → R β) : (R.panic w >>= f) = R.panic w := rfl
theorem R.bind_bad {α β} (w : String) (f : α → R β) : (R.badChoice w >>= f) = R.badChoice w := rfl
theorem R.pure_eq {α} (a : α) : (pure a : R α) = R.ok a := rfl

theorem R.bind_eq_ok {α β} {x : R α} {f : α → R β} {b : β} :
    (x >>= f) = R.ok b ↔ ∃ a, x = R.ok a ∧ f a = R.ok b := by
  cases x <;> simp [R.bind_ok, R.bind_err, R.bind_panic, R.bind_bad]

theorem R.bind_eq_err {α β} {x : R α} {f : α → R β} {e : Err} :
    (x >>= f) = R.err e ↔ x = R.err e ∨ ∃ a, x = R.ok a ∧ f a = R.err e := by
  cases x <;> simp [R.bind_ok, R.bind_err, R.bind_panic, R.bind_bad]

theorem R.bind_eq_panic {α β} {x : R α} {f : α → R β} {w : String} :
    (x >>= f) = R.panic w ↔ x = R.panic w ∨ ∃ a, x = R.ok a ∧ f a = R.panic w := by
  cases x <;> simp [R.bind_ok, R.bind_err, R.bind_panic, R.bind_bad]

/-- "not a panic" -/
def R.NoPanic {α} (x : R α) : Prop := ∀ w, x ≠ R.panic w

theorem R.noPanic_bind {α β} {x : R α} {f : α → R β} (hx : x.NoPanic)
    (hf : ∀ a, x = R.ok a → (f a).NoPanic) : (x >>= f).NoPanic := by
  intro w h
  rcases R.bind_eq_panic.mp h with h | ⟨a, ha, h⟩
  · exact hx w h
  · exact hf a ha w h

@[simp] theorem R.noPanic_ok {α} (a : α) : (R.ok a).NoPanic := by intro w h; cases h
@[simp] theorem R.noPanic_err {α} (e : Err) : (R.err e : R α).NoPanic := by intro w h; cases h
@[simp] theorem R.noPanic_bad {α} (e : String) : (R.badChoice e : R α).NoPanic := by intro w h; cases h
@[simp] theorem R.noPanic_pure {α} (a : α) : (pure a : R α).NoPanic := R.noPanic_ok a

/-! ## lists -/

theorem res_nodup_map_inj {α β} {f : α → β} {l : List α} (h : (l.map f).Nodup) {a b : α}
    (ha : a ∈ l) (hb : b ∈ l) (hab : f a = f b) : a = b := by
  induction l with
  | nil => cases ha
  | cons x xs ih =>
    simp only [List.map_cons, List.nodup_cons, List.mem_map, not_exists, not_and] at h
    rcases List.mem_cons.mp ha with rfl | ha' <;> rcases List.mem_cons.mp hb with rfl | hb'
    · rfl
    · exact absurd hab.symm (h.1 b hb')
    · exact absurd hab (h.1 a ha')
    · exact ih h.2 ha' hb'

theorem find?_key_some {α} {key : α → String} {l : List α} {k : String} {x : α}
    (h : l.find? (fun y => key y == k) = some x) : x ∈ l ∧ key x = k := by
  have h1 := List.mem_of_find?_eq_some h
  have h2 := List.find?_some h
  exact ⟨h1, by simpa using h2⟩

theorem find?_key_none {α} {key : α → String} {l : List α} {k : String} :
    l.find? (fun y => key y == k) = none ↔ ∀ x ∈ l, key x ≠ k := by
  simp [List.find?_eq_none]

theorem find?_key_of_mem {α} {key : α → String} {l : List α} (hn : (l.map key).Nodup) {x : α}
    (hx : x ∈ l) : l.find? (fun y => key y == key x) = some x := by
  cases h : l.find? (fun y => key y == key x) with
  | none => exact absurd rfl (find?_key_none.mp h x hx)
  | some y =>
    obtain ⟨hy, hk⟩ := find?_key_some h
    rw [res_nodup_map_inj hn hy hx hk]

/-! ## store helpers -/

@[simp] theorem Store.bump_clusters (s : Store) : s.bump.clusters = s.clusters := rfl
@[simp] theorem Store.bump_proxies (s : Store) : s.bump.proxies = s.proxies := rfl
@[simp] theorem Store.bump_failed (s : Store) : s.bump.failed = s.failed := rfl
@[simp] theorem Store.bump_failures (s : Store) : s.bump.failures = s.failures := rfl
@[simp] theorem Store.bump_epoch (s : Store) : s.bump.globalEpoch = s.globalEpoch + 1 := rfl

@[simp] theorem Store.setCluster_proxies (s : Store) (c : Cluster) : (s.setCluster c).proxies = s.proxies := rfl
@[simp] theorem Store.setCluster_failed (s : Store) (c : Cluster) : (s.setCluster c).failed = s.failed := rfl
@[simp] theorem Store.setCluster_failures (s : Store) (c : Cluster) : (s.setCluster c).failures = s.failures := rfl
@[simp] theorem Store.setCluster_epoch (s : Store) (c : Cluster) : (s.setCluster c).globalEpoch = s.globalEpoch := rfl
theorem Store.setCluster_clusters (s : Store) (c : Cluster) :
    (s.setCluster c).clusters = s.clusters.map fun x => if x.name == c.name then c else x := rfl

@[simp] theorem Store.setProxyCluster_clusters (s : Store) (a : String) (v : Option String) :
    (s.setProxyCluster a v).clusters = s.clusters := rfl
@[simp] theorem Store.setProxyCluster_failed (s : Store) (a : String) (v : Option String) :
    (s.setProxyCluster a v).failed = s.failed := rfl
@[simp] theorem Store.setProxyCluster_failures (s : Store) (a : String) (v : Option String) :
    (s.setProxyCluster a v).failures = s.failures := rfl
@[simp] theorem Store.setProxyCluster_epoch (s : Store) (a : String) (v : Option String) :
    (s.setProxyCluster a v).globalEpoch = s.globalEpoch := rfl
theorem Store.setProxyCluster_proxies (s : Store) (a : String) (v : Option String) :
    (s.setProxyCluster a v).proxies =
      s.proxies.map fun p => if p.addr == a then { p with cluster := v } else p := rfl

theorem Store.findProxy_some {s : Store} {a : String} {p : ProxyRes} (h : s.findProxy a = some p) :
    p ∈ s.proxies ∧ p.addr = a := find?_key_some (key := ProxyRes.addr) h

theorem Store.findProxy_none {s : Store} {a : String} :
    s.findProxy a = none ↔ ∀ p ∈ s.proxies, p.addr ≠ a := find?_key_none (key := ProxyRes.addr)

theorem Store.findProxy_of_mem {s : Store} (hn : (s.proxies.map (·.addr)).Nodup) {p : ProxyRes}
    (hp : p ∈ s.proxies) : s.findProxy p.addr = some p := find?_key_of_mem (key := ProxyRes.addr) hn hp

theorem Store.findCluster_some {s : Store} {n : String} {c : Cluster} (h : s.findCluster n = some c) :
    c ∈ s.clusters ∧ c.name = n := find?_key_some (key := Cluster.name) h

theorem Store.findCluster_none {s : Store} {n : String} :
    s.findCluster n = none ↔ ∀ c ∈ s.clusters, c.name ≠ n := find?_key_none (key := Cluster.name)

theorem Store.findCluster_of_mem {s : Store} (hn : (s.clusters.map (·.name)).Nodup) {c : Cluster}
    (hc : c ∈ s.clusters) : s.findCluster c.name = some c := find?_key_of_mem (key := Cluster.name) hn hc

theorem Cluster.mem_proxyAddrs {c : Cluster} {a : String} :
    a ∈ c.proxyAddrs ↔ ∃ ch ∈ c.chunks, a = ch.proxy0 ∨ a = ch.proxy1 := by
  simp [Cluster.proxyAddrs, List.mem_flatMap]

/-! ## the part of the clusters that resource accounting depends on -/

structure CSkel where
  proxy0 : String
  proxy1 : String
  host0 : String
  host1 : String
  node0 : String
  node1 : String
  node2 : String
  node3 : String
  deriving DecidableEq, Repr

def Chunk.skel (c : Chunk) : CSkel :=
  ⟨c.proxy0, c.proxy1, c.host0, c.host1, c.node0, c.node1, c.node2, c.node3⟩

def Cluster.skel (c : Cluster) : String × List CSkel := (c.name, c.chunks.map Chunk.skel)

theorem Chunk.skel_eq_iff {a b : Chunk} : a.skel = b.skel ↔
    a.proxy0 = b.proxy0 ∧ a.proxy1 = b.proxy1 ∧ a.host0 = b.host0 ∧ a.host1 = b.host1 ∧
    a.node0 = b.node0 ∧ a.node1 = b.node1 ∧ a.node2 = b.node2 ∧ a.node3 = b.node3 := by
  simp [Chunk.skel]

theorem Cluster.skel_proxyAddrs {a b : Cluster} (h : a.skel = b.skel) : a.proxyAddrs = b.proxyAddrs := by
  have h2 : a.chunks.map Chunk.skel = b.chunks.map Chunk.skel := congrArg Prod.snd h
  have : ∀ (l1 l2 : List Chunk), l1.map Chunk.skel = l2.map Chunk.skel →
      (l1.flatMap fun ch => [ch.proxy0, ch.proxy1]) = (l2.flatMap fun ch => [ch.proxy0, ch.proxy1]) := by
    intro l1
    induction l1 with
    | nil => intro l2 h; cases l2 <;> simp_all
    | cons x xs ih =>
      intro l2 h
      cases l2 with
      | nil => simp at h
      | cons y ys =>
        simp only [List.map_cons, List.cons.injEq] at h
        have := Chunk.skel_eq_iff.mp h.1
        simp [List.flatMap_cons, ih ys h.2, this.1, this.2.1]
  exact this _ _ h2

theorem skel_mem_chunks {a b : Cluster} (h : a.skel = b.skel) {ch : Chunk} (hch : ch ∈ a.chunks) :
    ∃ ch' ∈ b.chunks, ch'.skel = ch.skel := by
  have h2 : a.chunks.map Chunk.skel = b.chunks.map Chunk.skel := congrArg Prod.snd h
  have : ch.skel ∈ b.chunks.map Chunk.skel := h2 ▸ List.mem_map.mpr ⟨ch, hch, rfl⟩
  obtain ⟨ch', h1, h2⟩ := List.mem_map.mp this
  exact ⟨ch', h1, h2⟩

theorem skel_mem_clusters {l1 l2 : List Cluster} (h : l1.map Cluster.skel = l2.map Cluster.skel)
    {c : Cluster} (hc : c ∈ l1) : ∃ c' ∈ l2, c'.skel = c.skel := by
  have : c.skel ∈ l2.map Cluster.skel := h ▸ List.mem_map.mpr ⟨c, hc, rfl⟩
  obtain ⟨c', h1, h2⟩ := List.mem_map.mp this
  exact ⟨c', h1, h2⟩

theorem skel_names {l1 l2 : List Cluster} (h : l1.map Cluster.skel = l2.map Cluster.skel) :
    l1.map (·.name) = l2.map (·.name) := by
  have := congrArg (List.map Prod.fst) h
  simpa [List.map_map, Function.comp_def, Cluster.skel] using this

/-! ## pointwise form of `ResInv` -/

/-- `ResInv` with the global `Nodup` of all chunk addresses replaced by per-cluster `Nodup`
(disjointness between clusters follows from the proxy tags) -/
def RPt (s : Store) : Prop :=
  (s.proxies.map (·.addr)).Nodup ∧
  (s.clusters.map (·.name)).Nodup ∧
  (∀ c ∈ s.clusters, c.proxyAddrs.Nodup) ∧
  (∀ c ∈ s.clusters, ∀ ch ∈ c.chunks,
      (∃ p ∈ s.proxies, p.addr = ch.proxy0 ∧ p.cluster = some c.name ∧ p.host = ch.host0 ∧
          p.node0 = ch.node0 ∧ p.node1 = ch.node1) ∧
      (∃ p ∈ s.proxies, p.addr = ch.proxy1 ∧ p.cluster = some c.name ∧ p.host = ch.host1 ∧
          p.node0 = ch.node2 ∧ p.node1 = ch.node3)) ∧
  (∀ p ∈ s.proxies, ∀ n, p.cluster = some n →
      ∃ c ∈ s.clusters, c.name = n ∧ p.addr ∈ c.proxyAddrs)

theorem RPt.tag_of_mem {s : Store} (h : RPt s) {c : Cluster} (hc : c ∈ s.clusters) {a : String}
    (ha : a ∈ c.proxyAddrs) : ∃ p ∈ s.proxies, p.addr = a ∧ p.cluster = some c.name := by
  obtain ⟨ch, hch, hor⟩ := Cluster.mem_proxyAddrs.mp ha
  obtain ⟨⟨p, hp, h1, h2, _⟩, ⟨q, hq, h3, h4, _⟩⟩ := h.2.2.2.1 c hc ch hch
  rcases hor with rfl | rfl
  · exact ⟨p, hp, h1, h2⟩
  · exact ⟨q, hq, h3, h4⟩

theorem RPt.disjoint {s : Store} (h : RPt s) {c1 c2 : Cluster} (h1 : c1 ∈ s.clusters)
    (h2 : c2 ∈ s.clusters) {a : String} (ha1 : a ∈ c1.proxyAddrs) (ha2 : a ∈ c2.proxyAddrs) :
    c1 = c2 := by
  obtain ⟨p, hp, hpa, hpc⟩ := h.tag_of_mem h1 ha1
  obtain ⟨q, hq, hqa, hqc⟩ := h.tag_of_mem h2 ha2
  have : p = q := res_nodup_map_inj h.1 hp hq (hpa.trans hqa.symm)
  subst this
  have hn : c1.name = c2.name := by rw [hpc] at hqc; exact (Option.some.inj hqc)
  exact res_nodup_map_inj h.2.1 h1 h2 hn

theorem pairwise_of_nodup_map {α β} {f : α → β} {l : List α} (h : (l.map f).Nodup) {S : α → α → Prop}
    (hS : ∀ a ∈ l, ∀ b ∈ l, f a ≠ f b → S a b) : l.Pairwise S := by
  have h' : l.Pairwise (fun a b => f a ≠ f b) := List.pairwise_map.mp h
  exact h'.imp_of_mem (fun {a b} ha hb hab => hS a ha b hb hab)

theorem pairwise_mem_cases {α} {R : α → α → Prop} {l : List α} (h : l.Pairwise R) {a b : α}
    (ha : a ∈ l) (hb : b ∈ l) : a = b ∨ R a b ∨ R b a := by
  induction l with
  | nil => cases ha
  | cons x xs ih =>
    rw [List.pairwise_cons] at h
    rcases List.mem_cons.mp ha with rfl | ha' <;> rcases List.mem_cons.mp hb with rfl | hb'
    · exact Or.inl rfl
    · exact Or.inr (Or.inl (h.1 b hb'))
    · exact Or.inr (Or.inr (h.1 a ha'))
    · exact ih h.2 ha' hb'

theorem resInv_iff_rpt (s : Store) : ResInv s ↔ RPt s := by
  constructor
  · rintro ⟨h1, h2, h3, h4, h5⟩
    refine ⟨h1, h2, ?_, h4, h5⟩
    intro c hc
    have := (List.pairwise_flatMap.mp h3).1 c hc
    exact this
  · intro h
    obtain ⟨h1, h2, h3, h4, h5⟩ := h
    refine ⟨h1, h2, ?_, h4, h5⟩
    refine List.pairwise_flatMap.mpr ⟨h3, ?_⟩
    apply pairwise_of_nodup_map h2
    intro a ha b hb hab x hx y hy hxy
    subst hxy
    have hh : RPt s := ⟨h1, h2, h3, h4, h5⟩
    exact hab (congrArg Cluster.name (hh.disjoint ha hb hx hy))

/-- `RPt` depends only on the proxies and the cluster skeletons -/
theorem RPt.congr {s s' : Store} (hp : s'.proxies = s.proxies)
    (hc : s'.clusters.map Cluster.skel = s.clusters.map Cluster.skel) (h : RPt s) : RPt s' := by
  obtain ⟨h1, h2, h3, h4, h5⟩ := h
  refine ⟨hp ▸ h1, (skel_names hc) ▸ h2, ?_, ?_, ?_⟩
  · intro c' hc'
    obtain ⟨c, hcm, hs⟩ := skel_mem_clusters hc hc'
    rw [← Cluster.skel_proxyAddrs hs]; exact h3 c hcm
  · intro c' hc' ch' hch'
    obtain ⟨c, hcm, hs⟩ := skel_mem_clusters hc hc'
    obtain ⟨ch, hchm, hs2⟩ := skel_mem_chunks hs.symm hch'
    have hn : c.name = c'.name := congrArg Prod.fst hs
    have e := Chunk.skel_eq_iff.mp hs2
    have := h4 c hcm ch hchm
    rw [hp, ← hn, ← e.1, ← e.2.1, ← e.2.2.1, ← e.2.2.2.1, ← e.2.2.2.2.1, ← e.2.2.2.2.2.1,
      ← e.2.2.2.2.2.2.1, ← e.2.2.2.2.2.2.2]
    exact this
  · intro p hpm n hn
    rw [hp] at hpm
    obtain ⟨c, hcm, hcn, hpa⟩ := h5 p hpm n hn
    obtain ⟨c', hcm', hs⟩ := skel_mem_clusters hc.symm hcm
    refine ⟨c', hcm', ?_, ?_⟩
    · rw [← hcn]; exact congrArg Prod.fst hs
    · rw [Cluster.skel_proxyAddrs hs]; exact hpa

theorem ResInv.congr {s s' : Store} (hp : s'.proxies = s.proxies)
    (hc : s'.clusters.map Cluster.skel = s.clusters.map Cluster.skel) (h : ResInv s) : ResInv s' :=
  (resInv_iff_rpt s').mpr (((resInv_iff_rpt s).mp h).congr hp hc)

end Um.Broker
