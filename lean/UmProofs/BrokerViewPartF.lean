import UmProofs.BrokerViewPartE
/-!
# C01, view layer, part F: pending ranges in the per-proxy view; a worked example

The slot ranges a proxy view shows (local nodes + peers) are, as a multiset, the slot ranges of
the whole-cluster view; hence each pending range keeps exactly one twin, and the twin is found
on the local node / peer whose proxy address is the one the meta names.

The example is the state reached by: 4 × `addProxy`, `addCluster c 4`, `addNodes c 4`,
`migrate c` (a 2-chunk cluster with two migrations in flight).
-/
namespace Um.Broker
open Um Um.Slots

/-- every slot range a proxy view shows -/
def VProxy.allSlots (pv : VProxy) : List SlotRange := pv.nodes.flatMap (·.slots) ++ pv.peers.flatMap (·.slots)

theorem proxyOfView_allSlots (a : String) (v : VCluster) (hrep : ∀ n ∈ v.nodes, n.replica = true → n.slots = []) :
    (proxyOfView a v).allSlots.Perm (v.nodes.flatMap (·.slots)) := by
  have hpeers : (proxyOfView a v).peers.flatMap (·.slots) =
      (v.nodes.filter fun n => !(n.proxy == a)).flatMap (·.slots) := by
    show (groupPeers _).flatMap (·.slots) = _
    rw [groupPeers_slots, bv_flatMap_filter, bv_flatMap_filter]
    apply bv_flatMap_congr
    intro n hn
    cases hr : n.replica with
    | false => cases h2 : (n.proxy == a) <;> simp [bne, h2]
    | true => simp [hrep n hn hr]
  unfold VProxy.allSlots
  rw [hpeers, ← List.flatMap_append]
  exact (List.filter_append_perm (fun n : VNode => n.proxy == a) v.nodes).flatMap_right _

theorem occ_length (v : VCluster) (p : SlotRange → Bool) :
    (v.occ p).length = (v.nodes.flatMap (·.slots)).countP p := by
  unfold VCluster.occ
  induction v.nodes with
  | nil => rfl
  | cons n ns ih => simp [List.countP_eq_length_filter, ih]

theorem mem_allSlots (a : String) (v : VCluster) (h : PartitionView v) (sr : SlotRange)
    (hs : sr ∈ (proxyOfView a v).allSlots) : ∃ n ∈ v.nodes, sr ∈ n.slots := by
  have := (proxyOfView_allSlots a v h.replicas).mem_iff.mp hs
  simpa [List.mem_flatMap] using this

/-- a migrating-out range shown by a proxy view has exactly one importing twin in that view -/
theorem proxy_twin_of_migrating (a : String) (v : VCluster) (h : PartitionView v) (sr : SlotRange) (info : MigInfo)
    (hs : sr ∈ (proxyOfView a v).allSlots) (htag : sr.tag = Tag.migrating info) :
    (proxyOfView a v).allSlots.countP (isImportingOf sr.ranges info) = 1 := by
  obtain ⟨n, hn, hsn⟩ := mem_allSlots a v h sr hs
  obtain ⟨_, _, _, n', s', hocc, _⟩ := h.migrating n hn sr hsn info htag
  rw [(proxyOfView_allSlots a v h.replicas).countP_eq, ← occ_length, hocc]
  rfl

/-- an importing range shown by a proxy view has exactly one migrating-out twin in that view -/
theorem proxy_twin_of_importing (a : String) (v : VCluster) (h : PartitionView v) (sr : SlotRange) (info : MigInfo)
    (hs : sr ∈ (proxyOfView a v).allSlots) (htag : sr.tag = Tag.importing info) :
    (proxyOfView a v).allSlots.countP (isMigratingOf sr.ranges info) = 1 := by
  obtain ⟨n, hn, hsn⟩ := mem_allSlots a v h sr hs
  obtain ⟨_, _, _, n', s', hocc, _⟩ := h.importing n hn sr hsn info htag
  rw [(proxyOfView_allSlots a v h.replicas).countP_eq, ← occ_length, hocc]
  rfl

/-- pending ranges on a local node name that node and this proxy -/
theorem proxy_local_pending (a : String) (v : VCluster) (h : PartitionView v) (n : VNode)
    (hn : n ∈ (proxyOfView a v).nodes) (sr : SlotRange) (hs : sr ∈ n.slots) (info : MigInfo) :
    (sr.tag = Tag.migrating info → info.srcProxy = a ∧ info.srcNode = n.address) ∧
    (sr.tag = Tag.importing info → info.dstProxy = a ∧ info.dstNode = n.address) := by
  obtain ⟨hn1, hn2⟩ := List.mem_filter.mp hn
  have hpa : n.proxy = a := by simpa using hn2
  constructor
  · intro htag
    obtain ⟨h1, h2, _⟩ := h.migrating n hn1 sr hs info htag
    exact ⟨h2.trans hpa, h1⟩
  · intro htag
    obtain ⟨h1, h2, _⟩ := h.importing n hn1 sr hs info htag
    exact ⟨h2.trans hpa, h1⟩

/-- pending ranges of a peer name that peer's proxy; a peer is never the proxy itself -/
theorem proxy_peer_pending (a : String) (v : VCluster) (h : PartitionView v) (p : VPeer)
    (hp : p ∈ (proxyOfView a v).peers) :
    p.proxy ≠ a ∧ ∀ sr ∈ p.slots, ∀ info,
      (sr.tag = Tag.migrating info → info.srcProxy = p.proxy) ∧
      (sr.tag = Tag.importing info → info.dstProxy = p.proxy) := by
  constructor
  · obtain ⟨n, hn, hnp⟩ := groupPeers_proxy _ p hp
    obtain ⟨_, hn2⟩ := List.mem_filter.mp hn
    simp only [Bool.and_eq_true, Bool.not_eq_eq_eq_not, Bool.not_true, bne_iff_ne, ne_eq] at hn2
    rw [← hnp]; exact hn2.2
  · intro sr hs info
    obtain ⟨n, hn, hnp, hsn⟩ := groupPeers_origin _ p sr hp hs
    obtain ⟨hn1, _⟩ := List.mem_filter.mp hn
    constructor
    · intro htag
      obtain ⟨_, h2, _⟩ := h.migrating n hn1 sr hsn info htag
      exact h2.trans hnp
    · intro htag
      obtain ⟨_, h2, _⟩ := h.importing n hn1 sr hsn info htag
      exact h2.trans hnp

/-- peers carry exactly the master ranges of the other proxies, per proxy address -/
theorem proxy_peer_ranges (a b : String) (v : VCluster) :
    (((proxyOfView a v).peers.filter (·.proxy == b)).flatMap (·.slots)) =
      ((v.nodes.filter fun n => !n.replica && n.proxy != a && n.proxy == b).flatMap (·.slots)) := by
  show ((groupPeers _).filter _).flatMap _ = _
  rw [groupPeers_slots_of, List.filter_filter]
  congr 1
  apply List.filter_congr
  intro n _
  cases n.replica <;> cases (n.proxy != a) <;> cases (n.proxy == b) <;> rfl

/-! ## a worked example: two chunks, two migrations in flight -/

def exMeta0 : MigMeta := { epoch := 7, srcChunk := 0, srcPart := 0, dstChunk := 1, dstPart := 0 }
def exMeta1 : MigMeta := { epoch := 7, srcChunk := 0, srcPart := 1, dstChunk := 1, dstPart := 1 }

def exChunk0 : Chunk :=
  { role := .normal, stable0 := some [(0, 4095)], stable1 := some [(8192, 12287)]
    mig0 := [{ ranges := [(4096, 8191)], isMigrating := true, mm := exMeta0 }]
    mig1 := [{ ranges := [(12288, 16383)], isMigrating := true, mm := exMeta1 }]
    proxy0 := "h1:1", proxy1 := "h2:1", host0 := "h1", host1 := "h2"
    node0 := "h1:11", node1 := "h1:12", node2 := "h2:11", node3 := "h2:12" }

def exChunk1 : Chunk :=
  { role := .normal, stable0 := none, stable1 := none
    mig0 := [{ ranges := [(4096, 8191)], isMigrating := false, mm := exMeta0 }]
    mig1 := [{ ranges := [(12288, 16383)], isMigrating := false, mm := exMeta1 }]
    proxy0 := "h3:1", proxy1 := "h4:1", host0 := "h3", host1 := "h4"
    node0 := "h3:11", node1 := "h3:12", node2 := "h4:11", node3 := "h4:12" }

/-- the cluster stored after `addProxy`×4, `addCluster c 4`, `addNodes c 4`, `migrate c` -/
def exCluster : Cluster :=
  { epoch := 7, name := "c", chunks := [exChunk0, exChunk1]
    config := { strategy := 0, maxMigrationTime := 10800, maxBlockingTime := 10000, scanInterval := 500, scanCount := 16 } }

theorem exCluster_posInv : PosInv exCluster := by
  intro i ch hget
  match i with
  | 0 =>
    have : ch = exChunk0 := by simpa [exCluster] using hget.symm
    subst this
    simp [exChunk0, exMeta0, exMeta1, Chunk.migs, exCluster]
  | 1 =>
    have : ch = exChunk1 := by simpa [exCluster] using hget.symm
    subst this
    simp [exChunk1, exMeta0, exMeta1, Chunk.migs, exCluster]
  | n + 2 => simp [exCluster] at hget

theorem exCluster_twinInv : TwinInv exCluster := by
  unfold TwinInv
  simp [Cluster.migs, exCluster, Chunk.migs, exChunk0, exChunk1, exMeta0, exMeta1]

theorem bv_range'_split (a n m : Nat) : List.range' a (n + m) = List.range' a n ++ List.range' (a + n) m := by
  rw [List.range'_append_1]

theorem exCluster_ownedSlots : exCluster.ownedSlots.Perm (List.range SLOT_NUM) := by
  have h0 : exCluster.ownedSlots =
      List.range' 0 4096 ++ (List.range' 8192 4096 ++ (List.range' 4096 4096 ++ List.range' 12288 4096)) := by
    simp [Cluster.ownedSlots, exCluster, Chunk.stables, Chunk.migs, exChunk0, exChunk1, slotsOf, rangeSlots]
  have h1 : List.range SLOT_NUM =
      List.range' 0 4096 ++ (List.range' 4096 4096 ++ (List.range' 8192 4096 ++ List.range' 12288 4096)) := by
    rw [List.range_eq_range', show SLOT_NUM = 4096 + (4096 + (4096 + 4096)) from rfl]
    rw [bv_range'_split 0 4096, bv_range'_split (0 + 4096) 4096, bv_range'_split (0 + 4096 + 4096) 4096]
  rw [h0, h1]
  exact List.Perm.append_left _ (List.perm_append_comm_assoc _ _ _)

theorem exCluster_slotInv : SlotInv exCluster := by
  refine ⟨?_, exCluster_ownedSlots⟩
  intro ch hch
  simp only [exCluster, List.mem_cons, List.not_mem_nil, or_false] at hch
  rcases hch with rfl | rfl <;>
    simp [exChunk0, exChunk1, Chunk.stables, Chunk.migs, NormalRanges]

/-- the three store invariants hold of the example, so all theorems of this layer apply to it -/
theorem exCluster_inv : PosInv exCluster ∧ TwinInv exCluster ∧ SlotInv exCluster :=
  ⟨exCluster_posInv, exCluster_twinInv, exCluster_slotInv⟩

def exInfo0 : MigInfo := { epoch := 7, srcProxy := "h1:1", srcNode := "h1:11", dstProxy := "h3:1", dstNode := "h3:11" }
def exInfo1 : MigInfo := { epoch := 7, srcProxy := "h2:1", srcNode := "h2:11", dstProxy := "h4:1", dstNode := "h4:11" }

/-- the served view of the example, computed -/
def exView : VCluster :=
  { name := "c", epoch := 7, config := exCluster.config
    nodes := [
      { address := "h1:11", proxy := "h1:1", replica := false, peers := [("h2:12", "h2:1")]
        slots := [⟨[(0, 4095)], .none⟩, ⟨[(4096, 8191)], .migrating exInfo0⟩] },
      { address := "h1:12", proxy := "h1:1", replica := true, peers := [("h2:11", "h2:1")], slots := [] },
      { address := "h2:11", proxy := "h2:1", replica := false, peers := [("h1:12", "h1:1")]
        slots := [⟨[(8192, 12287)], .none⟩, ⟨[(12288, 16383)], .migrating exInfo1⟩] },
      { address := "h2:12", proxy := "h2:1", replica := true, peers := [("h1:11", "h1:1")], slots := [] },
      { address := "h3:11", proxy := "h3:1", replica := false, peers := [("h4:12", "h4:1")]
        slots := [⟨[(4096, 8191)], .importing exInfo0⟩] },
      { address := "h3:12", proxy := "h3:1", replica := true, peers := [("h4:11", "h4:1")], slots := [] },
      { address := "h4:11", proxy := "h4:1", replica := false, peers := [("h3:12", "h3:1")]
        slots := [⟨[(12288, 16383)], .importing exInfo1⟩] },
      { address := "h4:12", proxy := "h4:1", replica := true, peers := [("h3:11", "h3:1")], slots := [] }] }

theorem exCluster_view : clusterStoreToCluster exCluster = R.ok exView := by
  rw [clusterStoreToCluster_eq exCluster exCluster_posInv]
  congr 1

/-- non-vacuity: the example's served view is a partition with placed twins -/
theorem exView_partition : PartitionView exView :=
  partition_of_inv exCluster exView exCluster_posInv exCluster_twinInv exCluster_slotInv exCluster_view

end Um.Broker
