import UmProofs.BrokerScaleReachD
import UmProofs.BrokerResMigDown
/-!
# C10 over reachable states (part E): the balance facts C12's planner theorems assume

`MigPre c` holds for every cluster of a boundedly reachable store, and `DownPre c k` for every
target `k` up to the number `N` of chunks the cluster is (or will be) balanced over — in particular
whenever `migrate_slots_to_scale_down` gets as far as its planner.
-/
namespace Um.Broker.Scale
open Um Um.Slots Um.Broker Um.Broker.Plan

theorem pairs_get {α : Type} (f g : Chunk → α) (l : List Chunk) (i : Nat) (e : α)
    (h : (l.flatMap fun ch => [f ch, g ch])[i]? = some e) :
    ∃ ch, l[i / 2]? = some ch ∧ e = if i % 2 = 0 then f ch else g ch := by
  induction l generalizing i with
  | nil => simp at h
  | cons c l ih =>
    simp only [List.flatMap_cons, List.cons_append, List.nil_append] at h
    match i with
    | 0 => simp at h; exact ⟨c, by simp, by simp [h]⟩
    | 1 => simp at h; exact ⟨c, by simp, by simp [h]⟩
    | i + 2 =>
      simp only [List.getElem?_cons_succ] at h
      obtain ⟨ch, h1, h2⟩ := ih i h
      refine ⟨ch, ?_, ?_⟩
      · have : (i + 2) / 2 = i / 2 + 1 := by omega
        rw [this, List.getElem?_cons_succ]; exact h1
      · have : (i + 2) % 2 = i % 2 := by omega
        rw [this]; exact h2

theorem halfCount_le_proj (st : Option RangeList) (l : List MigStore) : halfCount st ≤ proj st l := by
  unfold proj; omega

theorem target_le (N idx : Nat) (hN : 0 < N) : target N idx ≤ SLOT_NUM := by
  unfold target
  split
  · exact quota_le _ _ (by omega)
  · omega

theorem migPre_of_core {c : Cluster} {N : Nat} (hN : 0 < N) (h : ProfileCore (target N) N c)
    (hb : c.chunks.length * 2 ≤ SLOT_NUM) : MigPre c := by
  refine ⟨hb, ?_⟩
  intro ch hch rl hrl
  obtain ⟨i, hi⟩ := List.getElem?_of_mem hch
  obtain ⟨p0, p1⟩ := h.proj i ch hi
  unfold Chunk.stables at hrl
  rcases List.mem_append.mp hrl with hrl | hrl
  · have hs : ch.stable0 = some rl := by
      cases h0 : ch.stable0 with
      | none => rw [h0] at hrl; simp at hrl
      | some x => rw [h0] at hrl; simp at hrl; rw [hrl]
    have := halfCount_le_proj ch.stable0 ch.mig0
    rw [p0, hs] at this
    exact Nat.le_trans this (target_le N _ hN)
  · have hs : ch.stable1 = some rl := by
      cases h0 : ch.stable1 with
      | none => rw [h0] at hrl; simp at hrl
      | some x => rw [h0] at hrl; simp at hrl; rw [hrl]
    have := halfCount_le_proj ch.stable1 ch.mig1
    rw [p1, hs] at this
    exact Nat.le_trans this (target_le N _ hN)

theorem downPre_of_core {c : Cluster} {N : Nat} (hN : 0 < N) (h : ProfileCore (target N) N c)
    (hb : c.chunks.length * 2 ≤ SLOT_NUM) (k : Nat) (hk : k ≤ N) : DownPre c k := by
  refine ⟨migPre_of_core hN h hb, ?_⟩
  intro i e hie
  unfold downExisting at hie
  obtain ⟨ch, hch, he⟩ := pairs_get (fun ch => (ch.stable0.map slotsNum).getD 0)
    (fun ch => (ch.stable1.map slotsNum).getD 0) (c.chunks.take k) i e hie
  have hik : i / 2 < k := by
    have := (List.getElem?_eq_some_iff.mp hch).1
    rw [List.length_take] at this; omega
  have hch' : c.chunks[i / 2]? = some ch := by
    rw [List.getElem?_take] at hch
    simpa [hik] using hch
  obtain ⟨p0, p1⟩ := h.proj (i / 2) ch hch'
  have hk0 : 0 < k := by omega
  have hq : quota (N * 2) i ≤ quota (k * 2) i := quota_anti (by omega) (by omega) i
  have hrhs : SLOT_NUM / (k * 2) + (if i < SLOT_NUM - SLOT_NUM / (k * 2) * (k * 2) then 1 else 0) = quota (k * 2) i := by
    unfold quota; rw [remainder_eq]
  rw [hrhs]
  have hc0 : ∀ o : Option RangeList, (o.map slotsNum).getD 0 = halfCount o := by
    intro o; cases o <;> rfl
  have hti : target N i = quota (N * 2) i := by
    unfold target; rw [if_pos (by omega)]
  by_cases hpar : i % 2 = 0
  · rw [if_pos hpar, hc0] at he
    have := halfCount_le_proj ch.stable0 ch.mig0
    have hidx : i / 2 * 2 + 0 = i := by omega
    rw [p0, hidx, hti] at this
    omega
  · rw [if_neg hpar, hc0] at he
    have := halfCount_le_proj ch.stable1 ch.mig1
    have hidx : i / 2 * 2 + 1 = i := by omega
    rw [p1, hidx, hti] at this
    omega

/-- **`MigPre` on all boundedly reachable states** -/
theorem reachable_migPre {s : Store} (hs : ReachableB s) {c : Cluster} (hc : c ∈ s.clusters) : MigPre c := by
  obtain ⟨N, hN, hcore⟩ := allS_reachableB s hs c hc
  exact migPre_of_core hN hcore (hs.bound c hc)

/-- **`DownPre` on all boundedly reachable states**, for every target up to the balanced size -/
theorem reachable_downPre {s : Store} (hs : ReachableB s) {c : Cluster} (hc : c ∈ s.clusters) :
    ∃ N, 0 < N ∧ N ≤ c.chunks.length ∧ (c.isMigrating = false → BalancedShape c.chunks N) ∧
      ∀ k, k ≤ N → DownPre c k := by
  obtain ⟨N, hN, hcore⟩ := allS_reachableB s hs c hc
  have hb := hs.bound c hc
  refine ⟨N, hN, hcore.len, ?_, downPre_of_core hN hcore hb⟩
  intro hidle
  have hlen := hcore.len
  exact (balanced_of_core hcore (migs_nil_of_idle hidle) hN (by omega) (fun idx hidx => by simp [target, hidx])).2

/-- the form the scale-down planner needs: whenever `migrate_slots_to_scale_down` reaches its
planner (idle cluster, no `None` half, smaller target) `DownPre` holds -/
theorem reachable_downPre_planner {s : Store} (hs : ReachableB s) {c : Cluster} (hc : c ∈ s.clusters)
    (hany : c.chunks.any (fun ch => ch.stable0.isNone || ch.stable1.isNone) = false)
    (hidle : c.isMigrating = false) {k : Nat} (hk : k < c.chunks.length) : DownPre c k := by
  obtain ⟨N, hN, _, hshape, hdown⟩ := reachable_downPre hs hc
  obtain ⟨A, B, hch, hA, hfull, hempty⟩ := hshape hidle
  have hB : B = [] := by
    cases B with
    | nil => rfl
    | cons b B =>
      exfalso
      obtain ⟨e0, _⟩ := hempty b (by simp)
      have : c.chunks.any (fun ch => ch.stable0.isNone || ch.stable1.isNone) = true := by
        rw [hch]; exact List.any_eq_true.mpr ⟨b, by simp, by simp [e0]⟩
      rw [this] at hany; cases hany
  subst hB
  rw [List.append_nil] at hch
  exact hdown k (by rw [hch, hA] at hk; omega)

end Um.Broker.Scale
