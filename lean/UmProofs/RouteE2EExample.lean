import UmProofs.RouteE2EFollow
/-!
# C02, non-vacuity material: the worked example of C01 (`exView`: two chunks, two migrations in
flight) with every proxy synced through the plain encoding.
-/
namespace Um.E2E
open Um Um.Broker Um.Route Um.Slots

/-- the proxy state `set_meta` builds from scratch out of `m` (host check aside) -/
def installFresh (cfg : RouteCfg) (m : EMeta) : ProxyState :=
  { cfg := cfg, epoch := m.epoch
    cm := ClusterMap.install cfg m.cluster (rangesOfMap m.loc) (rangesOfMap m.peer)
    migEmpty := (updateTasks m.cluster [] m.loc).isEmpty, migCluster := m.cluster
    tasks := updateTasks m.cluster [] m.loc }

theorem installFresh_installed (cfg : RouteCfg) (m : EMeta) : Installed cfg m (installFresh cfg m) :=
  ⟨rfl, rfl, rfl, rfl, (updateTasks_keys m.cluster [] m.loc).1, (updateTasks_keys m.cluster [] m.loc).2⟩

/-- every proxy has installed the plain encoding of its view of `exView` -/
def exNet : Addr → Option ProxyState := fun a =>
  some (installFresh {} (dropEmpty (encodeFor false (proxyOfView a exView))))

theorem exSynced : Synced {} exView exNet := fun _ _ =>
  ⟨_, rfl, ⟨⟨false, _, WireFaithful.of_dropEmpty _, installFresh_installed _ _⟩⟩⟩

theorem exView_eq : exView = viewP exCluster := by
  have h := exCluster_view
  rw [clusterStoreToCluster_eq exCluster exCluster_posInv] at h
  exact (R.ok.inj h).symm

theorem exViewOk : ViewOk exView := by
  refine ⟨exView_partition, ⟨?_, ?_⟩, by decide, ?_⟩
  · intro a
    have hall : (exView.nodes.map (·.address)).Nodup := by decide
    refine List.Nodup.sublist ?_ hall
    exact List.Sublist.map _ ((List.filter_sublist).trans List.filter_sublist)
  · intro a
    rw [exView_eq]
    exact proxy_peers_nodup exCluster a (by decide)
  · exact pendingNormal_of_B _ (by decide)

theorem ex_stable_0 : ¬ PendingAt exView 0 := by
  rw [pendingAt_iff_B]; decide

theorem ex_pending_5000 : PendingAt exView 5000 := by
  rw [pendingAt_iff_B]; decide


end Um.E2E
