import UmProofs.RouteE2EFollow
/-!
# C02, non-vacuity material: the worked example of C01 (`exView`: two chunks, two migrations in
flight) with every proxy synced through the plain encoding.
-/
namespace Um.E2E
open Um Um.Broker Um.Route Um.Slots

/-- the proxy state `set_meta` builds from scratch out of `m` (host check aside) -/
def installFresh (cfg : RouteCfg) (m : EMeta) : ProxyState :=
  { cfg := cfg, epoch := m.epoch
    cm := ClusterMap.install cfg m.cluster (rangesOfMap m.loc) (rangesOfMap m.peer)
    migEmpty := (updateTasks m.cluster [] m.loc).isEmpty, migCluster := m.cluster
    tasks := updateTasks m.cluster [] m.loc }

theorem installFresh_installed (cfg : RouteCfg) (m : EMeta) : Installed cfg m (installFresh cfg m) :=
  ⟨rfl, rfl, rfl, rfl, (updateTasks_keys m.cluster [] m.loc).1, (updateTasks_keys m.cluster [] m.loc).2⟩

/-- every proxy has installed the plain encoding of its view of `exView` -/
def exNet : Addr → Option ProxyState := fun a =>
  some (installFresh {} (dropEmpty (encodeFor false (proxyOfView a exView))))

theorem exSynced : Synced {} exView exNet := fun _ _ =>
  ⟨_, rfl, ⟨⟨false, _, WireFaithful.of_dropEmpty _, installFresh_installed _ _⟩⟩⟩

theorem exView_eq : exView = viewP exCluster := by
  have h := exCluster_view
  rw [clusterStoreToCluster_eq exCluster exCluster_posInv] at h
  exact (R.ok.inj h).symm

theorem exViewOk : ViewOk exView := by
  refine ⟨exView_partition, ⟨?_, ?_⟩, by decide, ?_⟩
  · intro a
    have hall : (exView.nodes.map (·.address)).Nodup := by decide
    refine List.Nodup.sublist ?_ hall
    exact List.Sublist.map _ ((List.filter_sublist).trans List.filter_sublist)
  · intro a
    rw [exView_eq]
    exact proxy_peers_nodup exCluster a (by decide)
  · exact pendingNormal_of_B _ (by decide)

theorem ex_stable_0 : ¬ PendingAt exView 0 := by
  rw [pendingAt_iff_B]; decide

theorem ex_pending_5000 : PendingAt exView 5000 := by
  rw [pendingAt_iff_B]; decide


/-! ## why the node addresses of one proxy must be distinct (finding F02a, fixed in /repo bf43b2d)

Before the fix `add_proxy` accepted a proxy whose two node addresses are equal.  After a failover
that makes such a proxy host both masters of its chunk (role position `first`),
`generate_proxy_meta_cmd_args` puts both masters under the same `HashMap` key: the second `insert`
overwrites the first, the slot ranges of the first master never reach the proxy, and nobody covers
them.  `dupCluster` is that store, built by hand (it is no longer reachable). -/

def dupChunk : Chunk :=
  { role := .first, stable0 := some [(0, 8191)], stable1 := some [(8192, 16383)], mig0 := [], mig1 := []
    proxy0 := "p1:1", proxy1 := "p2:1", host0 := "p1", host1 := "p2"
    node0 := "n:1", node1 := "n:1", node2 := "p2:11", node3 := "p2:12" }

/-- the cluster the unfixed broker stored after `add_proxy p1:1 n:1 n:1`, `add_proxy p2:1 …`,
`add_proxy p3:1 …`, `add_cluster c 4` (chunk `p1:1, p3:1`), `failover p3:1` (replacement `p2:1`) -/
def dupCluster : Cluster :=
  { epoch := 6, name := "c", chunks := [dupChunk]
    config := { strategy := 0, maxMigrationTime := 10800, maxBlockingTime := 10000, scanInterval := 500, scanCount := 16 } }

theorem dupCluster_posInv : PosInv dupCluster := by
  intro i ch hget
  match i with
  | 0 =>
    have : ch = dupChunk := by simpa [dupCluster] using hget.symm
    subst this
    simp [dupChunk, Chunk.migs]
  | n + 1 => simp [dupCluster] at hget

theorem dupCluster_twinInv : TwinInv dupCluster := by
  unfold TwinInv
  simp [Cluster.migs, dupCluster, Chunk.migs, dupChunk]

theorem dupCluster_slotInv : SlotInv dupCluster := by
  refine ⟨?_, ?_⟩
  · intro ch hch
    simp only [dupCluster, List.mem_cons, List.not_mem_nil, or_false] at hch
    subst hch
    simp [dupChunk, Chunk.stables, Chunk.migs, NormalRanges]
  · have h0 : dupCluster.ownedSlots = List.range' 0 8192 ++ List.range' 8192 8192 := by
      simp [Cluster.ownedSlots, dupCluster, Chunk.stables, Chunk.migs, dupChunk, slotsOf, rangeSlots]
    have h1 : List.range SLOT_NUM = List.range' 0 8192 ++ List.range' 8192 8192 := by
      rw [List.range_eq_range', show SLOT_NUM = 8192 + 8192 from rfl, bv_range'_split 0 8192]
    rw [h0, h1]

/-- what the broker serves for `dupCluster`: both masters sit on `p1:1` under the address `n:1` -/
def dupView : VCluster :=
  { name := "c", epoch := 6, config := dupCluster.config
    nodes := [
      { address := "n:1", proxy := "p1:1", replica := false, peers := [("p2:12", "p2:1")], slots := [⟨[(0, 8191)], .none⟩] },
      { address := "n:1", proxy := "p1:1", replica := false, peers := [("p2:11", "p2:1")], slots := [⟨[(8192, 16383)], .none⟩] },
      { address := "p2:11", proxy := "p2:1", replica := true, peers := [("n:1", "p1:1")], slots := [] },
      { address := "p2:12", proxy := "p2:1", replica := true, peers := [("n:1", "p1:1")], slots := [] }] }

theorem dupCluster_view : clusterStoreToCluster dupCluster = R.ok dupView := by
  rw [clusterStoreToCluster_eq dupCluster dupCluster_posInv]
  congr 1

theorem dupView_partition : PartitionView dupView :=
  partition_of_inv dupCluster dupView dupCluster_posInv dupCluster_twinInv dupCluster_slotInv dupCluster_view

def dupNet : Addr → Option ProxyState := fun a =>
  some (installFresh {} (dropEmpty (encodeFor false (proxyOfView a dupView))))

theorem dupSynced : Synced {} dupView dupNet := fun _ _ =>
  ⟨_, rfl, ⟨⟨false, _, WireFaithful.of_dropEmpty _, installFresh_installed _ _⟩⟩⟩

/-- the meta the coordinator generates for `p1:1`, as parsed by the proxy -/
def dupMeta : EMeta := dropEmpty (encodeFor false (proxyOfView "p1:1" dupView))

/-- the first master's range `0-8191` is gone -/
theorem dup_loc : dupMeta.loc = [("n:1", [⟨[(8192, 16383)], .none⟩])] := by decide

theorem dup_peer : dupMeta.peer = [] := by decide

/-- … so proxy `p1:1`, fully synced, answers `slot not covered` for slot 0, which the view assigns
to its own node `n:1` -/
theorem dup_route : routeWithMigration (installFresh {} dupMeta) none (some 0) = .other (.errSlotNotCovered 0) := by
  have hi := installFresh_installed {} dupMeta
  have hme : (installFresh {} dupMeta).migEmpty = true := by
    show (updateTasks dupMeta.cluster [] dupMeta.loc).isEmpty = true
    rw [dup_loc]; decide
  have hname : dupMeta.cluster ≠ "" := by decide
  unfold routeWithMigration migSend
  simp only [hme, Bool.true_or, if_true]
  rw [hi.cm_eq, hi.cfg_eq, Um.C09.routeSlot_install _ _ _ _ none 0 hname, dup_loc, dup_peer]
  decide

theorem dup_follow : follow dupNet 0 FOLLOW_FUEL "p1:1" = (0, .stuck "p1:1" (.errSlotNotCovered 0)) :=
  follow_stuck (p := installFresh {} dupMeta) rfl dup_route _

end Um.E2E
