import UmProofs.ProtoParse
import UmProofs.ProtoTask
/-!
Damaged range tokens: a token in range position that is not of the form `start-end` (or the
end of the input inside a range list) makes the decoders answer an error — it is never skipped.
-/
namespace Um.Proto
open Um Um.Gen.Proto

/-- no `-` at all: not a range token -/
theorem parseSlotRange_no_dash (t : Str) (h : (45 : UInt8) ∉ t) : parseSlotRange t = none := by
  unfold parseSlotRange
  rw [splitOn_no_sep 45 t h]

/-- the `k`-th token (`k = pre.length < n`) of a declared list of `n` ranges is not `start-end`:
`RangeList::parse` answers `None` whatever follows -/
theorem RangeList.parse_damaged (n : Nat) (pre : List Range) (t : Str) (ts : List Str) (hn : n ≤ u64Max)
    (hb : ∀ r ∈ pre, r.s ≤ u64Max ∧ r.e ≤ u64Max) (hl : pre.length < n) (ht : parseSlotRange t = none) :
    RangeList.parse (decimal n :: (pre.map Range.toStr ++ t :: ts)) = none := by
  simp only [RangeList.parse, parseUnsigned_decimal n hn, parseRanges_bad_token n pre t ts hb hl ht]

/-- the input ends inside the declared list -/
theorem parseRanges_short : ∀ (n : Nat) (ts : List Str), ts.length < n → parseRanges n ts = none := by
  intro n
  induction n with
  | zero => intro ts h; omega
  | succ n ih =>
    intro ts h
    cases ts with
    | nil => rfl
    | cons t ts =>
      simp only [parseRanges]
      cases parseSlotRange t with
      | none => rfl
      | some r => simp only [ih ts (by simp at h; omega)]

/-- the same under any of the three tag forms of a slot range -/
theorem SlotRange.fromStrings_damaged (hd : List Str)
    (htag : hd = [] ∨ hd = [MIGRATING_TAG] ∨ hd = [IMPORTING_TAG])
    (n : Nat) (pre : List Range) (t : Str) (ts : List Str) (hn : n ≤ u64Max)
    (hb : ∀ r ∈ pre, r.s ≤ u64Max ∧ r.e ≤ u64Max) (hl : pre.length < n) (ht : parseSlotRange t = none) :
    SlotRange.fromStrings (hd ++ decimal n :: (pre.map Range.toStr ++ t :: ts)) = none := by
  have hp := RangeList.parse_damaged n pre t ts hn hb hl ht
  rcases htag with rfl | rfl | rfl
  · simp only [List.nil_append, SlotRange.fromStrings, upperA_decimal_ne_migrating, upperA_decimal_ne_importing, hp]
    simp
  · simp only [List.cons_append, List.nil_append, SlotRange.fromStrings, upper_migrating, if_true, taggedRest, hp]
  · simp only [List.cons_append, List.nil_append, SlotRange.fromStrings, upper_importing_ne, upper_importing, if_true,
      taggedRest, hp]
    simp

/-- a node group whose slot range does not parse rejects the node map -/
theorem NodeMap.parse_bad_group (nm : NodeMap) (a : Str) (bad : List Str) (h : BdMap nm)
    (ha : isSectionWord a = false) (hbad : SlotRange.fromStrings bad = none) :
    NodeMap.parse (NodeMap.toArgs nm ++ a :: bad) = .error .invalidArgs := by
  unfold NodeMap.parse
  rw [toArgs_eq]
  have hlen := flatMap_groupArgs_length (flatGroups nm)
  rw [parseAux_groups (flatGroups nm) [] _ _ (flatGroups_wf nm h) (by simp only [List.length_append]; omega)]
  have : ((flatGroups nm).flatMap groupArgs ++ a :: bad).length + 1 - (flatGroups nm).length =
      (((flatGroups nm).flatMap groupArgs ++ a :: bad).length - (flatGroups nm).length) + 1 := by
    simp only [List.length_append]; omega
  rw [this]
  simp [NodeMap.parseAux, ha, hbad]

/-- **a damaged local group rejects the message** (whatever follows it) -/
theorem parse_bad_local_group (m : Meta) (h : WfMeta m) (a : Str) (bad : List Str)
    (ha : isSectionWord a = false) (hbad : SlotRange.fromStrings bad = none) :
    parse (header m ++ NodeMap.toArgs m.local ++ a :: bad) = .error .invalidArgs := by
  obtain ⟨hv, he, hf, hn, hl, hp, hc⟩ := h
  unfold parse parseWith header
  simp only [List.cons_append, List.nil_append, hv, bne_self_eq_false, Bool.false_eq_true, if_false,
    parseUnsigned_decimal _ he, flags_rt, hf, hn, Bool.not_true]
  rw [NodeMap.parse_bad_group m.local a bad hl.bd ha hbad]

/-- **a damaged peer group rejects the message** -/
theorem parse_bad_peer_group (m : Meta) (h : WfMeta m) (a : Str) (bad : List Str)
    (ha : isSectionWord a = false) (hbad : SlotRange.fromStrings bad = none) :
    parse (header m ++ NodeMap.toArgs m.local ++ PEER_PREFIX :: (NodeMap.toArgs m.peer ++ a :: bad))
      = .error .invalidArgs := by
  obtain ⟨hv, he, hf, hn, hl, hp, hc⟩ := h
  unfold parse parseWith header
  simp only [List.cons_append, List.nil_append, hv, bne_self_eq_false, Bool.false_eq_true, if_false,
    parseUnsigned_decimal _ he, flags_rt, hf, hn, Bool.not_true]
  rw [NodeMap.parse_rt m.local _ hl (Or.inr ⟨_, _, rfl, peer_section⟩)]
  simp only [List.length_cons]
  rw [parseSections]
  simp only [peer_word, if_true]
  rw [NodeMap.parse_bad_group m.peer a bad hp.bd ha hbad]

/-- a task descriptor (and hence the INFOMGR string) whose slot range does not parse is rejected -/
theorem TaskMeta.fromStrings_bad (c : Str) (bad : List Str) (hbad : SlotRange.fromStrings bad = none) :
    TaskMeta.fromStrings (c :: bad) = none := by
  simp only [TaskMeta.fromStrings, hbad]
  split <;> rfl

end Um.Proto
