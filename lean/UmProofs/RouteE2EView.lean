import UmModel.RouteE2E
import UmProofs.BrokerViewPartG
/-!
# C02, view layer: who lists a slot in a `PartitionView`

From `PartitionView v` (C01): a slot that no pending range covers is covered by exactly one slot
range of one master (`stable_cov`); a slot under migration is covered by exactly two, the
migrating-out range on the source master and its importing twin on the destination master
(`migrating_cov`).  "Exactly" is by value: two occurrences with equal node and equal slot range are
the same lister as far as routing is concerned.
-/
namespace Um.E2E
open Um Um.Broker Um.Route Um.Slots

/-! ## lists -/

theorem nodup_flatMap_unique {α β : Type} (f : α → List β) :
    ∀ (l : List α), (l.flatMap f).Nodup → ∀ {a b : α} {x : β}, a ∈ l → b ∈ l → x ∈ f a → x ∈ f b → a = b := by
  intro l
  induction l with
  | nil => intro _ a b x ha; cases ha
  | cons c cs ih =>
    intro h a b x ha hb hxa hxb
    rw [List.flatMap_cons, List.nodup_append] at h
    obtain ⟨_, h2, h3⟩ := h
    rcases List.mem_cons.mp ha with rfl | ha'
    · rcases List.mem_cons.mp hb with rfl | hb'
      · rfl
      · exact absurd rfl (h3 x hxa x (List.mem_flatMap.mpr ⟨b, hb', hxb⟩))
    · rcases List.mem_cons.mp hb with rfl | hb'
      · exact absurd rfl (h3 x hxb x (List.mem_flatMap.mpr ⟨a, ha', hxa⟩))
      · exact ih h2 ha' hb' hxa hxb

theorem nodup_flatMap_elem {α β : Type} (f : α → List β) :
    ∀ (l : List α), (l.flatMap f).Nodup → ∀ a ∈ l, (f a).Nodup := by
  intro l
  induction l with
  | nil => intro _ a ha; cases ha
  | cons c cs ih =>
    intro h a ha
    rw [List.flatMap_cons, List.nodup_append] at h
    rcases List.mem_cons.mp ha with rfl | ha'
    · exact h.1
    · exact ih h.2.1 a ha'

/-! ## slots of a range list -/

theorem mem_rangeSlots (r : Range) (s : Nat) : s ∈ rangeSlots r ↔ r.1 ≤ s ∧ s ≤ r.2 := by
  unfold rangeSlots
  rw [List.mem_range'_1]
  omega

theorem covers_iff_mem (rl : RangeList) (s : Nat) : covers rl s = true ↔ s ∈ slotsOf rl := by
  unfold covers slotsOf
  simp only [List.any_eq_true, Bool.and_eq_true, decide_eq_true_eq, List.mem_flatMap, mem_rangeSlots]

/-! ## coverage in a view -/

/-- master `n` of the view shows slot range `sr`, which covers `s` -/
structure Cov (v : VCluster) (s : Nat) (n : VNode) (sr : SlotRange) : Prop where
  node : n ∈ v.nodes
  master : n.replica = false
  range : sr ∈ n.slots
  covers : s ∈ slotsOf sr.ranges

/-- some pending (migrating-out or importing) range of the view covers `s` -/
def PendingAt (v : VCluster) (s : Nat) : Prop :=
  ∃ n ∈ v.nodes, ∃ sr ∈ n.slots, SlotRange.tagged sr = true ∧ s ∈ slotsOf sr.ranges

theorem tagged_none {sr : SlotRange} (h : SlotRange.tagged sr = false) : sr.tag = Tag.none := by
  unfold SlotRange.tagged at h
  cases ht : sr.tag <;> simp [ht] at h ⊢

theorem isOwned_of_not_importing {sr : SlotRange} (h : ∀ i, sr.tag ≠ Tag.importing i) : sr.isOwned = true := by
  unfold SlotRange.isOwned
  cases ht : sr.tag with
  | importing i => exact absurd ht (h i)
  | none => rfl
  | migrating _ => rfl

theorem mem_occ (v : VCluster) (p : SlotRange → Bool) (n : VNode) (sr : SlotRange) :
    (n, sr) ∈ v.occ p ↔ n ∈ v.nodes ∧ sr ∈ n.slots ∧ p sr = true := by
  unfold VCluster.occ
  simp only [List.mem_flatMap, List.mem_map, List.mem_filter, Prod.mk.injEq]
  constructor
  · rintro ⟨n', hn', s', ⟨hs', hp⟩, rfl, rfl⟩
    exact ⟨hn', hs', hp⟩
  · rintro ⟨hn, hs, hp⟩
    exact ⟨n, hn, sr, ⟨hs, hp⟩, rfl, rfl⟩

theorem ownedSlots_nodup {v : VCluster} (h : PartitionView v) : v.ownedSlots.Nodup :=
  h.owned.nodup_iff.mpr List.nodup_range

theorem mem_ownedSlots_lt {v : VCluster} (h : PartitionView v) {s : Nat} (hs : s ∈ v.ownedSlots) : s < SLOT_NUM :=
  List.mem_range.mp (h.owned.mem_iff.mp hs)

/-- every slot below `SLOT_NUM` has an owning master range -/
theorem owner_exists {v : VCluster} (h : PartitionView v) {s : Nat} (hs : s < SLOT_NUM) :
    ∃ n sr, Cov v s n sr ∧ sr.isOwned = true := by
  have hm : s ∈ v.ownedSlots := h.owned.mem_iff.mpr (List.mem_range.mpr hs)
  unfold VCluster.ownedSlots at hm
  obtain ⟨n, hn, hsn⟩ := List.mem_flatMap.mp hm
  obtain ⟨hn1, hn2⟩ := List.mem_filter.mp hn
  unfold VNode.ownedSlots at hsn
  obtain ⟨sr, hsr, hc⟩ := List.mem_flatMap.mp hsn
  obtain ⟨hsr1, hsr2⟩ := List.mem_filter.mp hsr
  exact ⟨n, sr, ⟨hn1, by simpa using hn2, hsr1, hc⟩, hsr2⟩

/-- two owning ranges that cover the same slot are equal, node and range -/
theorem owner_unique {v : VCluster} (h : PartitionView v) {s : Nat} {n n' : VNode} {sr sr' : SlotRange}
    (h1 : Cov v s n sr) (o1 : sr.isOwned = true) (h2 : Cov v s n' sr') (o2 : sr'.isOwned = true) :
    n = n' ∧ sr = sr' := by
  have hnd := ownedSlots_nodup h
  unfold VCluster.ownedSlots at hnd
  have m1 : n ∈ v.nodes.filter fun n => !n.replica := List.mem_filter.mpr ⟨h1.node, by simp [h1.master]⟩
  have m2 : n' ∈ v.nodes.filter fun n => !n.replica := List.mem_filter.mpr ⟨h2.node, by simp [h2.master]⟩
  have c1 : s ∈ n.ownedSlots :=
    List.mem_flatMap.mpr ⟨sr, List.mem_filter.mpr ⟨h1.range, o1⟩, h1.covers⟩
  have c2 : s ∈ n'.ownedSlots :=
    List.mem_flatMap.mpr ⟨sr', List.mem_filter.mpr ⟨h2.range, o2⟩, h2.covers⟩
  have hn : n = n' := nodup_flatMap_unique _ _ hnd m1 m2 c1 c2
  subst hn
  refine ⟨rfl, ?_⟩
  have hnd' : n.ownedSlots.Nodup := nodup_flatMap_elem _ _ hnd n m1
  unfold VNode.ownedSlots at hnd'
  exact nodup_flatMap_unique _ _ hnd' (List.mem_filter.mpr ⟨h1.range, o1⟩)
    (List.mem_filter.mpr ⟨h2.range, o2⟩) h1.covers h2.covers

/-- a covering range sits on a master (replicas show no slots) -/
theorem cov_of_mem {v : VCluster} (h : PartitionView v) {s : Nat} {n : VNode} {sr : SlotRange}
    (hn : n ∈ v.nodes) (hsr : sr ∈ n.slots) (hc : s ∈ slotsOf sr.ranges) : Cov v s n sr := by
  refine ⟨hn, ?_, hsr, hc⟩
  cases hr : n.replica with
  | false => rfl
  | true => rw [h.replicas n hn hr] at hsr; cases hsr

/-- the migrating-out twin of an importing range covering `s` is an owning range covering `s` -/
theorem twin_of_importing {v : VCluster} (h : PartitionView v) {s : Nat} {n : VNode} {sr : SlotRange}
    {info : MigInfo} (hc : Cov v s n sr) (ht : sr.tag = Tag.importing info) :
    ∃ n' s', Cov v s n' s' ∧ s'.tag = Tag.migrating info ∧ s'.ranges = sr.ranges := by
  obtain ⟨_, _, _, n', s', hocc, _, _, hr'⟩ := h.importing n hc.node sr hc.range info ht
  have hm : (n', s') ∈ v.occ (isMigratingOf sr.ranges info) := by rw [hocc]; simp
  obtain ⟨hn', hs', hp⟩ := (mem_occ v _ n' s').mp hm
  unfold isMigratingOf at hp
  simp only [Bool.and_eq_true, beq_iff_eq] at hp
  exact ⟨n', s', ⟨hn', hr', hs', by rw [hp.1]; exact hc.covers⟩, hp.2, hp.1⟩

/-- **stable slot**: one master range covers it, untagged, and nothing else does -/
theorem stable_cov {v : VCluster} (h : PartitionView v) {s : Nat} (hs : s < SLOT_NUM) (hp : ¬ PendingAt v s) :
    ∃ n₀ sr₀, Cov v s n₀ sr₀ ∧ sr₀.tag = Tag.none ∧ ∀ n sr, Cov v s n sr → n = n₀ ∧ sr = sr₀ := by
  have untag : ∀ n sr, Cov v s n sr → sr.tag = Tag.none := by
    intro n sr hc
    cases ht : SlotRange.tagged sr with
    | false => exact tagged_none ht
    | true => exact absurd ⟨n, hc.node, sr, hc.range, ht, hc.covers⟩ hp
  have owned : ∀ n sr, Cov v s n sr → sr.isOwned = true := by
    intro n sr hc
    apply isOwned_of_not_importing
    intro i hi; rw [untag n sr hc] at hi; cases hi
  obtain ⟨n₀, sr₀, hc₀, ho₀⟩ := owner_exists h hs
  refine ⟨n₀, sr₀, hc₀, untag _ _ hc₀, ?_⟩
  intro n sr hc
  exact owner_unique h hc (owned n sr hc) hc₀ ho₀

/-- everything known about a slot under migration -/
structure MigCov (v : VCluster) (s : Nat) (nS : VNode) (srM : SlotRange) (info : MigInfo) (nD : VNode)
    (srI : SlotRange) : Prop where
  src : Cov v s nS srM
  srcTag : srM.tag = Tag.migrating info
  srcNode : info.srcNode = nS.address
  srcProxy : info.srcProxy = nS.proxy
  dst : Cov v s nD srI
  dstTag : srI.tag = Tag.importing info
  sameRanges : srI.ranges = srM.ranges
  dstNode : nD.address = info.dstNode
  dstProxy : nD.proxy = info.dstProxy
  only : ∀ n sr, Cov v s n sr → (n = nS ∧ sr = srM) ∨ (n = nD ∧ sr = srI)

/-- **slot under migration**: exactly the migrating-out range on the source master and its
importing twin on the destination master cover it -/
theorem migrating_cov {v : VCluster} (h : PartitionView v) {s : Nat} (hs : s < SLOT_NUM) (hp : PendingAt v s) :
    ∃ nS srM info nD srI, MigCov v s nS srM info nD srI := by
  obtain ⟨n₁, sr₁, hc₁, ho₁⟩ := owner_exists h hs
  -- the owner is a migrating-out range
  have hmig : ∃ info, sr₁.tag = Tag.migrating info := by
    cases ht : sr₁.tag with
    | migrating info => exact ⟨info, rfl⟩
    | importing i => unfold SlotRange.isOwned at ho₁; rw [ht] at ho₁; cases ho₁
    | none =>
      exfalso
      obtain ⟨n', hn', sr', hsr', htag', hc'⟩ := hp
      have hcov' := cov_of_mem h hn' hsr' hc'
      cases ht' : sr'.tag with
      | none => unfold SlotRange.tagged at htag'; rw [ht'] at htag'; cases htag'
      | migrating i =>
        have ho' : sr'.isOwned = true := by unfold SlotRange.isOwned; rw [ht']
        obtain ⟨_, e⟩ := owner_unique h hcov' ho' hc₁ ho₁
        rw [e, ht] at ht'; cases ht'
      | importing i =>
        obtain ⟨n'', s'', hc'', ht'', _⟩ := twin_of_importing h hcov' ht'
        have ho'' : s''.isOwned = true := by unfold SlotRange.isOwned; rw [ht'']
        obtain ⟨_, e⟩ := owner_unique h hc'' ho'' hc₁ ho₁
        rw [e, ht] at ht''; cases ht''
  obtain ⟨info, ht₁⟩ := hmig
  obtain ⟨e1, e2, _, nD, srI, hocc, e3, e4, hrD⟩ := h.migrating n₁ hc₁.node sr₁ hc₁.range info ht₁
  have hm : (nD, srI) ∈ v.occ (isImportingOf sr₁.ranges info) := by rw [hocc]; simp
  obtain ⟨hnD, hsD, hpD⟩ := (mem_occ v _ nD srI).mp hm
  unfold isImportingOf at hpD
  simp only [Bool.and_eq_true, beq_iff_eq] at hpD
  refine ⟨n₁, sr₁, info, nD, srI, ⟨hc₁, ht₁, e1, e2, ⟨hnD, hrD, hsD, by rw [hpD.1]; exact hc₁.covers⟩,
    hpD.2, hpD.1, e3, e4, ?_⟩⟩
  intro n sr hc
  cases ht : sr.tag with
  | none =>
    left
    have ho : sr.isOwned = true := by unfold SlotRange.isOwned; rw [ht]
    exact owner_unique h hc ho hc₁ ho₁
  | migrating i =>
    left
    have ho : sr.isOwned = true := by unfold SlotRange.isOwned; rw [ht]
    exact owner_unique h hc ho hc₁ ho₁
  | importing i =>
    right
    obtain ⟨n'', s'', hc'', ht'', hr''⟩ := twin_of_importing h hc ht
    have ho'' : s''.isOwned = true := by unfold SlotRange.isOwned; rw [ht'']
    obtain ⟨_, e⟩ := owner_unique h hc'' ho'' hc₁ ho₁
    have hi : i = info := by
      rw [e, ht₁] at ht''
      injection ht'' with e'
      exact e'.symm
    subst hi
    have hrs : sr.ranges = sr₁.ranges := by rw [← hr'', e]
    have hm' : (n, sr) ∈ v.occ (isImportingOf sr₁.ranges i) := by
      rw [mem_occ]
      refine ⟨hc.node, hc.range, ?_⟩
      unfold isImportingOf
      simp [hrs, ht]
    rw [hocc] at hm'
    simp only [List.mem_cons, Prod.mk.injEq, List.not_mem_nil, or_false] at hm'
    exact hm'

end Um.E2E
