import UmModel.ClusterNodesHist
import UmProofs.NodesRoute
import UmProofs.RouteE2EHistory
/-!
C14 on a long-lived proxy: the phase map `CLUSTER NODES` / `CLUSTER SLOTS` read after an accepted
`set_meta` (C02's `setMeta` / `updateTasks`, `UmProofs/RouteE2EProxy.lean`, `RouteE2EHistory.lean`):
every tagged local range of the new metadata has a task; a task whose key is new is in `PreCheck`, a kept one
keeps its phase; no other key exists.
-/
namespace Um.Nodes
open Um Um.Route Um.E2E

theorem getStates_unique (l : List (RangeL × MigState)) (rl : RangeL) (st : MigState)
    (hex : ∃ e ∈ l, e.1 = rl) (hall : ∀ e ∈ l, e.1 = rl → e.2 = st) : getStates l rl = some st := by
  unfold getStates
  cases h : l.reverse.find? (fun t => t.1 == rl) with
  | none =>
    obtain ⟨e, he, her⟩ := hex
    have := List.find?_eq_none.mp h e (List.mem_reverse.mpr he)
    simp [her] at this
  | some e =>
    have hm : e ∈ l := List.mem_reverse.mp (List.mem_of_find?_eq_some h)
    have hp : (e.1 == rl) = true := List.find?_some (p := fun (t : RangeL × MigState) => t.1 == rl) h
    simp only [Option.map_some]
    rw [hall e hm (by simpa using hp)]

theorem nodup_map_inj {α β : Type} (f : α → β) {l : List α} (h : (l.map f).Nodup) {a b : α} (ha : a ∈ l) (hb : b ∈ l)
    (e : f a = f b) : a = b := by
  induction l with
  | nil => cases ha
  | cons x rest ih =>
    simp only [List.map_cons, List.nodup_cons, List.mem_map, not_exists, not_and] at h
    rcases List.mem_cons.mp ha with rfl | ha' <;> rcases List.mem_cons.mp hb with rfl | hb'
    · rfl
    · exact absurd e.symm (h.1 b hb')
    · exact absurd e (h.1 a ha')
    · exact ih h.2 ha' hb'

theorem getStates_some {l : List (RangeL × MigState)} {rl : RangeL} (h : getStates l rl ≠ none) :
    ∃ e ∈ l, e.1 = rl := by
  unfold getStates at h
  cases hf : l.reverse.find? (fun t => t.1 == rl) with
  | none => rw [hf] at h; exact absurd rfl h
  | some e =>
    exact ⟨e, List.mem_reverse.mp (List.mem_of_find?_eq_some hf), by simpa using List.find?_some (p := fun (t : RangeL × MigState) => t.1 == rl) hf⟩

theorem mem_taggedKeys {cluster : String} {loc : SNodeMap} {k : TaskKey} :
    k ∈ taggedKeys cluster loc ↔ ∃ n ∈ loc, ∃ s ∈ n.2, Um.E2E.SlotRange.tagged s = true ∧ k = ⟨cluster, s⟩ := by
  unfold taggedKeys
  simp only [List.mem_flatMap, List.mem_map, List.mem_filter]
  constructor
  · rintro ⟨n, hn, s, ⟨hs, ht⟩, e⟩
    exact ⟨n, hn, s, hs, ht, e.symm⟩
  · rintro ⟨n, hn, s, hs, ht, e⟩
    exact ⟨n, hn, s, ⟨hs, ht⟩, e.symm⟩

theorem srOf_tag_ne_none {s : Um.Broker.SlotRange} (h : Um.E2E.SlotRange.tagged s = true) : (srOf s).tag ≠ .none := by
  unfold Um.E2E.SlotRange.tagged at h
  unfold srOf kindOf
  cases hs : s.tag <;> simp_all

theorem mem_localSlots_viewOf (me : Addr) (m : EMeta) {n : String × List Um.Broker.SlotRange}
    (hn : n ∈ m.loc) {s : Um.Broker.SlotRange} (hs : s ∈ n.2) : srOf s ∈ localSlots (viewOf me m) := by
  unfold localSlots viewOf slotsOf
  simp only [List.mem_flatMap, List.mem_map]
  exact ⟨(n.1, n.2.map srOf), ⟨n, hn, rfl⟩, List.mem_map.mpr ⟨s, hs, rfl⟩⟩

section hist
variable {p0 p : ProxyState} {m : EMeta} (h : setMeta p0 m = (p, .ok)) (me : Addr)
include h

/-- every task of the proxy belongs to a tagged local range of the installed metadata -/
theorem task_of_installed {t : Task} (ht : t ∈ p.tasks) :
    ∃ n ∈ m.loc, ∃ s ∈ n.2, Um.E2E.SlotRange.tagged s = true ∧ t.key = ⟨m.cluster, s⟩ := by
  have hi := setMeta_installed p0 m p h
  exact mem_taggedKeys.mp ((hi.keys_mem t.key).mp (List.mem_map.mpr ⟨t, ht, rfl⟩))

/-- **every tagged local range has a task**, kept (same key, same phase) or fresh in `PreCheck` -/
theorem installed_has_task {n : String × List Um.Broker.SlotRange} (hn : n ∈ m.loc) {s : Um.Broker.SlotRange}
    (hs : s ∈ n.2) (htag : Um.E2E.SlotRange.tagged s = true) :
    ∃ t ∈ p.tasks, t.key = ⟨m.cluster, s⟩ ∧
      (t ∈ p0.tasks ∨ (t.state = .preCheck ∧ ∀ o ∈ p0.tasks, o.key ≠ t.key)) := by
  have hi := setMeta_installed p0 m p h
  have hk : (⟨m.cluster, s⟩ : TaskKey) ∈ p.tasks.map (·.key) :=
    (hi.keys_mem _).mpr (mem_taggedKeys.mpr ⟨n, hn, s, hs, htag, rfl⟩)
  obtain ⟨t, ht, hkey⟩ := List.mem_map.mp hk
  exact ⟨t, ht, hkey, (setMeta_last_only p0 m p h).2.2.2.2.2.2 t ht⟩

/-- the phase map has keys only for range lists of tagged local ranges -/
theorem statesOfLocalTasks_installed : StatesOfLocalTasks (viewOf me m) (statesOf p) := by
  intro rl hrl
  obtain ⟨e, he, her⟩ := getStates_some hrl
  unfold taskStates at he
  obtain ⟨t, ht, rfl⟩ := List.mem_map.mp he
  obtain ⟨n, hn, s, hs, htag, hkey⟩ := task_of_installed h ht
  refine ⟨srOf s, mem_localSlots_viewOf me m hn hs, srOf_tag_ne_none htag, ?_⟩
  simp only at her
  rw [← her, hkey]
  rfl

/-- **the phase found for a tagged local range** whose range list no other tagged local range shares: the
phase of its own task -/
theorem statesOf_installed {n : String × List Um.Broker.SlotRange} (hn : n ∈ m.loc) {s : Um.Broker.SlotRange}
    (hs : s ∈ n.2) (htag : Um.E2E.SlotRange.tagged s = true)
    (huniq : ∀ n' ∈ m.loc, ∀ s' ∈ n'.2, Um.E2E.SlotRange.tagged s' = true → s'.ranges = s.ranges → s' = s) :
    ∃ t ∈ p.tasks, t.key = ⟨m.cluster, s⟩ ∧ statesOf p s.ranges = some (stateOf t.state) ∧
      (t ∈ p0.tasks ∨ (t.state = .preCheck ∧ ∀ o ∈ p0.tasks, o.key ≠ t.key)) := by
  obtain ⟨t, ht, hkey, hst⟩ := installed_has_task h hn hs htag
  refine ⟨t, ht, hkey, ?_, hst⟩
  have hi := setMeta_installed p0 m p h
  unfold statesOf
  apply getStates_unique
  · exact ⟨(t.key.range.ranges, stateOf t.state), List.mem_map.mpr ⟨t, ht, rfl⟩, by rw [hkey]⟩
  · intro e he her
    unfold taskStates at he
    obtain ⟨t', ht', rfl⟩ := List.mem_map.mp he
    obtain ⟨n', hn', s', hs', htag', hkey'⟩ := task_of_installed h ht'
    simp only at her
    rw [hkey'] at her
    have hss : s' = s := huniq n' hn' s' hs' htag' her
    have hkk : t'.key = t.key := by rw [hkey', hkey, hss]
    -- keys are pairwise distinct
    have : t' = t := by
      have hnd := hi.keys_nodup
      exact nodup_map_inj (·.key) hnd ht' ht hkk
    rw [this]

end hist

/-! ## switch commands -/

/-- the key `handle_switch` looks up: the received range with the tag turned into `Importing` of the same meta -/
def importingKey (key : TaskKey) : Option TaskKey :=
  match key.range.tag with
  | .none => none
  | .migrating info => some { key with range := { key.range with tag := .importing info } }
  | .importing info => some { key with range := { key.range with tag := .importing info } }

/-- a switch command that is not accepted changes nothing -/
theorem handleSwitch_refused (p : ProxyState) (key : TaskKey) (sub : MgrSub)
    (h : (handleSwitch p key sub).2 ≠ .ok) : (handleSwitch p key sub).1 = p := by
  unfold handleSwitch at h ⊢
  cases htag : key.range.tag with
  | none => rfl
  | migrating info =>
    simp only [htag] at h ⊢
    split
    · rfl
    · split
      · rfl
      · split
        · rfl
        · split
          · rfl
          · rename_i h1 h2 _ t hf h3
            simp only [h1, h2, hf, h3, if_false, Bool.false_eq_true] at h
            exact absurd rfl h
  | importing info =>
    simp only [htag] at h ⊢
    split
    · rfl
    · split
      · rfl
      · split
        · rfl
        · split
          · rfl
          · rename_i h1 h2 _ t hf h3
            simp only [h1, h2, hf, h3, if_false, Bool.false_eq_true] at h
            exact absurd rfl h

/-- **only the exact `MigrationTaskMeta` of a task is accepted**: a switch command whose (importing-tagged) meta
is not a key of the task map is refused -/
theorem handleSwitch_foreign (p : ProxyState) (key : TaskKey) (sub : MgrSub)
    (hk : ∀ k', importingKey key = some k' → ∀ t ∈ p.tasks, t.key ≠ k') :
    (handleSwitch p key sub).2 ≠ .ok := by
  unfold handleSwitch
  cases htag : key.range.tag with
  | none => simp
  | migrating info =>
    have hnone : p.tasks.find? (fun t => t.key == { key with range := { key.range with tag := .importing info } }) = none := by
      apply List.find?_eq_none.mpr
      intro t ht
      have hik : importingKey key = some { key with range := { key.range with tag := .importing info } } := by
        simp [importingKey, htag]
      have := hk _ hik t ht
      simpa using this
    simp only
    split
    · simp
    · split
      · simp
      · rw [hnone]; simp
  | importing info =>
    have hnone : p.tasks.find? (fun t => t.key == { key with range := { key.range with tag := .importing info } }) = none := by
      apply List.find?_eq_none.mpr
      intro t ht
      have hik : importingKey key = some { key with range := { key.range with tag := .importing info } } := by
        simp [importingKey, htag]
      have := hk _ hik t ht
      simpa using this
    simp only
    split
    · simp
    · split
      · simp
      · rw [hnone]; simp

/-! ## a concrete history (the destination of c14b/2: R1 running, R2 exposed by a later install) -/

def exI1 : Um.Broker.MigInfo := ⟨1, "127.0.0.1:6001", "127.0.0.1:7001", "127.0.0.1:5299", "127.0.0.1:7000"⟩
def exI2 : Um.Broker.MigInfo := ⟨1, "127.0.0.1:6002", "127.0.0.1:7002", "127.0.0.1:5299", "127.0.0.1:7000"⟩

def exM1 : EMeta :=
  { epoch := 1, force := false, compress := false, cluster := "hist"
    loc := [("127.0.0.1:7000", [⟨[(0, 999)], .importing exI1⟩])]
    peer := [("127.0.0.1:6001", [⟨[(0, 999)], .migrating exI1⟩, ⟨[(1000, 8191)], .none⟩]),
             ("127.0.0.1:6002", [⟨[(8192, 16383)], .none⟩])]
    config := Um.Proto.Config.default }

def exM2 : EMeta :=
  { epoch := 2, force := false, compress := false, cluster := "hist"
    loc := [("127.0.0.1:7000", [⟨[(0, 999)], .importing exI1⟩, ⟨[(8192, 9191)], .importing exI2⟩])]
    peer := [("127.0.0.1:6001", [⟨[(0, 999)], .migrating exI1⟩, ⟨[(1000, 8191)], .none⟩]),
             ("127.0.0.1:6002", [⟨[(8192, 9191)], .migrating exI2⟩, ⟨[(9192, 16383)], .none⟩])]
    config := Um.Proto.Config.default }

/-- the task map after `exM1` was installed and its migration answered `UMCTL PRESWITCH` -/
def exTasks1 : List Task :=
  setTaskState ⟨"hist", ⟨[(0, 999)], .importing exI1⟩⟩ .preSwitch (updateTasks "hist" [] exM1.loc)

end Um.Nodes
