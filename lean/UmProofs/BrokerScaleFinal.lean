import UmProofs.BrokerScaleAssign
import UmProofs.BrokerScaleCreate
/-!
# C10 — from a balanced cluster through plan, `assign_dst_slots` and all commits to a balanced
cluster

`profile_after_assign`: right after `migrate_slots*` the cluster carries the `Profile` of the new
quotas (its disjointness part `ProjInv` is a hypothesis: it follows from the slot-set invariant,
which is C01's).  `scaleOut_balanced`, `scaleDown_balanced`: then *any* chain of commits that
exhausts the pending tasks ends in a balanced cluster.
-/
namespace Um.Broker.Scale
open Um Um.Slots Um.Broker

theorem slotsNum_flatten_map (L : List MigSlots) :
    slotsNum ((L.map (·.ranges)).flatten) = (L.map fun m => slotsNum m.ranges).sum := by
  induction L with
  | nil => rfl
  | cons m L ih => simp [slotsNum_append, ih]

/-- slots planned into half `(i, p0)` -/
def recvAt (i : Nat) (p0 : Bool) (out : List MigSlots) : Nat := slotsNum (recvList i p0 out).flatten

theorem recvAt_eq_recvBy (idx : MigMeta → Nat) (j i : Nat) (p0 : Bool) (out : List MigSlots)
    (h : ∀ m ∈ out, (m.mm.dstChunk == i && ((m.mm.dstPart == 0) == p0)) = (idx m.mm == j)) :
    recvAt i p0 out = recvBy idx out j := by
  unfold recvAt recvList recvBy
  rw [slotsNum_flatten_map]
  congr 2
  exact List.filter_congr h

theorem recvAt_zero (i : Nat) (p0 : Bool) (out : List MigSlots) (h : ∀ m ∈ out, m.mm.dstChunk ≠ i) :
    recvAt i p0 out = 0 := by
  unfold recvAt recvList
  have : out.filter (fun m => m.mm.dstChunk == i && ((m.mm.dstPart == 0) == p0)) = [] := by
    apply List.filter_eq_nil_iff.mpr
    intro m hm
    have := h m hm
    simp [this]
  rw [this]; rfl

theorem halfCount_map_compact {o : Option RangeList} (h : ∀ rl, o = some rl → Asc rl) :
    halfCount (o.map compact) = halfCount o := by
  cases o with
  | none => rfl
  | some rl => simp only [Option.map_some, halfCount]; exact slotsNum_compact (h rl rfl).disjList

/-- **the profile right after `assign_dst_slots`** -/
theorem profileCore_after_assign {T : Nat → Nat} {N : Nat} {X chunks1 : List Chunk} {out : List MigSlots}
    {cl : Cluster} {e : Nat} (hX : NoMigs X)
    (hasc : ∀ ch ∈ X, (∀ rl, ch.stable0 = some rl → Asc rl) ∧ (∀ rl, ch.stable1 = some rl → Asc rl))
    (hfix : ∀ m ∈ out, compact m.ranges = m.ranges)
    (hget : ∀ i, chunks1[i]? = (X[i]?).map fun ch => compactChunk (foldChunk out i ch))
    (hlen : chunks1.length = X.length)
    (hT : ∀ i ch, X[i]? = some ch → halfCount ch.stable0 + recvAt i true out = T (i * 2 + 0) ∧
      halfCount ch.stable1 + recvAt i false out = T (i * 2 + 1))
    (htail : ∀ i ch, X[i]? = some ch → N ≤ i → ch.stable0 = none ∧ ch.stable1 = none)
    (hdst : ∀ m ∈ out, m.mm.dstChunk < N) (hN : N ≤ X.length) :
    ProfileCore T N { cl with chunks := chunks1, epoch := e } := by
  -- every new chunk comes from the old chunk at the same index
  have hfrom : ∀ i ch1, chunks1[i]? = some ch1 →
      ∃ ch, X[i]? = some ch ∧ ch1 = compactChunk (foldChunk out i ch) := by
    intro i ch1 h
    rw [hget i] at h
    obtain ⟨ch, h1, h2⟩ := Option.map_eq_some_iff.mp h
    exact ⟨ch, h1, h2.symm⟩
  have hent : ∀ i ch, X[i]? = some ch → ∀ x ∈ (foldChunk out i ch).migs,
      ∃ m ∈ out, x.mm = m.mm ∧ x.ranges = m.ranges := by
    intro i ch hch x hx
    rcases foldChunk_migs out i ch x hx with h | h
    · have := hX ch (List.mem_of_getElem? hch)
      simp [Chunk.migs, this.1, this.2] at h
    · exact h
  have himp : ∀ i ch, X[i]? = some ch →
      impRanges ((foldChunk out i ch).mig0.map compactMig) = recvList i true out ∧
      impRanges ((foldChunk out i ch).mig1.map compactMig) = recvList i false out := by
    intro i ch hch
    obtain ⟨m0, m1⟩ := hX ch (List.mem_of_getElem? hch)
    obtain ⟨i0, i1⟩ := foldChunk_imp out i ch
    have f0 : ∀ x ∈ (foldChunk out i ch).mig0, compact x.ranges = x.ranges := by
      intro x hx
      obtain ⟨m, hm, _, hr⟩ := hent i ch hch x (by simp [Chunk.migs, hx])
      rw [hr]; exact hfix m hm
    have f1 : ∀ x ∈ (foldChunk out i ch).mig1, compact x.ranges = x.ranges := by
      intro x hx
      obtain ⟨m, hm, _, hr⟩ := hent i ch hch x (by simp [Chunk.migs, hx])
      rw [hr]; exact hfix m hm
    rw [impRanges_compact f0, impRanges_compact f1, i0, i1, m0, m1]
    simp [impRanges]
  refine ⟨?_, ?_, ?_, ?_, ?_⟩
  · intro i ch1 h1
    obtain ⟨ch, hch, rfl⟩ := hfrom i ch1 h1
    obtain ⟨t0, t1⟩ := hT i ch hch
    obtain ⟨a0, a1⟩ := hasc ch (List.mem_of_getElem? hch)
    obtain ⟨s0, s1⟩ := foldChunk_stable out i ch
    obtain ⟨j0, j1⟩ := himp i ch hch
    constructor
    · show proj ((foldChunk out i ch).stable0.map compact) ((foldChunk out i ch).mig0.map compactMig) = _
      unfold proj
      rw [j0, s0, halfCount_map_compact a0]; exact t0
    · show proj ((foldChunk out i ch).stable1.map compact) ((foldChunk out i ch).mig1.map compactMig) = _
      unfold proj
      rw [j1, s1, halfCount_map_compact a1]; exact t1
  · intro i ch1 h1 hNi
    obtain ⟨ch, hch, rfl⟩ := hfrom i ch1 h1
    obtain ⟨t0, t1⟩ := htail i ch hch hNi
    obtain ⟨s0, s1⟩ := foldChunk_stable out i ch
    constructor
    · show (foldChunk out i ch).stable0.map compact = none
      rw [s0, t0]; rfl
    · show (foldChunk out i ch).stable1.map compact = none
      rw [s1, t1]; rfl
  · intro x hx
    obtain ⟨ch1, hch1, hmem⟩ := Cluster.mem_migs.mp hx
    obtain ⟨i, hi⟩ := List.getElem?_of_mem hch1
    obtain ⟨ch, hch, rfl⟩ := hfrom i ch1 hi
    have : x ∈ (compactChunk (foldChunk out i ch)).migs := by simpa [Chunk.migs] using hmem
    rw [compactChunk_migs] at this
    obtain ⟨x0, hx0, rfl⟩ := List.mem_map.mp this
    obtain ⟨m, hm, hmm, _⟩ := hent i ch hch x0 hx0
    show (compactMig x0).mm.dstChunk < N
    simp only [compactMig]
    rw [hmm]; exact hdst m hm
  · show N ≤ chunks1.length
    rw [hlen]; exact hN
  · intro ch1 hch1
    obtain ⟨i, hi⟩ := List.getElem?_of_mem hch1
    obtain ⟨ch, hch, rfl⟩ := hfrom i ch1 hi
    exact ⟨fun rl h => asc_of_map_compact (o := (foldChunk out i ch).stable0) h,
      fun rl h => asc_of_map_compact (o := (foldChunk out i ch).stable1) h⟩

/-! ## unfolding `migrate_slots` / `migrate_slots_to_scale_down` on their success path -/

theorem migrateSlots_ok {s : Store} {name : String} {cl : Cluster} {chunks chunks1 : List Chunk}
    {ms : List MigSlots} (hv : validName name = true) (hf : s.findCluster name = some cl)
    (hany : cl.chunks.any (fun c => c.stable0.isNone || c.stable1.isNone) = true)
    (hidle : cl.isMigrating = false)
    (hplan : removeSlotsFromSrc cl (s.globalEpoch + 1) = R.ok (chunks, ms))
    (hassign : assignDstSlots chunks ms = R.ok chunks1) :
    migrateSlots s name =
      (s.bump.setCluster { cl with chunks := chunks1, epoch := s.globalEpoch + 1 }, R.ok ()) := by
  unfold migrateSlots
  simp only [hv, Bool.not_true, Bool.false_eq_true, if_false, Store.findCluster_bump, hf, hany, hidle]
  have hb : s.bump.globalEpoch = s.globalEpoch + 1 := rfl
  rw [hb, hplan]
  show (match (assignDstSlots chunks ms : R (List Chunk)) with
    | .ok chunks => (s.bump.setCluster { cl with chunks := chunks, epoch := s.globalEpoch + 1 }, R.ok ())
    | .err e => (s.bump, R.err e)
    | .panic w => (s.bump, R.panic w)
    | .badChoice w => (s.bump, R.badChoice w)) = _
  rw [hassign]

theorem migrateSlotsToScaleDown_ok {s : Store} {name : String} {cl : Cluster} {chunks chunks1 : List Chunk}
    {ms : List MigSlots} {n' : Nat} (hv : validName name = true) (hf : s.findCluster name = some cl)
    (hany : cl.chunks.any (fun c => c.stable0.isNone || c.stable1.isNone) = false)
    (hidle : cl.isMigrating = false) (h0 : 0 < n') (hlt : n' < cl.chunks.length)
    (hplan : removeSlotsToScaleDown cl (s.globalEpoch + 1) n' = R.ok (chunks, ms))
    (hassign : assignDstSlots chunks ms = R.ok chunks1) :
    migrateSlotsToScaleDown s name (n' * 4) =
      (s.bump.setCluster { cl with chunks := chunks1, epoch := s.globalEpoch + 1 }, R.ok ()) := by
  unfold migrateSlotsToScaleDown
  have hcond : (n' * 4 == 0 || n' * 4 % 4 != 0 || decide (n' * 4 ≥ cl.chunks.length * 4)) = false := by
    simp; omega
  have hdiv : n' * 4 / 4 = n' := by omega
  simp only [hv, Bool.not_true, Bool.false_eq_true, if_false, Store.findCluster_bump, hf, hany, hidle, hcond, hdiv]
  have hb : s.bump.globalEpoch = s.globalEpoch + 1 := rfl
  rw [hb, hplan]
  show (match (assignDstSlots chunks ms : R (List Chunk)) with
    | .ok chunks => (s.bump.setCluster { cl with chunks := chunks, epoch := s.globalEpoch + 1 }, R.ok ())
    | .err e => (s.bump, R.err e)
    | .panic w => (s.bump, R.panic w)
    | .badChoice w => (s.bump, R.badChoice w)) = _
  rw [hassign]

/-! ## reading `FullChunks` by index -/

theorem fullChunks_get (m : Nat) (l : List Chunk) (i0 : Nat) (h : FullChunks m l i0) :
    ∀ j ch, l[j]? = some ch → ∃ a b, ch.stable0 = some a ∧ ch.stable1 = some b ∧ Asc a ∧ Asc b ∧
      slotsNum a = quota m ((i0 + j) * 2 + 0) ∧ slotsNum b = quota m ((i0 + j) * 2 + 1) := by
  induction l generalizing i0 with
  | nil => intro j ch hj; simp at hj
  | cons c l ih =>
    obtain ⟨hc, hr⟩ := h
    intro j ch hj
    cases j with
    | zero => simp only [List.getElem?_cons_zero, Option.some.injEq] at hj; subst hj; simpa using hc
    | succ j =>
      simp only [List.getElem?_cons_succ] at hj
      have := ih (i0 + 1) hr j ch hj
      have e : i0 + 1 + j = i0 + (j + 1) := by omega
      rw [e] at this; exact this

theorem fullChunks_asc (m : Nat) (l : List Chunk) (i0 : Nat) (h : FullChunks m l i0) :
    ∀ ch ∈ l, (∀ rl, ch.stable0 = some rl → Asc rl) ∧ (∀ rl, ch.stable1 = some rl → Asc rl) := by
  intro ch hch
  obtain ⟨j, hj⟩ := List.getElem?_of_mem hch
  obtain ⟨a, b, h0, h1, a0, a1, _, _⟩ := fullChunks_get m l i0 h j ch hj
  exact ⟨fun rl hrl => by rw [h0] at hrl; cases hrl; exact a0, fun rl hrl => by rw [h1] at hrl; cases hrl; exact a1⟩

/-- end of a chain that exhausts the pending tasks of a cluster carrying a profile -/
theorem chain_to_balanced {T : Nat → Nat} {N : Nat} {name : String} {s1 s2 : Store} {c1 : Cluster}
    (hf1 : s1.findCluster name = some c1) (hinv : CommitInv c1) (hprof : Profile T N c1)
    (hch : CoreChain name s1 (Cluster.pending c1).length s2)
    (hN : 0 < N) (hsz : N * 2 ≤ SLOT_NUM) (hT : ∀ idx, idx < N * 2 → T idx = quota (N * 2) idx) :
    ∃ c2, s2.findCluster name = some c2 ∧ Balanced c2 ∧ BalancedShape c2.chunks N := by
  obtain ⟨c2, hf2, hinv2, hprof2, hcount⟩ := coreChain_profile hch hf1 hinv hprof
  have hp0 : Cluster.pending c2 = [] := List.eq_nil_of_length_eq_zero (by omega)
  have hidle := (Cluster.pending_nil_iff hinv2.twin).mp hp0
  obtain ⟨hb, hs⟩ := balanced_of_profile hprof2 hidle hN hsz hT
  exact ⟨c2, hf2, hb, hs⟩

/-- **scale-out, end to end**: on a balanced cluster of `n` chunks followed by `k > 0` empty
chunks `migrate_slots` succeeds; if the resulting cluster satisfies `CommitInv` and `ProjInv`
(consequences of the shared slot invariants), it carries the profile of the new quotas
(`chain_to_balanced` then turns every exhausting chain of commits into a balanced cluster of
`n + k` chunks) -/
theorem scaleOut_balanced {s : Store} {name : String} {cl : Cluster} {A B : List Chunk} {n k : Nat}
    (hv : validName name = true) (hf : s.findCluster name = some cl)
    (hch : cl.chunks = A ++ B) (hA : A.length = n) (hB : B.length = k) (hn : 0 < n) (hk : 0 < k)
    (hfull : FullChunks (n * 2) A 0) (hempty : EmptyChunks B) (hnm : NoMigs cl.chunks)
    (hM : (n + k) * 2 ≤ SLOT_NUM) :
    ∃ c1, migrateSlots s name = (s.bump.setCluster c1, R.ok ()) ∧
      (s.bump.setCluster c1).findCluster name = some c1 ∧ c1.chunks.length = n + k ∧
      ProfileCore (quota ((n + k) * 2)) (n + k) c1 := by
  have hidle : cl.isMigrating = false := noMigs_isMigrating hnm
  obtain ⟨A', out, hplan, hlA', hfull', hout, hnm'⟩ :=
    removeSlotsFromSrc_balanced (cl := cl) (s.globalEpoch + 1) hch hA hB hn hk hfull hempty hM
  have hlenX : (A' ++ B).length = n + k := by rw [List.length_append, hlA', hB]
  have hfit : TasksFit (A' ++ B).length out := by
    intro m hm
    obtain ⟨⟨j, hj, d1, d2⟩, sp, sc, _, _⟩ := hout.shape m hm
    rw [hlenX]
    exact ⟨sc, by omega, sp, by omega⟩
  obtain ⟨chunks1, hassign, hlen1, hget⟩ := assignDstSlots_spec out (A' ++ B) hfit
  have hany : cl.chunks.any (fun c => c.stable0.isNone || c.stable1.isNone) = true := by
    cases B with
    | nil => simp at hB; omega
    | cons b B =>
      obtain ⟨e0, _⟩ := hempty b (by simp)
      rw [hch]
      exact List.any_eq_true.mpr ⟨b, by simp, by simp [e0]⟩
  have hmig := migrateSlots_ok hv hf hany hidle hplan hassign
  have hf1 : (s.bump.setCluster { cl with chunks := chunks1, epoch := s.globalEpoch + 1 }).findCluster name =
      some { cl with chunks := chunks1, epoch := s.globalEpoch + 1 } :=
    Store.findCluster_setCluster (s := s.bump) (cl := cl) (show s.bump.findCluster name = some cl from hf) rfl
  refine ⟨_, hmig, hf1, by show chunks1.length = n + k; rw [hlen1, hlenX], ?_⟩
  have hXnm : NoMigs (A' ++ B) := by
    intro ch hch'
    rcases List.mem_append.mp hch' with h | h
    · exact hnm' (fun c hc => hnm c (by rw [hch]; simp [hc])) ch h
    · exact hnm ch (by rw [hch]; simp [h])
  have hasc : ∀ ch ∈ A' ++ B, (∀ rl, ch.stable0 = some rl → Asc rl) ∧ (∀ rl, ch.stable1 = some rl → Asc rl) := by
    intro ch hch'
    rcases List.mem_append.mp hch' with h | h
    · exact fullChunks_asc _ A' 0 hfull' ch h
    · obtain ⟨e0, e1⟩ := hempty ch h
      exact ⟨fun rl hrl => (by rw [e0] at hrl; cases hrl), fun rl hrl => (by rw [e1] at hrl; cases hrl)⟩
  show ProfileCore (quota ((n + k) * 2)) (n + k) { cl with chunks := chunks1, epoch := s.globalEpoch + 1 }
  · apply profileCore_after_assign hXnm hasc (fun m hm => (hout.shape m hm).2.2.2.2) hget hlen1 ?_ ?_ ?_
      (by rw [hlenX]; exact Nat.le_refl _)
    · -- the profile
      intro i ch hi
      by_cases hin : i < n
      · have hi' : A'[i]? = some ch := by
          rw [List.getElem?_append_left (by rw [hlA']; exact hin)] at hi; exact hi
        obtain ⟨a, b, h0, h1, _, _, c0, c1⟩ := fullChunks_get _ A' 0 hfull' i ch hi'
        have hz : ∀ p0, recvAt i p0 out = 0 := by
          intro p0
          apply recvAt_zero
          intro m hm
          obtain ⟨⟨j, _, d1, _⟩, _⟩ := hout.shape m hm
          omega
        simp only [Nat.zero_add] at c0 c1
        rw [h0, h1, hz true, hz false]
        exact ⟨by simpa [halfCount] using c0, by simpa [halfCount] using c1⟩
      · have hilt : i < n + k := by
          have := (List.getElem?_eq_some_iff.mp hi).1
          rw [hlenX] at this; exact this
        have hmemB : ch ∈ B := by
          rw [List.getElem?_append_right (by rw [hlA']; omega)] at hi
          exact List.mem_of_getElem? hi
        obtain ⟨e0, e1⟩ := hempty ch hmemB
        have hb : ∀ (p0 : Bool), recvAt i p0 out =
            recvBy (fun mm => (mm.dstChunk - n) * 2 + mm.dstPart) out ((i - n) * 2 + (if p0 then 0 else 1)) := by
          intro p0
          apply recvAt_eq_recvBy
          intro m hm
          obtain ⟨⟨j, _, d1, d2⟩, _⟩ := hout.shape m hm
          rw [d1, d2]
          rw [Bool.eq_iff_iff]
          cases p0 <;> simp <;> omega
        rw [e0, e1, hb true, hb false]
        simp only [halfCount, Nat.zero_add, if_true, Bool.false_eq_true, if_false]
        rw [hout.filled _ (by omega), hout.filled _ (by omega)]
        constructor <;> (congr 1; omega)
    · -- nothing beyond the last chunk
      intro i ch hi hNi
      have := (List.getElem?_eq_some_iff.mp hi).1
      rw [hlenX] at this; omega
    · intro m hm
      obtain ⟨⟨j, hj, d1, _⟩, _⟩ := hout.shape m hm
      omega

/-- **scale-down, end to end**: on a balanced cluster of `n` chunks, `migrate_slots_to_scale_down`
to `0 < n' < n` chunks succeeds; if the resulting cluster satisfies `CommitInv` and `ProjInv`, every
chain of commits that exhausts its pending tasks ends in a cluster whose first `n'` chunks are
balanced over `2n'` masters and whose chunks `≥ n'` are exactly the slot-less ones -/
theorem scaleDown_balanced {s : Store} {name : String} {cl : Cluster} {n n' : Nat}
    (hv : validName name = true) (hf : s.findCluster name = some cl)
    (hfull : FullChunks (n * 2) cl.chunks 0) (hlen : cl.chunks.length = n) (hnm : NoMigs cl.chunks)
    (h0 : 0 < n') (hlt : n' < n) (hM : n * 2 ≤ SLOT_NUM) :
    ∃ c1, migrateSlotsToScaleDown s name (n' * 4) = (s.bump.setCluster c1, R.ok ()) ∧
      (s.bump.setCluster c1).findCluster name = some c1 ∧ c1.chunks.length = n ∧
      ProfileCore (fun idx => if idx < n' * 2 then quota (n' * 2) idx else 0) n' c1 := by
  have hidle : cl.isMigrating = false := noMigs_isMigrating hnm
  obtain ⟨out, hplan, hout⟩ :=
    removeSlotsToScaleDown_balanced (cl := cl) (s.globalEpoch + 1) hfull hlen h0 hlt hM
  generalize hX : cl.chunks.take n' ++ (cl.chunks.drop n').map
      (fun ch => { ch with stable0 := none, stable1 := none }) = X at hplan
  have htl : (cl.chunks.take n').length = n' := by rw [List.length_take, hlen]; omega
  have hlenX : X.length = n := by
    rw [← hX, List.length_append, htl, List.length_map, List.length_drop, hlen]; omega
  have hsplit : cl.chunks = cl.chunks.take n' ++ cl.chunks.drop n' := (List.take_append_drop n' cl.chunks).symm
  have hfull1 : FullChunks (n * 2) (cl.chunks.take n') 0 := by
    rw [hsplit, fullChunks_append] at hfull; exact hfull.1
  have hfit : TasksFit X.length out := by
    intro m hm
    obtain ⟨⟨j, hj, d1, d2⟩, sp, _, sc, _, _⟩ := hout.shape m hm
    rw [hlenX]
    exact ⟨sc, by omega, sp, by omega⟩
  obtain ⟨chunks1, hassign, hlen1, hget⟩ := assignDstSlots_spec out X hfit
  have hany : cl.chunks.any (fun c => c.stable0.isNone || c.stable1.isNone) = false := by
    simp only [List.any_eq_false]
    intro ch hch
    obtain ⟨j, hj⟩ := List.getElem?_of_mem hch
    obtain ⟨a, b, e0, e1, _⟩ := fullChunks_get _ _ 0 hfull j ch hj
    simp [e0, e1]
  have hmig := migrateSlotsToScaleDown_ok hv hf hany hidle h0 (by rw [hlen]; exact hlt) hplan hassign
  have hf1 : (s.bump.setCluster { cl with chunks := chunks1, epoch := s.globalEpoch + 1 }).findCluster name =
      some { cl with chunks := chunks1, epoch := s.globalEpoch + 1 } :=
    Store.findCluster_setCluster (s := s.bump) (cl := cl) (show s.bump.findCluster name = some cl from hf) rfl
  refine ⟨_, hmig, hf1, by show chunks1.length = n; rw [hlen1, hlenX], ?_⟩
  -- the chunks of `X` by index
  have hXlo : ∀ i ch, X[i]? = some ch → i < n' → (cl.chunks.take n')[i]? = some ch := by
    intro i ch hi hin
    rw [← hX, List.getElem?_append_left (by rw [htl]; exact hin)] at hi; exact hi
  have hXhi : ∀ i ch, X[i]? = some ch → n' ≤ i → ch.stable0 = none ∧ ch.stable1 = none ∧
      ch.mig0 = [] ∧ ch.mig1 = [] := by
    intro i ch hi hin
    rw [← hX, List.getElem?_append_right (by rw [htl]; exact hin), List.getElem?_map] at hi
    obtain ⟨c0, hc0, rfl⟩ := Option.map_eq_some_iff.mp hi
    have := hnm c0 (List.mem_of_mem_drop (List.mem_of_getElem? hc0))
    exact ⟨rfl, rfl, this.1, this.2⟩
  have hXnm : NoMigs X := by
    intro ch hch
    obtain ⟨i, hi⟩ := List.getElem?_of_mem hch
    by_cases hin : i < n'
    · exact hnm ch (List.mem_of_mem_take (List.mem_of_getElem? (hXlo i ch hi hin)))
    · obtain ⟨_, _, m0, m1⟩ := hXhi i ch hi (by omega); exact ⟨m0, m1⟩
  have hasc : ∀ ch ∈ X, (∀ rl, ch.stable0 = some rl → Asc rl) ∧ (∀ rl, ch.stable1 = some rl → Asc rl) := by
    intro ch hch
    obtain ⟨i, hi⟩ := List.getElem?_of_mem hch
    by_cases hin : i < n'
    · exact fullChunks_asc _ _ 0 hfull1 ch (List.mem_of_getElem? (hXlo i ch hi hin))
    · obtain ⟨e0, e1, _, _⟩ := hXhi i ch hi (by omega)
      exact ⟨fun rl hrl => (by rw [e0] at hrl; cases hrl), fun rl hrl => (by rw [e1] at hrl; cases hrl)⟩
  show ProfileCore (fun idx => if idx < n' * 2 then quota (n' * 2) idx else 0) n'
      { cl with chunks := chunks1, epoch := s.globalEpoch + 1 }
  · apply profileCore_after_assign hXnm hasc (fun m hm => (hout.shape m hm).2.2.2.2.2) hget hlen1 ?_ ?_ ?_
      (by rw [hlenX]; omega)
    · intro i ch hi
      by_cases hin : i < n'
      · obtain ⟨a, b, e0, e1, _, _, c0, c1⟩ := fullChunks_get _ _ 0 hfull1 i ch (hXlo i ch hi hin)
        have hb : ∀ (p0 : Bool), recvAt i p0 out = recvBy downIndex out (i * 2 + (if p0 then 0 else 1)) := by
          intro p0
          apply recvAt_eq_recvBy
          intro m hm
          obtain ⟨⟨j, _, d1, d2⟩, _⟩ := hout.shape m hm
          unfold downIndex
          rw [d1, d2, Bool.eq_iff_iff]
          cases p0 <;> simp <;> omega
        simp only [Nat.zero_add] at c0 c1
        rw [e0, e1, hb true, hb false]
        simp only [halfCount, if_true, Bool.false_eq_true, if_false, c0, c1]
        have f0 := hout.filled (i * 2 + 0) (by omega)
        have f1 := hout.filled (i * 2 + 1) (by omega)
        have l0 : i * 2 + 0 < n' * 2 := by omega
        have l1 : i * 2 + 1 < n' * 2 := by omega
        simp only [l0, l1, if_true]
        omega
      · obtain ⟨e0, e1, _, _⟩ := hXhi i ch hi (by omega)
        have hz : ∀ p0, recvAt i p0 out = 0 := by
          intro p0
          apply recvAt_zero
          intro m hm
          obtain ⟨⟨j, hj, d1, _⟩, _⟩ := hout.shape m hm
          omega
        have l0 : ¬ i * 2 < n' * 2 := by omega
        have l1 : ¬ i * 2 + 1 < n' * 2 := by omega
        rw [e0, e1, hz true, hz false]
        simp only [halfCount, l0, l1, if_false, Nat.add_zero, and_self]
    · intro i ch hi hNi
      obtain ⟨e0, e1, _, _⟩ := hXhi i ch hi hNi
      exact ⟨e0, e1⟩
    · intro m hm
      obtain ⟨⟨j, hj, d1, _⟩, _⟩ := hout.shape m hm
      omega

end Um.Broker.Scale
