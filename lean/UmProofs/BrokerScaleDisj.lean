import UmProofs.BrokerScaleProjB
/-!
# C10 — `ProjInv` follows from the shared invariants `SlotInv` and `TwinInv`

`SlotInv` says that the owned slots (stable and migrating-out ranges) of a cluster are exactly
`0 … SLOT_NUM-1`, each once, and that all stored range lists are normal; `TwinInv` says that the
importing entries carry the same range lists as the migrating-out ones.  Hence the stable ranges
of a half and the ranges being imported into it cover pairwise different slots, i.e. they are
pairwise disjoint (`ProjInv`).
-/
namespace Um.Broker.Scale
open Um Um.Slots Um.Broker

/-! ## list utilities -/

theorem flatMap_append_perm {α β : Type} (l : List α) (f g : α → List β) :
    (l.flatMap fun a => f a ++ g a).Perm (l.flatMap f ++ l.flatMap g) := by
  induction l with
  | nil => exact List.Perm.refl _
  | cons a l ih =>
    simp only [List.flatMap_cons]
    have h1 : (f a ++ g a ++ l.flatMap fun a => f a ++ g a).Perm (f a ++ g a ++ (l.flatMap f ++ l.flatMap g)) :=
      List.Perm.append_left _ ih
    refine h1.trans ?_
    simp only [List.append_assoc]
    apply List.Perm.append_left
    rw [← List.append_assoc, ← List.append_assoc]
    exact List.Perm.append_right _ List.perm_append_comm

theorem sublist_flatMap_of_mem {α β : Type} {l : List α} {a : α} (f : α → List β) (h : a ∈ l) :
    List.Sublist (f a) (l.flatMap f) := by
  induction l with
  | nil => cases h
  | cons x l ih =>
    simp only [List.flatMap_cons]
    rcases List.mem_cons.mp h with rfl | h'
    · exact List.sublist_append_left _ _
    · exact (ih h').trans (List.sublist_append_right _ _)

theorem Sublist.flatMap' {α β : Type} {l1 l2 : List α} (f : α → List β) (h : List.Sublist l1 l2) :
    List.Sublist (l1.flatMap f) (l2.flatMap f) := by
  induction h with
  | slnil => exact List.Sublist.refl _
  | cons a _ ih => simp only [List.flatMap_cons]; exact ih.trans (List.sublist_append_right _ _)
  | cons_cons a _ ih => simp only [List.flatMap_cons]; exact List.Sublist.append (List.Sublist.refl _) ih

/-! ## slots of ranges -/

theorem mem_rangeSlots {r : Range} {x : Nat} : x ∈ rangeSlots r ↔ r.1 ≤ x ∧ x ≤ r.2 := by
  unfold rangeSlots
  rw [List.mem_range'_1]
  omega

/-- duplicate-free slots ⇒ pairwise disjoint ranges -/
theorem pairwise_disj_of_nodup {l : RangeList} (hw : ∀ r ∈ l, r.1 ≤ r.2) (h : (slotsOf l).Nodup) :
    l.Pairwise Disj := by
  induction l with
  | nil => exact List.Pairwise.nil
  | cons r l ih =>
    unfold slotsOf at h
    simp only [List.flatMap_cons] at h
    rw [List.nodup_append] at h
    obtain ⟨_, hl, hcross⟩ := h
    refine List.pairwise_cons.mpr ⟨?_, ih (fun x hx => hw x (by simp [hx])) hl⟩
    intro r' hr'
    have hrw := hw r (by simp)
    have hr'w := hw r' (by simp [hr'])
    unfold Disj
    apply Classical.byContradiction
    intro hnd
    have hx : max r.1 r'.1 ∈ rangeSlots r := mem_rangeSlots.mpr (by omega)
    have hx' : max r.1 r'.1 ∈ l.flatMap rangeSlots :=
      List.mem_flatMap.mpr ⟨r', hr', mem_rangeSlots.mpr (by omega)⟩
    exact hcross _ hx _ hx' rfl

theorem disjList_of_nodup {l : RangeList} (hw : ∀ r ∈ l, r.1 ≤ r.2) (h : (slotsOf l).Nodup) : DisjList l :=
  ⟨hw, pairwise_disj_of_nodup hw h⟩

theorem slotsOf_append (a b : RangeList) : slotsOf (a ++ b) = slotsOf a ++ slotsOf b := by
  simp [slotsOf]

theorem slotsOf_flatten (L : List RangeList) : slotsOf L.flatten = L.flatMap slotsOf := by
  induction L with
  | nil => rfl
  | cons a L ih => simp [slotsOf_append, ih]

/-! ## the owned slots, rearranged -/

/-- all stable slots of a cluster, then all slots of its importing entries -/
def stableSlots (c : Cluster) : List Nat := c.chunks.flatMap fun ch => ch.stables.flatMap slotsOf
def importingSlots (c : Cluster) : List Nat := (Cluster.importing c).flatMap fun m => slotsOf m.ranges
def pendingSlots (c : Cluster) : List Nat := (Cluster.pending c).flatMap fun m => slotsOf m.ranges

theorem ownedSlots_perm (c : Cluster) : c.ownedSlots.Perm (stableSlots c ++ pendingSlots c) := by
  unfold Cluster.ownedSlots stableSlots pendingSlots Cluster.pending Cluster.migs
  refine (flatMap_append_perm c.chunks _ _).trans ?_
  rw [List.filter_flatMap, List.flatMap_assoc]

theorem pending_importing_perm {c : Cluster} (h : TwinInv c) : (pendingSlots c).Perm (importingSlots c) := by
  have h1 := h.1.map (fun p : RangeList × MigMeta => p.1)
  simp only [List.map_map] at h1
  have h2 := h1.flatMap_right slotsOf
  simp only [List.flatMap_map] at h2
  exact h2

theorem nodup_stable_importing {c : Cluster} (ht : TwinInv c) (hs : SlotInv c) :
    (stableSlots c ++ importingSlots c).Nodup := by
  have h1 : c.ownedSlots.Nodup := (List.Perm.nodup_iff hs.2).mpr List.nodup_range
  have h2 := (List.Perm.nodup_iff (ownedSlots_perm c)).mp h1
  exact (List.Perm.nodup_iff (List.Perm.append_left _ (pending_importing_perm ht))).mp h2

/-- **`SlotInv ∧ TwinInv ⇒ ProjInv`** -/
theorem projInv_of_invs {c : Cluster} (ht : TwinInv c) (hs : SlotInv c) : ProjInv c := by
  have hnd := nodup_stable_importing ht hs
  have hhalf : ∀ ch ∈ c.chunks, ∀ (st : Option RangeList) (l : List MigStore),
      List.Sublist st.toList ch.stables → List.Sublist l ch.migs → HalfDisj st l := by
    intro ch hch st l hst hl
    obtain ⟨hnorm, hmn⟩ := hs.1 ch hch
    -- well-formedness
    have hw : ∀ r ∈ halfAll st l, r.1 ≤ r.2 := by
      intro r hr
      unfold halfAll at hr
      rcases List.mem_append.mp hr with hr | hr
      · cases st with
        | none => simp at hr
        | some rl =>
          have : rl ∈ ch.stables := hst.subset (by simp)
          exact (normal_asc (hnorm rl this)).1 r (by simpa using hr)
      · obtain ⟨rl, hrl, hr'⟩ := List.mem_flatten.mp hr
        unfold impRanges at hrl
        obtain ⟨m, hm, rfl⟩ := List.mem_map.mp hrl
        have hm' : m ∈ ch.migs := hl.subset (List.mem_filter.mp hm).1
        exact (normal_asc (hmn m hm').1).1 r hr'
    apply disjList_of_nodup hw
    -- the slots of the half are a sublist of `stableSlots ++ importingSlots`
    have hsl : slotsOf (halfAll st l) = st.toList.flatMap slotsOf ++
        (l.filter fun m => !m.isMigrating).flatMap (fun m => slotsOf m.ranges) := by
      unfold halfAll
      rw [slotsOf_append, slotsOf_flatten]
      unfold impRanges
      rw [List.flatMap_map]
      cases st <;> simp [slotsOf]
    rw [hsl]
    apply List.Sublist.nodup _ hnd
    apply List.Sublist.append
    · exact (Sublist.flatMap' slotsOf hst).trans (sublist_flatMap_of_mem (fun ch => ch.stables.flatMap slotsOf) hch)
    · unfold importingSlots Cluster.importing Cluster.migs
      apply Sublist.flatMap'
      apply List.Sublist.filter
      exact hl.trans (sublist_flatMap_of_mem Chunk.migs hch)
  intro ch hch
  constructor
  · apply hhalf ch hch
    · unfold Chunk.stables; exact List.sublist_append_left _ _
    · unfold Chunk.migs; exact List.sublist_append_left _ _
  · apply hhalf ch hch
    · unfold Chunk.stables; exact List.sublist_append_right _ _
    · unfold Chunk.migs; exact List.sublist_append_right _ _

end Um.Broker.Scale
