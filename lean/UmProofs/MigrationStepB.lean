import UmProofs.MigrationGeneric
/-! C03 invariant preservation: backend commands of the key-lock holder (pull DUMP/PTTL/RESTORE,
UMSYNC fast path). -/
namespace Um.Mig

theorem critDump_eq {s : Sys} {k : Crit} (hk : s.crit = some k) : critDump s = k.pc.held := by
  simp [critDump, hk]

theorem restoreAt_spec (s : Sys) (v : Val) (hv : s.src = some v ∨ s.dst.isSome = true) :
    ∃ d' r', restoreAt s v = ({ s with dst := d' }, r') ∧ Eff s s.src d' ∧ d'.isSome = true := by
  unfold restoreAt
  cases hd : s.dst with
  | some w =>
    refine ⟨some w, .busy, ?_, Or.inl ⟨rfl, hd.symm⟩, rfl⟩
    cases s; simp_all
  | none =>
    rcases hv with hv | hv
    · exact ⟨some v, .ok, rfl, Or.inr (Or.inr ⟨v, hd, hv, rfl, rfl⟩), rfl⟩
    · simp [hd] at hv

/-- discharge the side conditions of the generic lemmas from the invariant facts about `crit` -/
macro "crit_side" hG:ident hk:ident k:ident : tactic =>
  `(tactic| (have hb3 := ($hG).b3a $k
             have hb4 := ($hG).b4b $k $hk
             have hb5 := ($hG).b5a $k $hk
             have hb6a := ($hG).b6a $k $hk
             have hb6 := ($hG).b6b
             have hb7 := ($hG).b7 $k $hk
             have hb8 := ($hG).b8
             have hb1 := ($hG).b1
             have ha4 := ($hG).a4b
             simp only [critDump, $hk:ident] at hb8
             mig_grind))

/-- every backend command of the key-lock holder preserves the invariant and the abstract register -/
theorem step_exeCrit {s s' : Sys} {k : Crit} {n : Node} {c : BCmd} {r : Rep}
    (hG : GInv s) (hO : OInv s) (hk : s.crit = some k)
    (hs : exeCrit s k n c r = some s') :
    (GInv s' ∧ OInv s') ∧ logical s' = logical s := by
  have hcd := critDump_eq hk
  unfold exeCrit at hs
  split at hs
  · -- DUMP of a pull
    rename_i hpc
    obtain ⟨hg, rfl⟩ := guard_some hs
    refine ⟨⟨?_, ?_⟩, rfl⟩
    · refine ginv_crit (pc := .pPttl s.src) hG hk (eff_refl s) ?_ ?_ ?_ ?_ ?_ ?_ ?_ ?_ <;> crit_side hG hk k
    · refine oinv_eff hO rfl (Nat.le_refl _) (fun _ => id) id id (eff_refl s) ?_ ?_
      · intro h _; simp [critDump, setCrit, CritPc.held, h]
      · intro _ h; exact h
  · -- PTTL of a pull
    rename_i d hpc
    simp only at hs
    obtain ⟨hg, rfl⟩ := guard_some hs
    refine ⟨⟨?_, ?_⟩, rfl⟩
    · cases d <;> cases hsrc : s.src <;> simp only <;>
        (refine ginv_crit hG hk (eff_refl s) ?_ ?_ ?_ ?_ ?_ ?_ ?_ ?_ <;> crit_side hG hk k)
    · refine oinv_eff hO rfl (Nat.le_refl _) (fun _ => id) id id (eff_refl s) ?_ ?_
      · intro h hc
        rw [hcd, hpc] at hc
        simp only [CritPc.held] at hc
        subst hc
        simp [critDump, setCrit, CritPc.held]
      · intro _ h; exact h
  · -- RESTORE ; cmd of a pull: the op goes on with its command, the lock stays until the reply is processed
    rename_i v v' hpc
    split at hs
    · rename_i hv; subst hv
      have hheld := hG.b3a k v' hk (by rw [hpc]; rfl)
      obtain ⟨d', r', hre, heff, hsome⟩ := restoreAt_spec s v' hheld
      rw [hre] at hs
      simp only at hs
      obtain ⟨hg, rfl⟩ := guard_some hs
      have hG1 : GInv { s with src := s.src, dst := d', crit := some { id := k.id, pc := .tail } } := by
        refine ginv_crit hG hk heff ?_ ?_ ?_ ?_ ?_ ?_ ?_ ?_ <;> crit_side hG hk k
      have hO1 : OInv { s with src := s.src, dst := d', crit := some { id := k.id, pc := .tail } } := by
        refine oinv_eff hO rfl (Nat.le_refl _) (fun _ => id) id id heff ?_ ?_
        · intro _ _; simp [critDump, CritPc.held]
        · intro _ h; exact h
      refine ⟨⟨?_, ?_⟩, ?_⟩
      · exact ginv_ops hG1 (by intro k' hk' ht; cases hk'; exact absurd rfl ht)
      · intro o' ho'
        rw [mem_setPc] at ho'
        obtain ⟨a, ha, rfl⟩ := ho'
        have hoa := hO1 a ha
        by_cases hid : a.id = k.id
        · have hlt : a.id < s.nextId := hoa.1
          simp only [hid, if_true]
          have hg8 := hG.g8 k hk (by rw [hpc]; simp) a ha hid
          rw [hpc] at hg8
          have hnb := hg8.2 rfl
          have hnd : a.cmd.deletes = false := by
            cases hd : a.cmd.deletes
            · rfl
            · have := hoa.2.1 hd; rw [hnb] at this; cases this
          refine ⟨by rw [hid] at hlt; exact hlt, hoa.2.1, ?_⟩
          have hpre : s.dstSt ≠ .preCheck := fun h => by have := (hG.b2 h).2.1; simp [hk] at this
          simp only [setPc, setCrit, DstFlight, Moved, hnd]
          exact ⟨hpre, Or.inl hsome, by simp⟩
        · simp only [hid, if_false]
          exact opOk_frame hoa (Nat.le_refl _) (fun _ => id) id id id id (fun _ h => h) (fun _ h => h)
      · exact eff_logical heff
    · simp at hs
  · -- PTTL of the fast path
    rename_i hpc
    obtain ⟨hg, rfl⟩ := guard_some hs
    refine ⟨⟨?_, ?_⟩, rfl⟩
    · refine ginv_crit (pc := .uFast (.dump s.src.isSome)) hG hk (eff_refl s) ?_ ?_ ?_ ?_ ?_ ?_ ?_ ?_ <;>
        (cases hsrc : s.src <;> crit_side hG hk k)
    · refine oinv_eff hO rfl (Nat.le_refl _) (fun _ => id) id id (eff_refl s) ?_ ?_
      · intro h _; simp [critDump, setCrit, CritPc.held]
      · intro _ h; exact h
  · -- DUMP of the fast path
    rename_i p hpc
    simp only at hs
    obtain ⟨hg, rfl⟩ := guard_some hs
    refine ⟨⟨?_, ?_⟩, rfl⟩
    · cases p <;> cases hsrc : s.src <;> simp only <;>
        (refine ginv_crit hG hk (eff_refl s) ?_ ?_ ?_ ?_ ?_ ?_ ?_ ?_ <;> crit_side hG hk k)
    · refine oinv_eff hO rfl (Nat.le_refl _) (fun _ => id) id id (eff_refl s) ?_ ?_
      · intro h _
        cases p <;> simp [critDump, setCrit, CritPc.held, h]
      · intro _ h; exact h
  · -- RESTORE of the fast path
    rename_i v v' hpc
    split at hs
    · rename_i hv; subst hv
      have hheld := hG.b3a k v' hk (by rw [hpc]; rfl)
      obtain ⟨d', r', hre, heff, hsome⟩ := restoreAt_spec s v' hheld
      rw [hre] at hs
      simp only at hs
      obtain ⟨hg, rfl⟩ := guard_some hs
      refine ⟨⟨?_, ?_⟩, eff_logical heff⟩
      · refine ginv_crit (s := s) (pc := .uFast .del) hG hk heff ?_ ?_ ?_ ?_ ?_ ?_ ?_ ?_ <;> crit_side hG hk k
      · refine oinv_eff hO rfl (Nat.le_refl _) (fun _ => id) id id heff ?_ ?_
        · intro _ _; simp [critDump, setCrit, CritPc.held]
        · intro _ h; exact h
    · simp at hs
  · -- DEL of the fast path
    rename_i hpc
    obtain ⟨hg, rfl⟩ := guard_some hs
    have hmv := hG.b4b k hk (by rw [hpc]; rfl)
    have heff : Eff s none s.dst := Or.inr (Or.inl ⟨rfl, rfl, hmv⟩)
    refine ⟨⟨?_, ?_⟩, eff_logical heff⟩
    · refine ginv_crit (s := s) (pc := .uSyncGot .ok) hG hk heff ?_ ?_ ?_ ?_ ?_ ?_ ?_ ?_ <;> crit_side hG hk k
    · refine oinv_eff hO rfl (Nat.le_refl _) (fun _ => id) id id heff ?_ ?_
      · intro _ _; simp [critDump, setCrit, CritPc.held]
      · intro _ h; exact h
  · simp at hs

end Um.Mig
