import UmProofs.BrokerSlotsPlanD
/-!
# C01, planning layer — `assignDstSlots` and `compactSlots`

Every planned task becomes one migrating-out entry at its source half and one importing entry
at its destination half (`updateChunk` panics when an index is out of range, so on `.ok` all
indices were in range). `compactSlots` is the identity when every stored list is in normal form.
-/
namespace Um.Broker.Plan
open Um Um.Slots Um.Broker

/-- append one entry to half `part` (`part = 0`, otherwise the second half) -/
def addMig (c : Chunk) (part : Nat) (e : MigStore) : Chunk :=
  match part with
  | 0 => { c with mig0 := c.mig0 ++ [e] }
  | _ => { c with mig1 := c.mig1 ++ [e] }

theorem addEntry_ok {chunks chunks' : List Chunk} {i part : Nat} {e : MigStore} {w : String}
    (h : updateChunk chunks i (fun c => (c.mig part).bind fun l => c.setMig part (l ++ [e])) w = R.ok chunks') :
    ∃ c, chunks[i]? = some c ∧ part < 2 ∧ chunks' = chunks.set i (addMig c part e) := by
  unfold updateChunk at h
  split at h
  · cases h
  rename_i c hc
  split at h
  · cases h
  rename_i c' hc'
  have h := pure_ok h
  subst h
  refine ⟨c, hc, ?_⟩
  match part, hc' with
  | 0, hc' =>
    simp only [Chunk.mig, Chunk.setMig, Option.bind] at hc'
    injection hc' with hc'
    exact ⟨by omega, by rw [← hc']; rfl⟩
  | 1, hc' =>
    simp only [Chunk.mig, Chunk.setMig, Option.bind] at hc'
    injection hc' with hc'
    exact ⟨by omega, by rw [← hc']; rfl⟩
  | n + 2, hc' =>
    simp [Chunk.mig] at hc'

theorem addMig_stable (c : Chunk) (part : Nat) (e : MigStore) :
    (addMig c part e).stable0 = c.stable0 ∧ (addMig c part e).stable1 = c.stable1 := by
  unfold addMig; split <;> exact ⟨rfl, rfl⟩

theorem addMig_migs_perm (c : Chunk) (part : Nat) (e : MigStore) :
    (addMig c part e).migs.Perm (e :: c.migs) := by
  unfold addMig Chunk.migs
  split
  · simp only
    rw [List.append_assoc]
    exact (List.perm_middle).trans (by simp)
  · simp only
    rw [← List.append_assoc]
    exact List.perm_append_singleton _ _ |>.trans (List.Perm.refl _)

theorem mem_addMig_mig0 {c : Chunk} {part : Nat} {e m : MigStore} (h : m ∈ (addMig c part e).mig0) :
    m ∈ c.mig0 ∨ (m = e ∧ part = 0) := by
  unfold addMig at h
  split at h
  · simp only [List.mem_append, List.mem_singleton] at h
    rcases h with h | h
    · exact Or.inl h
    · exact Or.inr ⟨h, rfl⟩
  · exact Or.inl h

theorem mem_addMig_mig1 {c : Chunk} {part : Nat} {e m : MigStore} (hp : part < 2) (h : m ∈ (addMig c part e).mig1) :
    m ∈ c.mig1 ∨ (m = e ∧ part = 1) := by
  unfold addMig at h
  split at h
  · exact Or.inl h
  · rename_i hne
    simp only [List.mem_append, List.mem_singleton] at h
    rcases h with h | h
    · exact Or.inl h
    · refine Or.inr ⟨h, ?_⟩
      have : part ≠ 0 := fun h0 => hne h0
      omega

/-! ## generic facts about `List.set` -/

theorem flatMap_set_perm {α β : Type} {f : α → List β} {b : β} : ∀ {l : List α} {i : Nat} {a a' : α},
    l[i]? = some a → (f a').Perm (b :: f a) → ((l.set i a').flatMap f).Perm (b :: l.flatMap f)
  | [], _, _, _, h, _ => by simp at h
  | x :: xs, 0, a, a', h, hp => by
    simp only [List.getElem?_cons_zero, Option.some.injEq] at h
    subst h
    simp only [List.set_cons_zero, List.flatMap_cons]
    exact (hp.append_right _)
  | x :: xs, i + 1, a, a', h, hp => by
    simp only [List.getElem?_cons_succ] at h
    simp only [List.set_cons_succ, List.flatMap_cons]
    exact ((flatMap_set_perm h hp).append_left (f x)).trans List.perm_middle

theorem map_set_same {α β : Type} {g : α → β} : ∀ {l : List α} {i : Nat} {a a' : α},
    l[i]? = some a → g a' = g a → (l.set i a').map g = l.map g
  | [], _, _, _, h, _ => by simp at h
  | x :: xs, 0, a, a', h, hg => by
    simp only [List.getElem?_cons_zero, Option.some.injEq] at h
    subst h
    simp [hg]
  | x :: xs, i + 1, a, a', h, hg => by
    simp only [List.getElem?_cons_succ] at h
    simp [map_set_same h hg]

/-! ## positions -/

def entryPos (m : MigStore) : Nat × Nat :=
  if m.isMigrating then (m.mm.srcChunk, m.mm.srcPart) else (m.mm.dstChunk, m.mm.dstPart)

def Bounds (n : Nat) (m : MigStore) : Prop :=
  m.mm.srcChunk < n ∧ m.mm.dstChunk < n ∧ m.mm.srcPart < 2 ∧ m.mm.dstPart < 2

/-- `PosInv` over a chunk list with the bound `n` fixed -/
def PosOK (n : Nat) (chunks : List Chunk) : Prop :=
  ∀ (i : Nat) (ch : Chunk), chunks[i]? = some ch →
    (∀ m ∈ ch.mig0, entryPos m = (i, 0)) ∧ (∀ m ∈ ch.mig1, entryPos m = (i, 1)) ∧ (∀ m ∈ ch.migs, Bounds n m)

theorem posInv_iff (c : Cluster) : PosInv c ↔ PosOK c.chunks.length c.chunks := Iff.rfl

theorem posOK_of_noMig {n : Nat} {chunks : List Chunk} (h : NoMig chunks) : PosOK n chunks := by
  intro i ch hi
  have hm := h ch (List.mem_of_getElem? hi)
  refine ⟨?_, ?_, ?_⟩
  · intro m hm'; rw [hm.1] at hm'; cases hm'
  · intro m hm'; rw [hm.2] at hm'; cases hm'
  · intro m hm'; simp [Chunk.migs, hm.1, hm.2] at hm'

theorem posOK_set {n : Nat} {chunks : List Chunk} {i part : Nat} {c : Chunk} {e : MigStore}
    (h : PosOK n chunks) (hi : chunks[i]? = some c) (hp : part < 2) (hpos : entryPos e = (i, part))
    (hb : Bounds n e) : PosOK n (chunks.set i (addMig c part e)) := by
  intro j ch hj
  rw [List.getElem?_set] at hj
  split at hj
  · rename_i hij
    subst hij
    split at hj
    · injection hj with hj
      subst hj
      obtain ⟨p0, p1, p2⟩ := h i c hi
      refine ⟨?_, ?_, ?_⟩
      · intro m hm
        rcases mem_addMig_mig0 hm with hm | ⟨hm, hpart⟩
        · exact p0 m hm
        · subst hm; rw [hpos, hpart]
      · intro m hm
        rcases mem_addMig_mig1 hp hm with hm | ⟨hm, hpart⟩
        · exact p1 m hm
        · subst hm; rw [hpos, hpart]
      · intro m hm
        have := (addMig_migs_perm c part e).mem_iff.mp hm
        rcases List.mem_cons.mp this with hm | hm
        · subst hm; exact hb
        · exact p2 m hm
    · cases hj
  · exact h j ch hj

/-! ## the fold of `assign_dst_slots` -/

def migE (m : MigSlots) : MigStore := { ranges := m.ranges, isMigrating := true, mm := m.mm }
def impE (m : MigSlots) : MigStore := { ranges := m.ranges, isMigrating := false, mm := m.mm }

def stablePair (c : Chunk) : Option RangeList × Option RangeList := (c.stable0, c.stable1)

/-- the body of the fold -/
def assignOne (chunks : List Chunk) (m : MigSlots) : R (List Chunk) := do
  let chunks ← updateChunk chunks m.mm.srcChunk (fun c =>
    (c.mig m.mm.srcPart).bind fun l =>
      c.setMig m.mm.srcPart (l ++ [{ ranges := m.ranges, isMigrating := true, mm := m.mm }])) "assign_dst_slots"
  updateChunk chunks m.mm.dstChunk (fun c =>
    (c.mig m.mm.dstPart).bind fun l =>
      c.setMig m.mm.dstPart (l ++ [{ ranges := m.ranges, isMigrating := false, mm := m.mm }])) "assign_dst_slots"

theorem assignDstSlots_eq (chunks : List Chunk) (ms : List MigSlots) :
    assignDstSlots chunks ms = (ms.foldlM assignOne chunks >>= fun c => pure (compactSlots c)) := rfl

structure AssignPost (n : Nat) (chunks chunks' : List Chunk) (new : List MigStore) : Prop where
  len : chunks'.length = chunks.length
  stable : chunks'.map stablePair = chunks.map stablePair
  migs : (migsL chunks').Perm (migsL chunks ++ new)
  pos : chunks.length = n → PosOK n chunks → PosOK n chunks'

theorem assignOne_spec {n : Nat} {chunks chunks' : List Chunk} {m : MigSlots}
    (h : assignOne chunks m = R.ok chunks') : AssignPost n chunks chunks' [migE m, impE m] := by
  unfold assignOne at h
  obtain ⟨c1, h1, h2⟩ := bind_ok h
  obtain ⟨a, ha, hpa, e1⟩ := addEntry_ok h1
  obtain ⟨b, hb, hpb, e2⟩ := addEntry_ok h2
  have l1 : c1.length = chunks.length := by rw [e1]; simp
  have l2 : chunks'.length = chunks.length := by rw [e2]; simp [l1]
  have hsa : a ∈ chunks := List.mem_of_getElem? ha
  have hia : m.mm.srcChunk < chunks.length := by
    have := List.getElem?_eq_some_iff.mp ha; exact this.1
  have hib : m.mm.dstChunk < chunks.length := by
    have := List.getElem?_eq_some_iff.mp hb; rw [← l1]; exact this.1
  refine ⟨l2, ?_, ?_, ?_⟩
  · rw [e2, map_set_same hb (by simp [stablePair, (addMig_stable b _ _).1, (addMig_stable b _ _).2]),
      e1, map_set_same ha (by simp [stablePair, (addMig_stable a _ _).1, (addMig_stable a _ _).2])]
  · have p1 : (migsL c1).Perm (migE m :: migsL chunks) := by
      rw [e1]; exact flatMap_set_perm ha (addMig_migs_perm a _ _)
    have p2 : (migsL chunks').Perm (impE m :: migsL c1) := by
      rw [e2]; exact flatMap_set_perm hb (addMig_migs_perm b _ _)
    refine p2.trans ((p1.cons _).trans ?_)
    refine (List.Perm.swap _ _ _).trans ?_
    exact List.perm_append_comm (l₁ := [migE m, impE m])
  · intro hn hpos
    have hbound : Bounds n (migE m) ∧ Bounds n (impE m) := by
      subst hn; exact ⟨⟨hia, hib, hpa, hpb⟩, ⟨hia, hib, hpa, hpb⟩⟩
    have q1 : PosOK n c1 := by
      rw [e1]; exact posOK_set hpos ha hpa rfl hbound.1
    rw [e2]; exact posOK_set q1 hb hpb rfl hbound.2

theorem assignFold_spec {n : Nat} : ∀ (ms : List MigSlots) (chunks chunks' : List Chunk),
    ms.foldlM assignOne chunks = R.ok chunks' →
      AssignPost n chunks chunks' (ms.flatMap fun m => [migE m, impE m]) := by
  intro ms
  induction ms with
  | nil =>
    intro chunks chunks' h
    simp only [List.foldlM_nil, pure_eq_ok] at h
    injection h with h; subst h
    exact ⟨rfl, rfl, by simp, fun _ h => h⟩
  | cons m rest ih =>
    intro chunks chunks' h
    rw [List.foldlM_cons] at h
    obtain ⟨c1, h1, h2⟩ := bind_ok h
    have s1 := assignOne_spec (n := n) h1
    have s2 := ih c1 chunks' h2
    refine ⟨s2.len.trans s1.len, s2.stable.trans s1.stable, ?_, fun hn hp => s2.pos (s1.len.trans hn) (s1.pos hn hp)⟩
    rw [List.flatMap_cons]
    refine s2.migs.trans ((s1.migs.append_right _).trans ?_)
    rw [List.append_assoc]

/-! ## `compact_slots` -/

theorem compactSlots_of_normal {chunks : List Chunk} (hs : StableNormal chunks)
    (hm : ∀ m ∈ migsL chunks, NormalRanges m.ranges) : compactSlots chunks = chunks := by
  unfold compactSlots
  conv => rhs; rw [← List.map_id chunks]
  apply List.map_congr_left
  intro c hc
  have h0 : c.stable0.map compact = c.stable0 := by
    cases h : c.stable0 with
    | none => rfl
    | some rl => simp [compact_of_normal rl (hs c hc rl (by simp [Chunk.stables, h]))]
  have h1 : c.stable1.map compact = c.stable1 := by
    cases h : c.stable1 with
    | none => rfl
    | some rl => simp [compact_of_normal rl (hs c hc rl (by simp [Chunk.stables, h]))]
  have hmig : ∀ l : List MigStore, (∀ m ∈ l, m ∈ c.migs) →
      l.map (fun m => { m with ranges := compact m.ranges }) = l := by
    intro l hl
    conv => rhs; rw [← List.map_id l]
    apply List.map_congr_left
    intro m hml
    have : NormalRanges m.ranges := hm m (List.mem_flatMap.mpr ⟨c, hc, hl m hml⟩)
    simp [compact_of_normal _ this]
  rw [h0, h1, hmig c.mig0 (fun m h => by simp [Chunk.migs, h]), hmig c.mig1 (fun m h => by simp [Chunk.migs, h])]
  rfl

/-- stable slots and normality depend only on the stable lists -/
theorem stableSlots_of_map_eq {a b : List Chunk} (h : a.map stablePair = b.map stablePair) :
    stableSlots a = stableSlots b ∧ (StableNormal b → StableNormal a) := by
  induction a generalizing b with
  | nil =>
    cases b with
    | nil => exact ⟨rfl, id⟩
    | cons y ys => simp at h
  | cons x xs ih =>
    cases b with
    | nil => simp at h
    | cons y ys =>
      simp only [List.map_cons, List.cons.injEq] at h
      obtain ⟨hxy, hrest⟩ := h
      obtain ⟨i1, i2⟩ := ih hrest
      have hst : x.stables = y.stables := by
        simp only [stablePair, Prod.mk.injEq] at hxy
        simp [Chunk.stables, hxy.1, hxy.2]
      refine ⟨by rw [stableSlots_cons, stableSlots_cons, hst, i1], ?_⟩
      intro hb c hc rl hrl
      rcases List.mem_cons.mp hc with hc | hc
      · subst hc; rw [hst] at hrl; exact hb y (by simp) rl hrl
      · exact i2 (fun c hc => hb c (by simp [hc])) c hc rl hrl

end Um.Broker.Plan
