import UmProofs.MigrationStepB
/-! C03 invariant preservation: backend commands of the scan actor and the DEL of finished pulls. -/
namespace Um.Mig

macro "scan_side" hG:ident : tactic =>
  `(tactic| (have hb3 := ($hG).b3b
             have hb4 := ($hG).b4c
             have hb5 := ($hG).b5b
             have hb5a := ($hG).b5a
             have hsg := isSyncGot_srcGone
             have hb6a := ($hG).b6a
             have hb6 := ($hG).b6b
             have hb7 := ($hG).b7
             have hb1 := ($hG).b1
             have hb2 := ($hG).b2'
             mig_grind))

theorem scan_active {s : Sys} (hG : GInv s) (h : s.scan ≠ .idle) : srcRank s.srcSt = 3 ∧ s.dstSt ≠ .preCheck := by
  have h1 := hG.b1
  have h2 := hG.b2'
  have h3 : srcRank s.srcSt = 3 := by
    by_cases ha : 4 ≤ srcRank s.srcSt
    · exact absurd (h1 ha).2 h
    · by_cases hb : srcRank s.srcSt ≤ 2
      · exact absurd (h2 hb) h
      · omega
  exact ⟨h3, hG.a2 (by omega)⟩

theorem step_exeScan {s s' : Sys} {n : Node} {c : BCmd} {r : Rep}
    (hG : GInv s) (hO : OInv s) (hs : exeScan s n c r = some s') :
    (GInv s' ∧ OInv s') ∧ logical s' = logical s := by
  unfold exeScan at hs
  split at hs
  · rename_i l hsc
    obtain ⟨hg, rfl⟩ := guard_some hs
    obtain ⟨hr, hpre⟩ := scan_active hG (by rw [hsc]; simp)
    refine ⟨⟨?_, ?_⟩, rfl⟩
    · refine ginv_scan (s := s) (sc := .dump l s.src.isSome) hG (eff_refl s) ?_ ?_ ?_ ?_ ?_ ?_ ?_ hpre <;>
        (cases hsrc : s.src <;> scan_side hG)
    · refine oinv_eff hO rfl (Nat.le_refl _) (fun _ => id) id id (eff_refl s) (fun _ h => h) ?_
      intro _ _; simp [ScanPc.held]
  · rename_i l p hsc
    simp only at hs
    obtain ⟨hg, rfl⟩ := guard_some hs
    obtain ⟨hr, hpre⟩ := scan_active hG (by rw [hsc]; simp)
    refine ⟨⟨?_, ?_⟩, rfl⟩
    · cases p <;> cases hsrc : s.src <;> simp only <;>
        (refine ginv_scan (s := s) hG (Or.inl ⟨hsrc.symm, rfl⟩) ?_ ?_ ?_ ?_ ?_ ?_ ?_ hpre <;> scan_side hG)
    · refine oinv_eff hO rfl (Nat.le_refl _) (fun _ => id) id id (eff_refl s) (fun _ h => h) ?_
      intro h _
      cases p <;> simp [ScanPc.held, h]
  · rename_i l v v' hsc
    split at hs
    · rename_i hv; subst hv
      have hheld := hG.b3b v' (by rw [hsc]; rfl)
      obtain ⟨d', r', hre, heff, hsome⟩ := restoreAt_spec s v' hheld
      rw [hre] at hs
      simp only at hs
      obtain ⟨hg, rfl⟩ := guard_some hs
      obtain ⟨hr, hpre⟩ := scan_active hG (by rw [hsc]; simp)
      refine ⟨⟨?_, ?_⟩, eff_logical heff⟩
      · refine ginv_scan (s := s) (sc := .del l) hG heff ?_ ?_ ?_ ?_ ?_ ?_ ?_ hpre <;> scan_side hG
      · refine oinv_eff hO rfl (Nat.le_refl _) (fun _ => id) id id heff (fun _ h => h) ?_
        intro _ _; simp [ScanPc.held]
    · simp at hs
  · rename_i l hsc
    obtain ⟨hg, rfl⟩ := guard_some hs
    obtain ⟨hr, hpre⟩ := scan_active hG (by rw [hsc]; simp)
    have hmv := hG.b4c (by rw [hsc]; rfl)
    have heff : Eff s none s.dst := Or.inr (Or.inl ⟨rfl, rfl, hmv⟩)
    refine ⟨⟨?_, ?_⟩, eff_logical heff⟩
    · refine ginv_scan (s := s) (sc := .fin l) hG heff ?_ ?_ ?_ ?_ ?_ ?_ ?_ hpre <;> scan_side hG
    · refine oinv_eff hO rfl (Nat.le_refl _) (fun _ => id) id id heff (fun _ h => h) ?_
      intro _ _; simp [ScanPc.held]
  · simp at hs

theorem step_exeAux {s s' : Sys} {n : Node} {c : BCmd} {r : Rep}
    (hG : GInv s) (hO : OInv s)
    (hs : guard (n == .src && c == .del && s.auxDel > 0 && r == delRep s.src)
      { s with src := none, auxDel := s.auxDel - 1 } = some s') :
    (GInv s' ∧ OInv s') ∧ logical s' = logical s := by
  obtain ⟨hg, rfl⟩ := guard_some hs
  simp only [Bool.and_eq_true, decide_eq_true_eq] at hg
  have hpos : 0 < s.auxDel := by omega
  have hmv := hG.b4a hpos
  have hpre : s.dstSt ≠ .preCheck := fun h => by have := (hG.b2 h).2.2; omega
  have heff : Eff s none s.dst := Or.inr (Or.inl ⟨rfl, rfl, hmv⟩)
  refine ⟨⟨?_, ?_⟩, eff_logical heff⟩
  · exact ginv_aux (s := s) hG heff (fun _ => Or.inr rfl) hpre
  · exact oinv_eff hO rfl (Nat.le_refl _) (fun _ => id) id id heff (fun _ h => h) (fun _ h => h)

end Um.Mig
