import UmProofs.BrokerSlotsPlanG
/-!
# C01, planning layer — `downChunks`, `removeSlotsToScaleDown`, `migrateSlotsToScaleDown`

Every source half ends `None`; all its slots are in emitted tasks. The budget inequality
`(slots of the sources) ≤ needFrom P 0` holds initially because the final counts sum to
`SLOT_NUM` and the kept chunks together with the sources own `SLOT_NUM` slots.
-/
namespace Um.Broker.Plan
open Um Um.Slots Um.Broker

/-- the state between two source masters; `later` = slots in the sources not yet visited -/
structure DBInv (P : DownParams) (later : Nat) (st : LoopSt) : Prop where
  empty : st.curSlots = []
  le : st.dstIdx ≤ P.dstMasterNum
  budget : later + st.curNum ≤ needFrom P st.dstIdx
  tasks : ∀ m ∈ st.out, TaskShape P.epoch 0 P.dstMasterNum m

def downHalf (P : DownParams) (i part : Nat) (o : Option RangeList) (st : LoopSt) : R LoopSt :=
  match o with
  | some rl => do let (_, st') ← downWhile P i part loopFuel rl st; pure st'
  | none => pure st

theorem downChunks_cons (P : DownParams) (ch : Chunk) (rest : List Chunk) (i : Nat) (st : LoopSt) :
    downChunks P (ch :: rest) i st =
      (downHalf P i 0 ch.stable0 st >>= fun a =>
        downHalf P i 1 ch.stable1 a >>= fun b =>
          downChunks P rest (i + 1) b >>= fun t =>
            pure ({ ch with stable0 := none, stable1 := none } :: t.1, t.2)) := by
  rw [downChunks]
  unfold downHalf
  cases ch.stable0 <;> cases ch.stable1 <;> simp only [bind_assoc, pure_bind]

theorem downHalf_spec (P : DownParams) (hlen : P.existing.length = P.dstMasterNum) (later i part : Nat)
    (o : Option RangeList) (st st' : LoopSt) (hb : DBInv P ((optSlots o).length + later) st)
    (hn : OptNormal o) (hnd : ∀ x, (optSlots o).count x + (outSlots st.out).count x ≤ 1)
    (h : downHalf P i part o st = R.ok st') :
    DBInv P later st' ∧
      ∀ x, (outSlots st'.out).count x = (optSlots o).count x + (outSlots st.out).count x := by
  cases o with
  | none =>
    simp only [downHalf, pure_eq_ok] at h
    injection h with h
    subst h
    refine ⟨⟨hb.empty, hb.le, ?_, hb.tasks⟩, fun x => by simp⟩
    have := hb.budget
    simp only [optSlots_none, List.length_nil] at this
    omega
  | some rl =>
    simp only [downHalf] at h
    obtain ⟨⟨rl', st1⟩, hw, h⟩ := bind_ok h
    simp only [pure_eq_ok] at h
    injection h with h
    subst h
    have hwf : WFRanges rl := normalRanges_wf rl (hn rl rfl)
    have hinv : DownInv P later rl st := by
      refine ⟨hwf, hb.empty ▸ wf_nil, ?_, hb.le, ?_, fun hx => absurd hb.empty hx, hb.tasks⟩
      · apply nodup_of_count
        intro x
        rw [count_loopSlots, hb.empty]
        have := hnd x
        simp only [optSlots_some, slotsOf_nil, List.count_nil] at this ⊢
        omega
      · have := hb.budget
        rw [optSlots_some, ← slotsNum_eq_length hwf] at this
        omega
    obtain ⟨hi, hp, hnil, he⟩ := downWhile_spec P hlen later i part loopFuel rl rl' st st1 hinv hw
    subst hnil
    refine ⟨⟨he, hi.le, ?_, hi.tasks⟩, ?_⟩
    · have := hi.budget
      simp only [slotsNum_nil] at this
      omega
    · intro x
      have := count_of_perm hp x
      rw [count_loopSlots, count_loopSlots, he, hb.empty] at this
      simp only [optSlots_some, slotsOf_nil, List.count_nil] at this ⊢
      omega

theorem length_stableSlots_cons (ch : Chunk) (rest : List Chunk) :
    (stableSlots (ch :: rest)).length =
      (optSlots ch.stable0).length + ((optSlots ch.stable1).length + (stableSlots rest).length) := by
  rw [stableSlots_cons, stables_flatMap]
  simp only [List.length_append, optSlots]
  omega

/-- **outer loops of `remove_slots_from_src_to_scale_down`** -/
theorem downChunks_spec (P : DownParams) (hlen : P.existing.length = P.dstMasterNum) :
    ∀ (chs : List Chunk) (i : Nat) (st : LoopSt) (chs' : List Chunk) (st' : LoopSt),
      DBInv P (stableSlots chs).length st → StableNormal chs →
      (∀ x, (stableSlots chs).count x + (outSlots st.out).count x ≤ 1) →
      downChunks P chs i st = R.ok (chs', st') →
      DBInv P 0 st' ∧ chs'.length = chs.length ∧ (∀ c ∈ chs', c.stable0 = none ∧ c.stable1 = none) ∧
        (NoMig chs → NoMig chs') ∧
        ∀ x, (outSlots st'.out).count x = (stableSlots chs).count x + (outSlots st.out).count x := by
  intro chs
  induction chs with
  | nil =>
    intro i st chs' st' hb _ _ h
    simp only [downChunks, pure_eq_ok] at h
    injection h with h
    injection h with h1 h2
    subst h1; subst h2
    refine ⟨hb, rfl, ?_, id, ?_⟩
    · intro c hc; cases hc
    · intro x; simp [stableSlots]
  | cons ch rest ih =>
    intro i st chs' st' hb hsn hnd h
    rw [downChunks_cons] at h
    obtain ⟨a, ha, h⟩ := bind_ok h
    obtain ⟨b, hbb, h⟩ := bind_ok h
    obtain ⟨t, ht, h⟩ := bind_ok h
    simp only [pure_eq_ok] at h
    injection h with h
    injection h with h1 h2
    subst h1; subst h2
    have hn0 : OptNormal ch.stable0 := fun rl hrl =>
      hsn ch (by simp) rl (by simp [Chunk.stables, hrl])
    have hn1 : OptNormal ch.stable1 := fun rl hrl =>
      hsn ch (by simp) rl (by simp [Chunk.stables, hrl])
    have hcnt := fun x => count_stableSlots_cons ch rest x
    rw [length_stableSlots_cons] at hb
    obtain ⟨ba, ca⟩ := downHalf_spec P hlen _ i 0 ch.stable0 st a hb hn0
      (fun x => by have := hnd x; have := hcnt x; omega) ha
    obtain ⟨bb, cb⟩ := downHalf_spec P hlen _ i 1 ch.stable1 a b ba hn1
      (fun x => by have := hnd x; have := hcnt x; have := ca x; omega) hbb
    obtain ⟨bt, lt, nt, mt, ct⟩ := ih (i + 1) b t.1 t.2 bb (fun c hc => hsn c (by simp [hc]))
      (fun x => by have := hnd x; have := hcnt x; have := ca x; have := cb x; omega) ht
    refine ⟨bt, by simp [lt], ?_, ?_, ?_⟩
    · intro c hc
      rcases List.mem_cons.mp hc with hc | hc
      · subst hc; exact ⟨rfl, rfl⟩
      · exact nt c hc
    · intro hnm c hc
      rcases List.mem_cons.mp hc with hc | hc
      · subst hc; exact hnm ch (by simp)
      · exact mt (fun c hc => hnm c (by simp [hc])) c hc
    · intro x
      have := hcnt x; have := ca x; have := cb x; have := ct x
      omega

/-! ## the initial budget -/

theorem needL_ge (P : DownParams) : ∀ (l : List Nat) (k : Nat),
    startOf P.average P.remainder (k + l.length) ≤
      needL P k l + l.sum + startOf P.average P.remainder k := by
  intro l
  induction l with
  | nil => intro k; simp [needL]
  | cons ex rest ih =>
    intro k
    have := ih (k + 1)
    have hs := startOf_succ P.average P.remainder k
    have hk : k + (ex :: rest).length = k + 1 + rest.length := by simp; omega
    rw [hk]
    simp only [needL, List.sum_cons, downFinalOf]
    omega

/-- the `existing` table of a scale-down sums to the slots of the kept chunks -/
theorem existing_sum : ∀ (l : List Chunk), StableNormal l →
    (l.flatMap fun c => [(c.stable0.map slotsNum).getD 0, (c.stable1.map slotsNum).getD 0]).sum =
      (stableSlots l).length := by
  intro l
  induction l with
  | nil => intro _; rfl
  | cons c rest ih =>
    intro hsn
    have h0 : (c.stable0.map slotsNum).getD 0 = (optSlots c.stable0).length := by
      cases h : c.stable0 with
      | none => rfl
      | some rl =>
        simp only [Option.map_some, Option.getD_some, optSlots_some]
        exact slotsNum_eq_length (normalRanges_wf rl (hsn c (by simp) rl (by simp [Chunk.stables, h])))
    have h1 : (c.stable1.map slotsNum).getD 0 = (optSlots c.stable1).length := by
      cases h : c.stable1 with
      | none => rfl
      | some rl =>
        simp only [Option.map_some, Option.getD_some, optSlots_some]
        exact slotsNum_eq_length (normalRanges_wf rl (hsn c (by simp) rl (by simp [Chunk.stables, h])))
    rw [List.flatMap_cons, List.sum_append, ih (fun c hc => hsn c (by simp [hc])), length_stableSlots_cons,
      h0, h1]
    simp only [List.sum_cons, List.sum_nil]
    omega

theorem stableSlots_none {l : List Chunk} (h : ∀ c ∈ l, c.stable0 = none ∧ c.stable1 = none) :
    stableSlots l = [] ∧ StableNormal l := by
  constructor
  · unfold stableSlots
    apply List.flatMap_eq_nil_iff.mpr
    intro c hc
    simp [Chunk.stables, (h c hc).1, (h c hc).2]
  · intro c hc rl hrl
    simp [Chunk.stables, (h c hc).1, (h c hc).2] at hrl

/-- the parameters `remove_slots_from_src_to_scale_down` computes -/
def downParams (cl : Cluster) (epoch n : Nat) : DownParams :=
  { epoch := epoch, average := SLOT_NUM / (n * 2), remainder := SLOT_NUM - SLOT_NUM / (n * 2) * (n * 2),
    dstMasterNum := n * 2,
    existing := (cl.chunks.take n).flatMap fun c =>
      [(c.stable0.map slotsNum).getD 0, (c.stable1.map slotsNum).getD 0] }

/-- **`remove_slots_from_src_to_scale_down`** on a cluster whose stable slots are `0 … SLOT_NUM-1` -/
theorem removeSlotsToScaleDown_spec {cl : Cluster} {epoch n : Nat} {chunks : List Chunk} {ms : List MigSlots}
    (hn : n ≤ cl.chunks.length) (hsn : StableNormal cl.chunks)
    (hsl : (stableSlots cl.chunks).Perm (List.range SLOT_NUM))
    (h : removeSlotsToScaleDown cl epoch n = R.ok (chunks, ms)) :
    StableNormal chunks ∧ (NoMig cl.chunks → NoMig chunks) ∧
      (∀ m ∈ ms, TaskShape epoch 0 (n * 2) m) ∧
      ∀ x, (stableSlots chunks).count x + (outSlots ms).count x = (stableSlots cl.chunks).count x := by
  unfold removeSlotsToScaleDown at h
  simp only [pure_eq_ok] at h
  split at h
  · cases h
  rename_i hne
  have hM : 0 < n * 2 := by
    have : n * 2 ≠ 0 := by simpa using hne
    omega
  obtain ⟨⟨tl, st⟩, hd, h⟩ := bind_ok h
  injection h with h
  injection h with h1 h2
  subst h1; subst h2
  have hsplit : cl.chunks = cl.chunks.take n ++ cl.chunks.drop n := (List.take_append_drop n cl.chunks).symm
  have hsnT : StableNormal (cl.chunks.take n) := fun c hc => hsn c (List.mem_of_mem_take hc)
  have hsnD : StableNormal (cl.chunks.drop n) := fun c hc => hsn c (List.mem_of_mem_drop hc)
  have hcount : ∀ x, (stableSlots cl.chunks).count x =
      (stableSlots (cl.chunks.take n)).count x + (stableSlots (cl.chunks.drop n)).count x := by
    intro x
    conv => lhs; rw [hsplit]
    rw [stableSlots_append, List.count_append]
  have hnd := nodup_of_perm_range hsl
  -- the parameters
  have hd : downChunks (downParams cl epoch n) (cl.chunks.drop n) n
      { dstIdx := 0, curSlots := [], curNum := 0, out := [] } = R.ok (tl, st) := hd
  generalize hP : downParams cl epoch n = P at hd
  have hP := hP.symm
  unfold downParams at hP
  have hlenE : P.existing.length = P.dstMasterNum := by
    subst hP
    simp only [List.length_flatMap, List.length_cons, List.length_nil]
    have : (List.map (fun _ : Chunk => 0 + 1 + 1) (List.take n cl.chunks)).sum = (List.take n cl.chunks).length * 2 := by
      generalize List.take n cl.chunks = l
      induction l with
      | nil => rfl
      | cons _ _ ih => simp only [List.map_cons, List.sum_cons, ih, List.length_cons]; omega
    rw [this, List.length_take, Nat.min_eq_left hn]
  have hbud : (stableSlots (cl.chunks.drop n)).length ≤ needFrom P 0 := by
    have h1 := needL_ge P P.existing 0
    have h2 : P.existing.sum = (stableSlots (cl.chunks.take n)).length := by
      subst hP; exact existing_sum _ hsnT
    have h3 : startOf P.average P.remainder (0 + P.existing.length) = SLOT_NUM := by
      rw [hlenE]; subst hP; simp only [Nat.zero_add]; exact avg_rem (n * 2) hM
    have h4 : startOf P.average P.remainder 0 = 0 := by simp [startOf]
    have h5 : (stableSlots cl.chunks).length = SLOT_NUM := by
      rw [hsl.length_eq, List.length_range]
    have h6 : (stableSlots cl.chunks).length =
        (stableSlots (cl.chunks.take n)).length + (stableSlots (cl.chunks.drop n)).length := by
      conv => lhs; rw [hsplit]
      rw [stableSlots_append, List.length_append]
    have h7 : needFrom P 0 = needL P 0 P.existing := by simp [needFrom]
    omega
  have hepoch : P.epoch = epoch := by subst hP; rfl
  have hdm : P.dstMasterNum = n * 2 := by subst hP; rfl
  obtain ⟨bi, _, hnone, nm, cnt⟩ := downChunks_spec P hlenE (cl.chunks.drop n) n _ tl st
    ⟨rfl, Nat.zero_le _, by simpa using hbud, fun m hm => by cases hm⟩ hsnD
    (fun x => by have := count_of_nodup hnd x; have := hcount x; simp [outSlots]; omega) hd
  obtain ⟨htl, hsntl⟩ := stableSlots_none hnone
  refine ⟨?_, ?_, ?_, ?_⟩
  · intro c hc
    rcases List.mem_append.mp hc with hc | hc
    · exact hsnT c hc
    · exact hsntl c hc
  · intro hnm c hc
    rcases List.mem_append.mp hc with hc | hc
    · exact hnm c (List.mem_of_mem_take hc)
    · exact nm (fun c hc => hnm c (List.mem_of_mem_drop hc)) c hc
  · intro m hm
    have := bi.tasks m hm
    rwa [hepoch, hdm] at this
  · intro x
    rw [stableSlots_append, htl, List.append_nil, hcount x, cnt x]
    simp [outSlots]

/-- **`migrate_slots_to_scale_down`** keeps the invariants of every cluster -/
theorem migrateSlotsToScaleDown_inv (s : Store) (name : String) (newNodeNum : Nat)
    (h : ∀ c ∈ s.clusters, CInv c) :
    ∀ c ∈ (migrateSlotsToScaleDown s name newNodeNum).1.clusters, CInv c := by
  intro c hc
  unfold migrateSlotsToScaleDown at hc
  split at hc
  · exact h c hc
  dsimp only at hc
  split at hc
  · exact h c hc
  rename_i cl hfind
  rw [findCluster_bump] at hfind
  have hmem := findCluster_mem hfind
  split at hc
  · exact h c hc
  split at hc
  · exact h c hc
  rename_i hnm
  have hnm : NoMig cl.chunks := not_isMigrating (by simpa using hnm)
  split at hc
  · exact h c hc
  rename_i hnum
  split at hc
  · rename_i chunks heq
    rcases mem_setCluster hc with hc | hc
    · subst hc
      obtain ⟨⟨chs, ms⟩, hrem, hass⟩ := bind_ok heq
      obtain ⟨hsn, hsl⟩ := stable_of_slotInv hnm (h cl hmem).2.2
      have hn : newNodeNum / 4 ≤ cl.chunks.length := by
        simp only [Bool.or_eq_true, decide_eq_true_eq, not_or, Nat.not_le] at hnum
        omega
      obtain ⟨sn, nm, tasks, cnt⟩ := removeSlotsToScaleDown_spec hn hsn hsl hrem
      exact cinv_of_plan (nm hnm) sn (fun m hm => (tasks m hm).1)
        (fun x => by rw [cnt x]; exact count_of_perm hsl x) hass _ rfl
    · exact h c hc
  · exact h c hc
  · exact h c hc
  · exact h c hc

end Um.Broker.Plan
