import UmProofs.RespComplete
/-!
# C15 — `encode_resp` produces an accepted spelling; `decode` level corollaries
(round trip, stability under appended bytes, strict prefixes, no `expect` panic)
-/
namespace Um.Resp
open Um

/-! ## `usize::to_string` -/

theorem decAux_eq (f n : Nat) (acc : Bytes) (h : n < f) : decAux f n acc = natDigits n ++ acc := by
  induction f generalizing n acc with
  | zero => omega
  | succ f ih =>
    unfold decAux
    simp only
    by_cases hn : n < 10
    · simp only [hn, if_true]
      unfold natDigits
      simp only [hn, dif_pos]
      have : n % 10 = n := Nat.mod_eq_of_lt hn
      rw [this]; rfl
    · simp only [hn, if_false]
      rw [ih (n / 10) _ (by omega)]
      conv => rhs; unfold natDigits
      simp only [hn, dif_neg, not_false_eq_true, List.append_assoc, List.cons_append, List.nil_append]

theorem usizeToString_eq (n : Nat) : usizeToString n = natDigits n := by
  unfold usizeToString
  rw [decAux_eq _ _ _ (by omega)]; simp

theorem btoiI64_usizeToString (n : Nat) (h : n ≤ i64Max) : btoiI64 (usizeToString n) = some (n : Int) := by
  rw [usizeToString_eq]
  have := btoiI64_intDigits (n : Int) (by unfold i64NegMax; omega) (by exact_mod_cast h)
  unfold intDigits at this
  have hnn : ¬ ((n : Int) < 0) := by omega
  simpa [hnn] using this

/-! ## values that exist in memory and that `encode_resp` can frame -/

mutual
/-- line payloads (`Simple`/`Error`/`Integer`) contain no LF; bulk and array lengths fit `i64`,
and an array length passes the reservation of `parse_array` (vacuous with the capped reservation;
all three hold for every value a 64-bit process can hold).  The nesting bound is separate:
`NestOk 0 v` (`nesting v ≤ MAX_NESTING`, `nestOk_zero_iff`). -/
def Wf : Resp → Prop
  | .simple p => LF ∉ p
  | .error p => LF ∉ p
  | .integer p => LF ∉ p
  | .bulk p => p.length ≤ i64Max
  | .bulkNil => True
  | .arrNil => True
  | .arr l => l.length ≤ i64Max ∧ reservePanics l.length = false ∧ WfList l
def WfList : List Resp → Prop
  | [] => True
  | v :: vs => Wf v ∧ WfList vs
end

theorem termOk_CR (s : Bool) : TermOk s CR := ⟨by decide, fun _ => rfl⟩
theorem bulkTermOk_crlf (s : Bool) : BulkTermOk s crlf := ⟨rfl, fun _ => rfl⟩

theorem capacity_le_i64 {n : Nat} (h : capacityOverflow n = false) : n ≤ i64Max := by
  unfold capacityOverflow respIndexSize isizeMax at h
  unfold i64Max
  simp at h; omega

mutual
theorem encode_accepted (s : Bool) : ∀ (v : Resp), Wf v → Accepts s v (encode v)
  | .simple p, h => by
    simp only [Wf] at h
    simp only [Accepts, encode, encodeSimpleElement]
    exact ⟨CR, rfl, h, termOk_CR s⟩
  | .error p, h => by
    simp only [Wf] at h
    simp only [Accepts, encode, encodeSimpleElement]
    exact ⟨CR, rfl, h, termOk_CR s⟩
  | .integer p, h => by
    simp only [Wf] at h
    simp only [Accepts, encode, encodeSimpleElement]
    exact ⟨CR, rfl, h, termOk_CR s⟩
  | .bulkNil, _ => by
    simp only [Accepts, encode]
    exact ⟨[45, 49], CR, -1, rfl, by decide, by decide, termOk_CR s⟩
  | .arrNil, _ => by
    simp only [Accepts, encode]
    exact ⟨[45, 49], CR, -1, rfl, by decide, by decide, termOk_CR s⟩
  | .bulk p, h => by
    simp only [Wf] at h
    simp only [Accepts, encode, encodeSimpleElement]
    exact ⟨usizeToString p.length, CR, crlf, by simp [crlf_val, CR_val, LF_val],
      btoiI64_usizeToString _ h, termOk_CR s, bulkTermOk_crlf s⟩
  | .arr l, h => by
    simp only [Wf] at h
    simp only [Accepts, encode, encodeSimpleElement]
    exact ⟨usizeToString l.length, CR, encodeList l, by simp [crlf_val, CR_val, LF_val],
      btoiI64_usizeToString _ h.1, termOk_CR s, h.2.1, encodeList_accepted s l h.2.2⟩
theorem encodeList_accepted (s : Bool) : ∀ (l : List Resp), WfList l → AcceptsList s l (encodeList l)
  | [], _ => by simp [AcceptsList, encodeList]
  | v :: vs, h => by
    simp only [WfList] at h
    simp only [AcceptsList, encodeList]
    exact ⟨_, _, rfl, encode_accepted s v h.1, encodeList_accepted s vs h.2⟩
end

/-! ## `decodeIndexed` / `decodeVec` in terms of `parse` -/

theorem decodeIndexed_of_ok {s : Bool} {b : Bytes} {idx : RespIdx} {n : Nat} (h : parse s b = .ok (idx, n)) :
    decodeIndexed s b = .item ⟨idx, b.take n⟩ (b.drop n) := by
  have hb := parse_ok_bounds h
  unfold decodeIndexed
  rw [h]
  have : ¬ (n > b.length) := by omega
  simp [this]

theorem decodeIndexed_item {s : Bool} {b : Bytes} {p : IndexedResp} {rest : Bytes}
    (h : decodeIndexed s b = .item p rest) :
    ∃ n, parse s b = .ok (p.resp, n) ∧ 1 ≤ n ∧ n ≤ b.length ∧ p.data = b.take n ∧ rest = b.drop n := by
  unfold decodeIndexed at h
  cases hp : parse s b with
  | error e => rw [hp] at h; cases e <;> simp at h
  | ok pr =>
    obtain ⟨idx, n⟩ := pr
    have hb := parse_ok_bounds hp
    rw [hp] at h
    have : ¬ (n > b.length) := by omega
    simp only [this, if_false, Dec.item.injEq] at h
    obtain ⟨h1, h2⟩ := h
    subst h1 h2
    exact ⟨n, rfl, hb.1, hb.2, rfl, rfl⟩

theorem decodeIndexed_none {s : Bool} {b : Bytes} : decodeIndexed s b = .none ↔ parse s b = .error .notEnough := by
  unfold decodeIndexed
  cases hp : parse s b with
  | error e => cases e <;> simp
  | ok pr =>
    obtain ⟨idx, n⟩ := pr
    have hb := parse_ok_bounds hp
    have : ¬ (n > b.length) := by omega
    simp [this]

theorem decodeIndexed_nil (s : Bool) : decodeIndexed s [] = .none := by
  rw [decodeIndexed_none]; rfl

/-- a decoded packet is shorter than the buffer it came from: the decode loops terminate -/
theorem decodeIndexed_item_lt {s : Bool} {b : Bytes} {p : IndexedResp} {rest : Bytes}
    (h : decodeIndexed s b = .item p rest) : rest.length < b.length := by
  obtain ⟨n, _, h1, h2, _, h3⟩ := decodeIndexed_item h
  subst h3; simp; omega

/-- every verdict except `Ok(None)` is final: appending bytes does not change it (the packet,
its index tree and its bytes stay the same; the rest of the buffer just grows) -/
theorem decodeIndexed_ext {s : Bool} {b : Bytes} (x : Bytes) :
    (∀ p rest, decodeIndexed s b = .item p rest → decodeIndexed s (b ++ x) = .item p (rest ++ x)) ∧
    (decodeIndexed s b = .invalid → decodeIndexed s (b ++ x) = .invalid) ∧
    (decodeIndexed s b = .panic → decodeIndexed s (b ++ x) = .panic) := by
  refine ⟨?_, ?_, ?_⟩
  · intro p rest h
    obtain ⟨n, hp, h1, h2, h3, h4⟩ := decodeIndexed_item h
    have := parse_append x hp (by simp [Settled])
    rw [decodeIndexed_of_ok this, List.take_append_of_le_length h2, List.drop_append_of_le_length h2,
      ← h3, ← h4]
  · intro h
    unfold decodeIndexed at h ⊢
    cases hp : parse s b with
    | error e =>
      rw [hp] at h
      cases e with
      | notEnough => simp at h
      | fuel => simp at h
      | capacity => simp at h
      | invalid => rw [parse_append x hp (by simp [Settled])]
      | unexpected => rw [parse_append x hp (by simp [Settled])]
    | ok pr =>
      obtain ⟨idx, n⟩ := pr
      have hb := parse_ok_bounds hp
      rw [hp] at h
      have : ¬ (n > b.length) := by omega
      simp [this] at h
  · intro h
    unfold decodeIndexed at h ⊢
    cases hp : parse s b with
    | error e =>
      rw [hp] at h
      cases e with
      | notEnough => simp at h
      | fuel => exact absurd hp (parse_ne_fuel s b)
      | capacity => rw [parse_append x hp (by simp [Settled])]
      | invalid => simp at h
      | unexpected => simp at h
    | ok pr =>
      obtain ⟨idx, n⟩ := pr
      have hb := parse_ok_bounds hp
      rw [hp] at h
      have : ¬ (n > b.length) := by omega
      simp [this] at h

/-- what a decoded packet is: its bytes are the consumed prefix, they have an accepted shape, and
the index tree resolves to the value of that shape (`to_resp_vec` cannot panic) -/
theorem decodeIndexed_sound {s : Bool} {b : Bytes} {p : IndexedResp} {rest : Bytes}
    (h : decodeIndexed s b = .item p rest) :
    p.data ++ rest = b ∧ ∃ v, toRespVec p.data p.resp = some v ∧ Accepts s v p.data ∧ NestOk 0 v := by
  obtain ⟨n, hp, _, _, h3, h4⟩ := decodeIndexed_item h
  obtain ⟨v, hv, ha, hn⟩ := parse_ok_sound hp
  rw [h3, h4]
  exact ⟨List.take_append_drop n b, v, hv, ha, hn⟩

theorem decodeIndexed_complete {s : Bool} {v : Resp} {e : Bytes} (h : Accepts s v e) (hn : NestOk 0 v)
    (rest : Bytes) :
    ∃ idx, decodeIndexed s (e ++ rest) = .item ⟨idx, e⟩ rest ∧ toRespVec e idx = some v := by
  obtain ⟨idx, hp, hv⟩ := parse_complete h hn rest
  refine ⟨idx, ?_, hv⟩
  rw [decodeIndexed_of_ok hp, List.take_left' rfl, List.drop_left' rfl]

theorem decodeVec_complete {s : Bool} {v : Resp} {e : Bytes} (h : Accepts s v e) (hn : NestOk 0 v)
    (rest : Bytes) : decodeVec s (e ++ rest) = .item v rest := by
  obtain ⟨idx, hd, hv⟩ := decodeIndexed_complete h hn rest
  unfold decodeVec
  rw [hd]; simp only [hv]

/-- `decodeVec` = `decodeIndexed` + a slicing that always succeeds -/
theorem decodeVec_eq (s : Bool) (b : Bytes) :
    (∀ p rest, decodeIndexed s b = .item p rest →
      ∃ v, toRespVec p.data p.resp = some v ∧ decodeVec s b = .item v rest) ∧
    (decodeIndexed s b = .none → decodeVec s b = .none) ∧
    (decodeIndexed s b = .invalid → decodeVec s b = .invalid) ∧
    (decodeIndexed s b = .panic → decodeVec s b = .panic) := by
  refine ⟨?_, ?_, ?_, ?_⟩
  · intro p rest h
    obtain ⟨_, v, hv, _, _⟩ := decodeIndexed_sound h
    exact ⟨v, hv, by unfold decodeVec; rw [h]; simp only [hv]⟩
  all_goals (intro h; unfold decodeVec; rw [h])

end Um.Resp
