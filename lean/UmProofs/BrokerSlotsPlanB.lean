import UmProofs.BrokerSlotsPlanA
/-!
# C01, planning layer — `addCluster`, `autoAddNodes`, `autoScaleUpNodes`

`create_slots` hands master `k` the interval `[startOf k, startOf (k+1) - 1]` with
`startOf k = average·k + min remainder k`; over `2·len` masters these are consecutive and end at
`SLOT_NUM`. Needs `average ≥ 1`, i.e. at most `SLOT_NUM` masters (kept as a visible hypothesis
`chunks.length * 2 ≤ SLOT_NUM`): with more masters `create_slots` produces reversed ranges.
-/
namespace Um.Broker.Plan
open Um Um.Slots Um.Broker

/-- first slot of master `k` -/
def startOf (avg rem k : Nat) : Nat := avg * k + min rem k

theorem startOf_succ (avg rem k : Nat) :
    startOf avg rem (k + 1) = startOf avg rem k + avg + (if k < rem then 1 else 0) := by
  unfold startOf
  rw [Nat.mul_succ]
  split <;> omega

theorem createSlots_eq (avg rem k : Nat) (h : 1 ≤ avg) :
    createSlots avg rem k (startOf avg rem k) =
      R.ok ([(startOf avg rem k, startOf avg rem (k + 1) - 1)], startOf avg rem (k + 1)) := by
  have hs := startOf_succ avg rem k
  have hlt : startOf avg rem k < startOf avg rem (k + 1) := by rw [hs]; omega
  unfold createSlots
  simp only [← hs]
  have hne : (startOf avg rem (k + 1) == 0) = false := by simp; omega
  simp only [hne]
  have : normRange (startOf avg rem k, startOf avg rem (k + 1) - 1) =
      (startOf avg rem k, startOf avg rem (k + 1) - 1) := by
    unfold normRange; simp; omega
  simp [fromSingle, this]

theorem rangeSlots_start (avg rem k : Nat) (h : 1 ≤ avg) :
    rangeSlots (startOf avg rem k, startOf avg rem (k + 1) - 1) =
      List.range' (startOf avg rem k) (startOf avg rem (k + 1) - startOf avg rem k) := by
  have hs := startOf_succ avg rem k
  unfold rangeSlots
  congr 1
  simp only
  omega

theorem startOf_mono (avg rem : Nat) {a b : Nat} (h : a ≤ b) : startOf avg rem a ≤ startOf avg rem b := by
  induction b with
  | zero => have : a = 0 := by omega
            subst this; exact Nat.le_refl _
  | succ n ih =>
    by_cases hab : a = n + 1
    · subst hab; exact Nat.le_refl _
    · have := ih (by omega)
      rw [startOf_succ]; omega

/-- the chunks `toChunksWithSlots` builds: consecutive intervals, no pending entries -/
theorem toChunks_spec (avg rem : Nat) (h : 1 ≤ avg) : ∀ (arr : List (ProxyRes × ProxyRes)) (i : Nat),
    ∃ chunks, toChunksWithSlots avg rem arr i (startOf avg rem (2 * i)) = R.ok chunks ∧
      chunks.length = arr.length ∧ NoMig chunks ∧ StableNormal chunks ∧
      stableSlots chunks = List.range' (startOf avg rem (2 * i))
        (startOf avg rem (2 * (i + arr.length)) - startOf avg rem (2 * i)) := by
  intro arr
  induction arr with
  | nil => intro i; exact ⟨[], rfl, rfl, noMig_nil, stableNormal_nil, by simp [stableSlots]⟩
  | cons ab rest ih =>
    intro i
    obtain ⟨a, b⟩ := ab
    obtain ⟨tl, htl, hlen, hnm, hsn, hsl⟩ := ih (i + 1)
    have e0 := createSlots_eq avg rem (2 * i) h
    have e1 := createSlots_eq avg rem (2 * i + 1) h
    have h2 : 2 * i + 1 + 1 = 2 * (i + 1) := by omega
    rw [h2] at e1
    refine ⟨mkChunk a b (some [(startOf avg rem (2 * i), startOf avg rem (2 * i + 1) - 1)])
        (some [(startOf avg rem (2 * i + 1), startOf avg rem (2 * (i + 1)) - 1)]) :: tl, ?_, ?_, ?_, ?_, ?_⟩
    · simp only [toChunksWithSlots, e0, ok_bind, e1, htl, pure_eq_ok]
    · simp [hlen]
    · intro c hc
      rcases List.mem_cons.mp hc with hc | hc
      · subst hc; exact ⟨rfl, rfl⟩
      · exact hnm c hc
    · intro c hc
      rcases List.mem_cons.mp hc with hc | hc
      · subst hc
        intro rl hrl
        have l1 := startOf_succ avg rem (2 * i)
        have l2 := startOf_succ avg rem (2 * i + 1)
        rw [h2] at l2
        simp only [mkChunk, Chunk.stables, Option.toList, List.mem_append, List.mem_singleton] at hrl
        rcases hrl with hrl | hrl <;> subst hrl <;> simp only [NormalRanges] <;> omega
      · exact hsn c hc
    · rw [stableSlots_cons, hsl]
      have r0 := rangeSlots_start avg rem (2 * i) h
      have r1 := rangeSlots_start avg rem (2 * i + 1) h
      rw [h2] at r1
      simp only [mkChunk, Chunk.stables, Option.toList, List.flatMap_append, List.flatMap_cons,
        List.flatMap_nil, List.append_nil, slotsOf_single, r0, r1]
      have m1 := startOf_mono avg rem (show 2 * i ≤ 2 * i + 1 by omega)
      have m2 := startOf_mono avg rem (show 2 * i + 1 ≤ 2 * (i + 1) by omega)
      have m3 := startOf_mono avg rem (show 2 * (i + 1) ≤ 2 * (i + 1 + rest.length) by omega)
      have hl : 2 * (i + (rest.length + 1)) = 2 * (i + 1 + rest.length) := by omega
      simp only [List.length_cons, hl]
      rw [range'_glue m1 m2, range'_glue (Nat.le_trans m1 m2) m3]

/-- `average·M + remainder = SLOT_NUM` and `remainder < M` -/
theorem avg_rem (M : Nat) (hM : 0 < M) :
    startOf (SLOT_NUM / M) (SLOT_NUM - SLOT_NUM / M * M) M = SLOT_NUM := by
  unfold startOf
  have h1 : SLOT_NUM / M * M + SLOT_NUM % M = SLOT_NUM := Nat.div_add_mod' SLOT_NUM M
  have h2 : SLOT_NUM % M < M := Nat.mod_lt _ hM
  omega

theorem proxyResourceToChunkStore_true {arr : List (ProxyRes × ProxyRes)} {chunks : List Chunk}
    (hb : arr.length * 2 ≤ SLOT_NUM) (h : proxyResourceToChunkStore arr true = R.ok chunks) :
    chunks.length = arr.length ∧ NoMig chunks ∧ StableNormal chunks ∧
      stableSlots chunks = List.range SLOT_NUM := by
  unfold proxyResourceToChunkStore at h
  simp only [if_true] at h
  split at h
  · cases h
  · rename_i hne
    have hM : 0 < arr.length * 2 := by
      have : arr.length * 2 ≠ 0 := by simpa using hne
      omega
    have havg : 1 ≤ SLOT_NUM / (arr.length * 2) := (Nat.le_div_iff_mul_le hM).mpr (by omega)
    obtain ⟨cs, hcs, hlen, hnm, hsn, hsl⟩ :=
      toChunks_spec (SLOT_NUM / (arr.length * 2)) (SLOT_NUM - SLOT_NUM / (arr.length * 2) * (arr.length * 2))
        havg arr 0
    have h0 : startOf (SLOT_NUM / (arr.length * 2))
        (SLOT_NUM - SLOT_NUM / (arr.length * 2) * (arr.length * 2)) (2 * 0) = 0 := by simp [startOf]
    rw [h0] at hcs hsl
    rw [hcs] at h
    injection h with h; subst h
    refine ⟨hlen, hnm, hsn, ?_⟩
    have hfin := avg_rem (arr.length * 2) hM
    have : 2 * (0 + arr.length) = arr.length * 2 := by omega
    rw [this, hfin] at hsl
    rw [hsl, List.range_eq_range']
    rfl

theorem proxyResourceToChunkStore_false (arr : List (ProxyRes × ProxyRes)) :
    proxyResourceToChunkStore arr false = R.ok (arr.map fun (a, b) => mkChunk a b none none) := rfl

/-- a freshly created cluster satisfies the three invariants -/
theorem cinv_of_fresh {c : Cluster} (hnm : NoMig c.chunks) (hsn : StableNormal c.chunks)
    (hs : stableSlots c.chunks = List.range SLOT_NUM) : CInv c :=
  ⟨posInv_of_noMig hnm, twinInv_of_noMig hnm, slotInv_of_noMig hnm hsn (hs ▸ List.Perm.refl _)⟩

/-- **`add_cluster`**: every cluster of the resulting store is an old cluster or the new one,
which satisfies the invariants provided it has at most `SLOT_NUM` masters -/
theorem addCluster_clusters (s : Store) (name : String) (nodeNum : Nat) (cfg : Config)
    (choice : List (String × String)) :
    ∀ c ∈ (addCluster s name nodeNum cfg choice).1.clusters,
      c ∈ s.clusters ∨ (c.chunks.length * 2 ≤ SLOT_NUM → CInv c) := by
  intro c hc
  unfold addCluster at hc
  split at hc
  · exact Or.inl hc
  split at hc
  · exact Or.inl hc
  split at hc
  · exact Or.inl hc
  split at hc
  · exact Or.inl hc
  dsimp only at hc
  split at hc
  · exact Or.inl hc
  split at hc
  · rename_i s' heq
    obtain ⟨arr, _, heq⟩ := bind_ok heq
    obtain ⟨chunks, hchunks, heq⟩ := bind_ok heq
    obtain ⟨s2, htag, heq⟩ := bind_ok heq
    have := pure_ok heq
    subst this
    have hcl := tagProxies_clusters _ _ _ _ htag
    simp only [hcl, bump_clusters, List.mem_append, List.mem_singleton] at hc
    rcases hc with hc | hc
    · exact Or.inl hc
    · right
      intro hb
      subst hc
      by_cases hlen : arr.length * 2 ≤ SLOT_NUM
      · obtain ⟨_, hnm, hsn, hsl⟩ := proxyResourceToChunkStore_true hlen hchunks
        exact cinv_of_fresh hnm hsn hsl
      · -- more than `SLOT_NUM` masters: excluded by `hb` once the lengths are related
        exfalso
        simp only at hb
        -- `chunks.length = arr.length` holds on every `.ok` result of `toChunksWithSlots`
        have : ∀ (l : List (ProxyRes × ProxyRes)) (a r i cur : Nat) (cs : List Chunk),
            toChunksWithSlots a r l i cur = R.ok cs → cs.length = l.length := by
          intro l
          induction l with
          | nil => intro a r i cur cs h; simp only [toChunksWithSlots] at h; have := pure_ok h; subst this; rfl
          | cons ab rest ih =>
            intro a r i cur cs h
            obtain ⟨x, y⟩ := ab
            simp only [toChunksWithSlots] at h
            obtain ⟨p0, _, h⟩ := bind_ok h
            obtain ⟨p1, _, h⟩ := bind_ok h
            obtain ⟨tl, htl, h⟩ := bind_ok h
            rw [← pure_ok h]
            simp [ih _ _ _ _ _ htl]
        unfold proxyResourceToChunkStore at hchunks
        simp only [if_true] at hchunks
        split at hchunks
        · cases hchunks
        · have := this _ _ _ _ _ _ hchunks
          omega
  · exact Or.inl hc
  · exact Or.inl hc
  · exact Or.inl hc

/-! ## scale-out: appending empty chunks -/

/-- chunks without slots and without pending entries -/
def EmptyChunks (l : List Chunk) : Prop :=
  ∀ ch ∈ l, ch.stable0 = none ∧ ch.stable1 = none ∧ ch.mig0 = [] ∧ ch.mig1 = []

theorem emptyChunks_map (arr : List (ProxyRes × ProxyRes)) :
    EmptyChunks (arr.map fun (a, b) => mkChunk a b none none) := by
  intro ch hch
  obtain ⟨⟨a, b⟩, _, rfl⟩ := List.mem_map.mp hch
  exact ⟨rfl, rfl, rfl, rfl⟩

theorem ownedSlots_append_empty (c : Cluster) (new : List Chunk) (e : Nat) (hn : EmptyChunks new) :
    ({ c with chunks := c.chunks ++ new, epoch := e } : Cluster).ownedSlots = c.ownedSlots := by
  unfold Cluster.ownedSlots
  simp only [List.flatMap_append]
  have : (new.flatMap fun ch => (ch.stables.flatMap slotsOf) ++
      ((ch.migs.filter (·.isMigrating)).flatMap fun m => slotsOf m.ranges)) = [] := by
    apply List.flatMap_eq_nil_iff.mpr
    intro ch hch
    obtain ⟨h0, h1, h2, h3⟩ := hn ch hch
    simp [Chunk.stables, Chunk.migs, h0, h1, h2, h3]
  rw [this, List.append_nil]

theorem migs_append_empty (c : Cluster) (new : List Chunk) (e : Nat) (hn : EmptyChunks new) :
    ({ c with chunks := c.chunks ++ new, epoch := e } : Cluster).migs = c.migs := by
  unfold Cluster.migs
  simp only [List.flatMap_append]
  have : new.flatMap Chunk.migs = [] := by
    apply List.flatMap_eq_nil_iff.mpr
    intro ch hch
    obtain ⟨_, _, h2, h3⟩ := hn ch hch
    simp [Chunk.migs, h2, h3]
  rw [this, List.append_nil]

/-- appending empty chunks keeps the invariants -/
theorem cinv_append_empty {c : Cluster} (new : List Chunk) (e : Nat) (hn : EmptyChunks new) (h : CInv c) :
    CInv { c with chunks := c.chunks ++ new, epoch := e } := by
  obtain ⟨hp, ht, hs⟩ := h
  refine ⟨?_, ?_, ?_⟩
  · intro i ch hi
    simp only at hi
    by_cases hlt : i < c.chunks.length
    · rw [List.getElem?_append_left hlt] at hi
      obtain ⟨p0, p1, p2⟩ := hp i ch hi
      refine ⟨p0, p1, fun m hm => ?_⟩
      have := p2 m hm
      simp only [List.length_append]
      omega
    · have hmem : ch ∈ new := by
        rw [List.getElem?_append_right (by omega)] at hi
        exact List.mem_of_getElem? hi
      obtain ⟨_, _, h2, h3⟩ := hn ch hmem
      refine ⟨?_, ?_, ?_⟩
      · intro m hm; rw [h2] at hm; cases hm
      · intro m hm; rw [h3] at hm; cases hm
      · intro m hm; simp [Chunk.migs, h2, h3] at hm
  · unfold TwinInv
    rw [migs_append_empty c new e hn]
    exact ht
  · refine ⟨?_, ?_⟩
    · intro ch hch
      simp only [List.mem_append] at hch
      rcases hch with hch | hch
      · exact hs.1 ch hch
      · obtain ⟨h0, h1, h2, h3⟩ := hn ch hch
        simp [Chunk.stables, Chunk.migs, h0, h1, h2, h3]
    · rw [ownedSlots_append_empty c new e hn]
      exact hs.2

/-- **`auto_add_nodes`** keeps the invariants of every cluster -/
theorem autoAddNodes_inv (s : Store) (name : String) (num : Nat) (choice : List (String × String))
    (h : ∀ c ∈ s.clusters, CInv c) : ∀ c ∈ (autoAddNodes s name num choice).1.clusters, CInv c := by
  intro c hc
  unfold autoAddNodes at hc
  split at hc
  · exact h c hc
  split at hc
  · exact h c hc
  rename_i cl hfind
  split at hc
  · exact h c hc
  split at hc
  · exact h c hc
  dsimp only at hc
  split at hc
  · exact h c hc
  split at hc
  · rename_i s' heq
    obtain ⟨arr, _, heq⟩ := bind_ok heq
    obtain ⟨chunks, hchunks, heq⟩ := bind_ok heq
    rw [proxyResourceToChunkStore_false] at hchunks
    injection hchunks with hchunks
    have hcl := tagProxies_clusters _ _ _ _ heq
    rw [hcl] at hc
    rcases mem_setCluster hc with hc | hc
    · subst hc
      rw [← hchunks]
      exact cinv_append_empty _ _ (emptyChunks_map arr) (h cl (findCluster_mem hfind))
    · exact h c hc
  · exact h c hc
  · exact h c hc
  · exact h c hc

/-- **`auto_scale_up_nodes`** keeps the invariants of every cluster -/
theorem autoScaleUpNodes_inv (s : Store) (name : String) (expected : Nat) (choice : List (String × String))
    (h : ∀ c ∈ s.clusters, CInv c) : ∀ c ∈ (autoScaleUpNodes s name expected choice).1.clusters, CInv c := by
  unfold autoScaleUpNodes
  split
  · exact h
  split
  · exact h
  dsimp only
  split
  · exact h
  · exact autoAddNodes_inv s name _ choice h

end Um.Broker.Plan
