import UmProofs.BrokerFailoverReplace
/-!
# C06 — nodes by proxy address (needs unique proxy addresses), consequences of `ResInv`,
and decidable checkers for `PosInv`/`TwinInv` used by the non-vacuity examples
-/
namespace Um.Broker.C06
open Um Um.Slots Um.Gen.Chunk

theorem flatten_two {α} (L : List (List α)) (hL : ∀ l ∈ L, l.length = 2) (i j : Nat) (hj : j < 2) :
    L.flatten[2 * i + j]? = (L[i]?).bind (·[j]?) := by
  induction L generalizing i with
  | nil => simp
  | cons l L ih =>
    have hl : l.length = 2 := hL l (by simp)
    cases i with
    | zero =>
      simp only [List.flatten_cons, Nat.mul_zero, Nat.zero_add, List.getElem?_cons_zero, Option.bind_some]
      rw [List.getElem?_append_left (by omega)]
    | succ i =>
      simp only [List.flatten_cons, List.getElem?_cons_succ]
      rw [List.getElem?_append_right (by omega)]
      have : 2 * (i + 1) + j - l.length = 2 * i + j := by omega
      rw [this]
      exact ih (fun l hl => hL l (by simp [hl])) i

theorem proxyAddrs_get (cl : Cluster) (i t : Nat) (ht : t < 2) :
    cl.proxyAddrs[2 * i + t]? = (cl.chunks[i]?).map fun x => proxyAtD x t := by
  unfold Cluster.proxyAddrs
  rw [List.flatMap_def, flatten_two _ _ i t ht]
  · simp only [List.getElem?_map]
    cases cl.chunks[i]? with
    | none => rfl
    | some x =>
      have ht' : t = 0 ∨ t = 1 := by omega
      rcases ht' with rfl | rfl <;> rfl
  · intro l hl
    simp only [List.mem_map] at hl
    obtain ⟨c, -, rfl⟩ := hl
    rfl

/-- with pairwise distinct proxy addresses a proxy address determines the chunk and the half -/
theorem proxy_pos_unique {cl : Cluster} (hnd : cl.proxyAddrs.Nodup) {i k t h : Nat} {x c : Chunk}
    (hx : cl.chunks[i]? = some x) (hk : cl.chunks[k]? = some c) (ht : t < 2) (hh : h < 2)
    (he : proxyAtD x t = proxyAtD c h) : i = k ∧ t = h := by
  have h1 := proxyAddrs_get cl i t ht
  have h2 := proxyAddrs_get cl k h hh
  rw [hx] at h1; rw [hk] at h2
  simp only [Option.map_some] at h1 h2
  have hlt : 2 * i + t < cl.proxyAddrs.length := by
    apply Classical.byContradiction; intro hn
    rw [List.getElem?_eq_none (by omega)] at h1; cases h1
  have := (List.getElem?_inj hlt hnd (j := 2 * k + h)).1 (by rw [h1, h2, he])
  omega

/-- every node of a view is node `j < 4` of some chunk `i` -/
theorem mem_specView_nodes {cl : Cluster} {n : VNode} (hn : n ∈ (specView cl).nodes) :
    ∃ (i j : Nat) (x : Chunk), j < 4 ∧ cl.chunks[i]? = some x ∧ vnode (specView cl) i j = some n ∧
      n = specNode x cl.chunks j := by
  obtain ⟨idx, hidx⟩ := List.mem_iff_getElem?.1 hn
  have hsplit : idx = 4 * (idx / 4) + idx % 4 := by omega
  have hj : idx % 4 < 4 := by omega
  have hv : vnode (specView cl) (idx / 4) (idx % 4) = some n := by
    unfold vnode; rw [← hsplit]; exact hidx
  have hv' := hv
  rw [specView_node cl _ _ hj] at hv'
  cases hx : cl.chunks[idx / 4]? with
  | none => rw [hx] at hv'; cases hv'
  | some x =>
    rw [hx] at hv'
    simp only [Option.map_some, Option.some.injEq] at hv'
    exact ⟨idx / 4, idx % 4, x, hj, hx, hv, hv'.symm⟩

/-- **(b), general form**: in the view of a cluster whose chunk `k` carries `p` on half `h` and is in
role position `newRole h`, a node served by `p` is a replica without slots -/
theorem no_master_on {cl : Cluster} (hnd : cl.proxyAddrs.Nodup) {p : String} {k h : Nat} {c : Chunk}
    (hf : failedAt p cl.chunks = some (k, h)) (hk : cl.chunks[k]? = some c) (hr : c.role = newRole h) :
    ∀ n ∈ (specView cl).nodes, n.proxy = p → n.replica = true ∧ n.slots = [] := by
  intro n hn hp
  obtain ⟨i, j, x, hj, hx, hv, rfl⟩ := mem_specView_nodes hn
  obtain ⟨c', hk', hh, hpa, -, -⟩ := failedAt_some hf
  rw [hk] at hk'; cases hk'
  have hpc : proxyAtD c h = p := by simp [proxyAtD, hpa]
  have hpx : proxyAtD x (j / 2) = proxyAtD c h := by rw [hpc]; exact hp
  obtain ⟨rfl, hjh⟩ := proxy_pos_unique hnd hx hk (by omega) hh hpx
  rw [hk] at hx; cases hx
  obtain ⟨n', np, hv', -, -, -, -, -, -, -, hrep, -, hsl⟩ := view_peers cl i j hj hk
  rw [hv] at hv'; cases hv'
  have : (specNode c cl.chunks j).replica = true := by
    rw [hrep, hr, isReplica_newRole h j hh hj]; simpa using hjh
  exact ⟨this, hsl this⟩

theorem proxyAddrs_tk {cl : Cluster} {k h e : Nat} {c : Chunk} (hk : cl.chunks[k]? = some c) :
    (afterTakeover cl k h e c).proxyAddrs = cl.proxyAddrs := by
  unfold afterTakeover
  split
  · rfl
  · unfold Cluster.proxyAddrs
    have := tkChunks_pp (h := h) (e := e) hk
    have e1 : ∀ l : List Chunk, (l.flatMap fun ch => [ch.proxy0, ch.proxy1]) =
        (l.map fun c => (c.proxy0, c.proxy1)).flatMap fun x => [x.1, x.2] := by
      intro l; rw [List.flatMap_map]
    simp only
    rw [e1, e1, this]

theorem afterTakeover_chunk {cl : Cluster} {k h e : Nat} {c : Chunk} {p : String}
    (hf : failedAt p cl.chunks = some (k, h)) (hk : cl.chunks[k]? = some c) :
    ∃ c1, (afterTakeover cl k h e c).chunks[k]? = some c1 ∧ c1.role = newRole h ∧
      failedAt p (afterTakeover cl k h e c).chunks = some (k, h) ∧
      (afterTakeover cl k h e c).chunks.length = cl.chunks.length := by
  unfold afterTakeover
  by_cases hr : c.role = newRole h
  · rw [if_pos hr]; exact ⟨c, hk, hr, hf, rfl⟩
  · rw [if_neg hr]
    refine ⟨_, tkChunks_get hk hk, ?_, by rw [failedAt_tkChunks hk]; exact hf, tkChunks_length _ _ _ _ _⟩
    rw [tkChunk_role]; simp

/-- **(a)+(b) for the cluster served after `takeover_master`** (repeat call or not): `n` = node `j` of
chunk `i` before, `np` = its peer before, `n'` = node `j` of chunk `i` after -/
theorem afterTakeover_owner {cl : Cluster} {k h : Nat} (e : Nat) {c : Chunk} (hk : cl.chunks[k]? = some c) (hh : h < 2)
    (i j : Nat) (hj : j < 4) {x : Chunk} (hx : cl.chunks[i]? = some x) :
    ∃ n np n', vnode (specView cl) i j = some n ∧ vnode (specView cl) i (peerIdx j) = some np ∧
      vnode (specView (afterTakeover cl k h e c)) i j = some n' ∧
      n'.address = n.address ∧ n'.proxy = n.proxy ∧ n'.peers = n.peers ∧
      n'.replica = (if i = k then decide (j / 2 = h) else n.replica) ∧
      n'.slots.map srKey =
        if i = k then (if j / 2 = h then [] else n.slots.map srKey ++ np.slots.map srKey)
        else n.slots.map srKey := by
  unfold afterTakeover
  by_cases hr : c.role = newRole h
  · rw [if_pos hr]
    obtain ⟨hp4, -⟩ := peerIdx_facts j hj
    refine ⟨specNode x cl.chunks j, specNode x cl.chunks (peerIdx j), specNode x cl.chunks j, ?_, ?_, ?_,
      rfl, rfl, rfl, ?_, ?_⟩
    · rw [specView_node cl i j hj, hx]; rfl
    · rw [specView_node cl i _ hp4, hx]; rfl
    · rw [specView_node cl i j hj, hx]; rfl
    · by_cases hik : i = k
      · subst hik; rw [hk] at hx; cases hx
        simp only [if_true, specNode, hr]; exact isReplica_newRole h j hh hj
      · simp only [hik, if_false]
    · by_cases hik : i = k
      · subst hik; rw [hk] at hx; cases hx
        simp only [if_true, specNode_keys]
        unfold nodeKeys
        have := nk_newRole c.role h j hh hj (partKeys c.stable0 c.mig0) (partKeys c.stable1 c.mig1)
        rw [← this, hr]
      · simp only [hik, if_false]
  · rw [if_neg hr]
    exact takeover_owner hk hh i j hj hx

/-- keys of the slot ranges held by node `j` of chunk `i` in a view -/
def keysAt (v : VCluster) (i j : Nat) : List Key := ((vnode v i j).map fun n => n.slots.map srKey).getD []

/-- where the ranges of node `j` of chunk `i` go when half `h` of chunk `k` fails -/
def dest (k h i j : Nat) : Nat := if i = k ∧ j / 2 = h then peerIdx j else j

/-- the equational form of (a) read range by range -/
theorem per_range {k h i : Nat} (hh : h < 2) (K K' : Nat → List Key)
    (heq : ∀ j, j < 4 → K' j = if i = k then (if j / 2 = h then [] else K j ++ K (peerIdx j)) else K j)
    (j : Nat) (hj : j < 4) (key : Key) :
    (key ∈ K j → dest k h i j < 4 ∧ key ∈ K' (dest k h i j)) ∧
    (key ∈ K' j → ∃ j0, j0 < 4 ∧ dest k h i j0 = j ∧ key ∈ K j0) := by
  obtain ⟨hp4, hinv, hhalf, -⟩ := peerIdx_facts j hj
  have hj2 : j / 2 < 2 := by omega
  constructor
  · intro hkey
    unfold dest
    by_cases hik : i = k
    · by_cases hjh : j / 2 = h
      · rw [if_pos ⟨hik, hjh⟩]
        refine ⟨hp4, ?_⟩
        rw [heq _ hp4, if_pos hik, if_neg (by omega), hinv]
        exact List.mem_append_right _ hkey
      · rw [if_neg (fun hc => hjh hc.2)]
        refine ⟨hj, ?_⟩
        rw [heq _ hj, if_pos hik, if_neg hjh]
        exact List.mem_append_left _ hkey
    · rw [if_neg (fun hc => hik hc.1)]
      refine ⟨hj, ?_⟩
      rw [heq _ hj, if_neg hik]; exact hkey
  · intro hkey
    rw [heq _ hj] at hkey
    by_cases hik : i = k
    · rw [if_pos hik] at hkey
      by_cases hjh : j / 2 = h
      · rw [if_pos hjh] at hkey; cases hkey
      · rw [if_neg hjh] at hkey
        rcases List.mem_append.1 hkey with hkey | hkey
        · exact ⟨j, hj, by unfold dest; rw [if_neg (fun hc => hjh hc.2)], hkey⟩
        · refine ⟨peerIdx j, hp4, ?_, hkey⟩
          unfold dest
          rw [if_pos ⟨hik, by omega⟩, hinv]
    · rw [if_neg hik] at hkey
      exact ⟨j, hj, by unfold dest; rw [if_neg (fun hc => hik hc.1)], hkey⟩

/-- `clusterOk` only looks at the migration entries and the number of chunks -/
theorem clusterOk_congr {cl cl' : Cluster} (hlen : cl'.chunks.length = cl.chunks.length)
    (h : ∀ (i : Nat) (x' : Chunk), cl'.chunks[i]? = some x' →
      ∃ x : Chunk, cl.chunks[i]? = some x ∧ x'.mig0 = x.mig0 ∧ x'.mig1 = x.mig1)
    (hok : clusterOk cl = true) : clusterOk cl' = true := by
  unfold clusterOk at *
  rw [List.all_eq_true] at *
  intro y hy
  obtain ⟨i, hi⟩ := List.mem_iff_getElem?.1 hy
  obtain ⟨x, hx, e0, e1⟩ := h i y hi
  have := hok x (List.mem_of_getElem? hx)
  simp only [chunkOk, hlen, e0, e1] at this ⊢
  exact this

theorem clusterOk_bm (s : Store) {cl : Cluster} (e : Nat) (hok : clusterOk cl = true) :
    clusterOk { cl with chunks := cl.chunks.map (bmChunk s), epoch := e } = true := by
  apply clusterOk_congr (cl := cl) (by simp) _ hok
  intro i x' hx'
  simp only [List.getElem?_map] at hx'
  cases hx : cl.chunks[i]? with
  | none => rw [hx] at hx'; cases hx'
  | some x =>
    rw [hx] at hx'; cases hx'
    exact ⟨x, rfl, (bmChunk_migs s x).1, (bmChunk_migs s x).2.1⟩

theorem clusterOk_repl {cl1 : Cluster} {k h : Nat} {np : ProxyRes} {c1 : Chunk} (e : Nat)
    (hk : cl1.chunks[k]? = some c1) (hok : clusterOk cl1 = true) :
    clusterOk (replCluster cl1 k h np c1 e) = true := by
  apply clusterOk_congr (cl := cl1) (by simp [replCluster]) _ hok
  intro i x' hx'
  simp only [replCluster, List.getElem?_set] at hx'
  by_cases hik : k = i
  · subst hik
    have hlt : k < cl1.chunks.length := by
      apply Classical.byContradiction; intro hn
      rw [List.getElem?_eq_none (by omega)] at hk; cases hk
    simp only [if_true, hlt] at hx'
    cases hx'
    refine ⟨c1, hk, ?_, ?_⟩ <;> (unfold replHalf; split <;> rfl)
  · simp only [hik, if_false] at hx'
    exact ⟨x', hx', rfl, rfl⟩

/-! ## consequences of `ResInv` -/

theorem find?_of_nodup_names (l : List Cluster) (hnd : (l.map (·.name)).Nodup) {c : Cluster} (hc : c ∈ l) :
    l.find? (·.name == c.name) = some c := by
  induction l with
  | nil => cases hc
  | cons x rest ih =>
    simp only [List.map_cons, List.nodup_cons] at hnd
    simp only [List.find?_cons]
    rcases List.mem_cons.1 hc with rfl | hc'
    · simp
    · have : x.name ≠ c.name := by
        intro e; exact hnd.1 (by rw [e]; exact List.mem_map.2 ⟨c, hc', rfl⟩)
      have : (x.name == c.name) = false := by simpa using this
      rw [this]; exact ih hnd.2 hc'

theorem sublist_flatMap_of_mem {α β} (f : α → List β) (l : List α) {a : α} (ha : a ∈ l) :
    (f a).Sublist (l.flatMap f) := by
  induction l with
  | nil => cases ha
  | cons x rest ih =>
    simp only [List.flatMap_cons]
    rcases List.mem_cons.1 ha with rfl | ha'
    · exact List.sublist_append_left _ _
    · exact (ih ha').trans (List.sublist_append_right _ _)

/-- `ResInv`: a registered proxy tagged with a cluster name sits in exactly one chunk half of the
cluster found under that name, and that cluster's proxy addresses are pairwise distinct -/
theorem resInv_failedAt {s : Store} (hres : ResInv s) {p name : String} {pr : ProxyRes}
    (hp : s.findProxy p = some pr) (hc : pr.cluster = some name) :
    ∃ cl k h, s.findCluster name = some cl ∧ cl.proxyAddrs.Nodup ∧ failedAt p cl.chunks = some (k, h) := by
  obtain ⟨-, hnames, haddrs, -, hback⟩ := hres
  have hpr : pr ∈ s.proxies ∧ pr.addr = p := by
    unfold Store.findProxy at hp
    exact ⟨List.mem_of_find?_eq_some hp, by simpa using List.find?_some hp⟩
  obtain ⟨cl, hcl, hn, hmem⟩ := hback pr hpr.1 name hc
  have hfind : s.findCluster name = some cl := by
    unfold Store.findCluster; rw [← hn]; exact find?_of_nodup_names _ hnames hcl
  rw [hpr.2] at hmem
  obtain ⟨k, h, hf⟩ := failedAt_isSome_of_mem (chunks := cl.chunks) hmem
  exact ⟨cl, k, h, hfind, (sublist_flatMap_of_mem _ _ hcl).nodup haddrs, hf⟩

/-! ## decidable checkers -/

/-- Boolean version of `PosInv` -/
def posInvB (cl : Cluster) : Bool :=
  (List.range cl.chunks.length).all fun i =>
    match cl.chunks[i]? with
    | none => true
    | some ch =>
      ch.mig0.all (fun m => ownPos m == (i, 0)) && ch.mig1.all (fun m => ownPos m == (i, 1)) &&
      ch.migs.all (fun m => decide (m.mm.srcChunk < cl.chunks.length) && decide (m.mm.dstChunk < cl.chunks.length) &&
        decide (m.mm.srcPart < 2) && decide (m.mm.dstPart < 2))

theorem posInv_of_B {cl : Cluster} (h : posInvB cl = true) : PosInv cl := by
  intro i ch hch
  unfold posInvB at h
  rw [List.all_eq_true] at h
  have hlt : i < cl.chunks.length := by
    apply Classical.byContradiction; intro hn
    rw [List.getElem?_eq_none (by omega)] at hch; cases hch
  have hi := h i (List.mem_range.2 hlt)
  rw [hch] at hi
  simp only [Bool.and_eq_true, List.all_eq_true, beq_iff_eq, decide_eq_true_eq] at hi
  obtain ⟨⟨h0, h1⟩, h2⟩ := hi
  refine ⟨?_, ?_, ?_⟩
  · intro m hm; have := h0 m hm; unfold ownPos srcPos dstPos at this; exact this
  · intro m hm; have := h1 m hm; unfold ownPos srcPos dstPos at this; exact this
  · intro m hm
    obtain ⟨⟨⟨a, b⟩, c⟩, d⟩ := h2 m hm
    exact ⟨a, b, c, d⟩

/-- Boolean version of `TwinInv` -/
def twinInvB (cl : Cluster) : Bool :=
  ((cl.migs.filter (·.isMigrating)).map fun m => (m.ranges, m.mm)).isPerm
    ((cl.migs.filter (fun m => !m.isMigrating)).map fun m => (m.ranges, m.mm)) &&
  decide (((cl.migs.filter (·.isMigrating)).map fun m => (m.ranges, m.mm.epoch)).Nodup)

theorem twinInv_of_B {cl : Cluster} (h : twinInvB cl = true) : TwinInv cl := by
  unfold twinInvB at h
  simp only [Bool.and_eq_true, decide_eq_true_eq] at h
  exact ⟨List.isPerm_iff.1 h.1, h.2⟩

end Um.Broker.C06
