import UmProofs.BrokerFailoverAlloc3
/-!
# C06 (allocation part): relations between the cluster lists of two stores, simple mutators
-/
namespace Um.Broker.C06.Alloc
open Um Um.Slots

/-- no cluster of `s'` holds an address that a cluster of the same name did not hold in `s` -/
def Sub (s s' : Store) : Prop := ∀ c' ∈ s'.clusters, ∀ a ∈ c'.proxyAddrs, OldIn s c'.name a

/-- like `AllocOK`, but new (free) addresses only enter clusters named `n` -/
def AllocFor (n : String) (s s' : Store) : Prop :=
  ∀ c' ∈ s'.clusters, ∀ a ∈ c'.proxyAddrs, OldIn s c'.name a ∨ (c'.name = n ∧ FreeIn s a)

theorem sub_of_subset {s s' : Store} (h : ∀ c ∈ s'.clusters, c ∈ s.clusters) : Sub s s' :=
  fun c hc _ ha => ⟨c, h c hc, rfl, ha⟩

theorem Sub.refl (s : Store) : Sub s s := sub_of_subset fun _ h => h

theorem sub_of_clusters_eq {s s' : Store} (h : s'.clusters = s.clusters) : Sub s s' :=
  sub_of_subset fun _ hc => h ▸ hc

theorem Sub.trans {s s1 s2 : Store} (h1 : Sub s s1) (h2 : Sub s1 s2) : Sub s s2 := by
  intro c2 hc2 a ha
  obtain ⟨c1, hc1, hn, ha1⟩ := h2 c2 hc2 a ha
  have := h1 c1 hc1 a ha1
  rwa [hn] at this

theorem Sub.allocFor {s s' : Store} (n : String) (h : Sub s s') : AllocFor n s s' :=
  fun c hc a ha => Or.inl (h c hc a ha)

theorem AllocFor.allocOK {n : String} {s s' : Store} (h : AllocFor n s s') : AllocOK s s' :=
  fun c hc a ha => (h c hc a ha).imp id And.right

theorem Sub.allocOK {s s' : Store} (h : Sub s s') : AllocOK s s' := (h.allocFor "").allocOK

theorem sub_setCluster {s0 s1 : Store} {cl cl' : Cluster} (hs : Sub s0 s1) (hcl : cl ∈ s1.clusters)
    (hn : cl'.name = cl.name) (h : ∀ a ∈ cl'.proxyAddrs, a ∈ cl.proxyAddrs) : Sub s0 (s1.setCluster cl') := by
  intro c' hc' a ha
  rcases mem_setCluster hc' with h1 | rfl
  · exact hs _ h1 _ ha
  · have := hs cl hcl a (h a ha)
    rwa [hn]

theorem sub_setCluster_pp {s : Store} {cl cl' : Cluster} (hcl : cl ∈ s.clusters)
    (hn : cl'.name = cl.name) (h : pp cl'.chunks = pp cl.chunks) : Sub s (s.setCluster cl') :=
  sub_setCluster (Sub.refl s) hcl hn (fun a ha => by rwa [proxyAddrs_eq, ← h, ← proxyAddrs_eq])

theorem allocFor_setCluster {s0 s1 : Store} {cl cl' : Cluster} {n : String} (hs : Sub s0 s1) (hcl : cl ∈ s1.clusters)
    (hn : cl'.name = cl.name)
    (h : ∀ a ∈ cl'.proxyAddrs, a ∈ cl.proxyAddrs ∨ (cl.name = n ∧ FreeIn s0 a)) :
    AllocFor n s0 (s1.setCluster cl') := by
  intro c' hc' a ha
  rcases mem_setCluster hc' with h1 | rfl
  · exact Or.inl (hs _ h1 _ ha)
  · rcases h a ha with h2 | h2
    · have := hs cl hcl a h2
      rw [hn]; exact Or.inl this
    · rw [hn]; exact Or.inr h2

/-! ## mutators that do not touch chunk addresses -/

theorem sub_addProxy (s : Store) (a n0 n1 : String) (h : Option String) (i : Option Nat) :
    Sub s (addProxy s a n0 n1 h i).1 := by
  unfold addProxy
  split
  · exact Sub.refl s
  · dsimp only
    split
    · exact Sub.refl s
    · split <;> exact sub_of_clusters_eq rfl

theorem sub_removeProxy (s : Store) (a : String) : Sub s (removeProxy s a).1 := by
  unfold removeProxy
  split
  · exact Sub.refl s
  · split
    · exact Sub.refl s
    · exact sub_of_clusters_eq rfl

theorem sub_removeCluster (s : Store) (n : String) : Sub s (removeCluster s n).1 := by
  unfold removeCluster
  split
  · exact Sub.refl s
  · split
    · exact Sub.refl s
    · apply sub_of_subset
      intro c hc
      simp only [bump_clusters, foldl_setProxyCluster_clusters] at hc
      exact (List.mem_filter.1 hc).1

theorem sub_addFailure (s : Store) (a r : String) (t : Int) : Sub s (addFailure s a r t).1 := by
  unfold addFailure
  split
  · split
    · exact Sub.refl s
    · exact sub_of_clusters_eq rfl
  · exact sub_of_clusters_eq rfl

theorem sub_map_epoch (s s' : Store) (e : Nat)
    (h : s'.clusters = s.clusters.map fun c => { c with epoch := e }) : Sub s s' := by
  intro c' hc' a ha
  rw [h, List.mem_map] at hc'
  obtain ⟨c, hc, rfl⟩ := hc'
  exact ⟨c, hc, rfl, ha⟩

theorem sub_forceBumpAllEpoch (s : Store) (e : Nat) : Sub s (forceBumpAllEpoch s e).1 := by
  unfold forceBumpAllEpoch
  split
  · exact Sub.refl s
  · exact sub_map_epoch _ _ e rfl

theorem sub_recoverEpoch (s : Store) (e : Nat) : Sub s (recoverEpoch s e) := by
  unfold recoverEpoch
  exact sub_map_epoch _ _ _ rfl

/-! ## mutators that rewrite one cluster, keeping its proxy pairs -/

theorem sub_migrateSlots (s : Store) (n : String) : Sub s (migrateSlots s n).1 := by
  unfold migrateSlots
  split
  · exact Sub.refl s
  · dsimp only
    split
    · exact sub_of_clusters_eq rfl
    · rename_i cl hcl
      obtain ⟨hmem, _⟩ := findCluster_some hcl
      split
      · exact sub_of_clusters_eq rfl
      · split
        · exact sub_of_clusters_eq rfl
        · split
          · rename_i chunks hch
            obtain ⟨⟨c1, ms⟩, h1, h2⟩ := bind_eq_ok hch
            have hpp : pp chunks = pp cl.chunks := by
              rw [assignDstSlots_pp h2, removeSlotsFromSrc_pp h1]
            exact sub_setCluster_pp (s := s.bump) hmem rfl hpp
          all_goals exact sub_of_clusters_eq rfl

theorem sub_migrateSlotsToScaleDown (s : Store) (n : String) (k : Nat) : Sub s (migrateSlotsToScaleDown s n k).1 := by
  unfold migrateSlotsToScaleDown
  split
  · exact Sub.refl s
  · dsimp only
    split
    · exact sub_of_clusters_eq rfl
    · rename_i cl hcl
      obtain ⟨hmem, _⟩ := findCluster_some hcl
      split
      · exact sub_of_clusters_eq rfl
      · split
        · exact sub_of_clusters_eq rfl
        · split
          · exact sub_of_clusters_eq rfl
          · split
            · rename_i chunks hch
              obtain ⟨⟨c1, ms⟩, h1, h2⟩ := bind_eq_ok hch
              have hpp : pp chunks = pp cl.chunks := by
                rw [assignDstSlots_pp h2, removeSlotsToScaleDown_pp h1]
              exact sub_setCluster_pp (s := s.bump) hmem rfl hpp
            all_goals exact sub_of_clusters_eq rfl

theorem sub_commitMigrationCore (s : Store) (n : String) (rl : RangeList) (e : Nat) (t : Bool) :
    Sub s (commitMigrationCore s n rl e t).1 := by
  unfold commitMigrationCore
  dsimp only
  split
  · exact Sub.refl s
  · rename_i cl hcl
    obtain ⟨hmem, _⟩ := findCluster_some hcl
    split
    · exact Sub.refl s
    · split
      · exact Sub.refl s
      · split
        · exact Sub.refl s
        · refine sub_setCluster_pp hmem rfl ?_
          dsimp only
          rw [compactSlots_pp, commitDst_pp]
          apply pp_map
          intro c
          exact ⟨rfl, rfl⟩

theorem sub_takeoverMaster (s : Store) (n f : String) : Sub s (takeoverMaster s n f).1 := by
  unfold takeoverMaster
  dsimp only
  split
  · exact sub_of_clusters_eq rfl
  · rename_i cl hcl
    obtain ⟨hmem, _⟩ := findCluster_some hcl
    split
    · exact sub_of_clusters_eq rfl
    · rename_i chunks pos hto
      refine sub_setCluster_pp (s := s.bump) hmem rfl ?_
      dsimp only
      rw [← takeoverFirst_pp _ _ _ _ _ hto]
      apply pp_map
      intro c
      exact ⟨rfl, rfl⟩

theorem takeoverMaster_frame (s : Store) (n f : String) :
    (takeoverMaster s n f).1.proxies = s.proxies ∧ (takeoverMaster s n f).1.failed = s.failed ∧
    (takeoverMaster s n f).1.failures = s.failures := by
  unfold takeoverMaster
  dsimp only
  split
  · exact ⟨rfl, rfl, rfl⟩
  · split <;> exact ⟨rfl, rfl, rfl⟩

theorem sub_balanceMasters (s : Store) (n : String) : Sub s (balanceMasters s n).1 := by
  unfold balanceMasters
  split
  · exact Sub.refl s
  · dsimp only
    split
    · exact Sub.refl s
    · rename_i cl hcl
      obtain ⟨hmem, _⟩ := findCluster_some hcl
      refine sub_setCluster_pp hmem rfl ?_
      dsimp only
      apply pp_map
      intro c
      split <;> exact ⟨rfl, rfl⟩

theorem sub_changeConfig (s : Store) (n : String) (kvs : List (String × String)) : Sub s (changeConfig s n kvs).1 := by
  unfold changeConfig
  split
  · exact Sub.refl s
  · dsimp only
    split
    · exact Sub.refl s
    · rename_i cl hcl
      obtain ⟨hmem, _⟩ := findCluster_some hcl
      split
      · exact Sub.refl s
      · split
        · exact Sub.refl s
        · exact sub_setCluster_pp hmem rfl rfl

theorem sub_autoScaleOutNodeNumber (s : Store) (n : String) (k : Nat) : Sub s (autoScaleOutNodeNumber s n k).1 := by
  unfold autoScaleOutNodeNumber
  split
  · exact Sub.refl s
  · split
    · exact Sub.refl s
    · split
      · exact sub_migrateSlots s n
      · exact Sub.refl s

end Um.Broker.C06.Alloc
