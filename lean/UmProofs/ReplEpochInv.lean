import UmProofs.ReplEpochBasic
/-!
`Um.ReplEpoch`: the invariant of a non-forced concurrent episode.

An *episode* starts in a state whose first `n0` callers have all returned (`old`) and in which
`updating_epoch ≤ installed epoch =: e0`; every caller entering later is non-forced (`NF`).
The numeric core is `Covered s n`: `n ≤ installed ∨ n ≤ epoch of a caller past its store step`.
`Covered s n` is stable under every step of a non-forced caller, `updating_epoch` is always covered,
and at quiescence nothing but the installed epoch can cover.
-/
namespace Um.ReplEpoch
open Um Um.ProxyMeta

/-- the caller has executed `updating_epoch.store(epoch)` and has not yet returned -/
abbrev pastStore (c : Caller) : Prop := c.pc = .readLock ∨ c.pc = .writeLock

abbrev Covered (s : Sys) (n : Nat) : Prop :=
  n ≤ s.instEpoch ∨ ∃ (j : Nat) (c : Caller), s.callers[j]? = some c ∧ pastStore c ∧ n ≤ c.msg.epoch

/-- every caller from index `n0` on is non-forced -/
abbrev NF (n0 : Nat) (s : Sys) : Prop :=
  ∀ (j : Nat) (c : Caller), s.callers[j]? = some c → n0 ≤ j → c.msg.force = false

/-- every caller has returned -/
abbrev Quiescent (s : Sys) : Prop := ∀ (j : Nat) (c : Caller), s.callers[j]? = some c → ∃ r, c.pc = .done r

structure EpInv (announce : Bytes) (n0 e0 : Nat) (s : Sys) : Prop where
  old : ∀ (j : Nat) (c : Caller), s.callers[j]? = some c → j < n0 → ∃ r, c.pc = .done r
  upd : Covered s s.updating
  okLe : ∀ (j : Nat) (c : Caller), s.callers[j]? = some c → n0 ≤ j → c.pc = .done .ok → c.msg.epoch ≤ s.instEpoch
  oldCov : ∀ (j : Nat) (c : Caller), s.callers[j]? = some c → n0 ≤ j → c.pc = .done .oldEpoch → Covered s c.msg.epoch
  src : s.instEpoch = e0 ∨
    ∃ (j : Nat) (c : Caller), s.callers[j]? = some c ∧ n0 ≤ j ∧ c.pc = .done .ok ∧ c.msg.epoch = s.instEpoch
  ge : e0 ≤ s.instEpoch
  nmm : ∀ (j : Nat) (c : Caller), s.callers[j]? = some c → n0 ≤ j →
    (c.pc = .done .notMyMeta ↔ hostsOk announce c.msg = false)

theorem getElem?_lt {l : List Caller} {j : Nat} {c : Caller} (h : l[j]? = some c) : j < l.length := by
  obtain ⟨h, _⟩ := List.getElem?_eq_some_iff.mp h; exact h

/-- messages never change and callers are only appended: non-forcedness goes backwards -/
theorem NF_back {announce : Bytes} {n0 : Nat} {s s' : Sys} {l : Label} (h : Step announce s l s')
    (hnf : NF n0 s') : NF n0 s := by
  intro j c hj hn
  rcases step_pool h with ⟨m, _, _, _, _, _, hp⟩ | ⟨i, ci, ci', u', ie', im', _, hci, _, _, _, ha, _, hp⟩
  · have hlt := getElem?_lt hj
    have : s'.callers[j]? = some c := by rw [hp j]; simp [Nat.ne_of_lt hlt, hj]
    exact hnf j c this hn
  · by_cases hji : j = i
    · subst hji
      have h1 : s'.callers[j]? = some ci' := by rw [hp j]; simp
      have h2 := hnf j ci' h1 hn
      rw [hci] at hj; cases hj
      rw [← ha.msg_eq]; exact h2
    · have : s'.callers[j]? = some c := by rw [hp j]; simp [hji, hj]
      exact hnf j c this hn

/-- the installed epoch changes only at an install action, and a non-forced install raises it -/
theorem act_inst {u ie : Nat} {im : RMap} {c : Caller} {u' ie' : Nat} {im' : RMap} {c' : Caller}
    (h : Act u ie im c u' ie' im' c') :
    (ie' = ie ∧ im' = im) ∨
    (c.pc = .writeLock ∧ c'.pc = .done .ok ∧ ie' = c.msg.epoch ∧ im' = buildMap c.reused c.msg ∧
      (c.msg.force = true ∨ ie < c.msg.epoch)) := by
  cases h with
  | install hpc h => right; exact ⟨hpc, rfl, rfl, rfl, h⟩
  | _ => left; exact ⟨rfl, rfl⟩

/-- **Covered is stable** under a step whose acting caller is non-forced -/
theorem covered_step {announce : Bytes} {n0 : Nat} {s s' : Sys} {l : Label} (h : Step announce s l s')
    (hnf : NF n0 s') (hold : ∀ (j : Nat) (c : Caller), s.callers[j]? = some c → j < n0 → ∃ r, c.pc = .done r)
    {n : Nat} (hc : Covered s n) : Covered s' n := by
  rcases step_pool h with ⟨m, _, _, hie, _, _, hp⟩ | ⟨i, ci, ci', u', ie', im', _, hci, hu', hie', him', ha, _, hp⟩
  · rcases hc with hc | ⟨j, c, hj, hps, hle⟩
    · left; omega
    · right
      have hlt := getElem?_lt hj
      exact ⟨j, c, by rw [hp j]; simp [Nat.ne_of_lt hlt, hj], hps, hle⟩
  · -- the acting caller is not an old one, hence non-forced
    have hin0 : n0 ≤ i := by
      rcases Nat.lt_or_ge i n0 with hlt | hge
      · obtain ⟨r, hr⟩ := hold i ci hci hlt
        exact absurd hr (ha.not_done r)
      · exact hge
    have self' : s'.callers[i]? = some ci' := by rw [hp i]; simp
    have hforce : ci.msg.force = false := by
      rw [← ha.msg_eq]; exact hnf i ci' self' hin0
    -- a witness other than the acting caller survives unchanged
    have keep : ∀ (j : Nat) (c : Caller), s.callers[j]? = some c → j ≠ i → s'.callers[j]? = some c := by
      intro j c hj hji; rw [hp j]; simp [hji, hj]
    rcases hc with hc | ⟨j, c, hj, hps, hle⟩
    · -- covered by the installed epoch: it does not decrease
      rcases act_inst ha with ⟨h1, _⟩ | ⟨_, _, h1, _, h2⟩
      · left; omega
      · left
        rcases h2 with h2 | h2
        · rw [hforce] at h2; cases h2
        · omega
    · by_cases hji : j = i
      · subst hji
        rw [hci] at hj; cases hj
        cases ha with
        | loadRej hpc _ _ => rcases hps with h | h <;> simp [hpc] at h
        | loadPass hpc _ => rcases hps with h | h <;> simp [hpc] at h
        | store hpc => rcases hps with h | h <;> simp [hpc] at h
        | read hpc => right; exact ⟨j, _, self', Or.inr rfl, hle⟩
        | lockRej hpc hf h => left; omega
        | install hpc h => left; omega
      · right; exact ⟨j, c, keep j c hj hji, hps, hle⟩

/-- the installed epoch does not decrease over a step of a non-forced caller -/
theorem inst_mono_step {announce : Bytes} {n0 : Nat} {s s' : Sys} {l : Label} (h : Step announce s l s')
    (hnf : NF n0 s') (hold : ∀ (j : Nat) (c : Caller), s.callers[j]? = some c → j < n0 → ∃ r, c.pc = .done r) :
    s.instEpoch ≤ s'.instEpoch := by
  rcases step_pool h with ⟨m, _, _, hie, _, _, hp⟩ | ⟨i, ci, ci', u', ie', im', _, hci, hu', hie', him', ha, _, hp⟩
  · omega
  · have hin0 : n0 ≤ i := by
      rcases Nat.lt_or_ge i n0 with hlt | hge
      · obtain ⟨r, hr⟩ := hold i ci hci hlt
        exact absurd hr (ha.not_done r)
      · exact hge
    have hforce : ci.msg.force = false := by
      have h1 : s'.callers[i]? = some ci' := by rw [hp i]; simp
      rw [← ha.msg_eq]; exact hnf i ci' h1 hin0
    rcases act_inst ha with ⟨h1, _⟩ | ⟨_, _, h1, _, h2⟩
    · omega
    · rcases h2 with h2 | h2
      · rw [hforce] at h2; cases h2
      · omega

theorem spawnCaller_pc (announce : Bytes) (m : RMsg) :
    ((spawnCaller announce m).pc = .load ∧ hostsOk announce m = true) ∨
    ((spawnCaller announce m).pc = .done .notMyMeta ∧ hostsOk announce m = false) := by
  unfold spawnCaller
  cases hostsOk announce m <;> simp

theorem spawnCaller_msg (announce : Bytes) (m : RMsg) : (spawnCaller announce m).msg = m := rfl

/-- the episode invariant is preserved by every step -/
theorem epInv_step {announce : Bytes} {n0 e0 : Nat} {s s' : Sys} {l : Label} (h : Step announce s l s')
    (hnf : NF n0 s') (hn0 : n0 ≤ s.callers.length) (inv : EpInv announce n0 e0 s) :
    EpInv announce n0 e0 s' := by
  have hcov : ∀ n, Covered s n → Covered s' n := fun n hc => covered_step h hnf inv.old hc
  have hmono := inst_mono_step h hnf inv.old
  rcases step_pool h with ⟨m, _, hu, hie, _, _, hp⟩ | ⟨i, ci, ci', u', ie', im', _, hci, hu', hie', him', ha, _, hp⟩
  · -- spawn: index `length` appears, everything else is unchanged
    have back : ∀ (j : Nat) (c : Caller), s'.callers[j]? = some c →
        (j = s.callers.length ∧ c = spawnCaller announce m) ∨ (j ≠ s.callers.length ∧ s.callers[j]? = some c) := by
      intro j c hj
      rw [hp j] at hj
      by_cases hjl : j = s.callers.length
      · left; simp [hjl] at hj; exact ⟨hjl, hj.symm⟩
      · right; simp [hjl] at hj; exact ⟨hjl, hj⟩
    have keep : ∀ (j : Nat) (c : Caller), s.callers[j]? = some c → s'.callers[j]? = some c := by
      intro j c hj
      have hlt := getElem?_lt hj
      rw [hp j]; simp [Nat.ne_of_lt hlt, hj]
    refine ⟨?_, ?_, ?_, ?_, ?_, ?_, ?_⟩
    · intro j c hj hlt
      rcases back j c hj with ⟨h1, _⟩ | ⟨_, h2⟩
      · omega
      · exact inv.old j c h2 hlt
    · rw [hu]; exact hcov _ inv.upd
    · intro j c hj hge hpc
      rcases back j c hj with ⟨_, h2⟩ | ⟨_, h2⟩
      · subst h2; rcases spawnCaller_pc announce m with ⟨h3, _⟩ | ⟨h3, _⟩ <;> simp [h3] at hpc
      · rw [hie]; exact inv.okLe j c h2 hge hpc
    · intro j c hj hge hpc
      rcases back j c hj with ⟨_, h2⟩ | ⟨_, h2⟩
      · subst h2; rcases spawnCaller_pc announce m with ⟨h3, _⟩ | ⟨h3, _⟩ <;> simp [h3] at hpc
      · exact hcov _ (inv.oldCov j c h2 hge hpc)
    · rcases inv.src with h1 | ⟨j, c, hj, hge, hpc, he⟩
      · left; omega
      · right; exact ⟨j, c, keep j c hj, hge, hpc, by omega⟩
    · have := inv.ge; omega
    · intro j c hj hge
      rcases back j c hj with ⟨_, h2⟩ | ⟨_, h2⟩
      · subst h2
        rcases spawnCaller_pc announce m with ⟨h3, h4⟩ | ⟨h3, h4⟩ <;> simp [h3, h4, spawnCaller_msg]
      · exact inv.nmm j c h2 hge
  · have hin0 : n0 ≤ i := by
      rcases Nat.lt_or_ge i n0 with hlt | hge
      · obtain ⟨r, hr⟩ := inv.old i ci hci hlt
        exact absurd hr (ha.not_done r)
      · exact hge
    have self' : s'.callers[i]? = some ci' := by rw [hp i]; simp
    have hforce : ci.msg.force = false := by
      rw [← ha.msg_eq]; exact hnf i ci' self' hin0
    have back : ∀ (j : Nat) (c : Caller), s'.callers[j]? = some c → (j = i ∧ c = ci') ∨ (j ≠ i ∧ s.callers[j]? = some c) := by
      intro j c hj
      rw [hp j] at hj
      by_cases hji : j = i
      · left; simp [hji] at hj; exact ⟨hji, hj.symm⟩
      · right; simp [hji] at hj; exact ⟨hji, hj⟩
    have keep : ∀ (j : Nat) (c : Caller), s.callers[j]? = some c → j ≠ i → s'.callers[j]? = some c := by
      intro j c hj hji; rw [hp j]; simp [hji, hj]
    have hmsg := ha.msg_eq
    refine ⟨?_, ?_, ?_, ?_, ?_, ?_, ?_⟩
    · intro j c hj hlt
      rcases back j c hj with ⟨h1, _⟩ | ⟨_, h2⟩
      · omega
      · exact inv.old j c h2 hlt
    · -- updating_epoch stays covered
      cases ha with
      | loadRej hpc hf hle => rw [hu']; exact hcov _ inv.upd
      | loadPass hpc hle => rw [hu']; exact hcov _ inv.upd
      | store hpc => right; exact ⟨i, _, self', Or.inl rfl, by rw [hu']; exact Nat.le_refl _⟩
      | read hpc => rw [hu']; exact hcov _ inv.upd
      | lockRej hpc hf hle => left; omega
      | install hpc hle => left; rw [hu', hie']; exact Nat.le_refl _
    · intro j c hj hge hpc
      rcases back j c hj with ⟨_, h2⟩ | ⟨_, h2⟩
      · subst h2
        cases ha with
        | loadRej hpc' hf hle => simp at hpc
        | loadPass hpc' hle => simp at hpc
        | store hpc' => simp at hpc
        | read hpc' => simp at hpc
        | lockRej hpc' hf hle => simp at hpc
        | install hpc' hle => rw [hie']; exact Nat.le_refl _
      · have := inv.okLe j c h2 hge hpc; omega
    · intro j c hj hge hpc
      rcases back j c hj with ⟨_, h2⟩ | ⟨_, h2⟩
      · subst h2
        cases ha with
        | loadRej hpc' hf hle => exact hcov _ (by
            rcases inv.upd with h3 | ⟨k, ck, hk, hps, hle2⟩
            · left; exact Nat.le_trans hle h3
            · right; exact ⟨k, ck, hk, hps, Nat.le_trans hle hle2⟩)
        | loadPass hpc' hle => simp at hpc
        | store hpc' => simp at hpc
        | read hpc' => simp at hpc
        | lockRej hpc' hf hle => left; show ci.msg.epoch ≤ _; omega
        | install hpc' hle => simp at hpc
      · exact hcov _ (inv.oldCov j c h2 hge hpc)
    · rcases act_inst ha with ⟨h1, _⟩ | ⟨_, h1, h2, _, _⟩
      · rcases inv.src with h3 | ⟨j, c, hj, hge, hpc, he⟩
        · left; omega
        · right
          by_cases hji : j = i
          · subst hji
            rw [hci] at hj; cases hj
            exact absurd hpc (ha.not_done _)
          · exact ⟨j, c, keep j c hj hji, hge, hpc, by omega⟩
      · right; exact ⟨i, ci', self', hin0, h1, by rw [hmsg]; omega⟩
    · have := inv.ge; omega
    · intro j c hj hge
      rcases back j c hj with ⟨_, h2⟩ | ⟨_, h2⟩
      · subst h2
        have h3 := inv.nmm i ci hci hin0
        have h4 : ci.pc ≠ .done .notMyMeta := ha.not_done _
        rw [hmsg]
        have h5 : ¬ hostsOk announce ci.msg = false := fun h => h4 (h3.mpr h)
        constructor
        · intro hpc
          cases ha <;> simp at hpc
        · intro h; exact absurd h h5
      · exact inv.nmm j c h2 hge

theorem run_length_le {announce : Bytes} {s s' : Sys} {ls : List Label} (h : Run announce s ls s') :
    s.callers.length ≤ s'.callers.length := by
  induction h with
  | nil => exact Nat.le_refl _
  | snoc _ hs ih =>
    rcases step_pool hs with ⟨_, _, _, _, _, hl, _⟩ | ⟨_, _, _, _, _, _, _, _, _, _, _, _, hl, _⟩ <;> omega

/-- the invariant holds at the start of an episode -/
theorem epInv_start (announce : Bytes) (s0 : Sys) (hq : Quiescent s0) (hu : s0.updating ≤ s0.instEpoch) :
    EpInv announce s0.callers.length s0.instEpoch s0 := by
  refine ⟨?_, Or.inl hu, ?_, ?_, Or.inl rfl, Nat.le_refl _, ?_⟩
  · intro j c hj _; exact hq j c hj
  · intro j c hj hge; have := getElem?_lt hj; omega
  · intro j c hj hge; have := getElem?_lt hj; omega
  · intro j c hj hge; have := getElem?_lt hj; omega

/-- … and throughout it -/
theorem epInv_run {announce : Bytes} {s0 s : Sys} {ls : List Label} (hq : Quiescent s0)
    (hu : s0.updating ≤ s0.instEpoch) (h : Run announce s0 ls s) (hnf : NF s0.callers.length s) :
    EpInv announce s0.callers.length s0.instEpoch s := by
  induction h with
  | nil => exact epInv_start announce s0 hq hu
  | snoc hr hs ih =>
    exact epInv_step hs hnf (run_length_le hr) (ih (NF_back hs hnf))

/-- at quiescence only the installed epoch covers -/
theorem covered_quiescent {s : Sys} (hq : Quiescent s) {n : Nat} (h : Covered s n) : n ≤ s.instEpoch := by
  rcases h with h | ⟨j, c, hj, hps, _⟩
  · exact h
  · obtain ⟨r, hr⟩ := hq j c hj
    rcases hps with h | h <;> simp [hr] at h

/-! ## all flags: `updating_epoch` is always covered

With the store that follows the install (same write-locked step), every step that lowers the installed
epoch or takes a caller out of the past-store set also writes `updating_epoch` — to the (new)
installed epoch.  So `Covered s s.updating` needs no assumption on the flags. -/

structure AllInv (announce : Bytes) (n0 : Nat) (s : Sys) : Prop where
  len : n0 ≤ s.callers.length
  old : ∀ (j : Nat) (c : Caller), s.callers[j]? = some c → j < n0 → ∃ r, c.pc = .done r
  upd : Covered s s.updating
  nmm : ∀ (j : Nat) (c : Caller), s.callers[j]? = some c → n0 ≤ j →
    (c.pc = .done .notMyMeta ↔ hostsOk announce c.msg = false)

theorem covered_le {s : Sys} {n m : Nat} (h : Covered s n) (hm : m ≤ n) : Covered s m := by
  rcases h with h | ⟨j, c, hj, hps, hle⟩
  · exact Or.inl (Nat.le_trans hm h)
  · exact Or.inr ⟨j, c, hj, hps, Nat.le_trans hm hle⟩

theorem allInv_step {announce : Bytes} {n0 : Nat} {s s' : Sys} {l : Label} (h : Step announce s l s')
    (inv : AllInv announce n0 s) : AllInv announce n0 s' := by
  rcases step_pool h with ⟨m, _, hu, hie, _, hlen, hp⟩ | ⟨i, ci, ci', u', ie', im', _, hci, hu', hie', him', ha, hlen, hp⟩
  · have back : ∀ (j : Nat) (c : Caller), s'.callers[j]? = some c →
        (j = s.callers.length ∧ c = spawnCaller announce m) ∨ (j ≠ s.callers.length ∧ s.callers[j]? = some c) := by
      intro j c hj
      rw [hp j] at hj
      by_cases hjl : j = s.callers.length
      · left; simp [hjl] at hj; exact ⟨hjl, hj.symm⟩
      · right; simp [hjl] at hj; exact ⟨hjl, hj⟩
    have keep : ∀ (j : Nat) (c : Caller), s.callers[j]? = some c → s'.callers[j]? = some c := by
      intro j c hj
      have hlt := getElem?_lt hj
      rw [hp j]; simp [Nat.ne_of_lt hlt, hj]
    have hl := inv.len
    refine ⟨by omega, ?_, ?_, ?_⟩
    · intro j c hj hlt
      rcases back j c hj with ⟨h1, _⟩ | ⟨_, h2⟩
      · omega
      · exact inv.old j c h2 hlt
    · rw [hu]
      rcases inv.upd with h1 | ⟨j, c, hj, hps, hle⟩
      · left; omega
      · right; exact ⟨j, c, keep j c hj, hps, hle⟩
    · intro j c hj hge
      rcases back j c hj with ⟨_, h2⟩ | ⟨_, h2⟩
      · subst h2
        rcases spawnCaller_pc announce m with ⟨h3, h4⟩ | ⟨h3, h4⟩ <;> simp [h3, h4, spawnCaller_msg]
      · exact inv.nmm j c h2 hge
  · have hin0 : n0 ≤ i := by
      rcases Nat.lt_or_ge i n0 with hlt | hge
      · obtain ⟨r, hr⟩ := inv.old i ci hci hlt
        exact absurd hr (ha.not_done r)
      · exact hge
    have self' : s'.callers[i]? = some ci' := by rw [hp i]; simp
    have back : ∀ (j : Nat) (c : Caller), s'.callers[j]? = some c → (j = i ∧ c = ci') ∨ (j ≠ i ∧ s.callers[j]? = some c) := by
      intro j c hj
      rw [hp j] at hj
      by_cases hji : j = i
      · left; simp [hji] at hj; exact ⟨hji, hj.symm⟩
      · right; simp [hji] at hj; exact ⟨hji, hj⟩
    have keep : ∀ (j : Nat) (c : Caller), s.callers[j]? = some c → j ≠ i → s'.callers[j]? = some c := by
      intro j c hj hji; rw [hp j]; simp [hji, hj]
    have hmsg := ha.msg_eq
    have hl := inv.len
    refine ⟨by omega, ?_, ?_, ?_⟩
    · intro j c hj hlt
      rcases back j c hj with ⟨h1, _⟩ | ⟨_, h2⟩
      · omega
      · exact inv.old j c h2 hlt
    · -- a witness other than the acting caller survives; the acting caller is a witness only past its store
      have other : ∀ (hpc : ¬ pastStore ci), s'.updating = s.updating → s'.instEpoch = s.instEpoch →
          Covered s' s'.updating := by
        intro hpc h1 h2
        rw [h1]
        rcases inv.upd with h3 | ⟨j, c, hj, hps, hle⟩
        · left; omega
        · right
          have hji : j ≠ i := by
            intro hji; subst hji; rw [hci] at hj; cases hj; exact hpc hps
          exact ⟨j, c, keep j c hj hji, hps, hle⟩
      cases ha with
      | loadRej hpc hf hle => exact other (by simp [pastStore, hpc]) hu' hie'
      | loadPass hpc hle => exact other (by simp [pastStore, hpc]) hu' hie'
      | store hpc => right; exact ⟨i, _, self', Or.inl rfl, by rw [hu']; exact Nat.le_refl _⟩
      | read hpc =>
        rw [hu']
        rcases inv.upd with h3 | ⟨j, c, hj, hps, hle⟩
        · left; omega
        · right
          by_cases hji : j = i
          · subst hji; rw [hci] at hj; cases hj
            exact ⟨j, _, self', Or.inr rfl, hle⟩
          · exact ⟨j, c, keep j c hj hji, hps, hle⟩
      | lockRej hpc hf hle => left; omega
      | install hpc hle => left; rw [hu', hie']; exact Nat.le_refl _
    · intro j c hj hge
      rcases back j c hj with ⟨_, h2⟩ | ⟨_, h2⟩
      · subst h2
        have h3 := inv.nmm i ci hci hin0
        have h4 : ci.pc ≠ .done .notMyMeta := ha.not_done _
        rw [hmsg]
        have h5 : ¬ hostsOk announce ci.msg = false := fun h => h4 (h3.mpr h)
        constructor
        · intro hpc
          cases ha <;> simp at hpc
        · intro h; exact absurd h h5
      · exact inv.nmm j c h2 hge

theorem allInv_start (announce : Bytes) (s0 : Sys) (hq : Quiescent s0) (hu : s0.updating ≤ s0.instEpoch) :
    AllInv announce s0.callers.length s0 := by
  refine ⟨Nat.le_refl _, ?_, Or.inl hu, ?_⟩
  · intro j c hj _; exact hq j c hj
  · intro j c hj hge; have := getElem?_lt hj; omega

/-- the all-flags invariant holds throughout any execution from a healthy state -/
theorem allInv_run {announce : Bytes} {s0 s : Sys} {ls : List Label} (hq : Quiescent s0)
    (hu : s0.updating ≤ s0.instEpoch) (h : Run announce s0 ls s) :
    AllInv announce s0.callers.length s := by
  induction h with
  | nil => exact allInv_start announce s0 hq hu
  | snoc _ hs ih => exact allInv_step hs ih

/-! ## `foldl max` -/

theorem foldl_max_ge_init (l : List Nat) (e0 : Nat) : e0 ≤ l.foldl max e0 := by
  induction l generalizing e0 with
  | nil => exact Nat.le_refl _
  | cons a r ih => exact Nat.le_trans (Nat.le_max_left e0 a) (ih (max e0 a))

theorem foldl_max_ge_mem (l : List Nat) (e0 : Nat) (a : Nat) (h : a ∈ l) : a ≤ l.foldl max e0 := by
  induction l generalizing e0 with
  | nil => cases h
  | cons b r ih =>
    simp only [List.mem_cons] at h
    simp only [List.foldl_cons]
    rcases h with rfl | h
    · exact Nat.le_trans (Nat.le_max_right e0 a) (foldl_max_ge_init r _)
    · exact ih _ h

theorem foldl_max_le (l : List Nat) (e0 x : Nat) (h0 : e0 ≤ x) (h : ∀ a ∈ l, a ≤ x) : l.foldl max e0 ≤ x := by
  induction l generalizing e0 with
  | nil => exact h0
  | cons b r ih =>
    simp only [List.foldl_cons]
    exact ih _ (Nat.max_le.mpr ⟨h0, h b (by simp)⟩) (fun a ha => h a (by simp [ha]))

end Um.ReplEpoch
