import UmProofs.BrokerScaleFailover
import UmProofs.BrokerScaleAdd
/-!
# C10 over reachable states (part A): the per-cluster invariant `SInv` and the operations that
keep every cluster up to `ChunksRel`

`SInv c`: for some `N > 0` the cluster carries the profile of the canonical target
`target N idx = quota (2N) idx` for `idx < 2N`, `0` beyond — every half's stable count plus the
counts being imported into it is its final quota, chunks `≥ N` own nothing and are nobody's
destination.  Idle clusters with `SInv` are `Balanced`; migrating ones are on their way to it.
-/
namespace Um.Broker.Scale
open Um Um.Slots Um.Broker

def target (N idx : Nat) : Nat := if idx < N * 2 then quota (N * 2) idx else 0

def SInv (c : Cluster) : Prop := ∃ N, 0 < N ∧ ProfileCore (target N) N c

def AllS (s : Store) : Prop := ∀ c ∈ s.clusters, SInv c

theorem core_congr {T T' : Nat → Nat} {N : Nat} {c : Cluster} (h : ProfileCore T N c)
    (hT : ∀ idx, idx < c.chunks.length * 2 → T idx = T' idx) : ProfileCore T' N c := by
  refine ⟨?_, h.tail, h.dst, h.len, h.asc⟩
  intro i ch hi
  have hlt := (List.getElem?_eq_some_iff.mp hi).1
  obtain ⟨p0, p1⟩ := h.proj i ch hi
  rw [← hT _ (by omega), ← hT _ (by omega)]
  exact ⟨p0, p1⟩

/-- a balanced idle cluster satisfies `SInv` -/
theorem core_of_balanced {c : Cluster} {N : Nat} (hs : BalancedShape c.chunks N) (hidle : c.migs = []) :
    ProfileCore (target N) N c := by
  obtain ⟨A, B, hch, hA, hfull, hempty⟩ := hs
  have hmig : ∀ ch ∈ c.chunks, ch.mig0 = [] ∧ ch.mig1 = [] := by
    intro ch hch'
    unfold Cluster.migs Chunk.migs at hidle
    simpa using List.flatMap_eq_nil_iff.mp hidle ch hch'
  have hlo : ∀ i ch, c.chunks[i]? = some ch → i < N → A[i]? = some ch := by
    intro i ch hi hin
    rw [hch, List.getElem?_append_left (by omega)] at hi; exact hi
  have hhi : ∀ i ch, c.chunks[i]? = some ch → N ≤ i → ch ∈ B := by
    intro i ch hi hin
    rw [hch, List.getElem?_append_right (by omega)] at hi
    exact List.mem_of_getElem? hi
  refine ⟨?_, ?_, ?_, ?_, ?_⟩
  · intro i ch hi
    obtain ⟨m0, m1⟩ := hmig ch (List.mem_of_getElem? hi)
    rw [m0, m1, proj_nil, proj_nil]
    by_cases hin : i < N
    · obtain ⟨a, b, e0, e1, _, _, c0, c1⟩ := fullChunks_get _ A 0 hfull i ch (hlo i ch hi hin)
      simp only [Nat.zero_add] at c0 c1
      have l0 : i * 2 + 0 < N * 2 := by omega
      have l1 : i * 2 + 1 < N * 2 := by omega
      rw [e0, e1]
      simp only [halfCount, target, l0, l1, if_true]
      exact ⟨c0, c1⟩
    · obtain ⟨e0, e1⟩ := hempty ch (hhi i ch hi (by omega))
      have l0 : ¬ i * 2 + 0 < N * 2 := by omega
      have l1 : ¬ i * 2 + 1 < N * 2 := by omega
      rw [e0, e1]
      simp only [halfCount, target, l0, l1, if_false, and_self]
  · intro i ch hi hin
    exact hempty ch (hhi i ch hi hin)
  · intro m hm; rw [hidle] at hm; cases hm
  · rw [hch, List.length_append, hA]; omega
  · intro ch hch'
    obtain ⟨i, hi⟩ := List.getElem?_of_mem hch'
    by_cases hin : i < N
    · exact fullChunks_asc _ A 0 hfull ch (List.mem_of_getElem? (hlo i ch hi hin))
    · obtain ⟨e0, e1⟩ := hempty ch (hhi i ch hi (by omega))
      exact ⟨fun rl hrl => (by rw [e0] at hrl; cases hrl), fun rl hrl => (by rw [e1] at hrl; cases hrl)⟩

theorem sinv_of_balanced {c : Cluster} {N : Nat} (hN : 0 < N) (hs : BalancedShape c.chunks N)
    (hidle : c.migs = []) : SInv c := ⟨N, hN, core_of_balanced hs hidle⟩

/-- an idle cluster with `SInv` (and at most `SLOT_NUM` masters) is balanced -/
theorem balanced_of_sinv {c : Cluster} (h : SInv c) (hidle : c.migs = []) (hb : c.chunks.length * 2 ≤ SLOT_NUM) :
    ∃ N, 0 < N ∧ Balanced c ∧ BalancedShape c.chunks N := by
  obtain ⟨N, hN, hcore⟩ := h
  have hlen := hcore.len
  obtain ⟨h1, h2⟩ := balanced_of_core hcore hidle hN (by omega) (fun idx hidx => by simp [target, hidx])
  exact ⟨N, hN, h1, h2⟩

/-! ## operations under which every cluster stays, up to `ChunksRel` -/

def StepRel (s s' : Store) : Prop :=
  ∀ c' ∈ s'.clusters, ∃ c ∈ s.clusters, ChunksRel c.chunks c'.chunks

theorem StepRel.rfl' (s : Store) : StepRel s s := fun c hc => ⟨c, hc, ChunksRel.rfl' _⟩

theorem StepRel.trans {a b c : Store} (h1 : StepRel a b) (h2 : StepRel b c) : StepRel a c := by
  intro x hx
  obtain ⟨y, hy, r2⟩ := h2 x hx
  obtain ⟨z, hz, r1⟩ := h1 y hy
  exact ⟨z, hz, r1.trans r2⟩

theorem stepRel_of_subset {s s' : Store} (h : ∀ c ∈ s'.clusters, c ∈ s.clusters) : StepRel s s' :=
  fun c hc => ⟨c, h c hc, ChunksRel.rfl' _⟩

theorem stepRel_of_clusters {s s' : Store} (h : s'.clusters = s.clusters) : StepRel s s' :=
  stepRel_of_subset (fun c hc => h ▸ hc)

theorem mem_setCluster {s : Store} {cl' c : Cluster} (h : c ∈ (s.setCluster cl').clusters) :
    c = cl' ∨ c ∈ s.clusters := by
  unfold Store.setCluster at h
  simp only [List.mem_map] at h
  obtain ⟨x, hx, rfl⟩ := h
  split
  · exact Or.inl rfl
  · exact Or.inr hx

theorem stepRel_setCluster {s : Store} {cl cl' : Cluster} (hmem : cl ∈ s.clusters)
    (hrel : ChunksRel cl.chunks cl'.chunks) : StepRel s (s.setCluster cl') := by
  intro c hc
  rcases mem_setCluster hc with rfl | h
  · exact ⟨cl, hmem, hrel⟩
  · exact ⟨c, h, ChunksRel.rfl' _⟩

theorem sinv_rel {c c' : Cluster} (h : SInv c) (hrel : ChunksRel c.chunks c'.chunks) : SInv c' := by
  obtain ⟨N, hN, hcore⟩ := h
  exact ⟨N, hN, core_rel hcore hrel⟩

theorem allS_stepRel {s s' : Store} (h : AllS s) (hrel : StepRel s s') : AllS s' := by
  intro c' hc'
  obtain ⟨c, hc, r⟩ := hrel c' hc'
  exact sinv_rel (h c hc) r

theorem stepRel_addProxy (s : Store) (addr n0 n1 : String) (host : Option String) (index : Option Nat) :
    StepRel s (addProxy s addr n0 n1 host index).1 := by
  unfold addProxy
  split
  · exact StepRel.rfl' s
  · dsimp only
    split
    · exact StepRel.rfl' s
    · split <;> exact stepRel_of_clusters rfl

theorem stepRel_removeProxy (s : Store) (addr : String) : StepRel s (removeProxy s addr).1 := by
  unfold removeProxy
  split
  · exact StepRel.rfl' s
  · split
    · exact StepRel.rfl' s
    · exact stepRel_of_clusters rfl

theorem stepRel_addFailure (s : Store) (addr reporter : String) (now : Int) :
    StepRel s (addFailure s addr reporter now).1 := by
  unfold addFailure
  split
  · split
    · exact StepRel.rfl' s
    · exact stepRel_of_clusters rfl
  · exact stepRel_of_clusters rfl

theorem foldl_setProxyCluster_clusters (l : List String) (s : Store) (v : Option String) :
    (l.foldl (fun s a => s.setProxyCluster a v) s).clusters = s.clusters := by
  induction l generalizing s with
  | nil => rfl
  | cons a l ih => simp only [List.foldl_cons]; rw [ih]; rfl

theorem stepRel_removeCluster (s : Store) (name : String) : StepRel s (removeCluster s name).1 := by
  unfold removeCluster
  split
  · exact StepRel.rfl' s
  · split
    · exact StepRel.rfl' s
    · apply stepRel_of_subset
      intro c hc
      simp only [Store.bump] at hc
      rw [foldl_setProxyCluster_clusters] at hc
      exact (List.mem_filter.mp hc).1

theorem stepRel_balanceMasters (s : Store) (name : String) : StepRel s (balanceMasters s name).1 := by
  unfold balanceMasters
  split
  · exact StepRel.rfl' s
  · dsimp only
    split
    · exact StepRel.rfl' s
    · rename_i cl hf
      refine (stepRel_setCluster (cl := cl) (Store.findCluster_mem hf) ?_).trans (stepRel_of_clusters rfl)
      apply chunksRel_map
      intro a
      split
      · exact ChunkRel.rfl' a
      · exact ⟨rfl, rfl, MigsRel.rfl' _, MigsRel.rfl' _⟩

theorem stepRel_changeConfig (s : Store) (name : String) (kvs : List (String × String)) :
    StepRel s (changeConfig s name kvs).1 := by
  unfold changeConfig
  split
  · exact StepRel.rfl' s
  · dsimp only
    split
    · exact StepRel.rfl' s
    · rename_i cl hf
      split
      · exact StepRel.rfl' s
      · split
        · exact StepRel.rfl' s
        · rename_i cfg _
          exact (stepRel_setCluster (cl := cl) (cl' := { cl with config := cfg, epoch := s.globalEpoch + 1 })
            (Store.findCluster_mem hf) (ChunksRel.rfl' _)).trans (stepRel_of_clusters rfl)

theorem stepRel_mapEpoch (s : Store) (g e : Nat) :
    StepRel s { s with globalEpoch := g, clusters := s.clusters.map fun c => { c with epoch := e } } := by
  intro c' hc'
  simp only [List.mem_map] at hc'
  obtain ⟨c, hc, rfl⟩ := hc'
  exact ⟨c, hc, ChunksRel.rfl' _⟩

theorem stepRel_forceBumpAllEpoch (s : Store) (e : Nat) : StepRel s (forceBumpAllEpoch s e).1 := by
  unfold forceBumpAllEpoch
  split
  · exact StepRel.rfl' s
  · exact stepRel_mapEpoch s e e

theorem stepRel_recoverEpoch (s : Store) (e : Nat) : StepRel s (recoverEpoch s e) := by
  unfold recoverEpoch
  exact stepRel_mapEpoch s _ _

theorem stepRel_takeoverMaster (s : Store) (cname failed : String) :
    StepRel s (takeoverMaster s cname failed).1 := by
  unfold takeoverMaster
  simp only [Store.findCluster_bump]
  cases hf : s.findCluster cname with
  | none => exact stepRel_of_clusters rfl
  | some cl =>
    simp only
    cases ht : takeoverFirst failed s.bump.globalEpoch cl.chunks with
    | none => exact stepRel_of_clusters rfl
    | some r =>
      obtain ⟨chunks, pos⟩ := r
      simp only
      have h1 : StepRel s s.bump := stepRel_of_clusters rfl
      refine h1.trans (stepRel_setCluster (s := s.bump) (cl := cl) (Store.findCluster_mem hf) ?_)
      refine (takeoverFirst_rel ht).trans (chunksRel_map _ ?_ chunks)
      intro a
      exact ⟨rfl, rfl, migsRel_bumpPeers _ _ _, migsRel_bumpPeers _ _ _⟩

theorem stepRel_replaceFailedProxy (s : Store) (addr choice : String) :
    StepRel s (replaceFailedProxy s addr choice).1 := by
  unfold replaceFailedProxy
  cases s.findProxy addr with
  | none => exact StepRel.rfl' s
  | some p =>
    simp only
    cases p.cluster with
    | none => exact stepRel_of_clusters rfl
    | some cname =>
      simp only
      have h1 := stepRel_takeoverMaster s cname addr
      rcases htm : takeoverMaster s cname addr with ⟨s1, r1⟩
      rw [htm] at h1
      simp only at h1
      cases r1 with
      | err e => exact h1
      | panic w => exact h1
      | badChoice w => exact h1
      | ok u =>
        cases u
        simp only
        split
        · -- ordered mode: takeover, a second bump, no replacement
          exact h1.trans (stepRel_of_clusters rfl)
        have h2 : StepRel s1 { s1 with failed := if s1.failed.contains addr then s1.failed else s1.failed ++ [addr] } :=
          stepRel_of_clusters rfl
        generalize ({ s1 with failed := if s1.failed.contains addr then s1.failed else s1.failed ++ [addr] } : Store) = S2 at h2 ⊢
        have h12 := h1.trans h2
        cases generateNewFreeProxy S2 addr choice with
        | err e => exact h12
        | panic w => exact h12
        | badChoice w => exact h12
        | ok np =>
          simp only [Store.findCluster_bump]
          cases hf3 : S2.findCluster cname with
          | none => exact h12.trans (stepRel_of_clusters rfl)
          | some cl =>
            simp only
            have h3 : StepRel S2 S2.bump := stepRel_of_clusters rfl
            have h4 : StepRel S2.bump
                (S2.bump.setCluster { cl with chunks := replaceInChunks addr np cl.chunks, epoch := S2.bump.globalEpoch }) :=
              stepRel_setCluster (s := S2.bump) (cl := cl) (Store.findCluster_mem hf3) (replaceInChunks_rel addr np cl.chunks)
            exact ((h12.trans h3).trans h4).trans (stepRel_of_clusters rfl)

end Um.Broker.Scale
