import UmProofs.BrokerResReplace2
import UmProofs.BrokerResReach
/-!
# C02: every registered proxy has two different node addresses (since /repo bf43b2d)

`add_proxy` refuses `nodes[0] == nodes[1]` (fix of finding F02a) and is the only operation that
adds a proxy; every other operation at most changes cluster tags (`setProxyCluster` / `tagAll`) or
removes proxies.  Hence `PNodes s` — every registered proxy has `node0 ≠ node1` — holds in every
reachable store (`pnodes_reachable`), and with `ResInv` (a chunk carries the node addresses of its
two proxies) every stored cluster satisfies `node0 ≠ node1 ∧ node2 ≠ node3` in every chunk
(`chunk_nodes_distinct`).  The case split mirrors `rx_stepFull` of C12 and reuses its outcome
characterisations.
-/
namespace Um.Broker
open Um Um.Slots

/-- every registered proxy has two different node addresses -/
def PNodes (s : Store) : Prop := ∀ p ∈ s.proxies, p.node0 ≠ p.node1

theorem PNodes.of_proxies_eq {s' s : Store} (h : s'.proxies = s.proxies) (hp : PNodes s) : PNodes s' := by
  unfold PNodes; rw [h]; exact hp

theorem PNodes.of_skelEq {s' s : Store} (h : SkelEq s' s) (hp : PNodes s) : PNodes s' := hp.of_proxies_eq h.1

theorem pnodes_tagAll {ps : List ProxyRes} {addrs : List String} {v : Option String}
    (h : ∀ p ∈ ps, p.node0 ≠ p.node1) : ∀ p ∈ tagAll ps addrs v, p.node0 ≠ p.node1 := by
  intro p hp
  unfold tagAll at hp
  obtain ⟨q, hq, rfl⟩ := List.mem_map.mp hp
  split
  · exact h q hq
  · exact h q hq

theorem PNodes.of_tagAll {s' s : Store} {addrs : List String} {v : Option String}
    (h : s'.proxies = tagAll s.proxies addrs v) (hp : PNodes s) : PNodes s' := by
  unfold PNodes; rw [h]; exact pnodes_tagAll hp

theorem PNodes.setProxyCluster {s : Store} (a : String) (v : Option String) (hp : PNodes s) :
    PNodes (s.setProxyCluster a v) := by
  intro p hpm
  unfold Store.setProxyCluster at hpm
  obtain ⟨q, hq, rfl⟩ := List.mem_map.mp hpm
  split
  · exact hp q hq
  · exact hp q hq

theorem pnodes_addProxy {s : Store} (a n0 n1 : String) (h : Option String) (i : Option Nat) (hp : PNodes s) :
    PNodes (addProxy s a n0 n1 h i).1 := by
  unfold PNodes
  rw [addProxy_proxies]
  by_cases hc : (colonCount a != 1 || n0 == n1) = true
  · rw [if_pos hc]; exact hp
  · rw [if_neg hc]
    cases proxyIndex s i with
    | none => exact hp
    | some idx =>
      simp only
      split
      · exact hp
      · intro p hpm
        rcases List.mem_append.mp hpm with h' | h'
        · exact hp p h'
        · simp only [List.mem_cons, List.not_mem_nil, or_false] at h'
          subst h'
          simp only [Bool.or_eq_true, not_or, Bool.not_eq_true] at hc
          simpa using hc.2

theorem pnodes_removeProxy {s : Store} (a : String) (hp : PNodes s) : PNodes (removeProxy s a).1 := by
  unfold removeProxy
  split
  · exact hp
  · split
    · exact hp
    · intro p hpm
      have : p ∈ s.proxies.filter (·.addr != a) := hpm
      exact hp p (List.mem_filter.mp this).1

theorem pnodes_addCluster {s : Store} (n : String) (k : Nat) (cfg : Config) (c : List (String × String))
    (hp : PNodes s) : PNodes (addCluster s n k cfg c).1 := by
  rcases addCluster_spec s n k cfg c with ⟨h, _⟩ | ⟨chunks, _, _, _, _, _, _, h⟩
  · rw [h]; exact hp
  · rw [h]; exact hp.of_tagAll (s' := addClusterResult s n cfg chunks) rfl

theorem pnodes_removeCluster {s : Store} (n : String) (hp : PNodes s) : PNodes (removeCluster s n).1 := by
  rcases removeCluster_spec s n with ⟨h, _⟩ | ⟨cl, _, h⟩
  · rw [h]; exact hp
  · rw [h]; exact hp.of_tagAll rfl

theorem pnodes_autoAddNodes {s : Store} (n : String) (k : Nat) (c : List (String × String)) (hp : PNodes s) :
    PNodes (autoAddNodes s n k c).1 := by
  rcases autoAddNodes_spec s n k c with ⟨h, _⟩ | ⟨cl, new, _, _, _, _, _, _, h⟩
  · rw [h]; exact hp
  · rw [h]; exact hp.of_tagAll (s' := addNodesResult s cl new) rfl

theorem pnodes_autoScaleUpNodes {s : Store} (n : String) (k : Nat) (c : List (String × String)) (hp : PNodes s) :
    PNodes (autoScaleUpNodes s n k c).1 := by
  unfold autoScaleUpNodes
  split
  · exact hp
  split
  · exact hp
  simp only
  split
  · exact hp
  · exact pnodes_autoAddNodes _ _ _ hp

theorem pnodes_autoDeleteFreeNodes {s : Store} (n : String) (hp : PNodes s) :
    PNodes (autoDeleteFreeNodes s n).1 := by
  rcases autoDeleteFreeNodes_spec s n with ⟨h, _⟩ | ⟨cl, _, _, h⟩
  · rw [h]; exact hp
  · rw [h]; exact hp.of_tagAll (s' := delFreeResult s cl) rfl

theorem pnodes_autoScaleOutNodeNumber {s : Store} (n : String) (k : Nat) (hx : RX s) (hp : PNodes s) :
    PNodes (autoScaleOutNodeNumber s n k).1 := by
  unfold autoScaleOutNodeNumber
  split
  · exact hp
  split
  · exact hp
  split
  · exact hp.of_skelEq (migrateSlots_skelEq s n hx.nodupNames)
  · exact hp

theorem pnodes_autoChangeNodeNumber {s : Store} (n : String) (k : Nat) (c : List (String × String))
    (hx : RX s) (hp : PNodes s) : PNodes (autoChangeNodeNumber s n k c).1 := by
  unfold autoChangeNodeNumber
  split
  · exact hp
  split
  · exact hp
  split
  · exact hp
  have h1 := pnodes_autoDeleteFreeNodes n hp
  have x1 := rx_autoDeleteFreeNodes n hx
  generalize autoDeleteFreeNodes s n = r at h1 x1
  obtain ⟨s1, r1⟩ := r
  simp only at h1 x1 ⊢
  have h2 := pnodes_autoScaleUpNodes n k c h1
  have h3 := h1.of_skelEq (migrateSlotsToScaleDown_skelEq s1 n k x1.nodupNames)
  repeat' split
  all_goals first
    | exact h1
    | (rename_i heq; rw [heq] at h2; exact h2)
    | (rename_i heq; rw [heq] at h3; exact h3)

theorem pnodes_commitMigration {s : Store} (n : String) (rl : RangeList) (e : Nat) (t c : Bool)
    (hx : RX s) (hp : PNodes s) : PNodes (commitMigration s n rl e t c).1 := by
  unfold commitMigration
  have h1 := hp.of_skelEq (commitMigrationCore_skelEq s n rl e t hx.nodupNames)
  split
  · rename_i s' heq
    rw [heq] at h1
    split
    · rw [autoDeleteFreeNodesIfExists_fst]; exact pnodes_autoDeleteFreeNodes n h1
    · exact h1
  · exact h1

theorem pnodes_replaceFailedProxy {s : Store} (f choice : String) (hx : RX s) (hp : PNodes s) :
    PNodes (replaceFailedProxy s f choice).1 := by
  rcases replaceFailedProxy_spec s f choice with ⟨_, h⟩ | ⟨p, _, _, h⟩ | ⟨p, name, _, _, _, h⟩ |
      ⟨p, name, cl0, hfp, hpc, hcl0, h⟩
  · rw [h]; exact hp
  · rw [h]; exact hp.of_proxies_eq rfl
  · rw [h]; exact hp.of_proxies_eq rfl
  · have hsk := afterTakeover_skelEq s name f hx.nodupNames
    have hp2 : PNodes (afterTakeover s name f) := hp.of_skelEq hsk
    rcases h with ⟨_, h⟩ | ⟨_, ⟨np, cl, hg, hc, h⟩ | ⟨e, _, h⟩ | ⟨w, _, h⟩ | ⟨w, _, h⟩ | ⟨np, _, _, h⟩⟩
    · rw [h]
      exact (hp.of_skelEq (takeoverMaster_skelEq s name f hx.nodupNames)).of_proxies_eq rfl
    · rw [h]
      unfold replaceResult
      apply PNodes.setProxyCluster
      apply PNodes.setProxyCluster
      exact hp2.of_proxies_eq rfl
    · rw [h]; exact hp2
    · rw [h]; exact hp2
    · rw [h]; exact hp2
    · rw [h]; exact hp2.of_proxies_eq rfl

theorem pnodes_stepFull {s : Store} (op : Op) (hx : RX s) (hp : PNodes s) : PNodes (stepFull s op).1 := by
  cases op with
  | addProxy a n0 n1 h i => exact pnodes_addProxy a n0 n1 h i hp
  | removeProxy a => exact pnodes_removeProxy a hp
  | addCluster n k c => exact pnodes_addCluster n k defaultConfig c hp
  | removeCluster n => exact pnodes_removeCluster n hp
  | addNodes n k c => exact pnodes_autoAddNodes n k c hp
  | scaleUp n k c => exact pnodes_autoScaleUpNodes n k c hp
  | changeNum n k c => exact pnodes_autoChangeNodeNumber n k c hx hp
  | scaleOutNum n k => exact pnodes_autoScaleOutNodeNumber n k hx hp
  | delFree n => exact pnodes_autoDeleteFreeNodes n hp
  | migrate n => exact hp.of_skelEq (migrateSlots_skelEq s n hx.nodupNames)
  | scaleDown n k => exact hp.of_skelEq (migrateSlotsToScaleDown_skelEq s n k hx.nodupNames)
  | commit n e rl t c => exact pnodes_commitMigration n rl e t c hx hp
  | failover a c => exact pnodes_replaceFailedProxy a c hx hp
  | balance n => exact hp.of_skelEq (balanceMasters_skelEq s n hx.nodupNames)
  | config n kv => exact hp.of_skelEq (changeConfig_skelEq s n kv hx.nodupNames)
  | bumpAll e => exact hp.of_skelEq (forceBumpAllEpoch_skelEq s e)
  | recover e => exact hp.of_skelEq (recoverEpoch_skelEq s e)
  | addFailure a r t => exact hp.of_skelEq (addFailure_skelEq s a r t)
  | setOrdered => exact hp.of_proxies_eq (s' := s.setOrdered) (by unfold Store.setOrdered; split <;> rfl)

theorem pnodes_step {s : Store} (op : Op) (hx : RX s) (hp : PNodes s) : PNodes (step s op) := by
  have := pnodes_stepFull op hx hp
  unfold step
  split
  · rename_i heq; rw [heq] at this; exact this
  · rename_i heq; rw [heq] at this; exact this
  · exact hp
  · exact hp

/-- **every registered proxy of every reachable store has two different node addresses** -/
theorem pnodes_reachable : ∀ s, Reachable s → PNodes s := by
  have key : ∀ s, Reachable s → RX s ∧ PNodes s :=
    reachable_induction ⟨rx_init, by intro p hp; simp [Store.init] at hp⟩
      (fun _ op _ h => ⟨rx_step op h.1, pnodes_step op h.1 h.2⟩)
  exact fun s h => (key s h).2

/-- … hence every chunk of every stored cluster carries, for each of its two proxies, two different
node addresses -/
theorem chunk_nodes_distinct (s : Store) (h : Reachable s) :
    ∀ cl ∈ s.clusters, ∀ c ∈ cl.chunks, c.node0 ≠ c.node1 ∧ c.node2 ≠ c.node3 := by
  intro cl hcl c hc
  have hr := (rx_reachable s h).1
  have hp := pnodes_reachable s h
  obtain ⟨⟨p0, hp0, _, _, _, e0, e1⟩, ⟨p1, hp1, _, _, _, e2, e3⟩⟩ := hr.2.2.2.1 cl hcl c hc
  exact ⟨by rw [← e0, ← e1]; exact hp p0 hp0, by rw [← e2, ← e3]; exact hp p1 hp1⟩

end Um.Broker
