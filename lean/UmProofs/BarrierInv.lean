import UmProofs.Barrier
/-!
# C11 — global invariants of the barrier model (all pools, all interleavings)
-/
namespace Um.Barrier
open Lists

/-! ## trace counters -/

abbrev Trace := List (Tid × Obs)

def nHanded (tr : Trace) (i : Nat) : Nat := tr.countP (fun e => e.2.isHandedOf i)
def nHandedOk (tr : Trace) (i : Nat) : Nat := tr.countP (fun e => e.2.isHandedOkOf i)
def nEnq (tr : Trace) (u : Nat) : Nat := tr.countP (fun e => e.2.isEnq u)
def nRedisp (tr : Trace) (u : Nat) : Nat := tr.countP (fun e => e.2.isRedisp u)
/-- number of times sender `i`'s `send` returned with outcome `r` -/
def nRet (tr : Trace) (i : Nat) (r : Ret) : Nat :=
  tr.countP (fun e => e.1 == Tid.s i && e.2.isRet r)

theorem nHanded_snoc (tr : Trace) (t o i) :
    nHanded (tr ++ [(t, o)]) i = nHanded tr i + b2n (o.isHandedOf i) := countP_snoc _ _ _
theorem nHandedOk_snoc (tr : Trace) (t o i) :
    nHandedOk (tr ++ [(t, o)]) i = nHandedOk tr i + b2n (o.isHandedOkOf i) := countP_snoc _ _ _
theorem nEnq_snoc (tr : Trace) (t o u) :
    nEnq (tr ++ [(t, o)]) u = nEnq tr u + b2n (o.isEnq u) := countP_snoc _ _ _
theorem nRedisp_snoc (tr : Trace) (t o u) :
    nRedisp (tr ++ [(t, o)]) u = nRedisp tr u + b2n (o.isRedisp u) := countP_snoc _ _ _
theorem nRet_snoc (tr : Trace) (t o i r) :
    nRet (tr ++ [(t, o)]) i r = nRet tr i r + b2n (t == Tid.s i && o.isRet r) := countP_snoc _ _ _

/-! ## state measures -/

def runningSum (st : State) : Int := (st.senders.map (fun s => hold s.pc)).sum
def heldCount (st : State) : Nat := st.ctrls.countP (fun c => c.held)
def armedCount (st : State) : Nat :=
  st.senders.countP (fun s => armedS s.pc) + st.ctrls.countP (fun c => armedC c.pc)
def holders (st : State) (u : Nat) : Nat :=
  st.senders.countP (fun s => holdsS u s.pc) + st.ctrls.countP (fun c => holdsC u c.pc)

theorem getElem?_set_self_of_some {α} {l : List α} {i : Nat} {a x : α} (h : l[i]? = some a) :
    (l.set i x)[i]? = some x := by
  have : i < l.length := by
    rcases Nat.lt_or_ge i l.length with h' | h'
    · exact h'
    · rw [List.getElem?_eq_none h'] at h; cases h
  simp [this]

theorem sum_map_zero {α} (f : α → Int) : ∀ (l : List α), (∀ a ∈ l, f a = 0) → (l.map f).sum = 0
  | [], _ => rfl
  | a :: l, h => by
    have h1 := h a (by simp)
    have h2 := sum_map_zero f l (fun b hb => h b (by simp [hb]))
    simp [h1, h2]

/-! ## lengths are constant -/

theorem inv_len {s0 st : State} {tr : Trace} (h : Exec s0 tr st) :
    st.senders.length = s0.senders.length ∧ st.ctrls.length = s0.ctrls.length := by
  induction h with
  | nil => exact ⟨rfl, rfl⟩
  | snoc _ hs ih =>
    rcases step?_cases hs with ⟨i, s, sh', s', rfl, _, _, rfl⟩ | ⟨j, c, sh', c', rfl, _, _, rfl⟩
    · simpa using ih
    · simpa using ih

/-! ## `running` counts exactly the senders inside the critical section / in flight -/

theorem inv_running {s0 st : State} {tr : Trace} (h : Exec s0 tr st)
    (h0 : s0.sh.running = runningSum s0) : st.sh.running = runningSum st := by
  induction h with
  | nil => exact h0
  | snoc _ hs ih =>
    rcases step?_cases hs with ⟨i, s, sh', s', rfl, hi, hst, rfl⟩ | ⟨j, c, sh', c', rfl, hj, hst, rfl⟩
    · have h1 := stepS_running hst
      have h2 := sum_map_set_add (fun s => hold s.pc) _ i s s' hi
      simp only [runningSum] at ih ⊢
      omega
    · have h1 := stepC_running hst
      simp only [runningSum] at ih ⊢
      omega

/-! ## `count` = number of live handles (no wrap-around with fewer than 2^32 controllers) -/

theorem heldCount_bounds (st : State) (j : Nat) (c : Ctrl) (hj : st.ctrls[j]? = some c) :
    (c.held = true → 1 ≤ heldCount st) ∧ (c.held = false → heldCount st + 1 ≤ st.ctrls.length) := by
  constructor
  · intro hh
    exact countP_pos_of_getElem? _ _ j c hj hh
  · intro hh
    have h1 := countP_set_add (fun c : Ctrl => c.held) st.ctrls j c { c with held := true } hj
    have h2 := List.countP_le_length (p := fun c : Ctrl => c.held)
      (l := st.ctrls.set j { c with held := true })
    simp only [List.length_set] at h2
    simp only [hh, b2n_false, b2n_true] at h1
    unfold heldCount
    omega

theorem inv_count {s0 st : State} {tr : Trace} (h : Exec s0 tr st)
    (hk : s0.ctrls.length < U32) (h0 : s0.sh.count = heldCount s0) :
    st.sh.count = heldCount st := by
  induction h with
  | nil => exact h0
  | snoc hpre hs ih =>
    rename_i s1 s2 tr1 t o
    have hlen := (inv_len hpre).2
    rcases step?_cases hs with ⟨i, s, sh', s', rfl, hi, hst, rfl⟩ | ⟨j, c, sh', c', rfl, hj, hst, rfl⟩
    · have h1 := (stepS_word hst).1
      simp only [heldCount] at ih ⊢
      omega
    · have hb := heldCount_bounds s1 j c hj
      have hle : heldCount s1 ≤ s1.ctrls.length := List.countP_le_length
      have h1 := stepC_count hst (by intro hh; have := hb.1 hh; omega)
        (by intro hh; have := hb.2 hh; omega)
      have h2 := countP_set_add (fun c : Ctrl => c.held) s1.ctrls j c c' hj
      simp only [heldCount] at ih hb hle ⊢
      omega

theorem count_lt {s0 st : State} {tr : Trace} (h : Exec s0 tr st)
    (hk : s0.ctrls.length < U32) (h0 : s0.sh.count = heldCount s0) : st.sh.count < U32 := by
  have h1 := inv_count h hk h0
  have h2 := (inv_len h).2
  have hle : heldCount st ≤ st.ctrls.length := List.countP_le_length
  omega

/-! ## no lost wake-up: a non-empty queue with `count = 0` always has a pending releaser -/

def Armed (st : State) : Prop := st.sh.queue = [] ∨ st.sh.count > 0 ∨ 0 < armedCount st

theorem inv_armed {s0 st : State} {tr : Trace} (h : Exec s0 tr st)
    (hk : s0.ctrls.length < U32) (h0 : s0.sh.count = heldCount s0) (ha : Armed s0) :
    Armed st := by
  induction h with
  | nil => exact ha
  | snoc hpre hs ih =>
    rename_i s1 s2 tr1 t o
    have hlen := (inv_len hpre).2
    have hcnt := inv_count hpre hk h0
    rcases step?_cases hs with ⟨i, s, sh', s', rfl, hi, hst, rfl⟩ | ⟨j, c, sh', c', rfl, hj, hst, rfl⟩
    · rcases stepS_armed hst with h1 | ⟨h1, h2, h3⟩
      · rcases h1 with h1 | h1 | h1
        · right; right
          have := countP_pos_of_getElem? (fun s : Sender => armedS s.pc) _ i s'
            (getElem?_set_self_of_some hi) h1
          simp only [armedCount]; omega
        · left; exact h1
        · right; left; exact h1
      · have h4 := countP_set_add (fun s : Sender => armedS s.pc) s1.senders i s s' hi
        simp only [h1, b2n_false] at h4
        rcases ih with ih | ih | ih
        · left; simp only [h2]; exact ih
        · right; left; simp only [h3]; exact ih
        · right; right; simp only [armedCount] at ih ⊢; omega
    · have hb := heldCount_bounds s1 j c hj
      have hle : heldCount s1 ≤ s1.ctrls.length := List.countP_le_length
      rcases stepC_armed hst (by omega) (by intro hh; have := hb.2 hh; omega) with h1 | ⟨h1, h2, h3⟩
      · rcases h1 with h1 | h1 | h1
        · right; right
          have := countP_pos_of_getElem? (fun c : Ctrl => armedC c.pc) _ j c'
            (getElem?_set_self_of_some hj) h1
          simp only [armedCount]; omega
        · left; exact h1
        · right; left; exact h1
      · have h4 := countP_set_add (fun c : Ctrl => armedC c.pc) s1.ctrls j c c' hj
        simp only [h1, b2n_false] at h4
        rcases ih with ih | ih | ih
        · left; simp only [h2]; exact ih
        · right; left; simp only [h3]; exact ih
        · right; right; simp only [armedCount] at ih ⊢; omega

/-! ## task accounting: queue + in-hand + re-dispatched = enqueued -/

theorem inv_queue {s0 st : State} {tr : Trace} (h : Exec s0 tr st) (u : Nat)
    (h0 : s0.sh.queue.count u + holders s0 u = 0) :
    st.sh.queue.count u + holders st u + nRedisp tr u = nEnq tr u := by
  induction h with
  | nil => simpa [nRedisp, nEnq] using h0
  | snoc hpre hs ih =>
    rename_i s1 s2 tr1 t o
    rw [nRedisp_snoc, nEnq_snoc]
    rcases step?_cases hs with ⟨i, s, sh', s', rfl, hi, hst, rfl⟩ | ⟨j, c, sh', c', rfl, hj, hst, rfl⟩
    · have h1 := stepS_queue u hst
      have h2 := countP_set_add (fun s : Sender => holdsS u s.pc) s1.senders i s s' hi
      simp only [holders] at ih ⊢
      omega
    · have h1 := stepC_queue u hst
      have h2 := countP_set_add (fun c : Ctrl => holdsC u c.pc) s1.ctrls j c c' hj
      simp only [holders] at ih ⊢
      omega

/-! ## per-sender event table -/

/-- the events of task `i` seen so far are exactly those its sender's position implies -/
def TraceOK (tr : Trace) (st : State) : Prop :=
  ∀ i, match st.senders[i]? with
    | some s => nHanded tr i = handedOf s.pc ∧ nHandedOk tr i = handedOkOf s.pc ∧
        nEnq tr i = enqOf s.pc ∧ ∀ r, nRet tr i r = retOf r s.pc
    | none => nHanded tr i = 0 ∧ nHandedOk tr i = 0 ∧ nEnq tr i = 0 ∧ ∀ r, nRet tr i r = 0

theorem inv_trace {s0 st : State} {tr : Trace} (h : Exec s0 tr st) (h0 : TraceOK [] s0) :
    TraceOK tr st := by
  induction h with
  | nil => exact h0
  | snoc hpre hs ih =>
    rename_i s1 s2 tr1 t o
    intro k
    have ihk := ih k
    simp only [nHanded_snoc, nHandedOk_snoc, nEnq_snoc, nRet_snoc]
    rcases step?_cases hs with ⟨i, s, sh', s', rfl, hi, hst, rfl⟩ | ⟨j, c, sh', c', rfl, hj, hst, rfl⟩
    · by_cases hki : k = i
      · subst hki
        simp only [getElem?_set_self_of_some hi]
        simp only [hi] at ihk
        have h1 := stepS_trace hst
        refine ⟨by omega, by omega, by omega, ?_⟩
        intro r
        have := h1.2.2.2 r
        have := ihk.2.2.2 r
        simp only [beq_self_eq_true, Bool.true_and]
        omega
      · have h1 := stepS_other hst k hki
        have hne : (s1.senders.set i s')[k]? = s1.senders[k]? := by
          rw [List.getElem?_set_ne]; omega
        have hb : (Tid.s i == Tid.s k) = false := by
          simp; omega
        simp only [hne, h1, hb, Bool.false_and, b2n_false, Nat.add_zero]
        exact ihk
    · have h1 := stepC_obs hst
      have hb : (Tid.c j == Tid.s k) = false := by simp
      simp only [h1.2.1 k, hb, Bool.false_and, b2n_false, Nat.add_zero]
      exact ihk

/-! ## hints -/

def HintOK (st : State) : Prop :=
  ∀ (i : Nat) (s : Sender), st.senders[i]? = some s → passed s.pc = true → s.hint ≠ .blocking

theorem inv_hint {s0 st : State} {tr : Trace} (h : Exec s0 tr st) (h0 : HintOK s0) : HintOK st := by
  induction h with
  | nil => exact h0
  | snoc hpre hs ih =>
    rename_i s1 s2 tr1 t o
    intro k sk hk hp
    rcases step?_cases hs with ⟨i, s, sh', s', rfl, hi, hst, rfl⟩ | ⟨j, c, sh', c', rfl, hj, hst, rfl⟩
    · by_cases hki : k = i
      · subst hki
        simp only [getElem?_set_self_of_some hi] at hk
        cases hk
        have h1 := stepS_attr hst
        rcases stepS_passed hst hp with h2 | h2
        · rw [h1.1]; exact ih k s hi h2
        · rw [h1.1]; intro hb; rw [hb] at h2; simp [hintBlocks] at h2
      · have hne : (s1.senders.set i s')[k]? = s1.senders[k]? := by
          rw [List.getElem?_set_ne]; omega
        simp only [hne] at hk
        exact ih k sk hk hp
    · exact ih k sk hk hp

/-- the static attributes of a sender never change -/
theorem inv_attr {s0 st : State} {tr : Trace} (h : Exec s0 tr st) :
    ∀ (i : Nat) (s : Sender), st.senders[i]? = some s →
      ∃ s₀ : Sender, s0.senders[i]? = some s₀ ∧ s.hint = s₀.hint ∧ s.innerOk = s₀.innerOk := by
  induction h with
  | nil => intro i s hs; exact ⟨s, hs, rfl, rfl⟩
  | snoc hpre hs ih =>
    rename_i s1 s2 tr1 t o
    intro k sk hk
    rcases step?_cases hs with ⟨i, s, sh', s', rfl, hi, hst, rfl⟩ | ⟨j, c, sh', c', rfl, hj, hst, rfl⟩
    · by_cases hki : k = i
      · subst hki
        simp only [getElem?_set_self_of_some hi] at hk
        cases hk
        have h1 := stepS_attr hst
        obtain ⟨s₀, h2, h3, h4⟩ := ih k s hi
        exact ⟨s₀, h2, by rw [h1.1, h3], by rw [h1.2, h4]⟩
      · have hne : (s1.senders.set i s')[k]? = s1.senders[k]? := by
          rw [List.getElem?_set_ne]; omega
        simp only [hne] at hk
        exact ih k sk hk
    · exact ih k sk hk

/-! ## the initial state satisfies everything -/

theorem init_senders_pc (ss : List (Hint × Bool)) (ps) :
    ∀ s ∈ (init ss ps).senders, s.pc = .refInc := by
  intro s hs
  simp only [init, List.mem_map] at hs
  obtain ⟨p, _, rfl⟩ := hs
  rfl

theorem init_ctrls (ss : List (Hint × Bool)) (ps : List (List Cmd)) :
    ∀ c ∈ (init ss ps).ctrls, c.held = false ∧ ∀ u, holdsC u c.pc = false := by
  intro c hc
  simp only [init, List.mem_map] at hc
  obtain ⟨p, _, rfl⟩ := hc
  exact ⟨rfl, fun u => advance_holds _ _ u⟩

theorem init_running (ss ps) : (init ss ps).sh.running = runningSum (init ss ps) := by
  have := sum_map_zero (fun s : Sender => hold s.pc) (init ss ps).senders
    (fun s hs => by rw [init_senders_pc ss ps s hs]; rfl)
  simp only [runningSum, this]; rfl

theorem init_count (ss ps) : (init ss ps).sh.count = heldCount (init ss ps) := by
  have : heldCount (init ss ps) = 0 := by
    unfold heldCount
    rw [List.countP_eq_zero]
    intro c hc; simp [(init_ctrls ss ps c hc).1]
  rw [this]; rfl

theorem init_armed (ss ps) : Armed (init ss ps) := Or.inl rfl

theorem init_queue (ss ps) (u : Nat) :
    (init ss ps).sh.queue.count u + holders (init ss ps) u = 0 := by
  have h1 : (init ss ps).senders.countP (fun s => holdsS u s.pc) = 0 := by
    rw [List.countP_eq_zero]
    intro s hs; rw [init_senders_pc ss ps s hs]; simp [holdsS]
  have h2 : (init ss ps).ctrls.countP (fun c => holdsC u c.pc) = 0 := by
    rw [List.countP_eq_zero]
    intro c hc; simp [(init_ctrls ss ps c hc).2 u]
  simp only [holders, h1, h2]; rfl

theorem init_trace (ss ps) : TraceOK [] (init ss ps) := by
  intro i
  split
  · rename_i s hs
    have := init_senders_pc ss ps s (List.mem_of_getElem? hs)
    rw [this]
    simp [nHanded, nHandedOk, nEnq, nRet, handedOf, handedOkOf, enqOf, retOf]
  · simp [nHanded, nHandedOk, nEnq, nRet]

theorem init_hint (ss ps) : HintOK (init ss ps) := by
  intro i s hs hp
  have := init_senders_pc ss ps s (List.mem_of_getElem? hs)
  rw [this] at hp; simp [passed] at hp

theorem init_ctrls_len (ss ps) : (init ss ps).ctrls.length = ps.length := by simp [init]
theorem init_senders_len (ss : List (Hint × Bool)) (ps) :
    (init ss ps).senders.length = ss.length := by simp [init]

end Um.Barrier
