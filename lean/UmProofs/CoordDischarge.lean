import UmProofs.CoordCoherent
import UmProofs.CoordMig
import UmProofs.BrokerViewPartG
import UmProofs.BrokerScaleFailover
import UmProofs.BrokerEpochRecover
/-!
# C07 — discharging the broker-side hypotheses with C01 / C04 / C10 / C13

* `epochVersioning_holds` : `EpochVersioning` (C04: `view_steps`, `Frame.fresh`, `servedEpoch_le`).
* `cinv_of_goodB` : the commit invariant of every cluster (C01 store invariants + C10 `commitInv_of_invs`).
* `proxyView_total` : served views never panic (C01 `proxyView_partition`).
* `SysReach`, `sysReach_inv` : `Coherent ∧ BagProv ∧ WellTagged` hold in every state of every execution
  (rounds with any faults, flushes, bounded broker operations, process spawn/kill/restart, task completion).
-/
namespace Um.Coord
open Um Um.Broker Um.Broker.Epoch

theorem mem_of_findCluster' {s : Store} {name : String} {cl : Cluster} (h : s.findCluster name = some cl) :
    cl ∈ s.clusters := by
  unfold Store.findCluster at h
  exact List.mem_of_find?_eq_some h

/-- C01: on a store whose clusters satisfy the store invariants no per-proxy view panics; `Ok(None)` means
"not registered" -/
theorem proxyView_total {b : Store} (h : Um.Broker.Plan.AllCInv b) (a : String) (l : Nat) :
    (b.findProxy a = none ∧ proxyView b a l = R.ok none) ∨ ∃ v, proxyView b a l = R.ok (some v) := by
  cases hp : b.findProxy a with
  | none =>
    left
    refine ⟨rfl, ?_⟩
    unfold proxyView
    simp only [hp]
    rfl
  | some p =>
    right
    cases hc : p.cluster.bind b.findCluster with
    | none =>
      unfold proxyView
      simp only [hp, hc]
      exact ⟨_, rfl⟩
    | some cl =>
      have hmem : cl ∈ b.clusters := by
        cases hpc : p.cluster with
        | none => simp [hpc] at hc
        | some n => simp [hpc] at hc; exact mem_of_findCluster' hc
      obtain ⟨lc, hl, hlc, _⟩ := limitMigration_spec cl l (h cl hmem)
      obtain ⟨v, hv, _⟩ := proxyView_partition b a l p cl lc hp hc hl hlc.1 hlc.2.1 hlc.2.2
      exact ⟨_, hv⟩

/-! ## served epochs are positive -/

def StorePos (s : Store) : Prop :=
  (∀ a p, s.findProxy a = some p → 0 < s.globalEpoch) ∧ ∀ c ∈ s.clusters, 0 < c.epoch

theorem storePos_reachable : ∀ s, Reachable s → StorePos s := by
  apply reachable_induction
  · exact ⟨(fun a p hp => nomatch hp), (fun c hc => nomatch hc)⟩
  · intro s op hr ih
    have hf := (step_ok s op).frame (epochInv_reachable s hr)
    refine ⟨?_, ?_⟩
    · intro a p' hp'
      cases hp : s.findProxy a with
      | none => have := (hf.fresh a hp p' hp').2; omega
      | some p => have := ih.1 a p hp; have := hf.mono; omega
    · intro c' hc'
      have hnd := nameInv_reachable _ (Reachable.step op hr)
      have hfc : (step s op).findCluster c'.name = some c' := findC_of_mem_nodup hnd hc'
      rcases hf.cf c'.name with h | h | ⟨c'', h, hlt⟩
      · have h' : findC s.clusters c'.name = some c' := by rw [← h]; exact hfc
        exact ih.2 c' (findC_some h').1
      · have : findC (step s op).clusters c'.name = some c' := hfc
        rw [h.1] at this; cases this
      · have : findC (step s op).clusters c'.name = some c' := hfc
        rw [h] at this; cases this; omega

theorem served_pos {b : Store} (hb : Reachable b) {a : String} {l : Nat} {v : VProxy}
    (hv : proxyView b a l = R.ok (some v)) : 0 < v.epoch := by
  obtain ⟨p, hp, e⟩ := proxyView_epoch hv
  have hpos := storePos_reachable b hb
  rw [e]
  unfold servedEpoch
  split
  · exact hpos.1 a p hp
  · rename_i c hc
    unfold ec at hc
    cases hpc : p.cluster with
    | none => simp [hpc] at hc
    | some n =>
      simp only [hpc, Option.bind_some] at hc
      exact hpos.2 c (findC_some hc).1

/-! ## `EpochVersioning` -/

theorem versioned_step {b : Store} (hg : GoodB b) (op : Op) (limit : Nat) (compress : Bool) :
    Versioned limit compress b (Broker.step b op) := by
  have hsteps : Steps b (Broker.step b op) := Steps.snoc op Steps.refl
  have hmono := hsteps.mono
  have hf := (step_ok b op).frame (epochInv_reachable b hg.1)
  -- the common argument for both payload kinds
  have key : ∀ (a : String) (e : Nat) (P : VProxy → Prop),
      e ≤ b.globalEpoch → (∀ v, proxyView b a limit = R.ok (some v) → e < v.epoch ∨ (e = v.epoch ∧ P v)) →
      ∀ v', proxyView (Broker.step b op) a limit = R.ok (some v') → e < v'.epoch ∨ (e = v'.epoch ∧ P v') := by
    intro a e P hle hold v' hv'
    rcases proxyView_total hg.2 a limit with ⟨hnone, _⟩ | ⟨v, hv⟩
    · obtain ⟨p', hp', e'⟩ := proxyView_epoch hv'
      obtain ⟨hfree, hlt⟩ := hf.fresh a hnone p' hp'
      have : servedEpoch (Broker.step b op) p' = (Broker.step b op).globalEpoch := by
        simp [servedEpoch, ec, hfree]
      left; omega
    · obtain ⟨h1, h2⟩ := view_steps hg.1 hsteps hv hv'
      rcases hold v hv with hlt | ⟨heq, hP⟩
      · left; omega
      · rcases Nat.lt_or_ge v.epoch v'.epoch with h | h
        · left; omega
        · right
          have : v' = v := h2 (Nat.le_antisymm h1 h)
          subst this
          exact ⟨heq, hP⟩
  refine ⟨?_, ?_⟩
  · intro a e m h
    exact ⟨Nat.le_trans h.1 hmono, key a e (fun v => m = mkCMeta compress v) h.1 h.2⟩
  · intro a e r h
    exact ⟨Nat.le_trans h.1 hmono, key a e (fun v => r = mkRMeta v) h.1 h.2⟩

/-- **C04 discharges the hypothesis of `C07_coherent` / `C07_convergence`** -/
theorem epochVersioning_holds (limit : Nat) (compress : Bool) : EpochVersioning limit compress :=
  fun b op hg => versioned_step hg op limit compress

/-! ## the commit invariant -/

theorem cinv_of_goodB {b : Store} (h : GoodB b) : CInv b := by
  intro name c hc
  obtain ⟨hp, ht, hs⟩ := h.2 c (mem_of_findCluster' hc)
  exact Um.Broker.Scale.commitInv_of_invs hp ht hs

theorem goodB_of_reachableB {b : Store} (h : Um.Broker.Plan.ReachableB b) : GoodB b :=
  ⟨h.reachable, Um.Broker.Plan.cinv_reachableB b h⟩

theorem commitCore_fst_eq_step (b : Store) (n : String) (rl : Um.RangeList) (e : Nat) :
    (commitMigrationCore b n rl e false).1 = Broker.step b (.commit n e rl false false) := by
  rw [← keepOnPanic_commit, commitMigration_noclear]
  unfold keepOnPanic
  rcases commitCore_outcomes b n rl e false with ⟨s1, h⟩ | h | ⟨ht, _⟩ | h
  · rw [h]
  · rw [h]
  · cases ht
  · rw [h]

theorem commitReach_goodB {b b' : Store} (hg : GoodB b) (h : CommitReach b b') : GoodB b' := by
  induction h with
  | refl => exact hg
  | step name ranges e _ ih => rw [commitCore_fst_eq_step]; exact goodB_commit ih _ _ _ _ _

/-! ## the environment premise of the fault-free suffix -/

/-- every address the broker serves (now or after commits) has a running process whose announce host is the
host of the nodes served for it -/
def EnvOk (s : Sys) : Prop :=
  ∀ b', CommitReach s.broker b' → ∀ x v, proxyView b' x s.limit = R.ok (some v) →
    ∃ p, s.findP x = some p ∧ p.up = true ∧ hostsOk p.host (mkCMeta s.compress v) = true ∧
      replHostsOk p.host (mkRMeta v) = true

theorem allOk_of_env {s : Sys} (hg : GoodB s.broker) (henv : EnvOk s) : AllOk s := by
  intro b' hb x
  rcases proxyView_total (commitReach_goodB hg hb).2 x s.limit with ⟨_, hnone⟩ | ⟨v, hv⟩
  · exact Or.inl hnone
  · obtain ⟨p, hp, hup, hh, hr⟩ := henv b' hb x v hv
    exact Or.inr ⟨v, p, hv, hp, hup, hh, hr⟩


/-! ## every state of every execution -/

/-- the executions the property ranges over: coordinator rounds under any fault plan (with nested rounds),
flushes of delayed calls, broker operations of a bounded history, processes started / killed / restarted
empty, data migrations finishing -/
inductive SysReach : Sys → Prop where
  | init (limit quorum : Nat) (compress : Bool) : SysReach (Sys.init limit quorum compress)
  | round {s : Sys} (r : Round) : SysReach s → SysReach (runRound s r).1
  | flush {s : Sys} (cs : List String) : SysReach s → SysReach (s.flush cs).1
  | admin {s : Sys} (op : Op) : SysReach s → Um.Broker.Plan.PlanBound s.broker →
      Um.Broker.Plan.PlanBound (Broker.step s.broker op) → SysReach { s with broker := Broker.step s.broker op }
  | spawn {s : Sys} (a h : String) : SysReach s → SysReach (s.spawn a h)
  | kill {s : Sys} (a : String) : SysReach s → SysReach (s.kill a)
  | restart {s : Sys} (a : String) : SysReach s → SysReach (s.restart a)
  | finish {s s' : Sys} (src : String) (t : Task) : SysReach s → s.finish src t = some s' → SysReach s'

structure SInv (s : Sys) : Prop where
  coh : Coherent s
  bag : BagProv s
  tag : WellTagged s

theorem msgOk_fresh {s : Sys} (h : Coherent s) (a : String) :
    MsgOkC s.broker s.limit s.compress a 0 CMeta.empty ∧ MsgOkR s.broker s.limit a 0 RMeta.empty :=
  ⟨⟨Nat.zero_le _, fun _ hv => Or.inl (served_pos h.reachable.1 hv)⟩,
   ⟨Nat.zero_le _, fun _ hv => Or.inl (served_pos h.reachable.1 hv)⟩⟩

theorem bagProv_setP {s : Sys} (h : BagProv s) (q : PState) : BagProv (s.setP q) := h

theorem wellTagged_setP {s : Sys} (h : WellTagged s) (q : PState)
    (hq : ∀ t ∈ q.finished, ∃ mi, tagInfo t.sr.tag = some mi) : WellTagged (s.setP q) := by
  intro x p hp t ht
  rw [findP_setP] at hp
  by_cases hb : (q.addr == x) = true
  · simp only [hb, if_true] at hp
    cases hf : s.findP x with
    | none => rw [hf] at hp; cases hp
    | some p0 => rw [hf] at hp; simp only [Option.map_some] at hp; cases hp; exact hq t ht
  · simp only [hb, Bool.false_eq_true, if_false] at hp
    exact h x p hp t ht

/-- replace the state of one process by one that is not ahead either -/
theorem sinv_setP {s : Sys} (h : SInv s) {a : String} {p q : PState} (hp : s.findP a = some p) (hqa : q.addr = a)
    (hm : MsgOkC s.broker s.limit s.compress a q.epoch q.cmeta ∧ MsgOkR s.broker s.limit a q.replEpoch q.repl)
    (hq : ∀ t ∈ q.finished, ∃ mi, tagInfo t.sr.tag = some mi) : SInv (s.setP q) :=
  ⟨coherent_setP h.coh hp hqa hm, bagProv_setP h.bag q, wellTagged_setP h.tag q hq⟩

theorem fresh_finished (a h : String) : (PState.fresh a h).finished = [] := rfl

theorem findP_append_new {s : Sys} {q : PState} (hnew : s.findP q.addr = none) (x : String) :
    ({ s with proxies := s.proxies ++ [q] } : Sys).findP x =
      if q.addr == x then some q else s.findP x := by
  unfold Sys.findP at *
  simp only [List.find?_append]
  by_cases hx : (q.addr == x) = true
  · have hxe : q.addr = x := by simpa using hx
    subst hxe
    simp [hnew]
  · simp only [hx, Bool.false_eq_true, if_false]
    cases s.proxies.find? (fun p => p.addr == x) with
    | none => simp [List.find?_cons, hx]
    | some r => rfl

theorem markFinished_fields (p : PState) (t : Task) :
    (markFinished p t).addr = p.addr ∧ (markFinished p t).epoch = p.epoch ∧ (markFinished p t).cmeta = p.cmeta ∧
    (markFinished p t).replEpoch = p.replEpoch ∧ (markFinished p t).repl = p.repl := ⟨rfl, rfl, rfl, rfl, rfl⟩

theorem markFinished_finished (p : PState) (t x : Task) (hx : x ∈ (markFinished p t).finished) :
    x ∈ p.finished ∨ x = t := by
  simp only [PState.finished, markFinished, List.mem_map, List.mem_filter] at hx ⊢
  obtain ⟨⟨y, f⟩, ⟨⟨⟨y0, f0⟩, hmem, heq⟩, hf⟩, rfl⟩ := hx
  by_cases hy : (y0 == t) = true
  · simp only [hy, if_true] at heq
    right
    have : y0 = t := by simpa using hy
    injection heq with h1 _
    rw [← h1, this]
  · simp only [hy, Bool.false_eq_true, if_false] at heq
    left
    injection heq with h1 h2
    subst h1 h2
    exact ⟨(y0, f0), ⟨hmem, hf⟩, rfl⟩

theorem tagged_migrating {t : Task} (h : isMigratingTask t = true) : ∃ mi, tagInfo t.sr.tag = some mi := by
  unfold isMigratingTask at h
  cases ht : t.sr.tag with
  | none => rw [ht] at h; cases h
  | migrating m => exact ⟨m, rfl⟩
  | importing m => rw [ht] at h; cases h

theorem tagged_twin {t : Task} (h : isMigratingTask t = true) : ∃ mi, tagInfo (twinOf t).sr.tag = some mi := by
  unfold isMigratingTask at h
  unfold twinOf
  cases ht : t.sr.tag with
  | none => rw [ht] at h; cases h
  | migrating m => exact ⟨m, rfl⟩
  | importing m => rw [ht] at h; cases h

theorem sinv_init (limit quorum : Nat) (compress : Bool) : SInv (Sys.init limit quorum compress) := by
  refine ⟨⟨⟨Reachable.init, (fun c hc => nomatch hc)⟩, (fun x hx => nomatch hx), (fun a p hp => nomatch hp)⟩,
    (fun e he => nomatch he), (fun x p hp => nomatch hp)⟩

/-- **the invariant of every execution** -/
theorem sysReach_inv {s : Sys} (h : SysReach s) : SInv s := by
  induction h with
  | init limit quorum compress => exact sinv_init limit quorum compress
  | round r _ ih =>
    have g := runRound_goodP _ r ih.bag
    exact ⟨reachP_coherent g.reach (epochVersioning_holds _ _) ih.coh, g.bag,
      ih.tag.mono (reach_le (runRound_reach _ r))⟩
  | flush cs _ ih =>
    have g := flush_goodP _ cs ih.bag
    exact ⟨reachP_coherent g.reach (epochVersioning_holds _ _) ih.coh, g.bag,
      ih.tag.mono (reach_le (flush_reach _ cs))⟩
  | @admin s op _ hb hb' ih =>
    refine ⟨?_, ih.bag, ih.tag⟩
    exact coherent_broker_move (s := s) (t := { s with broker := Broker.step s.broker op }) rfl rfl rfl rfl
      (Or.inr ⟨op, rfl, fun hg => ⟨Reachable.step op hg.1,
        Um.Broker.Plan.allCInv_step_bounded s.broker op hg.2 hb hb'⟩⟩) (epochVersioning_holds _ _) ih.coh
  | @spawn s a hst _ ih =>
    unfold Sys.spawn
    cases hf : s.findP a with
    | some p =>
      simp only [Option.isSome_some, if_true]
      exact sinv_setP ih hf rfl (msgOk_fresh ih.coh a) (fun t ht => nomatch ht)
    | none =>
      simp only [Option.isSome_none, Bool.false_eq_true, if_false]
      have hfind := findP_append_new (s := s) (q := PState.fresh a hst) hf
      refine ⟨⟨ih.coh.reachable, ih.coh.served, ?_⟩, ih.bag, ?_⟩
      · intro x p hp
        rw [hfind] at hp
        by_cases hx : ((PState.fresh a hst).addr == x) = true
        · simp only [hx, if_true] at hp
          cases hp
          have hxe : a = x := by simpa [PState.fresh] using hx
          subst hxe
          exact msgOk_fresh ih.coh a
        · simp only [hx, Bool.false_eq_true, if_false] at hp
          exact ih.coh.proc x p hp
      · intro x p hp t ht
        rw [hfind] at hp
        by_cases hx : ((PState.fresh a hst).addr == x) = true
        · simp only [hx, if_true] at hp
          cases hp
          cases ht
        · simp only [hx, Bool.false_eq_true, if_false] at hp
          exact ih.tag x p hp t ht
  | @kill s a _ ih =>
    unfold Sys.kill
    cases hf : s.findP a with
    | none => exact ih
    | some p =>
      simp only
      have hpa : p.addr = a := findP_addr hf
      exact sinv_setP ih hf hpa (ih.coh.proc a p hf) (fun t ht => ih.tag a p hf t ht)
  | @restart s a _ ih =>
    unfold Sys.restart
    cases hf : s.findP a with
    | none => exact ih
    | some p =>
      simp only
      have hpa : p.addr = a := findP_addr hf
      exact sinv_setP ih hf hpa (msgOk_fresh ih.coh a) (fun t ht => nomatch ht)
  | @finish s s' src t _ hfin ih =>
    unfold Sys.finish at hfin
    cases hps : s.findP src with
    | none => simp only [hps] at hfin; cases hfin
    | some ps =>
      cases hti : tagInfo t.sr.tag with
      | none => simp only [hps, hti] at hfin; cases hfin
      | some mi =>
        simp only [hps, hti] at hfin
        cases hpd : s.findP mi.dstProxy with
        | none => simp only [hpd] at hfin; cases hfin
        | some pd =>
          simp only [hpd] at hfin
          split at hfin
          · rename_i hcond
            have hmig : isMigratingTask t = true := by
              simp only [Bool.and_eq_true] at hcond
              exact hcond.1.1.1.2
            have htag1 : ∀ (p : PState), (∀ x ∈ p.finished, ∃ mi, tagInfo x.sr.tag = some mi) →
                ∀ x ∈ (markFinished p t).finished, ∃ mi, tagInfo x.sr.tag = some mi := by
              intro p hp x hx
              rcases markFinished_finished p t x hx with h1 | h1
              · exact hp x h1
              · rw [h1]; exact tagged_migrating hmig
            have htag2 : ∀ (p : PState), (∀ x ∈ p.finished, ∃ mi, tagInfo x.sr.tag = some mi) →
                ∀ x ∈ (markFinished p (twinOf t)).finished, ∃ mi, tagInfo x.sr.tag = some mi := by
              intro p hp x hx
              rcases markFinished_finished p (twinOf t) x hx with h1 | h1
              · exact hp x h1
              · rw [h1]; exact tagged_twin hmig
            have hsa := findP_addr hps
            split at hfin
            · injection hfin with hfin
              subst hfin
              exact sinv_setP ih hps hsa (ih.coh.proc src ps hps)
                (htag2 _ (htag1 ps (fun x hx => ih.tag src ps hps x hx)))
            · rename_i hne
              injection hfin with hfin
              subst hfin
              have i1 : SInv (s.setP (markFinished ps t)) :=
                sinv_setP ih hps hsa (ih.coh.proc src ps hps) (htag1 ps (fun x hx => ih.tag src ps hps x hx))
              have hda := findP_addr hpd
              have hpd' : (s.setP (markFinished ps t)).findP mi.dstProxy = some pd := by
                rw [findP_setP]
                have : ((markFinished ps t).addr == mi.dstProxy) = false := by
                  show (ps.addr == mi.dstProxy) = false
                  rw [hsa]; simpa using hne
                simp [this, hpd]
              exact sinv_setP i1 hpd' hda (ih.coh.proc mi.dstProxy pd hpd)
                (htag2 pd (fun x hx => ih.tag mi.dstProxy pd hpd x hx))
          · cases hfin

end Um.Coord
