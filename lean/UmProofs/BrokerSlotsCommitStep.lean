import UmProofs.BrokerSlotsCommitStore
import UmProofs.BrokerSlotsCommitOps
import UmProofs.BrokerSlotsLimit
/-!
# C01: assembling `StoreInv` over `step`

`storeInv_stepFull` proves `StoreInv s → StoreInv (stepFull s op).1` for every `Op`, *given* the
four preservation lemmas of the operations that create slots or migrations (`addCluster`,
`autoAddNodes`, `migrateSlots`, `migrateSlotsToScaleDown`), which are proved elsewhere.
`storeInv_reachable` lifts it to `Reachable`.
-/
namespace Um.Broker
open Um Um.Slots

/-- the four obligations not proved in the `BrokerSlotsCommit*`/`BrokerSlotsLimit*` files -/
structure SlotMakersPreserve : Prop where
  addCluster : ∀ s name nodeNum cfg choice, StoreInv s → StoreInv (addCluster s name nodeNum cfg choice).1
  autoAddNodes : ∀ s name num choice, StoreInv s → StoreInv (autoAddNodes s name num choice).1
  migrateSlots : ∀ s name, StoreInv s → StoreInv (migrateSlots s name).1
  migrateSlotsToScaleDown : ∀ s name k, StoreInv s → StoreInv (migrateSlotsToScaleDown s name k).1

theorem storeInv_autoScaleUpNodes (H : SlotMakersPreserve) (s : Store) (name : String) (expected : Nat)
    (choice : List (String × String)) (h : StoreInv s) : StoreInv (autoScaleUpNodes s name expected choice).1 := by
  unfold autoScaleUpNodes
  split
  · exact h
  · split
    · exact h
    · simp only
      split
      · exact h
      · exact H.autoAddNodes _ _ _ _ h

theorem storeInv_autoScaleOutNodeNumber (H : SlotMakersPreserve) (s : Store) (name : String) (expected : Nat)
    (h : StoreInv s) : StoreInv (autoScaleOutNodeNumber s name expected).1 := by
  unfold autoScaleOutNodeNumber
  split
  · exact h
  · split
    · exact h
    · split
      · exact H.migrateSlots _ _ h
      · exact h

theorem storeInv_autoChangeNodeNumber (H : SlotMakersPreserve) (s : Store) (name : String) (expected : Nat)
    (choice : List (String × String)) (h : StoreInv s) :
    StoreInv (autoChangeNodeNumber s name expected choice).1 := by
  unfold autoChangeNodeNumber
  split
  · exact h
  · split
    · exact h
    · split
      · exact h
      · have h1 := storeInv_autoDeleteFreeNodes s name h
        generalize autoDeleteFreeNodes s name = r at h1 ⊢
        obtain ⟨s1, r1⟩ := r
        simp only at h1 ⊢
        have hUp := storeInv_autoScaleUpNodes H s1 name expected choice h1
        have hDown := H.migrateSlotsToScaleDown s1 name expected h1
        split
        · split
          · exact h1
          · split
            · exact h1
            · split
              · generalize autoScaleUpNodes s1 name expected choice = r2 at hUp ⊢
                obtain ⟨s2, res⟩ := r2
                cases res <;> exact hUp
              · generalize migrateSlotsToScaleDown s1 name expected = r2 at hDown ⊢
                obtain ⟨s2, res⟩ := r2
                cases res <;> exact hDown
        · split
          · exact h1
          · split
            · exact h1
            · split
              · generalize autoScaleUpNodes s1 name expected choice = r2 at hUp ⊢
                obtain ⟨s2, res⟩ := r2
                cases res <;> exact hUp
              · generalize migrateSlotsToScaleDown s1 name expected = r2 at hDown ⊢
                obtain ⟨s2, res⟩ := r2
                cases res <;> exact hDown
        · exact h1
        · exact h1
        · exact h1

/-- every operation keeps `StoreInv` on the store it returns (whatever the outcome) -/
theorem storeInv_stepFull (H : SlotMakersPreserve) (s : Store) (op : Op) (h : StoreInv s) :
    StoreInv (stepFull s op).1 := by
  cases op with
  | addProxy a n0 n1 host i => exact storeInv_addProxy s a n0 n1 host i h
  | removeProxy a => exact storeInv_removeProxy s a h
  | addCluster n k c => exact H.addCluster s n k defaultConfig c h
  | removeCluster n => exact storeInv_removeCluster s n h
  | addNodes n k c => exact H.autoAddNodes s n k c h
  | scaleUp n k c => exact storeInv_autoScaleUpNodes H s n k c h
  | changeNum n k c => exact storeInv_autoChangeNodeNumber H s n k c h
  | scaleOutNum n k => exact storeInv_autoScaleOutNodeNumber H s n k h
  | delFree n => exact storeInv_autoDeleteFreeNodes s n h
  | migrate n => exact H.migrateSlots s n h
  | scaleDown n k => exact H.migrateSlotsToScaleDown s n k h
  | commit n e rl tagNone clear => exact storeInv_commitMigration s n rl e tagNone clear h
  | failover a c => exact storeInv_replaceFailedProxy s a c h
  | balance n => exact storeInv_balanceMasters s n h
  | config n kv => exact storeInv_changeConfig s n kv h
  | bumpAll e => exact storeInv_forceBumpAllEpoch s e h
  | recover e => exact storeInv_recoverEpoch s e h
  | addFailure a r t => exact storeInv_addFailure s a r t h
  | setOrdered => exact h.of_clusters_eq (by show s.setOrdered.clusters = _; unfold Store.setOrdered; split <;> rfl)

theorem storeInv_step (H : SlotMakersPreserve) (s : Store) (op : Op) (h : StoreInv s) :
    StoreInv (step s op) := by
  have h1 := storeInv_stepFull H s op h
  unfold step
  generalize stepFull s op = r at h1 ⊢
  obtain ⟨s', o⟩ := r
  cases o <;> first | exact h1 | exact h

/-- `∀ s, Reachable s → ∀ c ∈ s.clusters, ClusterInv c`, modulo the four slot-making operations -/
theorem storeInv_reachable (H : SlotMakersPreserve) : ∀ s, Reachable s → StoreInv s :=
  reachable_induction storeInv_init (fun s op _ h => storeInv_step H s op h)

/-- served views: on a reachable store `limit_migration` succeeds on every cluster for every limit
and returns a cluster satisfying `ClusterInv` with unchanged epoch, roles and addresses -/
theorem limitMigration_reachable (H : SlotMakersPreserve) (s : Store) (hs : Reachable s) (name : String)
    (cl : Cluster) (hf : s.findCluster name = some cl) (limit : Nat) :
    ∃ cl', limitMigration cl limit = .ok cl' ∧ ClusterInv cl' ∧ cl'.epoch = cl.epoch ∧
      cl'.name = cl.name ∧ cl'.config = cl.config ∧ cl'.chunks.length = cl.chunks.length ∧
      cl'.chunks.map Chunk.addrs = cl.chunks.map Chunk.addrs :=
  limitMigration_spec cl limit ((storeInv_reachable H s hs).find hf)

end Um.Broker
