import UmProofs.BarrierInv
/-!
# C11 — windows during which `count > 0`

`Closed`: the barrier is closed (no sender is between its "not blocking" verdict and the call of
the inner sender).  `QuietW`: additionally nobody is inside `release_all`.
Both are preserved by every step that starts with `count > 0`.
-/
namespace Um.Barrier
open Lists

def Closed (st : State) : Prop :=
  st.sh.count > 0 ∧ st.senders.countP (fun s => inHand s.pc) = 0

theorem not_of_countP_zero {α} (p : α → Bool) (l : List α) (i : Nat) (a : α)
    (h : l[i]? = some a) (h0 : l.countP p = 0) : p a = false := by
  cases hp : p a
  · rfl
  · have := countP_pos_of_getElem? p l i a h hp; omega

theorem closed_step {st t st' o} (hc : Closed st) (hs : step? st t = some (st', o)) :
    o.isHanded = false ∧ (st'.sh.count > 0 → Closed st') := by
  rcases step?_cases hs with ⟨i, s, sh', s', rfl, hi, hst, rfl⟩ | ⟨j, c, sh', c', rfl, hj, hst, rfl⟩
  · have h0 := not_of_countP_zero (fun s : Sender => inHand s.pc) _ i s hi hc.2
    have h1 := stepS_closed hst hc.1 h0
    refine ⟨h1.2, fun hpos => ⟨hpos, ?_⟩⟩
    have h2 := countP_set_add (fun s : Sender => inHand s.pc) st.senders i s s' hi
    simp only [h0, h1.1, b2n_false] at h2
    have := hc.2
    simp only at this ⊢
    omega
  · exact ⟨(stepC_obs hst).1, fun hpos => ⟨hpos, hc.2⟩⟩

theorem inHand_hold (p : SPc) : inHand p = true → 1 ≤ hold p := by
  cases p <;> simp [inHand, hold]

theorem closed_of_running_zero {st : State} (hr : st.sh.running = runningSum st)
    (h0 : st.sh.running = 0) (hc : st.sh.count > 0) : Closed st := by
  refine ⟨hc, ?_⟩
  have := countP_le_sum (fun s : Sender => inHand s.pc) (fun s : Sender => hold s.pc)
    (fun s => hold_nonneg s.pc) (fun s h => inHand_hold s.pc h) st.senders
  simp only [runningSum] at hr
  omega

theorem closed_execWhile {s s' : State} {tr : Trace}
    (h : ExecWhile (fun x => x.sh.count > 0) s tr s') (hc : Closed s) :
    (∀ e ∈ tr, e.2.isHanded = false) ∧ (s'.sh.count > 0 → Closed s') := by
  induction h with
  | nil => exact ⟨by simp, fun _ => hc⟩
  | snoc _ hp hs ih =>
    have h1 := closed_step (ih.2 hp) hs
    refine ⟨?_, h1.2⟩
    intro e he
    rcases List.mem_append.1 he with he | he
    · exact ih.1 e he
    · simp at he; subst he; exact h1.1

/-! ## quiet windows: nobody inside `release_all`, no `stop_blocking` pending -/

def QuietW (st : State) : Prop :=
  st.sh.count > 0 ∧ st.senders.countP (fun s => relS s.pc) = 0 ∧
  st.ctrls.countP (fun c => !quietC c) = 0

theorem quiet_step {st t st' o} (hq : QuietW st) (hb : st.sh.count < U32)
    (hs : step? st t = some (st', o)) :
    o.isAnyRedisp = false ∧ (st'.sh.count > 0 → QuietW st') := by
  obtain ⟨hc, hqs, hqc⟩ := hq
  rcases step?_cases hs with ⟨i, s, sh', s', rfl, hi, hst, rfl⟩ | ⟨j, c, sh', c', rfl, hj, hst, rfl⟩
  · have h0 := not_of_countP_zero (fun s : Sender => relS s.pc) _ i s hi hqs
    have h1 := stepS_rel hst hc h0
    refine ⟨h1.2, fun hpos => ⟨hpos, ?_, hqc⟩⟩
    have h2 := countP_set_add (fun s : Sender => relS s.pc) st.senders i s s' hi
    simp only [h0, h1.1, b2n_false] at h2
    simp only at hqs ⊢
    omega
  · have h0 := not_of_countP_zero (fun c : Ctrl => !quietC c) _ j c hj hqc
    simp only [Bool.not_eq_false'] at h0
    have h1 := stepC_quiet hst hc hb h0
    refine ⟨h1.1, fun hpos => ⟨hpos, hqs, ?_⟩⟩
    have h3 := h1.2 hpos
    have h2 := countP_set_add (fun c : Ctrl => !quietC c) st.ctrls j c c' hj
    simp only [h0, h3, Bool.not_true, b2n_false] at h2
    simp only at hqc ⊢
    omega

/-- executable companion of `ExecWhile` for concrete witnesses -/
def runSchedWhile (P : State → Bool) (st : State) : List Tid → Option (State × Trace)
  | [] => some (st, [])
  | t :: ts =>
    if P st then
      match step? st t with
      | none => none
      | some (st', o) =>
        match runSchedWhile P st' ts with
        | none => none
        | some (st'', tr) => some (st'', (t, o) :: tr)
    else none

theorem ExecWhile.cons {P : State → Prop} {s s1 s' : State} {t o tr} (hp : P s)
    (hs : step? s t = some (s1, o)) (h : ExecWhile P s1 tr s') :
    ExecWhile P s ((t, o) :: tr) s' := by
  induction h with
  | nil => simpa using ExecWhile.snoc (ExecWhile.nil s) hp hs
  | snoc _ hp' hs' ih =>
    have := ExecWhile.snoc ih hp' hs'
    simpa using this

theorem runSchedWhile_exec (P : State → Bool) : ∀ (l : List Tid) (s s' : State) (tr : Trace),
    runSchedWhile P s l = some (s', tr) → ExecWhile (fun x => P x = true) s tr s'
  | [], s, s', tr, h => by
    simp [runSchedWhile] at h; obtain ⟨rfl, rfl⟩ := h; exact ExecWhile.nil _
  | t :: ts, s, s', tr, h => by
    unfold runSchedWhile at h
    split at h
    · rename_i hp
      split at h
      · simp at h
      · rename_i st1 o hs
        split at h
        · simp at h
        · rename_i st2 tr2 hr
          simp at h; obtain ⟨rfl, rfl⟩ := h
          exact ExecWhile.cons hp hs (runSchedWhile_exec P ts st1 st2 tr2 hr)
    · simp at h

theorem ExecWhile.mono {P Q : State → Prop} (hpq : ∀ x, P x → Q x) {s tr s'}
    (h : ExecWhile P s tr s') : ExecWhile Q s tr s' := by
  induction h with
  | nil => exact ExecWhile.nil _
  | snoc _ hp hs ih => exact ExecWhile.snoc ih (hpq _ hp) hs

/-! ## progress -/

theorem stepS_isSome (sh : Shared) (i : Nat) (s : Sender) (h : ∀ r, s.pc ≠ .fin r) :
    (stepS sh i s).isSome = true := by
  unfold stepS
  grind

theorem stepC_isSome (sh : Shared) (c : Ctrl) (h : c.pc ≠ .fin) : (stepC sh c).isSome = true := by
  unfold stepC
  grind

/-! ## the schedule of finding F11a

Controller 0 runs `start; drop`, controller 1 runs `start`, one sender.  `c0` drops its handle
(count 1→0) and is about to `release_all`; `c1` starts the next period (count = 1 from here on);
the sender sees "blocking" and enqueues its task; `c0`'s stale `release_all` pops it and
re-dispatches it although count has been 1 ever since the task was enqueued. -/
def f11aPrefix : List Tid := [.c 0, .c 0, .c 0, .c 0, .c 1, .c 1]
def f11aWindow : List Tid := [.s 0, .s 0, .s 0, .s 0, .c 0, .c 0]
def f11aInit : State := init [(.notBlocking, true)] [[.start, .drop], [.start]]

def f11aCheck : Bool :=
  match runSched f11aInit f11aPrefix with
  | some (s, _) =>
    match runSchedWhile (fun x => decide (x.sh.count > 0)) s f11aWindow with
    | some (_, tr1) => nEnq tr1 0 == 1 && nRedisp tr1 0 == 1
    | none => false
  | none => false

theorem f11a_witness : ∃ s tr0 s' tr1, runSched f11aInit f11aPrefix = some (s, tr0) ∧
    runSchedWhile (fun x => decide (x.sh.count > 0)) s f11aWindow = some (s', tr1) ∧
    nEnq tr1 0 = 1 ∧ nRedisp tr1 0 = 1 := by
  have h : f11aCheck = true := by decide
  unfold f11aCheck at h
  split at h
  · rename_i s tr0 h0
    split at h
    · rename_i s' tr1 h1
      simp only [Bool.and_eq_true, beq_iff_eq] at h
      exact ⟨s, tr0, s', tr1, h0, h1, h.1, h.2⟩
    · cases h
  · cases h

end Um.Barrier
