import UmProofs.BrokerScaleFinal
/-!
# C10 — commit chains with `clear_free_nodes`, and the release of the drained chunks

A chain of successful API commits (any `clear` flags) is a chain of core commits, possibly
followed by one release of the free chunks at its very end (a release needs an idle cluster, and
an idle cluster accepts no further commit).  Releasing the free chunks of a balanced cluster
drops exactly its trailing slot-less chunks and keeps it balanced.
-/
namespace Um.Broker.Scale
open Um Um.Slots Um.Broker

theorem commitMigration_false (s : Store) (name : String) (ranges : RangeList) (e : Nat) (tagNone : Bool) :
    commitMigration s name ranges e tagNone false = commitMigrationCore s name ranges e tagNone := by
  unfold commitMigration
  rcases commitMigrationCore s name ranges e tagNone with ⟨s1, r⟩
  cases r with
  | ok u => cases u; rfl
  | err e => rfl
  | panic w => rfl
  | badChoice w => rfl

/-- no commit succeeds on a cluster without pending entries -/
theorem no_commit_when_idle {s s1 : Store} {name : String} {c : Cluster} (hf : s.findCluster name = some c)
    (hidle : c.migs = []) {ranges : RangeList} {epoch : Nat} {clear : Bool}
    (h : commitMigration s name ranges epoch false clear = (s1, R.ok ())) : False := by
  obtain ⟨_, m, _, _, hm, _⟩ := commit_step hf (commitInv_of_idle hidle) h
  have : Cluster.pending c = [] := by unfold Cluster.pending; rw [hidle]; rfl
  rw [this] at hm; cases hm

theorem commitChain_core {name : String} {s s' : Store} {k : Nat} (hch : CommitChain name s k s')
    {c : Cluster} (hf : s.findCluster name = some c) (hinv : CommitInv c) :
    ∃ s'', CoreChain name s k s'' ∧ (s' = s'' ∨ ∃ cl, Released s'' s' name cl) := by
  induction hch generalizing c with
  | nil s => exact ⟨s, CoreChain.nil s, Or.inl rfl⟩
  | @cons s0 s1 s2 k0 ranges epoch clear h rest ih =>
    -- the core commit succeeded
    have hcore : ∃ sc, commitMigrationCore s0 name ranges epoch false = (sc, R.ok ()) := by
      unfold commitMigration at h
      rcases hc : commitMigrationCore s0 name ranges epoch false with ⟨sc, r⟩
      rw [hc] at h
      cases r with
      | ok u => cases u; exact ⟨sc, rfl⟩
      | err e => simp at h
      | panic w => simp at h
      | badChoice w => simp at h
    obtain ⟨sc, hc⟩ := hcore
    obtain ⟨m, A, dch, B, t, hm, hmig, _, _, hdec, hlen, htm, htr, htmm, hpart, hfc⟩ := core_step hf hinv hc
    obtain ⟨hinvc, _⟩ := commitRes_inv hinv hm hmig hdec htm htr htmm hpart (s0.globalEpoch + 1)
    have hs1 : s1 = sc ∨ ∃ cl, Released sc s1 name cl := by
      unfold commitMigration at h
      rw [hc] at h
      cases clear with
      | false => simp only [Bool.false_eq_true, if_false, Prod.mk.injEq, and_true] at h; exact Or.inl h.symm
      | true =>
        simp only [if_true] at h
        rcases autoDeleteFreeNodesIfExists_cases sc name with ⟨s3, cl3, h3, hrel⟩ | ⟨r, h3⟩
        · rw [h3] at h
          simp only [Prod.mk.injEq, and_true] at h
          subst h
          exact Or.inr ⟨cl3, hrel⟩
        · rw [h3] at h
          simp only [Prod.mk.injEq] at h
          exact Or.inl h.1.symm
    rcases hs1 with rfl | ⟨cl, hrel⟩
    · obtain ⟨s'', hcc, hend⟩ := ih hfc hinvc
      exact ⟨s'', CoreChain.cons ranges epoch hc hcc, hend⟩
    · -- after a release the chain is over
      have hidle := (Cluster.isMigrating_eq_false_iff _).mp hrel.idle
      have hidle' := migs_filter_idle hidle (fun c => !c.isFree) (sc.globalEpoch + 1)
      cases rest with
      | nil => exact ⟨sc, CoreChain.cons ranges epoch hc (CoreChain.nil sc), Or.inr ⟨cl, hrel⟩⟩
      | cons r2 e2 c2 h2 _ => exact absurd (no_commit_when_idle hrel.findCluster hidle' h2) id

/-- releasing the free chunks of a balanced, idle cluster drops exactly the trailing slot-less
chunks -/
theorem release_balanced {c : Cluster} {N : Nat} (hshape : BalancedShape c.chunks N) (hN : 0 < N)
    (hidle : c.migs = []) (e : Nat) :
    ∃ A, c.chunks.filter (fun ch => !ch.isFree) = A ∧ A.length = N ∧ FullChunks (N * 2) A 0 ∧
      Balanced { c with chunks := c.chunks.filter (fun ch => !ch.isFree), epoch := e } := by
  obtain ⟨A, B, hch, hA, hfull, hempty⟩ := hshape
  have hmig : ∀ ch ∈ c.chunks, ch.mig0 = [] ∧ ch.mig1 = [] := by
    intro ch hch'
    unfold Cluster.migs Chunk.migs at hidle
    simpa using List.flatMap_eq_nil_iff.mp hidle ch hch'
  have hfA : A.filter (fun ch => !ch.isFree) = A := by
    apply List.filter_eq_self.mpr
    intro ch hch'
    obtain ⟨j, hj⟩ := List.getElem?_of_mem hch'
    obtain ⟨a, b, e0, _⟩ := fullChunks_get _ A 0 hfull j ch hj
    simp [Chunk.isFree, e0]
  have hfB : B.filter (fun ch => !ch.isFree) = [] := by
    apply List.filter_eq_nil_iff.mpr
    intro ch hch'
    obtain ⟨e0, e1⟩ := hempty ch hch'
    obtain ⟨m0, m1⟩ := hmig ch (by rw [hch]; simp [hch'])
    simp [Chunk.isFree, e0, e1, m0, m1]
  have hfilter : c.chunks.filter (fun ch => !ch.isFree) = A := by
    rw [hch, List.filter_append, hfA, hfB, List.append_nil]
  refine ⟨A, hfilter, hA, hfull, ?_, N, hN, A, [], ?_, hA, hfull, fun _ h => by cases h⟩
  · rw [Cluster.isMigrating_eq_false_iff]
    exact migs_filter_idle hidle _ e
  · show c.chunks.filter (fun ch => !ch.isFree) = A ++ []
    rw [hfilter, List.append_nil]

/-- **any chain of API commits (any order, any `clear` flags) that exhausts the pending tasks of a
cluster carrying a profile ends in a balanced cluster**; if the last commit released the free
chunks, the cluster consists of exactly its `N` balanced chunks -/
theorem commitChain_to_balanced {T : Nat → Nat} {N : Nat} {name : String} {s1 s' : Store} {c1 : Cluster}
    (hf1 : s1.findCluster name = some c1) (hinv : CommitInv c1) (hprof : Profile T N c1)
    (hch : CommitChain name s1 (Cluster.pending c1).length s')
    (hN : 0 < N) (hsz : N * 2 ≤ SLOT_NUM) (hT : ∀ idx, idx < N * 2 → T idx = quota (N * 2) idx) :
    ∃ c', s'.findCluster name = some c' ∧ Balanced c' ∧ BalancedShape c'.chunks N := by
  obtain ⟨s'', hcore, hend⟩ := commitChain_core hch hf1 hinv
  obtain ⟨c2, hf2, hb2, hs2⟩ := chain_to_balanced hf1 hinv hprof hcore hN hsz hT
  rcases hend with rfl | ⟨cl, hrel⟩
  · exact ⟨c2, hf2, hb2, hs2⟩
  · have hcl : cl = c2 := by
      have := hrel.found; rw [hf2] at this; exact (Option.some.inj this).symm
    subst hcl
    have hidle := (Cluster.isMigrating_eq_false_iff _).mp hrel.idle
    obtain ⟨A, hfil, hA, hfull, hbal⟩ := release_balanced hs2 hN hidle (s''.globalEpoch + 1)
    refine ⟨_, hrel.findCluster, hbal, A, [], ?_, hA, hfull, fun _ h => by cases h⟩
    show cl.chunks.filter (fun ch => !ch.isFree) = A ++ []
    rw [hfil, List.append_nil]

end Um.Broker.Scale
