import UmModel.SetMetaConc
import UmProofs.ProxyMeta
/-!
`Um.SetMetaConc`: the actions as an inductive relation, the pool-as-function view of a step, the
ghost log of lock acquisitions and the sequential run it denotes.
-/
namespace Um.SetMetaConc
open Um Um.ProxyMeta

variable {C : Type}

/-- the eight things a caller can do between two scheduling points
(`e sn o` = epoch, snapshot, lock owner before; primed = after) -/
inductive Act (announce : Bytes) (i : Nat) : Nat → C → Option Nat → Caller C → Nat → C → Option Nat → Caller C → Prop
  | hostsOk {e : Nat} {sn : C} {o : Option Nat} {c : Caller C} (hpc : c.pc = .hosts)
      (h : checkHosts announce c.msg.locals = true) : Act announce i e sn o c e sn o { c with pc := .lock }
  | hostsBad {e : Nat} {sn : C} {o : Option Nat} {c : Caller C} (hpc : c.pc = .hosts)
      (h : checkHosts announce c.msg.locals = false) : Act announce i e sn o c e sn o { c with pc := .done .notMyMeta }
  | lock {e : Nat} {sn : C} {o : Option Nat} {c : Caller C} (hpc : c.pc = .lock) (ho : o = none) :
      Act announce i e sn o c e sn (some i) { c with pc := .test }
  | testRej {e : Nat} {sn : C} {o : Option Nat} {c : Caller C} (hpc : c.pc = .test)
      (hf : c.msg.force = false) (h : c.msg.epoch ≤ e) : Act announce i e sn o c e sn none { c with pc := .done .oldEpoch }
  | testPass {e : Nat} {sn : C} {o : Option Nat} {c : Caller C} (hpc : c.pc = .test)
      (h : c.msg.force = true ∨ e < c.msg.epoch) : Act announce i e sn o c e sn o { c with pc := .mapStore }
  | mapStore {e : Nat} {sn : C} {o : Option Nat} {c : Caller C} (hpc : c.pc = .mapStore) :
      Act announce i e sn o c e c.msg.content o { c with pc := .epochStore }
  | epochStore {e : Nat} {sn : C} {o : Option Nat} {c : Caller C} (hpc : c.pc = .epochStore) :
      Act announce i e sn o c c.msg.epoch sn o { c with pc := .unlock }
  | unlock {e : Nat} {sn : C} {o : Option Nat} {c : Caller C} (hpc : c.pc = .unlock) :
      Act announce i e sn o c e sn none { c with pc := .done (if c.cfgOk then .ok else .warn) }

theorem act_iff (announce : Bytes) (i e : Nat) (sn : C) (o : Option Nat) (c : Caller C)
    (e' : Nat) (sn' : C) (o' : Option Nat) (c' : Caller C) :
    act announce i e sn o c = some (e', sn', o', c') ↔ Act announce i e sn o c e' sn' o' c' := by
  constructor
  · intro h
    unfold act at h
    split at h
    · rename_i hpc
      by_cases hh : checkHosts announce c.msg.locals = true
      · rw [if_pos hh] at h
        simp only [Option.some.injEq, Prod.mk.injEq] at h
        obtain ⟨rfl, rfl, rfl, rfl⟩ := h
        exact Act.hostsOk hpc hh
      · rw [if_neg hh] at h
        simp only [Option.some.injEq, Prod.mk.injEq] at h
        obtain ⟨rfl, rfl, rfl, rfl⟩ := h
        exact Act.hostsBad hpc (by simpa using hh)
    · rename_i hpc
      cases o with
      | none =>
        simp only [Option.some.injEq, Prod.mk.injEq] at h
        obtain ⟨rfl, rfl, rfl, rfl⟩ := h
        exact Act.lock hpc rfl
      | some j => simp at h
    · rename_i hpc
      by_cases hr : (notNewer c.msg.epoch e && !c.msg.force) = true
      · rw [if_pos hr] at h
        simp only [Option.some.injEq, Prod.mk.injEq] at h
        obtain ⟨rfl, rfl, rfl, rfl⟩ := h
        simp only [Bool.and_eq_true, Bool.not_eq_true', notNewer_iff] at hr
        exact Act.testRej hpc hr.2 hr.1
      · rw [if_neg hr] at h
        simp only [Option.some.injEq, Prod.mk.injEq] at h
        obtain ⟨rfl, rfl, rfl, rfl⟩ := h
        simp only [Bool.and_eq_true, Bool.not_eq_true', notNewer_iff, not_and] at hr
        refine Act.testPass hpc ?_
        cases hf : c.msg.force
        · right
          rcases Nat.lt_or_ge e c.msg.epoch with hlt | hge
          · exact hlt
          · exact absurd hf (hr hge)
        · left; rfl
    · rename_i hpc
      simp only [Option.some.injEq, Prod.mk.injEq] at h
      obtain ⟨rfl, rfl, rfl, rfl⟩ := h
      exact Act.mapStore hpc
    · rename_i hpc
      simp only [Option.some.injEq, Prod.mk.injEq] at h
      obtain ⟨rfl, rfl, rfl, rfl⟩ := h
      exact Act.epochStore hpc
    · rename_i hpc
      simp only [Option.some.injEq, Prod.mk.injEq] at h
      obtain ⟨rfl, rfl, rfl, rfl⟩ := h
      exact Act.unlock hpc
    · cases h
  · intro h
    cases h with
    | hostsOk hpc h => simp [act, hpc, h]
    | hostsBad hpc h => simp [act, hpc, h]
    | lock hpc ho => subst ho; simp [act, hpc]
    | testRej hpc hf h => simp [act, hpc, hf, (notNewer_iff _ _).mpr h]
    | testPass hpc h =>
      have : (notNewer c.msg.epoch e && !c.msg.force) = false := by
        rcases h with h | h
        · simp [h]
        · have : notNewer c.msg.epoch e = false := by
            cases hl : notNewer c.msg.epoch e
            · rfl
            · have := (notNewer_iff _ _).mp hl; omega
          simp [this]
      simp [act, hpc, this]
    | mapStore hpc => simp [act, hpc]
    | epochStore hpc => simp [act, hpc]
    | unlock hpc => simp [act, hpc]

theorem Act.msg_eq {announce : Bytes} {i e : Nat} {sn : C} {o : Option Nat} {c : Caller C}
    {e' : Nat} {sn' : C} {o' : Option Nat} {c' : Caller C}
    (h : Act announce i e sn o c e' sn' o' c') : c'.msg = c.msg ∧ c'.cfgOk = c.cfgOk := by
  cases h <;> exact ⟨rfl, rfl⟩

/-- the effect of a step on the pool: exactly one index changes -/
theorem step_pool {announce : Bytes} {s s' : Sys C} {l : Label C} (h : step? announce s l = some s') :
    (∃ m b, l = .spawn m b ∧ s'.epoch = s.epoch ∧ s'.snap = s.snap ∧ s'.owner = s.owner ∧
        s'.callers.length = s.callers.length + 1 ∧
        ∀ j, s'.callers[j]? = if j = s.callers.length then some ⟨m, b, .hosts⟩ else s.callers[j]?) ∨
    (∃ (i : Nat) (c c' : Caller C) (e' : Nat) (sn' : C) (o' : Option Nat), l = .run i ∧ s.callers[i]? = some c ∧
        s'.epoch = e' ∧ s'.snap = sn' ∧ s'.owner = o' ∧
        Act announce i s.epoch s.snap s.owner c e' sn' o' c' ∧
        s'.callers.length = s.callers.length ∧
        ∀ j, s'.callers[j]? = if j = i then some c' else s.callers[j]?) := by
  cases l with
  | spawn m b =>
    left
    simp only [step?, Option.some.injEq] at h
    subst h
    refine ⟨m, b, rfl, rfl, rfl, rfl, by simp, ?_⟩
    intro j
    simp only [List.getElem?_append]
    by_cases h1 : j < s.callers.length
    · have : j ≠ s.callers.length := by omega
      simp [h1, this]
    · by_cases h2 : j = s.callers.length
      · simp [h2]
      · have h3 : s.callers.length ≤ j := by omega
        simp only [h1, h2, if_false, List.getElem?_eq_none h3]
        cases hj : j - s.callers.length with
        | zero => omega
        | succ k => simp
  | run i =>
    right
    simp only [step?] at h
    cases hc : s.callers[i]? with
    | none => simp [hc] at h
    | some c =>
      simp only [hc] at h
      cases ha : act announce i s.epoch s.snap s.owner c with
      | none => simp [ha] at h
      | some r =>
        obtain ⟨e', sn', o', c'⟩ := r
        simp only [ha, Option.some.injEq] at h
        subst h
        refine ⟨i, c, c', e', sn', o', rfl, hc, rfl, rfl, rfl, (act_iff _ _ _ _ _ _ _ _ _ _).mp ha, by simp, ?_⟩
        intro j
        have hi : i < s.callers.length := by
          obtain ⟨h, _⟩ := List.getElem?_eq_some_iff.mp hc; exact h
        simp only [List.getElem?_set]
        by_cases hij : i = j
        · subst hij; simp [hi]
        · have : ¬ j = i := fun h => hij h.symm
          simp [hij, this]

/-! ## the ghost log -/

/-- one lock acquisition: (caller index, its message, its `cfgOk`) -/
abbrev Entry (C : Type) := Nat × Meta C × Bool

/-- the commands of a log, in order -/
def cmds (log : List (Entry C)) : List (Option (Meta C × Bool)) := log.map fun t => some (t.2.1, t.2.2)

/-- the sequential machine fed with the log -/
def seqRun (announce : Bytes) (st0 : State C) (log : List (Entry C)) : State C × List Reply :=
  run announce st0 (cmds log)

/-- ghost update: a caller that takes the lock is appended to the log -/
def logStep (s : Sys C) (l : Label C) (log : List (Entry C)) : List (Entry C) :=
  match l with
  | .run i =>
    match s.callers[i]? with
    | some c => if c.pc = .lock ∧ s.owner = none then log ++ [(i, c.msg, c.cfgOk)] else log
    | none => log
  | .spawn _ _ => log

/-- replay with the ghost log -/
def replayG (announce : Bytes) : Sys C → List (Entry C) → List (Label C) → Option (Sys C × List (Entry C))
  | s, log, [] => some (s, log)
  | s, log, l :: ls =>
    match step? announce s l with
    | none => none
    | some s' => replayG announce s' (logStep s l log) ls

theorem replayG_fst {announce : Bytes} (s : Sys C) (log : List (Entry C)) (ls : List (Label C)) :
    (replayG announce s log ls).map (·.1) = replay announce s ls := by
  induction ls generalizing s log with
  | nil => rfl
  | cons l ls ih =>
    simp only [replayG, replay]
    cases step? announce s l with
    | none => rfl
    | some s' => exact ih s' _

theorem seqRun_snoc (announce : Bytes) (st0 : State C) (pre : List (Entry C)) (t : Entry C) :
    seqRun announce st0 (pre ++ [t]) =
      ((handle announce (seqRun announce st0 pre).1 (some (t.2.1, t.2.2))).1,
       (seqRun announce st0 pre).2 ++ [(handle announce (seqRun announce st0 pre).1 (some (t.2.1, t.2.2))).2]) := by
  unfold seqRun cmds
  rw [List.map_append, run_append]
  simp [run]

theorem seqRun_length (announce : Bytes) (st0 : State C) (log : List (Entry C)) :
    (seqRun announce st0 log).2.length = log.length := by
  unfold seqRun cmds
  rw [run_length]; simp

end Um.SetMetaConc
