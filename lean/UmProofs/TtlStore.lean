import UmModel.Ttl
import UmProofs.Decimal
/-!
# C19 — a key with an expiry, a clock, and one transfer of the key (end-to-end layer)

The function-level theorems of `UmProps/C19.lean` speak about the PTTL *reply*. This file puts the
two Redis servers around them: a key is `(data, expiry)` with an absolute expiry time, `PTTL` and
`DUMP` are answered from that record at the times the two pipelined commands execute (the clock
may advance between them — the key may expire in between), and `RESTORE` installs the record on
the destination at a third, later time. What Redis does for `PTTL`, `DUMP` and `RESTORE` is an
assumption of the model (trusted base: the Redis command reference); what the proxy does with the
replies is `scanTransfer` / `pullTransfer`, the functions tied to the code.
-/
namespace Um.Ttl
open Um

/-- a Redis key: payload and absolute expiry time in ms (`none` = persistent) -/
structure KeyRec where
  data : Bytes
  exp : Option Nat
  deriving Repr, DecidableEq

/-- is the key there at time `t` (Redis: a key whose expiry time has been reached is gone) -/
def live (k : Option KeyRec) (t : Nat) : Option KeyRec :=
  match k with
  | none => none
  | some r => match r.exp with
    | none => some r
    | some e => if t < e then some r else none

/-- Redis `PTTL key` at time `t` -/
def redisPttl (k : Option KeyRec) (t : Nat) : Reply :=
  match live k t with
  | none => .integer (intDigits (-2))
  | some r => match r.exp with
    | none => .integer (intDigits (-1))
    | some e => .integer (intDigits ((e - t : Nat) : Int))

/-- Redis `DUMP key` at time `t` -/
def redisDump (k : Option KeyRec) (t : Nat) : Reply :=
  match live k t with
  | none => .nil
  | some r => .bulk r.data

/-- Redis `RESTORE key ttl data` at time `t` on a destination that does not hold the key:
`ttl = 0` creates a persistent key, `ttl > 0` one that expires at `t + ttl`; anything else is
refused (`-ERR`), nothing is created. -/
def redisRestore (ttl data : Bytes) (t : Nat) : Option KeyRec :=
  match btoiI64 ttl with
  | some 0 => some { data := data, exp := none }
  | some (.ofNat (n + 1)) => some { data := data, exp := some (t + (n + 1)) }
  | _ => none

/-- what the destination holds after the proxy acted on a `Transfer` at time `t` -/
def applyTransfer (x : Transfer) (t : Nat) : Option KeyRec :=
  match x with
  | .restore ttl data => redisRestore ttl data t
  | _ => none

/-- scan path / UMSYNC push: `PTTL` executes at `t1`, `DUMP` at `t2 ≥ t1`, `RESTORE` at `t3` -/
def scanMove (k : Option KeyRec) (t1 t2 t3 : Nat) : Option KeyRec :=
  applyTransfer (scanTransfer (redisPttl k t1) (redisDump k t2)) t3

/-- pull path: `DUMP` executes at `t1`, `PTTL` at `t2 ≥ t1`, `RESTORE` at `t3` -/
def pullMove (k : Option KeyRec) (t1 t2 t3 : Nat) : Option KeyRec :=
  applyTransfer (pullTransfer (redisDump k t1) (redisPttl k t2)) t3

/-- the property for one moved key, in absolute time: nothing appears from nothing; a
persistent key arrives persistent with its data; a key that expires at `e` either does not arrive
(it expired on the way) or arrives with its data and an expiry `e'` with `t3 < e'` (a positive
ttl, never persistent) and `e' ≤ e + (t3 - tRead)` — the remaining time is at most what was read
at `tRead`, the expiry is postponed by at most the transfer latency. -/
def MoveOk (k dst : Option KeyRec) (tRead t3 : Nat) : Prop :=
  match live k tRead with
  | none => dst = none
  | some r => match r.exp with
    | none => dst = none ∨ dst = some { data := r.data, exp := none }
    | some e => dst = none ∨ ∃ e', dst = some { data := r.data, exp := some e' } ∧ t3 < e' ∧ e' ≤ e + (t3 - tRead)

theorem intDigits_neg_one : intDigits (-1) = [45, 49] := by
  unfold intDigits natDigits; decide

theorem intDigits_neg_two : intDigits (-2) = [45, 50] := by
  unfold intDigits natDigits; decide

theorem PTTL_KEY_NOT_FOUND_eq : PTTL_KEY_NOT_FOUND = [45, 50] := by decide
theorem PTTL_NO_EXPIRE_eq : PTTL_NO_EXPIRE = [45, 49] := by decide

theorem intDigits_nat_ne_notfound (n : Nat) (h : n ≤ i64Max) : intDigits (n : Int) ≠ PTTL_KEY_NOT_FOUND := by
  intro h'
  have hb := btoiI64_intDigits (n : Int) (by unfold i64NegMax; omega) (by exact_mod_cast h)
  rw [h'] at hb
  have h2 : btoiI64 PTTL_KEY_NOT_FOUND = some (-2) := by decide
  rw [h2] at hb
  injection hb with hb
  omega

theorem intDigits_nat_ne_noexpire (n : Nat) (h : n ≤ i64Max) : intDigits (n : Int) ≠ PTTL_NO_EXPIRE := by
  intro h'
  have hb := btoiI64_intDigits (n : Int) (by unfold i64NegMax; omega) (by exact_mod_cast h)
  rw [h'] at hb
  have h2 : btoiI64 PTTL_NO_EXPIRE = some (-1) := by decide
  rw [h2] at hb
  injection hb with hb
  omega

/-- the ttl argument produced for a positive remaining time reads back as that time -/
theorem btoi_pttlToRestore_pos (n : Nat) (hpos : 0 < n) (h : n ≤ i64Max) :
    btoiI64 (pttlToRestore (intDigits (n : Int))) = some (n : Int) := by
  have hb := btoiI64_intDigits (n : Int) (by unfold i64NegMax; omega) (by exact_mod_cast h)
  have hne := intDigits_nat_ne_noexpire n h
  unfold pttlToRestore pttlNeedNoExpire pttlIsZero
  simp only [hne, if_false, hb]
  have h1 : ¬ ((n : Int) < 0) := by omega
  have h2 : ¬ (n = 0) := by omega
  simp [h1, h2, hb]

theorem pttlToRestore_noexpire : pttlToRestore (intDigits (-1)) = RESTORE_NO_EXPIRE := by
  rw [intDigits_neg_one]; decide

theorem btoi_RESTORE_NO_EXPIRE : btoiI64 RESTORE_NO_EXPIRE = some 0 := by decide

theorem redisRestore_noexpire (d : Bytes) (t : Nat) :
    redisRestore RESTORE_NO_EXPIRE d t = some { data := d, exp := none } := by
  unfold redisRestore; rw [btoi_RESTORE_NO_EXPIRE]

theorem redisRestore_pos (ttl d : Bytes) (t n : Nat) (hpos : 0 < n) (h : btoiI64 ttl = some (n : Int)) :
    redisRestore ttl d t = some { data := d, exp := some (t + n) } := by
  unfold redisRestore
  rw [h]
  obtain ⟨m, rfl⟩ : ∃ m, n = m + 1 := ⟨n - 1, by omega⟩
  rfl

end Um.Ttl

namespace Um.Ttl
open Um

theorem live_some_of_later {k : Option KeyRec} {t1 t2 : Nat} {r : KeyRec} (h12 : t1 ≤ t2)
    (h : live k t2 = some r) : live k t1 = some r := by
  unfold live at *
  cases k with
  | none => simp at h
  | some r0 =>
    simp only at h ⊢
    cases he : r0.exp with
    | none => simp only [he] at h ⊢; exact h
    | some e =>
      simp only [he] at h ⊢
      by_cases hlt : t2 < e
      · simp only [hlt, if_true] at h
        have : t1 < e := by omega
        simp only [this, if_true]; exact h
      · simp only [hlt, if_false] at h; cases h

theorem live_exp {k : Option KeyRec} {t : Nat} {r : KeyRec} {e : Nat} (h : live k t = some r)
    (he : r.exp = some e) : t < e := by
  unfold live at h
  cases k with
  | none => simp at h
  | some r0 =>
    simp only at h
    cases he0 : r0.exp with
    | none => simp only [he0] at h; injection h with h; subst h; rw [he0] at he; cases he
    | some e0 =>
      simp only [he0] at h
      by_cases hlt : t < e0
      · simp only [hlt, if_true] at h; injection h with h; subst h
        rw [he0] at he; injection he with he; omega
      · simp only [hlt, if_false] at h; cases h

/-- the reply pair of the scan path and what it leads to, by cases on the source key -/
theorem scanMove_spec (k : Option KeyRec) (t1 t2 t3 : Nat) (h12 : t1 ≤ t2) (h23 : t2 ≤ t3)
    (hr : ∀ r e, live k t1 = some r → r.exp = some e → e - t1 ≤ i64Max) :
    MoveOk k (scanMove k t1 t2 t3) t1 t3 ∧
    (∀ r, live k t2 = some r → ∃ x, scanMove k t1 t2 t3 = some x ∧ x.data = r.data) := by
  unfold MoveOk scanMove
  cases h1 : live k t1 with
  | none =>
    refine ⟨?_, ?_⟩
    · simp only [redisPttl, h1, intDigits_neg_two]
      cases redisDump k t2 <;> simp [scanTransfer, PTTL_KEY_NOT_FOUND_eq, applyTransfer]
    · intro r h2; rw [live_some_of_later h12 h2] at h1; cases h1
  | some r =>
    cases he : r.exp with
    | none =>
      have hp : redisPttl k t1 = .integer (intDigits (-1)) := by simp [redisPttl, h1, he]
      have hnf : intDigits (-1) ≠ PTTL_KEY_NOT_FOUND := by rw [intDigits_neg_one, PTTL_KEY_NOT_FOUND_eq]; decide
      refine ⟨?_, ?_⟩
      · simp only [he, hp]
        cases h2 : live k t2 with
        | none => left; simp [redisDump, h2, scanTransfer, hnf, applyTransfer]
        | some r2 =>
          have : r2 = r := by have := live_some_of_later h12 h2; rw [h1] at this; injection this with this; exact this.symm
          subst this
          right
          simp [redisDump, h2, scanTransfer, hnf, applyTransfer, pttlToRestore_noexpire, redisRestore_noexpire]
      · intro r2 h2
        have : r2 = r := by have := live_some_of_later h12 h2; rw [h1] at this; injection this with this; exact this.symm
        subst this
        refine ⟨{ data := r2.data, exp := none }, ?_, rfl⟩
        simp [hp, redisDump, h2, scanTransfer, hnf, applyTransfer, pttlToRestore_noexpire, redisRestore_noexpire]
    | some e =>
      have hlt := live_exp h1 he
      have hb := hr r e h1 he
      have hp : redisPttl k t1 = .integer (intDigits ((e - t1 : Nat) : Int)) := by simp [redisPttl, h1, he]
      have hnf := intDigits_nat_ne_notfound (e - t1) hb
      have hbt := btoi_pttlToRestore_pos (e - t1) (by omega) hb
      refine ⟨?_, ?_⟩
      · simp only [he, hp]
        cases h2 : live k t2 with
        | none => left; simp [redisDump, h2, scanTransfer, hnf, applyTransfer]
        | some r2 =>
          have : r2 = r := by have := live_some_of_later h12 h2; rw [h1] at this; injection this with this; exact this.symm
          subst this
          right
          refine ⟨t3 + (e - t1), ?_, by omega, by omega⟩
          simp only [redisDump, h2, scanTransfer, hnf, if_false, applyTransfer]
          exact redisRestore_pos _ _ _ _ (by omega) hbt
      · intro r2 h2
        have : r2 = r := by have := live_some_of_later h12 h2; rw [h1] at this; injection this with this; exact this.symm
        subst this
        refine ⟨{ data := r2.data, exp := some (t3 + (e - t1)) }, ?_, rfl⟩
        simp only [hp, redisDump, h2, scanTransfer, hnf, if_false, applyTransfer]
        exact redisRestore_pos _ _ _ _ (by omega) hbt

/-- the pull path (DUMP at `t1`, PTTL at `t2`): `MoveOk` relative to the PTTL time `t2` -/
theorem pullMove_spec (k : Option KeyRec) (t1 t2 t3 : Nat) (h12 : t1 ≤ t2) (h23 : t2 ≤ t3)
    (hr : ∀ r e, live k t2 = some r → r.exp = some e → e - t2 ≤ i64Max) :
    MoveOk k (pullMove k t1 t2 t3) t2 t3 ∧
    (∀ r, live k t2 = some r → ∃ x, pullMove k t1 t2 t3 = some x ∧ x.data = r.data) := by
  unfold MoveOk pullMove
  cases h2 : live k t2 with
  | none =>
    refine ⟨?_, by intro r h; cases h⟩
    simp only [redisPttl, h2, intDigits_neg_two]
    cases redisDump k t1 <;> simp [pullTransfer, PTTL_KEY_NOT_FOUND_eq, applyTransfer]
  | some r =>
    have h1 := live_some_of_later h12 h2
    have hd : redisDump k t1 = .bulk r.data := by simp [redisDump, h1]
    cases he : r.exp with
    | none =>
      have hp : redisPttl k t2 = .integer (intDigits (-1)) := by simp [redisPttl, h2, he]
      have hnf : intDigits (-1) ≠ PTTL_KEY_NOT_FOUND := by rw [intDigits_neg_one, PTTL_KEY_NOT_FOUND_eq]; decide
      have hres : applyTransfer (pullTransfer (redisDump k t1) (redisPttl k t2)) t3 = some { data := r.data, exp := none } := by
        simp [hd, hp, pullTransfer, hnf, applyTransfer, pttlToRestore_noexpire, redisRestore_noexpire]
      refine ⟨by simp only [he]; exact Or.inr hres, ?_⟩
      intro r2 hr2; injection hr2 with hr2; subst hr2
      exact ⟨_, hres, rfl⟩
    | some e =>
      have hlt := live_exp h2 he
      have hb := hr r e h2 he
      have hp : redisPttl k t2 = .integer (intDigits ((e - t2 : Nat) : Int)) := by simp [redisPttl, h2, he]
      have hnf := intDigits_nat_ne_notfound (e - t2) hb
      have hbt := btoi_pttlToRestore_pos (e - t2) (by omega) hb
      have hres : applyTransfer (pullTransfer (redisDump k t1) (redisPttl k t2)) t3 =
          some { data := r.data, exp := some (t3 + (e - t2)) } := by
        simp only [hd, hp, pullTransfer, ne_eq, hnf, not_false_eq_true, if_true, applyTransfer]
        exact redisRestore_pos _ _ _ _ (by omega) hbt
      refine ⟨by simp only [he]; exact Or.inr ⟨t3 + (e - t2), hres, by omega, by omega⟩, ?_⟩
      intro r2 hr2; injection hr2 with hr2; subst hr2
      exact ⟨_, hres, rfl⟩

end Um.Ttl
