import UmProofs.BrokerSlotsCommitBase
/-!
# C01: chunk lists related entry-by-entry (`MapRel`)

Operations that never touch slots (failover, rebalancing, config, epochs) leave the stable lists
alone and map every stored migration entry through one function `f` that keeps ranges, direction
and positions and rewrites the meta through a function `φ` of the meta alone. Such a relation
preserves `InvL`.
-/
namespace Um.Broker
open Um Um.Slots

/-- pointwise relation of two lists -/
inductive All2 {α β} (R : α → β → Prop) : List α → List β → Prop
  | nil : All2 R [] []
  | cons {a b l l'} : R a b → All2 R l l' → All2 R (a :: l) (b :: l')

theorem All2.refl {α} {R : α → α → Prop} (hr : ∀ a, R a a) : ∀ l, All2 R l l
  | [] => .nil
  | a :: t => .cons (hr a) (All2.refl hr t)

theorem All2.length_eq {α β} {R : α → β → Prop} {l : List α} {l' : List β} (h : All2 R l l') :
    l'.length = l.length := by
  induction h with
  | nil => rfl
  | cons _ _ ih => simp [ih]

theorem All2.get {α β} {R : α → β → Prop} {l : List α} {l' : List β} (h : All2 R l l') :
    ∀ (i : Nat) (a : α) (b : β), l[i]? = some a → l'[i]? = some b → R a b := by
  induction h with
  | nil => intro i a b h1; simp at h1
  | cons hr _ ih =>
    intro i a b h1 h2
    cases i with
    | zero => simp at h1 h2; subst h1; subst h2; exact hr
    | succ j => simp at h1 h2; exact ih j a b h1 h2

theorem All2.mem_right {α β} {R : α → β → Prop} {l : List α} {l' : List β} (h : All2 R l l') :
    ∀ b ∈ l', ∃ a ∈ l, R a b := by
  induction h with
  | nil => intro b hb; cases hb
  | cons hr _ ih =>
    intro b hb
    simp only [List.mem_cons] at hb
    rcases hb with hb | hb
    · subst hb; exact ⟨_, by simp, hr⟩
    · obtain ⟨a, ha, hab⟩ := ih b hb
      exact ⟨a, by simp [ha], hab⟩

theorem All2.map_right {α β γ} {R : α → β → Prop} {S : α → γ → Prop} {l : List α} {l' : List β}
    (g : β → γ) (h : All2 R l l') (himp : ∀ a b, R a b → S a (g b)) : All2 S l (l'.map g) := by
  induction h with
  | nil => exact .nil
  | cons hr _ ih => exact .cons (himp _ _ hr) ih

theorem All2.of_map {α β} {R : α → β → Prop} (g : α → β) (l : List α) (h : ∀ a, R a (g a)) :
    All2 R l (l.map g) := by
  induction l with
  | nil => exact .nil
  | cons a t ih => exact .cons (h a) ih

/-- `c'` is `c` with the same stable lists and every entry mapped through `f` -/
def MapRel (f : MigStore → MigStore) (c c' : Chunk) : Prop :=
  c'.stable0 = c.stable0 ∧ c'.stable1 = c.stable1 ∧ c'.mig0 = c.mig0.map f ∧ c'.mig1 = c.mig1.map f

/-- `f` keeps ranges, direction and positions; the new meta is a function of the old meta -/
structure MetaMap (f : MigStore → MigStore) (φ : MigMeta → MigMeta) : Prop where
  ranges : ∀ m, (f m).ranges = m.ranges
  isMig : ∀ m, (f m).isMigrating = m.isMigrating
  mm : ∀ m, (f m).mm = φ m.mm
  srcChunk : ∀ k, (φ k).srcChunk = k.srcChunk
  srcPart : ∀ k, (φ k).srcPart = k.srcPart
  dstChunk : ∀ k, (φ k).dstChunk = k.dstChunk
  dstPart : ∀ k, (φ k).dstPart = k.dstPart

theorem metaMap_id : MetaMap id id :=
  ⟨fun _ => rfl, fun _ => rfl, fun _ => rfl, fun _ => rfl, fun _ => rfl, fun _ => rfl, fun _ => rfl⟩

section
variable {f : MigStore → MigStore} {φ : MigMeta → MigMeta}

theorem MapRel.migs {c c' : Chunk} (h : MapRel f c c') : c'.migs = c.migs.map f := by
  simp [Chunk.migs, h.2.2.1, h.2.2.2]

theorem MapRel.stableSlots {c c' : Chunk} (h : MapRel f c c') : c'.stableSlots = c.stableSlots := by
  simp [Chunk.stableSlots, Chunk.stables, h.1, h.2.1]

theorem migsOf_of_mapRel {cs cs' : List Chunk} (h : All2 (MapRel f) cs cs') :
    migsOf cs' = (migsOf cs).map f := by
  induction h with
  | nil => rfl
  | cons hr _ ih => simp [ih, hr.migs]

theorem stableSlotsOf_of_mapRel {cs cs' : List Chunk} (h : All2 (MapRel f) cs cs') :
    stableSlotsOf cs' = stableSlotsOf cs := by
  induction h with
  | nil => rfl
  | cons hr _ ih => simp [ih, hr.stableSlots]

theorem outs_map (hf : MetaMap f φ) (l : List MigStore) : outs (l.map f) = (outs l).map f := by
  unfold outs
  rw [List.filter_map]
  congr 1
  apply List.filter_congr
  intro m _
  simp [hf.isMig]

theorem ins_map (hf : MetaMap f φ) (l : List MigStore) : ins (l.map f) = (ins l).map f := by
  unfold ins
  rw [List.filter_map]
  congr 1
  apply List.filter_congr
  intro m _
  simp [hf.isMig]

theorem keys_map (hf : MetaMap f φ) (l : List MigStore) :
    keys (l.map f) = (keys l).map fun k => (k.1, φ k.2) := by
  simp [keys, MigStore.key, hf.ranges, hf.mm]

theorem outSlots_map (hf : MetaMap f φ) (l : List MigStore) : outSlots (l.map f) = outSlots l := by
  unfold outSlots
  rw [outs_map hf]
  induction outs l with
  | nil => rfl
  | cons m t ih => simp [ih, hf.ranges]

theorem PosChunk.of_mapRel (hf : MetaMap f φ) {n i : Nat} {c c' : Chunk} (h : MapRel f c c')
    (hp : PosChunk n i c) : PosChunk n i c' := by
  refine ⟨?_, ?_, ?_⟩
  · intro m hm
    rw [h.2.2.1] at hm
    obtain ⟨m0, hm0, rfl⟩ := List.mem_map.mp hm
    have := hp.1 m0 hm0
    simpa [hf.isMig, hf.mm, hf.srcChunk, hf.srcPart, hf.dstChunk, hf.dstPart] using this
  · intro m hm
    rw [h.2.2.2] at hm
    obtain ⟨m0, hm0, rfl⟩ := List.mem_map.mp hm
    have := hp.2.1 m0 hm0
    simpa [hf.isMig, hf.mm, hf.srcChunk, hf.srcPart, hf.dstChunk, hf.dstPart] using this
  · intro m hm
    rw [h.migs] at hm
    obtain ⟨m0, hm0, rfl⟩ := List.mem_map.mp hm
    have := hp.2.2 m0 hm0
    simpa [hf.mm, hf.srcChunk, hf.srcPart, hf.dstChunk, hf.dstPart] using this

theorem NormChunk.of_mapRel (hf : MetaMap f φ) {c c' : Chunk} (h : MapRel f c c')
    (hn : NormChunk c) : NormChunk c' := by
  refine ⟨?_, ?_⟩
  · intro rl hrl
    apply hn.1 rl
    simpa [Chunk.stables, h.1, h.2.1] using hrl
  · intro m hm
    rw [h.migs] at hm
    obtain ⟨m0, hm0, rfl⟩ := List.mem_map.mp hm
    rw [hf.ranges]
    exact hn.2 m0 hm0

/-- **`InvL` is preserved by any entry-wise meta rewrite** -/
theorem InvL.of_mapRel (hf : MetaMap f φ) {cs cs' : List Chunk} (h : All2 (MapRel f) cs cs')
    (hinv : InvL cs) : InvL cs' := by
  obtain ⟨hpos, htwin, hnorm, hperm⟩ := hinv
  have hm := migsOf_of_mapRel h
  have hnorm' : NormL cs' := by
    intro c' hc'
    obtain ⟨c, hc, hr⟩ := h.mem_right c' hc'
    exact (hnorm c hc).of_mapRel hf hr
  have hslot' : SlotL cs' := by
    refine ⟨hnorm', ?_⟩
    refine (ownedOf_perm cs').trans ?_
    rw [hm, outSlots_map hf, stableSlotsOf_of_mapRel h]
    exact (ownedOf_perm cs).symm.trans hperm
  refine ⟨?_, ⟨?_, hslot'.nodup_ekey⟩, hslot'⟩
  · intro i c' hi
    have hlt : i < cs.length := by
      have := (List.getElem?_eq_some_iff.mp hi).1; have := h.length_eq; omega
    have hc : cs[i]? = some cs[i] := List.getElem?_eq_getElem hlt
    rw [h.length_eq]
    exact (hpos i _ hc).of_mapRel hf (h.get i _ _ hc hi)
  · rw [hm, outs_map hf, ins_map hf, keys_map hf, keys_map hf]
    exact htwin.1.map _

end

/-- a cluster whose chunk list is `MapRel`-related to an invariant one is invariant -/
theorem ClusterInv.of_mapRel {f : MigStore → MigStore} {φ : MigMeta → MigMeta} (hf : MetaMap f φ)
    {cl cl' : Cluster} (h : All2 (MapRel f) cl.chunks cl'.chunks) (hinv : ClusterInv cl) : ClusterInv cl' :=
  (clusterInv_iff cl').mpr (((clusterInv_iff cl).mp hinv).of_mapRel hf h)

theorem MapRel.id_of_eq {c c' : Chunk} (h0 : c'.stable0 = c.stable0) (h1 : c'.stable1 = c.stable1)
    (h2 : c'.mig0 = c.mig0) (h3 : c'.mig1 = c.mig1) : MapRel id c c' :=
  ⟨h0, h1, by simp [h2], by simp [h3]⟩

end Um.Broker
