import UmProofs.BrokerSlotsPlanH
/-!
# C01, planning layer — `autoChangeNodeNumber` and the `step`-level summary

`PlanBound s` is the visible size hypothesis: every cluster has at most `SLOT_NUM` masters.
For each planning `Op` constructor: if all clusters of `s` satisfy `CInv` (and the bound holds
where needed) then all clusters of `step s op` satisfy `CInv`.
`autoChangeNodeNumber` first runs `autoDeleteFreeNodes` (proved by the commit layer); its
preservation is a hypothesis here.
-/
namespace Um.Broker.Plan
open Um Um.Slots Um.Broker

/-- every cluster has at most `SLOT_NUM` masters -/
def PlanBound (s : Store) : Prop := ∀ c ∈ s.clusters, c.chunks.length * 2 ≤ SLOT_NUM

def AllCInv (s : Store) : Prop := ∀ c ∈ s.clusters, CInv c

/-- **`auto_change_node_number`**, given that `auto_delete_free_nodes` keeps the invariants -/
theorem autoChangeNodeNumber_inv (s : Store) (name : String) (expected : Nat) (choice : List (String × String))
    (h : AllCInv s) (hdel : AllCInv (autoDeleteFreeNodes s name).1) :
    AllCInv (autoChangeNodeNumber s name expected choice).1 := by
  unfold autoChangeNodeNumber
  split
  · exact h
  split
  · exact h
  split
  · exact h
  generalize autoDeleteFreeNodes s name = d at hdel
  obtain ⟨s1, r1⟩ := d
  have hup := autoScaleUpNodes_inv s1 name expected choice hdel
  have hdown := migrateSlotsToScaleDown_inv s1 name expected hdel
  dsimp only
  split
  · split
    · exact hdel
    · split
      · exact hdel
      · split
        · split <;> (rename_i heq; rw [heq] at hup; exact hup)
        · split <;> (rename_i heq; rw [heq] at hdown; exact hdown)
  · split
    · exact hdel
    · split
      · exact hdel
      · split
        · split <;> (rename_i heq; rw [heq] at hup; exact hup)
        · split <;> (rename_i heq; rw [heq] at hdown; exact hdown)
  · exact hdel
  · exact hdel
  · exact hdel

/-! ## `step` -/

theorem step_cases (s : Store) (op : Op) : step s op = (stepFull s op).1 ∨ step s op = s := by
  unfold step
  split
  · rename_i h; left; rw [h]
  · rename_i h; left; rw [h]
  · right; rfl
  · right; rfl

theorem allCInv_step {s : Store} {op : Op} (h : AllCInv s) (hf : AllCInv (stepFull s op).1) :
    AllCInv (step s op) := by
  rcases step_cases s op with h1 | h1 <;> rw [h1]
  · exact hf
  · exact h

/-- `add_cluster`: the size bound is needed for the *new* cluster, so it is asked of the result -/
theorem step_addCluster_inv (s : Store) (name : String) (nodeNum : Nat) (choice : List (String × String))
    (h : AllCInv s) (hb : PlanBound (step s (.addCluster name nodeNum choice))) :
    AllCInv (step s (.addCluster name nodeNum choice)) := by
  rcases step_cases s (.addCluster name nodeNum choice) with h1 | h1
  · intro c hc
    have hc' := hc
    rw [h1] at hc'
    rcases addCluster_clusters s name nodeNum defaultConfig choice c hc' with h2 | h2
    · exact h c h2
    · exact h2 (hb c hc)
  · rw [h1]; exact h

theorem step_addNodes_inv (s : Store) (name : String) (num : Nat) (choice : List (String × String))
    (h : AllCInv s) : AllCInv (step s (.addNodes name num choice)) :=
  allCInv_step h (autoAddNodes_inv s name num choice h)

theorem step_scaleUp_inv (s : Store) (name : String) (expected : Nat) (choice : List (String × String))
    (h : AllCInv s) : AllCInv (step s (.scaleUp name expected choice)) :=
  allCInv_step h (autoScaleUpNodes_inv s name expected choice h)

theorem step_migrate_inv (s : Store) (name : String) (h : AllCInv s) (hb : PlanBound s) :
    AllCInv (step s (.migrate name)) :=
  allCInv_step h (migrateSlots_inv s name h hb)

theorem step_scaleOutNum_inv (s : Store) (name : String) (expected : Nat) (h : AllCInv s) (hb : PlanBound s) :
    AllCInv (step s (.scaleOutNum name expected)) :=
  allCInv_step h (autoScaleOutNodeNumber_inv s name expected h hb)

theorem step_scaleDown_inv (s : Store) (name : String) (newNodeNum : Nat) (h : AllCInv s) :
    AllCInv (step s (.scaleDown name newNodeNum)) :=
  allCInv_step h (migrateSlotsToScaleDown_inv s name newNodeNum h)

theorem step_changeNum_inv (s : Store) (name : String) (expected : Nat) (choice : List (String × String))
    (h : AllCInv s) (hdel : AllCInv (autoDeleteFreeNodes s name).1) :
    AllCInv (step s (.changeNum name expected choice)) :=
  allCInv_step h (autoChangeNodeNumber_inv s name expected choice h hdel)

end Um.Broker.Plan
