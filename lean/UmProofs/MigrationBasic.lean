import UmModel.Migration
import UmProofs.MigrationDefs
/-! Basic lemmas about the migration model: op identifiers, `setPc`, `guard`. -/
namespace Um.Mig

def ids (s : Sys) : List OpId := s.ops.map (·.id)

/-- op identifiers are unique -/
def WF (s : Sys) : Prop := (ids s).Nodup

theorem ids_setPc (s : Sys) (id : OpId) (pc : Pc) : ids (setPc s id pc) = ids s := by
  simp only [ids, setPc, List.map_map]
  apply List.map_congr_left
  intro o _
  by_cases h : o.id = id <;> simp [h]

theorem findOp_none_iff (s : Sys) (id : OpId) : findOp s id = none ↔ id ∉ ids s := by
  simp [findOp, ids, List.find?_eq_none]

theorem findOp_some {s : Sys} {id : OpId} {o : Op} (h : findOp s id = some o) : o ∈ s.ops ∧ o.id = id := by
  unfold findOp at h
  have h1 := List.mem_of_find?_eq_some h
  have h2 := List.find?_some h
  exact ⟨h1, by simpa using h2⟩

theorem guard_some {b : Bool} {s s' : Sys} (h : guard b s = some s') : b = true ∧ s' = s := by
  unfold guard at h
  by_cases hb : b = true
  · simp [hb] at h; exact ⟨hb, h.symm⟩
  · simp [hb] at h

@[simp] theorem ids_setCrit (s : Sys) (id : OpId) (pc : CritPc) : ids (setCrit s id pc) = ids s := rfl

theorem ids_route (s : Sys) (id : OpId) (c : Cmd) (p : Proxy) : ids (route s id c p) = ids s := by
  unfold route
  cases p <;> simp only <;> (repeat' split) <;> simp [ids_setPc]

theorem eq_of_id_eq_aux : ∀ (l : List Op), (l.map (·.id)).Nodup → ∀ a ∈ l, ∀ b ∈ l, a.id = b.id → a = b
  | [], _, a, ha, _, _, _ => by simp at ha
  | x :: l, h, a, ha, b, hb, e => by
    simp only [List.map_cons, List.nodup_cons, List.mem_map, not_exists, not_and] at h
    simp only [List.mem_cons] at ha hb
    rcases ha with rfl | ha <;> rcases hb with rfl | hb
    · rfl
    · exact absurd e.symm (h.1 b hb)
    · exact absurd e (h.1 a ha)
    · exact eq_of_id_eq_aux l h.2 a ha b hb e

/-- identifiers determine ops -/
theorem eq_of_id_eq {s : Sys} (h : WF s) {a b : Op} (ha : a ∈ s.ops) (hb : b ∈ s.ops) (e : a.id = b.id) : a = b :=
  eq_of_id_eq_aux s.ops h a ha b hb e

theorem wf_setPc {s : Sys} (h : WF s) (id : OpId) (pc : Pc) : WF (setPc s id pc) := by
  unfold WF; rw [ids_setPc]; exact h

theorem wf_route {s : Sys} (h : WF s) (id : OpId) (c : Cmd) (p : Proxy) : WF (route s id c p) := by
  unfold WF; rw [ids_route]; exact h

theorem wf_removeOp {s : Sys} (h : WF s) (id : OpId) : WF (removeOp s id) := by
  unfold WF ids removeOp at *
  simp only
  exact (List.filter_sublist.map _).nodup h

/-- every command of the model that can delete its key is classified as blocking
(`requires_blocking_migration`, generated table): it takes the UMSYNC push path -/
theorem deletes_blocking (c : Cmd) : c.deletes = true → c.blocking = true := by
  cases c <;> simp [Cmd.deletes] <;> decide +kernel

end Um.Mig
