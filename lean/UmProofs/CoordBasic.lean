import UmModel.Coordinator
/-!
# C07 — basic facts about one proxy process and about `exec`

`PLe p q`: `q` is a later state of the same process `p` in which neither the cluster map nor the
replication map was replaced by one with a smaller or equal epoch.
-/
namespace Um.Coord
open Um Um.Broker

/-- "never replaced by an older or equally old version" between two states of one process -/
structure PLe (p q : PState) : Prop where
  addr : q.addr = p.addr
  host : q.host = p.host
  epoch : p.epoch ≤ q.epoch
  same : q.epoch = p.epoch → q.cmeta = p.cmeta
  repl : p.replEpoch ≤ q.replEpoch
  replSame : q.replEpoch = p.replEpoch → q.repl = p.repl
  up : q.up = p.up
  /-- no call makes a proxy report a migration task as finished that it did not report before -/
  fin : ∀ t, t ∈ q.finished → t ∈ p.finished

theorem PLe.refl (p : PState) : PLe p p :=
  ⟨rfl, rfl, Nat.le_refl _, fun _ => rfl, Nat.le_refl _, fun _ => rfl, rfl, fun _ h => h⟩

theorem PLe.trans {p q r : PState} (h1 : PLe p q) (h2 : PLe q r) : PLe p r := by
  refine ⟨h2.addr.trans h1.addr, h2.host.trans h1.host, Nat.le_trans h1.epoch h2.epoch, ?_,
    Nat.le_trans h1.repl h2.repl, ?_, h2.up.trans h1.up, fun t ht => h1.fin t (h2.fin t ht)⟩
  · intro h
    have e1 : q.epoch = p.epoch := by have := h1.epoch; have := h2.epoch; omega
    have e2 : r.epoch = q.epoch := by omega
    rw [h2.same e2, h1.same e1]
  · intro h
    have e1 : q.replEpoch = p.replEpoch := by have := h1.repl; have := h2.repl; omega
    have e2 : r.replEpoch = q.replEpoch := by omega
    rw [h2.replSame e2, h1.replSame e1]

/-! ## the install rules -/

theorem setCluster_cases (p : PState) (e : Nat) (force : Bool) (m : CMeta) :
    ((p.setCluster e force m).1 = p ∧ (p.setCluster e force m).2 ≠ .ok) ∨
    ((p.setCluster e force m).2 = .ok ∧ hostsOk p.host m = true ∧ (force = true ∨ p.epoch < e) ∧
      (p.setCluster e force m).1 = { p with epoch := e, cmeta := m, tasks := carryTasks p.tasks m }) := by
  unfold PState.setCluster
  by_cases h1 : hostsOk p.host m = true
  · by_cases h2 : (decide (e ≤ p.epoch) && !force) = true
    · left; simp [h1, h2]
    · right
      simp only [h1, Bool.not_true, Bool.false_eq_true, if_false, h2, true_and, and_true]
      simp only [Bool.and_eq_true, decide_eq_true_eq, Bool.not_eq_true', not_and, Bool.not_eq_false] at h2
      by_cases hf : force = true
      · exact Or.inl hf
      · right
        have : ¬ e ≤ p.epoch := fun hle => hf (h2 hle)
        omega
  · left; simp [h1]

theorem setRepl_cases (p : PState) (e : Nat) (force : Bool) (r : RMeta) :
    ((p.setRepl e force r).1 = p ∧ (p.setRepl e force r).2 ≠ .ok) ∨
    ((p.setRepl e force r).2 = .ok ∧ replHostsOk p.host r = true ∧ (force = true ∨ p.replEpoch < e) ∧
      (p.setRepl e force r).1 = { p with replEpoch := e, repl := r }) := by
  unfold PState.setRepl
  by_cases h1 : replHostsOk p.host r = true
  · by_cases h2 : (!force && decide (p.replEpoch ≥ e)) = true
    · left; simp [h1, h2]
    · right
      simp only [h1, Bool.not_true, Bool.false_eq_true, if_false, h2, true_and, and_true]
      simp only [Bool.and_eq_true, Bool.not_eq_true', decide_eq_true_eq, not_and] at h2
      by_cases hf : force = true
      · exact Or.inl hf
      · right
        have hff : force = false := by cases force <;> simp_all
        have := h2 hff
        omega
  · left; simp [h1]

theorem carryTasks_finished (old : List (Task × Bool)) (m : CMeta) (t : Task)
    (h : t ∈ ((carryTasks old m).filter (·.2)).map (·.1)) : t ∈ (old.filter (·.2)).map (·.1) := by
  simp only [carryTasks, List.mem_map, List.mem_filter] at h ⊢
  obtain ⟨⟨t', f⟩, ⟨⟨t0, _, heq⟩, hf⟩, ht⟩ := h
  simp only at ht hf
  subst ht
  injection heq with h1 h2
  subst h1
  rw [hf] at h2
  cases hfind : old.find? (fun e => e.1 == t0) with
  | none => rw [hfind] at h2; simp at h2
  | some e =>
    rw [hfind] at h2
    simp only [Option.map_some, Option.getD_some] at h2
    have hmem := List.mem_of_find?_eq_some hfind
    have hk := List.find?_some hfind
    simp only [beq_iff_eq] at hk
    exact ⟨e, ⟨hmem, h2⟩, hk⟩

/-- the coordinator's `SETCLUSTER` (never forced) respects `PLe` -/
theorem setCluster_le (p : PState) (e : Nat) (m : CMeta) : PLe p (p.setCluster e false m).1 := by
  rcases setCluster_cases p e false m with ⟨h, _⟩ | ⟨_, _, h3, h4⟩
  · rw [h]; exact PLe.refl p
  · rw [h4]
    rcases h3 with h3 | h3
    · cases h3
    · exact ⟨rfl, rfl, Nat.le_of_lt h3, fun h => by simp at h; omega, Nat.le_refl _, fun _ => rfl, rfl,
        fun t ht => carryTasks_finished p.tasks m t ht⟩

theorem setRepl_le (p : PState) (e : Nat) (r : RMeta) : PLe p (p.setRepl e false r).1 := by
  rcases setRepl_cases p e false r with ⟨h, _⟩ | ⟨_, _, h3, h4⟩
  · rw [h]; exact PLe.refl p
  · rw [h4]
    rcases h3 with h3 | h3
    · cases h3
    · exact ⟨rfl, rfl, Nat.le_refl _, fun _ => rfl, Nat.le_of_lt h3, fun h => by simp at h; omega, rfl, fun _ h => h⟩

theorem setCluster_addr (p : PState) (e : Nat) (f : Bool) (m : CMeta) : (p.setCluster e f m).1.addr = p.addr := by
  unfold PState.setCluster
  split
  · rfl
  · split <;> rfl

theorem setRepl_addr (p : PState) (e : Nat) (f : Bool) (r : RMeta) : (p.setRepl e f r).1.addr = p.addr := by
  unfold PState.setRepl
  split
  · rfl
  · split <;> rfl

/-! ## lookup / update of processes -/

theorem find?_map_update (l : List PState) (q : PState) (a : String) :
    (l.map fun x => if x.addr == q.addr then q else x).find? (·.addr == a) =
      if q.addr == a then (l.find? (·.addr == a)).map (fun _ => q) else l.find? (·.addr == a) := by
  induction l with
  | nil => simp
  | cons x xs ih =>
    simp only [List.map_cons, List.find?_cons]
    by_cases hx : (x.addr == q.addr) = true
    · have hxq : x.addr = q.addr := by simpa using hx
      simp only [hx, if_true]
      by_cases hq : (q.addr == a) = true
      · have : (x.addr == a) = true := by rw [hxq]; exact hq
        simp [hq, this]
      · have : (x.addr == a) = false := by rw [hxq]; simpa using hq
        simp only [hq, this]
        rw [ih]; simp [hq]
    · simp only [hx, Bool.false_eq_true, if_false]
      by_cases hxa : (x.addr == a) = true
      · simp only [hxa, if_true]
        by_cases hq : (q.addr == a) = true
        · exfalso
          have h1 : x.addr = a := by simpa using hxa
          have h2 : q.addr = a := by simpa using hq
          exact hx (by simp [h1, h2])
        · simp [hq]
      · simp only [hxa, Bool.false_eq_true, if_false]
        exact ih

theorem findP_setP (s : Sys) (q : PState) (a : String) :
    (s.setP q).findP a = if q.addr == a then (s.findP a).map (fun _ => q) else s.findP a := by
  unfold Sys.setP Sys.findP
  exact find?_map_update s.proxies q a

theorem findP_addr {s : Sys} {a : String} {p : PState} (h : s.findP a = some p) : p.addr = a := by
  unfold Sys.findP at h
  have := List.find?_some h
  simpa using this

/-- `s'` has the same processes as `s`, each in a `PLe`-later state -/
def Sys.le (s s' : Sys) : Prop :=
  (∀ a p, s.findP a = some p → ∃ p', s'.findP a = some p' ∧ PLe p p') ∧
  (∀ a p', s'.findP a = some p' → ∃ p, s.findP a = some p)

theorem Sys.le_refl (s : Sys) : Sys.le s s := ⟨fun _ p h => ⟨p, h, PLe.refl p⟩, fun _ p h => ⟨p, h⟩⟩

theorem Sys.le_trans {s t u : Sys} (h1 : Sys.le s t) (h2 : Sys.le t u) : Sys.le s u := by
  refine ⟨?_, ?_⟩
  · intro a p hp
    obtain ⟨q, hq, hpq⟩ := h1.1 a p hp
    obtain ⟨r, hr, hqr⟩ := h2.1 a q hq
    exact ⟨r, hr, hpq.trans hqr⟩
  · intro a r hr
    obtain ⟨q, hq⟩ := h2.2 a r hr
    exact h1.2 a q hq

theorem Sys.le_of_proxies_eq {s s' : Sys} (h : s'.proxies = s.proxies) : Sys.le s s' := by
  have e : ∀ a, s'.findP a = s.findP a := by intro a; unfold Sys.findP; rw [h]
  exact ⟨fun a p hp => ⟨p, by rw [e a]; exact hp, PLe.refl p⟩, fun a p' hp' => ⟨p', by rw [← e a]; exact hp'⟩⟩

/-- updating one process by a `PLe`-later state -/
theorem Sys.le_setP {s : Sys} {p q : PState} {a : String} (hp : s.findP a = some p) (hq : PLe p q) :
    Sys.le s (s.setP q) := by
  have hqa : q.addr = a := by rw [hq.addr]; exact findP_addr hp
  refine ⟨?_, ?_⟩
  · intro b r hr
    rw [findP_setP]
    by_cases hb : (q.addr == b) = true
    · have : a = b := by rw [← hqa]; simpa using hb
      subst this
      rw [hp] at hr; cases hr
      exact ⟨q, by simp [hb, hp], hq⟩
    · exact ⟨r, by simp [hb, hr], PLe.refl r⟩
  · intro b r hr
    rw [findP_setP] at hr
    by_cases hb : (q.addr == b) = true
    · have : a = b := by rw [← hqa]; simpa using hb
      subst this
      exact ⟨p, hp⟩
    · simp only [hb, Bool.false_eq_true, if_false] at hr
      exact ⟨r, hr⟩

/-- the later state of a process is determined: `PLe` between the two lookups -/
theorem Sys.le_find {s s' : Sys} (h : Sys.le s s') {a : String} {p' : PState} (hp' : s'.findP a = some p') :
    ∃ p, s.findP a = some p ∧ PLe p p' := by
  obtain ⟨p, hp⟩ := h.2 a p' hp'
  obtain ⟨q, hq, hle⟩ := h.1 a p hp
  rw [hp'] at hq; cases hq
  exact ⟨p, hp, hle⟩

/-! ## `exec` -/

/-- a delivered call changes no process except by the (unforced) install rules -/
theorem exec_le (s : Sys) (c : Call) (ch : String) : Sys.le s (exec s c ch).1 := by
  cases c with
  | clusterNames off => exact Sys.le_refl s
  | cluster name =>
    simp only [exec]; split <;> exact Sys.le_refl s
  | proxyAddrs off => exact Sys.le_refl s
  | failedProxies => exact Sys.le_refl s
  | getProxy a =>
    simp only [exec]
    split
    · exact Sys.le_of_proxies_eq rfl
    · exact Sys.le_refl s
    · exact Sys.le_refl s
  | addFailure a r => exact Sys.le_of_proxies_eq rfl
  | getFailures => exact Sys.le_refl s
  | replaceProxy a =>
    simp only [exec]
    split <;> exact Sys.le_of_proxies_eq rfl
  | commit t =>
    simp only [exec]
    split
    · exact Sys.le_of_proxies_eq rfl
    · split
      · exact Sys.le_of_proxies_eq rfl
      · split <;> exact Sys.le_of_proxies_eq rfl
    · exact Sys.le_of_proxies_eq rfl
  | connect a =>
    simp only [exec]
    split
    · split <;> exact Sys.le_refl s
    · exact Sys.le_refl s
  | setRepl a e r =>
    simp only [exec]
    split
    · rename_i p hp
      split
      · exact Sys.le_setP hp (setRepl_le p e r)
      · exact Sys.le_refl s
    · exact Sys.le_refl s
  | setCluster a e m =>
    simp only [exec]
    split
    · rename_i p hp
      split
      · exact Sys.le_setP hp (setCluster_le p e m)
      · exact Sys.le_refl s
    · exact Sys.le_refl s
  | infoMgr a =>
    simp only [exec]
    split
    · split <;> exact Sys.le_refl s
    · exact Sys.le_refl s
  | ping a =>
    simp only [exec]
    split
    · split <;> exact Sys.le_refl s
    · exact Sys.le_refl s

end Um.Coord
