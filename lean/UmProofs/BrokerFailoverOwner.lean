import UmProofs.BrokerFailoverTakeover
/-!
# C06 — who owns which slot range in the served view, before and after `takeover_master`

A slot range of the view is identified by its *key* `(range list, kind)` with kind
0 = stable, 1 = migrating, 2 = importing (the tag's epoch/addresses are the subject of clause (d)).
-/
namespace Um.Broker.C06
open Um Um.Slots Um.Gen.Chunk

abbrev Key := RangeList × Nat

def srKey (s : SlotRange) : Key :=
  (s.ranges, match s.tag with | .none => 0 | .migrating _ => 1 | .importing _ => 2)

def migKey (m : MigStore) : Key := (m.ranges, if m.isMigrating then 1 else 2)

def partKeys (st : Option RangeList) (migs : List MigStore) : List Key :=
  (match st with | some rl => [(rl, 0)] | none => []) ++ migs.map migKey

theorem srKey_spec (m : MigStore) (chunks : List Chunk) : srKey (specSlotRange m chunks) = migKey m := by
  unfold srKey specSlotRange migKey
  cases m.isMigrating <;> rfl

theorem specPart_keys (st : Option RangeList) (migs : List MigStore) (chunks : List Chunk) :
    (specPart st migs chunks).map srKey = partKeys st migs := by
  unfold specPart partKeys
  have h : migs.map (srKey ∘ fun m => specSlotRange m chunks) = migs.map migKey :=
    List.map_congr_left (fun m _ => srKey_spec m chunks)
  cases st with
  | none => simp only [List.nil_append, List.map_map, h]
  | some rl => simp only [List.map_append, List.map_map, List.map_cons, List.map_nil, h]; rfl

/-- keys held by node `j` of a chunk in role position `r` whose parts hold `K0`, `K1` -/
def nk (r : RolePos) (K0 K1 : List Key) (j : Nat) : List Key :=
  (if j = (slotIdx r).1 then K0 else []) ++ (if j = (slotIdx r).2 then K1 else [])

def nodeKeys (c : Chunk) (j : Nat) : List Key :=
  nk c.role (partKeys c.stable0 c.mig0) (partKeys c.stable1 c.mig1) j

theorem specNode_keys (c : Chunk) (chunks : List Chunk) (j : Nat) :
    (specNode c chunks j).slots.map srKey = nodeKeys c j := by
  unfold specNode nodeKeys nk
  simp only [List.map_append, apply_ite (List.map srKey), specPart_keys, List.map_nil]

/-! ## table facts (`decide` on the generated tables) -/

/-- the migration tag of a part names exactly the node that holds the part's slots, and that
node lives on the proxy the tag names -/
theorem tables_consistent (r : RolePos) :
    partToNodeIndex 0 r = some (slotIdx r).1 ∧ partToNodeIndex 1 r = some (slotIdx r).2 ∧
    partToProxyIndex 0 r = some ((slotIdx r).1 / 2) ∧ partToProxyIndex 1 r = some ((slotIdx r).2 / 2) := by
  cases r <;> decide

/-- **ownership table fact**: after half `h` failed (`newRole h`), node `j` holds nothing if it is
on the failed half, and otherwise what it held before plus what its peer (`peerIndexTab`) held -/
theorem nk_newRole (r : RolePos) (h j : Nat) (hh : h < 2) (hj : j < 4) (K0 K1 : List Key) :
    nk (newRole h) K0 K1 j = if j / 2 = h then [] else nk r K0 K1 j ++ nk r K0 K1 (peerIdx j) := by
  have hh' : h = 0 ∨ h = 1 := by omega
  have hj' : j = 0 ∨ j = 1 ∨ j = 2 ∨ j = 3 := by omega
  rcases hh' with rfl | rfl <;> rcases hj' with rfl | rfl | rfl | rfl <;> cases r <;>
    simp [nk, newRole, slotIdx, slotIndexTab, peerIdx, peerIndexTab, RolePos.idx]

/-- the peer index is an involution that changes the chunk half -/
theorem peerIdx_facts (j : Nat) (hj : j < 4) :
    peerIdx j < 4 ∧ peerIdx (peerIdx j) = j ∧ peerIdx j / 2 = 1 - j / 2 ∧ peerIdx j = 3 - j := by
  have hj' : j = 0 ∨ j = 1 ∨ j = 2 ∨ j = 3 := by omega
  rcases hj' with rfl | rfl | rfl | rfl <;> decide

/-- in every role position: the peer of a master is a replica and vice versa -/
theorem isReplica_peer (r : RolePos) (j : Nat) (hj : j < 4) : isReplica r (peerIdx j) = !isReplica r j := by
  have hj' : j = 0 ∨ j = 1 ∨ j = 2 ∨ j = 3 := by omega
  rcases hj' with rfl | rfl | rfl | rfl <;> cases r <;> decide

/-- replicas hold no slots: the slot-holding indices are masters -/
theorem slotIdx_master (r : RolePos) :
    isReplica r (slotIdx r).1 = false ∧ isReplica r (slotIdx r).2 = false ∧
    (slotIdx r).1 < 4 ∧ (slotIdx r).2 < 4 ∧ (slotIdx r).1 ≠ (slotIdx r).2 := by
  cases r <;> decide

theorem nk_replica (r : RolePos) (K0 K1 : List Key) (j : Nat) (h : isReplica r j = true) : nk r K0 K1 j = [] := by
  obtain ⟨h1, h2, -⟩ := slotIdx_master r
  unfold nk
  by_cases e1 : j = (slotIdx r).1
  · subst e1; rw [h1] at h; cases h
  · by_cases e2 : j = (slotIdx r).2
    · subst e2; rw [h2] at h; cases h
    · simp [e1, e2]

/-- after half `h` failed every node of half `h` is a replica -/
theorem isReplica_newRole (h j : Nat) (hh : h < 2) (hj : j < 4) : isReplica (newRole h) j = decide (j / 2 = h) := by
  have hh' : h = 0 ∨ h = 1 := by omega
  have hj' : j = 0 ∨ j = 1 ∨ j = 2 ∨ j = 3 := by omega
  rcases hh' with rfl | rfl <;> rcases hj' with rfl | rfl | rfl | rfl <;> decide

/-- a part is "moved" iff its owner node sits on the failed half; then the new owner is the
peer of the old one (on the partner proxy), otherwise the owner and its proxy stay -/
theorem owner_newRole (r : RolePos) (h q : Nat) (hh : h < 2) (hq : q < 2) :
    ∃ o, partToNodeIndex q r = some o ∧ o < 4 ∧ partToProxyIndex q r = some (o / 2) ∧
      (movedPart r h q = true ↔ o / 2 = h) ∧
      (movedPart r h q = true →
        partToNodeIndex q (newRole h) = some (peerIdx o) ∧ partToProxyIndex q (newRole h) = some (1 - h)) ∧
      (movedPart r h q = false →
        partToNodeIndex q (newRole h) = some o ∧ partToProxyIndex q (newRole h) = some (o / 2)) := by
  have hh' : h = 0 ∨ h = 1 := by omega
  have hq' : q = 0 ∨ q = 1 := by omega
  rcases hh' with rfl | rfl <;> rcases hq' with rfl | rfl <;> cases r <;> decide

/-- a repeat call is exactly the situation where no part is served by the failing half -/
theorem movedPart_newRole (h q : Nat) (hh : h < 2) (hq : q < 2) : movedPart (newRole h) h q = false := by
  have hh' : h = 0 ∨ h = 1 := by omega
  have hq' : q = 0 ∨ q = 1 := by omega
  rcases hh' with rfl | rfl <;> rcases hq' with rfl | rfl <;> decide

/-! ## chunks after `takeover_master`: same addresses, same keys, role of chunk `k` flipped -/

theorem migKey_bumpEpoch (e : Nat) (m : MigStore) : migKey (bumpEpoch e m) = migKey m := rfl

theorem migKey_tkEntry (pos : List (Nat × Nat)) (e : Nat) (m : MigStore) : migKey (tkEntry pos e m) = migKey m := by
  unfold tkEntry; split <;> rfl

theorem partKeys_map (st : Option RangeList) (l : List MigStore) (f : MigStore → MigStore)
    (hf : ∀ m, migKey (f m) = migKey m) : partKeys st (l.map f) = partKeys st l := by
  unfold partKeys
  rw [List.map_map]
  congr 1
  exact List.map_congr_left (fun m _ => hf m)

/-- chunk `i` after the call, as a function of chunk `i` before -/
def tkChunk (k h e : Nat) (pos : List (Nat × Nat)) (i : Nat) (x : Chunk) : Chunk :=
  bpChunk pos e (if i = k then tfChunk h e x else x)

theorem tkChunks_get {k h e : Nat} {c : Chunk} {chunks : List Chunk} (hk : chunks[k]? = some c)
    {i : Nat} {x : Chunk} (hx : chunks[i]? = some x) :
    (tkChunks k h e c chunks)[i]? = some (tkChunk k h e (tfPos h c) i x) := by
  rw [tkChunks_getElem? hk, hx]
  by_cases hik : i = k
  · subst hik; rw [hk] at hx; cases hx; simp [tkChunk]
  · simp [tkChunk, hik]

theorem tkChunk_role (k h e : Nat) (pos : List (Nat × Nat)) (i : Nat) (x : Chunk) :
    (tkChunk k h e pos i x).role = if i = k then newRole h else x.role := by
  unfold tkChunk; split <;> rfl

theorem tkChunk_addrs (k h e : Nat) (pos : List (Nat × Nat)) (i : Nat) (x : Chunk) (j : Nat) :
    nodeAtD (tkChunk k h e pos i x) j = nodeAtD x j ∧ proxyAtD (tkChunk k h e pos i x) j = proxyAtD x j := by
  unfold tkChunk; split <;> exact ⟨rfl, rfl⟩

theorem tkChunk_keys (k h e : Nat) (pos : List (Nat × Nat)) (i : Nat) (x : Chunk) :
    partKeys (tkChunk k h e pos i x).stable0 (tkChunk k h e pos i x).mig0 = partKeys x.stable0 x.mig0 ∧
    partKeys (tkChunk k h e pos i x).stable1 (tkChunk k h e pos i x).mig1 = partKeys x.stable1 x.mig1 := by
  unfold tkChunk
  split
  · simp only [bpChunk, tfChunk, bumpPeers_eq, bumpEntries_eq]
    constructor <;> split <;>
      simp only [partKeys_map _ _ _ (migKey_tkEntry _ _), partKeys_map _ _ _ (migKey_bumpEpoch _)]
  · simp only [bpChunk, bumpPeers_eq]
    constructor <;> simp only [partKeys_map _ _ _ (migKey_tkEntry _ _)]

theorem nodeKeys_tkChunk (k h e : Nat) (pos : List (Nat × Nat)) (i : Nat) (x : Chunk) (j : Nat) :
    nodeKeys (tkChunk k h e pos i x) j =
      nk (if i = k then newRole h else x.role) (partKeys x.stable0 x.mig0) (partKeys x.stable1 x.mig1) j := by
  unfold nodeKeys
  rw [tkChunk_role, (tkChunk_keys k h e pos i x).1, (tkChunk_keys k h e pos i x).2]

/-- **(a)+(b), on the pure view**: node `j` of chunk `i` before (`n`), its peer (`np`) and node `j` of
chunk `i` after `takeover_master` on half `h` of chunk `k` (`n'`) -/
theorem takeover_owner {cl : Cluster} {k h e : Nat} {c : Chunk} (hk : cl.chunks[k]? = some c) (hh : h < 2)
    (i j : Nat) (hj : j < 4) {x : Chunk} (hx : cl.chunks[i]? = some x) :
    ∃ n np n', vnode (specView cl) i j = some n ∧ vnode (specView cl) i (peerIdx j) = some np ∧
      vnode (specView { cl with chunks := tkChunks k h e c cl.chunks, epoch := e }) i j = some n' ∧
      n'.address = n.address ∧ n'.proxy = n.proxy ∧ n'.peers = n.peers ∧
      n'.replica = (if i = k then decide (j / 2 = h) else n.replica) ∧
      n'.slots.map srKey =
        if i = k then (if j / 2 = h then [] else n.slots.map srKey ++ np.slots.map srKey)
        else n.slots.map srKey := by
  obtain ⟨hp4, -⟩ := peerIdx_facts j hj
  refine ⟨specNode x cl.chunks j, specNode x cl.chunks (peerIdx j),
    specNode (tkChunk k h e (tfPos h c) i x) (tkChunks k h e c cl.chunks) j, ?_, ?_, ?_, ?_, ?_, ?_, ?_, ?_⟩
  · rw [specView_node cl i j hj, hx]; rfl
  · rw [specView_node cl i _ hp4, hx]; rfl
  · rw [specView_node _ i j hj]
    simp only [tkChunks_get hk hx]; rfl
  · exact (tkChunk_addrs k h e _ i x j).1
  · exact (tkChunk_addrs k h e _ i x (j / 2)).2
  · simp only [specNode, (tkChunk_addrs k h e _ i x _).1, (tkChunk_addrs k h e _ i x _).2]
  · simp only [specNode, tkChunk_role]
    by_cases hik : i = k
    · simp only [hik, if_true]; exact isReplica_newRole h j hh hj
    · simp only [hik, if_false]
  · rw [specNode_keys, specNode_keys, specNode_keys, nodeKeys_tkChunk]
    by_cases hik : i = k
    · simp only [hik, if_true]
      exact nk_newRole x.role h j hh hj _ _
    · simp only [hik, if_false]; rfl

end Um.Broker.C06
