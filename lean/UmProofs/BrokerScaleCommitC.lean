import UmProofs.BrokerScaleCommitB
/-!
# C10 — a commit removes exactly the entry and its twin and preserves `CommitInv` (part C)
-/
namespace Um.Broker.Scale
open Um Um.Slots Um.Broker

theorem strip_migs (ranges : RangeList) (mm : MigMeta) (ch : Chunk) :
    (strip ranges mm ch).migs = ch.migs.filter (keepOf ranges mm) := by
  simp [strip, Chunk.migs, List.filter_append]

theorem strip_flatMap_migs (ranges : RangeList) (mm : MigMeta) (cs : List Chunk) :
    (cs.map (strip ranges mm)).flatMap Chunk.migs = (cs.flatMap Chunk.migs).filter (keepOf ranges mm) := by
  induction cs with
  | nil => rfl
  | cons c cs ih =>
    simp only [List.map_cons, List.flatMap_cons, List.filter_append, ih, strip_migs]

theorem compactChunk_migs (ch : Chunk) : (compactChunk ch).migs = ch.migs.map compactMig := by
  simp [compactChunk, Chunk.migs]

theorem compactMig_of_fixed {e : MigStore} (h : compact e.ranges = e.ranges) : compactMig e = e := by
  cases e; simp only [compactMig] at *; simp [h]

theorem land_migs_perm (ranges : RangeList) (mm : MigMeta) (part : Nat) (ch : Chunk)
    (h : (part = 0 ∧ ch.mig0.any (isTwin ranges mm) = true) ∨ (part ≠ 0 ∧ ch.mig1.any (isTwin ranges mm) = true)) :
    ∃ a, isTwin ranges mm a = true ∧ ch.migs.Perm (a :: (land ranges mm part ch).migs) := by
  rcases h with ⟨hp, h⟩ | ⟨hp, h⟩
  · obtain ⟨x, hx, hpx⟩ := List.any_eq_true.mp h
    obtain ⟨a, l1, l2, _, hpa, hl, he⟩ := List.exists_of_eraseP hx hpx
    refine ⟨a, hpa, ?_⟩
    rw [hl] at he
    simp only [land, hp, if_true, Chunk.migs, hl, he]
    simp only [List.append_assoc, List.cons_append]
    exact List.perm_middle
  · obtain ⟨x, hx, hpx⟩ := List.any_eq_true.mp h
    obtain ⟨a, l1, l2, _, hpa, hl, he⟩ := List.exists_of_eraseP hx hpx
    refine ⟨a, hpa, ?_⟩
    rw [hl] at he
    simp only [land, hp, if_false, Chunk.migs, hl, he]
    rw [← List.append_assoc, ← List.append_assoc]
    exact List.perm_middle

/-- one entry of a `map f ++ g c :: map f` list comes from the same index of the original -/
theorem getElem?_map_mid {α β : Type} (f g : α → β) (A B : List α) (c : α) (i : Nat) (x : β)
    (h : (A.map f ++ g c :: B.map f)[i]? = some x) :
    ∃ y, (A ++ c :: B)[i]? = some y ∧ ((i ≠ A.length ∧ x = f y) ∨ (i = A.length ∧ x = g y)) := by
  induction A generalizing i with
  | nil =>
    cases i with
    | zero =>
      simp only [List.map_nil, List.nil_append, List.getElem?_cons_zero, Option.some.injEq] at h
      exact ⟨c, by simp, Or.inr ⟨rfl, h.symm⟩⟩
    | succ i =>
      simp only [List.map_nil, List.nil_append, List.getElem?_cons_succ, List.getElem?_map,
        Option.map_eq_some_iff] at h
      obtain ⟨y, hy, rfl⟩ := h
      exact ⟨y, by simpa using hy, Or.inl ⟨by simp, rfl⟩⟩
  | cons a A ih =>
    cases i with
    | zero =>
      simp only [List.map_cons, List.cons_append, List.getElem?_cons_zero, Option.some.injEq] at h
      exact ⟨a, by simp, Or.inl ⟨by simp, h.symm⟩⟩
    | succ i =>
      simp only [List.map_cons, List.cons_append, List.getElem?_cons_succ] at h
      obtain ⟨y, hy, hc⟩ := ih i h
      refine ⟨y, by simpa using hy, ?_⟩
      rcases hc with ⟨h1, h2⟩ | ⟨h1, h2⟩
      · exact Or.inl ⟨by simp only [List.length_cons]; omega, h2⟩
      · exact Or.inr ⟨by simp only [List.length_cons]; omega, h2⟩

/-- entries only disappear: new chunk's migration lists are contained in the old chunk's -/
def ChunkSub (ch' ch : Chunk) : Prop :=
  (∀ e ∈ ch'.mig0, e ∈ ch.mig0) ∧ (∀ e ∈ ch'.mig1, e ∈ ch.mig1)

theorem chunkSub_strip {ranges : RangeList} {mm : MigMeta} {ch : Chunk}
    (hfix : ∀ e ∈ ch.migs, compact e.ranges = e.ranges) :
    ChunkSub (compactChunk (strip ranges mm ch)) ch := by
  constructor
  · intro e he
    simp only [compactChunk, strip, List.mem_map] at he
    obtain ⟨e0, he0, rfl⟩ := he
    have h0 := (List.mem_filter.mp he0).1
    rw [compactMig_of_fixed (hfix e0 (by simp [Chunk.migs, h0]))]; exact h0
  · intro e he
    simp only [compactChunk, strip, List.mem_map] at he
    obtain ⟨e0, he0, rfl⟩ := he
    have h0 := (List.mem_filter.mp he0).1
    rw [compactMig_of_fixed (hfix e0 (by simp [Chunk.migs, h0]))]; exact h0

theorem chunkSub_land {ranges : RangeList} {mm : MigMeta} {part : Nat} {ch : Chunk}
    (hfix : ∀ e ∈ ch.migs, compact e.ranges = e.ranges) :
    ChunkSub (compactChunk (land ranges mm part (strip ranges mm ch))) ch := by
  by_cases hp : part = 0
  · constructor
    · intro e he
      simp only [compactChunk, land, hp, if_true, strip, List.mem_map] at he
      obtain ⟨e0, he0, rfl⟩ := he
      have h0 := (List.mem_filter.mp (List.mem_of_mem_eraseP he0)).1
      rw [compactMig_of_fixed (hfix e0 (by simp [Chunk.migs, h0]))]; exact h0
    · intro e he
      simp only [compactChunk, land, hp, if_true, strip, List.mem_map] at he
      obtain ⟨e0, he0, rfl⟩ := he
      have h0 := (List.mem_filter.mp he0).1
      rw [compactMig_of_fixed (hfix e0 (by simp [Chunk.migs, h0]))]; exact h0
  · constructor
    · intro e he
      simp only [compactChunk, land, hp, if_false, strip, List.mem_map] at he
      obtain ⟨e0, he0, rfl⟩ := he
      have h0 := (List.mem_filter.mp he0).1
      rw [compactMig_of_fixed (hfix e0 (by simp [Chunk.migs, h0]))]; exact h0
    · intro e he
      simp only [compactChunk, land, hp, if_false, strip, List.mem_map] at he
      obtain ⟨e0, he0, rfl⟩ := he
      have h0 := (List.mem_filter.mp (List.mem_of_mem_eraseP he0)).1
      rw [compactMig_of_fixed (hfix e0 (by simp [Chunk.migs, h0]))]; exact h0

theorem commitRes_eq (ranges : RangeList) (mm : MigMeta) (A B : List Chunk) (dch : Chunk) :
    commitRes ranges mm A dch B =
      A.map (fun c => compactChunk (strip ranges mm c)) ++
        compactChunk (land ranges mm mm.dstPart (strip ranges mm dch)) ::
        B.map (fun c => compactChunk (strip ranges mm c)) := by
  simp [commitRes, compactSlots_eq, List.map_append, List.map_map, Function.comp_def]

theorem commitRes_length (ranges : RangeList) (mm : MigMeta) (A B : List Chunk) (dch : Chunk) :
    (commitRes ranges mm A dch B).length = (A ++ dch :: B).length := by
  simp [commitRes_eq]

/-- chunk-wise relation between the committed cluster and the old one -/
theorem commitRes_sub {c : Cluster} (hfix : ∀ m ∈ c.migs, compact m.ranges = m.ranges)
    {ranges : RangeList} {mm : MigMeta} {A B : List Chunk} {dch : Chunk} (hdec : c.chunks = A ++ dch :: B)
    {i : Nat} {ch' : Chunk} (h : (commitRes ranges mm A dch B)[i]? = some ch') :
    ∃ ch, c.chunks[i]? = some ch ∧ ChunkSub ch' ch := by
  rw [commitRes_eq] at h
  obtain ⟨ch, hch, hc⟩ := getElem?_map_mid _ (fun c => compactChunk (land ranges mm mm.dstPart (strip ranges mm c)))
    A B dch i ch' h
  rw [← hdec] at hch
  have hfix' : ∀ e ∈ ch.migs, compact e.ranges = e.ranges := by
    intro e he
    apply hfix e
    unfold Cluster.migs
    exact List.mem_flatMap.mpr ⟨ch, List.mem_of_getElem? hch, he⟩
  refine ⟨ch, hch, ?_⟩
  rcases hc with ⟨_, rfl⟩ | ⟨_, rfl⟩
  · exact chunkSub_strip hfix'
  · exact chunkSub_land hfix'

/-- the migration entries after the commit: the old ones minus one twin `a`, the pending entry
filtered out -/
theorem commitRes_migs {c : Cluster} (hfix : ∀ m ∈ c.migs, compact m.ranges = m.ranges)
    {ranges : RangeList} {mm : MigMeta} {A B : List Chunk} {dch : Chunk} (hdec : c.chunks = A ++ dch :: B)
    (htw : (mm.dstPart = 0 ∧ (strip ranges mm dch).mig0.any (isTwin ranges mm) = true) ∨
           (mm.dstPart ≠ 0 ∧ (strip ranges mm dch).mig1.any (isTwin ranges mm) = true)) :
    ∃ a, isTwin ranges mm a = true ∧
      (c.migs.filter (keepOf ranges mm)).Perm (a :: (commitRes ranges mm A dch B).flatMap Chunk.migs) := by
  obtain ⟨a, ha, hperm⟩ := land_migs_perm ranges mm mm.dstPart (strip ranges mm dch) htw
  refine ⟨a, ha, ?_⟩
  -- the pre-compaction entry list
  have hM1 : c.migs.filter (keepOf ranges mm) =
      (A.map (strip ranges mm)).flatMap Chunk.migs ++ ((strip ranges mm dch).migs ++
        (B.map (strip ranges mm)).flatMap Chunk.migs) := by
    unfold Cluster.migs
    rw [hdec, ← strip_flatMap_migs]
    simp [List.flatMap_append]
  have hM0 : (A.map (strip ranges mm) ++ land ranges mm mm.dstPart (strip ranges mm dch) ::
        B.map (strip ranges mm)).flatMap Chunk.migs =
      (A.map (strip ranges mm)).flatMap Chunk.migs ++ ((land ranges mm mm.dstPart (strip ranges mm dch)).migs ++
        (B.map (strip ranges mm)).flatMap Chunk.migs) := by
    simp [List.flatMap_append]
  have hperm1 : (c.migs.filter (keepOf ranges mm)).Perm
      (a :: (A.map (strip ranges mm) ++ land ranges mm mm.dstPart (strip ranges mm dch) ::
        B.map (strip ranges mm)).flatMap Chunk.migs) := by
    rw [hM1, hM0]
    refine List.Perm.trans ?_ List.perm_middle
    apply List.Perm.append_left
    have := hperm.append_right ((B.map (strip ranges mm)).flatMap Chunk.migs)
    simpa using this
  -- compaction is the identity on these entries
  have hsub : ∀ e ∈ (A.map (strip ranges mm) ++ land ranges mm mm.dstPart (strip ranges mm dch) ::
        B.map (strip ranges mm)).flatMap Chunk.migs, compact e.ranges = e.ranges := by
    intro e he
    have : e ∈ c.migs.filter (keepOf ranges mm) := hperm1.mem_iff.mpr (List.mem_cons_of_mem _ he)
    exact hfix e (List.mem_filter.mp this).1
  have hcomp : (commitRes ranges mm A dch B).flatMap Chunk.migs =
      (A.map (strip ranges mm) ++ land ranges mm mm.dstPart (strip ranges mm dch) ::
        B.map (strip ranges mm)).flatMap Chunk.migs := by
    unfold commitRes
    rw [compactSlots_eq, List.flatMap_map]
    have : (fun ch => (compactChunk ch).migs) = fun ch => ch.migs.map compactMig := by
      funext ch; exact compactChunk_migs ch
    rw [this, ← List.map_flatMap]
    conv => rhs; rw [← List.map_id ((A.map (strip ranges mm) ++
      land ranges mm mm.dstPart (strip ranges mm dch) :: B.map (strip ranges mm)).flatMap Chunk.migs)]
    apply List.map_congr_left
    intro e he
    exact compactMig_of_fixed (hsub e he)
  rw [hcomp]; exact hperm1

end Um.Broker.Scale
