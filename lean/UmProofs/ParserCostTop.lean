import UmProofs.ParserCostSafe
/-!
# C16 — consequences of the invariants for `parseC`, `decodeC`, `stream`
-/
namespace Um.PC
open Um

/-- the facts about one `parse_resp(buf)` call, whatever its verdict -/
structure ParseFacts (c : Cfg) (b : Bytes) (r : PR (Idx × Nat)) (k : Cost) : Prop where
  no_fuel : r ≠ .error .fuel
  consumed : ∀ v n, r = .ok (v, n) → 3 ≤ n ∧ n ≤ b.length
  h_le : k.height ≤ b.length + 1
  steps_le : k.steps ≤ 2 * ((b.length + 1) * k.height)
  alloc_le : Bounded c k.over → k.alloc ≤ (b.length + 1) * k.height
  no_cap : Bounded c k.over → b.length * c.elemSize ≤ isizeMax → r ≠ .error .capacity
  nest : ∀ M, c.maxNesting = some M → k.height ≤ M + 1

theorem parseC_facts (c : Cfg) (b : Bytes) : ParseFacts c b (parseC c b).1 (parseC c b).2 := by
  unfold parseC
  cases h : parseResp c (b.length + 1) 0 b with
  | mk r k =>
    obtain ⟨hok, herr⟩ := (inv_all c (b.length + 1)).1 0 b r k h
    obtain ⟨s1, s2, s3⟩ := (safe_all c (b.length + 1)).1 0 b r k h
    simp only
    cases r with
    | error e =>
      obtain ⟨e1, e2, e3⟩ := herr e rfl
      refine ⟨?_, by intro v n hh; simp at hh, e1, e2, e3, ?_, ?_⟩
      · intro hh
        apply s1 (Nat.le_refl _)
        simp only [Except.error.injEq] at hh
        simp [errOf, hh]
      · intro hb hsz hh
        apply s2 hb hsz
        simp only [Except.error.injEq] at hh
        simp [errOf, hh]
      · intro M hM; have := s3 M hM (Nat.zero_le _); omega
    | ok p =>
      obtain ⟨v, n⟩ := p
      obtain ⟨a1, a2, a3, a4, a5, a6, a7⟩ := hok v n rfl
      have e1 : n * k.height ≤ (b.length + 1) * k.height := Nat.mul_le_mul_right _ (by omega)
      refine ⟨by simp, ?_, by omega, by omega, by intro _; omega, by intro _ _; simp, ?_⟩
      · intro v' n' hh
        simp only [Except.ok.injEq, Prod.mk.injEq] at hh
        omega
      · intro M hM; have := s3 M hM (Nat.zero_le _); omega

theorem decodeC_no_panic (c : Cfg) (b : Bytes) (hb : Bounded c (parseC c b).2.over)
    (hsz : b.length * c.elemSize ≤ isizeMax) : (decodeC c b).1.isPanic = false := by
  have f := parseC_facts c b
  unfold decodeC
  cases h : parseC c b with
  | mk r k =>
    rw [h] at f hb
    simp only at f hb
    cases r with
    | ok p =>
      obtain ⟨v, n⟩ := p
      have := (f.consumed v n rfl).2
      have hn : ¬ (n > b.length) := by omega
      simp [hn, Dec.isPanic]
    | error e =>
      cases e with
      | invalid => simp [Dec.isPanic]
      | notEnough => simp [Dec.isPanic]
      | unexpected => simp [Dec.isPanic]
      | capacity => exact absurd rfl (f.no_cap hb hsz)
      | fuel => exact absurd rfl f.no_fuel

theorem decodeC_item (c : Cfg) (b : Bytes) (v : Idx) (n : Nat) (k : Cost) (h : decodeC c b = (.item v n, k)) :
    3 ≤ n ∧ n ≤ b.length := by
  have f := parseC_facts c b
  unfold decodeC at h
  cases hp : parseC c b with
  | mk r k0 =>
    rw [hp] at f h
    simp only at f h
    cases r with
    | ok p =>
      obtain ⟨v0, n0⟩ := p
      simp only at h
      split at h
      · simp at h
      · simp only [Prod.mk.injEq, Dec.item.injEq] at h
        have := f.consumed v0 n0 rfl
        omega
    | error e => cases e <;> simp at h

theorem streamC_no_panic (c : Cfg) (hcap : c.capRemaining = true) :
    ∀ f b, b.length * c.elemSize ≤ isizeMax → (streamC c f b).end ≠ .panicked := by
  intro f
  induction f with
  | zero => intro b _; simp [streamC]
  | succ f ih =>
    intro b hsz
    rw [streamC]
    split
    · simp
    · cases hd : decodeC c b with
      | mk d k =>
        cases d with
        | none => simp
        | invalid => simp
        | panic =>
          have := decodeC_no_panic c b (.inl hcap) hsz
          rw [hd] at this
          simp [Dec.isPanic] at this
        | item v n =>
          obtain ⟨h3, hle⟩ := decodeC_item c b v n k hd
          have hn : n ≠ 0 := by omega
          simp only [hn, if_false]
          apply ih
          have : (b.drop n).length ≤ b.length := by simp
          exact Nat.le_trans (Nat.mul_le_mul_right _ this) hsz

/-- sum of the step counts of a decode attempt after every received byte -/
def reparseSteps (c : Cfg) (b : Bytes) : Nat :=
  ((List.range (b.length + 1)).map fun i => (parseC c (b.take i)).2.steps).sum

theorem sum_map_le {α : Type} (l : List α) (g : α → Nat) (B : Nat) (h : ∀ x ∈ l, g x ≤ B) :
    (l.map g).sum ≤ l.length * B := by
  induction l with
  | nil => simp
  | cons x xs ih =>
    have h1 := h x (by simp)
    have h2 := ih (fun y hy => h y (by simp [hy]))
    simp only [List.map_cons, List.sum_cons, List.length_cons, Nat.add_mul, Nat.one_mul]
    omega

theorem reparseSteps_le (c : Cfg) (b : Bytes) (H : Nat)
    (hH : ∀ i, (parseC c (b.take i)).2.height ≤ H) :
    reparseSteps c b ≤ (b.length + 1) * (2 * ((b.length + 1) * H)) := by
  unfold reparseSteps
  have := sum_map_le (List.range (b.length + 1)) (fun i => (parseC c (b.take i)).2.steps)
    (2 * ((b.length + 1) * H)) (by
      intro i _
      have f := (parseC_facts c (b.take i)).steps_le
      have hl : (b.take i).length + 1 ≤ b.length + 1 := by simp; omega
      have e1 : ((b.take i).length + 1) * (parseC c (b.take i)).2.height ≤ (b.length + 1) * H :=
        Nat.mul_le_mul hl (hH i)
      omega)
  simpa using this

end Um.PC
