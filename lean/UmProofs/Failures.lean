import UmModel.Failures
/-!
# Lemmas for C18: association lists, `purge`, well-formedness, and the effect of every operation on
the stored reports (`Stored`).
-/
namespace Um.Failures

/-! ## association lists -/
section AList
variable {β : Type}

theorem aget_some_mem {k : String} {v : β} {l : List (String × β)} (h : aget k l = some v) :
    (k, v) ∈ l := by
  induction l with
  | nil => simp [aget] at h
  | cons p rest ih =>
    obtain ⟨k', v'⟩ := p
    simp only [aget] at h
    by_cases hk : k' = k
    · simp only [hk, if_true] at h
      cases h; simp [hk]
    · simp only [hk, if_false] at h
      exact List.mem_cons_of_mem _ (ih h)

theorem aget_none_iff {k : String} {l : List (String × β)} :
    aget k l = none ↔ k ∉ l.map (·.1) := by
  induction l with
  | nil => simp [aget]
  | cons p rest ih =>
    obtain ⟨k', v'⟩ := p
    simp only [aget, List.map_cons, List.mem_cons, not_or]
    by_cases hk : k' = k
    · simp [hk]
    · simp only [hk, if_false, ih]
      constructor
      · intro h; exact ⟨fun e => hk e.symm, h⟩
      · intro h; exact h.2

theorem mem_aget_of_nodup {k : String} {v : β} {l : List (String × β)}
    (hn : (l.map (·.1)).Nodup) (h : (k, v) ∈ l) : aget k l = some v := by
  induction l with
  | nil => simp at h
  | cons p rest ih =>
    obtain ⟨k', v'⟩ := p
    simp only [List.map_cons, List.nodup_cons] at hn
    simp only [aget]
    rcases List.mem_cons.mp h with h | h
    · cases h; simp
    · by_cases hk : k' = k
      · exfalso; subst hk
        exact hn.1 (List.mem_map.mpr ⟨(k', v), h, rfl⟩)
      · simp only [hk, if_false]; exact ih hn.2 h

theorem aget_iff_mem {k : String} {v : β} {l : List (String × β)}
    (hn : (l.map (·.1)).Nodup) : aget k l = some v ↔ (k, v) ∈ l :=
  ⟨aget_some_mem, mem_aget_of_nodup hn⟩

theorem nodup_keys_unique {k : String} {v w : β} {l : List (String × β)}
    (hn : (l.map (·.1)).Nodup) (h1 : (k, v) ∈ l) (h2 : (k, w) ∈ l) : v = w := by
  have a := mem_aget_of_nodup hn h1
  have b := mem_aget_of_nodup hn h2
  rw [a] at b; cases b; rfl

theorem ahas_iff {k : String} {l : List (String × β)} : ahas k l = true ↔ k ∈ l.map (·.1) := by
  unfold ahas
  cases h : aget k l with
  | none => simp [aget_none_iff.mp h]
  | some v =>
    simp only [Option.isSome_some, true_iff]
    exact List.mem_map.mpr ⟨(k, v), aget_some_mem h, rfl⟩

theorem mem_adel {k : String} {p : String × β} {l : List (String × β)} :
    p ∈ adel k l ↔ p ∈ l ∧ p.1 ≠ k := by
  simp [adel, List.mem_filter]

theorem keys_adel_sublist (k : String) (l : List (String × β)) :
    ((adel k l).map (·.1)).Sublist (l.map (·.1)) :=
  List.Sublist.map _ List.filter_sublist

theorem keys_aset (k : String) (v : β) (l : List (String × β)) :
    (aset k v l).map (·.1) = l.map (·.1) := by
  unfold aset
  rw [List.map_map]
  apply List.map_congr_left
  intro p _
  by_cases h : p.1 = k <;> simp [h]

theorem mem_aset {k : String} {v : β} {p : String × β} {l : List (String × β)} :
    p ∈ aset k v l ↔ (p ∈ l ∧ p.1 ≠ k) ∨ (p = (k, v) ∧ k ∈ l.map (·.1)) := by
  unfold aset
  simp only [List.mem_map]
  constructor
  · rintro ⟨q, hq, rfl⟩
    by_cases h : q.1 = k
    · right
      refine ⟨?_, ⟨q, hq, h⟩⟩
      simp only [h, if_true]
    · left; simp only [h, if_false]; exact ⟨hq, h⟩
  · rintro (⟨hp, hk⟩ | ⟨rfl, q, hq, hk⟩)
    · exact ⟨p, hp, by simp [hk]⟩
    · exact ⟨q, hq, by simp [hk]⟩

end AList

/-! ## `Stored`: membership form of the stored reports -/

/-- reporter `r`'s report about `a` with time `t` is in the store -/
def Stored (s : State) (a : Addr) (r : Reporter) (t : Int) : Prop :=
  ∃ m, (a, m) ∈ s.failures ∧ (r, t) ∈ m

theorem stored_iff {s : State} (h : WF s) {a : Addr} {r : Reporter} {t : Int} :
    stored s a r = some t ↔ Stored s a r t := by
  obtain ⟨_, _, h3, h4⟩ := h
  unfold stored Stored
  constructor
  · intro hs
    cases hm : aget a s.failures with
    | none => simp [hm] at hs
    | some m =>
      simp only [hm] at hs
      exact ⟨m, aget_some_mem hm, aget_some_mem hs⟩
  · rintro ⟨m, hm, hr⟩
    rw [mem_aget_of_nodup h3 hm]
    exact mem_aget_of_nodup (h4 _ hm) hr

theorem stored_none_iff {s : State} (h : WF s) {a : Addr} {r : Reporter} :
    stored s a r = none ↔ ∀ t, ¬ Stored s a r t := by
  constructor
  · intro hn t ht
    rw [(stored_iff h).mpr ht] at hn; cases hn
  · intro hn
    cases hs : stored s a r with
    | none => rfl
    | some t => exact absurd ((stored_iff h).mp hs) (hn t)

/-! ## `purge` -/

abbrev FMap := List (Addr × List (Reporter × Int))

theorem mem_purge {now ttl : Int} {f : FMap} {p : Addr × List (Reporter × Int)} :
    p ∈ purge now ttl f ↔
      ∃ m, (p.1, m) ∈ f ∧ p.2 = m.filter (fun q => fresh now ttl q.2) ∧ p.2 ≠ [] := by
  unfold purge
  simp only [List.mem_filter, List.mem_map]
  constructor
  · rintro ⟨⟨q, hq, rfl⟩, hne⟩
    refine ⟨q.2, hq, rfl, ?_⟩
    intro h
    simp only at h
    simp [h] at hne
  · rintro ⟨m, hm, he, hne⟩
    refine ⟨⟨(p.1, m), hm, ?_⟩, ?_⟩
    · simp only [← he]
    · cases hp : p.2 with
      | nil => exact absurd hp hne
      | cons _ _ => simp

theorem keys_purge_sublist (now ttl : Int) (f : FMap) :
    ((purge now ttl f).map (·.1)).Sublist (f.map (·.1)) := by
  unfold purge
  have h1 : ((f.map fun p => (p.1, p.2.filter fun q => fresh now ttl q.2)).map (·.1))
      = f.map (·.1) := by
    rw [List.map_map]; rfl
  rw [← h1]
  exact List.Sublist.map _ List.filter_sublist

theorem purge_length_le (now ttl : Int) (f : FMap) : (purge now ttl f).length ≤ f.length := by
  have := (keys_purge_sublist now ttl f).length_le
  simpa using this

/-! ## well-formedness is preserved by every operation -/

theorem wf_init (o : Bool) : WF (init o) := by
  simp [WF, init]

theorem nodup_filter_ne {l : List String} (h : l.Nodup) (a : String) :
    (l.filter fun x => decide (x ≠ a)).Nodup :=
  h.sublist List.filter_sublist

theorem wf_addFailure {s : State} (h : WF s) (now : Int) (a : Addr) (r : Reporter) :
    WF (addFailure s now a r).1 := by
  obtain ⟨h1, h2, h3, h4⟩ := h
  unfold addFailure
  cases hm : aget a s.failures with
  | none =>
    simp only
    refine ⟨h1, h2, ?_, ?_⟩
    · simp only [List.map_append, List.map_cons, List.map_nil]
      rw [List.nodup_append]
      refine ⟨h3, by simp, ?_⟩
      intro x hx y hy
      simp only [List.mem_singleton] at hy
      subst hy
      intro e; subst e
      exact (aget_none_iff.mp hm) hx
    · intro p hp
      simp only [List.mem_append, List.mem_singleton] at hp
      rcases hp with hp | rfl
      · exact h4 p hp
      · simp
  | some m =>
    simp only
    by_cases hr : ahas r m = true
    · simp only [hr, if_true]; exact ⟨h1, h2, h3, h4⟩
    · simp only [hr]
      refine ⟨h1, h2, ?_, ?_⟩
      · simp only [Bool.false_eq_true, if_false]
        rw [keys_aset]; exact h3
      · simp only [Bool.false_eq_true, if_false]
        intro p hp
        rcases mem_aset.mp hp with ⟨hp, _⟩ | ⟨rfl, _⟩
        · exact h4 p hp
        · simp only [List.map_append, List.map_cons, List.map_nil]
          rw [List.nodup_append]
          refine ⟨h4 _ (aget_some_mem hm), by simp, ?_⟩
          intro x hx y hy
          simp only [List.mem_singleton] at hy
          subst hy
          intro e; subst e
          exact hr (ahas_iff.mpr hx)

theorem wf_purge {s : State} (h : WF s) (now ttl : Int) :
    WF { s with failures := purge now ttl s.failures } := by
  obtain ⟨h1, h2, h3, h4⟩ := h
  refine ⟨h1, h2, h3.sublist (keys_purge_sublist now ttl s.failures), ?_⟩
  intro p hp
  obtain ⟨m, hm, he, _⟩ := mem_purge.mp hp
  rw [he]
  exact (h4 _ hm).sublist (List.Sublist.map _ List.filter_sublist)

theorem wf_getFailures {s s' : State} (h : WF s) {now ttl : Int} {q : Nat} {out : List Addr}
    (hg : getFailures s now ttl q = .ok s' out) : WF s' := by
  unfold getFailures at hg
  split at hg
  · cases hg
  · simp only [GetResult.ok.injEq] at hg
    rw [← hg.1]; exact wf_purge h now ttl

theorem wf_addProxy {s : State} (h : WF s) (a : Addr) (i : Bool) : WF (addProxy s a i).1 := by
  obtain ⟨h1, h2, h3, h4⟩ := h
  unfold addProxy
  split
  · exact ⟨h1, h2, h3, h4⟩
  · split
    · exact ⟨h1, h2, h3, h4⟩
    · refine ⟨?_, nodup_filter_ne h2 a, h3.sublist (keys_adel_sublist a _), ?_⟩
      · simp only
        by_cases hr : registered s a = true
        · simp only [hr, if_true]; exact h1
        · simp only [hr]
          simp only [Bool.false_eq_true, if_false, List.map_append, List.map_cons, List.map_nil]
          rw [List.nodup_append]
          refine ⟨h1, by simp, ?_⟩
          intro x hx y hy
          simp only [List.mem_singleton] at hy
          subst hy
          intro e; subst e
          exact hr (ahas_iff.mpr hx)
      · intro p hp
        exact h4 p (mem_adel.mp hp).1

theorem wf_removeProxy {s : State} (h : WF s) (a : Addr) : WF (removeProxy s a).1 := by
  obtain ⟨h1, h2, h3, h4⟩ := h
  unfold removeProxy
  split
  · exact ⟨h1, h2, h3, h4⟩
  · exact ⟨h1, h2, h3, h4⟩
  · refine ⟨h1.sublist (keys_adel_sublist a _), nodup_filter_ne h2 a,
      h3.sublist (keys_adel_sublist a _), ?_⟩
    intro p hp
    exact h4 p (mem_adel.mp hp).1

theorem nodup_sinsert {l : List Addr} (h : l.Nodup) (a : Addr) : (sinsert a l).Nodup := by
  unfold sinsert
  by_cases hc : l.contains a = true
  · simp only [hc, if_true]; exact h
  · simp only [hc]
    simp only [Bool.false_eq_true, if_false]
    rw [List.nodup_append]
    refine ⟨h, by simp, ?_⟩
    intro x hx y hy
    simp only [List.mem_singleton] at hy
    subst hy
    intro e; subst e
    exact hc (List.contains_iff_mem.mpr hx)

theorem keys_setCluster (a : Addr) (b : Bool) (l : List (Addr × Bool)) :
    (setCluster a b l).map (·.1) = l.map (·.1) := by
  unfold setCluster
  rw [List.map_map]
  apply List.map_congr_left
  intro p _
  by_cases h : p.1 = a <;> simp [h]

theorem keys_markAll (as : List Addr) (b : Bool) (l : List (Addr × Bool)) :
    (markAll as b l).map (·.1) = l.map (·.1) := by
  unfold markAll
  rw [List.map_map]
  apply List.map_congr_left
  intro p _
  by_cases h : p.1 ∈ as <;> simp [h]

theorem wf_replaceFailedProxy {s : State} (h : WF s) (a : Addr) (o : InCluster) :
    WF (replaceFailedProxy s a o).1 := by
  obtain ⟨h1, h2, h3, h4⟩ := h
  unfold replaceFailedProxy
  split
  · exact ⟨h1, h2, h3, h4⟩
  · refine ⟨h1, nodup_sinsert h2 a, h3.sublist (keys_adel_sublist a _), ?_⟩
    intro p hp
    exact h4 p (mem_adel.mp hp).1
  · cases o with
    | takeoverErr c b => exact ⟨h1, h2, h3, h4⟩
    | orderedNoReplace b => exact ⟨h1, h2, h3, h4⟩
    | noResource c b => exact ⟨h1, nodup_sinsert h2 a, h3, h4⟩
    | replaced b n =>
      refine ⟨?_, nodup_sinsert h2 a, h3, h4⟩
      simp only [keys_setCluster]; exact h1

theorem wf_allocate {s : State} (h : WF s) (as : List Addr) (b : Nat) : WF (allocate s as b) := by
  obtain ⟨h1, h2, h3, h4⟩ := h
  exact ⟨by simp only [allocate, keys_markAll]; exact h1, h2, h3, h4⟩

theorem wf_release {s : State} (h : WF s) (as : List Addr) (b : Nat) : WF (release s as b) := by
  obtain ⟨h1, h2, h3, h4⟩ := h
  exact ⟨by simp only [release, keys_markAll]; exact h1, h2, h3, h4⟩

theorem wf_restore {s o : State} (h : WF s) (ho : WF o) : WF (restore s o).1 := by
  unfold restore
  split
  · exact h
  · exact ho

/-! ## function-level lookup lemmas (no well-formedness needed) -/
section AList2
variable {β : Type}

theorem aget_append_single (k k' : String) (v : β) (l : List (String × β)) :
    aget k (l ++ [(k', v)]) =
      match aget k l with
      | some x => some x
      | none => if k' = k then some v else none := by
  induction l with
  | nil => simp [aget]
  | cons p rest ih =>
    obtain ⟨k1, v1⟩ := p
    simp only [List.cons_append, aget]
    by_cases h : k1 = k
    · simp [h]
    · simp only [h, if_false]; exact ih

theorem aget_aset (k k' : String) (v : β) (l : List (String × β)) :
    aget k (aset k' v l) = if k = k' then (aget k l).map (fun _ => v) else aget k l := by
  induction l with
  | nil => simp [aget, aset]
  | cons p rest ih =>
    obtain ⟨k1, v1⟩ := p
    unfold aset at ih ⊢
    simp only [List.map_cons, aget]
    by_cases h1 : k1 = k'
    · subst h1
      by_cases h2 : k1 = k
      · subst h2; simp
      · have h3 : ¬ k = k1 := fun e => h2 e.symm
        simp only [if_true, h2, if_false, h3] at ih ⊢
        exact ih
    · by_cases h2 : k1 = k
      · subst h2; simp [h1]
      · simp only [h1, if_false, h2] at ih ⊢
        exact ih

theorem aget_adel (k k' : String) (l : List (String × β)) :
    aget k (adel k' l) = if k = k' then none else aget k l := by
  induction l with
  | nil => simp [aget, adel]
  | cons p rest ih =>
    obtain ⟨k1, v1⟩ := p
    unfold adel at ih ⊢
    by_cases h1 : k1 = k'
    · subst h1
      simp only [List.filter_cons, ne_eq, not_true_eq_false, decide_false, Bool.false_eq_true,
        if_false, aget]
      rw [ih]
      by_cases h2 : k = k1
      · simp [h2]
      · have : ¬ k1 = k := fun e => h2 e.symm
        simp [h2, this]
    · simp only [List.filter_cons, ne_eq, h1, not_false_eq_true, decide_true, if_true, aget]
      by_cases h2 : k1 = k
      · subst h2; simp [h1]
      · simp only [h2, if_false]; exact ih

end AList2

/-- **`add_failure` in one equation**: the lookup function changes at exactly one point, and
only when that point was empty (first timestamp wins, whole seconds). -/
theorem stored_addFailure (s : State) (now : Int) (a : Addr) (r : Reporter) (a' : Addr)
    (r' : Reporter) :
    stored (addFailure s now a r).1 a' r' =
      if a' = a ∧ r' = r ∧ stored s a r = none then some (now / NS) else stored s a' r' := by
  unfold addFailure stored
  cases hm : aget a s.failures with
  | none =>
    simp only [aget_append_single]
    by_cases ha : a' = a
    · subst ha
      simp only [hm, true_and, and_true]
      by_cases hr : r' = r
      · subst hr; simp [aget]
      · have : ¬ r = r' := fun e => hr e.symm
        simp [aget, hr, this]
    · have : ¬ a = a' := fun e => ha e.symm
      simp only [ha, false_and, if_false, this]
      cases aget a' s.failures <;> rfl
  | some m =>
    simp only
    by_cases hh : ahas r m = true
    · simp only [hh, if_true]
      have : aget r m ≠ none := by
        unfold ahas at hh
        intro e; simp [e] at hh
      simp [this]
    · simp only [hh, Bool.false_eq_true, if_false, aget_aset]
      have hn : aget r m = none := by
        unfold ahas at hh
        cases h : aget r m with
        | none => rfl
        | some _ => simp [h] at hh
      by_cases ha : a' = a
      · subst ha
        simp only [if_true, hm, Option.map_some, aget_append_single, true_and, hn, and_true]
        by_cases hr : r' = r
        · subst hr; simp [hn]
        · have : ¬ r = r' := fun e => hr e.symm
          simp only [hr, if_false, this]
          cases aget r' m <;> rfl
      · simp [ha]

/-! ## the effect of every operation on `Stored` -/

theorem Stored_addFailure {s : State} {now : Int} {a0 : Addr} {r0 : Reporter} {a : Addr}
    {r : Reporter} {t : Int} (h : Stored (addFailure s now a0 r0).1 a r t) :
    Stored s a r t ∨ (a = a0 ∧ r = r0 ∧ t = now / NS) := by
  unfold addFailure at h
  cases hm : aget a0 s.failures with
  | none =>
    simp only [hm] at h
    obtain ⟨m, hm1, hm2⟩ := h
    simp only [List.mem_append, List.mem_singleton] at hm1
    rcases hm1 with hm1 | hm1
    · exact .inl ⟨m, hm1, hm2⟩
    · cases hm1
      simp only [List.mem_singleton, Prod.mk.injEq] at hm2
      exact .inr ⟨rfl, hm2.1, hm2.2⟩
  | some m0 =>
    simp only [hm] at h
    by_cases hh : ahas r0 m0 = true
    · simp only [hh, if_true] at h; exact .inl h
    · simp only [hh, Bool.false_eq_true, if_false] at h
      obtain ⟨m, hm1, hm2⟩ := h
      rcases mem_aset.mp hm1 with ⟨hp, _⟩ | ⟨he, _⟩
      · exact .inl ⟨m, hp, hm2⟩
      · cases he
        simp only [List.mem_append, List.mem_singleton, Prod.mk.injEq] at hm2
        rcases hm2 with hm2 | hm2
        · exact .inl ⟨m0, aget_some_mem hm, hm2⟩
        · exact .inr ⟨rfl, hm2.1, hm2.2⟩

theorem Stored_purge {s : State} {now ttl : Int} {a : Addr} {r : Reporter} {t : Int} :
    Stored { s with failures := purge now ttl s.failures } a r t ↔
      Stored s a r t ∧ fresh now ttl t = true := by
  unfold Stored
  constructor
  · rintro ⟨m', hm', hr⟩
    obtain ⟨m, hm, he, _⟩ := mem_purge.mp hm'
    simp only at he
    rw [he, List.mem_filter] at hr
    exact ⟨⟨m, hm, hr.1⟩, hr.2⟩
  · rintro ⟨⟨m, hm, hr⟩, hf⟩
    have hin : (r, t) ∈ m.filter (fun q => fresh now ttl q.2) := List.mem_filter.mpr ⟨hr, hf⟩
    refine ⟨m.filter (fun q => fresh now ttl q.2), ?_, hin⟩
    apply mem_purge.mpr
    exact ⟨m, hm, rfl, List.ne_nil_of_mem hin⟩

theorem getFailures_inv {s s' : State} {now ttl : Int} {q : Nat} {out : List Addr}
    (hg : getFailures s now ttl q = .ok s' out) :
    allTimesInRange s.failures = true ∧
    s' = { s with failures := purge now ttl s.failures } ∧
    out = ((purge now ttl s.failures).filter fun p => decide (p.2.length ≥ q)).filterMap
      (fun p => if registered s p.1 then some p.1 else none) := by
  unfold getFailures at hg
  by_cases h : allTimesInRange s.failures = true
  · simp only [h, Bool.not_true, Bool.false_eq_true, if_false, GetResult.ok.injEq] at hg
    exact ⟨h, hg.1.symm, hg.2.symm⟩
  · simp [h] at hg

theorem getFailures_of_inRange {s : State} (now ttl : Int) (q : Nat)
    (h : allTimesInRange s.failures = true) :
    ∃ out, getFailures s now ttl q = .ok { s with failures := purge now ttl s.failures } out := by
  unfold getFailures
  simp [h]

theorem mem_listed {s s' : State} {now ttl : Int} {q : Nat} {out : List Addr}
    (hg : getFailures s now ttl q = .ok s' out) (a : Addr) :
    a ∈ out ↔ ∃ m, (a, m) ∈ purge now ttl s.failures ∧ q ≤ m.length ∧ registered s a = true := by
  obtain ⟨_, _, ho⟩ := getFailures_inv hg
  subst ho
  simp only [List.mem_filterMap, List.mem_filter, decide_eq_true_eq]
  constructor
  · rintro ⟨p, ⟨hp, hq⟩, hr⟩
    by_cases hreg : registered s p.1 = true
    · simp only [hreg, if_true, Option.some.injEq] at hr
      subst hr
      exact ⟨p.2, hp, hq, hreg⟩
    · simp [hreg] at hr
  · rintro ⟨m, hm, hq, hr⟩
    exact ⟨(a, m), ⟨hm, hq⟩, by simp [hr]⟩

theorem Stored_adel {s : State} {f : FMap} {a0 a : Addr} {r : Reporter} {t : Int}
    (hf : f = adel a0 s.failures) :
    (∃ m, (a, m) ∈ f ∧ (r, t) ∈ m) ↔ Stored s a r t ∧ a ≠ a0 := by
  subst hf
  unfold Stored
  constructor
  · rintro ⟨m, hm, hr⟩
    obtain ⟨h1, h2⟩ := mem_adel.mp hm
    exact ⟨⟨m, h1, hr⟩, h2⟩
  · rintro ⟨⟨m, hm, hr⟩, hne⟩
    exact ⟨m, mem_adel.mpr ⟨hm, hne⟩, hr⟩

/-- an accepted `add_proxy a0` removes exactly `a0`'s reports -/
theorem Stored_addProxy_accepted {s : State} {a0 : Addr} {i : Bool}
    (hacc : addProxyAccepted s.ordered a0 i = true) {a : Addr} {r : Reporter} {t : Int} :
    Stored (addProxy s a0 i).1 a r t ↔ Stored s a r t ∧ a ≠ a0 := by
  unfold addProxyAccepted at hacc
  simp only [Bool.and_eq_true, Bool.or_eq_true, Bool.not_eq_true'] at hacc
  have h1 : validAddr a0 = true := hacc.1
  have h2 : (s.ordered && !i) = false := by
    rcases hacc.2 with h | h <;> simp [h]
  unfold addProxy
  simp only [h1, h2, Bool.not_true, Bool.false_eq_true, if_false]
  exact Stored_adel rfl

/-- a refused `add_proxy` changes nothing -/
theorem addProxy_refused {s : State} {a0 : Addr} {i : Bool}
    (hacc : addProxyAccepted s.ordered a0 i = false) : (addProxy s a0 i).1 = s := by
  unfold addProxyAccepted at hacc
  unfold addProxy
  by_cases h1 : validAddr a0 = true
  · simp only [h1, Bool.true_and, Bool.or_eq_false_iff, Bool.not_eq_false'] at hacc
    simp [h1, hacc.1, hacc.2]
  · simp [h1]

theorem Stored_removeProxy {s : State} {a0 a : Addr} {r : Reporter} {t : Int}
    (h : Stored (removeProxy s a0).1 a r t) : Stored s a r t := by
  unfold removeProxy at h
  split at h
  · exact h
  · exact h
  · exact ((Stored_adel rfl).mp h).1

theorem Stored_replaceFailedProxy {s : State} {a0 a : Addr} {o : InCluster} {r : Reporter}
    {t : Int} (h : Stored (replaceFailedProxy s a0 o).1 a r t) : Stored s a r t := by
  unfold replaceFailedProxy at h
  split at h
  · exact h
  · exact ((Stored_adel rfl).mp h).1
  · cases o <;> exact h

/-! ## runs -/

def Op.isRestore : Op → Bool
  | .restore _ => true
  | _ => false

/-- inputs in the range the code handles without panicking: report clocks that chrono can
represent, restored blobs that are maps with representable times -/
def OpOk : Op → Prop
  | .report now _ _ => tsInRange (now / NS) = true
  | .restore o => WF o ∧ allTimesInRange o.failures = true
  | _ => True

instance : DecidablePred WF := fun s => by unfold WF; infer_instance

instance : DecidablePred OpOk := fun op => by
  cases op <;> simp only [OpOk] <;> infer_instance

theorem run_nil (s : State) : run s [] = s := rfl
theorem run_cons (s : State) (op : Op) (ops : List Op) : run s (op :: ops) = run (step s op) ops :=
  rfl

theorem run_append (s : State) (xs ys : List Op) : run s (xs ++ ys) = run (run s xs) ys := by
  unfold run; exact List.foldl_append

/-- invariants proved step-wise hold after every run -/
theorem inv_run {P : State → Prop} {Q : Op → Prop}
    (hstep : ∀ s op, Q op → P s → P (step s op)) :
    ∀ (ops : List Op) (s : State), P s → (∀ op ∈ ops, Q op) → P (run s ops) := by
  intro ops
  induction ops with
  | nil => intro s h _; exact h
  | cons op rest ih =>
    intro s h hq
    rw [run_cons]
    exact ih _ (hstep s op (hq op (List.mem_cons_self ..)) h)
      (fun o ho => hq o (List.mem_cons_of_mem _ ho))

theorem wf_step {s : State} {op : Op} (hq : OpOk op) (h : WF s) : WF (step s op) := by
  cases op with
  | report now a r => exact wf_addFailure h now a r
  | query now ttl q =>
    simp only [step]
    cases hg : getFailures s now ttl q with
    | ok s' out => exact wf_getFailures h hg
    | panic => exact h
  | cleanup now ttl q =>
    simp only [step]
    cases hg : getFailures s now ttl q with
    | ok s' out => exact wf_getFailures h hg
    | panic => exact h
  | addProxy a i => exact wf_addProxy h a i
  | removeProxy a => exact wf_removeProxy h a
  | replaceFailed a o => exact wf_replaceFailedProxy h a o
  | allocate as b => exact wf_allocate h as b
  | release as b => exact wf_release h as b
  | restore o => exact wf_restore h hq.1

theorem wf_run {s : State} {ops : List Op} (h : WF s) (hq : ∀ op ∈ ops, OpOk op) :
    WF (run s ops) :=
  inv_run (P := WF) (Q := OpOk) (fun _ _ hq h => wf_step hq h) ops s h hq

/-- every stored time is representable by chrono -/
def TimesOk (s : State) : Prop := ∀ a r t, Stored s a r t → tsInRange t = true

theorem allTimesInRange_iff {s : State} : allTimesInRange s.failures = true ↔ TimesOk s := by
  unfold allTimesInRange TimesOk Stored
  simp only [List.all_eq_true]
  constructor
  · rintro h a r t ⟨m, hm, hr⟩
    exact h (a, m) hm (r, t) hr
  · intro h p hp q hq
    exact h p.1 q.1 q.2 ⟨p.2, hp, hq⟩

/-- a non-report, non-restore step only removes reports -/
theorem Stored_step_sub {s : State} {op : Op} {a : Addr} {r : Reporter} {t : Int}
    (h : Stored (step s op) a r t) :
    Stored s a r t ∨ (∃ now, op = .report now a r ∧ t = now / NS) ∨ (∃ o, op = .restore o) := by
  cases op with
  | report now a0 r0 =>
    rcases Stored_addFailure h with h | ⟨rfl, rfl, rfl⟩
    · exact .inl h
    · exact .inr (.inl ⟨now, rfl, rfl⟩)
  | query now ttl q =>
    simp only [step] at h
    cases hg : getFailures s now ttl q with
    | ok s' out =>
      simp only [hg] at h
      rw [(getFailures_inv hg).2.1] at h
      exact .inl (Stored_purge.mp h).1
    | panic => simp only [hg] at h; exact .inl h
  | cleanup now ttl q =>
    simp only [step] at h
    cases hg : getFailures s now ttl q with
    | ok s' out =>
      simp only [hg] at h
      rw [(getFailures_inv hg).2.1] at h
      exact .inl (Stored_purge.mp h).1
    | panic => simp only [hg] at h; exact .inl h
  | addProxy a0 i =>
    simp only [step] at h
    by_cases hacc : addProxyAccepted s.ordered a0 i = true
    · exact .inl ((Stored_addProxy_accepted hacc).mp h).1
    · rw [addProxy_refused (by simpa using hacc)] at h; exact .inl h
  | removeProxy a0 => exact .inl (Stored_removeProxy h)
  | replaceFailed a0 o => exact .inl (Stored_replaceFailedProxy h)
  | allocate as b => exact .inl h
  | release as b => exact .inl h
  | restore o => exact .inr (.inr ⟨o, rfl⟩)

theorem timesOk_step {s : State} {op : Op} (hq : OpOk op) (h : TimesOk s) :
    TimesOk (step s op) := by
  intro a r t hs
  cases op with
  | restore o =>
    simp only [step, restore] at hs
    split at hs
    · exact h a r t hs
    · exact (allTimesInRange_iff.mp hq.2) a r t hs
  | report now a0 r0 =>
    rcases Stored_step_sub hs with h1 | ⟨now', he, rfl⟩ | ⟨o, he⟩
    · exact h a r t h1
    · cases he; exact hq
    · cases he
  | query _ _ _ | cleanup _ _ _ | addProxy _ _ | removeProxy _ | replaceFailed _ _
  | allocate _ _ | release _ _ =>
    rcases Stored_step_sub hs with h1 | ⟨now', he, _⟩ | ⟨o, he⟩
    · exact h a r t h1
    · cases he
    · cases he

theorem timesOk_run {s : State} {ops : List Op} (h : TimesOk s) (hq : ∀ op ∈ ops, OpOk op) :
    TimesOk (run s ops) :=
  inv_run (P := TimesOk) (Q := OpOk) (fun _ _ hq h => timesOk_step hq h) ops s h hq

theorem timesOk_init (o : Bool) : TimesOk (init o) := by
  intro a r t h
  obtain ⟨m, hm, _⟩ := h
  simp [init] at hm

/-! ## history: every stored report is justified by a report operation -/

/-- `op` is an `add_proxy a` call that passes the argument checks (and therefore clears `a`) -/
def effAdd (ordered : Bool) (a : Addr) : Op → Prop
  | .addProxy a' i => a' = a ∧ addProxyAccepted ordered a' i = true
  | _ => False

/-- every stored report comes from a `report` operation of the history at a time `τ` whose
whole seconds are the stored time, and `a` was not re-registered since -/
def Justified (ordered : Bool) (h : List Op) (s : State) : Prop :=
  ∀ a r t, Stored s a r t →
    ∃ pre post τ, h = pre ++ Op.report τ a r :: post ∧ t = τ / NS ∧
      ∀ op ∈ post, ¬ effAdd ordered a op

theorem ordered_step {s : State} {op : Op} (hr : op.isRestore = false) :
    (step s op).ordered = s.ordered := by
  cases op with
  | report now a r =>
    simp only [step, addFailure]
    split
    · split <;> rfl
    · rfl
  | query now ttl q =>
    simp only [step]
    cases hg : getFailures s now ttl q with
    | ok s' out => simp only; rw [(getFailures_inv hg).2.1]
    | panic => rfl
  | cleanup now ttl q =>
    simp only [step]
    cases hg : getFailures s now ttl q with
    | ok s' out => simp only; rw [(getFailures_inv hg).2.1]
    | panic => rfl
  | addProxy a i =>
    simp only [step, addProxy]
    split
    · rfl
    · split <;> rfl
  | removeProxy a =>
    simp only [step, removeProxy]
    split <;> rfl
  | replaceFailed a o =>
    simp only [step, replaceFailedProxy]
    split
    · rfl
    · rfl
    · cases o <;> rfl
  | allocate as b => rfl
  | release as b => rfl
  | restore o => simp [Op.isRestore] at hr

theorem justified_step {ordered : Bool} {h : List Op} {s : State} {op : Op}
    (ho : s.ordered = ordered) (hr : op.isRestore = false) (hj : Justified ordered h s) :
    Justified ordered (h ++ [op]) (step s op) := by
  intro a r t hs
  rcases Stored_step_sub hs with h1 | ⟨now, he, ht⟩ | ⟨o, he⟩
  · obtain ⟨pre, post, τ, hh, ht, hp⟩ := hj a r t h1
    refine ⟨pre, post ++ [op], τ, by simp [hh], ht, ?_⟩
    intro x hx
    rcases List.mem_append.mp hx with hx | hx
    · exact hp x hx
    · simp only [List.mem_singleton] at hx
      subst hx
      intro hef
      cases x with
      | addProxy a0 i =>
        obtain ⟨rfl, hacc⟩ := hef
        rw [← ho] at hacc
        simp only [step] at hs
        exact ((Stored_addProxy_accepted hacc).mp hs).2 rfl
      | _ => exact hef
  · subst he
    exact ⟨h, [], now, by simp, ht, by simp⟩
  · subst he; simp [Op.isRestore] at hr

theorem justified_run {ordered : Bool} :
    ∀ (ops h : List Op) (s : State), s.ordered = ordered →
      (∀ op ∈ ops, op.isRestore = false) → Justified ordered h s →
      Justified ordered (h ++ ops) (run s ops) := by
  intro ops
  induction ops with
  | nil => intro h s _ _ hj; simpa [run_nil] using hj
  | cons op rest ih =>
    intro h s ho hr hj
    rw [run_cons]
    have hr1 := hr op (List.mem_cons_self ..)
    have := ih (h ++ [op]) (step s op) (by rw [ordered_step hr1]; exact ho)
      (fun o hm => hr o (List.mem_cons_of_mem _ hm)) (justified_step ho hr1 hj)
    simpa using this

theorem justified_init (o : Bool) : Justified o [] (init o) := by
  intro a r t h
  obtain ⟨m, hm, _⟩ := h
  simp [init] at hm

end Um.Failures
