import UmProofs.RespBasic
/-!
# C15 — the index parser: consumed-length bounds, stability under appended bytes, fuel
-/
namespace Um.Resp
open Um

/-- a verdict that has been given: anything but `NotEnoughData` -/
def Settled {α : Type} (r : PR α) : Prop := r ≠ .error .notEnough

theorem settled_error_of {α β : Type} {e : PErr} {r : PR β} (h : (Except.error e : PR β) = r)
    (hr : Settled r) : Settled (Except.error e : PR α) := by
  intro hh; injection hh with hh; subst hh; exact hr h.symm

/-! ## parse_len -/

theorem parseLen_eq (s : Bool) (b : Bytes) :
    parseLen s b =
      match parseLine s b with
      | .error e => .error e
      | .ok ((_, e), c) =>
        match btoiI64 (b.take e) with
        | none => .error .invalid
        | some len => .ok (len, c) := by
  unfold parseLen
  cases h : parseLine s b with
  | error e => rfl
  | ok v =>
    obtain ⟨⟨st, e⟩, c⟩ := v
    obtain ⟨h0, hn, hle, _, _⟩ := parseLine_ok h
    subst h0
    simp only
    rw [sliceGet_zero b e (by omega)]
    rfl

theorem parseLen_ok {s : Bool} {b : Bytes} {len : Int} {c : Nat} (h : parseLen s b = .ok (len, c)) :
    2 ≤ c ∧ c ≤ b.length ∧ parseLine s b = .ok ((0, c - 2), c) ∧ btoiI64 (b.take (c - 2)) = some len := by
  rw [parseLen_eq] at h
  cases hl : parseLine s b with
  | error e => simp [hl] at h
  | ok v =>
    obtain ⟨⟨st, e⟩, c'⟩ := v
    obtain ⟨h0, hn, hle, _, _⟩ := parseLine_ok hl
    simp only [hl] at h
    cases hb : btoiI64 (b.take e) with
    | none => simp [hb] at h
    | some l =>
      simp only [hb, Except.ok.injEq, Prod.mk.injEq] at h
      obtain ⟨h1, h2⟩ := h
      subst h1 h2 h0 hn
      exact ⟨by omega, hle, by simp, by simpa using hb⟩

theorem parseLen_ext {s : Bool} {b : Bytes} (x : Bytes) {r : PR (Int × Nat)}
    (h : parseLen s b = r) (hr : Settled r) : parseLen s (b ++ x) = r := by
  rw [parseLen_eq] at h ⊢
  cases hl : parseLine s b with
  | error e =>
    simp only [hl] at h
    have : parseLine s (b ++ x) = .error e :=
      parseLine_ext x hl (settled_error_of h hr)
    simp only [this]; exact h
  | ok v =>
    obtain ⟨⟨st, e⟩, c⟩ := v
    obtain ⟨h0, hn, hle, _, _⟩ := parseLine_ok hl
    have := parseLine_ext x hl (by simp)
    simp only [hl] at h
    simp only [this]
    rw [List.take_append_of_le_length (by omega)]
    exact h

/-! ## parse_bulk_str -/

theorem parseBulkStr_ok {s : Bool} {b : Bytes} {v : RespIdx} {n : Nat}
    (h : parseBulkStr s b = .ok (v, n)) : 2 ≤ n ∧ n ≤ b.length := by
  unfold parseBulkStr at h
  cases hl : parseLen s b with
  | error e => simp [hl] at h
  | ok p =>
    obtain ⟨len, c⟩ := p
    obtain ⟨h2, hle, _, _⟩ := parseLen_ok hl
    simp only [hl] at h
    split at h
    · simp only [Except.ok.injEq, Prod.mk.injEq] at h; omega
    · split at h
      · simp at h
      · split at h
        · simp at h
        · simp only [Except.ok.injEq, Prod.mk.injEq] at h; omega

theorem sliceGet_ext_of_le {b : Bytes} (x : Bytes) {s e : Nat} (h : e ≤ b.length) :
    sliceGet (b ++ x) s e = sliceGet b s e := by
  unfold sliceGet
  by_cases hc : s ≤ e ∧ e ≤ b.length
  · have hc' : s ≤ e ∧ e ≤ (b ++ x).length := ⟨hc.1, by simp; omega⟩
    simp only [hc, hc', and_self, if_true]
    rw [List.drop_append_of_le_length (by omega), List.take_append_of_le_length (by simp; omega)]
  · have hc' : ¬ (s ≤ e ∧ e ≤ (b ++ x).length) := by
      intro hh; apply hc; exact ⟨hh.1, h⟩
    simp only [hc, hc', if_false]

theorem parseBulkStr_ext {s : Bool} {b : Bytes} (x : Bytes) {r : PR (RespIdx × Nat)}
    (h : parseBulkStr s b = r) (hr : Settled r) : parseBulkStr s (b ++ x) = r := by
  unfold parseBulkStr at h ⊢
  cases hl : parseLen s b with
  | error e =>
    simp only [hl] at h
    have : parseLen s (b ++ x) = .error e :=
      parseLen_ext x hl (settled_error_of h hr)
    simp only [this]; exact h
  | ok p =>
    obtain ⟨len, c⟩ := p
    have := parseLen_ext x hl (by simp [Settled])
    simp only [hl] at h
    simp only [this]
    by_cases hneg : len < 0
    · simp only [hneg, if_true] at h ⊢; exact h
    · simp only [hneg, if_false] at h ⊢
      by_cases hshort : b.length < c + len.toNat + 2
      · simp only [hshort, if_true] at h; exact absurd h.symm hr
      · have hlong : ¬ ((b ++ x).length < c + len.toNat + 2) := by simp; omega
        simp only [hshort, hlong, if_false] at h ⊢
        rw [sliceGet_ext_of_le x (by omega)]
        exact h

/-! ## the non-recursive arms -/

theorem shift1_ok {r : PR (RespIdx × Nat)} {v : RespIdx} {n : Nat} (h : shift1 r = .ok (v, n)) :
    ∃ v' n', r = .ok (v', n') ∧ v = advance 1 v' ∧ n = 1 + n' := by
  unfold shift1 at h
  split at h
  · simp at h
  · rename_i v' n'
    simp only [Except.ok.injEq, Prod.mk.injEq] at h
    exact ⟨v', n', rfl, h.1.symm, h.2.symm⟩

theorem shift1_error {r : PR (RespIdx × Nat)} {e : PErr} (h : shift1 r = .error e) : r = .error e := by
  unfold shift1 at h
  split at h
  · simpa using h
  · simp at h

theorem shift1_settled {r : PR (RespIdx × Nat)} (h : Settled (shift1 r)) : Settled r := by
  intro hh; apply h; rw [hh]; rfl

theorem parseLineAs_ok {mk : DataIndex → RespIdx} {s : Bool} {b : Bytes} {v : RespIdx} {n : Nat}
    (h : parseLineAs mk s b = .ok (v, n)) : 2 ≤ n ∧ n ≤ b.length ∧ v = mk (0, n - 2) ∧
      parseLine s b = .ok ((0, n - 2), n) := by
  unfold parseLineAs at h
  cases hl : parseLine s b with
  | error e => simp [hl] at h
  | ok p =>
    obtain ⟨⟨st, e⟩, c⟩ := p
    obtain ⟨h0, hn, hle, _, _⟩ := parseLine_ok hl
    simp only [hl, Except.ok.injEq, Prod.mk.injEq] at h
    obtain ⟨h1, h2⟩ := h
    subst h0 hn h2
    exact ⟨by omega, hle, by simpa using h1.symm, by simp⟩

theorem parseLineAs_ext {mk : DataIndex → RespIdx} {s : Bool} {b : Bytes} (x : Bytes)
    {r : PR (RespIdx × Nat)} (h : parseLineAs mk s b = r) (hr : Settled r) :
    parseLineAs mk s (b ++ x) = r := by
  unfold parseLineAs at h ⊢
  cases hl : parseLine s b with
  | error e =>
    simp only [hl] at h
    have : parseLine s (b ++ x) = .error e :=
      parseLine_ext x hl (settled_error_of h hr)
    simp only [this]; exact h
  | ok p =>
    have := parseLine_ext x hl (by simp)
    simp only [hl] at h
    simp only [this]; exact h

theorem parseLeaf_ok {s : Bool} {p : UInt8} {b : Bytes} {r : PR (RespIdx × Nat)} {v : RespIdx} {n : Nat}
    (h : parseLeaf s p b = some r) (hr : r = .ok (v, n)) : 2 ≤ n ∧ n ≤ b.length := by
  unfold parseLeaf at h
  subst hr
  split at h
  · simp only [Option.some.injEq] at h; exact parseBulkStr_ok h
  · split at h
    · simp only [Option.some.injEq] at h; have := parseLineAs_ok h; omega
    · split at h
      · simp only [Option.some.injEq] at h; have := parseLineAs_ok h; omega
      · split at h
        · simp only [Option.some.injEq] at h; have := parseLineAs_ok h; omega
        · simp at h

theorem parseLeaf_ext {s : Bool} {p : UInt8} {b : Bytes} (x : Bytes) :
    (parseLeaf s p b = none → parseLeaf s p (b ++ x) = none) ∧
    (∀ r, parseLeaf s p b = some r → Settled r → parseLeaf s p (b ++ x) = some r) := by
  unfold parseLeaf
  constructor
  · intro h
    split at h
    · simp at h
    · split at h
      · simp at h
      · split at h
        · simp at h
        · split at h
          · simp at h
          · rename_i h1 h2 h3 h4; simp [h1, h2, h3, h4]
  · intro r h hr
    by_cases h1 : p = tBulk
    · rw [if_pos h1] at h ⊢
      simp only [Option.some.injEq] at h ⊢; exact parseBulkStr_ext x h hr
    · rw [if_neg h1] at h ⊢
      by_cases h2 : p = tSimple
      · rw [if_pos h2] at h ⊢
        simp only [Option.some.injEq] at h ⊢; exact parseLineAs_ext x h hr
      · rw [if_neg h2] at h ⊢
        by_cases h3 : p = tInteger
        · rw [if_pos h3] at h ⊢
          simp only [Option.some.injEq] at h ⊢; exact parseLineAs_ext x h hr
        · rw [if_neg h3] at h ⊢
          by_cases h4 : p = tError
          · rw [if_pos h4] at h ⊢
            simp only [Option.some.injEq] at h ⊢; exact parseLineAs_ext x h hr
          · rw [if_neg h4] at h; simp at h

theorem parseArrayHeader_nil {s : Bool} {b : Bytes} {c : Nat} (h : parseArrayHeader s b = .nil c) :
    2 ≤ c ∧ c ≤ b.length := by
  unfold parseArrayHeader at h
  cases hl : parseLen s b with
  | error e => simp [hl] at h
  | ok p =>
    obtain ⟨len, c'⟩ := p
    obtain ⟨h2, hle, _, _⟩ := parseLen_ok hl
    simp only [hl] at h
    split at h
    · simp only [ArrHdr.nil.injEq] at h; omega
    · split at h <;> simp at h

theorem parseArrayHeader_elems {s : Bool} {b : Bytes} {k c : Nat} (h : parseArrayHeader s b = .elems k c) :
    2 ≤ c ∧ c ≤ b.length := by
  unfold parseArrayHeader at h
  cases hl : parseLen s b with
  | error e => simp [hl] at h
  | ok p =>
    obtain ⟨len, c'⟩ := p
    obtain ⟨h2, hle, _, _⟩ := parseLen_ok hl
    simp only [hl] at h
    split at h
    · simp at h
    · split at h
      · simp at h
      · simp only [ArrHdr.elems.injEq] at h; omega

theorem parseArrayHeader_ext {s : Bool} {b : Bytes} (x : Bytes) {r : ArrHdr}
    (h : parseArrayHeader s b = r) (hr : r ≠ .err .notEnough) : parseArrayHeader s (b ++ x) = r := by
  unfold parseArrayHeader at h ⊢
  cases hl : parseLen s b with
  | error e =>
    simp only [hl] at h
    have : parseLen s (b ++ x) = .error e :=
      parseLen_ext x hl (by intro hh; injection hh with hh; subst hh; exact hr h.symm)
    simp only [this]; exact h
  | ok p =>
    have := parseLen_ext x hl (by simp [Settled])
    simp only [hl] at h
    simp only [this]; exact h

/-! ## bounds of the recursive parser -/

theorem parse_bounds (s : Bool) : ∀ f : Nat,
    (∀ d b idx n, parseResp s f d b = .ok (idx, n) → 1 ≤ n ∧ n ≤ b.length) ∧
    (∀ d bufLen rest k c idxs total, parseElems s f d bufLen rest k c = .ok (idxs, total) →
      c ≤ total ∧ total ≤ c + rest.length ∧ idxs.length = k) := by
  intro f
  induction f with
  | zero =>
    constructor
    · intro d b idx n h; simp [parseResp] at h
    · intro d bufLen rest k c idxs total h
      cases k with
      | zero => simp [parseElems] at h; obtain ⟨h1, h2⟩ := h; subst h1 h2; simp
      | succ k => simp [parseElems] at h
  | succ f ih =>
    obtain ⟨ihR, ihE⟩ := ih
    constructor
    · intro d b idx n h
      cases b with
      | nil => simp [parseResp] at h
      | cons p next =>
        simp only [parseResp] at h
        cases hleaf : parseLeaf s p next with
        | some r =>
          simp only [hleaf] at h
          obtain ⟨v', n', hr, _, hn⟩ := shift1_ok h
          have := parseLeaf_ok hleaf hr
          simp; omega
        | none =>
          simp only [hleaf] at h
          split at h
          · by_cases hnest : nestingExceeded d = true
            · rw [if_pos hnest] at h; simp at h
            rw [if_neg hnest] at h
            cases hh : parseArrayHeader s next with
            | err e => simp [hh] at h
            | nil c =>
              simp only [hh] at h
              obtain ⟨v', n', hr, _, hn⟩ := shift1_ok h
              simp only [Except.ok.injEq, Prod.mk.injEq] at hr
              have := parseArrayHeader_nil hh
              simp; omega
            | elems k c =>
              simp only [hh] at h
              have hb := parseArrayHeader_elems hh
              cases he : parseElems s f (d + 1) next.length (next.drop c) k c with
              | error e => simp [he] at h
              | ok pr =>
                obtain ⟨arr, c'⟩ := pr
                simp only [he] at h
                obtain ⟨v', n', hr, _, hn⟩ := shift1_ok h
                simp only [Except.ok.injEq, Prod.mk.injEq] at hr
                have := ihE _ _ _ _ _ _ _ he
                simp only [List.length_drop] at this
                simp; omega
          · simp at h
    · intro d bufLen rest k c idxs total h
      cases k with
      | zero => simp [parseElems] at h; obtain ⟨h1, h2⟩ := h; subst h1 h2; simp
      | succ k =>
        simp only [parseElems] at h
        split at h
        · simp at h
        · cases hp : parseResp s f d rest with
          | error e => simp [hp] at h
          | ok pr =>
            obtain ⟨v, ec⟩ := pr
            simp only [hp] at h
            have hb := ihR _ _ _ _ hp
            cases he : parseElems s f d bufLen (rest.drop ec) k (c + ec) with
            | error e => simp [he] at h
            | ok pr2 =>
              obtain ⟨vs, t⟩ := pr2
              simp only [he, Except.ok.injEq, Prod.mk.injEq] at h
              obtain ⟨h1, h2⟩ := h
              subst h1 h2
              have := ihE _ _ _ _ _ _ _ he
              simp only [List.length_drop] at this
              simp; omega

theorem parseResp_bounds {s : Bool} {f d : Nat} {b : Bytes} {idx : RespIdx} {n : Nat}
    (h : parseResp s f d b = .ok (idx, n)) : 1 ≤ n ∧ n ≤ b.length := (parse_bounds s f).1 _ _ _ _ h

theorem parseElems_bounds {s : Bool} {f d bufLen : Nat} {rest : Bytes} {k c : Nat} {idxs : List RespIdx}
    {total : Nat} (h : parseElems s f d bufLen rest k c = .ok (idxs, total)) :
    c ≤ total ∧ total ≤ c + rest.length ∧ idxs.length = k := (parse_bounds s f).2 _ _ _ _ _ _ _ h

/-! ## verdicts are stable under appended bytes (same fuel) -/

theorem parse_ext (s : Bool) (x : Bytes) : ∀ f : Nat,
    (∀ d b r, parseResp s f d b = r → Settled r → parseResp s f d (b ++ x) = r) ∧
    (∀ d bufLen rest k c r, parseElems s f d bufLen rest k c = r → Settled r → c + rest.length = bufLen →
      parseElems s f d (bufLen + x.length) (rest ++ x) k c = r) := by
  intro f
  induction f with
  | zero =>
    constructor
    · intro d b r h _; simp only [parseResp] at h ⊢; exact h
    · intro d bufLen rest k c r h _ _
      cases k with
      | zero => simp only [parseElems] at h ⊢; exact h
      | succ k => simp only [parseElems] at h ⊢; exact h
  | succ f ih =>
    obtain ⟨ihR, ihE⟩ := ih
    constructor
    · intro d b r h hr
      cases b with
      | nil => simp only [parseResp] at h; exact absurd h.symm hr
      | cons p next =>
        simp only [parseResp, List.cons_append] at h ⊢
        obtain ⟨hnone, hsome⟩ := parseLeaf_ext (s := s) (p := p) (b := next) x
        cases hleaf : parseLeaf s p next with
        | some r' =>
          simp only [hleaf] at h
          rw [hsome r' hleaf (shift1_settled (by rw [h]; exact hr))]
          exact h
        | none =>
          simp only [hleaf] at h
          rw [hnone hleaf]
          simp only
          by_cases harr : p = tArr
          · simp only [harr, if_true] at h ⊢
            by_cases hnest : nestingExceeded d = true
            · rw [if_pos hnest] at h ⊢; exact h
            rw [if_neg hnest] at h ⊢
            cases hh : parseArrayHeader s next with
            | err e =>
              simp only [hh] at h
              rw [parseArrayHeader_ext x hh (by intro hc; injection hc with hc; subst hc; exact hr h.symm)]
              exact h
            | nil c =>
              simp only [hh] at h
              rw [parseArrayHeader_ext x hh (by simp)]
              exact h
            | elems k c =>
              simp only [hh] at h
              rw [parseArrayHeader_ext x hh (by simp)]
              simp only
              have hb := parseArrayHeader_elems hh
              have hset : Settled (parseElems s f (d + 1) next.length (next.drop c) k c) := by
                intro hc; rw [hc] at h; exact hr h.symm
              have := ihE (d + 1) next.length (next.drop c) k c _ rfl hset (by simp; omega)
              rw [List.length_append, List.drop_append_of_le_length hb.2, this]
              exact h
          · simp only [harr, if_false] at h ⊢; exact h
    · intro d bufLen rest k c r h hr hlen
      cases k with
      | zero => simp only [parseElems] at h ⊢; exact h
      | succ k =>
        simp only [parseElems] at h ⊢
        have hg : ¬ (c > bufLen) := by omega
        have hg' : ¬ (c > bufLen + x.length) := by omega
        simp only [hg, hg', if_false] at h ⊢
        cases hp : parseResp s f d rest with
        | error e =>
          simp only [hp] at h
          rw [ihR d rest _ hp (by intro hc; injection hc with hc; subst hc; exact hr h.symm)]
          exact h
        | ok pr =>
          obtain ⟨v, ec⟩ := pr
          simp only [hp] at h
          rw [ihR d rest _ hp (by simp [Settled])]
          simp only
          have hb := parseResp_bounds hp
          have hset : Settled (parseElems s f d bufLen (rest.drop ec) k (c + ec)) := by
            intro hc; rw [hc] at h; exact hr h.symm
          have := ihE d bufLen (rest.drop ec) k (c + ec) _ rfl hset (by simp; omega)
          rw [List.drop_append_of_le_length hb.2, this]
          exact h

/-! ## fuel: monotone, and `buf.length + 1` is enough -/

theorem parse_fuel_mono (s : Bool) : ∀ f : Nat,
    (∀ d b r, parseResp s f d b = r → r ≠ .error .fuel → parseResp s (f + 1) d b = r) ∧
    (∀ d bufLen rest k c r, parseElems s f d bufLen rest k c = r → r ≠ .error .fuel →
      parseElems s (f + 1) d bufLen rest k c = r) := by
  intro f
  induction f with
  | zero =>
    constructor
    · intro d b r h hr; simp only [parseResp] at h; exact absurd h.symm hr
    · intro d bufLen rest k c r h hr
      cases k with
      | zero => simp only [parseElems] at h ⊢; exact h
      | succ k => simp only [parseElems] at h; exact absurd h.symm hr
  | succ f ih =>
    obtain ⟨ihR, ihE⟩ := ih
    constructor
    · intro d b r h hr
      cases b with
      | nil => simp only [parseResp] at h ⊢; exact h
      | cons p next =>
        rw [parseResp] at h ⊢
        cases hleaf : parseLeaf s p next with
        | some r' => simp only [hleaf] at h ⊢; exact h
        | none =>
          simp only [hleaf] at h ⊢
          by_cases harr : p = tArr
          · simp only [harr, if_true] at h ⊢
            by_cases hnest : nestingExceeded d = true
            · rw [if_pos hnest] at h ⊢; exact h
            rw [if_neg hnest] at h ⊢
            cases hh : parseArrayHeader s next with
            | err e => simp only [hh] at h ⊢; exact h
            | nil c => simp only [hh] at h ⊢; exact h
            | elems k c =>
              simp only [hh] at h ⊢
              have hne : parseElems s f (d + 1) next.length (next.drop c) k c ≠ .error .fuel := by
                intro hc; rw [hc] at h; exact hr h.symm
              rw [ihE _ _ _ _ _ _ rfl hne]
              exact h
          · simp only [harr, if_false] at h ⊢; exact h
    · intro d bufLen rest k c r h hr
      cases k with
      | zero => simp only [parseElems] at h ⊢; exact h
      | succ k =>
        rw [parseElems] at h ⊢
        by_cases hg : c > bufLen
        · simp only [hg, if_true] at h ⊢; exact h
        · simp only [hg, if_false] at h ⊢
          cases hp : parseResp s f d rest with
          | error e =>
            simp only [hp] at h
            rw [ihR d rest _ hp (by intro hc; injection hc with hc; subst hc; exact hr h.symm)]
            exact h
          | ok pr =>
            obtain ⟨v, ec⟩ := pr
            simp only [hp] at h
            rw [ihR d rest _ hp (by simp)]
            simp only
            have hne : parseElems s f d bufLen (rest.drop ec) k (c + ec) ≠ .error .fuel := by
              intro hc; rw [hc] at h; exact hr h.symm
            rw [ihE _ _ _ _ _ _ rfl hne]
            exact h

theorem parseResp_fuel_le {s : Bool} {f f' d : Nat} {b : Bytes} {r : PR (RespIdx × Nat)}
    (h : parseResp s f d b = r) (hr : r ≠ .error .fuel) (hle : f ≤ f') : parseResp s f' d b = r := by
  induction hle with
  | refl => exact h
  | step _ ih => exact (parse_fuel_mono s _).1 _ _ _ ih hr

theorem parseLine_error {s : Bool} {b : Bytes} {e : PErr} (h : parseLine s b = .error e) :
    e = .notEnough ∨ e = .invalid := by
  unfold parseLine at h
  split at h
  · simp at h; exact Or.inl h.symm
  · split at h
    · simp at h; exact Or.inr h.symm
    · split at h
      · simp at h; exact Or.inr h.symm
      · simp at h

theorem parseLen_error {s : Bool} {b : Bytes} {e : PErr} (h : parseLen s b = .error e) :
    e = .notEnough ∨ e = .invalid := by
  rw [parseLen_eq] at h
  cases hl : parseLine s b with
  | error e' => simp only [hl, Except.error.injEq] at h; subst h; exact parseLine_error hl
  | ok v =>
    simp only [hl] at h
    split at h
    · simp at h; exact Or.inr h.symm
    · simp at h

theorem parseLeaf_ne_fuel {s : Bool} {p : UInt8} {b : Bytes} : parseLeaf s p b ≠ some (.error .fuel) := by
  have hline : ∀ mk, parseLineAs mk s b ≠ .error .fuel := by
    intro mk hc
    unfold parseLineAs at hc
    cases hl : parseLine s b with
    | error e =>
      simp only [hl, Except.error.injEq] at hc; subst hc
      cases parseLine_error hl <;> simp_all
    | ok v => simp [hl] at hc
  have hbulk : parseBulkStr s b ≠ .error .fuel := by
    intro hc
    unfold parseBulkStr at hc
    cases hl : parseLen s b with
    | error e =>
      simp only [hl, Except.error.injEq] at hc; subst hc
      cases parseLen_error hl <;> simp_all
    | ok v =>
      simp only [hl] at hc
      split at hc
      · simp at hc
      · split at hc
        · simp at hc
        · split at hc <;> simp at hc
  intro h
  unfold parseLeaf at h
  split at h
  · simp only [Option.some.injEq] at h; exact hbulk h
  · split at h
    · simp only [Option.some.injEq] at h; exact hline _ h
    · split at h
      · simp only [Option.some.injEq] at h; exact hline _ h
      · split at h
        · simp only [Option.some.injEq] at h; exact hline _ h
        · simp at h

theorem parseArrayHeader_ne_fuel {s : Bool} {b : Bytes} : parseArrayHeader s b ≠ .err .fuel := by
  intro h
  unfold parseArrayHeader at h
  cases hl : parseLen s b with
  | error e =>
    simp only [hl, ArrHdr.err.injEq] at h; subst h
    cases parseLen_error hl <;> simp_all
  | ok v =>
    simp only [hl] at h
    split at h
    · simp at h
    · split at h <;> simp at h

theorem parse_fuel_enough (s : Bool) : ∀ f : Nat,
    (∀ d b, b.length + 1 ≤ f → parseResp s f d b ≠ .error .fuel) ∧
    (∀ d bufLen rest k c, rest.length + 2 ≤ f → parseElems s f d bufLen rest k c ≠ .error .fuel) := by
  intro f
  induction f with
  | zero =>
    constructor
    · intro d b h; omega
    · intro d bufLen rest k c h; omega
  | succ f ih =>
    obtain ⟨ihR, ihE⟩ := ih
    constructor
    · intro d b hf
      cases b with
      | nil => simp [parseResp]
      | cons p next =>
        rw [parseResp]
        cases hleaf : parseLeaf s p next with
        | some r' =>
          simp only
          intro hc
          have := shift1_error hc
          subst this
          exact parseLeaf_ne_fuel hleaf
        | none =>
          simp only
          by_cases harr : p = tArr
          · simp only [harr, if_true]
            by_cases hnest : nestingExceeded d = true
            · rw [if_pos hnest]; simp
            rw [if_neg hnest]
            cases hh : parseArrayHeader s next with
            | err e =>
              simp only
              intro hc
              simp only [Except.error.injEq] at hc; subst hc
              exact parseArrayHeader_ne_fuel hh
            | nil c => simp [shift1]
            | elems k c =>
              simp only
              have hb := parseArrayHeader_elems hh
              have := ihE (d + 1) next.length (next.drop c) k c (by simp at hf ⊢; omega)
              cases he : parseElems s f (d + 1) next.length (next.drop c) k c with
              | error e => simp only; intro hc; simp only [Except.error.injEq] at hc; subst hc; exact this he
              | ok v => simp [shift1]
          · simp [harr]
    · intro d bufLen rest k c hf
      cases k with
      | zero => simp [parseElems]
      | succ k =>
        rw [parseElems]
        by_cases hg : c > bufLen
        · simp [hg]
        · simp only [hg, if_false]
          have h1 := ihR d rest (by omega)
          cases hp : parseResp s f d rest with
          | error e => simp only; intro hc; simp only [Except.error.injEq] at hc; subst hc; exact h1 hp
          | ok pr =>
            obtain ⟨v, ec⟩ := pr
            simp only
            have hb := parseResp_bounds hp
            have h2 := ihE d bufLen (rest.drop ec) k (c + ec) (by simp; omega)
            cases he : parseElems s f d bufLen (rest.drop ec) k (c + ec) with
            | error e => simp only; intro hc; simp only [Except.error.injEq] at hc; subst hc; exact h2 he
            | ok v => simp

theorem parse_ne_fuel (s : Bool) (b : Bytes) : parse s b ≠ .error .fuel :=
  (parse_fuel_enough s _).1 0 b (Nat.le_refl _)

/-- `parse` on an extended buffer: every settled verdict is kept -/
theorem parse_append {s : Bool} {b : Bytes} (x : Bytes) {r : PR (RespIdx × Nat)}
    (h : parse s b = r) (hr : Settled r) : parse s (b ++ x) = r := by
  unfold parse at h ⊢
  have hne : r ≠ .error .fuel := by rw [← h]; exact parse_ne_fuel s b
  have h1 := (parse_ext s x _).1 0 b r h hr
  exact parseResp_fuel_le h1 hne (by simp)

theorem parse_ok_bounds {s : Bool} {b : Bytes} {idx : RespIdx} {n : Nat} (h : parse s b = .ok (idx, n)) :
    1 ≤ n ∧ n ≤ b.length := parseResp_bounds h

/-! ## with the capped reservation no call answers `capacity` -/

theorem parseLeaf_error_kind {s : Bool} {p : UInt8} {b : Bytes} {e : PErr} (h : parseLeaf s p b = some (.error e)) :
    e = .notEnough ∨ e = .invalid := by
  have hline : ∀ mk, parseLineAs mk s b = .error e → e = .notEnough ∨ e = .invalid := by
    intro mk hc
    unfold parseLineAs at hc
    cases hl : parseLine s b with
    | error e' => simp only [hl, Except.error.injEq] at hc; subst hc; exact parseLine_error hl
    | ok v => simp [hl] at hc
  have hbulk : parseBulkStr s b = .error e → e = .notEnough ∨ e = .invalid := by
    intro hc
    unfold parseBulkStr at hc
    cases hl : parseLen s b with
    | error e' => simp only [hl, Except.error.injEq] at hc; subst hc; exact parseLen_error hl
    | ok v =>
      simp only [hl] at hc
      split at hc
      · simp at hc
      · split at hc
        · simp at hc; exact Or.inl hc.symm
        · split at hc
          · simp at hc; exact Or.inr hc.symm
          · simp at hc
  unfold parseLeaf at h
  split at h
  · simp only [Option.some.injEq] at h; exact hbulk h
  · split at h
    · simp only [Option.some.injEq] at h; exact hline _ h
    · split at h
      · simp only [Option.some.injEq] at h; exact hline _ h
      · split at h
        · simp only [Option.some.injEq] at h; exact hline _ h
        · simp at h

theorem parseArrayHeader_ne_capacity {s : Bool} {b : Bytes} (hc : capRemaining = true) :
    parseArrayHeader s b ≠ .err .capacity := by
  intro h
  unfold parseArrayHeader at h
  cases hl : parseLen s b with
  | error e =>
    simp only [hl, ArrHdr.err.injEq] at h; subst h
    cases parseLen_error hl <;> simp_all
  | ok v =>
    simp only [hl] at h
    split at h
    · simp at h
    · split at h
      · rename_i hp; simp [reservePanics, hc] at hp
      · simp at h

theorem parse_no_capacity (s : Bool) (hc : capRemaining = true) : ∀ f : Nat,
    (∀ d b, parseResp s f d b ≠ .error .capacity) ∧
    (∀ d bufLen rest k c, parseElems s f d bufLen rest k c ≠ .error .capacity) := by
  intro f
  induction f with
  | zero =>
    constructor
    · intro d b; simp [parseResp]
    · intro d bufLen rest k c
      cases k <;> simp [parseElems]
  | succ f ih =>
    obtain ⟨ihR, ihE⟩ := ih
    constructor
    · intro d b
      cases b with
      | nil => simp [parseResp]
      | cons p next =>
        rw [parseResp]
        cases hleaf : parseLeaf s p next with
        | some r' =>
          simp only
          intro h
          have := shift1_error h
          subst this
          cases parseLeaf_error_kind hleaf <;> simp_all
        | none =>
          simp only
          by_cases harr : p = tArr
          · simp only [harr, if_true]
            by_cases hnest : nestingExceeded d = true
            · rw [if_pos hnest]; simp
            rw [if_neg hnest]
            cases hh : parseArrayHeader s next with
            | err e =>
              simp only
              intro h
              simp only [Except.error.injEq] at h; subst h
              exact parseArrayHeader_ne_capacity hc hh
            | nil c => simp [shift1]
            | elems k c =>
              simp only
              have := ihE (d + 1) next.length (next.drop c) k c
              cases he : parseElems s f (d + 1) next.length (next.drop c) k c with
              | error e => simp only; intro h; simp only [Except.error.injEq] at h; subst h; exact this he
              | ok v => simp [shift1]
          · simp [harr]
    · intro d bufLen rest k c
      cases k with
      | zero => simp [parseElems]
      | succ k =>
        rw [parseElems]
        by_cases hg : c > bufLen
        · simp [hg]
        · simp only [hg, if_false]
          have h1 := ihR d rest
          cases hp : parseResp s f d rest with
          | error e => simp only; intro h; simp only [Except.error.injEq] at h; subst h; exact h1 hp
          | ok pr =>
            obtain ⟨v, ec⟩ := pr
            simp only
            have h2 := ihE d bufLen (rest.drop ec) k (c + ec)
            cases he : parseElems s f d bufLen (rest.drop ec) k (c + ec) with
            | error e => simp only; intro h; simp only [Except.error.injEq] at h; subst h; exact h2 he
            | ok v => simp

theorem parse_ne_capacity (s : Bool) (hc : capRemaining = true) (b : Bytes) : parse s b ≠ .error .capacity :=
  (parse_no_capacity s hc _).1 0 b

end Um.Resp
