import UmProofs.BrokerResPlanner
import UmProofs.BrokerScaleReachF
/-!
# C12 — bounded runs (`PlanBound` on every prefix) are boundedly reachable; guarded form of the
planner hypotheses (only required when the planner is actually reached).
-/
namespace Um.Broker
open Um Um.Slots

theorem reachableB_run (ops : List Op) (hb : ∀ k, Plan.PlanBound (run (ops.take k))) :
    Plan.ReachableB (run ops) := by
  have key : ∀ (l : List Op) (s : Store), Plan.ReachableB s →
      (∀ k, Plan.PlanBound ((l.take k).foldl step s)) → Plan.ReachableB (l.foldl step s) := by
    intro l
    induction l with
    | nil => intro s hs _; exact hs
    | cons op rest ih =>
      intro s hs hk
      have h1 : Plan.ReachableB (step s op) := Plan.ReachableB.step op hs (by simpa using hk 1)
      exact ih (step s op) h1 (fun k => by simpa using hk (k + 1))
  exact key ops Store.init Plan.ReachableB.init hb

/-- the guards `migrate_slots_to_scale_down` checks before it plans -/
def DownGuard (c : Cluster) (k : Nat) : Prop :=
  c.chunks.any (fun ch => ch.stable0.isNone || ch.stable1.isNone) = false ∧ c.isMigrating = false ∧
  k ≠ 0 ∧ k % 4 = 0 ∧ k < c.chunks.length * 4

theorem migrateSlotsToScaleDown_noPanic_guarded (s : Store) (n : String) (k : Nat)
    (h : ∀ c, s.findCluster n = some c → DownGuard c k → DownPre c (k / 4)) :
    (migrateSlotsToScaleDown s n k).2.NoPanic := by
  cases hf : s.findCluster n with
  | none =>
    unfold migrateSlotsToScaleDown
    split
    · exact R.noPanic_err _
    · have : s.bump.findCluster n = none := hf
      simp only [this]; exact R.noPanic_err _
  | some cl =>
    by_cases hg : DownGuard cl k
    · exact migrateSlotsToScaleDown_no_panic' s n k (fun c hc => by
        rw [hf] at hc; cases hc; exact h cl hf hg)
    · unfold migrateSlotsToScaleDown
      split
      · exact R.noPanic_err _
      · have hf' : s.bump.findCluster n = some cl := hf
        simp only [hf']
        split
        · exact R.noPanic_err _
        · rename_i h1
          split
          · exact R.noPanic_err _
          · rename_i h2
            split
            · exact R.noPanic_err _
            · rename_i h3
              exfalso
              apply hg
              simp only [Bool.or_eq_true, beq_iff_eq, bne_iff_ne, ne_eq, decide_eq_true_eq, not_or,
                Decidable.not_not, Nat.not_le] at h3
              exact ⟨by simpa using h1, by simpa using h2, h3.1.1, h3.1.2, by omega⟩

end Um.Broker
