import UmProofs.BrokerDefs
/-!
# C06 (allocation part): chunks are only ever filled with free, healthy, unreported proxies
-/
namespace Um.Broker.C06.Alloc
open Um Um.Slots

/-- `a` is the address of a registered proxy that, in `s`, is in no cluster, is not marked failed and has no failure report -/
def FreeIn (s : Store) (a : String) : Prop :=
  ∃ p ∈ s.proxies, p.addr = a ∧ p.cluster = none ∧ a ∉ s.failed ∧ s.hasFailureKey a = false

/-- `a` already is a proxy of a cluster named `n` in `s` -/
def OldIn (s : Store) (n a : String) : Prop :=
  ∃ c ∈ s.clusters, c.name = n ∧ a ∈ c.proxyAddrs

/-- every proxy address that sits in a chunk of a cluster of `s'` either already sat in a cluster of the same
name in `s`, or was a free, not failed, unreported proxy of `s` -/
def AllocOK (s s' : Store) : Prop :=
  ∀ c' ∈ s'.clusters, ∀ a ∈ c'.proxyAddrs, OldIn s c'.name a ∨ FreeIn s a

/-! ## `R` -/

theorem pure_eq_ok {α} (a : α) : (pure a : R α) = R.ok a := rfl
@[simp] theorem ok_bind {α β} (a : α) (f : α → R β) : (R.ok a >>= f) = f a := rfl
@[simp] theorem err_bind {α β} (e : Err) (f : α → R β) : (R.err e >>= f) = R.err e := rfl
@[simp] theorem panic_bind {α β} (w : String) (f : α → R β) : (R.panic w >>= f) = R.panic w := rfl
@[simp] theorem badChoice_bind {α β} (w : String) (f : α → R β) : (R.badChoice w >>= f) = R.badChoice w := rfl

theorem err_ne_ok {α} {β : Prop} {e : Err} {a : α} (h : R.err e = R.ok a) : β := nomatch h
theorem panic_ne_ok {α} {β : Prop} {e : String} {a : α} (h : R.panic e = R.ok a) : β := nomatch h
theorem bad_ne_ok {α} {β : Prop} {e : String} {a : α} (h : R.badChoice e = R.ok a) : β := nomatch h

/-- close a goal whose hypothesis `h` equates a non-`ok` result with an `ok` one -/
macro "rkill " h:ident : tactic =>
  `(tactic| first | exact err_ne_ok $h | exact panic_ne_ok $h | exact bad_ne_ok $h)

theorem bind_eq_ok {α β} {x : R α} {f : α → R β} {b : β} (h : (x >>= f) = R.ok b) :
    ∃ a, x = R.ok a ∧ f a = R.ok b := by
  cases x with
  | ok a => exact ⟨a, rfl, h⟩
  | err e => exact absurd h (by simp)
  | panic w => exact absurd h (by simp)
  | badChoice w => exact absurd h (by simp)

theorem bind_ok_iff {α β} {x : R α} {f : α → R β} {b : β} :
    (x >>= f) = R.ok b ↔ ∃ a, x = R.ok a ∧ f a = R.ok b := by
  constructor
  · exact bind_eq_ok
  · rintro ⟨a, rfl, h⟩; exact h

theorem expectSome_ok {α} {o : Option α} {w : String} {a : α} (h : expectSome o w = R.ok a) : o = some a := by
  unfold expectSome at h
  split at h
  · simp only [R.ok.injEq] at h; subst h; rfl
  · exact absurd h (by simp)

/-! ## store helpers -/

@[simp] theorem bump_clusters (s : Store) : s.bump.clusters = s.clusters := rfl
@[simp] theorem bump_proxies (s : Store) : s.bump.proxies = s.proxies := rfl
@[simp] theorem bump_failed (s : Store) : s.bump.failed = s.failed := rfl
@[simp] theorem bump_failures (s : Store) : s.bump.failures = s.failures := rfl
@[simp] theorem bump_findCluster (s : Store) (n : String) : s.bump.findCluster n = s.findCluster n := rfl
@[simp] theorem setProxyCluster_clusters (s : Store) (a : String) (v : Option String) :
    (s.setProxyCluster a v).clusters = s.clusters := rfl
@[simp] theorem setProxyCluster_failed (s : Store) (a : String) (v : Option String) :
    (s.setProxyCluster a v).failed = s.failed := rfl
@[simp] theorem setProxyCluster_failures (s : Store) (a : String) (v : Option String) :
    (s.setProxyCluster a v).failures = s.failures := rfl
@[simp] theorem setCluster_proxies (s : Store) (c : Cluster) : (s.setCluster c).proxies = s.proxies := rfl
@[simp] theorem setCluster_failed (s : Store) (c : Cluster) : (s.setCluster c).failed = s.failed := rfl
@[simp] theorem setCluster_failures (s : Store) (c : Cluster) : (s.setCluster c).failures = s.failures := rfl

theorem mem_setCluster {s : Store} {cl' c : Cluster} (h : c ∈ (s.setCluster cl').clusters) :
    c ∈ s.clusters ∨ c = cl' := by
  unfold Store.setCluster at h
  simp only [List.mem_map] at h
  obtain ⟨x, hx, rfl⟩ := h
  split
  · exact Or.inr rfl
  · exact Or.inl hx

theorem findCluster_some {s : Store} {name : String} {cl : Cluster} (h : s.findCluster name = some cl) :
    cl ∈ s.clusters ∧ cl.name = name := by
  unfold Store.findCluster at h
  refine ⟨List.mem_of_find?_eq_some h, ?_⟩
  have := List.find?_some h
  simpa using this

theorem findProxy_some {s : Store} {a : String} {p : ProxyRes} (h : s.findProxy a = some p) :
    p ∈ s.proxies ∧ p.addr = a := by
  unfold Store.findProxy at h
  refine ⟨List.mem_of_find?_eq_some h, ?_⟩
  have := List.find?_some h
  simpa using this

theorem tagProxies_clusters {name : String} : ∀ (addrs : List String) (s s' : Store),
    tagProxies s addrs name = R.ok s' → s'.clusters = s.clusters
  | [], s, s', h => by
    simp only [tagProxies, List.foldlM_nil, pure_eq_ok, R.ok.injEq] at h
    subst h; rfl
  | a :: rest, s, s', h => by
    simp only [tagProxies, List.foldlM_cons] at h
    split at h
    · simp only [pure_eq_ok, ok_bind] at h
      have := tagProxies_clusters rest _ _ h
      simpa using this
    · exact absurd h (by simp)

theorem foldl_setProxyCluster_clusters (v : Option String) : ∀ (addrs : List String) (s : Store),
    (addrs.foldl (fun s a => s.setProxyCluster a v) s).clusters = s.clusters
  | [], _ => rfl
  | a :: rest, s => by
    simp only [List.foldl_cons]
    rw [foldl_setProxyCluster_clusters v rest]; rfl

/-! ## the proxy pairs of a chunk list -/

def pp (l : List Chunk) : List (String × String) := l.map fun c => (c.proxy0, c.proxy1)

def addrsOf (l : List (String × String)) : List String := l.flatMap fun x => [x.1, x.2]

theorem proxyAddrs_eq (c : Cluster) : c.proxyAddrs = addrsOf (pp c.chunks) := by
  simp [Cluster.proxyAddrs, addrsOf, pp, List.flatMap_map]

@[simp] theorem pp_nil : pp [] = [] := rfl
@[simp] theorem pp_cons (c : Chunk) (l : List Chunk) : pp (c :: l) = (c.proxy0, c.proxy1) :: pp l := rfl
@[simp] theorem pp_append (a b : List Chunk) : pp (a ++ b) = pp a ++ pp b := by simp [pp]

theorem pp_map (f : Chunk → Chunk) (hf : ∀ c, (f c).proxy0 = c.proxy0 ∧ (f c).proxy1 = c.proxy1) (l : List Chunk) :
    pp (l.map f) = pp l := by
  induction l with
  | nil => rfl
  | cons c l ih => simp [ih, hf c]

theorem pp_set {l : List Chunk} {i : Nat} {c c' : Chunk} (h : l[i]? = some c)
    (h0 : c'.proxy0 = c.proxy0) (h1 : c'.proxy1 = c.proxy1) : pp (l.set i c') = pp l := by
  induction l generalizing i with
  | nil => rfl
  | cons x l ih =>
    cases i with
    | zero =>
      simp only [List.getElem?_cons_zero, Option.some.injEq] at h
      subst h
      simp [h0, h1]
    | succ i =>
      simp only [List.getElem?_cons_succ] at h
      simp [ih h]

theorem mem_addrsOf {l : List (String × String)} {a : String} :
    a ∈ addrsOf l ↔ ∃ x ∈ l, a = x.1 ∨ a = x.2 := by
  simp [addrsOf]

theorem addrsOf_append (a b : List (String × String)) : addrsOf (a ++ b) = addrsOf a ++ addrsOf b := by
  simp [addrsOf]

theorem mem_addrs_filter {l : List Chunk} {f : Chunk → Bool} {a : String}
    (h : a ∈ addrsOf (pp (l.filter f))) : a ∈ addrsOf (pp l) := by
  simp only [mem_addrsOf, pp, List.mem_map, List.mem_filter] at h ⊢
  obtain ⟨x, ⟨c, ⟨hc, _⟩, rfl⟩, hx⟩ := h
  exact ⟨_, ⟨c, hc, rfl⟩, hx⟩

end Um.Broker.C06.Alloc
