import UmModel.BackendConn
/-! Lemmas for C08 about `Um.BackendConn`: conservation of owed results (counting), the
FIFO-matching invariant, error-only results outside `item`. -/
namespace Um.BackendConn

/-! ## counting -/

/-- occurrences of `id` among the elementary tasks of `ts` -/
def cnt (id : Id) (ts : List Task) : Nat := (ts.flatMap Task.ids).count id

/-- occurrences of `id` among the receivers of the results `o` -/
def ocnt (id : Id) (o : Out) : Nat := (o.map Prod.fst).count id

@[simp] theorem cnt_nil (id : Id) : cnt id [] = 0 := rfl
@[simp] theorem cnt_append (id : Id) (a b : List Task) : cnt id (a ++ b) = cnt id a + cnt id b := by
  simp [cnt, List.flatMap_append, List.count_append]
@[simp] theorem cnt_cons (id : Id) (t : Task) (ts : List Task) :
    cnt id (t :: ts) = t.ids.count id + cnt id ts := by
  simp [cnt, List.flatMap_cons, List.count_append]
@[simp] theorem ocnt_nil (id : Id) : ocnt id [] = 0 := rfl
@[simp] theorem ocnt_append (id : Id) (a b : Out) : ocnt id (a ++ b) = ocnt id a + ocnt id b := by
  simp [ocnt, List.count_append]

@[simp] theorem map_fst_comp_answer (l : List Id) (r : Res) :
    l.map (Prod.fst ∘ fun id => (id, r)) = l := by
  induction l with
  | nil => rfl
  | cons a l ih => simp [ih]

theorem map_fst_answer (l : List Id) (r : Res) : (l.map fun id => (id, r)).map Prod.fst = l := by
  simp

@[simp] theorem ocnt_answerAll (id : Id) (ts : List Task) (r : Res) :
    ocnt id (answerAll ts r) = cnt id ts := by
  simp [ocnt, answerAll, cnt]

theorem deliver_fst (t : Task) (it : Item) : (deliver t it).map Prod.fst = t.ids := by
  cases t with
  | simple i => cases it <;> simp [deliver, Task.ids]
  | multi ids =>
    cases it with
    | single tag => simp [deliver, Task.ids]
    | derr => simp [deliver, Task.ids]
    | multi tags =>
      simp only [deliver, Task.ids]
      split
      · simp
      · rename_i h
        have h' : ids.length = tags.length := by simpa using h
        rw [List.map_map]
        have : (Prod.fst ∘ fun p : Id × Id => (p.1, Res.reply p.2)) = Prod.fst := by
          funext p; rfl
        rw [this]
        exact List.map_fst_zip (by omega)

@[simp] theorem ocnt_deliver (id : Id) (t : Task) (it : Item) :
    ocnt id (deliver t it) = t.ids.count id := by
  simp [ocnt, deliver_fst]

/-- tasks held in `retry` -/
def retryTasks (s : St) : List Task := match s.retry with | some (_, ts) => ts | none => []

/-- `count id (pendingIds s)` split by holder -/
def owed (id : Id) (s : St) : Nat := cnt id (retryTasks s) + cnt id s.tasks + cnt id s.chan

theorem count_pendingIds (id : Id) (s : St) : (pendingIds s).count id = owed id s := by
  unfold pendingIds owed retryTasks cnt
  simp only [List.flatMap_append, List.count_append]
  rfl

/-- structural well-formedness: the connection queues exist only while `up`, the retry state only
while `connecting` -/
def WF (s : St) : Prop := (s.phase ≠ .up → s.tasks = []) ∧ (s.phase ≠ .connecting → s.retry = none)

theorem WF_init : WF init := by simp [WF, init]


/-! ## conservation: one step -/

/-- ids newly owed by an event -/
def evIds : Ev → List Id
  | .enqueue t => t.ids
  | _ => []

theorem connErr_spec (id : Id) (s : St) (to : Option Nat) (k : WErr) (_h : s.retry = none) :
    owed id (connErr s to k).1 + ocnt id (connErr s to k).2 = cnt id s.tasks + cnt id s.chan ∧
    WF (connErr s to k).1 := by
  by_cases he : s.tasks = []
  · simp [connErr, he, owed, retryTasks, WF]
  · by_cases hge : to.getD 0 ≥ MAX_BACKEND_RETRY
    · simp [connErr, he, hge, owed, retryTasks, WF]; omega
    · simp [connErr, he, hge, owed, retryTasks, WF]

theorem drainUp_spec (id : Id) (s : St) (hp : s.phase = .up) (h : s.retry = none) :
    owed id (drainUp s).1 + ocnt id (drainUp s).2 = cnt id s.tasks + cnt id s.chan ∧
    WF (drainUp s).1 := by
  by_cases hc : s.closed = true
  · simp [drainUp, hc, owed, retryTasks, WF, h]
  · simp [drainUp, hc, owed, retryTasks, WF, h, hp]

theorem drainWaiting_spec (id : Id) (s : St) (hp : s.phase ≠ .up) (ht : s.tasks = []) :
    owed id (drainWaiting s).1 + ocnt id (drainWaiting s).2 = owed id s ∧
    ((drainWaiting s).1.phase ≠ .up ∧ (drainWaiting s).1.tasks = [] ∧
      (drainWaiting s).1.retry = s.retry) := by
  by_cases hc : s.closed = true
  · simp [drainWaiting, hc, owed, retryTasks, ht]
  · simp [drainWaiting, hc, owed, retryTasks, ht, hp]

theorem step_spec (id : Id) (s : St) (ev : Ev) (h : WF s) :
    owed id (step s ev).1 + ocnt id (step s ev).2 = owed id s + (evIds ev).count id ∧
    WF (step s ev).1 := by
  have hWF := h
  obtain ⟨h1, h2c⟩ := h
  have h2 : s.phase = .up → s.retry = none := fun hp => h2c (by simp [hp])
  cases ev with
  | enqueue t =>
    simp only [step, evIds]
    split
    · refine ⟨?_, hWF⟩
      show owed id s + ocnt id (answerAll [t] (.lerr .send)) = _
      rw [ocnt_answerAll]; simp
    · refine ⟨?_, hWF⟩
      simp [owed, retryTasks]; omega
  | close => exact ⟨by simp [step, evIds, owed, retryTasks], by simpa [step, WF] using hWF⟩
  | connOk =>
    simp only [step, evIds]
    split
    · rename_i hp
      have ht := h1 (by simp [hp])
      cases hr : s.retry with
      | none => simp [owed, retryTasks, WF, hr, ht]
      | some p => obtain ⟨n, ts⟩ := p; simp [owed, retryTasks, WF, hr, ht]
    · exact ⟨by simp [ocnt], hWF⟩
  | connFail =>
    simp only [step, evIds]
    split
    · rename_i hp
      have ht := h1 (by simp [hp])
      have := drainWaiting_spec id { s with phase := .waiting, connFailed := true, retry := none }
        (by simp) (by simpa using ht)
      obtain ⟨e1, e2, e3, e4⟩ := this
      refine ⟨?_, ?_⟩
      · cases hr : s.retry with
        | none => simp [owed, retryTasks, hr] at e1 ⊢; omega
        | some p => obtain ⟨n, ts⟩ := p; simp [owed, retryTasks, hr] at e1 ⊢; omega
      · exact ⟨fun _ => e3, fun _ => e4⟩
    · exact ⟨by simp [ocnt], hWF⟩
  | waitDone =>
    simp only [step, evIds]
    split
    · rename_i hp
      have ht := h1 (by simp [hp])
      simp [owed, retryTasks, WF, ht]
    · exact ⟨by simp [ocnt], hWF⟩
  | poll =>
    simp only [step, evIds]
    split
    · rename_i hp
      have hr := h2 hp
      have := drainUp_spec id s hp hr
      simp [owed, retryTasks, hr] at this ⊢
      exact this
    · rename_i hp
      have ht := h1 (by simp [hp])
      have := drainWaiting_spec id s (by simp [hp]) ht
      obtain ⟨e1, e2, e3, e4⟩ := this
      exact ⟨by simpa using e1, fun _ => e3, fun _ => e4.trans (h2c (by simp [hp]))⟩
    · exact ⟨by simp [ocnt], hWF⟩
  | write =>
    simp only [step, evIds]
    split
    · rename_i p ps hp hps
      have hr := h2 hp
      split
      · have := connErr_spec id { s with packets := ps, written := s.written ++ [p] } s.retryTimes .other hr
        simp [owed, retryTasks, hr] at this ⊢
        exact this
      · simp [owed, retryTasks, WF, hr, hp]
    · exact ⟨by simp [ocnt], hWF⟩
  | writeErr k =>
    simp only [step, evIds]
    split
    · rename_i hp
      have hr := h2 hp
      have := connErr_spec id s s.retryTimes k hr
      simp [owed, retryTasks, hr] at this ⊢
      exact this
    · exact ⟨by simp [ocnt], hWF⟩
  | item it =>
    simp only [step, evIds]
    split
    · rename_i hp
      have hr := h2 hp
      split
      · rename_i ht
        have := connErr_spec id { s with responseReceived := true, nread := s.nread + 1 } s.retryTimes .other hr
        simp [owed, retryTasks, hr, ht] at this ⊢
        exact this
      · rename_i t rest ht
        simp [owed, retryTasks, WF, hr, hp, ht]; omega
    · exact ⟨by simp [ocnt], hWF⟩
  | peerClosed =>
    simp only [step, evIds]
    split
    · rename_i hp
      have hr := h2 hp
      have := connErr_spec id s s.retryTimes .other hr
      simp [owed, retryTasks, hr] at this ⊢
      exact this
    · exact ⟨by simp [ocnt], hWF⟩
  | pollEnd tick =>
    simp only [step, evIds]
    split
    · rename_i hp
      have hr := h2 hp
      split
      · split
        · have := connErr_spec id { s with retryTimes := none } (some MAX_BACKEND_RETRY) .other hr
          simp [owed, retryTasks, hr] at this ⊢
          exact this
        · simp [owed, retryTasks, WF, hr, hp]
      · simp [owed, retryTasks, WF, hr, hp]
    · exact ⟨by simp [ocnt], hWF⟩

/-! ## conservation: runs -/

theorem enqIds_cons (e : Ev) (es : List Ev) : enqIds (e :: es) = evIds e ++ enqIds es := by
  cases e <;> simp [enqIds, evIds]

theorem run_spec (id : Id) : ∀ (evs : List Ev) (s : St), WF s →
    owed id (run s evs).1 + ocnt id (run s evs).2 = owed id s + (enqIds evs).count id ∧
    WF (run s evs).1 := by
  intro evs
  induction evs with
  | nil => intro s h; simp [run, enqIds, h]
  | cons e es ih =>
    intro s h
    obtain ⟨h1, h2⟩ := step_spec id s e h
    obtain ⟨h3, h4⟩ := ih (step s e).1 h2
    simp only [run, enqIds_cons, List.count_append, ocnt_append]
    exact ⟨by omega, h4⟩

/-! ## results are errors unless they come from an `item` -/

theorem answerAll_isError (ts : List Task) (r : Res) (hr : r.isError = true) :
    ∀ p ∈ answerAll ts r, p.2.isError = true := by
  intro p hp
  simp [answerAll] at hp
  obtain ⟨_, _, rfl⟩ := hp
  exact hr

theorem connErr_isError (s : St) (to : Option Nat) (k : WErr) :
    ∀ p ∈ (connErr s to k).2, p.2.isError = true := by
  by_cases he : s.tasks = []
  · simp [connErr, he]
  · by_cases hge : to.getD 0 ≥ MAX_BACKEND_RETRY
    · have he' : s.tasks.isEmpty = false := by simpa using he
      simp only [connErr, he', hge, if_true, Bool.false_eq_true, if_false]
      apply answerAll_isError
      cases k <;> rfl
    · simp [connErr, he, hge]

theorem drainUp_isError (s : St) : ∀ p ∈ (drainUp s).2, p.2.isError = true := by
  by_cases hc : s.closed = true
  · simp only [drainUp, hc, if_true]
    exact answerAll_isError _ _ rfl
  · simp [drainUp, hc]

theorem drainWaiting_isError (s : St) : ∀ p ∈ (drainWaiting s).2, p.2.isError = true := by
  by_cases hc : s.closed = true
  · simp only [drainWaiting, hc, if_true]
    exact answerAll_isError _ _ rfl
  · simp only [drainWaiting, hc]
    exact answerAll_isError _ _ rfl

theorem step_isError (s : St) (ev : Ev) (hne : ∀ it, ev ≠ .item it) :
    ∀ p ∈ (step s ev).2, p.2.isError = true := by
  cases ev with
  | item it => exact absurd rfl (hne it)
  | enqueue t =>
    simp only [step]
    split
    · exact answerAll_isError _ _ rfl
    · simp
  | close => simp [step]
  | connOk => simp only [step]; split <;> simp
  | connFail =>
    simp only [step]
    split
    · intro p hp
      simp only [List.mem_append] at hp
      rcases hp with hp | hp
      · exact answerAll_isError _ _ rfl p hp
      · exact drainWaiting_isError _ p hp
    · simp
  | waitDone => simp only [step]; split <;> simp
  | poll =>
    simp only [step]
    split
    · exact drainUp_isError s
    · exact drainWaiting_isError s
    · simp
  | write =>
    simp only [step]
    split
    · split
      · exact connErr_isError _ _ _
      · simp
    · simp
  | writeErr k =>
    simp only [step]
    split
    · exact connErr_isError _ _ _
    · simp
  | peerClosed =>
    simp only [step]
    split
    · exact connErr_isError _ _ _
    · simp
  | pollEnd tick =>
    simp only [step]
    split
    · split
      · split
        · exact connErr_isError _ _ _
        · simp
      · simp
    · simp

/-! ## the FIFO-matching invariant and the in-order backend -/

/-- the k-th item on a connection answers the k-th request written on it: an echo of the
request's ids in the request's shape, or an undecodable item -/
def Answers : Task → Item → Prop
  | _, .derr => True
  | .simple id, .single tag => tag = id
  | .multi ids, .multi tags => tags = ids
  | _, _ => False

/-- the backend assumption, event by event: an item is read only when a written request is still
unanswered on this connection, and it answers the oldest such request -/
def EvOk (s : St) : Ev → Prop
  | .item it => s.phase = .up → ∃ h : s.nread < s.written.length, Answers (s.written[s.nread]) it
  | _ => True

def InOrder : St → List Ev → Prop
  | _, [] => True
  | s, e :: es => EvOk s e ∧ InOrder (step s e).1 es

/-- the i-th unanswered task is the i-th outstanding request of the current connection, followed
by the tasks whose packet is still queued -/
def Matched (s : St) : Prop :=
  s.phase = .up → s.nread ≤ s.written.length ∧ s.tasks = s.written.drop s.nread ++ s.packets

theorem Matched_init : Matched init := by simp [Matched, init]

theorem connErr_phase (s : St) (to : Option Nat) (k : WErr) : (connErr s to k).1.phase = .connecting := by
  by_cases he : s.tasks = [] <;> by_cases hge : to.getD 0 ≥ MAX_BACKEND_RETRY <;> simp [connErr, he, hge]

theorem Matched_of_not_up {s : St} (h : s.phase ≠ .up) : Matched s := fun hu => absurd hu h

theorem zip_self_eq (l : List Id) : ∀ p ∈ l.zip l, p.1 = p.2 := by
  induction l with
  | nil => simp
  | cons a l ih =>
    intro p hp
    simp only [List.zip_cons_cons, List.mem_cons] at hp
    rcases hp with rfl | hp
    · rfl
    · exact ih p hp

theorem deliver_own (t : Task) (it : Item) (h : Answers t it) :
    ∀ id tag, (id, Res.reply tag) ∈ deliver t it → tag = id := by
  intro id tag hm
  cases t with
  | simple i =>
    cases it with
    | single tg =>
      simp only [deliver, List.mem_singleton, Prod.mk.injEq, Res.reply.injEq] at hm
      simp only [Answers] at h
      obtain ⟨h1, h2⟩ := hm
      rw [h1, h2, h]
    | multi tags => simp [Answers] at h
    | derr => simp [deliver, Task.ids] at hm
  | multi ids =>
    cases it with
    | single tg => simp [Answers] at h
    | derr => simp [deliver, Task.ids] at hm
    | multi tags =>
      simp only [Answers] at h
      subst h
      simp only [deliver, ne_eq, not_true_eq_false, if_false, List.mem_map] at hm
      obtain ⟨p, hp, he⟩ := hm
      have := zip_self_eq tags p hp
      simp only [Prod.mk.injEq, Res.reply.injEq] at he
      obtain ⟨h1, h2⟩ := he
      rw [← h1, ← h2, this]

theorem step_matched (s : St) (ev : Ev) (hm : Matched s) (hok : EvOk s ev) :
    Matched (step s ev).1 ∧ ∀ id tag, (id, Res.reply tag) ∈ (step s ev).2 → tag = id := by
  by_cases hit : ∃ it, ev = .item it
  · obtain ⟨it, rfl⟩ := hit
    by_cases hp : s.phase = .up
    · obtain ⟨hlt, hans⟩ := hok hp
      obtain ⟨hle, hts⟩ := hm hp
      have hd := List.drop_eq_getElem_cons hlt
      rw [hd] at hts
      simp only [step, hp, hts, List.cons_append]
      refine ⟨?_, ?_⟩
      · intro _
        exact ⟨by simp; omega, rfl⟩
      · exact deliver_own _ _ hans
    · have : step s (.item it) = (s, []) := by
        cases hph : s.phase <;> simp_all [step]
      rw [this]; exact ⟨hm, by simp⟩
  · have hne : ∀ it, ev ≠ .item it := fun it h => hit ⟨it, h⟩
    refine ⟨?_, ?_⟩
    · cases ev with
      | item it => exact absurd rfl (hne it)
      | enqueue t =>
        simp only [step]; split
        · exact hm
        · intro hu; exact hm hu
      | close => intro hu; exact hm hu
      | connOk =>
        simp only [step]; split
        · intro _; simp
        · exact hm
      | connFail =>
        simp only [step]; split
        · apply Matched_of_not_up
          by_cases hc : s.closed = true <;> simp [drainWaiting, hc]
        · exact hm
      | waitDone =>
        simp only [step]; split
        · apply Matched_of_not_up; simp
        · exact hm
      | poll =>
        simp only [step]; split
        · rename_i hp
          obtain ⟨hle, hts⟩ := hm hp
          by_cases hc : s.closed = true
          · apply Matched_of_not_up; simp [drainUp, hc]
          · intro _
            simp only [drainUp, hc]
            exact ⟨hle, by simp [hts]⟩
        · rename_i hp
          apply Matched_of_not_up
          by_cases hc : s.closed = true <;> simp [drainWaiting, hc, hp]
        · exact hm
      | write =>
        simp only [step]; split
        · rename_i p ps hp hps
          obtain ⟨hle, hts⟩ := hm hp
          split
          · apply Matched_of_not_up; rw [connErr_phase]; simp
          · intro _
            refine ⟨by simp; omega, ?_⟩
            simp only [hts, hps]
            rw [List.drop_append_of_le_length hle]
            simp
        · exact hm
      | writeErr k =>
        simp only [step]; split
        · apply Matched_of_not_up; rw [connErr_phase]; simp
        · exact hm
      | peerClosed =>
        simp only [step]; split
        · apply Matched_of_not_up; rw [connErr_phase]; simp
        · exact hm
      | pollEnd tick =>
        simp only [step]; split
        · rename_i hp
          split
          · split
            · apply Matched_of_not_up; rw [connErr_phase]; simp
            · intro _; exact hm hp
          · intro _; exact hm hp
        · exact hm
    · intro id tag hmem
      have := step_isError s ev hne _ hmem
      simp [Res.isError] at this

theorem run_matched : ∀ (evs : List Ev) (s : St), Matched s → InOrder s evs →
    ∀ id tag, (id, Res.reply tag) ∈ (run s evs).2 → tag = id := by
  intro evs
  induction evs with
  | nil => intro s _ _ id tag h; simp [run] at h
  | cons e es ih =>
    intro s hm hin id tag h
    obtain ⟨hok, hin'⟩ := hin
    obtain ⟨hm', hown⟩ := step_matched s e hm hok
    simp only [run, List.mem_append] at h
    rcases h with h | h
    · exact hown id tag h
    · exact ih _ hm' hin' id tag h

end Um.BackendConn
