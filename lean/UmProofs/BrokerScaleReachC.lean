import UmProofs.BrokerScaleReachB
import UmProofs.BrokerScaleDisj
/-!
# C10 over reachable states (part C): planning operations and commits keep `SInv`
-/
namespace Um.Broker.Scale
open Um Um.Slots Um.Broker Um.Broker.Plan

theorem allS_bump {s : Store} (h : AllS s) : AllS s.bump := allS_of_clusters h rfl

/-- the full chunks of a balanced shape have no `None` half -/
theorem full_any_none (m : Nat) (A : List Chunk) (i : Nat) (h : FullChunks m A i) :
    A.any (fun c => c.stable0.isNone || c.stable1.isNone) = false := by
  simp only [List.any_eq_false]
  intro ch hch
  obtain ⟨j, hj⟩ := List.getElem?_of_mem hch
  obtain ⟨a, b, e0, e1, _⟩ := fullChunks_get m A i h j ch hj
  simp [e0, e1]

/-! ## `migrate_slots` -/

theorem migrateSlots_fst (s : Store) (name : String) :
    (migrateSlots s name).1.clusters = s.clusters ∨
    (validName name = true ∧ ∃ cl, s.findCluster name = some cl ∧
      cl.chunks.any (fun c => c.stable0.isNone || c.stable1.isNone) = true ∧ cl.isMigrating = false) := by
  unfold migrateSlots
  split
  · exact Or.inl rfl
  · rename_i hv
    dsimp only
    simp only [Store.findCluster_bump]
    cases hf : s.findCluster name with
    | none => exact Or.inl rfl
    | some cl =>
      simp only
      split
      · exact Or.inl rfl
      · rename_i hany
        split
        · exact Or.inl rfl
        · rename_i hidle
          exact Or.inr ⟨by simpa using hv, cl, rfl, by rw [Bool.not_eq_true, Bool.not_eq_false'] at hany; exact hany,
            by simpa using hidle⟩

theorem allS_migrateSlots {s : Store} (h : AllS s) (hb : PlanBound s) (name : String) :
    AllS (migrateSlots s name).1 := by
  rcases migrateSlots_fst s name with hcl | ⟨hv, cl, hf, hany, hidle⟩
  · exact allS_of_clusters h hcl
  · have hmem := Store.findCluster_mem hf
    have hm0 := migs_nil_of_idle hidle
    have hbc := hb cl hmem
    obtain ⟨N, hN, _, A, B, hch, hA, hfull, hempty⟩ := balanced_of_sinv (h cl hmem) hm0 hbc
    have hB : 0 < B.length := by
      cases B with
      | nil =>
        exfalso
        rw [hch, List.append_nil, full_any_none _ A 0 hfull] at hany
        cases hany
      | cons b B => simp
    have hlen : cl.chunks.length = N + B.length := by rw [hch, List.length_append, hA]
    obtain ⟨c1, heq, _, hl1, hcore⟩ := scaleOut_balanced hv hf hch hA rfl hN hB hfull hempty (noMigs_of_idle hm0)
      (by rw [← hlen]; exact hbc)
    rw [heq]
    apply allS_setCluster (allS_bump h)
    refine ⟨N + B.length, by omega, core_congr hcore ?_⟩
    intro idx hidx
    rw [hl1] at hidx
    simp [target, hidx]

/-! ## `migrate_slots_to_scale_down` -/

theorem migrateSlotsToScaleDown_fst (s : Store) (name : String) (nn : Nat) :
    (migrateSlotsToScaleDown s name nn).1.clusters = s.clusters ∨
    (validName name = true ∧ ∃ cl, s.findCluster name = some cl ∧
      cl.chunks.any (fun c => c.stable0.isNone || c.stable1.isNone) = false ∧ cl.isMigrating = false ∧
      nn ≠ 0 ∧ nn % 4 = 0 ∧ nn < cl.chunks.length * 4) := by
  unfold migrateSlotsToScaleDown
  split
  · exact Or.inl rfl
  · rename_i hv
    dsimp only
    simp only [Store.findCluster_bump]
    cases hf : s.findCluster name with
    | none => exact Or.inl rfl
    | some cl =>
      simp only
      split
      · exact Or.inl rfl
      · rename_i hany
        split
        · exact Or.inl rfl
        · rename_i hidle
          split
          · exact Or.inl rfl
          · rename_i hnn
            refine Or.inr ⟨by simpa using hv, cl, rfl, by simpa using hany, by simpa using hidle, ?_⟩
            simp only [Bool.or_eq_true, beq_iff_eq, bne_iff_ne, ne_eq, decide_eq_true_eq, not_or,
              Decidable.not_not, Nat.not_le] at hnn
            exact ⟨hnn.1.1, hnn.1.2, hnn.2⟩

theorem allS_migrateSlotsToScaleDown {s : Store} (h : AllS s) (hb : PlanBound s) (name : String) (nn : Nat) :
    AllS (migrateSlotsToScaleDown s name nn).1 := by
  rcases migrateSlotsToScaleDown_fst s name nn with hcl | ⟨hv, cl, hf, hany, hidle, h0, h4, hlt⟩
  · exact allS_of_clusters h hcl
  · have hmem := Store.findCluster_mem hf
    have hm0 := migs_nil_of_idle hidle
    have hbc := hb cl hmem
    obtain ⟨N, hN, _, A, B, hch, hA, hfull, hempty⟩ := balanced_of_sinv (h cl hmem) hm0 hbc
    have hB : B = [] := by
      cases B with
      | nil => rfl
      | cons b B =>
        exfalso
        obtain ⟨e0, _⟩ := hempty b (by simp)
        have : cl.chunks.any (fun c => c.stable0.isNone || c.stable1.isNone) = true := by
          rw [hch]; exact List.any_eq_true.mpr ⟨b, by simp, by simp [e0]⟩
        rw [this] at hany; cases hany
    subst hB
    rw [List.append_nil] at hch
    have hlen : cl.chunks.length = N := by rw [hch, hA]
    have hnn : nn = nn / 4 * 4 := by omega
    obtain ⟨c1, heq, _, _, hcore⟩ := scaleDown_balanced (n := N) (n' := nn / 4) hv hf (by rw [hch]; exact hfull) hlen
      (noMigs_of_idle hm0) (by omega) (by omega) (by rw [← hlen]; exact hbc)
    rw [hnn, heq]
    apply allS_setCluster (allS_bump h)
    exact ⟨nn / 4, by omega, hcore⟩

/-! ## the convenience API -/

theorem allS_autoScaleOutNodeNumber {s : Store} (h : AllS s) (hb : PlanBound s) (name : String) (expected : Nat) :
    AllS (autoScaleOutNodeNumber s name expected).1 := by
  unfold autoScaleOutNodeNumber
  split
  · exact h
  · split
    · exact h
    · split
      · exact allS_migrateSlots h hb name
      · exact h

theorem autoChangeNodeNumber_fst (s : Store) (name : String) (expected : Nat) (choice : List (String × String)) :
    (autoChangeNodeNumber s name expected choice).1 = s ∨
    (autoChangeNodeNumber s name expected choice).1 = (autoDeleteFreeNodes s name).1 ∨
    (autoChangeNodeNumber s name expected choice).1 =
      (autoScaleUpNodes (autoDeleteFreeNodes s name).1 name expected choice).1 ∨
    (autoChangeNodeNumber s name expected choice).1 =
      (migrateSlotsToScaleDown (autoDeleteFreeNodes s name).1 name expected).1 := by
  by_cases hv : validName name = true
  · cases hf : s.findCluster name with
    | none => left; unfold autoChangeNodeNumber; simp [hv, hf]
    | some cl =>
      cases hm : cl.isMigrating with
      | true => left; unfold autoChangeNodeNumber; simp [hv, hf, hm]
      | false => exact Or.inr (autoChangeNodeNumber_decomp expected choice hv hf hm)
  · left; unfold autoChangeNodeNumber; simp [hv]

theorem allS_autoChangeNodeNumber {s : Store} (h : AllS s) (hb : PlanBound s) (name : String) (expected : Nat)
    (choice : List (String × String)) : AllS (autoChangeNodeNumber s name expected choice).1 := by
  have h1 := allS_autoDeleteFreeNodes h hb name
  have hb1 := planBound_autoDeleteFreeNodes hb name
  rcases autoChangeNodeNumber_fst s name expected choice with he | he | he | he <;> rw [he]
  · exact h
  · exact h1
  · exact allS_autoScaleUpNodes h1 hb1 name expected choice
  · exact allS_migrateSlotsToScaleDown h1 hb1 name expected

/-! ## `commit_migration` -/

theorem commitCore_cases {s : Store} (hinv : ∀ c ∈ s.clusters, CommitInv c) (name : String) (ranges : RangeList)
    (epoch : Nat) (tagNone : Bool) :
    (∃ e, commitMigrationCore s name ranges epoch tagNone = (s, R.err e)) ∨
    (∃ c m A dch B t, s.findCluster name = some c ∧ m ∈ c.migs ∧ m.isMigrating = true ∧
      c.chunks = A ++ dch :: B ∧ A.length = m.mm.dstChunk ∧
      t.isMigrating = false ∧ t.ranges = m.ranges ∧ t.mm = m.mm ∧
      ((m.mm.dstPart = 0 ∧ t ∈ dch.mig0) ∨ (m.mm.dstPart = 1 ∧ t ∈ dch.mig1)) ∧
      commitMigrationCore s name ranges epoch tagNone =
        ((s.setCluster { c with chunks := commitRes m.ranges m.mm A dch B, epoch := s.globalEpoch + 1 }).bump,
          R.ok ())) := by
  cases hf : s.findCluster name with
  | none => left; exact ⟨Err.clusterNotFound, by unfold commitMigrationCore; simp [hf]⟩
  | some c =>
    cases tagNone with
    | true => left; exact ⟨Err.invalidMigrationTask, by unfold commitMigrationCore; simp [hf]⟩
    | false =>
      by_cases hex : ∃ m ∈ c.migs, m.isMigrating = true ∧ m.ranges = ranges ∧ m.mm.epoch = epoch
      · obtain ⟨m, hm, hmig, rfl, rfl⟩ := hex
        obtain ⟨A, dch, B, t, hdec, hlen, htm, htr, htmm, hpart, hcore⟩ :=
          commitCore_pending (s := s) hf (hinv c (Store.findCluster_mem hf)) hm hmig
        exact Or.inr ⟨c, m, A, dch, B, t, rfl, hm, hmig, hdec, hlen, htm, htr, htmm, hpart, hcore⟩
      · left
        refine ⟨_, commitCore_unknown (s := s) hf ranges epoch ?_⟩
        intro m hm hmig hre
        exact hex ⟨m, hm, hmig, hre.1, hre.2⟩

theorem autoDeleteFreeNodesIfExists_fst (s : Store) (name : String) :
    (autoDeleteFreeNodesIfExists s name).1 = (autoDeleteFreeNodes s name).1 := by
  unfold autoDeleteFreeNodesIfExists
  rcases autoDeleteFreeNodes s name with ⟨s', r⟩
  cases r with
  | ok u => rfl
  | err e => cases e <;> rfl
  | panic w => rfl
  | badChoice w => rfl

theorem allS_commitMigration {s : Store} (h : AllS s) (hb : PlanBound s)
    (hc : ∀ c ∈ s.clusters, PosInv c ∧ TwinInv c ∧ SlotInv c) (name : String) (ranges : RangeList)
    (epoch : Nat) (tagNone clear : Bool) :
    AllS (commitMigration s name ranges epoch tagNone clear).1 := by
  have hinv : ∀ c ∈ s.clusters, CommitInv c := fun c hcm =>
    commitInv_of_invs (hc c hcm).1 (hc c hcm).2.1 (hc c hcm).2.2
  unfold commitMigration
  rcases commitCore_cases hinv name ranges epoch tagNone with ⟨e, he⟩ |
    ⟨c, m, A, dch, B, t, hf, hm, hmig, hdec, hlen, htm, htr, htmm, hpart, hcore⟩
  · rw [he]; exact h
  · rw [hcore]
    have hmem := Store.findCluster_mem hf
    obtain ⟨N, hN, hcoreP⟩ := h c hmem
    have hprof := hcoreP.withDisj (projInv_of_invs (hc c hmem).2.1 (hc c hmem).2.2)
    have hprof' := profile_commit (hinv c hmem) hprof hm hdec hlen htm htr htmm hpart (s.globalEpoch + 1)
    have hS1 : AllS (s.setCluster { c with chunks := commitRes m.ranges m.mm A dch B, epoch := s.globalEpoch + 1 }).bump :=
      allS_bump (allS_setCluster h ⟨N, hN, hprof'.core⟩)
    have hB1 : PlanBound (s.setCluster { c with chunks := commitRes m.ranges m.mm A dch B, epoch := s.globalEpoch + 1 }).bump := by
      intro x hx
      rcases mem_setCluster (s := s) hx with rfl | hx'
      · show (commitRes m.ranges m.mm A dch B).length * 2 ≤ SLOT_NUM
        rw [commitRes_length, ← hdec]; exact hb c hmem
      · exact hb x hx'
    cases clear with
    | false => exact hS1
    | true =>
      simp only [if_true]
      rw [autoDeleteFreeNodesIfExists_fst]
      exact allS_autoDeleteFreeNodes hS1 hB1 name

end Um.Broker.Scale
