import UmProofs.RespParse
/-!
# C15 — what the parser accepts, as a grammar on bytes (`Accepts`), and the two directions:
every accepted buffer has that shape (soundness) and every buffer of that shape is accepted with
exactly that value (completeness).  The index trees are resolved here once and for all
(`toRespVec` of shifted indices).
-/
namespace Um.Resp
open Um

/-! ## `mapOpt` over index trees -/

mutual
theorem mapOpt_mono {α β : Type} {f g : α → Option β} (hfg : ∀ a b, f a = some b → g a = some b) :
    ∀ (r : RespT α) (v : RespT β), RespT.mapOpt f r = some v → RespT.mapOpt g r = some v
  | .error a, v, h => by
    simp only [RespT.mapOpt] at h ⊢
    cases hf : f a with
    | none => simp [hf] at h
    | some b => simp [hf] at h; simp [hfg a b hf, h]
  | .simple a, v, h => by
    simp only [RespT.mapOpt] at h ⊢
    cases hf : f a with
    | none => simp [hf] at h
    | some b => simp [hf] at h; simp [hfg a b hf, h]
  | .bulk a, v, h => by
    simp only [RespT.mapOpt] at h ⊢
    cases hf : f a with
    | none => simp [hf] at h
    | some b => simp [hf] at h; simp [hfg a b hf, h]
  | .integer a, v, h => by
    simp only [RespT.mapOpt] at h ⊢
    cases hf : f a with
    | none => simp [hf] at h
    | some b => simp [hf] at h; simp [hfg a b hf, h]
  | .bulkNil, v, h => by simpa [RespT.mapOpt] using h
  | .arrNil, v, h => by simpa [RespT.mapOpt] using h
  | .arr l, v, h => by
    simp only [RespT.mapOpt] at h ⊢
    cases hl : RespT.mapOptList f l with
    | none => simp [hl] at h
    | some l' => simp [hl] at h; simp [mapOptList_mono hfg l l' hl, h]
theorem mapOptList_mono {α β : Type} {f g : α → Option β} (hfg : ∀ a b, f a = some b → g a = some b) :
    ∀ (l : List (RespT α)) (v : List (RespT β)), RespT.mapOptList f l = some v → RespT.mapOptList g l = some v
  | [], v, h => by simpa [RespT.mapOptList] using h
  | x :: xs, v, h => by
    simp only [RespT.mapOptList] at h ⊢
    cases hx : RespT.mapOpt f x with
    | none => simp [hx] at h
    | some y =>
      simp only [hx] at h
      cases hxs : RespT.mapOptList f xs with
      | none => simp [hxs] at h
      | some ys =>
        simp only [hxs] at h
        simp [mapOpt_mono hfg x y hx, mapOptList_mono hfg xs ys hxs, h]
end

mutual
theorem mapOpt_map {α β γ : Type} (h : α → β) (f : β → Option γ) :
    ∀ (r : RespT α), RespT.mapOpt f (RespT.map h r) = RespT.mapOpt (fun a => f (h a)) r
  | .error a => by simp [RespT.mapOpt, RespT.map]
  | .simple a => by simp [RespT.mapOpt, RespT.map]
  | .bulk a => by simp [RespT.mapOpt, RespT.map]
  | .integer a => by simp [RespT.mapOpt, RespT.map]
  | .bulkNil => by simp [RespT.mapOpt, RespT.map]
  | .arrNil => by simp [RespT.mapOpt, RespT.map]
  | .arr l => by simp [RespT.mapOpt, RespT.map, mapOptList_map h f l]
theorem mapOptList_map {α β γ : Type} (h : α → β) (f : β → Option γ) :
    ∀ (l : List (RespT α)), RespT.mapOptList f (RespT.mapList h l) = RespT.mapOptList (fun a => f (h a)) l
  | [] => by simp [RespT.mapOptList, RespT.mapList]
  | x :: xs => by simp [RespT.mapOptList, RespT.mapList, mapOpt_map h f x, mapOptList_map h f xs]
end

mutual
theorem mapOpt_congr {α β : Type} {f g : α → Option β} (hfg : ∀ a, f a = g a) :
    ∀ (r : RespT α), RespT.mapOpt f r = RespT.mapOpt g r
  | .error a => by simp [RespT.mapOpt, hfg]
  | .simple a => by simp [RespT.mapOpt, hfg]
  | .bulk a => by simp [RespT.mapOpt, hfg]
  | .integer a => by simp [RespT.mapOpt, hfg]
  | .bulkNil => by simp [RespT.mapOpt]
  | .arrNil => by simp [RespT.mapOpt]
  | .arr l => by simp [RespT.mapOpt, mapOptList_congr hfg l]
theorem mapOptList_congr {α β : Type} {f g : α → Option β} (hfg : ∀ a, f a = g a) :
    ∀ (l : List (RespT α)), RespT.mapOptList f l = RespT.mapOptList g l
  | [] => by simp [RespT.mapOptList]
  | x :: xs => by simp [RespT.mapOptList, mapOpt_congr hfg x, mapOptList_congr hfg xs]
end

/-- slices of a longer buffer -/
theorem toRespVec_append {d : Bytes} {r : RespIdx} {v : Resp} (y : Bytes) (h : toRespVec d r = some v) :
    toRespVec (d ++ y) r = some v := by
  unfold toRespVec at h ⊢
  exact mapOpt_mono (fun a b hab => sliceGet_append y hab) r v h

/-- `advance c` then slice = slice of the buffer without its first `c` bytes -/
theorem toRespVec_advance (d : Bytes) (c : Nat) (r : RespIdx) (hc : c ≤ d.length) :
    toRespVec d (advance c r) = toRespVec (d.drop c) r := by
  unfold toRespVec advance
  rw [mapOpt_map]
  exact mapOpt_congr (fun a => sliceGet_shift d c a.1 a.2 hc) r

/-- the list form used for the elements of an array -/
def toVecList (d : Bytes) (l : List RespIdx) : Option (List Resp) :=
  RespT.mapOptList (fun ((s, e) : DataIndex) => sliceGet d s e) l

theorem toRespVec_arr (d : Bytes) (l : List RespIdx) :
    toRespVec d (.arr l) = (toVecList d l).map .arr := by
  simp [toRespVec, toVecList, RespT.mapOpt]

theorem toVecList_cons (d : Bytes) (x : RespIdx) (xs : List RespIdx) :
    toVecList d (x :: xs) =
      match toRespVec d x with
      | none => none
      | some y => match toVecList d xs with
        | none => none
        | some ys => some (y :: ys) := by
  unfold toRespVec toVecList
  rw [RespT.mapOptList]
  cases RespT.mapOpt (fun ((s, e) : DataIndex) => sliceGet d s e) x with
  | none => rfl
  | some y => cases RespT.mapOptList (fun ((s, e) : DataIndex) => sliceGet d s e) xs <;> rfl

/-! ## the grammar of accepted buffers -/

/-- the byte standing where CR should be: never LF (it would have ended the line earlier); with
the terminator checks in place it must be CR -/
def TermOk (s : Bool) (ch : UInt8) : Prop := ch ≠ LF ∧ (s = true → ch = CR)

/-- the two bytes after a bulk payload: unchecked on the pinned tree, CRLF with the checks -/
def BulkTermOk (s : Bool) (t : Bytes) : Prop := t.length = 2 ∧ (s = true → t = crlf)

mutual
/-- `Accepts s v e`: the byte string `e` is one of the spellings of `v` that the parser (variant
`s`) takes.  Length fields are any `btoi::<i64>` spelling (`+3`, `03`, any negative for nil). -/
def Accepts (s : Bool) : Resp → Bytes → Prop
  | .simple p, e => ∃ ch, e = tSimple :: (p ++ [ch, LF]) ∧ LF ∉ p ∧ TermOk s ch
  | .error p, e => ∃ ch, e = tError :: (p ++ [ch, LF]) ∧ LF ∉ p ∧ TermOk s ch
  | .integer p, e => ∃ ch, e = tInteger :: (p ++ [ch, LF]) ∧ LF ∉ p ∧ TermOk s ch
  | .bulkNil, e => ∃ L ch len, e = tBulk :: (L ++ [ch, LF]) ∧ btoiI64 L = some len ∧ len < 0 ∧ TermOk s ch
  | .bulk p, e => ∃ L ch t, e = tBulk :: (L ++ [ch, LF] ++ (p ++ t)) ∧
      btoiI64 L = some (p.length : Int) ∧ TermOk s ch ∧ BulkTermOk s t
  | .arrNil, e => ∃ L ch len, e = tArr :: (L ++ [ch, LF]) ∧ btoiI64 L = some len ∧ len < 0 ∧ TermOk s ch
  | .arr l, e => ∃ L ch body, e = tArr :: (L ++ [ch, LF] ++ body) ∧
      btoiI64 L = some (l.length : Int) ∧ TermOk s ch ∧ reservePanics l.length = false ∧
      AcceptsList s l body
def AcceptsList (s : Bool) : List Resp → Bytes → Prop
  | [], e => e = []
  | v :: vs, e => ∃ e1 e2, e = e1 ++ e2 ∧ Accepts s v e1 ∧ AcceptsList s vs e2
end

/-! ## nesting depth -/

/-- an array (nil ones included) may start at nesting depth `d` -/
def nestAllowed (d : Nat) : Prop := nestingExceeded d = false

mutual
/-- `NestOk d v`: placed at nesting depth `d`, every array of `v` (nil ones included) sits at a
depth the parser admits (`depth < MAX_NESTING`; always true when the source has no limit) -/
def NestOk : Nat → Resp → Prop
  | d, .arr l => nestAllowed d ∧ NestOkList (d + 1) l
  | d, .arrNil => nestAllowed d
  | _, .simple _ => True
  | _, .error _ => True
  | _, .integer _ => True
  | _, .bulk _ => True
  | _, .bulkNil => True
def NestOkList : Nat → List Resp → Prop
  | _, [] => True
  | d, v :: vs => NestOk d v ∧ NestOkList d vs
end

mutual
/-- number of array levels of a value (a nil array counts as one level) -/
def nesting : Resp → Nat
  | .arr l => 1 + nestingList l
  | .arrNil => 1
  | .simple _ => 0
  | .error _ => 0
  | .integer _ => 0
  | .bulk _ => 0
  | .bulkNil => 0
def nestingList : List Resp → Nat
  | [] => 0
  | v :: vs => max (nesting v) (nestingList vs)
end

theorem nestAllowed_iff (m : Nat) (hm : maxNesting = some m) (d : Nat) : nestAllowed d ↔ d < m := by
  simp only [nestAllowed, nestingExceeded, hm]
  simp

mutual
/-- with a limit `m`: `NestOk d v` iff `v` has no array at all or `d + nesting v ≤ m` -/
theorem nestOk_iff (m : Nat) (hm : maxNesting = some m) : ∀ (v : Resp) (d : Nat),
    NestOk d v ↔ (nesting v = 0 ∨ d + nesting v ≤ m)
  | .arr l, d => by
    have h := nestOkList_iff m hm l (d + 1)
    simp only [NestOk, nesting, nestAllowed_iff m hm, h]
    omega
  | .arrNil, d => by simp only [NestOk, nesting, nestAllowed_iff m hm]; omega
  | .simple _, d => by simp [NestOk, nesting]
  | .error _, d => by simp [NestOk, nesting]
  | .integer _, d => by simp [NestOk, nesting]
  | .bulk _, d => by simp [NestOk, nesting]
  | .bulkNil, d => by simp [NestOk, nesting]
theorem nestOkList_iff (m : Nat) (hm : maxNesting = some m) : ∀ (l : List Resp) (d : Nat),
    NestOkList d l ↔ (nestingList l = 0 ∨ d + nestingList l ≤ m)
  | [], d => by simp [NestOkList, nestingList]
  | v :: vs, d => by
    have h1 := nestOk_iff m hm v d
    have h2 := nestOkList_iff m hm vs d
    simp only [NestOkList, nestingList, h1, h2]
    rcases Nat.le_total (nesting v) (nestingList vs) with h | h
    · rw [Nat.max_eq_right h]; omega
    · rw [Nat.max_eq_left h]; omega
end

/-- at the top level: all arrays admitted iff at most `MAX_NESTING` array levels -/
theorem nestOk_zero_iff (m : Nat) (hm : maxNesting = some m) (v : Resp) : NestOk 0 v ↔ nesting v ≤ m := by
  rw [nestOk_iff m hm]; omega

mutual
/-- without a limit every value is admitted -/
theorem nestOk_of_unbounded (hm : maxNesting = none) : ∀ (v : Resp) (d : Nat), NestOk d v
  | .arr l, d => by
    simp only [NestOk, nestAllowed, nestingExceeded, hm]
    exact ⟨trivial, nestOkList_of_unbounded hm l (d + 1)⟩
  | .arrNil, d => by simp [NestOk, nestAllowed, nestingExceeded, hm]
  | .simple _, d => by simp [NestOk]
  | .error _, d => by simp [NestOk]
  | .integer _, d => by simp [NestOk]
  | .bulk _, d => by simp [NestOk]
  | .bulkNil, d => by simp [NestOk]
theorem nestOkList_of_unbounded (hm : maxNesting = none) : ∀ (l : List Resp) (d : Nat), NestOkList d l
  | [], d => by simp [NestOkList]
  | v :: vs, d => by
    simp only [NestOkList]
    exact ⟨nestOk_of_unbounded hm v d, nestOkList_of_unbounded hm vs d⟩
end

/-! ## digits contain no LF -/

theorem btouAux_no_lf {max : Nat} {b : Bytes} {acc r : Nat} (h : btouAux max b acc = some r) : LF ∉ b := by
  induction b generalizing acc with
  | nil => simp
  | cons d ds ih =>
    simp only [btouAux] at h
    cases hd : digitVal d with
    | none => simp [hd] at h
    | some x =>
      simp only [hd] at h
      split at h
      · simp at h
      · split at h
        · simp at h
        · have := ih h
          simp only [List.mem_cons, not_or]
          refine ⟨?_, this⟩
          intro hlf
          rw [← hlf] at hd
          simp [digitVal, LF_val] at hd

theorem btoiI64_no_lf {L : Bytes} {k : Int} (h : btoiI64 L = some k) : LF ∉ L := by
  unfold btoiI64 btoiS at h
  split at h
  · simp at h
  · rename_i rest
    cases hb : btou i64Max rest with
    | none => simp [hb] at h
    | some r =>
      have : LF ∉ rest := by
        unfold btou at hb
        split at hb
        · simp at hb
        · exact btouAux_no_lf hb
      simp only [List.mem_cons, not_or]
      exact ⟨by simp [LF_val], this⟩
  · rename_i rest
    split at h
    · simp at h
    · cases hb : btouAux i64NegMax rest 0 with
      | none => simp [hb] at h
      | some r =>
        simp only [List.mem_cons, not_or]
        exact ⟨by simp [LF_val], btouAux_no_lf hb⟩
  · cases hb : btou i64Max L with
    | none => simp [hb] at h
    | some r =>
      unfold btou at hb
      split at hb
      · simp at hb
      · exact btouAux_no_lf hb

/-! ## list surgery -/

theorem take_split3 (b : Bytes) (c k : Nat) :
    b.take (c + k + 2) = b.take c ++ ((b.drop c).take k ++ (b.drop (c + k)).take 2) := by
  rw [Nat.add_assoc, List.take_add, List.take_add (l := b.drop c), List.drop_drop]

theorem leaf_type_bytes :
    tSimple ≠ tBulk ∧ tInteger ≠ tBulk ∧ tInteger ≠ tSimple ∧ tError ≠ tBulk ∧ tError ≠ tSimple ∧
    tError ≠ tInteger ∧ tArr ≠ tBulk ∧ tArr ≠ tSimple ∧ tArr ≠ tInteger ∧ tArr ≠ tError := by decide

theorem parseLeaf_bulk (s : Bool) (b : Bytes) : parseLeaf s tBulk b = some (parseBulkStr s b) := by
  simp [parseLeaf]
theorem parseLeaf_simple (s : Bool) (b : Bytes) : parseLeaf s tSimple b = some (parseLineAs .simple s b) := by
  have := leaf_type_bytes; simp [parseLeaf, this]
theorem parseLeaf_integer (s : Bool) (b : Bytes) : parseLeaf s tInteger b = some (parseLineAs .integer s b) := by
  have := leaf_type_bytes; simp [parseLeaf, this]
theorem parseLeaf_error (s : Bool) (b : Bytes) : parseLeaf s tError b = some (parseLineAs .error s b) := by
  have := leaf_type_bytes; simp [parseLeaf, this]
theorem parseLeaf_arr (s : Bool) (b : Bytes) : parseLeaf s tArr b = none := by
  have := leaf_type_bytes; simp [parseLeaf, this]

theorem parseLeaf_none {s : Bool} {p : UInt8} {b : Bytes} (h : parseLeaf s p b = none) :
    p ≠ tBulk ∧ p ≠ tSimple ∧ p ≠ tInteger ∧ p ≠ tError := by
  unfold parseLeaf at h
  split at h
  · simp at h
  · split at h
    · simp at h
    · split at h
      · simp at h
      · split at h
        · simp at h
        · rename_i h1 h2 h3 h4; exact ⟨h1, h2, h3, h4⟩

end Um.Resp
