import UmProofs.BrokerSlotsPlanF
/-!
# C01, planning layer — one iteration of the scale-down planning loop (`downBody`) and the loop

Ranges are taken from the *front* of the source list. A destination whose `need` is `0` is
skipped (the F3 fix), so `removeNum = min need avail ≥ 1` and the moved piece
`(start, start+k-1)` is well-formed. Every source half of a scale-down ends `None`, so besides
the permutation of `loopSlots` we need that the source list is *empty* when the loop stops. That
is a counting argument: `needFrom P k` = what destinations `k, k+1, …` still have to receive;
the invariant `slotsNum rl + (slots of the later sources) + curNum ≤ needFrom P dstIdx` forces
`rl = []` once `dstIdx = dstMasterNum`.
-/
namespace Um.Broker.Plan
open Um Um.Slots Um.Broker

/-! ## what the destinations still need -/

def needL (P : DownParams) : Nat → List Nat → Nat
  | _, [] => 0
  | k, ex :: rest => (downFinalOf P k - ex) + needL P (k + 1) rest

def needFrom (P : DownParams) (k : Nat) : Nat := needL P k (P.existing.drop k)

theorem needFrom_step {P : DownParams} {k ex : Nat} (h : P.existing[k]? = some ex) :
    needFrom P k = (downFinalOf P k - ex) + needFrom P (k + 1) := by
  obtain ⟨hlt, heq⟩ := List.getElem?_eq_some_iff.mp h
  unfold needFrom
  rw [List.drop_eq_getElem_cons hlt, heq]
  rfl

theorem needFrom_end {P : DownParams} {k : Nat} (h : P.existing.length ≤ k) : needFrom P k = 0 := by
  unfold needFrom
  rw [List.drop_eq_nil_of_le h]
  rfl

/-! ## cutting from the front -/

theorem cutFirst_ok {first : Range} {rest cur : List Range} (hwf : WFRanges (first :: rest))
    (hc : WFRanges cur) (k cn : Nat) (hk : 1 ≤ k) :
    CutOk (first :: rest) cur
      (if k ≥ rangeNum first then rest else (first.1 + k, first.2) :: rest)
      (if k ≥ rangeNum first then cur ++ [first] else cur ++ [(first.1, k + first.1 - 1)]) ∧
    ∃ t, 1 ≤ t ∧ t ≤ k ∧ (if k ≥ rangeNum first then cn + rangeNum first else cn + k) = cn + t ∧
      slotsNum (if k ≥ rangeNum first then rest else (first.1 + k, first.2) :: rest) + t =
        slotsNum (first :: rest) := by
  obtain ⟨hfirst, hrest⟩ := wf_cons.mp hwf
  by_cases hge : k ≥ rangeNum first
  · simp only [hge, if_true]
    refine ⟨⟨hrest, wf_append.mpr ⟨hc, wf_single.mpr hfirst⟩, by simp, ?_, ?_⟩,
      rangeNum first, rangeNum_pos first, hge, rfl, by rw [slotsNum_cons]; omega⟩
    · intro x
      simp only [slotsOf_cons, slotsOf_append, slotsOf_nil, List.count_nil, List.count_append]
      omega
    · intro hn; exact normalRanges_tail _ _ hn
  · simp only [hge, if_false]
    have hlt : k < first.2 - first.1 + 1 := by unfold rangeNum at hge; omega
    have hsplit := rangeSlots_adjacent first.1 (k + first.1 - 1) first.2 (by omega) (by omega)
    have hk1 : k + first.1 - 1 + 1 = first.1 + k := by omega
    rw [hk1] at hsplit
    refine ⟨⟨wf_cons.mpr ⟨by simp only; omega, hrest⟩,
      wf_append.mpr ⟨hc, wf_single.mpr (by simp only; omega)⟩, by simp, ?_, ?_⟩,
      k, hk, Nat.le_refl _, rfl, ?_⟩
    · intro x
      have : rangeSlots first = rangeSlots (first.1, first.2) := rfl
      simp only [slotsOf_cons, slotsOf_append, slotsOf_nil, List.count_nil, List.count_append, this, hsplit]
      omega
    · intro hn
      cases rest with
      | nil => simp only [NormalRanges]; omega
      | cons r' rest' =>
        have hn' : first.1 ≤ first.2 ∧ first.2 + 1 < r'.1 ∧ NormalRanges (r' :: rest') := hn
        exact ⟨by simp only; omega, hn'.2.1, hn'.2.2⟩
    · rw [slotsNum_cons, slotsNum_cons]
      unfold rangeNum
      simp only
      omega

/-! ## the loop invariant -/

/-- the loop invariant of `downWhile`; `later` = number of slots in the sources not yet visited -/
structure DownInv (P : DownParams) (later : Nat) (rl : RangeList) (st : LoopSt) : Prop where
  wfRl : WFRanges rl
  wfCur : WFRanges st.curSlots
  nodup : (loopSlots rl st).Nodup
  le : st.dstIdx ≤ P.dstMasterNum
  budget : slotsNum rl + later + st.curNum ≤ needFrom P st.dstIdx
  pending : st.curSlots ≠ [] → st.dstIdx ≠ P.dstMasterNum ∧ slotsNum rl ≠ 0 ∧
    ∃ ex, P.existing[st.dstIdx]? = some ex ∧ st.curNum + ex < downFinalOf P st.dstIdx
  tasks : ∀ m ∈ st.out, TaskShape P.epoch 0 P.dstMasterNum m

/-- an iteration that emits a task -/
theorem downInv_emit {P : DownParams} {later i p : Nat} {rl rl' cur' : RangeList} {st : LoopSt}
    (h : DownInv P later rl st) (hne : st.dstIdx ≠ P.dstMasterNum) (hc : CutOk rl st.curSlots rl' cur')
    (st' : LoopSt) (hle : st'.dstIdx ≤ P.dstMasterNum)
    (hbud : slotsNum rl' + later + st'.curNum ≤ needFrom P st'.dstIdx) (hcs : st'.curSlots = [])
    (hout : st'.out = st.out ++ [{ ranges := rlNew cur',
                                   mm := { epoch := P.epoch, srcChunk := i, srcPart := p,
                                           dstChunk := st.dstIdx / 2, dstPart := st.dstIdx % 2 } }]) :
    DownInv P later rl' st' ∧ (loopSlots rl' st').Perm (loopSlots rl st) := by
  have hnd' := cut_nodup hc h.nodup
  obtain ⟨hn, hne', hcnt⟩ := rlNew_ok hc.wfCur hc.ne hnd'
  have hcount : ∀ x, (loopSlots rl' st').count x = (loopSlots rl st).count x := by
    intro x
    rw [count_loopSlots, count_loopSlots, hout, hcs]
    simp only [outSlots_append, outSlots_single, List.count_append, slotsOf_nil, List.count_nil]
    have := hc.count x
    have := hcnt x
    omega
  refine ⟨⟨hc.wfRl, hcs ▸ wf_nil, ?_, hle, hbud, fun hx => absurd hcs hx, ?_⟩, perm_of_count hcount⟩
  · apply nodup_of_count
    intro x
    rw [hcount]
    exact count_of_nodup h.nodup x
  · intro m hm
    rw [hout] at hm
    rcases List.mem_append.mp hm with hm | hm
    · exact h.tasks m hm
    · have := List.mem_singleton.mp hm
      subst this
      exact ⟨⟨hn, hne'⟩, i, p, st.dstIdx, by have := h.le; omega, by simp⟩

/-- what one iteration guarantees about its result -/
def DownStep (P : DownParams) (later : Nat) (rl : RangeList) (st : LoopSt) (x : RangeList × LoopSt) : Prop :=
  DownInv P later x.1 x.2 ∧ (loopSlots x.1 x.2).Perm (loopSlots rl st)

/-- **one iteration of `downBody`** -/
theorem downBody_step (P : DownParams) (hlen : P.existing.length = P.dstMasterNum) (later i p : Nat)
    (rl : RangeList) (st : LoopSt) (it : Iter (RangeList × LoopSt)) (h : DownInv P later rl st)
    (hb : downBody P i p (rl, st) = R.ok it) :
    IterPost (DownStep P later rl st) (fun x => x.1 = [] ∧ x.2.curSlots = []) it := by
  have hself : DownStep P later rl st (rl, st) := ⟨h, List.Perm.refl _⟩
  unfold downBody at hb
  dsimp -failIfUnchanged only at hb
  by_cases heq : (st.dstIdx == P.dstMasterNum) = true
  · rw [if_pos heq] at hb
    have heq : st.dstIdx = P.dstMasterNum := by simpa using heq
    injection hb with hb; subst hb
    have hb := h.budget
    rw [needFrom_end (by omega)] at hb
    refine ⟨hself, slotsNum_eq_zero (by show slotsNum rl = 0; omega), ?_⟩
    false_or_by_contra; rename_i hx; exact (h.pending hx).1 heq
  rw [if_neg heq] at hb
  have hne : st.dstIdx ≠ P.dstMasterNum := by simpa using heq
  cases hex : P.existing[st.dstIdx]? with
  | none => rw [hex] at hb; cases hb
  | some ex =>
  rw [hex] at hb
  dsimp only at hb
  have hstep := needFrom_step hex
  by_cases hnp : downFinalOf P st.dstIdx < st.curNum + ex
  · rw [if_pos hnp] at hb; cases hb
  rw [if_neg hnp] at hb
  by_cases hneed : (downFinalOf P st.dstIdx - st.curNum - ex == 0) = true
  · -- the destination already owns its final number of slots: skip it
    rw [if_pos hneed] at hb
    have hneed : downFinalOf P st.dstIdx - st.curNum - ex = 0 := by simpa using hneed
    injection hb with hb; subst hb
    have hcs : st.curSlots = [] := by
      false_or_by_contra; rename_i hx
      obtain ⟨_, _, ex', h1, h2⟩ := h.pending hx
      rw [hex] at h1; injection h1 with h1; subst h1; omega
    refine ⟨⟨h.wfRl, h.wfCur, ?_, by have := h.le; show st.dstIdx + 1 ≤ _; omega, ?_,
      fun hx => absurd hcs hx, h.tasks⟩, ?_⟩
    · exact h.nodup
    · have := h.budget
      show slotsNum rl + later + 0 ≤ needFrom P (st.dstIdx + 1)
      omega
    · exact List.Perm.refl _
  rw [if_neg hneed] at hb
  have hneed : downFinalOf P st.dstIdx - st.curNum - ex ≠ 0 := by simpa using hneed
  by_cases hav : (slotsNum rl == 0) = true
  · rw [if_pos hav] at hb
    have hav : slotsNum rl = 0 := by simpa using hav
    injection hb with hb; subst hb
    refine ⟨hself, slotsNum_eq_zero hav, ?_⟩
    false_or_by_contra; rename_i hx; exact (h.pending hx).2.1 hav
  rw [if_neg hav] at hb
  have hav : slotsNum rl ≠ 0 := by simpa using hav
  cases rl with
  | nil => cases hb
  | cons first rest =>
  dsimp only at hb
  have hk1 : 1 ≤ min (downFinalOf P st.dstIdx - st.curNum - ex) (slotsNum (first :: rest)) := by omega
  have hkle : min (downFinalOf P st.dstIdx - st.curNum - ex) (slotsNum (first :: rest)) ≤
      downFinalOf P st.dstIdx - st.curNum - ex := Nat.min_le_left _ _
  obtain ⟨hcut, t, ht1, htk, hcn, hnum⟩ := cutFirst_ok h.wfRl h.wfCur _ st.curNum hk1
  generalize min (downFinalOf P st.dstIdx - st.curNum - ex) (slotsNum (first :: rest)) = k at hb hcut hkle htk hcn hnum
  by_cases hpan : (decide (k < rangeNum first) && k + first.1 == 0) = true
  · rw [if_pos hpan] at hb; cases hb
  rw [if_neg hpan] at hb
  generalize (if k ≥ rangeNum first then rest else (first.1 + k, first.2) :: rest) = rl' at hb hcut hnum
  generalize (if k ≥ rangeNum first then st.curSlots ++ [first] else st.curSlots ++ [(first.1, k + first.1 - 1)]) = cur' at hb hcut
  generalize (if k ≥ rangeNum first then st.curNum + rangeNum first else st.curNum + k) = cn' at hb hcn
  subst hcn
  have hbud := h.budget
  by_cases hemit : (decide (st.curNum + t + ex ≥ downFinalOf P st.dstIdx) || slotsNum rl' == 0) = true
  · -- a task is emitted
    rw [if_pos hemit] at hb
    by_cases hfull : st.curNum + t + ex ≥ downFinalOf P st.dstIdx
    · simp only [hfull, if_true] at hb
      have hb1 : slotsNum rl' + later + 0 ≤ needFrom P (st.dstIdx + 1) := by omega
      have hle1 : st.dstIdx + 1 ≤ P.dstMasterNum := by have := h.le; omega
      split at hb
      · rename_i hz
        injection hb with hb; subst hb
        obtain ⟨h1, h2⟩ := downInv_emit (i := i) (p := p) h hne hcut
          { dstIdx := st.dstIdx + 1, curSlots := [], curNum := 0, out := _ } hle1 hb1 rfl rfl
        exact ⟨⟨h1, h2⟩, slotsNum_eq_zero (by simpa using hz), rfl⟩
      · injection hb with hb; subst hb
        obtain ⟨h1, h2⟩ := downInv_emit (i := i) (p := p) h hne hcut
          { dstIdx := st.dstIdx + 1, curSlots := [], curNum := 0, out := _ } hle1 hb1 rfl rfl
        exact ⟨h1, h2⟩
    · simp only [hfull, if_false] at hb
      have hb1 : slotsNum rl' + later + (st.curNum + t) ≤ needFrom P st.dstIdx := by omega
      split at hb
      · rename_i hz
        injection hb with hb; subst hb
        obtain ⟨h1, h2⟩ := downInv_emit (i := i) (p := p) h hne hcut
          { dstIdx := st.dstIdx, curSlots := [], curNum := st.curNum + t, out := _ } h.le hb1 rfl rfl
        exact ⟨⟨h1, h2⟩, slotsNum_eq_zero (by simpa using hz), rfl⟩
      · injection hb with hb; subst hb
        obtain ⟨h1, h2⟩ := downInv_emit (i := i) (p := p) h hne hcut
          { dstIdx := st.dstIdx, curSlots := [], curNum := st.curNum + t, out := _ } h.le hb1 rfl rfl
        exact ⟨h1, h2⟩
  · rw [if_neg hemit] at hb
    injection hb with hb; subst hb
    have hcond' : ¬ (st.curNum + t + ex ≥ downFinalOf P st.dstIdx) ∧ ¬ (slotsNum rl' = 0) := by
      simpa using hemit
    have hcount : ∀ x, (loopSlots rl' { st with curSlots := cur', curNum := st.curNum + t }).count x =
        (loopSlots (first :: rest) st).count x := by
      intro x
      rw [count_loopSlots, count_loopSlots]
      have := hcut.count x
      simp only
      omega
    refine ⟨⟨hcut.wfRl, hcut.wfCur, ?_, h.le, by show slotsNum rl' + later + (st.curNum + t) ≤ needFrom P st.dstIdx; omega,
      fun _ => ⟨hne, hcond'.2, ex, hex, by show st.curNum + t + ex < downFinalOf P st.dstIdx; omega⟩, h.tasks⟩, perm_of_count hcount⟩
    apply nodup_of_count
    intro x
    rw [hcount]
    exact count_of_nodup h.nodup x

/-- **the scale-down planning loop for one source master**: all slots of the source list end up
in emitted tasks -/
theorem downWhile_spec (P : DownParams) (hlen : P.existing.length = P.dstMasterNum) (later i p fuel : Nat)
    (rl rl' : RangeList) (st st' : LoopSt) (h : DownInv P later rl st)
    (hw : downWhile P i p fuel rl st = R.ok (rl', st')) :
    DownInv P later rl' st' ∧ (loopSlots rl' st').Perm (loopSlots rl st) ∧ rl' = [] ∧ st'.curSlots = [] := by
  unfold downWhile at hw
  have := iterate_ind (downBody P i p) (DownStep P later rl st)
    (fun x => DownStep P later rl st x ∧ x.1 = [] ∧ x.2.curSlots = [])
    (fun a a' ha hf => by
      have := downBody_step P hlen later i p a.1 a.2 _ ha.1 hf
      exact ⟨this.1, this.2.trans ha.2⟩)
    (fun a a' ha hf => by
      have := downBody_step P hlen later i p a.1 a.2 _ ha.1 hf
      exact ⟨⟨this.1.1, this.1.2.trans ha.2⟩, this.2⟩)
    fuel (rl, st) (rl', st') ⟨h, List.Perm.refl _⟩ hw
  exact ⟨this.1.1, this.1.2, this.2.1, this.2.2⟩

end Um.Broker.Plan
