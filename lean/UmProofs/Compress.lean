import UmModel.Compress
/-!
Lemmas for C20: command classification, closed forms of `compressCmd`, the backend stand-in under
compressed/plain stores, and the simulation between a compressing cluster and a plain one.
-/
namespace Um.Compress
open Um Um.Gen.Compress

/-! ## names -/

theorem lookup_mem {α β : Type} [BEq α] [LawfulBEq α] (l : List (α × β)) (k : α) (v : β)
    (h : l.lookup k = some v) : (k, v) ∈ l := by
  induction l with
  | nil => simp at h
  | cons x xs ih =>
    obtain ⟨a, b⟩ := x
    simp only [List.lookup_cons] at h
    by_cases hk : k == a
    · simp only [hk] at h
      have : k = a := by simpa using hk
      injection h with h
      subst this; subst h
      exact List.mem_cons_self
    · simp only [hk] at h
      exact List.mem_cons_of_mem _ (ih h)

theorem upper_length (n : Bytes) : (n.map upper).length = n.length := by simp

/-- the data-command type of a command whose upper-cased name is a known table entry -/
theorem dataTypeOf_of_upper (name : Bytes) (args : List Bytes) (lit : Bytes) (ty : DataCmdType)
    (hlit : dataCmdNames.lookup lit = some ty) (hlen : lit.length ≤ MAX_COMMAND_NAME_LENGTH)
    (h : name.map upper = lit) : dataTypeOf (name :: args) = ty := by
  have hl : name.length = lit.length := by rw [← h]; simp
  unfold dataTypeOf lookupName
  have : ¬ name.length > MAX_COMMAND_NAME_LENGTH := by omega
  simp only [this, if_false, h, hlit]

theorem cmdTypeOf_of_upper (name : Bytes) (args : List Bytes) (lit : Bytes)
    (hlit : cmdTypeNames.lookup lit = none)
    (h : name.map upper = lit) : cmdTypeOf (name :: args) = .Others := by
  show lookupName cmdTypeNames cmdTypeNamesDefault name = .Others
  unfold lookupName
  split
  · rfl
  · simp only [h, hlit]; rfl

/-- the type depends on the name only -/
theorem dataTypeOf_cons (n : Bytes) (a b : List Bytes) : dataTypeOf (n :: a) = dataTypeOf (n :: b) := rfl

theorem cmdTypeOf_cons (n : Bytes) (a b : List Bytes) : cmdTypeOf (n :: a) = cmdTypeOf (n :: b) := rfl

/-! ## closed forms of `compressCmd` -/

/-- compress the value of every complete key/value pair -/
def encPairs (c : Codec) : List Bytes → List Bytes
  | k :: v :: r => k :: c.enc v :: encPairs c r
  | [k] => [k]
  | [] => []

theorem encPairs_length (c : Codec) (l : List Bytes) : (encPairs c l).length = l.length := by
  fun_induction encPairs c l <;> simp_all

theorem compressOne_at (c : Codec) (pre : List Bytes) (v : Bytes) (post : List Bytes) :
    compressOne c (pre ++ v :: post) pre.length = .ok (pre ++ c.enc v :: post) := by
  unfold compressOne
  simp

theorem compressMany_pairs (c : Codec) (pre rest : List Bytes) :
    compressMany c (List.range' (pre.length + 1) (rest.length / 2) 2) (pre ++ rest)
      = .ok (pre ++ encPairs c rest) := by
  fun_induction encPairs c rest generalizing pre with
  | case1 k v r ih =>
    have hlen : (k :: v :: r).length / 2 = r.length / 2 + 1 := by simp; omega
    rw [hlen, List.range'_succ]
    simp only [compressMany]
    have h1 := compressOne_at c (pre ++ [k]) v r
    simp only [List.append_assoc, List.singleton_append, List.length_append, List.length_cons,
      List.length_nil, Nat.zero_add] at h1
    rw [h1]
    have := ih (pre ++ [k, c.enc v])
    simp only [List.append_assoc, List.cons_append, List.nil_append, List.length_append,
      List.length_cons, List.length_nil, Nat.zero_add] at this
    simpa [Nat.add_assoc] using this
  | case2 k => simp [compressMany]
  | case3 => simp [compressMany]

theorem stepIndices_two (len : Nat) (h : 1 ≤ len) : stepIndices 2 len 2 = List.range' 2 ((len - 1) / 2) 2 := by
  unfold stepIndices
  congr 1
  omega

/-- `MSET`/`MSETNX` shape: the value of every complete pair is compressed, nothing else changes -/
theorem compressMany_cmd (c : Codec) (n : Bytes) (rest : List Bytes) :
    compressMany c (stepIndices 2 (n :: rest).length 2) (n :: rest) = .ok (n :: encPairs c rest) := by
  rw [stepIndices_two _ (by simp)]
  have := compressMany_pairs c [n] rest
  simpa using this

/-! ## names of the write forms (Redis syntax) and their table entries -/

abbrev nSET : Bytes := SET
def nSETNX : Bytes := [83, 69, 84, 78, 88]
def nGETSET : Bytes := [71, 69, 84, 83, 69, 84]
def nSETEX : Bytes := [83, 69, 84, 69, 88]
def nPSETEX : Bytes := [80, 83, 69, 84, 69, 88]
def nMSET : Bytes := [77, 83, 69, 84]
abbrev nMSETNX : Bytes := MSETNX
abbrev nGET : Bytes := GET
def nMGET : Bytes := [77, 71, 69, 84]

theorem dataTypeOf_inv (name : Bytes) (args : List Bytes) (ty : DataCmdType)
    (h : dataTypeOf (name :: args) = ty) (hne : ty ≠ .Others) :
    (name.map upper, ty) ∈ dataCmdNames := by
  have h' : lookupName dataCmdNames dataCmdNamesDefault name = ty := h
  unfold lookupName at h'
  split at h'
  · exact absurd h'.symm hne
  · split at h'
    · rename_i v hv
      subst h'
      exact lookup_mem _ _ _ hv
    · exact absurd h'.symm hne

theorem names_single2 : ∀ p ∈ dataCmdNames, compressRule p.2 = .single 2 →
    (p.1 = nSET ∨ p.1 = nSETNX ∨ p.1 = nGETSET) := by decide

theorem names_single3 : ∀ p ∈ dataCmdNames, compressRule p.2 = .single 3 →
    (p.1 = nSETEX ∨ p.1 = nPSETEX) := by decide

theorem names_multi : ∀ p ∈ dataCmdNames, ∀ a b, compressRule p.2 = .multi a b →
    (p.1 = nMSET ∨ p.1 = nMSETNX) ∧ a = 2 ∧ b = 2 := by
  intro p hp a b h
  have key : ∀ p ∈ dataCmdNames, (∃ a b, compressRule p.2 = .multi a b) →
      (p.1 = nMSET ∨ p.1 = nMSETNX) ∧ compressRule p.2 = .multi 2 2 := by
    have : ∀ p ∈ dataCmdNames, (match compressRule p.2 with | .multi _ _ => true | _ => false) = true →
        (p.1 = nMSET ∨ p.1 = nMSETNX) ∧ compressRule p.2 = .multi 2 2 := by decide
    intro p hp ⟨a, b, h⟩
    exact this p hp (by rw [h])
  obtain ⟨h1, h2⟩ := key p hp ⟨a, b, h⟩
  rw [h] at h2
  injection h2 with ha hb
  exact ⟨h1, ha, hb⟩

/-- every single-value index of the table is 2 or 3 -/
theorem single_index_cases : ∀ ty : DataCmdType, ∀ i, compressRule ty = .single i → i = 2 ∨ i = 3 := by
  intro ty i h
  cases ty <;> simp [compressRule] at h <;> omega

theorem compressRule_others : compressRule .Others = .pass := rfl

theorem encPairs_getElem? (c : Codec) (l : List Bytes) (j : Nat) :
    (encPairs c l)[j]? = if j % 2 = 1 then (l[j]?).map c.enc else l[j]? := by
  fun_induction encPairs c l generalizing j with
  | case1 k v r ih =>
    match j with
    | 0 => simp
    | 1 => simp
    | j + 2 =>
      have : (j + 2) % 2 = j % 2 := by omega
      simp only [List.getElem?_cons_succ, ih, this]
  | case2 k =>
    match j with
    | 0 => simp
    | j + 1 => simp
  | case3 => simp

/-- Redis syntax: position `i` of a command named `u` (upper case) carries a *value* -/
def isValuePos (u : Bytes) (i : Nat) : Prop :=
  ((u = nSET ∨ u = nSETNX ∨ u = nGETSET) ∧ i = 2) ∨
  ((u = nSETEX ∨ u = nPSETEX) ∧ i = 3) ∨
  ((u = nMSET ∨ u = nMSETNX) ∧ 2 ≤ i ∧ i % 2 = 0)

instance (u : Bytes) (i : Nat) : Decidable (isValuePos u i) := by unfold isValuePos; infer_instance

/-- table entries of the seven write forms -/
theorem rule_of_name (name : Bytes) (args : List Bytes) :
    (name.map upper = nSET ∨ name.map upper = nSETNX ∨ name.map upper = nGETSET →
      compressRule (dataTypeOf (name :: args)) = .single 2) ∧
    (name.map upper = nSETEX ∨ name.map upper = nPSETEX →
      compressRule (dataTypeOf (name :: args)) = .single 3) ∧
    (name.map upper = nMSET ∨ name.map upper = nMSETNX →
      compressRule (dataTypeOf (name :: args)) = .multi 2 2) := by
  refine ⟨?_, ?_, ?_⟩
  · rintro (h | h | h)
    · rw [dataTypeOf_of_upper name args nSET .Set (by decide) (by decide) h]; rfl
    · rw [dataTypeOf_of_upper name args nSETNX .Setnx (by decide) (by decide) h]; rfl
    · rw [dataTypeOf_of_upper name args nGETSET .Getset (by decide) (by decide) h]; rfl
  · rintro (h | h)
    · rw [dataTypeOf_of_upper name args nSETEX .Setex (by decide) (by decide) h]; rfl
    · rw [dataTypeOf_of_upper name args nPSETEX .Psetex (by decide) (by decide) h]; rfl
  · rintro (h | h)
    · rw [dataTypeOf_of_upper name args nMSET .Mset (by decide) (by decide) h]; rfl
    · rw [dataTypeOf_of_upper name args nMSETNX .Msetnx (by decide) (by decide) h]; rfl

/-- name of a command from its table rule -/
theorem name_of_rule (name : Bytes) (args : List Bytes) :
    (compressRule (dataTypeOf (name :: args)) = .single 2 →
      name.map upper = nSET ∨ name.map upper = nSETNX ∨ name.map upper = nGETSET) ∧
    (compressRule (dataTypeOf (name :: args)) = .single 3 →
      name.map upper = nSETEX ∨ name.map upper = nPSETEX) ∧
    (∀ a b, compressRule (dataTypeOf (name :: args)) = .multi a b →
      (name.map upper = nMSET ∨ name.map upper = nMSETNX) ∧ a = 2 ∧ b = 2) := by
  have hne : ∀ r, compressRule (dataTypeOf (name :: args)) = r → r ≠ .pass →
      dataTypeOf (name :: args) ≠ .Others := by
    intro r hr hp ho
    rw [ho] at hr
    exact hp (hr ▸ rfl)
  refine ⟨fun h => ?_, fun h => ?_, fun a b h => ?_⟩
  · exact names_single2 _ (dataTypeOf_inv name args _ rfl (hne _ h (by simp))) h
  · exact names_single3 _ (dataTypeOf_inv name args _ rfl (hne _ h (by simp))) h
  · exact names_multi _ (dataTypeOf_inv name args _ rfl (hne _ h (by simp))) a b h

/-- value positions, rule by rule -/
theorem isValuePos_iff (name : Bytes) (args : List Bytes) (i : Nat) :
    isValuePos (name.map upper) i ↔
      (compressRule (dataTypeOf (name :: args)) = .single i) ∨
      (compressRule (dataTypeOf (name :: args)) = .multi 2 2 ∧ 2 ≤ i ∧ i % 2 = 0) := by
  obtain ⟨r1, r2, r3⟩ := rule_of_name name args
  obtain ⟨n1, n2, n3⟩ := name_of_rule name args
  constructor
  · rintro (⟨h, rfl⟩ | ⟨h, rfl⟩ | ⟨h, h2⟩)
    · exact .inl (r1 h)
    · exact .inl (r2 h)
    · exact .inr ⟨r3 h, h2⟩
  · rintro (h | ⟨h, h2⟩)
    · rcases single_index_cases _ _ h with rfl | rfl
      · exact .inl ⟨n1 h, rfl⟩
      · exact .inr (.inl ⟨n2 h, rfl⟩)
    · exact .inr (.inr ⟨(n3 2 2 h).1, h2⟩)

/-- **shape of the rewritten request**: same length; every value position holds the compressed
value; every other position (name, keys, options, ttl arguments) is untouched -/
theorem compressCmd_spec (c : Codec) (s : Strategy) (name : Bytes) (args cmd' : List Bytes)
    (h : compressCmd c s (name :: args) = .ok cmd') :
    cmd'.length = (name :: args).length ∧
    ∀ i, cmd'[i]? = if isValuePos (name.map upper) i then ((name :: args)[i]?).map c.enc
                    else (name :: args)[i]? := by
  have hiff := isValuePos_iff name args
  unfold compressCmd at h
  split at h
  · cases h
  · generalize hr : compressRule (dataTypeOf (name :: args)) = r at h hiff
    cases r with
    | single i =>
      simp only [compressOne] at h
      split at h
      · cases h
      · rename_i v hv
        injection h with h
        subst h
        refine ⟨by simp, fun j => ?_⟩
        have : isValuePos (name.map upper) j ↔ i = j := by
          rw [hiff]; constructor
          · rintro (h | ⟨h, _⟩)
            · injection h
            · cases h
          · rintro rfl; exact .inl rfl
        by_cases hij : i = j
        · subst hij
          have hlt : i < (name :: args).length := by
            rcases Nat.lt_or_ge i (name :: args).length with h | h
            · exact h
            · rw [List.getElem?_eq_none h] at hv; cases hv
          simp only [this.mpr rfl, if_true, List.getElem?_set_self hlt, hv, Option.map_some]
        · have hn : ¬ isValuePos (name.map upper) j := fun h => hij (this.mp h)
          simp only [hn, if_false, List.getElem?_set_ne hij]
    | multi a b =>
      obtain ⟨-, rfl, rfl⟩ := (name_of_rule name args).2.2 a b hr
      simp only at h
      rw [compressMany_cmd] at h
      injection h with h
      subst h
      refine ⟨by simp [encPairs_length], fun j => ?_⟩
      have : isValuePos (name.map upper) j ↔ (2 ≤ j ∧ j % 2 = 0) := by
        rw [hiff]; constructor
        · rintro (h | ⟨_, h⟩)
          · cases h
          · exact h
        · intro h; exact .inr ⟨rfl, h⟩
      match j with
      | 0 =>
        have hn : ¬ isValuePos (name.map upper) 0 := fun h => by have := this.mp h; omega
        simp [hn]
      | j + 1 =>
        simp only [List.getElem?_cons_succ, encPairs_getElem?]
        by_cases hj : j % 2 = 1
        · have hp : isValuePos (name.map upper) (j + 1) := this.mpr (by omega)
          simp [hj, hp]
        · have hn : ¬ isValuePos (name.map upper) (j + 1) := fun h => by have := this.mp h; omega
          simp [hj, hn]
    | restricted =>
      simp only at h
      split at h <;> cases h
    | pass =>
      simp only at h
      injection h with h
      subst h
      refine ⟨rfl, fun j => ?_⟩
      have hn : ¬ isValuePos (name.map upper) j := by
        rw [hiff]
        rintro (h | ⟨h, _⟩) <;> cases h
      simp [hn]

/-! ## replies -/

theorem commitReply_disabled (c : Codec) (ty : DataCmdType) (r : Resp) :
    commitReply c .disabled ty r = r := by
  simp [commitReply, decompressReply]

theorem commitReply_unsupported (c : Codec) (s : Strategy) (ty : DataCmdType) (r : Resp)
    (h : decompressRule ty = .unsupported) : commitReply c s ty r = r := by
  unfold commitReply decompressReply
  by_cases hs : s = .disabled <;> simp [hs, h]

/-- a reply that is neither a bulk string nor an array is never altered -/
theorem commitReply_scalar (c : Codec) (s : Strategy) (ty : DataCmdType) (r : Resp)
    (h1 : ∀ b, r ≠ .bulk b) (h2 : ∀ l, r ≠ .arr l) : commitReply c s ty r = r := by
  unfold commitReply decompressReply
  by_cases hs : s = .disabled
  · simp [hs]
  · simp only [hs, if_false]
    cases hr : decompressRule ty with
    | bulk => cases r <;> simp_all
    | array => cases r <;> simp_all
    | unsupported => simp

/-- GET / GETSET: only a bulk reply is touched (arrays, integers, errors, nil pass through) -/
theorem commitReply_bulkRule_other (c : Codec) (s : Strategy) (ty : DataCmdType) (r : Resp)
    (h : decompressRule ty = .bulk) (h1 : ∀ b, r ≠ .bulk b) : commitReply c s ty r = r := by
  unfold commitReply decompressReply
  by_cases hs : s = .disabled
  · simp [hs]
  · cases r <;> simp_all

theorem commitReply_bulk (c : Codec) (s : Strategy) (hs : s ≠ .disabled) (ty : DataCmdType)
    (h : decompressRule ty = .bulk) (b : Bytes) :
    commitReply c s ty (.bulk b) = match c.dec b with
      | some d => .bulk d
      | none => .nilBulk := by
  unfold commitReply decompressReply
  simp only [hs, if_false, h]
  cases c.dec b <;> simp

theorem commitReply_bulk_enc (c : Codec) (s : Strategy) (hs : s ≠ .disabled) (ty : DataCmdType)
    (h : decompressRule ty = .bulk) (v : Bytes) :
    commitReply c s ty (.bulk (c.enc v)) = .bulk v := by
  rw [commitReply_bulk c s hs ty h, c.dec_enc]

/-- elementwise description of the array branch -/
theorem decompressElems_spec (c : Codec) (l l' : List Resp) (h : decompressElems c l = some l') :
    l'.length = l.length ∧
    ∀ i : Nat, (∀ b : Bytes, l[i]? = some (Resp.bulk b) → ∃ d, c.dec b = some d ∧ l'[i]? = some (Resp.bulk d)) ∧
         ((∀ b : Bytes, l[i]? ≠ some (Resp.bulk b)) → l'[i]? = l[i]?) := by
  induction l generalizing l' with
  | nil =>
    simp only [decompressElems] at h
    injection h with h; subst h
    simp
  | cons x xs ih =>
    simp only [decompressElems] at h
    split at h
    · rename_i y ys hy hys
      injection h with h; subst h
      obtain ⟨hl, hi⟩ := ih ys hys
      refine ⟨by simp [hl], fun i => ?_⟩
      match i with
      | 0 =>
        constructor
        · intro b hb
          simp only [List.getElem?_cons_zero, Option.some.injEq] at hb
          subst hb
          simp only [Option.map_eq_some_iff] at hy
          obtain ⟨d, hd, rfl⟩ := hy
          exact ⟨d, hd, by simp⟩
        · intro hb
          cases x with
          | bulk b => exact absurd rfl (hb b)
          | _ => simp_all
      | i + 1 =>
        simpa using hi i
    · cases h

/-- the reply of a backend that holds compressed values, in terms of the plain backend's reply -/
def encReply (c : Codec) (ty : DataCmdType) (r : Resp) : Resp :=
  match decompressRule ty, r with
  | .bulk, .bulk v => .bulk (c.enc v)
  | _, r => r

theorem commitReply_encReply (c : Codec) (s : Strategy) (hs : s ≠ .disabled) (ty : DataCmdType)
    (hty : decompressRule ty ≠ .array) (r : Resp) :
    commitReply c s ty (encReply c ty r) = r := by
  unfold encReply
  cases hr : decompressRule ty with
  | bulk =>
    cases r with
    | bulk v => simp only; exact commitReply_bulk_enc c s hs ty hr v
    | _ => simp only; exact commitReply_bulkRule_other c s ty _ hr (by intro b; simp)
  | array => exact absurd hr hty
  | unsupported => simp only; exact commitReply_unsupported c s ty r hr

/-! ## the backend stand-in on compressed vs plain stores -/

/-- the compressing cluster's store holds exactly the compressed form of the plain store -/
def StoreRel (c : Codec) (sc sp : Store) : Prop := ∀ k, sc k = (sp k).map c.enc

theorem StoreRel.isSome {c : Codec} {sc sp : Store} (h : StoreRel c sc sp) (k : Bytes) :
    (sc k).isSome = (sp k).isSome := by rw [h k]; cases sp k <;> rfl

theorem StoreRel.isNone {c : Codec} {sc sp : Store} (h : StoreRel c sc sp) (k : Bytes) :
    (sc k).isNone = (sp k).isNone := by rw [h k]; cases sp k <;> rfl

theorem StoreRel.put {c : Codec} {sc sp : Store} (h : StoreRel c sc sp) (k v : Bytes) :
    StoreRel c (sc.put k (c.enc v)) (sp.put k v) := by
  intro k'
  unfold Store.put
  by_cases hk : k' = k <;> simp [hk, h k']

theorem StoreRel.del {c : Codec} {sc sp : Store} (h : StoreRel c sc sp) (k : Bytes) :
    StoreRel c (sc.del k) (sp.del k) := by
  intro k'
  unfold Store.del
  by_cases hk : k' = k <;> simp [hk, h k']

theorem StoreRel.bulkOrNil {c : Codec} {sc sp : Store} (h : StoreRel c sc sp) (k : Bytes)
    (ty : DataCmdType) (hty : decompressRule ty = .bulk) :
    bulkOrNil (sc k) = encReply c ty (bulkOrNil (sp k)) := by
  rw [h k]
  unfold encReply
  cases sp k <;> simp [Compress.bulkOrNil, hty]

theorem encReply_unsupported (c : Codec) (ty : DataCmdType) (h : decompressRule ty = .unsupported)
    (r : Resp) : encReply c ty r = r := by
  unfold encReply; simp [h]

theorem putPairs_rel {c : Codec} (l : List Bytes) {sc sp : Store} (h : StoreRel c sc sp) :
    StoreRel c (putPairs sc (encPairs c l)) (putPairs sp l) := by
  fun_induction encPairs c l generalizing sc sp with
  | case1 k v r ih => simp only [putPairs]; exact ih (h.put k v)
  | case2 k => simpa [putPairs] using h
  | case3 => simpa [putPairs] using h

theorem anyPairKeyExists_rel {c : Codec} (l : List Bytes) {sc sp : Store} (h : StoreRel c sc sp) :
    anyPairKeyExists sc (encPairs c l) = anyPairKeyExists sp l := by
  fun_induction encPairs c l with
  | case1 k v r ih => simp only [anyPairKeyExists, ih, h.isSome]
  | case2 k => simp [anyPairKeyExists]
  | case3 => simp [anyPairKeyExists]

theorem existsReply_rel {c : Codec} {sc sp : Store} (h : StoreRel c sc sp) (k : Bytes) :
    existsReply sc k = existsReply sp k := by
  unfold existsReply; rw [h.isSome]

/-- what reaches the backend in place of `cmd` when compression is on -/
def wire (c : Codec) (s : Strategy) (cmd : List Bytes) : List Bytes :=
  match compressCmd c s cmd with
  | .ok x => x
  | .error _ => cmd

/-- a command that `handle_single_key_data_cmd` accepts under every enabled strategy and that is
well-formed enough for the rewriting not to fail: not on the restricted list, and a single-value
write form carries its value argument -/
def SupportedSingle (cmd : List Bytes) : Prop :=
  compressRule (dataTypeOf cmd) ≠ .restricted ∧
  ∀ i, compressRule (dataTypeOf cmd) = .single i → i < cmd.length

theorem compressCmd_supported (c : Codec) (s : Strategy) (hs : s ≠ .disabled) (cmd : List Bytes)
    (h : SupportedSingle cmd) : compressCmd c s cmd = .ok (wire c s cmd) := by
  unfold wire
  cases hc : compressCmd c s cmd with
  | ok x => rfl
  | error e =>
    exfalso
    unfold compressCmd at hc
    simp only [hs, if_false] at hc
    cases hr : compressRule (dataTypeOf cmd) with
    | single i =>
      rw [hr] at hc
      have hlt := h.2 i hr
      simp only [compressOne] at hc
      rw [List.getElem?_eq_getElem hlt] at hc
      cases hc
    | multi a b =>
      rw [hr] at hc
      cases cmd with
      | nil => simp [dataTypeOf, dataCmdNoName, compressRule] at hr
      | cons n args =>
        obtain ⟨-, rfl, rfl⟩ := (name_of_rule n args).2.2 a b hr
        simp only at hc
        rw [compressMany_cmd] at hc
        cases hc
    | restricted => exact h.1 hr
    | pass => rw [hr] at hc; cases hc

theorem wire_nil (c : Codec) (s : Strategy) : wire c s [] = [] := by
  unfold wire compressCmd
  by_cases hs : s = .disabled <;> simp [hs, dataTypeOf, dataCmdNoName, compressRule]

/-- the rewritten command keeps its name -/
theorem wire_cons (c : Codec) (s : Strategy) (n : Bytes) (args : List Bytes) :
    ∃ args', wire c s (n :: args) = n :: args' ∧ args'.length = args.length := by
  unfold wire
  cases hc : compressCmd c s (n :: args) with
  | error e => exact ⟨args, rfl, rfl⟩
  | ok x =>
    obtain ⟨hl, hi⟩ := compressCmd_spec c s n args x hc
    have h0 := hi 0
    have hn : ¬ isValuePos (n.map upper) 0 := by unfold isValuePos; omega
    simp only [hn, if_false, List.getElem?_cons_zero] at h0
    cases x with
    | nil => simp at h0
    | cons y ys =>
      simp only [List.getElem?_cons_zero, Option.some.injEq] at h0
      subst h0
      exact ⟨ys, rfl, by simpa using hl⟩

theorem dataTypeOf_wire (c : Codec) (s : Strategy) (cmd : List Bytes) :
    dataTypeOf (wire c s cmd) = dataTypeOf cmd := by
  cases cmd with
  | nil => rw [wire_nil]
  | cons n args =>
    obtain ⟨args', h, -⟩ := wire_cons c s n args
    rw [h]; rfl

theorem cmdTypeOf_wire (c : Codec) (s : Strategy) (cmd : List Bytes) :
    cmdTypeOf (wire c s cmd) = cmdTypeOf cmd := by
  cases cmd with
  | nil => rw [wire_nil]
  | cons n args =>
    obtain ⟨args', h, -⟩ := wire_cons c s n args
    rw [h]; rfl

theorem keyIndex_or_pass : ∀ ty : DataCmdType, keyIndex ty = 1 ∨ compressRule ty = .pass := by
  intro ty; cases ty <;> decide

/-- the routing key is never rewritten -/
theorem wire_key (c : Codec) (s : Strategy) (cmd : List Bytes) :
    (wire c s cmd)[keyIndex (dataTypeOf cmd)]? = cmd[keyIndex (dataTypeOf cmd)]? := by
  cases cmd with
  | nil => rw [wire_nil]
  | cons n args =>
    unfold wire
    cases hc : compressCmd c s (n :: args) with
    | error e => rfl
    | ok x =>
      rcases keyIndex_or_pass (dataTypeOf (n :: args)) with h1 | hp
      · obtain ⟨-, hi⟩ := compressCmd_spec c s n args x hc
        rw [h1]
        have hn : ¬ isValuePos (n.map upper) 1 := by unfold isValuePos; omega
        simpa [hn] using hi 1
      · unfold compressCmd at hc
        split at hc
        · cases hc
        · rw [hp] at hc
          injection hc with hc
          subst hc; rfl

theorem wire_pass (c : Codec) (s : Strategy) (cmd : List Bytes)
    (h : compressRule (dataTypeOf cmd) = .pass) : wire c s cmd = cmd := by
  unfold wire compressCmd
  by_cases hs : s = .disabled <;> simp [hs, h]

theorem wire_single (c : Codec) (s : Strategy) (hs : s ≠ .disabled) (cmd : List Bytes) (i : Nat)
    (h : compressRule (dataTypeOf cmd) = .single i) (v : Bytes) (hv : cmd[i]? = some v) :
    wire c s cmd = cmd.set i (c.enc v) := by
  unfold wire compressCmd
  simp [hs, h, compressOne, hv]

theorem wire_multi (c : Codec) (s : Strategy) (hs : s ≠ .disabled) (n : Bytes) (args : List Bytes)
    (h : compressRule (dataTypeOf (n :: args)) = .multi 2 2) :
    wire c s (n :: args) = n :: encPairs c args := by
  unfold wire compressCmd
  simp only [hs, if_false, h]
  rw [compressMany_cmd]

/-- outcome of one backend command on the compressed store relative to the plain store -/
def ExecRel (c : Codec) (ty : DataCmdType) (rc rp : Store × Resp) : Prop :=
  StoreRel c rc.1 rp.1 ∧ rc.2 = encReply c ty rp.2

theorem ExecRel.same {c : Codec} {ty : DataCmdType} (hty : decompressRule ty = .unsupported)
    {sc sp : Store} (h : StoreRel c sc sp) (r : Resp) : ExecRel c ty (sc, r) (sp, r) :=
  ⟨h, (encReply_unsupported c ty hty r).symm⟩

theorem encPairs_isEmpty (c : Codec) (args : List Bytes) :
    (encPairs c args).isEmpty = args.isEmpty := by
  cases args with
  | nil => rfl
  | cons x xs => cases xs <;> rfl

theorem encReply_nonbulk (c : Codec) (ty : DataCmdType) (r : Resp) (h : ∀ b, r ≠ .bulk b) :
    encReply c ty r = r := by
  unfold encReply
  split
  · rename_i v _; exact absurd rfl (h v)
  · rfl

theorem ExecRel.sameErr {c : Codec} {ty : DataCmdType} {sc sp : Store} (h : StoreRel c sc sp) :
    ExecRel c ty (sc, arityErr) (sp, arityErr) :=
  ⟨h, (encReply_nonbulk c ty _ (by intro b; simp [arityErr])).symm⟩

section exec
variable {c : Codec} {sc sp : Store} (h : StoreRel c sc sp)
include h

theorem execGet_rel (args : List Bytes) : ExecRel c .Get (execGet sc args) (execGet sp args) := by
  cases args with
  | nil => exact ExecRel.sameErr h
  | cons k rest => exact ⟨h, h.bulkOrNil k _ rfl⟩

theorem execDel_rel (args : List Bytes) : ExecRel c .Del (execDel sc args) (execDel sp args) := by
  cases args with
  | nil => exact ExecRel.same rfl h _
  | cons k rest =>
    simp only [execDel, h.isSome]
    split
    · exact ExecRel.same rfl (h.del k) _
    · exact ExecRel.same rfl h _

theorem execExists_rel (args : List Bytes) :
    ExecRel c .Exists (execExists sc args) (execExists sp args) := by
  cases args with
  | nil => exact ExecRel.same rfl h _
  | cons k rest =>
    simp only [execExists, existsReply_rel h]
    exact ExecRel.same rfl h _

theorem execOther_rel (n : Bytes) (args : List Bytes) :
    ExecRel c .Others (execOther sc n args) (execOther sp n args) := by
  unfold execOther
  split
  · split <;> exact ExecRel.same rfl h _
  · exact ExecRel.same rfl h _

theorem execSet_rel (k v : Bytes) (opts : List Bytes) :
    ExecRel c .Set (execSet sc (k :: c.enc v :: opts)) (execSet sp (k :: v :: opts)) := by
  simp only [execSet, h.isSome, h.isNone]
  split
  · exact ExecRel.same rfl h _
  · exact ExecRel.same rfl (h.put k v) _

theorem execSetnx_rel (k v : Bytes) (opts : List Bytes) :
    ExecRel c .Setnx (execSetnx sc (k :: c.enc v :: opts)) (execSetnx sp (k :: v :: opts)) := by
  simp only [execSetnx, h.isSome]
  split
  · exact ExecRel.same rfl h _
  · exact ExecRel.same rfl (h.put k v) _

theorem execGetset_rel (k v : Bytes) (opts : List Bytes) :
    ExecRel c .Getset (execGetset sc (k :: c.enc v :: opts)) (execGetset sp (k :: v :: opts)) :=
  ⟨h.put k v, h.bulkOrNil k _ rfl⟩

theorem execSetex_rel (ty : DataCmdType) (hty : decompressRule ty = .unsupported) (k t v : Bytes)
    (rest : List Bytes) :
    ExecRel c ty (execSetex sc (k :: t :: c.enc v :: rest)) (execSetex sp (k :: t :: v :: rest)) :=
  ExecRel.same hty (h.put k v) _

theorem execMset_rel (args : List Bytes) :
    ExecRel c .Mset (execMset sc (encPairs c args)) (execMset sp args) := by
  simp only [execMset, encPairs_length, encPairs_isEmpty]
  split
  · exact ExecRel.sameErr h
  · exact ExecRel.same (ty := .Mset) rfl (putPairs_rel args h) _

theorem execMsetnx_rel (args : List Bytes) :
    ExecRel c .Msetnx (execMsetnx sc (encPairs c args)) (execMsetnx sp args) := by
  simp only [execMsetnx, encPairs_length, encPairs_isEmpty, anyPairKeyExists_rel args h]
  split
  · exact ExecRel.sameErr h
  · split
    · exact ExecRel.same (ty := .Msetnx) rfl h _
    · exact ExecRel.same (ty := .Msetnx) rfl (putPairs_rel args h) _

end exec

theorem redisExec_cons (s : Store) (n : Bytes) (args : List Bytes) :
    redisExec s (n :: args) =
      match dataTypeOf (n :: args) with
      | .Set => execSet s args
      | .Setex => execSetex s args
      | .Psetex => execSetex s args
      | .Setnx => execSetnx s args
      | .Getset => execGetset s args
      | .Get => execGet s args
      | .Mget => (s, .arr (args.map fun k => bulkOrNil (s k)))
      | .Mset => execMset s args
      | .Msetnx => execMsetnx s args
      | .Del => execDel s args
      | .Exists => execExists s args
      | .Append => execAppend s args
      | .Strlen => execExists s args
      | .Others => execOther s n args
      | _ => (s, arityErr) := rfl

/-- per-command behaviour of the backend stand-in on a compressed store, given the rewritten
command, relative to the plain store and the original command -/
theorem redisExec_rel (c : Codec) (s : Strategy) (hs : s ≠ .disabled) (sc sp : Store)
    (h : StoreRel c sc sp) (cmd : List Bytes) (hsup : SupportedSingle cmd) :
    ExecRel c (dataTypeOf cmd) (redisExec sc (wire c s cmd)) (redisExec sp cmd) := by
  cases cmd with
  | nil =>
    rw [wire_nil]
    exact ExecRel.same rfl h _
  | cons n args =>
    cases hr : compressRule (dataTypeOf (n :: args)) with
    | restricted => exact absurd hr hsup.1
    | pass =>
      rw [wire_pass c s _ hr, redisExec_cons, redisExec_cons]
      generalize dataTypeOf (n :: args) = ty at hr ⊢
      cases ty <;> simp only [compressRule] at hr <;> dsimp only <;>
        first
        | exact ExecRel.same rfl h _
        | exact execGet_rel h args
        | exact execDel_rel h args
        | exact execExists_rel h args
        | exact execOther_rel h n args
        | cases hr
    | single i =>
      have hlt := hsup.2 i hr
      have hv : (n :: args)[i]? = some ((n :: args)[i]) := List.getElem?_eq_getElem hlt
      have hw := wire_single c s hs (n :: args) i hr _ hv
      rcases single_index_cases _ i hr with rfl | rfl
      · match args, hlt with
        | k :: v :: opts, _ =>
          simp only [List.getElem_cons_succ, List.getElem_cons_zero, List.set_cons_succ,
            List.set_cons_zero] at hw
          rw [hw, redisExec_cons, redisExec_cons,
            dataTypeOf_cons n (k :: c.enc v :: opts) (k :: v :: opts)]
          generalize dataTypeOf (n :: k :: v :: opts) = ty at hr ⊢
          cases ty <;> simp only [compressRule] at hr <;> dsimp only <;>
            first
            | exact execSet_rel h k v opts
            | exact execSetnx_rel h k v opts
            | exact execGetset_rel h k v opts
            | cases hr
      · match args, hlt with
        | k :: t :: v :: rest, _ =>
          simp only [List.getElem_cons_succ, List.getElem_cons_zero, List.set_cons_succ,
            List.set_cons_zero] at hw
          rw [hw, redisExec_cons, redisExec_cons,
            dataTypeOf_cons n (k :: t :: c.enc v :: rest) (k :: t :: v :: rest)]
          generalize dataTypeOf (n :: k :: t :: v :: rest) = ty at hr ⊢
          cases ty <;> simp only [compressRule] at hr <;> dsimp only <;>
            first
            | exact execSetex_rel h _ rfl k t v rest
            | cases hr
    | multi a b =>
      obtain ⟨-, rfl, rfl⟩ := (name_of_rule n args).2.2 a b hr
      rw [wire_multi c s hs n args hr, redisExec_cons, redisExec_cons,
        dataTypeOf_cons n (encPairs c args) args]
      generalize dataTypeOf (n :: args) = ty at hr ⊢
      cases ty <;> simp only [compressRule] at hr <;> dsimp only <;>
        first
        | exact execMset_rel h args
        | exact execMsetnx_rel h args
        | cases hr

/-! ## simulation: a compressing cluster against the same cluster with compression disabled -/

/-- the same cluster with `compression_strategy = disabled` -/
def plain (e : Env) : Env := { e with strategy := .disabled }

/-- the stores hold the compressed form of the plain stores; the backends received the rewritten
form of the commands the plain backends received -/
def SysRel (c : Codec) (s : Strategy) (a b : Sys) : Prop :=
  (∀ p, StoreRel c (a.stores p) (b.stores p)) ∧
  a.log = b.log.map (fun x => (x.1, wire c s x.2))

/-- a command that reaches `handle_single_key_data_cmd` — a single-key client command, a GET/SET
sub-command, or a regrouped MSETNX — and that one proxy may therefore forward to another -/
def FwdCmd (cmd : List Bytes) : Prop :=
  SupportedSingle cmd ∧ cmd ≠ [] ∧
  (dispatchRule (dataTypeOf cmd) = .single ∨
    (dispatchRule (dataTypeOf cmd) = .multiInt ∧ cmd[2]? = none) ∨
    dispatchRule (dataTypeOf cmd) = .msetnx)

/-- proxy-to-proxy hand-over in the two clusters: the compressing cluster forwards the *rewritten*
command, the plain cluster the original one, both inside `UMFORWARD <t>` -/
def DeliverRel (c : Codec) (s : Strategy) (dC dP : Deliver) : Prop :=
  ∀ sysC sysP q t cmd, SysRel c s sysC sysP → FwdCmd cmd →
    SysRel c s (dC sysC q (UMFORWARD :: t :: wire c s cmd)).1 (dP sysP q (UMFORWARD :: t :: cmd)).1 ∧
    (dC sysC q (UMFORWARD :: t :: wire c s cmd)).2 = (dP sysP q (UMFORWARD :: t :: cmd)).2

/-- the routing key of `cmd` is owned by proxy `p` -/
def LocalAt (e : Env) (p : Nat) (cmd : List Bytes) : Prop :=
  ∃ key, cmd[keyIndex (dataTypeOf cmd)]? = some key ∧ e.owner (e.slot key) = some p

theorem array_rule_restricted : ∀ ty : DataCmdType, decompressRule ty = .array →
    compressRule ty = .restricted := by
  intro ty; cases ty <;> decide

theorem backendCall_sim (c : Codec) (s : Strategy) (hs : s ≠ .disabled) (sysC sysP : Sys)
    (hR : SysRel c s sysC sysP) (p : Nat) (cmd : List Bytes) (hsup : SupportedSingle cmd) :
    SysRel c s (backendCall sysC p (wire c s cmd)).1 (backendCall sysP p cmd).1 ∧
    commitReply c s (dataTypeOf cmd) (backendCall sysC p (wire c s cmd)).2
      = (backendCall sysP p cmd).2 := by
  obtain ⟨h1, h2⟩ := redisExec_rel c s hs _ _ (hR.1 p) cmd hsup
  refine ⟨⟨fun q => ?_, ?_⟩, ?_⟩
  · simp only [backendCall]
    by_cases hq : q = p
    · simp only [hq, if_true]; exact h1
    · simp only [hq, if_false]; exact hR.1 q
  · simp only [backendCall, hR.2, List.map_append, List.map_cons, List.map_nil]
  · simp only [backendCall]
    rw [h2]
    exact commitReply_encReply c s hs _ (fun ha => hsup.1 (array_rule_restricted _ ha)) _

theorem orElse_some_ne_none {α : Type} (x : Option α) (y : α) :
    (x.orElse fun _ => some y) ≠ none := by
  cases x <;> simp

/-- routing step: the compressing cluster routes the rewritten command exactly as the plain cluster
routes the original -/
theorem sendCmd_sim (e : Env) (hs : e.strategy ≠ .disabled) (dC dP : Deliver)
    (hD : DeliverRel e.codec e.strategy dC dP) (sysC sysP : Sys)
    (hR : SysRel e.codec e.strategy sysC sysP) (p : Nat) (cmd : List Bytes) (rt : Option Nat)
    (hf : FwdCmd cmd) :
    SysRel e.codec e.strategy
      (sendCmd e dC sysC p { cmd := wire e.codec e.strategy cmd, redirTimes := rt }).1
      (sendCmd (plain e) dP sysP p { cmd := cmd, redirTimes := rt }).1 ∧
    (sendCmd e dC sysC p { cmd := wire e.codec e.strategy cmd, redirTimes := rt }).2
      = (sendCmd (plain e) dP sysP p { cmd := cmd, redirTimes := rt }).2 := by
  unfold sendCmd
  simp only [dataTypeOf_wire, wire_key, plain]
  cases hk : cmd[keyIndex (dataTypeOf cmd)]? with
  | none => exact ⟨hR, rfl⟩
  | some key =>
    simp only
    cases ho : e.owner (e.slot key) with
    | none => exact ⟨hR, rfl⟩
    | some q =>
      simp only
      by_cases hq : q = p
      · simp only [hq, if_true]
        obtain ⟨h1, h2⟩ := backendCall_sim e.codec e.strategy hs sysC sysP hR p cmd hf.1
        exact ⟨h1, by rw [h2, commitReply_disabled]⟩
      · simp only [hq, if_false]
        by_cases har : e.activeRedirection = true
        · simp only [har, if_true]
          cases ht : (rt.orElse (fun _ => e.maxRedirections.map (· - 1))).orElse
              (fun _ => some usizeMax) with
          | none => exact absurd ht (orElse_some_ne_none _ _)
          | some t =>
            simp only
            by_cases ht0 : t = 0
            · simp only [ht0, if_true]; exact ⟨hR, by first | rfl | trivial⟩
            · simp only [ht0, if_false]
              exact hD sysC sysP q _ cmd hR hf
        · simp only [har]
          exact ⟨hR, by first | rfl | trivial⟩

/-- `handle_single_key_data_cmd` on a command received from a client / created as sub-command
(no redirection mark): the compressing cluster rewrites it, then both route alike -/
theorem handleSingle_sim (e : Env) (hs : e.strategy ≠ .disabled) (dC dP : Deliver)
    (hD : DeliverRel e.codec e.strategy dC dP) (sysC sysP : Sys)
    (hR : SysRel e.codec e.strategy sysC sysP) (p : Nat) (cmd : List Bytes) (hf : FwdCmd cmd) :
    SysRel e.codec e.strategy
      (handleSingle e dC sysC p { cmd := cmd, redirTimes := none }).1
      (handleSingle (plain e) dP sysP p { cmd := cmd, redirTimes := none }).1 ∧
    (handleSingle e dC sysC p { cmd := cmd, redirTimes := none }).2
      = (handleSingle (plain e) dP sysP p { cmd := cmd, redirTimes := none }).2 := by
  have h1 : handleSingle e dC sysC p { cmd := cmd, redirTimes := none }
      = sendCmd e dC sysC p { cmd := wire e.codec e.strategy cmd, redirTimes := none } := by
    unfold handleSingle
    simp only [Option.isSome_none, Bool.false_eq_true, if_false,
      compressCmd_supported e.codec e.strategy hs cmd hf.1]
  have h2 : handleSingle (plain e) dP sysP p { cmd := cmd, redirTimes := none }
      = sendCmd (plain e) dP sysP p { cmd := cmd, redirTimes := none } := by
    unfold handleSingle
    simp [plain, compressCmd]
  rw [h1, h2]
  exact sendCmd_sim e hs dC dP hD sysC sysP hR p cmd none hf

/-- `handle_single_key_data_cmd` on a command that arrived through UMFORWARD: nobody compresses;
the compressing cluster holds the rewritten command already -/
theorem handleSingle_fwd_sim (e : Env) (hs : e.strategy ≠ .disabled) (dC dP : Deliver)
    (hD : DeliverRel e.codec e.strategy dC dP) (sysC sysP : Sys)
    (hR : SysRel e.codec e.strategy sysC sysP) (p : Nat) (cmd : List Bytes) (t : Nat)
    (hf : FwdCmd cmd) :
    SysRel e.codec e.strategy
      (handleSingle e dC sysC p { cmd := wire e.codec e.strategy cmd, redirTimes := some t }).1
      (handleSingle (plain e) dP sysP p { cmd := cmd, redirTimes := some t }).1 ∧
    (handleSingle e dC sysC p { cmd := wire e.codec e.strategy cmd, redirTimes := some t }).2
      = (handleSingle (plain e) dP sysP p { cmd := cmd, redirTimes := some t }).2 := by
  unfold handleSingle
  simp only [Option.isSome_some, if_true]
  exact sendCmd_sim e hs dC dP hD sysC sysP hR p cmd (some t) hf

theorem runSubs_sim (e : Env) (hs : e.strategy ≠ .disabled) (dC dP : Deliver)
    (hD : DeliverRel e.codec e.strategy dC dP) (p : Nat) (cmds : List (List Bytes))
    (hok : ∀ c ∈ cmds, FwdCmd c) (sysC sysP : Sys) (hR : SysRel e.codec e.strategy sysC sysP) :
    SysRel e.codec e.strategy (runSubs e dC p none sysC cmds).1
      (runSubs (plain e) dP p none sysP cmds).1 ∧
    (runSubs e dC p none sysC cmds).2 = (runSubs (plain e) dP p none sysP cmds).2 := by
  induction cmds generalizing sysC sysP with
  | nil => exact ⟨hR, rfl⟩
  | cons x xs ih =>
    obtain ⟨h1, h2⟩ := handleSingle_sim e hs dC dP hD sysC sysP hR p x (hok x List.mem_cons_self)
    obtain ⟨h3, h4⟩ := ih (fun c hc => hok c (List.mem_cons_of_mem _ hc)) _ _ h1
    simp only [runSubs]
    exact ⟨h3, by rw [h2, h4]⟩

theorem runSubs_fwd_sim (e : Env) (hs : e.strategy ≠ .disabled) (dC dP : Deliver)
    (hD : DeliverRel e.codec e.strategy dC dP) (p : Nat) (t : Nat) (cmds : List (List Bytes))
    (hok : ∀ c ∈ cmds, FwdCmd c) (sysC sysP : Sys) (hR : SysRel e.codec e.strategy sysC sysP) :
    SysRel e.codec e.strategy
      (runSubs e dC p (some t) sysC (cmds.map (wire e.codec e.strategy))).1
      (runSubs (plain e) dP p (some t) sysP cmds).1 ∧
    (runSubs e dC p (some t) sysC (cmds.map (wire e.codec e.strategy))).2
      = (runSubs (plain e) dP p (some t) sysP cmds).2 := by
  induction cmds generalizing sysC sysP with
  | nil => exact ⟨hR, rfl⟩
  | cons x xs ih =>
    obtain ⟨h1, h2⟩ := handleSingle_fwd_sim e hs dC dP hD sysC sysP hR p x t (hok x List.mem_cons_self)
    obtain ⟨h3, h4⟩ := ih (fun c hc => hok c (List.mem_cons_of_mem _ hc)) _ _ h1
    simp only [List.map_cons, runSubs]
    exact ⟨h3, by rw [h2, h4]⟩

theorem cmdTypeOf_GET (args : List Bytes) : cmdTypeOf (GET :: args) = .Others := by
  rw [cmdTypeOf_cons GET args []]; decide
theorem dataTypeOf_GET (args : List Bytes) : dataTypeOf (GET :: args) = .Get := by
  rw [dataTypeOf_cons GET args []]; decide
theorem dataTypeOf_SET (args : List Bytes) : dataTypeOf (SET :: args) = .Set := by
  rw [dataTypeOf_cons SET args []]; decide
theorem dataTypeOf_MSETNX (args : List Bytes) : dataTypeOf (MSETNX :: args) = .Msetnx := by
  rw [dataTypeOf_cons MSETNX args []]; decide

theorem supportedSingle_get (k : Bytes) : SupportedSingle [GET, k] := by
  refine ⟨?_, ?_⟩
  · rw [dataTypeOf_GET]; decide
  · intro i hi
    rw [dataTypeOf_GET] at hi
    simp [compressRule] at hi

theorem fwdCmd_get (k : Bytes) : FwdCmd [GET, k] :=
  ⟨supportedSingle_get k, by simp, .inl (by rw [dataTypeOf_GET]; rfl)⟩

theorem handleMget_sim (e : Env) (hs : e.strategy ≠ .disabled) (dC dP : Deliver)
    (hD : DeliverRel e.codec e.strategy dC dP) (p : Nat) (ctx : Ctx)
    (sysC sysP : Sys) (hR : SysRel e.codec e.strategy sysC sysP) :
    SysRel e.codec e.strategy (handleMget e dC sysC p ctx).1 (handleMget (plain e) dP sysP p ctx).1 ∧
    (handleMget e dC sysC p ctx).2 = (handleMget (plain e) dP sysP p ctx).2 := by
  unfold handleMget
  simp only [plain]
  by_cases hc : (!e.activeRedirection && !sameSlot e.slot (ctx.cmd.drop 1)) = true
  · simp only [hc, ↓reduceIte]; exact ⟨hR, by first | rfl | trivial⟩
  · simp only [hc, Bool.false_eq_true, ↓reduceIte]
    obtain ⟨h1, h2⟩ := runSubs_sim e hs dC dP hD p ((ctx.cmd.drop 1).map fun k => [GET, k])
      (by
        intro c hc
        simp only [List.mem_map] at hc
        obtain ⟨k, -, rfl⟩ := hc
        exact fwdCmd_get k) sysC sysP hR
    simp only [plain] at h1 h2
    exact ⟨h1, by rw [h2]⟩

/-- the keys of the complete key/value pairs -/
def keysOfPairs : List Bytes → List Bytes
  | k :: _ :: r => k :: keysOfPairs r
  | _ => []

theorem supportedSingle_single2 (n k v : Bytes) (rest : List Bytes)
    (h : compressRule (dataTypeOf (n :: k :: v :: rest)) = .single 2) :
    SupportedSingle (n :: k :: v :: rest) := by
  refine ⟨by rw [h]; simp, fun i hi => ?_⟩
  rw [h] at hi
  injection hi with hi
  subst hi
  simp

theorem fwdCmd_set (k v : Bytes) : FwdCmd [SET, k, v] :=
  ⟨supportedSingle_single2 _ _ _ _ (by rw [dataTypeOf_SET]; rfl), by simp,
    .inl (by rw [dataTypeOf_SET]; rfl)⟩

theorem msetLoop_sim (e : Env) (hs : e.strategy ≠ .disabled) (dC dP : Deliver)
    (hD : DeliverRel e.codec e.strategy dC dP) (p : Nat) (rest : List Bytes)
    (sysC sysP : Sys) (hR : SysRel e.codec e.strategy sysC sysP) :
    SysRel e.codec e.strategy (msetLoop e dC p sysC rest).1 (msetLoop (plain e) dP p sysP rest).1 ∧
    (msetLoop e dC p sysC rest).2 = (msetLoop (plain e) dP p sysP rest).2 := by
  fun_induction keysOfPairs rest generalizing sysC sysP with
  | case1 k v r ih =>
    obtain ⟨h1, h2⟩ := handleSingle_sim e hs dC dP hD sysC sysP hR p [SET, k, v] (fwdCmd_set k v)
    obtain ⟨h3, h4⟩ := ih _ _ h1
    simp only [msetLoop]
    exact ⟨h3, by rw [h2, h4]⟩
  | case2 l hl =>
    match l, hl with
    | [], _ => exact ⟨hR, rfl⟩
    | [x], _ => exact ⟨hR, rfl⟩
    | k :: v :: r, hl => exact absurd rfl (hl k v r)

theorem handleMset_sim (e : Env) (hs : e.strategy ≠ .disabled) (dC dP : Deliver)
    (hD : DeliverRel e.codec e.strategy dC dP) (p : Nat) (ctx : Ctx)
    (sysC sysP : Sys) (hR : SysRel e.codec e.strategy sysC sysP) :
    SysRel e.codec e.strategy (handleMset e dC sysC p ctx).1 (handleMset (plain e) dP sysP p ctx).1 ∧
    (handleMset e dC sysC p ctx).2 = (handleMset (plain e) dP sysP p ctx).2 := by
  unfold handleMset
  simp only [plain]
  by_cases hc : (!e.activeRedirection && !sameSlot e.slot (pairKeysForSlotCheck ctx.cmd)) = true
  · simp only [hc, ↓reduceIte]; exact ⟨hR, by first | rfl | trivial⟩
  · simp only [hc, Bool.false_eq_true, ↓reduceIte]
    obtain ⟨h1, h2⟩ := msetLoop_sim e hs dC dP hD p (ctx.cmd.drop 1) sysC sysP hR
    simp only [plain] at h1 h2
    exact ⟨h1, by rw [h2]⟩

/-! ### MSETNX regrouping -/

/-- a regrouped command: `MSETNX` followed by a non-empty list of complete pairs -/
def GroupOK (g : Nat × List Bytes) : Prop :=
  ∃ kvs, g.2 = MSETNX :: kvs ∧ kvs ≠ [] ∧ kvs.length % 2 = 0

theorem insertGroup_ok (slot : Nat) (k v : Bytes)
    (gs : List (Nat × List Bytes)) (h : ∀ g ∈ gs, GroupOK g) :
    ∀ g ∈ insertGroup slot k v gs, GroupOK g := by
  induction gs with
  | nil =>
    intro g hg
    simp only [insertGroup, List.mem_singleton] at hg
    subst hg
    exact ⟨[k, v], rfl, by simp, by simp⟩
  | cons x xs ih =>
    obtain ⟨sl, cm⟩ := x
    intro g hg
    simp only [insertGroup] at hg
    split at hg
    · rcases List.mem_cons.mp hg with rfl | hg
      · obtain ⟨kvs, h0, hne, hev⟩ := h (sl, cm) List.mem_cons_self
        simp only at h0
        exact ⟨kvs ++ [k, v], by simp [h0], by simp, by simp; omega⟩
      · exact h g (List.mem_cons_of_mem _ hg)
    · rcases List.mem_cons.mp hg with rfl | hg
      · exact h _ List.mem_cons_self
      · exact ih (fun g hg => h g (List.mem_cons_of_mem _ hg)) g hg

theorem groupBySlot_ok (slot : Bytes → Nat) (pairs : List (Bytes × Bytes))
    (acc : List (Nat × List Bytes)) (h : ∀ g ∈ acc, GroupOK g) :
    ∀ g ∈ groupBySlot slot pairs acc, GroupOK g := by
  induction pairs generalizing acc with
  | nil => simpa [groupBySlot] using h
  | cons kv rest ih =>
    obtain ⟨k, v⟩ := kv
    simp only [groupBySlot]
    exact ih _ (insertGroup_ok _ k v acc h)

theorem dispatch_msetnx_rule : ∀ ty : DataCmdType, dispatchRule ty = .msetnx →
    compressRule ty = .multi 2 2 := by
  intro ty; cases ty <;> decide

theorem wire_group (c : Codec) (s : Strategy) (hs : s ≠ .disabled) (kvs : List Bytes) :
    wire c s (MSETNX :: kvs) = MSETNX :: encPairs c kvs :=
  wire_multi c s hs MSETNX kvs (by rw [dataTypeOf_MSETNX]; rfl)

theorem fwdCmd_group (g : Nat × List Bytes) (hg : GroupOK g) : FwdCmd g.2 := by
  obtain ⟨kvs, hcmd, -, -⟩ := hg
  rw [hcmd]
  refine ⟨⟨?_, ?_⟩, by simp, .inr (.inr ?_)⟩
  · rw [dataTypeOf_MSETNX]; decide
  · intro i hi
    rw [dataTypeOf_MSETNX] at hi
    simp [compressRule] at hi
  · rw [dataTypeOf_MSETNX]; rfl

/-- `handle_msetnx` for a client command (no redirection mark) -/
theorem handleMsetnx_sim (e : Env) (hs : e.strategy ≠ .disabled) (dC dP : Deliver)
    (hD : DeliverRel e.codec e.strategy dC dP) (p : Nat) (cmd : List Bytes)
    (sysC sysP : Sys) (hR : SysRel e.codec e.strategy sysC sysP) :
    SysRel e.codec e.strategy (handleMsetnx e dC sysC p { cmd := cmd, redirTimes := none }).1
      (handleMsetnx (plain e) dP sysP p { cmd := cmd, redirTimes := none }).1 ∧
    (handleMsetnx e dC sysC p { cmd := cmd, redirTimes := none }).2
      = (handleMsetnx (plain e) dP sysP p { cmd := cmd, redirTimes := none }).2 := by
  unfold handleMsetnx
  simp only [plain]
  by_cases hc : (!e.activeRedirection && !sameSlot e.slot (pairKeysForSlotCheck cmd)) = true
  · simp only [hc, ↓reduceIte]; exact ⟨hR, by first | rfl | trivial⟩
  · simp only [hc, Bool.false_eq_true, ↓reduceIte]
    cases hp : pairsOf (cmd.drop 1) with
    | none => exact ⟨hR, rfl⟩
    | some pairs =>
      simp only
      have hgroups := groupBySlot_ok e.slot pairs [] (by simp)
      obtain ⟨h1, h2⟩ := runSubs_sim e hs dC dP hD p ((groupBySlot e.slot pairs []).map (·.2))
        (by
          intro c hc
          simp only [List.mem_map] at hc
          obtain ⟨g, hg, rfl⟩ := hc
          exact fwdCmd_group g (hgroups g hg)) sysC sysP hR
      simp only [plain] at h1 h2
      exact ⟨h1, by rw [h2]⟩

/-! #### the same regrouping on an already rewritten MSETNX (forwarded) -/

def encKV (c : Codec) (kv : Bytes × Bytes) : Bytes × Bytes := (kv.1, c.enc kv.2)

def encGroup (c : Codec) (g : Nat × List Bytes) : Nat × List Bytes :=
  (g.1, match g.2 with
    | [] => []
    | h :: t => h :: encPairs c t)

theorem pairsOf_encPairs (c : Codec) (l : List Bytes) :
    pairsOf (encPairs c l) = (pairsOf l).map (List.map (encKV c)) := by
  fun_induction encPairs c l with
  | case1 k v r ih => simp only [pairsOf, ih]; cases pairsOf r <;> simp [encKV]
  | case2 k => simp [pairsOf]
  | case3 => simp [pairsOf]

theorem encPairs_append_even (c : Codec) (a b : List Bytes) (h : a.length % 2 = 0) :
    encPairs c (a ++ b) = encPairs c a ++ encPairs c b := by
  fun_induction encPairs c a with
  | case1 k v r ih =>
    simp only [List.cons_append, encPairs]
    rw [ih (by simp at h; omega)]
  | case2 k => simp at h
  | case3 => simp

theorem insertGroup_enc (c : Codec) (slot : Nat) (k v : Bytes) (gs : List (Nat × List Bytes))
    (h : ∀ g ∈ gs, GroupOK g) :
    insertGroup slot k (c.enc v) (gs.map (encGroup c)) = (insertGroup slot k v gs).map (encGroup c) := by
  induction gs with
  | nil => simp [insertGroup, encGroup, encPairs]
  | cons x xs ih =>
    obtain ⟨sl, cm⟩ := x
    obtain ⟨kvs, h0, -, hev⟩ := h (sl, cm) List.mem_cons_self
    simp only at h0
    subst h0
    simp only [List.map_cons, insertGroup, encGroup]
    by_cases hsl : sl = slot
    · simp only [hsl, if_true, List.map_cons, encGroup, List.cons_append,
        encPairs_append_even c kvs [k, v] hev, encPairs]
    · simp only [hsl, if_false, List.map_cons, encGroup]
      rw [← ih (fun g hg => h g (List.mem_cons_of_mem _ hg))]

theorem groupBySlot_enc (c : Codec) (slot : Bytes → Nat) (pairs : List (Bytes × Bytes))
    (acc : List (Nat × List Bytes)) (h : ∀ g ∈ acc, GroupOK g) :
    groupBySlot slot (pairs.map (encKV c)) (acc.map (encGroup c))
      = (groupBySlot slot pairs acc).map (encGroup c) := by
  induction pairs generalizing acc with
  | nil => simp [groupBySlot]
  | cons kv rest ih =>
    obtain ⟨k, v⟩ := kv
    simp only [List.map_cons, encKV, groupBySlot]
    rw [insertGroup_enc c _ k v acc h]
    exact ih _ (insertGroup_ok _ k v acc h)

theorem encGroup_wire (c : Codec) (s : Strategy) (hs : s ≠ .disabled) (g : Nat × List Bytes)
    (hg : GroupOK g) : (encGroup c g).2 = wire c s g.2 := by
  obtain ⟨kvs, h0, -, -⟩ := hg
  rw [h0, wire_group c s hs]
  simp [encGroup, h0]

theorem filterMap_congr' {α β : Type} (f g : α → Option β) (l : List α)
    (h : ∀ x ∈ l, f x = g x) : l.filterMap f = l.filterMap g := by
  induction l with
  | nil => rfl
  | cons x xs ih =>
    simp only [List.filterMap_cons, h x List.mem_cons_self,
      ih (fun y hy => h y (List.mem_cons_of_mem _ hy))]

theorem slotKeys_enc (c : Codec) (n : Bytes) (args : List Bytes) :
    pairKeysForSlotCheck (n :: encPairs c args) = pairKeysForSlotCheck (n :: args) := by
  unfold pairKeysForSlotCheck
  simp only [List.length_cons, encPairs_length]
  apply filterMap_congr'
  intro i _
  simp only [List.getElem?_cons_succ, encPairs_getElem?]
  simp

/-- `handle_msetnx` on a forwarded MSETNX: the compressing cluster regroups the rewritten command -/
theorem handleMsetnx_fwd_sim (e : Env) (hs : e.strategy ≠ .disabled) (dC dP : Deliver)
    (hD : DeliverRel e.codec e.strategy dC dP) (p : Nat) (n : Bytes) (args : List Bytes) (t : Nat)
    (hd : dispatchRule (dataTypeOf (n :: args)) = .msetnx)
    (sysC sysP : Sys) (hR : SysRel e.codec e.strategy sysC sysP) :
    SysRel e.codec e.strategy
      (handleMsetnx e dC sysC p { cmd := wire e.codec e.strategy (n :: args), redirTimes := some t }).1
      (handleMsetnx (plain e) dP sysP p { cmd := n :: args, redirTimes := some t }).1 ∧
    (handleMsetnx e dC sysC p { cmd := wire e.codec e.strategy (n :: args), redirTimes := some t }).2
      = (handleMsetnx (plain e) dP sysP p { cmd := n :: args, redirTimes := some t }).2 := by
  rw [wire_multi e.codec e.strategy hs n args (dispatch_msetnx_rule _ hd)]
  unfold handleMsetnx
  simp only [plain, slotKeys_enc, List.drop_succ_cons, List.drop_zero, pairsOf_encPairs]
  by_cases hc : (!e.activeRedirection && !sameSlot e.slot (pairKeysForSlotCheck (n :: args))) = true
  · simp only [hc, ↓reduceIte]; exact ⟨hR, by first | rfl | trivial⟩
  · simp only [hc, Bool.false_eq_true, ↓reduceIte]
    cases hp : pairsOf args with
    | none => exact ⟨hR, rfl⟩
    | some pairs =>
      simp only [Option.map_some]
      have hgroups := groupBySlot_ok e.slot pairs [] (by simp)
      have hg : groupBySlot e.slot (pairs.map (encKV e.codec)) []
          = (groupBySlot e.slot pairs []).map (encGroup e.codec) := by
        have := groupBySlot_enc e.codec e.slot pairs [] (by simp)
        simpa using this
      have hcmds : ((groupBySlot e.slot (pairs.map (encKV e.codec)) []).map (·.2))
          = ((groupBySlot e.slot pairs []).map (·.2)).map (wire e.codec e.strategy) := by
        rw [hg, List.map_map, List.map_map]
        apply List.map_congr_left
        intro g hgm
        exact encGroup_wire e.codec e.strategy hs g (hgroups g hgm)
      rw [hcmds]
      obtain ⟨h1, h2⟩ := runSubs_fwd_sim e hs dC dP hD p t ((groupBySlot e.slot pairs []).map (·.2))
        (by
          intro c hc
          simp only [List.mem_map] at hc
          obtain ⟨g, hg, rfl⟩ := hc
          exact fwdCmd_group g (hgroups g hg)) sysC sysP hR
      simp only [plain] at h1 h2
      exact ⟨h1, by rw [h2]⟩

/-! ### whole commands, hops, sequences -/

theorem wire_length (c : Codec) (s : Strategy) (cmd : List Bytes) :
    (wire c s cmd).length = cmd.length := by
  cases cmd with
  | nil => rw [wire_nil]
  | cons n args =>
    obtain ⟨args', h, hl⟩ := wire_cons c s n args
    rw [h]; simp [hl]

/-- a forwarded command, as the receiving proxy's `handle_data_cmd` sees it -/
theorem handleDataCmd_fwd_sim (e : Env) (hs : e.strategy ≠ .disabled) (dC dP : Deliver)
    (hD : DeliverRel e.codec e.strategy dC dP) (p : Nat) (cmd : List Bytes) (t : Nat)
    (hf : FwdCmd cmd) (sysC sysP : Sys) (hR : SysRel e.codec e.strategy sysC sysP) :
    SysRel e.codec e.strategy
      (handleDataCmd e dC sysC p { cmd := wire e.codec e.strategy cmd, redirTimes := some t }).1
      (handleDataCmd (plain e) dP sysP p { cmd := cmd, redirTimes := some t }).1 ∧
    (handleDataCmd e dC sysC p { cmd := wire e.codec e.strategy cmd, redirTimes := some t }).2
      = (handleDataCmd (plain e) dP sysP p { cmd := cmd, redirTimes := some t }).2 := by
  have hS := handleSingle_fwd_sim e hs dC dP hD sysC sysP hR p cmd t hf
  unfold handleDataCmd
  simp only [dataTypeOf_wire]
  rcases hf.2.2 with hd | ⟨hd, h2⟩ | hd
  · simp only [hd]; exact hS
  · have h2' : (wire e.codec e.strategy cmd)[2]? = none := by
      rw [List.getElem?_eq_none_iff] at h2 ⊢
      rw [wire_length]; exact h2
    simp only [hd, h2, h2', Option.isSome_none, Bool.false_eq_true, if_false]; exact hS
  · simp only [hd]
    cases cmd with
    | nil => exact absurd rfl hf.2.1
    | cons n args => exact handleMsetnx_fwd_sim e hs dC dP hD p n args t hd sysC sysP hR

theorem cmdTypeOf_UMFORWARD (args : List Bytes) : cmdTypeOf (UMFORWARD :: args) = .UmForward := by
  rw [cmdTypeOf_cons UMFORWARD args []]; decide

/-- **hop induction**: whatever one proxy forwards — the rewritten command in the compressing
cluster, the original in the plain one — the receiving proxies answer alike and stay related -/
theorem handle_deliverRel (e : Env) (hs : e.strategy ≠ .disabled) :
    ∀ n, DeliverRel e.codec e.strategy (handle e n) (handle (plain e) n) := by
  intro n
  induction n with
  | zero =>
    intro sysC sysP q t cmd hR _
    exact ⟨hR, rfl⟩
  | succ n ih =>
    intro sysC sysP q t cmd hR hf
    simp only [handle]
    unfold handleCmdCtx
    simp only [cmdTypeOf_UMFORWARD]
    unfold handleUmforward
    simp only [List.getElem?_cons_succ, List.getElem?_cons_zero, List.drop_succ_cons, List.drop_zero]
    split
    · exact ⟨hR, rfl⟩
    · cases parseUsize t with
      | none => exact ⟨hR, rfl⟩
      | some times =>
        simp only
        have h0 : cmd.length ≠ 0 := fun h0 => hf.2.1 (List.length_eq_zero_iff.mp h0)
        have h0' : (wire e.codec e.strategy cmd).length ≠ 0 := by rw [wire_length]; exact h0
        simp only [h0, h0', if_false]
        exact handleDataCmd_fwd_sim e hs _ _ ih q cmd times hf sysC sysP hR

/-- client commands covered by the simulation: a data command (not `UMFORWARD`, `UMCTL`, …) that
the model follows (no multi-key DEL/EXISTS, blocking command or EVAL), not on the restricted list,
and — for the single-value write forms — carrying its value argument -/
def Supported (cmd : List Bytes) : Prop :=
  cmdTypeOf cmd = .Others ∧
  match dispatchRule (dataTypeOf cmd) with
  | .mget => True
  | .mset => True
  | .msetnx => True
  | .single => SupportedSingle cmd
  | .multiInt => cmd[2]? = none ∧ SupportedSingle cmd
  | .blocking => False
  | .eval => False

theorem Supported.ne_nil {cmd : List Bytes} (h : Supported cmd) : cmd ≠ [] := by
  intro hn; subst hn
  exact absurd h.1 (by decide)

/-- one client command at proxy `p`: the two clusters stay related and answer alike -/
theorem handle_sim (e : Env) (hs : e.strategy ≠ .disabled) (n : Nat) (p : Nat) (cmd : List Bytes)
    (hsup : Supported cmd) (sysC sysP : Sys) (hR : SysRel e.codec e.strategy sysC sysP) :
    SysRel e.codec e.strategy (handle e n sysC p cmd).1 (handle (plain e) n sysP p cmd).1 ∧
    (handle e n sysC p cmd).2 = (handle (plain e) n sysP p cmd).2 := by
  cases n with
  | zero => exact ⟨hR, rfl⟩
  | succ n =>
    have hD := handle_deliverRel e hs n
    simp only [handle]
    unfold handleCmdCtx
    simp only [hsup.1]
    unfold handleDataCmd
    have h2 := hsup.2
    cases hd : dispatchRule (dataTypeOf cmd) with
    | mget => exact handleMget_sim e hs _ _ hD p _ sysC sysP hR
    | mset => exact handleMset_sim e hs _ _ hD p _ sysC sysP hR
    | msetnx => exact handleMsetnx_sim e hs _ _ hD p cmd sysC sysP hR
    | blocking => simp only [hd] at h2
    | eval => simp only [hd] at h2
    | single =>
      simp only [hd] at h2
      exact handleSingle_sim e hs _ _ hD sysC sysP hR p cmd ⟨h2, hsup.ne_nil, .inl hd⟩
    | multiInt =>
      simp only [hd] at h2
      simp only [h2.1, Option.isSome_none, Bool.false_eq_true, if_false]
      exact handleSingle_sim e hs _ _ hD sysC sysP hR p cmd ⟨h2.2, hsup.ne_nil, .inr (.inl ⟨hd, h2.1⟩)⟩

/-- a sequence of client commands, each sent to some proxy -/
def runOps (e : Env) (fuel : Nat) : Sys → List (Nat × List Bytes) → Sys × List Resp
  | sys, [] => (sys, [])
  | sys, (p, cmd) :: ops =>
    let r := handle e fuel sys p cmd
    let rest := runOps e fuel r.1 ops
    (rest.1, r.2 :: rest.2)

theorem runOps_sim (e : Env) (hs : e.strategy ≠ .disabled) (n : Nat) (ops : List (Nat × List Bytes))
    (hsup : ∀ op ∈ ops, Supported op.2)
    (sysC sysP : Sys) (hR : SysRel e.codec e.strategy sysC sysP) :
    SysRel e.codec e.strategy (runOps e n sysC ops).1 (runOps (plain e) n sysP ops).1 ∧
    (runOps e n sysC ops).2 = (runOps (plain e) n sysP ops).2 := by
  induction ops generalizing sysC sysP with
  | nil => exact ⟨hR, rfl⟩
  | cons op ops ih =>
    obtain ⟨p, cmd⟩ := op
    obtain ⟨h1, h2⟩ := handle_sim e hs n p cmd (hsup (p, cmd) List.mem_cons_self) sysC sysP hR
    obtain ⟨h3, h4⟩ := ih (fun op hop => hsup op (List.mem_cons_of_mem _ hop)) _ _ h1
    simp only [runOps]
    exact ⟨h3, by rw [h2, h4]⟩

theorem SysRel.empty (c : Codec) (s : Strategy) : SysRel c s Sys.empty Sys.empty :=
  ⟨fun _ _ => rfl, rfl⟩

/-! ### helpers for the spelled-out round trip -/

theorem redisExec_set (s : Store) (k x : Bytes) :
    redisExec s [nSET, k, x] = (s.put k x, .simple (B "OK")) := by
  rw [redisExec_cons, show dataTypeOf [nSET, k, x] = .Set from dataTypeOf_SET _]
  simp [execSet, OK]

theorem redisExec_get (s : Store) (k : Bytes) :
    redisExec s [nGET, k] = (s, bulkOrNil (s k)) := by
  rw [redisExec_cons, show dataTypeOf [nGET, k] = .Get from dataTypeOf_GET _]
  rfl

theorem dataTypeOf_GETSET (args : List Bytes) : dataTypeOf (nGETSET :: args) = .Getset := by
  rw [dataTypeOf_cons nGETSET args []]; decide
theorem dataTypeOf_MGET (args : List Bytes) : dataTypeOf (nMGET :: args) = .Mget := by
  rw [dataTypeOf_cons nMGET args []]; decide
theorem cmdTypeOf_SET (args : List Bytes) : cmdTypeOf (nSET :: args) = .Others := by
  rw [cmdTypeOf_cons nSET args []]; decide
theorem cmdTypeOf_GETSET (args : List Bytes) : cmdTypeOf (nGETSET :: args) = .Others := by
  rw [cmdTypeOf_cons nGETSET args []]; decide
theorem cmdTypeOf_MGET (args : List Bytes) : cmdTypeOf (nMGET :: args) = .Others := by
  rw [cmdTypeOf_cons nMGET args []]; decide

theorem redisExec_getset (s : Store) (k x : Bytes) :
    redisExec s [nGETSET, k, x] = (s.put k x, bulkOrNil (s k)) := by
  rw [redisExec_cons, dataTypeOf_GETSET]
  rfl

theorem backendCall_stores_self (sys : Sys) (p : Nat) (cmd : List Bytes) :
    (backendCall sys p cmd).1.stores p = (redisExec (sys.stores p) cmd).1 := by
  simp [backendCall]

theorem backendCall_reply (sys : Sys) (p : Nat) (cmd : List Bytes) :
    (backendCall sys p cmd).2 = (redisExec (sys.stores p) cmd).2 := rfl

/-- a supported single-key command received by the owner of its key goes to the local backend
rewritten, and the reply comes back through the commit handler -/
theorem handleSingle_local (e : Env) (hs : e.strategy ≠ .disabled) (d : Deliver) (sys : Sys) (p : Nat)
    (cmd : List Bytes) (hsup : SupportedSingle cmd) (hl : LocalAt e p cmd) :
    handleSingle e d sys p { cmd := cmd } =
      ((backendCall sys p (wire e.codec e.strategy cmd)).1,
       commitReply e.codec e.strategy (dataTypeOf cmd)
         (backendCall sys p (wire e.codec e.strategy cmd)).2) := by
  obtain ⟨key, hk, ho⟩ := hl
  unfold handleSingle
  simp only [Option.isSome_none, Bool.false_eq_true, if_false,
    compressCmd_supported e.codec e.strategy hs cmd hsup]
  unfold sendCmd
  simp only [dataTypeOf_wire, wire_key, hk, ho, if_true]

/-- a single-dispatch client command at the owner -/
theorem handle_single_local (e : Env) (hs : e.strategy ≠ .disabled) (n : Nat) (sys : Sys) (p : Nat)
    (cmd : List Bytes) (hct : cmdTypeOf cmd = .Others) (hd : dispatchRule (dataTypeOf cmd) = .single)
    (hsup : SupportedSingle cmd) (hl : LocalAt e p cmd) :
    handle e (n + 1) sys p cmd =
      ((backendCall sys p (wire e.codec e.strategy cmd)).1,
       commitReply e.codec e.strategy (dataTypeOf cmd)
         (backendCall sys p (wire e.codec e.strategy cmd)).2) := by
  simp only [handle]
  unfold handleCmdCtx
  simp only [hct]
  unfold handleDataCmd
  simp only [hd]
  exact handleSingle_local e hs _ sys p cmd hsup hl

end Um.Compress
