import UmProofs.CoordCommit
import UmProofs.CoordSync
/-!
# C07 — one fault-free migration round commits every reported task
-/
namespace Um.Coord
open Um Um.Broker Um.Broker.Scale Um.Slots

/-! ## the broker side of `commit_migration` -/

/-- every cluster of the store satisfies the commit invariant (C10: positions, twins, compacted ranges) -/
def CInv (b : Store) : Prop := ∀ name c, b.findCluster name = some c → CommitInv c

theorem commitMigration_noclear (s : Store) (name : String) (ranges : RangeList) (e : Nat) (tn : Bool) :
    commitMigration s name ranges e tn false = commitMigrationCore s name ranges e tn := by
  unfold commitMigration
  split
  · rename_i s' h; simp [h]
  · rfl

/-- the possible outcomes of `commit_migration`; every refusal leaves the store untouched -/
theorem commitCore_outcomes (s : Store) (name : String) (ranges : RangeList) (e : Nat) (tn : Bool) :
    (∃ s1, commitMigrationCore s name ranges e tn = (s1, R.ok ())) ∨
    commitMigrationCore s name ranges e tn = (s, R.err Err.clusterNotFound) ∨
    (tn = true ∧ commitMigrationCore s name ranges e tn = (s, R.err Err.invalidMigrationTask)) ∨
    commitMigrationCore s name ranges e tn = (s, R.err Err.migrationTaskNotFound) := by
  unfold commitMigrationCore
  dsimp only
  split
  · exact Or.inr (Or.inl rfl)
  · split
    · rename_i h; exact Or.inr (Or.inr (Or.inl ⟨h, rfl⟩))
    · split
      · exact Or.inr (Or.inr (Or.inr rfl))
      · split
        · exact Or.inr (Or.inr (Or.inr rfl))
        · exact Or.inl ⟨_, rfl⟩

theorem find?_setCluster_ne (l : List Cluster) (c : Cluster) (n : String) (h : c.name ≠ n) :
    (l.map fun x => if x.name == c.name then c else x).find? (·.name == n) = l.find? (·.name == n) := by
  induction l with
  | nil => rfl
  | cons x xs ih =>
    simp only [List.map_cons, List.find?_cons]
    by_cases hx : (x.name == c.name) = true
    · have hxc : x.name = c.name := by simpa using hx
      have h1 : (c.name == n) = false := by simpa using h
      have h2 : (x.name == n) = false := by rw [hxc]; exact h1
      simp only [hx, if_true, h1, h2]
      exact ih
    · simp only [hx, Bool.false_eq_true, if_false]
      split
      · rfl
      · exact ih

theorem findCluster_setCluster_ne (s : Store) (c : Cluster) (n : String) (h : c.name ≠ n) :
    (s.setCluster c).findCluster n = s.findCluster n := by
  unfold Store.setCluster Store.findCluster
  exact find?_setCluster_ne s.clusters c n h

/-- a successful commit of cluster `name` does not touch the other clusters -/
theorem commitCore_ok_others {s s1 : Store} {name : String} {ranges : RangeList} {e : Nat}
    (h : commitMigrationCore s name ranges e false = (s1, R.ok ())) (n : String) (hn : n ≠ name) :
    s1.findCluster n = s.findCluster n := by
  unfold commitMigrationCore at h
  dsimp only at h
  split at h
  · cases h
  · rename_i cl hcl
    have hname : cl.name = name := Store.findCluster_name hcl
    simp only [Bool.false_eq_true, if_false] at h
    split at h
    · cases h
    · split at h
      · cases h
      · injection h with h1 _
        subst h1
        rw [Store.findCluster_bump]
        apply findCluster_setCluster_ne
        simp only
        rw [hname]; exact fun hh => hn hh.symm

/-- everything the round needs to know about one `commit_migration` call -/
theorem commit_facts {s : Store} (hinv : CInv s) (name : String) (ranges : RangeList) (e : Nat) :
    let p := commitMigrationCore s name ranges e false
    (p.2 = R.ok () ∨ p.2 = R.err Err.clusterNotFound ∨ p.2 = R.err Err.migrationTaskNotFound) ∧
    CInv p.1 ∧ ¬ PendingIn p.1 name ranges e ∧
    (∀ n r k, ¬ PendingIn s n r k → ¬ PendingIn p.1 n r k) := by
  dsimp only
  rcases commitCore_outcomes s name ranges e false with ⟨s1, h⟩ | h | ⟨ht, _⟩ | h
  · rw [h]
    cases hf : s.findCluster name with
    | none =>
      exfalso
      unfold commitMigrationCore at h
      simp only [hf] at h
      cases h
    | some c =>
      obtain ⟨c1, m, hf1, hinv1, hm, hmig, hr, he, hperm, _⟩ := commitCore_ok_spec hf (hinv name c hf) h
      obtain ⟨_, hnp⟩ := commitCore_twice hf (hinv name c hf) h
      refine ⟨Or.inl rfl, ?_, hnp, ?_⟩
      · intro n c' hc'
        by_cases hn : n = name
        · subst hn; rw [hf1] at hc'; cases hc'; exact hinv1
        · rw [commitCore_ok_others h n hn] at hc'; exact hinv n c' hc'
      · intro n r k hnot ⟨c', hc', x, hx, hxm, hxr, hxe⟩
        apply hnot
        by_cases hn : n = name
        · subst hn
          rw [hf1] at hc'; cases hc'
          have hxp : x ∈ Cluster.pending c1 := List.mem_filter.mpr ⟨hx, hxm⟩
          have : x ∈ Cluster.pending c := hperm.mem_iff.mpr (List.mem_cons_of_mem _ hxp)
          exact ⟨c, hf, x, (List.mem_filter.mp this).1, hxm, hxr, hxe⟩
        · rw [commitCore_ok_others h n hn] at hc'
          exact ⟨c', hc', x, hx, hxm, hxr, hxe⟩
  · rw [h]
    refine ⟨Or.inr (Or.inl rfl), hinv, ?_, fun _ _ _ hh => hh⟩
    rintro ⟨c, hc, _⟩
    unfold commitMigrationCore at h
    simp only [hc] at h
    split at h <;> (try split at h) <;> (try split at h) <;>
      (have h2 := congrArg Prod.snd h; simp only at h2; cases h2)
  · cases ht
  · rw [h]
    refine ⟨Or.inr (Or.inr rfl), hinv, ?_, fun _ _ _ hh => hh⟩
    rintro ⟨c, hc, m, hm, hmig, hr, he⟩
    subst hr he
    obtain ⟨_, _, _, _, _, _, _, _, _, _, hcore⟩ := commitCore_pending (s := s) hc (hinv name c hc) hm hmig
    rw [hcore] at h
    have h2 := congrArg Prod.snd h
    cases h2


/-- stores reachable by `commit_migration` calls -/
inductive CommitReach (b0 : Store) : Store → Prop where
  | refl : CommitReach b0 b0
  | step {b : Store} (name : String) (ranges : RangeList) (e : Nat) :
      CommitReach b0 b → CommitReach b0 (commitMigrationCore b name ranges e false).1

theorem CommitReach.trans {a b c : Store} (h1 : CommitReach a b) (h2 : CommitReach b c) : CommitReach a c := by
  induction h2 with
  | refl => exact h1
  | step name ranges e _ ih => exact CommitReach.step name ranges e ih

/-- commits only remove pending entries, and keep the commit invariant -/
theorem commitReach_facts {b b' : Store} (h : CommitReach b b') (hinv : CInv b) :
    CInv b' ∧ ∀ n r k, ¬ PendingIn b n r k → ¬ PendingIn b' n r k := by
  induction h with
  | refl => exact ⟨hinv, fun _ _ _ h => h⟩
  | step name ranges e _ ih =>
    obtain ⟨_, h2, _, h4⟩ := commit_facts ih.1 name ranges e
    exact ⟨h2, fun n r k hn => h4 n r k (ih.2 n r k hn)⟩

/-! ## the premise of the fault-free suffix -/

/-- every address is served without a panic, and every registered address has a running process
whose announce host is the host of the nodes the broker serves for it — now and after any commits -/
def AllOk (s : Sys) : Prop :=
  ∀ b', CommitReach s.broker b' → ∀ x,
    proxyView b' x s.limit = R.ok none ∨
    ∃ v p, proxyView b' x s.limit = R.ok (some v) ∧ s.findP x = some p ∧ p.up = true ∧
      hostsOk p.host (mkCMeta s.compress v) = true ∧ replHostsOk p.host (mkRMeta v) = true

theorem reach_static {s t : Sys} (h : Reach s t) :
    t.limit = s.limit ∧ t.compress = s.compress ∧ t.quorum = s.quorum := by
  induction h with
  | refl => exact ⟨rfl, rfl, rfl⟩
  | tail _ hs ih =>
    cases hs with
    | exec c ch =>
      obtain ⟨_, h2, h3, h4⟩ := exec_static _ c ch
      exact ⟨h2.trans ih.1, h3.trans ih.2.1, h4.trans ih.2.2⟩
    | bag b => exact ih

/-- invariant of a fault-free migration round started in `s0` -/
structure MInv (s0 : Sys) (st : RS) : Prop where
  ff : FF st
  limit : st.sys.limit = s0.limit
  compress : st.sys.compress = s0.compress
  reach : CommitReach s0.broker st.sys.broker
  cinv : CInv st.sys.broker
  le : Sys.le s0 st.sys

theorem MInv.start {s0 : Sys} {st : RS} (h : FF st) (hs : st.sys = s0) (hc : CInv s0.broker) : MInv s0 st := by
  subst hs
  exact ⟨h, rfl, rfl, CommitReach.refl, hc, Sys.le_refl _⟩

/-- re-base the invariant at the current state -/
theorem MInv.rebase {s0 : Sys} {st : RS} (h : MInv s0 st) : MInv st.sys st :=
  ⟨h.ff, rfl, rfl, CommitReach.refl, h.cinv, Sys.le_refl _⟩

theorem AllOk.mono {s0 : Sys} {st : RS} (hok : AllOk s0) (h : MInv s0 st) : AllOk st.sys := by
  intro b' hb x
  rcases hok b' (h.reach.trans hb) x with hnone | ⟨v, p, hv, hp, hup, hh, hr⟩
  · left; rw [h.limit]; exact hnone
  · obtain ⟨p', hp', hle⟩ := h.le.1 x p hp
    right
    refine ⟨v, p', by rw [h.limit]; exact hv, hp', hle.up.trans hup, ?_, ?_⟩
    · rw [hle.host, h.compress]; exact hh
    · rw [hle.host]; exact hr

/-! ## `send_meta` never fails on a running, well-hosted process -/

theorem setRepl_reply {p : PState} {e : Nat} {r : RMeta} (h : replHostsOk p.host r = true) :
    ((p.setRepl e false r).2 = .ok ∨ (p.setRepl e false r).2 = .oldEpoch) ∧
    (p.setRepl e false r).1.host = p.host ∧ (p.setRepl e false r).1.up = p.up ∧
    (p.setRepl e false r).1.addr = p.addr := by
  unfold PState.setRepl
  simp only [h, Bool.not_true, Bool.false_eq_true, if_false]
  split <;> simp

theorem setCluster_reply {p : PState} {e : Nat} {m : CMeta} (h : hostsOk p.host m = true) :
    (p.setCluster e false m).2 = .ok ∨ (p.setCluster e false m).2 = .oldEpoch := by
  unfold PState.setCluster
  simp only [h, Bool.not_true, Bool.false_eq_true, if_false]
  split <;> simp

theorem sendMeta_true {st : RS} (h : FF st) {v : VProxy} {p : PState} (hp : st.sys.findP v.address = some p)
    (hup : p.up = true) (hh : hostsOk p.host (mkCMeta st.sys.compress v) = true)
    (hr : replHostsOk p.host (mkRMeta v) = true) : (sendMeta noHook st v).2 = true := by
  obtain ⟨c1, c2, c3⟩ := call_connect_up h hp hup
  have hp1 : (st.call noHook (.connect v.address)).1.sys.findP v.address = some p := by rw [c2]; exact hp
  obtain ⟨d1, d2, d3⟩ := call_setRepl_up c3 hp1 hup v.epoch (mkRMeta v)
  obtain ⟨a1, a2, a3, a4⟩ := setRepl_reply (p := p) (e := v.epoch) hr
  generalize hq : p.setRepl v.epoch false (mkRMeta v) = q at *
  have hq1 : ((st.call noHook (.connect v.address)).1.call noHook (.setRepl v.address v.epoch (mkRMeta v))).1.sys.findP
      v.address = some q.1 := by
    rw [d2]; exact findP_setP_self hp1 (a4.trans (findP_addr hp))
  obtain ⟨e1, _, _⟩ := call_setCluster_up d3 hq1 (a3.trans hup) v.epoch (mkCMeta st.sys.compress v)
  have b1 := setCluster_reply (p := q.1) (e := v.epoch) (m := mkCMeta st.sys.compress v) (by rw [a2]; exact hh)
  have hm1 : metaOk (some (CallReply.mrep q.2)) = true := by
    rcases a1 with a1 | a1 <;> rw [a1] <;> rfl
  have hm2 : metaOk (some (CallReply.mrep (q.1.setCluster v.epoch false (mkCMeta st.sys.compress v)).2)) = true := by
    rcases b1 with b1 | b1 <;> rw [b1] <;> rfl
  unfold sendMeta
  dsimp only
  simp only [c1, d1, hm1, if_true, e1, hm2]

/-- `get_proxy` + `send_meta` succeeds for every address under `AllOk` and leaves the broker alone -/
theorem retrieveAndSend_true {st : RS} (h : FF st) (hok : AllOk st.sys) (x : String) :
    (retrieveAndSend noHook st x).2 = true := by
  unfold retrieveAndSend
  dsimp only
  obtain ⟨f0, r0, hpx, hcase⟩ := call_getProxy_ff h x
  obtain ⟨h1, _, _⟩ := call_ff' h (.getProxy x) (by intro y hy; cases hy)
  rcases hok st.sys.broker CommitReach.refl x with hnone | ⟨v, p, hv, hp, hup, hh, hr⟩
  · have : (st.call noHook (.getProxy x)).2 = some (.proxy none) := by
      rw [h1]; simp only [exec, hnone]
    simp only [this]
  · have hrep : (st.call noHook (.getProxy x)).2 = some (.proxy (some v)) := by
      rw [h1]; simp only [exec, hv]
    simp only [hrep]
    have hva := proxyView_address hv
    have hp' : (st.call noHook (.getProxy x)).1.sys.findP v.address = some p := by
      rw [hva, findP_of_proxies_eq hpx]; exact hp
    have hc : (st.call noHook (.getProxy x)).1.sys.compress = st.sys.compress := (r0 x).compress
    exact sendMeta_true f0 hp' hup (by rw [hc]; exact hh) hr


/-! ## the `commit` call -/

theorem status_clusterNotFound : statusOf Err.clusterNotFound.code = Um.Gen.Coord.COMMIT_OK_STATUS := by decide
theorem status_taskNotFound : statusOf Err.migrationTaskNotFound.code = Um.Gen.Coord.COMMIT_OK_STATUS := by decide

theorem exec_commit_tagged (s : Sys) (hinv : CInv s.broker) {t : Task} {mi : MigInfo}
    (ht : tagInfo t.sr.tag = some mi) (ch : String) :
    (∃ code, (exec s (.commit t) ch).2 = .unit code) ∧
    (exec s (.commit t) ch).1 =
      { s with broker := (commitMigrationCore s.broker t.cluster t.sr.ranges (taskEpoch t) false).1 } := by
  obtain ⟨hk, _, _, _⟩ := commit_facts hinv t.cluster t.sr.ranges (taskEpoch t)
  have key : ∀ tn : Bool, tn = false →
      (∃ code, (match (commitMigration s.broker t.cluster t.sr.ranges (taskEpoch t) tn false).2 with
        | R.ok _ => (({ s with broker := keepOnPanic s.broker (commitMigration s.broker t.cluster t.sr.ranges (taskEpoch t) tn false) } : Sys), CallReply.unit "")
        | R.err e =>
          if statusOf e.code == Um.Gen.Coord.COMMIT_OK_STATUS then
            ({ s with broker := keepOnPanic s.broker (commitMigration s.broker t.cluster t.sr.ranges (taskEpoch t) tn false) }, CallReply.unit e.code)
          else if statusOf e.code == Um.Gen.Coord.COMMIT_RETRY_STATUS then
            ({ s with broker := keepOnPanic s.broker (commitMigration s.broker t.cluster t.sr.ranges (taskEpoch t) tn false) }, CallReply.fail ("Retry:" ++ e.code))
          else ({ s with broker := keepOnPanic s.broker (commitMigration s.broker t.cluster t.sr.ranges (taskEpoch t) tn false) }, CallReply.fail ("InvalidReply:" ++ e.code))
        | _ => ({ s with broker := keepOnPanic s.broker (commitMigration s.broker t.cluster t.sr.ranges (taskEpoch t) tn false) }, CallReply.fail "PANIC")).2 = .unit code) ∧
      (match (commitMigration s.broker t.cluster t.sr.ranges (taskEpoch t) tn false).2 with
        | R.ok _ => (({ s with broker := keepOnPanic s.broker (commitMigration s.broker t.cluster t.sr.ranges (taskEpoch t) tn false) } : Sys), CallReply.unit "")
        | R.err e =>
          if statusOf e.code == Um.Gen.Coord.COMMIT_OK_STATUS then
            ({ s with broker := keepOnPanic s.broker (commitMigration s.broker t.cluster t.sr.ranges (taskEpoch t) tn false) }, CallReply.unit e.code)
          else if statusOf e.code == Um.Gen.Coord.COMMIT_RETRY_STATUS then
            ({ s with broker := keepOnPanic s.broker (commitMigration s.broker t.cluster t.sr.ranges (taskEpoch t) tn false) }, CallReply.fail ("Retry:" ++ e.code))
          else ({ s with broker := keepOnPanic s.broker (commitMigration s.broker t.cluster t.sr.ranges (taskEpoch t) tn false) }, CallReply.fail ("InvalidReply:" ++ e.code))
        | _ => ({ s with broker := keepOnPanic s.broker (commitMigration s.broker t.cluster t.sr.ranges (taskEpoch t) tn false) }, CallReply.fail "PANIC")).1 =
        { s with broker := (commitMigrationCore s.broker t.cluster t.sr.ranges (taskEpoch t) false).1 } := by
    intro tn htn
    subst htn
    rw [commitMigration_noclear]
    generalize commitMigrationCore s.broker t.cluster t.sr.ranges (taskEpoch t) false = p at *
    obtain ⟨p1, p2⟩ := p
    simp only at hk
    rcases hk with hk | hk | hk
    · subst hk; exact ⟨⟨_, rfl⟩, rfl⟩
    · subst hk
      simp only [keepOnPanic, status_clusterNotFound, beq_self_eq_true, if_true]
      first | exact ⟨⟨_, rfl⟩, rfl⟩ | exact ⟨⟨_, rfl⟩, trivial⟩
    · subst hk
      simp only [keepOnPanic, status_taskNotFound, beq_self_eq_true, if_true]
      first | exact ⟨⟨_, rfl⟩, rfl⟩ | exact ⟨⟨_, rfl⟩, trivial⟩
  cases htag : t.sr.tag with
  | none => rw [htag] at ht; cases ht
  | migrating m =>
    simp only [exec, htag]
    exact key false rfl
  | importing m =>
    simp only [exec, htag]
    exact key false rfl

theorem call_commit_ff {st : RS} (h : FF st) (hinv : CInv st.sys.broker) {t : Task} {mi : MigInfo}
    (ht : tagInfo t.sr.tag = some mi) :
    (∃ code, (st.call noHook (.commit t)).2 = some (.unit code)) ∧ FF (st.call noHook (.commit t)).1 ∧
    (st.call noHook (.commit t)).1.sys.broker =
      (commitMigrationCore st.sys.broker t.cluster t.sr.ranges (taskEpoch t) false).1 ∧
    (st.call noHook (.commit t)).1.sys.proxies = st.sys.proxies ∧
    (st.call noHook (.commit t)).1.sys.limit = st.sys.limit ∧
    (st.call noHook (.commit t)).1.sys.compress = st.sys.compress := by
  obtain ⟨h1, h2, h3⟩ := call_ff' h (.commit t) (by intro y hy; cases hy)
  obtain ⟨⟨code, e1⟩, e2⟩ := exec_commit_tagged st.sys hinv ht "-"
  rw [e1] at h1
  rw [e2] at h2
  exact ⟨⟨code, h1⟩, h3, by rw [h2], by rw [h2], by rw [h2], by rw [h2]⟩

theorem Sys.le_of_findP_eq {s s' : Sys} (h : ∀ a, s'.findP a = s.findP a) : Sys.le s s' :=
  ⟨fun a p hp => ⟨p, by rw [h a]; exact hp, PLe.refl p⟩, fun a p' hp' => ⟨p', by rw [← h a]; exact hp'⟩⟩

/-- `sync_migration_state`, fault-free: the task is committed (or found already gone), both
sends succeed -/
theorem syncMigrationState_ff {s0 : Sys} {st : RS} (h : MInv s0 st) (hok : AllOk s0) {t : Task} {mi : MigInfo}
    (ht : tagInfo t.sr.tag = some mi) :
    (syncMigrationState noHook st t).2 = true ∧ MInv s0 (syncMigrationState noHook st t).1 ∧
    CommitReach st.sys.broker (syncMigrationState noHook st t).1.sys.broker ∧
    Sys.le st.sys (syncMigrationState noHook st t).1.sys ∧
    ¬ PendingIn (syncMigrationState noHook st t).1.sys.broker t.cluster t.sr.ranges (taskEpoch t) := by
  obtain ⟨⟨code, c1⟩, c2, c3, c4, c5, c6⟩ := call_commit_ff h.ff h.cinv ht
  obtain ⟨_, k2, k3, _⟩ := commit_facts h.cinv t.cluster t.sr.ranges (taskEpoch t)
  -- state after the commit
  have hreach1 : CommitReach st.sys.broker (st.call noHook (.commit t)).1.sys.broker := by
    rw [c3]; exact CommitReach.step _ _ _ CommitReach.refl
  have hle1 : Sys.le st.sys (st.call noHook (.commit t)).1.sys :=
    Sys.le_of_findP_eq (fun a => findP_of_proxies_eq c4 a)
  have m1 : MInv s0 (st.call noHook (.commit t)).1 :=
    ⟨c2, c5.trans h.limit, c6.trans h.compress, h.reach.trans hreach1, by rw [c3]; exact k2, Sys.le_trans h.le hle1⟩
  -- destination
  have ok1 := hok.mono m1
  have d2 := retrieveAndSend_true m1.ff ok1 mi.dstProxy
  obtain ⟨df, dfr⟩ := retrieveAndSend_frame m1.ff mi.dstProxy
  have dle : Sys.le (st.call noHook (.commit t)).1.sys (retrieveAndSend noHook (st.call noHook (.commit t)).1 mi.dstProxy).1.sys :=
    reach_le (retrieveAndSend_reach noHook_ok _ _)
  have m2 : MInv s0 (retrieveAndSend noHook (st.call noHook (.commit t)).1 mi.dstProxy).1 :=
    ⟨df, dfr.limit.trans m1.limit, dfr.compress.trans m1.compress, by rw [dfr.broker]; exact m1.reach,
      by rw [dfr.broker]; exact m1.cinv, Sys.le_trans m1.le dle⟩
  -- source
  have ok2 := hok.mono m2
  have s2 := retrieveAndSend_true m2.ff ok2 mi.srcProxy
  obtain ⟨sf, sfr⟩ := retrieveAndSend_frame m2.ff mi.srcProxy
  have sle := reach_le (retrieveAndSend_reach noHook_ok
    (retrieveAndSend noHook (st.call noHook (.commit t)).1 mi.dstProxy).1 mi.srcProxy)
  have m3 : MInv s0 (retrieveAndSend noHook (retrieveAndSend noHook (st.call noHook (.commit t)).1 mi.dstProxy).1 mi.srcProxy).1 :=
    ⟨sf, sfr.limit.trans m2.limit, sfr.compress.trans m2.compress, by rw [sfr.broker]; exact m2.reach,
      by rw [sfr.broker]; exact m2.cinv, Sys.le_trans m2.le sle⟩
  unfold syncMigrationState
  simp only [ht, c1, d2, if_true]
  refine ⟨s2, m3, ?_, Sys.le_trans hle1 (Sys.le_trans dle sle), ?_⟩
  · rw [sfr.broker, dfr.broker]; exact hreach1
  · rw [sfr.broker, dfr.broker, c3]; exact k3


/-! ## the per-proxy loop and the whole round -/

/-- every task a process reports carries a migration tag (true of every process state the model
can produce: `tasksOf` only collects tagged ranges) -/
def WellTagged (s : Sys) : Prop :=
  ∀ x p, s.findP x = some p → ∀ t ∈ p.finished, ∃ mi, tagInfo t.sr.tag = some mi

theorem WellTagged.mono {s s' : Sys} (h : WellTagged s) (hle : Sys.le s s') : WellTagged s' := by
  intro x p' hp' t ht
  obtain ⟨p, hp, hpl⟩ := Sys.le_find hle hp'
  exact h x p hp t (hpl.fin t ht)

theorem syncTasks_ff {s0 : Sys} (hok : AllOk s0) (l : List Task) {st : RS} (h : MInv s0 st)
    (hl : ∀ t ∈ l, ∃ mi, tagInfo t.sr.tag = some mi) :
    (syncTasks noHook st l).2 = true ∧ MInv s0 (syncTasks noHook st l).1 ∧
    CommitReach st.sys.broker (syncTasks noHook st l).1.sys.broker ∧
    Sys.le st.sys (syncTasks noHook st l).1.sys ∧
    ∀ t ∈ l, ¬ PendingIn (syncTasks noHook st l).1.sys.broker t.cluster t.sr.ranges (taskEpoch t) := by
  induction l generalizing st with
  | nil => exact ⟨rfl, h, CommitReach.refl, Sys.le_refl _, fun _ ht => by cases ht⟩
  | cons t ts ih =>
    obtain ⟨mi, hmi⟩ := hl t (List.mem_cons_self)
    obtain ⟨a1, a2, a3, a4, a5⟩ := syncMigrationState_ff h hok hmi
    obtain ⟨b1, b2, b3, b4, b5⟩ := ih a2 (fun x hx => hl x (List.mem_cons_of_mem _ hx))
    unfold syncTasks
    simp only [a1, if_true]
    refine ⟨b1, b2, a3.trans b3, Sys.le_trans a4 b4, ?_⟩
    intro x hx
    rcases List.mem_cons.mp hx with rfl | hx
    · exact (commitReach_facts b3 a2.cinv).2 _ _ _ a5
    · exact b5 x hx

theorem call_infoMgr_up {st : RS} (h : FF st) {a : String} {p : PState} (hp : st.sys.findP a = some p)
    (hup : p.up = true) :
    (st.call noHook (.infoMgr a)).2 = some (.tasks p.finished) ∧ (st.call noHook (.infoMgr a)).1.sys = st.sys ∧
      FF (st.call noHook (.infoMgr a)).1 := by
  obtain ⟨h1, h2, h3⟩ := call_ff' h (.infoMgr a) (by intro x hx; cases hx)
  simp only [exec, hp, hup, if_true] at h1 h2
  exact ⟨h1, h2, h3⟩

theorem mem_sortTasks {l : List Task} {t : Task} : t ∈ sortTasks l ↔ t ∈ l := by
  unfold sortTasks
  exact (List.mergeSort_perm l _).mem_iff

/-- `check_and_sync` on address `a`, fault-free: every task its process reports is committed -/
theorem checkAndSync_ff {s0 : Sys} (hok : AllOk s0) (htag : WellTagged s0) {st : RS} (h : MInv s0 st) (a : String) :
    MInv s0 (checkAndSync noHook st a) ∧ CommitReach st.sys.broker (checkAndSync noHook st a).sys.broker ∧
    Sys.le st.sys (checkAndSync noHook st a).sys ∧
    ∀ p, st.sys.findP a = some p → p.up = true → ∀ t ∈ p.finished,
      ¬ PendingIn (checkAndSync noHook st a).sys.broker t.cluster t.sr.ranges (taskEpoch t) := by
  unfold checkAndSync
  dsimp only
  cases hf : st.sys.findP a with
  | none =>
    obtain ⟨c1, c2, c3⟩ := call_connect_down h.ff (a := a) (fun p hp => by rw [hf] at hp; cases hp)
    simp only [c1]
    refine ⟨⟨c3, by rw [c2]; exact h.limit, by rw [c2]; exact h.compress, by rw [c2]; exact h.reach,
      by rw [c2]; exact h.cinv, by rw [c2]; exact h.le⟩, by rw [c2]; exact CommitReach.refl,
      by rw [c2]; exact Sys.le_refl _, fun p hp => by cases hp⟩
  | some p =>
    cases hup : p.up with
    | false =>
      obtain ⟨c1, c2, c3⟩ := call_connect_down h.ff (a := a) (fun q hq => by rw [hf] at hq; cases hq; exact hup)
      simp only [c1]
      refine ⟨⟨c3, by rw [c2]; exact h.limit, by rw [c2]; exact h.compress, by rw [c2]; exact h.reach,
        by rw [c2]; exact h.cinv, by rw [c2]; exact h.le⟩, by rw [c2]; exact CommitReach.refl,
        by rw [c2]; exact Sys.le_refl _, fun q hq hqu => by cases hq; rw [hup] at hqu; cases hqu⟩
    | true =>
      obtain ⟨c1, c2, c3⟩ := call_connect_up h.ff hf hup
      have hf1 : (st.call noHook (.connect a)).1.sys.findP a = some p := by rw [c2]; exact hf
      obtain ⟨d1, d2, d3⟩ := call_infoMgr_up c3 hf1 hup
      have hsys : ((st.call noHook (.connect a)).1.call noHook (.infoMgr a)).1.sys = st.sys := d2.trans c2
      have m1 : MInv s0 ((st.call noHook (.connect a)).1.call noHook (.infoMgr a)).1 :=
        ⟨d3, by rw [hsys]; exact h.limit, by rw [hsys]; exact h.compress, by rw [hsys]; exact h.reach,
          by rw [hsys]; exact h.cinv, by rw [hsys]; exact h.le⟩
      have htg : ∀ t ∈ sortTasks p.finished, ∃ mi, tagInfo t.sr.tag = some mi := by
        intro t ht
        exact (htag.mono h.le) a p hf t (mem_sortTasks.mp ht)
      obtain ⟨_, e2, e3, e4, e5⟩ := syncTasks_ff hok (sortTasks p.finished) m1 htg
      simp only [c1, d1]
      rw [hsys] at e3 e4
      refine ⟨e2, e3, e4, ?_⟩
      intro q hq _ t ht
      cases hq
      exact e5 t (mem_sortTasks.mpr ht)

/-- what the round has achieved for the addresses in `done` -/
def Committed (done : List String) (s : Sys) : Prop :=
  ∀ a ∈ done, ∀ p, s.findP a = some p → p.up = true → ∀ t ∈ p.finished,
    ¬ PendingIn s.broker t.cluster t.sr.ranges (taskEpoch t)

theorem Committed.mono {done : List String} {s s' : Sys} (h : Committed done s) (hinv : CInv s.broker)
    (hr : CommitReach s.broker s'.broker) (hle : Sys.le s s') : Committed done s' := by
  intro a ha p' hp' hup t ht
  obtain ⟨p, hp, hpl⟩ := Sys.le_find hle hp'
  exact (commitReach_facts hr hinv).2 _ _ _ (h a ha p hp (hpl.up ▸ hup) t (hpl.fin t ht))

theorem mig_fold {s0 : Sys} (hok : AllOk s0) (htag : WellTagged s0) (l : List String) {st : RS} (h : MInv s0 st) :
    MInv s0 (l.foldl (checkAndSync noHook) st) ∧ Committed l (l.foldl (checkAndSync noHook) st).sys ∧
    CommitReach st.sys.broker (l.foldl (checkAndSync noHook) st).sys.broker ∧
    Sys.le st.sys (l.foldl (checkAndSync noHook) st).sys := by
  induction l generalizing st with
  | nil => exact ⟨h, (fun _ ha => nomatch ha), CommitReach.refl, Sys.le_refl _⟩
  | cons a as ih =>
    obtain ⟨a1, a2, a3, a4⟩ := checkAndSync_ff hok htag h a
    obtain ⟨b1, b2, b3, b4⟩ := ih a1
    simp only [List.foldl_cons]
    refine ⟨b1, ?_, a2.trans b3, Sys.le_trans a3 b4⟩
    intro x hx
    rcases List.mem_cons.mp hx with rfl | hx
    · -- committed right after its own step, and nothing comes back
      have hc : Committed [x] (checkAndSync noHook st x).sys := by
        intro y hy p' hp' hup t ht
        have hy' : y = x := by simpa using hy
        subst hy'
        obtain ⟨p, hp, hpl⟩ := Sys.le_find a3 hp'
        exact a4 p hp (hpl.up ▸ hup) t (hpl.fin t ht)
      exact (hc.mono a1.cinv b3 b4) x (List.mem_singleton.mpr rfl)
    · exact b2 x hx

theorem retrieveProxies_ro {st : RS} (h : FF st) :
    FF (retrieveProxies noHook st).1 ∧ (retrieveProxies noHook st).1.sys = st.sys := by
  unfold retrieveProxies
  dsimp only
  obtain ⟨f1, e1⟩ := listFailed_ro h
  obtain ⟨f2, e2⟩ : FF (listProxyAddrs noHook (listFailed noHook st).1).1 ∧ _ :=
    pagedLoop_ro (mk := .proxyAddrs) (fun _ _ _ => rfl) 64 f1 0 []
  exact ⟨f2, e2.trans e1⟩

/-- **one fault-free migration round**: afterwards no polled, running process reports a finished
task that the broker still has pending -/
theorem migBody_commits {st : RS} (h : FF st) (hinv : CInv st.sys.broker) (hok : AllOk st.sys)
    (htag : WellTagged st.sys) :
    MInv st.sys (migBody noHook st) ∧ Committed (retrieveProxies noHook st).2 (migBody noHook st).sys := by
  unfold migBody
  dsimp only
  obtain ⟨f0, e0⟩ := retrieveProxies_ro h
  have m0 : MInv st.sys (retrieveProxies noHook st).1 := MInv.start f0 e0 hinv
  obtain ⟨b1, b2, _, _⟩ := mig_fold hok htag (retrieveProxies noHook st).2 m0
  exact ⟨b1, b2⟩

end Um.Coord
