import UmProofs.BrokerFailoverBalance
import UmProofs.BrokerOrdered
/-!
# C06 — `replace_failed_proxy` = `takeover_master` + (optional) replacement of the failed half

The replacement overwrites the addresses of the failed half of chunk `k`. After the takeover that
half holds only replicas and no migration tag names it, so the replacement changes no slot list.
-/
namespace Um.Broker.C06
open Um Um.Slots Um.Gen.Chunk

/-- chunk `c` with half `h` handed to the new proxy `np` -/
def replHalf (h : Nat) (np : ProxyRes) (c : Chunk) : Chunk :=
  if h = 0 then { c with host0 := np.host, proxy0 := np.addr, node0 := np.node0, node1 := np.node1 }
  else { c with host1 := np.host, proxy1 := np.addr, node2 := np.node0, node3 := np.node1 }

theorem replaceInChunks_eq (p : String) (np : ProxyRes) (chunks : List Chunk) {k h : Nat} {c : Chunk}
    (hf : failedAt p chunks = some (k, h)) (hk : chunks[k]? = some c) :
    replaceInChunks p np chunks = chunks.set k (replHalf h np c) := by
  induction chunks generalizing k with
  | nil => simp [failedAt] at hf
  | cons x rest ih =>
    unfold failedAt at hf
    unfold replaceInChunks
    by_cases h0 : x.proxy0 == p
    · simp only [h0, if_true, Option.some.injEq, Prod.mk.injEq] at hf ⊢
      obtain ⟨rfl, rfl⟩ := hf
      simp only [List.getElem?_cons_zero, Option.some.injEq] at hk
      subst hk
      simp [replHalf]
    · by_cases h1 : x.proxy1 == p
      · simp only [h0, h1, if_true] at hf ⊢
        obtain ⟨rfl, rfl⟩ := hf
        simp only [List.getElem?_cons_zero, Option.some.injEq] at hk
        subst hk
        simp [replHalf]
      · simp only [h0, h1, Bool.false_eq_true, if_false, Option.map_eq_some_iff] at hf ⊢
        obtain ⟨⟨k', h'⟩, hf', he⟩ := hf
        simp only [Prod.mk.injEq] at he
        obtain ⟨rfl, rfl⟩ := he
        simp only [List.getElem?_cons_succ] at hk
        rw [ih hf' hk]
        rfl

/-- after the takeover (`c.role = newRole h`) no migration tag names half `h` -/
theorem half_replHalf (h : Nat) (np : ProxyRes) (c : Chunk) (hh : h < 2) (hr : c.role = newRole h) (q : Nat) :
    halfProxy (replHalf h np c) q = halfProxy c q ∧ halfNode (replHalf h np c) q = halfNode c q := by
  have hh' : h = 0 ∨ h = 1 := by omega
  have hrole : (replHalf h np c).role = c.role := by unfold replHalf; split <;> rfl
  unfold halfProxy halfNode
  rw [hrole, hr]
  rcases hh' with rfl | rfl
  · match q with
    | 0 => simp [replHalf, newRole, partToProxyIndex, partToNodeIndex, tab2, partToProxyIndexTab,
        partToNodeIndexTab, RolePos.idx, Chunk.proxyAt, Chunk.nodeAt]
    | 1 => simp [replHalf, newRole, partToProxyIndex, partToNodeIndex, tab2, partToProxyIndexTab,
        partToNodeIndexTab, RolePos.idx, Chunk.proxyAt, Chunk.nodeAt]
    | n + 2 => simp [newRole, partToProxyIndex, partToNodeIndex, tab2, partToProxyIndexTab,
        partToNodeIndexTab, RolePos.idx]
  · match q with
    | 0 => simp [replHalf, newRole, partToProxyIndex, partToNodeIndex, tab2, partToProxyIndexTab,
        partToNodeIndexTab, RolePos.idx, Chunk.proxyAt, Chunk.nodeAt]
    | 1 => simp [replHalf, newRole, partToProxyIndex, partToNodeIndex, tab2, partToProxyIndexTab,
        partToNodeIndexTab, RolePos.idx, Chunk.proxyAt, Chunk.nodeAt]
    | n + 2 => simp [newRole, partToProxyIndex, partToNodeIndex, tab2, partToProxyIndexTab,
        partToNodeIndexTab, RolePos.idx]

theorem getD_set_half {chunks : List Chunk} {k h : Nat} {np : ProxyRes} {c : Chunk} (hk : chunks[k]? = some c)
    (hh : h < 2) (hr : c.role = newRole h) (i q : Nat) :
    halfProxy (((chunks.set k (replHalf h np c))[i]?).getD default) q = halfProxy ((chunks[i]?).getD default) q ∧
    halfNode (((chunks.set k (replHalf h np c))[i]?).getD default) q = halfNode ((chunks[i]?).getD default) q := by
  rw [List.getElem?_set]
  by_cases hik : k = i
  · subst hik
    have hlt : k < chunks.length := by
      apply Classical.byContradiction; intro hn
      rw [List.getElem?_eq_none (by omega)] at hk; cases hk
    simp only [if_true, hlt, hk, Option.getD_some]
    exact half_replHalf h np c hh hr q
  · rw [if_neg hik]; exact ⟨rfl, rfl⟩

/-- the served descriptor of every entry is the same after the replacement -/
theorem specSlotRange_repl {chunks : List Chunk} {k h : Nat} {np : ProxyRes} {c : Chunk} (hk : chunks[k]? = some c)
    (hh : h < 2) (hr : c.role = newRole h) (m : MigStore) :
    specSlotRange m (chunks.set k (replHalf h np c)) = specSlotRange m chunks := by
  unfold specSlotRange specInfo
  simp only [(getD_set_half (np := np) hk hh hr _ _).1, (getD_set_half (np := np) hk hh hr _ _).2]

theorem specPart_repl {chunks : List Chunk} {k h : Nat} {np : ProxyRes} {c : Chunk} (hk : chunks[k]? = some c)
    (hh : h < 2) (hr : c.role = newRole h) (st : Option RangeList) (migs : List MigStore) :
    specPart st migs (chunks.set k (replHalf h np c)) = specPart st migs chunks := by
  unfold specPart
  congr 1
  exact List.map_congr_left (fun m _ => specSlotRange_repl hk hh hr m)

/-- the cluster after the replacement -/
def replCluster (cl1 : Cluster) (k h : Nat) (np : ProxyRes) (c1 : Chunk) (e : Nat) : Cluster :=
  { cl1 with chunks := cl1.chunks.set k (replHalf h np c1), epoch := e }

/-- **view after the replacement** against the view after the takeover: every node keeps its
slot list (tags included), role and — outside the failed half of chunk `k` — its addresses; the
failed half gets the addresses of the new proxy -/
theorem repl_view {cl1 : Cluster} {k h : Nat} {np : ProxyRes} {c1 : Chunk} (e : Nat) (hk : cl1.chunks[k]? = some c1)
    (hh : h < 2) (hr : c1.role = newRole h) (i j : Nat) (hj : j < 4) {x : Chunk} (hx : cl1.chunks[i]? = some x) :
    ∃ n n', vnode (specView cl1) i j = some n ∧ vnode (specView (replCluster cl1 k h np c1 e)) i j = some n' ∧
      n'.slots = n.slots ∧ n'.replica = n.replica ∧
      (¬ (i = k ∧ j / 2 = h) → n'.address = n.address ∧ n'.proxy = n.proxy) ∧
      ((i = k ∧ j / 2 = h) → n'.proxy = np.addr ∧ n'.address = (if j % 2 = 0 then np.node0 else np.node1)) := by
  have hlt : k < cl1.chunks.length := by
    apply Classical.byContradiction; intro hn
    rw [List.getElem?_eq_none (by omega)] at hk; cases hk
  let y : Chunk := if i = k then replHalf h np c1 else x
  have hy : (cl1.chunks.set k (replHalf h np c1))[i]? = some y := by
    rw [List.getElem?_set]
    by_cases hik : k = i
    · subst hik; simp [hlt, y]
    · have : ¬ i = k := fun e => hik e.symm
      simp [hik, this, hx, y]
  have hxc : i = k → x = c1 := by intro e; subst e; rw [hk] at hx; exact (Option.some.inj hx).symm
  have hrole : y.role = x.role := by
    simp only [y]; split
    · rw [hxc ‹_›]; unfold replHalf; split <;> rfl
    · rfl
  have hst : y.stable0 = x.stable0 ∧ y.stable1 = x.stable1 ∧ y.mig0 = x.mig0 ∧ y.mig1 = x.mig1 := by
    simp only [y]; split
    · rw [hxc ‹_›]; unfold replHalf; split <;> exact ⟨rfl, rfl, rfl, rfl⟩
    · exact ⟨rfl, rfl, rfl, rfl⟩
  refine ⟨specNode x cl1.chunks j, specNode y (cl1.chunks.set k (replHalf h np c1)) j, ?_, ?_, ?_, ?_, ?_, ?_⟩
  · rw [specView_node cl1 i j hj, hx]; rfl
  · rw [specView_node _ i j hj]; simp only [replCluster, hy]; rfl
  · simp only [specNode, hrole, hst.1, hst.2.1, hst.2.2.1, hst.2.2.2, specPart_repl hk hh hr]
  · simp only [specNode, hrole]
  · intro hn
    by_cases hik : i = k
    · have hjh : ¬ j / 2 = h := fun e => hn ⟨hik, e⟩
      have hxc' := hxc hik
      subst hxc'
      have hh' : h = 0 ∨ h = 1 := by omega
      have hj' : j = 0 ∨ j = 1 ∨ j = 2 ∨ j = 3 := by omega
      simp only [y, hik, if_true, specNode]
      rcases hh' with rfl | rfl <;> rcases hj' with rfl | rfl | rfl | rfl <;>
        first
        | (exfalso; exact hjh (by decide))
        | exact ⟨rfl, rfl⟩
    · simp only [y, hik, if_false]; exact ⟨rfl, rfl⟩
  · rintro ⟨hik, hjh⟩
    have hh' : h = 0 ∨ h = 1 := by omega
    have hj' : j = 0 ∨ j = 1 ∨ j = 2 ∨ j = 3 := by omega
    simp only [y, hik, if_true, specNode]
    rcases hh' with rfl | rfl <;> rcases hj' with rfl | rfl | rfl | rfl <;>
      first
      | (exfalso; revert hjh; decide)
      | exact ⟨rfl, rfl⟩

/-! ## `replace_failed_proxy` on the store -/

def markFailed (s : Store) (p : String) : Store :=
  { s with failed := if s.failed.contains p then s.failed else s.failed ++ [p] }

theorem mem_markFailed (s : Store) (p : String) : p ∈ (markFailed s p).failed := by
  unfold markFailed
  by_cases h : s.failed.contains p = true
  · rw [if_pos h]; simpa using h
  · rw [if_neg h]; simp

theorem tail_mem {s : Store} {choice : String} {np : ProxyRes} (cands : List (String × Nat)) (w1 : String)
    (G : ProxyRes → R ProxyRes) (hG : ∀ x y, G x = R.ok y → y = x)
    (h : (if cands.isEmpty = true then R.err Err.noAvailableResource
          else match List.find? (fun x => x.addr == choice) s.freeProxies with
            | none => R.badChoice w1
            | some np => G np) = R.ok np) : np ∈ s.freeProxies := by
  by_cases hc : cands.isEmpty = true
  · rw [if_pos hc] at h; cases h
  · rw [if_neg hc] at h
    cases hfind : List.find? (fun x => x.addr == choice) s.freeProxies with
    | none => rw [hfind] at h; cases h
    | some np' =>
      rw [hfind] at h
      have := hG _ _ h
      subst this
      exact List.mem_of_find?_eq_some hfind

theorem G_id (o : Option (String × Nat)) (w w2 : String) (B : Nat → Bool) (x y : ProxyRes)
    (h : (match o with
          | none => R.badChoice w
          | some (_, cnt) => if B cnt = true then R.badChoice w2 else pure x) = R.ok y) : y = x := by
  cases o with
  | none => cases h
  | some pr =>
    obtain ⟨a, cnt⟩ := pr
    simp only [] at h
    by_cases hb : B cnt = true
    · rw [if_pos hb] at h; cases h
    · rw [if_neg hb] at h; cases h; rfl

theorem generateNewFreeProxy_mem {s : Store} {f choice : String} {np : ProxyRes}
    (h : generateNewFreeProxy s f choice = R.ok np) : np ∈ s.freeProxies := by
  unfold generateNewFreeProxy at h
  simp only [] at h
  cases hfp : s.findProxy f with
  | none => rw [hfp] at h; cases h
  | some fp =>
    rw [hfp] at h
    simp only [] at h
    obtain ⟨row, -, h⟩ := (bind_eq_ok _ _ _).1 h
    refine tail_mem _ _ _ ?_ h
    intro x y hxy
    exact G_id _ _ _ _ _ _ hxy

/-- the three possible shapes of the store after `replace_failed_proxy` of a proxy that sits in a
chunk of its cluster. Normal mode: no replacement (error/rejected choice; the cluster is the one
after the takeover and the proxy is marked failed) or replacement by a proxy that was free, not
failed and unreported after the takeover. Ordered mode (`enable_ordered_proxy`): the takeover, a
second epoch bump, `Ok(None)`; the proxy is neither marked failed nor replaced. -/
theorem replaceFailedProxy_cases {s : Store} {p choice name : String} {pr : ProxyRes} {cl : Cluster} {k h : Nat}
    {c : Chunk} (hp : s.findProxy p = some pr) (hc : pr.cluster = some name) (hcl : s.findCluster name = some cl)
    (hf : failedAt p cl.chunks = some (k, h)) (hk : cl.chunks[k]? = some c) :
    let e := s.globalEpoch + 1
    let cl1 := afterTakeover cl k h e c
    let res := replaceFailedProxy s p choice
    (s.ordered = false ∧
        res.1.findCluster name = some cl1 ∧ (∀ a, res.2 ≠ R.ok a) ∧ res.1.globalEpoch = e ∧ p ∈ res.1.failed ∧
        res.1.proxies = s.proxies ∧ res.1.failures = s.failures ∧
        res.1 = markFailed (takeoverMaster s name p).1 p) ∨
    (s.ordered = false ∧
      ∃ np c1, np ∈ (markFailed (takeoverMaster s name p).1 p).freeProxies ∧ cl1.chunks[k]? = some c1 ∧
        c1.role = newRole h ∧ res.2 = R.ok (some np.addr) ∧ res.1.globalEpoch = e + 1 ∧ p ∈ res.1.failed ∧
        res.1.findCluster name = some (replCluster cl1 k h np c1 (e + 1))) ∨
    (s.ordered = true ∧
        res.1.findCluster name = some cl1 ∧ res.2 = R.ok none ∧ res.1.globalEpoch = e + 1 ∧
        res.1.failed = s.failed ∧ res.1.proxies = s.proxies ∧ res.1.failures = s.failures ∧
        res.1 = (takeoverMaster s name p).1.bump) := by
  intro e cl1 res
  obtain ⟨t2, tge, tprox, tfailed, tfail, tfind⟩ := takeoverMaster_find hcl hf hk
  have tord := Ord.takeoverMaster_ordered s name p
  have hres : res = replaceFailedProxy s p choice := rfl
  unfold replaceFailedProxy at hres
  simp only [hp, hc] at hres
  have hto : takeoverMaster s name p = ((takeoverMaster s name p).1, R.ok ()) := by
    rw [← t2]
  rw [hto] at hres
  simp only at hres
  generalize (takeoverMaster s name p).1 = s1 at *
  by_cases ho : s1.ordered = true
  · -- ordered mode
    rw [if_pos ho] at hres
    right; right
    rw [hres]
    exact ⟨by rw [← tord]; exact ho, tfind, rfl, by show s1.globalEpoch + 1 = e + 1; rw [tge], tfailed, tprox, tfail, rfl⟩
  rw [if_neg ho] at hres
  have ho' : s.ordered = false := by rw [← tord]; simpa using ho
  have hmf : ({ s1 with failed := if s1.failed.contains p = true then s1.failed else s1.failed ++ [p] } : Store)
      = markFailed s1 p := rfl
  rw [hmf] at hres
  have hfind2 : (markFailed s1 p).findCluster name = some cl1 := tfind
  cases hg : generateNewFreeProxy (markFailed s1 p) p choice with
  | ok np =>
    right; left
    refine ⟨ho', ?_⟩
    rw [hg] at hres
    simp only at hres
    have hfind3 : (markFailed s1 p).bump.findCluster name = some cl1 := hfind2
    rw [hfind3] at hres
    simp only at hres
    -- chunk k of cl1
    have hk1 : ∃ c1, cl1.chunks[k]? = some c1 ∧ c1.role = newRole h ∧ failedAt p cl1.chunks = some (k, h) := by
      simp only [cl1, afterTakeover]
      by_cases hr : c.role = newRole h
      · rw [if_pos hr]; exact ⟨c, hk, hr, hf⟩
      · rw [if_neg hr]
        refine ⟨_, tkChunks_get hk hk, ?_, by rw [failedAt_tkChunks hk]; exact hf⟩
        rw [tkChunk_role]; simp
    obtain ⟨c1, hk1, hr1, hf1⟩ := hk1
    have hge : (markFailed s1 p).bump.globalEpoch = e + 1 := by
      show s1.globalEpoch + 1 = e + 1; rw [tge]
    rw [replaceInChunks_eq p np cl1.chunks hf1 hk1, hge] at hres
    refine ⟨np, c1, generateNewFreeProxy_mem hg, hk1, hr1, ?_, ?_, ?_, ?_⟩
    · rw [hres]
    · rw [hres]; exact hge
    · rw [hres]; exact mem_markFailed s1 p
    · rw [hres]
      exact findCluster_setCluster (s := (markFailed s1 p).bump) (c' := replCluster cl1 k h np c1 (e + 1)) hfind3 rfl
  | err er =>
    left; rw [hg] at hres; simp only at hres
    rw [hres]
    exact ⟨ho', hfind2, (fun a ha => by cases ha), tge, mem_markFailed s1 p, tprox, tfail, rfl⟩
  | panic w =>
    left; rw [hg] at hres; simp only at hres
    rw [hres]
    exact ⟨ho', hfind2, (fun a ha => by cases ha), tge, mem_markFailed s1 p, tprox, tfail, rfl⟩
  | badChoice w =>
    left; rw [hg] at hres; simp only at hres
    rw [hres]
    exact ⟨ho', hfind2, (fun a ha => by cases ha), tge, mem_markFailed s1 p, tprox, tfail, rfl⟩

end Um.Broker.C06
