import UmModel.Broker
/-!
# Lemma library about `Counts` and `LinkTable` (chunk allocator of the broker)

Used by `UmProofs/BrokerResAlloc.lean` (C12). Nothing here depends on reachability.
-/
namespace Um.Broker
open Um Um.Slots

/-! ## generic `foldl` facts -/

theorem foldl_preserve {α β} (f : β → α → β) (P : β → Prop) (l : List α)
    (hpres : ∀ t y, y ∈ l → P t → P (f t y)) : ∀ init, P init → P (l.foldl f init) := by
  induction l with
  | nil => intro init h; exact h
  | cons x xs ih =>
    intro init h
    simp only [List.foldl_cons]
    exact ih (fun t y hy => hpres t y (List.mem_cons_of_mem _ hy)) _ (hpres _ _ (List.mem_cons_self) h)

theorem foldl_establish {α β} (f : β → α → β) (P : β → Prop) (l : List α) (x : α) (hx : x ∈ l)
    (hpres : ∀ t y, P t → P (f t y)) (hest : ∀ t, P (f t x)) : ∀ init, P (l.foldl f init) := by
  induction l with
  | nil => cases hx
  | cons y ys ih =>
    intro init
    simp only [List.foldl_cons]
    rcases List.mem_cons.1 hx with rfl | hx'
    · exact foldl_preserve f P ys (fun t y _ => hpres t y) _ (hest init)
    · exact ih hx' _

/-! ## `Counts`: keys -/

/-- the hosts of a count table -/
def Counts.keys (c : Counts) : List String := c.map (·.1)

theorem Counts.keys_nil : Counts.keys [] = [] := rfl

theorem Counts.mem_keys_of_mem {c : Counts} {h : String} {n : Nat} (hm : (h, n) ∈ c) : h ∈ c.keys :=
  List.mem_map.2 ⟨(h, n), hm, rfl⟩

theorem Counts.mem_keys_iff {c : Counts} {h : String} : h ∈ c.keys ↔ ∃ n, (h, n) ∈ c := by
  constructor
  · intro hm
    rcases List.mem_map.1 hm with ⟨⟨h', n⟩, hm', rfl⟩
    exact ⟨n, hm'⟩
  · rintro ⟨n, hm⟩; exact Counts.mem_keys_of_mem hm

theorem Counts.any_key_iff (c : Counts) (h : String) : c.any (·.1 == h) = true ↔ h ∈ c.keys := by
  simp only [List.any_eq_true, beq_iff_eq, Counts.keys, List.mem_map]

theorem Counts.get_isSome_iff (c : Counts) (h : String) : (c.get h).isSome ↔ h ∈ c.keys := by
  unfold Counts.get
  rw [Option.isSome_map, List.find?_isSome]
  simp only [beq_iff_eq, Counts.keys, List.mem_map]

theorem Counts.get_eq_none_iff (c : Counts) (h : String) : c.get h = none ↔ h ∉ c.keys := by
  rw [← Counts.get_isSome_iff]
  cases c.get h <;> simp

/-- with distinct keys, `get` is membership -/
theorem Counts.get_eq_some_iff {c : Counts} (hnd : c.keys.Nodup) (h : String) (n : Nat) :
    c.get h = some n ↔ (h, n) ∈ c := by
  induction c with
  | nil => simp [Counts.get]
  | cons e t ih =>
    have hnd' : (Counts.keys t).Nodup := (List.nodup_cons.1 hnd).2
    have hnot : e.1 ∉ Counts.keys t := (List.nodup_cons.1 hnd).1
    by_cases he : e.1 = h
    · have : Counts.get (e :: t) h = some e.2 := by
        simp [Counts.get, he]
      rw [this]
      constructor
      · intro hh
        have : e = (h, n) := by
          cases e; simp only [Option.some.injEq] at hh; simp_all
        rw [this]; exact List.mem_cons_self
      · intro hm
        rcases List.mem_cons.1 hm with heq | hm'
        · rw [← heq]
        · exact absurd (Counts.mem_keys_of_mem hm') (he ▸ hnot)
    · have : Counts.get (e :: t) h = Counts.get t h := by
        simp [Counts.get, he]
      rw [this, ih hnd']
      constructor
      · intro hm; exact List.mem_cons_of_mem _ hm
      · intro hm
        rcases List.mem_cons.1 hm with heq | hm'
        · exact absurd (by rw [← heq]) he
        · exact hm'

/-! ## `Counts`: `inc`, `touch`, `dec`, `map`-style updates -/

theorem Counts.keys_inc (c : Counts) (h : String) :
    (c.inc h).keys = if h ∈ c.keys then c.keys else c.keys ++ [h] := by
  unfold Counts.inc
  by_cases hk : h ∈ c.keys
  · rw [if_pos ((Counts.any_key_iff c h).2 hk), if_pos hk]
    simp only [Counts.keys, List.map_map]
    apply List.map_congr_left
    intro e _
    simp only [Function.comp_apply]
    split <;> rfl
  · have : ¬ (c.any (·.1 == h) = true) := fun hh => hk ((Counts.any_key_iff c h).1 hh)
    rw [if_neg this, if_neg hk]
    simp [Counts.keys]

theorem Counts.mem_keys_inc (c : Counts) (h x : String) : x ∈ (c.inc h).keys ↔ x ∈ c.keys ∨ x = h := by
  rw [Counts.keys_inc]
  by_cases hk : h ∈ c.keys
  · rw [if_pos hk]
    constructor
    · intro hx; exact Or.inl hx
    · rintro (hx | rfl)
      · exact hx
      · exact hk
  · rw [if_neg hk]; simp

theorem Counts.nodup_keys_inc (c : Counts) (h : String) (hnd : c.keys.Nodup) : (c.inc h).keys.Nodup := by
  rw [Counts.keys_inc]
  by_cases hk : h ∈ c.keys
  · rw [if_pos hk]; exact hnd
  · rw [if_neg hk]
    rw [List.nodup_append]
    refine ⟨hnd, List.pairwise_singleton _ _, ?_⟩
    intro a ha b hb
    simp only [List.mem_singleton] at hb
    subst hb
    intro hab; subst hab; exact hk ha

theorem Counts.keys_touch (c : Counts) (h : String) :
    (c.touch h).keys = if h ∈ c.keys then c.keys else c.keys ++ [h] := by
  unfold Counts.touch
  by_cases hk : h ∈ c.keys
  · rw [if_pos ((Counts.any_key_iff c h).2 hk), if_pos hk]
  · have : ¬ (c.any (·.1 == h) = true) := fun hh => hk ((Counts.any_key_iff c h).1 hh)
    rw [if_neg this, if_neg hk]
    simp [Counts.keys]

theorem Counts.mem_keys_touch (c : Counts) (h x : String) : x ∈ (c.touch h).keys ↔ x ∈ c.keys ∨ x = h := by
  rw [Counts.keys_touch]
  by_cases hk : h ∈ c.keys
  · rw [if_pos hk]
    constructor
    · intro hx; exact Or.inl hx
    · rintro (hx | rfl)
      · exact hx
      · exact hk
  · rw [if_neg hk]; simp

/-- overwrite the value of key `h` (used by `removeRedundant`) -/
theorem Counts.keys_set (c : Counts) (h : String) (v : Nat) :
    Counts.keys (c.map fun e => if e.1 == h then (e.1, v) else e) = c.keys := by
  simp only [Counts.keys, List.map_map]
  apply List.map_congr_left
  intro e _
  simp only [Function.comp_apply]
  split <;> rfl

theorem Counts.keys_dec (c : Counts) (h : String) : (c.dec h).keys = c.keys := by
  unfold Counts.dec
  simp only [Counts.keys, List.map_map]
  apply List.map_congr_left
  intro e _
  simp only [Function.comp_apply]
  split <;> rfl

theorem Counts.dec_of_not_mem (c : Counts) (h : String) (hk : h ∉ c.keys) : c.dec h = c := by
  unfold Counts.dec
  conv => rhs; rw [← List.map_id c]
  apply List.map_congr_left
  intro e he
  have : e.1 ≠ h := fun hh => hk (hh ▸ List.mem_map.2 ⟨e, he, rfl⟩)
  simp [this]

theorem Counts.mem_dec (c : Counts) (a h : String) (m : Nat) :
    (h, m) ∈ c.dec a ↔ (h ≠ a ∧ (h, m) ∈ c) ∨ (h = a ∧ ∃ m', (a, m') ∈ c ∧ m = m' - 1) := by
  unfold Counts.dec
  simp only [List.mem_map]
  constructor
  · rintro ⟨⟨h', m'⟩, hm, heq⟩
    by_cases hh : h' = a
    · subst hh
      simp only [beq_self_eq_true, if_true, Prod.mk.injEq] at heq
      obtain ⟨rfl, rfl⟩ := heq
      exact Or.inr ⟨rfl, m', hm, rfl⟩
    · have : (h' == a) = false := by simpa using hh
      simp only [this] at heq
      obtain ⟨rfl, rfl⟩ := heq
      exact Or.inl ⟨hh, hm⟩
  · rintro (⟨hne, hm⟩ | ⟨rfl, m', hm, rfl⟩)
    · refine ⟨(h, m), hm, ?_⟩
      have : (h == a) = false := by simpa using hne
      simp [this]
    · exact ⟨(h, m'), hm, by simp⟩

/-! ## `sumVal`, `maxVal` -/

theorem Counts.sumVal_foldl (c : Counts) (i : Nat) :
    c.foldl (fun m e => m + e.2) i = i + (c.map (·.2)).sum := by
  induction c generalizing i with
  | nil => simp
  | cons e t ih => simp only [List.foldl_cons, List.map_cons, List.sum_cons, ih]; omega

theorem Counts.sumVal_eq (c : Counts) : c.sumVal = (c.map (·.2)).sum := by
  unfold Counts.sumVal; rw [Counts.sumVal_foldl]; omega

theorem Counts.sumVal_nil : Counts.sumVal [] = 0 := rfl

theorem Counts.sumVal_cons (e : String × Nat) (t : Counts) : Counts.sumVal (e :: t) = e.2 + Counts.sumVal t := by
  simp only [Counts.sumVal_eq, List.map_cons, List.sum_cons]

theorem Counts.maxVal_foldl (c : Counts) (i : Nat) :
    c.foldl (fun m e => max m e.2) i = max i (c.foldl (fun m e => max m e.2) 0) := by
  induction c generalizing i with
  | nil => simp
  | cons e t ih =>
    simp only [List.foldl_cons]
    rw [ih (max i e.2), ih (max 0 e.2)]
    omega

theorem Counts.maxVal_nil : Counts.maxVal [] = 0 := rfl

theorem Counts.maxVal_cons (e : String × Nat) (t : Counts) : Counts.maxVal (e :: t) = max e.2 (Counts.maxVal t) := by
  unfold Counts.maxVal
  simp only [List.foldl_cons]
  rw [Counts.maxVal_foldl]
  omega

theorem Counts.le_maxVal {c : Counts} {h : String} {n : Nat} (hm : (h, n) ∈ c) : n ≤ c.maxVal := by
  induction c with
  | nil => cases hm
  | cons e t ih =>
    rw [Counts.maxVal_cons]
    rcases List.mem_cons.1 hm with heq | hm'
    · subst heq; exact Nat.le_max_left _ _
    · exact Nat.le_trans (ih hm') (Nat.le_max_right _ _)

theorem Counts.sumVal_eq_zero_of_maxVal (c : Counts) (h0 : c.maxVal = 0) : c.sumVal = 0 := by
  induction c with
  | nil => rfl
  | cons e t ih =>
    rw [Counts.maxVal_cons] at h0
    rw [Counts.sumVal_cons, ih (by omega)]
    omega

/-- split the sum at a key -/
theorem Counts.sumVal_split {c : Counts} (hnd : c.keys.Nodup) {a : String} {n : Nat} (hm : (a, n) ∈ c) :
    c.sumVal = n + Counts.sumVal (c.filter (·.1 != a)) := by
  induction c with
  | nil => cases hm
  | cons e t ih =>
    have hnd' : (Counts.keys t).Nodup := (List.nodup_cons.1 hnd).2
    have hnot : e.1 ∉ Counts.keys t := (List.nodup_cons.1 hnd).1
    rcases List.mem_cons.1 hm with heq | hm'
    · subst heq
      have hf : (t.filter (·.1 != a)) = t := by
        apply List.filter_eq_self.2
        intro x hx
        have : x.1 ≠ a := fun hh => hnot (hh ▸ List.mem_map.2 ⟨x, hx, rfl⟩)
        simpa using this
      simp only [List.filter_cons, bne_self_eq_false, Bool.false_eq_true, if_false, hf, Counts.sumVal_cons]
    · have hne : e.1 ≠ a := fun hh => hnot (hh ▸ Counts.mem_keys_of_mem hm')
      have : (e.1 != a) = true := by simpa using hne
      simp only [List.filter_cons, this, if_true, Counts.sumVal_cons]
      rw [ih hnd' hm']; omega

theorem Counts.nodup_keys_filter {c : Counts} (hnd : c.keys.Nodup) (p : String × Nat → Bool) :
    (Counts.keys (c.filter p)).Nodup :=
  List.Nodup.sublist (List.Sublist.map _ List.filter_sublist) hnd

theorem Counts.sumVal_ge_two {c : Counts} (hnd : c.keys.Nodup) {a b : String} {na nb : Nat}
    (ha : (a, na) ∈ c) (hb : (b, nb) ∈ c) (hab : a ≠ b) : na + nb ≤ c.sumVal := by
  rw [Counts.sumVal_split hnd ha]
  have hb' : (b, nb) ∈ c.filter (·.1 != a) := by
    rw [List.mem_filter]; exact ⟨hb, by simpa using Ne.symm hab⟩
  rw [Counts.sumVal_split (Counts.nodup_keys_filter hnd _) hb']
  omega

theorem Counts.sumVal_ge_three {c : Counts} (hnd : c.keys.Nodup) {a b h : String} {na nb nh : Nat}
    (ha : (a, na) ∈ c) (hb : (b, nb) ∈ c) (hh : (h, nh) ∈ c) (hab : a ≠ b) (hah : a ≠ h) (hbh : b ≠ h) :
    na + nb + nh ≤ c.sumVal := by
  rw [Counts.sumVal_split hnd ha]
  have hb' : (b, nb) ∈ c.filter (·.1 != a) := by
    rw [List.mem_filter]; exact ⟨hb, by simpa using Ne.symm hab⟩
  have hh' : (h, nh) ∈ c.filter (·.1 != a) := by
    rw [List.mem_filter]; exact ⟨hh, by simpa using Ne.symm hah⟩
  have := Counts.sumVal_ge_two (Counts.nodup_keys_filter hnd _) hb' hh' hbh
  omega

/-- a positive remainder outside key `a` gives another host with a positive count -/
theorem Counts.exists_pos_of_sumVal_filter (c : Counts) (a : String)
    (hpos : 0 < Counts.sumVal (c.filter (·.1 != a))) : ∃ b n, (b, n) ∈ c ∧ b ≠ a ∧ 0 < n := by
  induction c with
  | nil => simp [Counts.sumVal_nil] at hpos
  | cons e t ih =>
    by_cases he : e.1 = a
    · have : (e.1 != a) = false := by simpa using he
      simp only [List.filter_cons, this, Bool.false_eq_true, if_false] at hpos
      obtain ⟨b, n, hm, hne, hn⟩ := ih hpos
      exact ⟨b, n, List.mem_cons_of_mem _ hm, hne, hn⟩
    · have : (e.1 != a) = true := by simpa using he
      simp only [List.filter_cons, this, if_true, Counts.sumVal_cons] at hpos
      by_cases h0 : 0 < e.2
      · exact ⟨e.1, e.2, List.mem_cons_self, he, h0⟩
      · obtain ⟨b, n, hm, hne, hn⟩ := ih (by omega)
        exact ⟨b, n, List.mem_cons_of_mem _ hm, hne, hn⟩

theorem Counts.sumVal_dec {c : Counts} (hnd : c.keys.Nodup) {a : String} {n : Nat} (hm : (a, n) ∈ c)
    (hn : 0 < n) : (c.dec a).sumVal + 1 = c.sumVal := by
  induction c with
  | nil => cases hm
  | cons e t ih =>
    have hnd' : (Counts.keys t).Nodup := (List.nodup_cons.1 hnd).2
    have hnot : e.1 ∉ Counts.keys t := (List.nodup_cons.1 hnd).1
    rcases List.mem_cons.1 hm with heq | hm'
    · subst heq
      have hd : Counts.dec t a = t := Counts.dec_of_not_mem t a hnot
      have : Counts.dec ((a, n) :: t) a = (a, n - 1) :: Counts.dec t a := by
        simp [Counts.dec]
      rw [this, hd, Counts.sumVal_cons, Counts.sumVal_cons]
      simp only; omega
    · have hne : e.1 ≠ a := fun hh => hnot (hh ▸ Counts.mem_keys_of_mem hm')
      have : Counts.dec (e :: t) a = e :: Counts.dec t a := by
        simp [Counts.dec, hne]
      rw [this, Counts.sumVal_cons, Counts.sumVal_cons]
      have := ih hnd' hm'
      omega

/-! ## `LinkTable` -/

/-- `inc`/`touch` share this shape: update the row of `x` with `g`, or append a fresh row `d` -/
def LinkTable.upd (t : LinkTable) (x : String) (g : Counts → Counts) (d : Counts) : LinkTable :=
  if t.any (·.1 == x) then t.map fun e => if e.1 == x then (e.1, g e.2) else e else t ++ [(x, d)]

theorem LinkTable.inc_eq_upd (t : LinkTable) (a b : String) :
    t.inc a b = t.upd a (fun r => r.inc b) [(b, 1)] := rfl

theorem LinkTable.touch_eq_upd (t : LinkTable) (a b : String) :
    t.touch a b = t.upd a (fun r => r.touch b) [(b, 0)] := rfl

theorem LinkTable.row_nil (a : String) : LinkTable.row [] a = none := rfl

theorem LinkTable.row_cons (e : String × Counts) (t : LinkTable) (a : String) :
    LinkTable.row (e :: t) a = if e.1 = a then some e.2 else LinkTable.row t a := by
  unfold LinkTable.row
  by_cases he : e.1 = a
  · simp [he]
  · simp [he]

theorem LinkTable.any_iff_row (t : LinkTable) (x : String) : t.any (·.1 == x) = true ↔ (t.row x).isSome := by
  unfold LinkTable.row
  rw [Option.isSome_map, List.find?_isSome]
  simp only [List.any_eq_true]

theorem LinkTable.row_map_upd (t : LinkTable) (x a : String) (g : Counts → Counts) :
    LinkTable.row (t.map fun e => if e.1 == x then (e.1, g e.2) else e) a
      = if a = x then (t.row a).map g else t.row a := by
  induction t with
  | nil => simp [LinkTable.row_nil]
  | cons e t ih =>
    rw [List.map_cons, LinkTable.row_cons, LinkTable.row_cons, ih]
    by_cases hex : e.1 = x
    · have hb : (e.1 == x) = true := by simpa using hex
      simp only [hb, if_true]
      by_cases hea : e.1 = a
      · have : a = x := hea ▸ hex
        simp [hea, this]
      · have : ¬ a = x := fun h => hea (by rw [hex, h])
        simp [hea, this]
    · have hb : (e.1 == x) = false := by simpa using hex
      simp only [hb, Bool.false_eq_true, if_false]
      by_cases hea : e.1 = a
      · have : ¬ a = x := fun h => hex (hea ▸ h)
        simp [hea, this]
      · simp [hea]

theorem LinkTable.row_append_single (t : LinkTable) (x a : String) (d : Counts) (hx : t.row x = none) :
    LinkTable.row (t ++ [(x, d)]) a = if a = x then some d else t.row a := by
  induction t with
  | nil =>
    rw [List.nil_append, LinkTable.row_cons, LinkTable.row_nil]
    by_cases h : a = x
    · simp [h]
    · have : ¬ x = a := fun hh => h hh.symm
      simp [h, this]
  | cons e t ih =>
    rw [LinkTable.row_cons] at hx
    by_cases hex : e.1 = x
    · simp [hex] at hx
    · rw [if_neg hex] at hx
      rw [List.cons_append, LinkTable.row_cons, LinkTable.row_cons, ih hx]
      by_cases hea : e.1 = a
      · have : ¬ a = x := fun h => hex (hea ▸ h)
        simp [hea, this]
      · simp [hea]

theorem LinkTable.row_upd (t : LinkTable) (x a : String) (g : Counts → Counts) (d : Counts) :
    (t.upd x g d).row a
      = if a = x then some (match t.row x with | some r => g r | none => d) else t.row a := by
  unfold LinkTable.upd
  by_cases hany : t.any (·.1 == x) = true
  · rw [if_pos hany, LinkTable.row_map_upd]
    by_cases hax : a = x
    · subst hax
      obtain ⟨r, hr⟩ := Option.isSome_iff_exists.1 ((LinkTable.any_iff_row t a).1 hany)
      simp [hr]
    · simp [hax]
  · rw [if_neg hany]
    have hnone : t.row x = none := by
      have := mt (LinkTable.any_iff_row t x).2 hany
      cases h : t.row x with
      | none => rfl
      | some r => simp [h] at this
    rw [LinkTable.row_append_single t x a d hnone, hnone]

/-- `t` knows the link `a → b` -/
def LinkTable.HasLink (t : LinkTable) (a b : String) : Prop :=
  ∃ row, t.row a = some row ∧ ∃ n, (b, n) ∈ row

theorem LinkTable.hasLink_upd_of_hasLink (t : LinkTable) (x : String) (g : Counts → Counts) (d : Counts)
    (hg : ∀ r b, b ∈ Counts.keys r → b ∈ Counts.keys (g r)) (a b : String)
    (h : t.HasLink a b) : (t.upd x g d).HasLink a b := by
  obtain ⟨row, hrow, hm⟩ := h
  unfold LinkTable.HasLink
  rw [LinkTable.row_upd]
  by_cases hax : a = x
  · subst hax
    rw [if_pos rfl, hrow]
    exact ⟨g row, rfl, Counts.mem_keys_iff.1 (hg row b (Counts.mem_keys_iff.2 hm))⟩
  · rw [if_neg hax]; exact ⟨row, hrow, hm⟩

theorem LinkTable.hasLink_inc (t : LinkTable) (x y a b : String) (h : t.HasLink a b) :
    (t.inc x y).HasLink a b := by
  rw [LinkTable.inc_eq_upd]
  exact LinkTable.hasLink_upd_of_hasLink t x _ _
    (fun r b hb => (Counts.mem_keys_inc r y b).2 (Or.inl hb)) a b h

theorem LinkTable.hasLink_touch (t : LinkTable) (x y a b : String) (h : t.HasLink a b) :
    (t.touch x y).HasLink a b := by
  rw [LinkTable.touch_eq_upd]
  exact LinkTable.hasLink_upd_of_hasLink t x _ _
    (fun r b hb => (Counts.mem_keys_touch r y b).2 (Or.inl hb)) a b h

theorem LinkTable.hasLink_touch_self (t : LinkTable) (a b : String) : (t.touch a b).HasLink a b := by
  rw [LinkTable.touch_eq_upd]
  unfold LinkTable.HasLink
  rw [LinkTable.row_upd, if_pos rfl]
  refine ⟨_, rfl, ?_⟩
  cases t.row a with
  | none => exact ⟨0, List.mem_singleton.2 rfl⟩
  | some r => exact Counts.mem_keys_iff.1 ((Counts.mem_keys_touch r b b).2 (Or.inr rfl))

theorem LinkTable.hasLink_inc_self (t : LinkTable) (a b : String) : (t.inc a b).HasLink a b := by
  rw [LinkTable.inc_eq_upd]
  unfold LinkTable.HasLink
  rw [LinkTable.row_upd, if_pos rfl]
  refine ⟨_, rfl, ?_⟩
  cases t.row a with
  | none => exact ⟨1, List.mem_singleton.2 rfl⟩
  | some r => exact Counts.mem_keys_iff.1 ((Counts.mem_keys_inc r b b).2 (Or.inr rfl))

theorem LinkTable.row_isSome_upd (t : LinkTable) (x a : String) (g : Counts → Counts) (d : Counts)
    (h : (t.row a).isSome) : ((t.upd x g d).row a).isSome := by
  rw [LinkTable.row_upd]
  by_cases hax : a = x
  · rw [if_pos hax]; rfl
  · rw [if_neg hax]; exact h

theorem LinkTable.row_isSome_upd_self (t : LinkTable) (x : String) (g : Counts → Counts) (d : Counts) :
    ((t.upd x g d).row x).isSome := by
  rw [LinkTable.row_upd, if_pos rfl]; rfl

theorem LinkTable.row_isSome_inc (t : LinkTable) (x y a : String) (h : (t.row a).isSome) :
    ((t.inc x y).row a).isSome := by
  rw [LinkTable.inc_eq_upd]; exact LinkTable.row_isSome_upd t x a _ _ h

theorem LinkTable.row_isSome_touch (t : LinkTable) (x y a : String) (h : (t.row a).isSome) :
    ((t.touch x y).row a).isSome := by
  rw [LinkTable.touch_eq_upd]; exact LinkTable.row_isSome_upd t x a _ _ h

theorem LinkTable.row_isSome_inc_self (t : LinkTable) (x y : String) : ((t.inc x y).row x).isSome := by
  rw [LinkTable.inc_eq_upd]; exact LinkTable.row_isSome_upd_self t x _ _

end Um.Broker
